// C13 — metric legs (the SAME file is injected into otlpmetrichttp/internal/transform and
// otlpmetricgrpc/internal/transform: same seeded generator, so both legs print identical line sets when the two
// generated copies agree, and each leg is compared with the Lean model).
// Random hand-built metricdata.ResourceMetrics -> transform.ResourceMetrics -> proto.Marshal -> proto.Unmarshal ->
// canonical dump of the decoded ResourceMetrics message + whether an error was returned.
//
// line: metrics <gen> <caseSeed> <rm> => <ok|err> <dump>
//
//	rm = ( res ( sm… ) ) ; res = ( (attrs) xschemaURL ) ; sm = ( scope ( metric… ) ) ; scope = ( xname xversion xschemaURL (attrs) )
//	metric = ( xname xdescription xunit agg )
//	agg = ( g (dp…) ) | ( s (dp…) temporality monotonic ) | ( h (hp…) temporality ) | ( x (ep…) temporality ) | ( y (sp…) ) | ( u )
//	num = ( i n ) | ( f f<bits> ) ; ext = - | num
//	dp = ( (attrs) start time num (ex…) ) ; ex = ( (attrs) time num xspanid xtraceid )
//	hp = ( (attrs) start time count (f<bound>…) (count…) ext ext num (ex…) )
//	ep = ( (attrs) start time count ext ext num scale zeroCount ( offset (count…) ) ( offset (count…) ) f<zeroThreshold> (ex…) )
//	sp = ( (attrs) start time count f<sum> ( ( f<quantile> f<value> )… ) )
package transform

import (
	"math"
	"testing"
	"time"

	"go.opentelemetry.io/otel/attribute"
	"go.opentelemetry.io/otel/sdk/instrumentation"
	"go.opentelemetry.io/otel/sdk/metric/metricdata"
	"go.opentelemetry.io/otel/sdk/resource"
	mpb "go.opentelemetry.io/proto/otlp/metrics/v1"
)

type c13N interface{ int64 | float64 }

func c13GenNum[N c13N](r *vRand) N {
	var z N
	if _, ok := any(z).(int64); ok {
		return N(c13Int(r))
	}
	return N(c13Float(r, true))
}

func c13PrintNum[N c13N](w *c13W, v N) {
	w.open()
	switch x := any(v).(type) {
	case int64:
		w.tok("i")
		w.i64(x)
	case float64:
		w.tok("f")
		w.f64(x)
	}
	w.close()
}

func c13GenSet(r *vRand) attribute.Set {
	kvs := c13SetKVs(r, 3, true)
	if len(kvs) == 0 && r.Bool() {
		return attribute.Set{}
	}
	return attribute.NewSet(kvs...)
}

func c13GenTime(r *vRand) time.Time {
	if r.Intn(10) == 0 {
		return time.Time{}
	}
	return time.Unix(0, c13TimeNanos(r))
}

func c13GenIDBytes(r *vRand, n int) []byte {
	switch r.Intn(5) {
	case 0:
		return nil
	case 1:
		return []byte{}
	case 2:
		return make([]byte, n)
	case 3:
		return []byte{1, 2, 3} // wrong length: copied verbatim
	}
	b := make([]byte, n)
	for i := range b {
		b[i] = byte(r.U64())
	}
	return b
}

func c13GenExemplars[N c13N](r *vRand) []metricdata.Exemplar[N] {
	n := r.Intn(3)
	if r.Bool() {
		n = 0
	}
	if n == 0 {
		return nil
	}
	out := make([]metricdata.Exemplar[N], n)
	for i := range out {
		out[i] = metricdata.Exemplar[N]{FilteredAttributes: c13KVs(r, 2), Time: c13GenTime(r), Value: c13GenNum[N](r),
			SpanID: c13GenIDBytes(r, 8), TraceID: c13GenIDBytes(r, 16)}
	}
	return out
}

func c13GenExt[N c13N](r *vRand) metricdata.Extrema[N] {
	if r.Intn(3) == 0 {
		return metricdata.Extrema[N]{}
	}
	return metricdata.NewExtrema(c13GenNum[N](r))
}

func c13GenCounts(r *vRand) []uint64 {
	n := r.Intn(5)
	if n == 0 && r.Bool() {
		return nil
	}
	out := make([]uint64, n)
	for i := range out {
		out[i] = c13Uint(r)
	}
	return out
}

func c13GenTemporality(r *vRand, bad bool) metricdata.Temporality {
	if bad || r.Intn(12) == 0 {
		return metricdata.Temporality(vPick(r, []int{0, 3, 255}))
	}
	if r.Bool() {
		return metricdata.CumulativeTemporality
	}
	return metricdata.DeltaTemporality
}

func c13GenDPs[N c13N](r *vRand) []metricdata.DataPoint[N] {
	n := r.Intn(4)
	out := make([]metricdata.DataPoint[N], n)
	for i := range out {
		out[i] = metricdata.DataPoint[N]{Attributes: c13GenSet(r), StartTime: c13GenTime(r), Time: c13GenTime(r),
			Value: c13GenNum[N](r), Exemplars: c13GenExemplars[N](r)}
	}
	return out
}

func c13GenHPs[N c13N](r *vRand) []metricdata.HistogramDataPoint[N] {
	n := r.Intn(3)
	out := make([]metricdata.HistogramDataPoint[N], n)
	for i := range out {
		nb := r.Intn(4)
		bounds := make([]float64, nb)
		for j := range bounds {
			bounds[j] = c13Float(r, true)
		}
		if nb == 0 && r.Bool() {
			bounds = nil
		}
		out[i] = metricdata.HistogramDataPoint[N]{Attributes: c13GenSet(r), StartTime: c13GenTime(r), Time: c13GenTime(r),
			Count: c13Uint(r), Bounds: bounds, BucketCounts: c13GenCounts(r), Min: c13GenExt[N](r), Max: c13GenExt[N](r),
			Sum: c13GenNum[N](r), Exemplars: c13GenExemplars[N](r)}
	}
	return out
}

func c13GenScale(r *vRand) int32 {
	return int32(vPick(r, []int64{0, 1, -1, 20, -10, math.MaxInt32, math.MinInt32, 7}))
}

func c13GenEPs[N c13N](r *vRand, zt int) []metricdata.ExponentialHistogramDataPoint[N] {
	n := r.Intn(3)
	out := make([]metricdata.ExponentialHistogramDataPoint[N], n)
	for i := range out {
		var th float64
		if r.Intn(zt) == 0 {
			th = math.Float64frombits(vPick(r, []uint64{0x3fd0000000000000, 1 << 63, 1, 0x7ff0000000000000}))
		}
		out[i] = metricdata.ExponentialHistogramDataPoint[N]{Attributes: c13GenSet(r), StartTime: c13GenTime(r), Time: c13GenTime(r),
			Count: c13Uint(r), Min: c13GenExt[N](r), Max: c13GenExt[N](r), Sum: c13GenNum[N](r), Scale: c13GenScale(r),
			ZeroCount:      c13Uint(r),
			PositiveBucket: metricdata.ExponentialBucket{Offset: c13GenScale(r), Counts: c13GenCounts(r)},
			NegativeBucket: metricdata.ExponentialBucket{Offset: c13GenScale(r), Counts: c13GenCounts(r)},
			ZeroThreshold:  th, Exemplars: c13GenExemplars[N](r)}
	}
	return out
}

func c13GenSPs(r *vRand) []metricdata.SummaryDataPoint {
	n := r.Intn(3)
	out := make([]metricdata.SummaryDataPoint, n)
	for i := range out {
		nq := r.Intn(3)
		qs := make([]metricdata.QuantileValue, nq)
		for j := range qs {
			qs[j] = metricdata.QuantileValue{Quantile: c13Float(r, true), Value: c13Float(r, true)}
		}
		out[i] = metricdata.SummaryDataPoint{Attributes: c13GenSet(r), StartTime: c13GenTime(r), Time: c13GenTime(r),
			Count: c13Uint(r), Sum: c13Float(r, true), QuantileValues: qs}
	}
	return out
}

// c13GenAgg: kind 0..9 (0/1 gauge, 2/3 sum, 4/5 histogram, 6/7 exponential histogram — int64/float64 —, 8 summary, 9 nil)
func c13GenAgg(r *vRand, kind int, badTemp bool, zt int) metricdata.Aggregation {
	switch kind {
	case 0:
		return metricdata.Gauge[int64]{DataPoints: c13GenDPs[int64](r)}
	case 1:
		return metricdata.Gauge[float64]{DataPoints: c13GenDPs[float64](r)}
	case 2:
		return metricdata.Sum[int64]{DataPoints: c13GenDPs[int64](r), Temporality: c13GenTemporality(r, badTemp), IsMonotonic: r.Bool()}
	case 3:
		return metricdata.Sum[float64]{DataPoints: c13GenDPs[float64](r), Temporality: c13GenTemporality(r, badTemp), IsMonotonic: r.Bool()}
	case 4:
		return metricdata.Histogram[int64]{DataPoints: c13GenHPs[int64](r), Temporality: c13GenTemporality(r, badTemp)}
	case 5:
		return metricdata.Histogram[float64]{DataPoints: c13GenHPs[float64](r), Temporality: c13GenTemporality(r, badTemp)}
	case 6:
		return metricdata.ExponentialHistogram[int64]{DataPoints: c13GenEPs[int64](r, zt), Temporality: c13GenTemporality(r, badTemp)}
	case 7:
		return metricdata.ExponentialHistogram[float64]{DataPoints: c13GenEPs[float64](r, zt), Temporality: c13GenTemporality(r, badTemp)}
	case 8:
		return metricdata.Summary{DataPoints: c13GenSPs(r)}
	}
	return nil
}

func c13GenMetricScope(r *vRand) instrumentation.Scope {
	switch r.Intn(5) {
	case 0:
		return instrumentation.Scope{}
	case 1:
		return instrumentation.Scope{Name: "lib"}
	case 2:
		return instrumentation.Scope{SchemaURL: "https://s/1"}
	default:
		s := instrumentation.Scope{Name: vValidStr(r, 3), Version: vValidStr(r, 2), SchemaURL: vPick(r, []string{"", "https://s/1", "u"})}
		if kvs := c13SetKVs(r, 3, true); len(kvs) > 0 {
			s.Attributes = attribute.NewSet(kvs...)
		}
		return s
	}
}

func c13GenRM(tag string, cs uint64) *metricdata.ResourceMetrics {
	r := &vRand{s: cs}
	rm := &metricdata.ResourceMetrics{}
	switch tag {
	case "fixed":
		// one int64 gauge point whose encoded size does not depend on the seed (as_int is an sfixed64)
		rm.Resource = resource.NewSchemaless(attribute.String("service.name", "fixed"))
		rm.ScopeMetrics = []metricdata.ScopeMetrics{{Scope: instrumentation.Scope{Name: "lib"}, Metrics: []metricdata.Metrics{{Name: "fixed-" + c13Hex16(r.U64()),
			Data: metricdata.Gauge[int64]{DataPoints: []metricdata.DataPoint[int64]{{Attributes: attribute.NewSet(attribute.String("k", c13Hex16(r.U64()))),
				StartTime: time.Unix(1700000000, int64(r.Intn(1000000000))), Time: time.Unix(1700000001, int64(r.Intn(1000000000))), Value: int64(r.U64())}}}}}}}
		return rm
	case "wit-f17":
		// minimal F17 witness: one exponential histogram point with ZeroThreshold 0.25
		rm.ScopeMetrics = []metricdata.ScopeMetrics{{Metrics: []metricdata.Metrics{{Name: "m", Data: metricdata.ExponentialHistogram[float64]{
			Temporality: metricdata.DeltaTemporality,
			DataPoints:  []metricdata.ExponentialHistogramDataPoint[float64]{{Count: 1, Sum: 1, ZeroThreshold: 0.25}}}}}}}
		return rm
	case "empty":
		if r.Bool() {
			rm.Resource = resource.Empty()
		}
		if r.Bool() {
			rm.ScopeMetrics = []metricdata.ScopeMetrics{}
		}
		return rm
	}
	switch r.Intn(5) {
	case 0: // nil resource
	case 1:
		rm.Resource = resource.Empty()
	case 2:
		rm.Resource = resource.NewWithAttributes("https://r/empty")
	default:
		rm.Resource = resource.NewWithAttributes(vPick(r, []string{"", "https://r/1"}), c13SetKVs(r, 3, true)...)
	}
	zt := 40
	if tag == "kinds" {
		// one scope, one metric, the kind swept by the case seed
		rm.ScopeMetrics = []metricdata.ScopeMetrics{{Scope: c13GenMetricScope(r), Metrics: []metricdata.Metrics{{
			Name: vValidStr(r, 3), Description: vValidStr(r, 3), Unit: vValidStr(r, 2), Data: c13GenAgg(r, int(cs%10), false, 1<<30)}}}}
		return rm
	}
	nSc := r.Intn(5)
	var scs []instrumentation.Scope
	for i := 0; i < 2; i++ {
		scs = append(scs, c13GenMetricScope(r))
	}
	for i := 0; i < nSc; i++ {
		sc := c13GenMetricScope(r)
		if r.Intn(3) == 0 {
			sc = scs[r.Intn(2)] // the same scope twice: kept as two ScopeMetrics
		}
		nM := r.Intn(4)
		sm := metricdata.ScopeMetrics{Scope: sc}
		for j := 0; j < nM; j++ {
			sm.Metrics = append(sm.Metrics, metricdata.Metrics{Name: vValidStr(r, 3), Description: vValidStr(r, 3), Unit: vValidStr(r, 2),
				Data: c13GenAgg(r, r.Intn(10), tag == "temporal" && r.Intn(3) == 0, zt)})
		}
		rm.ScopeMetrics = append(rm.ScopeMetrics, sm)
	}
	return rm
}

func c13PrintExt[N c13N](w *c13W, e metricdata.Extrema[N]) {
	if v, ok := e.Value(); ok {
		c13PrintNum(w, v)
	} else {
		w.tok("-")
	}
}

func c13PrintExemplars[N c13N](w *c13W, es []metricdata.Exemplar[N]) {
	w.open()
	for _, e := range es {
		w.open()
		c13PrintKVs(w, e.FilteredAttributes)
		w.i64(e.Time.UnixNano())
		c13PrintNum(w, e.Value)
		w.bytes(e.SpanID)
		w.bytes(e.TraceID)
		w.close()
	}
	w.close()
}

func c13PrintDPs[N c13N](w *c13W, dps []metricdata.DataPoint[N]) {
	w.open()
	for _, d := range dps {
		w.open()
		c13PrintIter(w, d.Attributes.Iter())
		w.i64(d.StartTime.UnixNano())
		w.i64(d.Time.UnixNano())
		c13PrintNum(w, d.Value)
		c13PrintExemplars(w, d.Exemplars)
		w.close()
	}
	w.close()
}

func c13PrintU64s(w *c13W, xs []uint64) {
	w.open()
	for _, x := range xs {
		w.u64(x)
	}
	w.close()
}

func c13PrintHPs[N c13N](w *c13W, dps []metricdata.HistogramDataPoint[N]) {
	w.open()
	for _, d := range dps {
		w.open()
		c13PrintIter(w, d.Attributes.Iter())
		w.i64(d.StartTime.UnixNano())
		w.i64(d.Time.UnixNano())
		w.u64(d.Count)
		w.open()
		for _, b := range d.Bounds {
			w.f64(b)
		}
		w.close()
		c13PrintU64s(w, d.BucketCounts)
		c13PrintExt(w, d.Min)
		c13PrintExt(w, d.Max)
		c13PrintNum(w, d.Sum)
		c13PrintExemplars(w, d.Exemplars)
		w.close()
	}
	w.close()
}

func c13PrintEPs[N c13N](w *c13W, dps []metricdata.ExponentialHistogramDataPoint[N]) {
	w.open()
	for _, d := range dps {
		w.open()
		c13PrintIter(w, d.Attributes.Iter())
		w.i64(d.StartTime.UnixNano())
		w.i64(d.Time.UnixNano())
		w.u64(d.Count)
		c13PrintExt(w, d.Min)
		c13PrintExt(w, d.Max)
		c13PrintNum(w, d.Sum)
		w.i64(int64(d.Scale))
		w.u64(d.ZeroCount)
		for _, b := range []metricdata.ExponentialBucket{d.PositiveBucket, d.NegativeBucket} {
			w.open()
			w.i64(int64(b.Offset))
			c13PrintU64s(w, b.Counts)
			w.close()
		}
		w.f64(d.ZeroThreshold)
		c13PrintExemplars(w, d.Exemplars)
		w.close()
	}
	w.close()
}

func c13PrintAgg(w *c13W, a metricdata.Aggregation) {
	w.open()
	switch x := a.(type) {
	case metricdata.Gauge[int64]:
		w.tok("g")
		c13PrintDPs(w, x.DataPoints)
	case metricdata.Gauge[float64]:
		w.tok("g")
		c13PrintDPs(w, x.DataPoints)
	case metricdata.Sum[int64]:
		w.tok("s")
		c13PrintDPs(w, x.DataPoints)
		w.u64(uint64(x.Temporality))
		w.boolean(x.IsMonotonic)
	case metricdata.Sum[float64]:
		w.tok("s")
		c13PrintDPs(w, x.DataPoints)
		w.u64(uint64(x.Temporality))
		w.boolean(x.IsMonotonic)
	case metricdata.Histogram[int64]:
		w.tok("h")
		c13PrintHPs(w, x.DataPoints)
		w.u64(uint64(x.Temporality))
	case metricdata.Histogram[float64]:
		w.tok("h")
		c13PrintHPs(w, x.DataPoints)
		w.u64(uint64(x.Temporality))
	case metricdata.ExponentialHistogram[int64]:
		w.tok("x")
		c13PrintEPs(w, x.DataPoints)
		w.u64(uint64(x.Temporality))
	case metricdata.ExponentialHistogram[float64]:
		w.tok("x")
		c13PrintEPs(w, x.DataPoints)
		w.u64(uint64(x.Temporality))
	case metricdata.Summary:
		w.tok("y")
		w.open()
		for _, d := range x.DataPoints {
			w.open()
			c13PrintIter(w, d.Attributes.Iter())
			w.i64(d.StartTime.UnixNano())
			w.i64(d.Time.UnixNano())
			w.u64(d.Count)
			w.f64(d.Sum)
			w.open()
			for _, q := range d.QuantileValues {
				w.open()
				w.f64(q.Quantile)
				w.f64(q.Value)
				w.close()
			}
			w.close()
			w.close()
		}
		w.close()
	default:
		w.tok("u")
	}
	w.close()
}

func c13PrintRM(w *c13W, rm *metricdata.ResourceMetrics) {
	w.open()
	w.open()
	c13PrintIter(w, rm.Resource.Iter())
	w.str(rm.Resource.SchemaURL())
	w.close()
	w.open()
	for _, sm := range rm.ScopeMetrics {
		w.open()
		w.open()
		w.str(sm.Scope.Name)
		w.str(sm.Scope.Version)
		w.str(sm.Scope.SchemaURL)
		c13PrintIter(w, sm.Scope.Attributes.Iter())
		w.close()
		w.open()
		for _, m := range sm.Metrics {
			w.open()
			w.str(m.Name)
			w.str(m.Description)
			w.str(m.Unit)
			c13PrintAgg(w, m.Data)
			w.close()
		}
		w.close()
		w.close()
	}
	w.close()
	w.close()
}

func c13RunMetrics(out *vOut, tag string, cs uint64) {
	rm := c13GenRM(tag, cs)
	var w c13W
	c13PrintRM(&w, rm)
	pb, err := ResourceMetrics(rm)
	status := "ok"
	if err != nil {
		status = "err"
	}
	var back mpb.MetricsData
	if werr := c13WireRoundTrip(&mpb.MetricsData{ResourceMetrics: []*mpb.ResourceMetrics{pb}}, &back); werr != nil || len(back.ResourceMetrics) != 1 {
		out.Line("metrics %s %d %s => err:wire", tag, cs, w.String())
		return
	}
	var d c13W
	c13DumpMsg(&d, back.ResourceMetrics[0].ProtoReflect())
	out.Line("metrics %s %d %s => %s %s", tag, cs, w.String(), status, d.String())
}

func TestVerifC13Metric(t *testing.T) {
	out := vOpen(t)
	defer out.Close()
	if tags, seeds, replay := c13ReplayCases("metrics"); replay {
		if c13TmplReplay() {
			c13TmplLines(out)
		}
		for i := range tags {
			c13RunMetrics(out, tags[i], seeds[i])
		}
		return
	}
	seed, n := vSeed(), vN(3000)
	c13TmplLines(out)
	c13RunMetrics(out, "wit-f17", 0)
	for i := 0; i < n; i++ {
		tag := "mix"
		switch i % 10 {
		case 0, 1, 2:
			// kinds: the case seed's residue mod 10 selects the aggregation kind; force a full sweep
			cs := c13CaseSeed(seed, i)
			cs = cs - cs%10 + uint64(i/10)%10
			c13RunMetrics(out, "kinds", cs)
			continue
		case 3:
			tag = "temporal"
		case 4:
			if i%50 == 4 {
				tag = "empty"
			}
		}
		c13RunMetrics(out, tag, c13CaseSeed(seed, i))
	}
}
