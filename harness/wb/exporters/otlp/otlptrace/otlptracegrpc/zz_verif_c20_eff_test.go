package otlptracegrpc

// C20 — the EFFECTIVE timeout of the exporter's client, white box (generic part; identical in the five client
// packages except for the package clause — the package specific part is zz_verif_c20_effad_test.go; otlploghttp hides
// its http.Client behind a method value and is covered by the black-box `tmo` leg only).
//
//	eff <gen> <exp> <path> <opt ns|-> <toS> <toG> => <timeout ns the client runs with> <own 0|1>
//
// path: HTTP def | tls (WithTLSClientConfig) | proxy (WithProxy) | tlsproxy; gRPC def | tls (WithTLSCredentials) |
// dial (WithDialOption) | conn (WithGRPCConn). toS/toG: OTEL_EXPORTER_OTLP_<SIGNAL>_TIMEOUT / OTEL_EXPORTER_OTLP_TIMEOUT
// (`-` unset, else x<hex>). Observed: http.Client.Timeout / exportTimeout of the client the package's constructor
// returned, and whether the client uses the package-level transport itself / dials its own connection.
// Both tiers enumerate option x specific x generic x path exhaustively over the value pools below.

import (
	"fmt"
	"os"
	"strconv"
	"testing"
)

var c20eEnvVals = []string{"-", "5", "60000", "abc", "", " 7 ", "-3", "9223372036855", "1.5", "0"}
var c20eOptVals = []string{"-", "5000000", "60000000000", "-1000000", "0"}

func c20eCase(out *vOut, gen, path, opt, toS, toG string) {
	for _, kv := range [][2]string{{c20eSpecific, toS}, {"OTEL_EXPORTER_OTLP_TIMEOUT", toG}} {
		if kv[1] == "-" {
			os.Unsetenv(kv[0])
		} else {
			os.Setenv(kv[0], vUnhex(kv[1]))
		}
	}
	var optNs *int64
	if opt != "-" {
		n, _ := strconv.ParseInt(opt, 10, 64)
		optNs = &n
	}
	to, own := c20eBuild(path, optNs)
	o := 0
	if own {
		o = 1
	}
	out.Line("eff %s %s %s %s %s %s => %d %d", gen, c20eExp, path, opt, toS, toG, to, o)
}

func c20eTok(s string) string {
	if s == "-" {
		return "-"
	}
	return vHex(s)
}

func TestVerifC20Eff(t *testing.T) {
	out := vOpen(t)
	defer out.Close()
	defer os.Unsetenv(c20eSpecific)
	defer os.Unsetenv("OTEL_EXPORTER_OTLP_TIMEOUT")
	if rp := vReplayLines(); rp != nil {
		for _, f := range rp {
			if len(f) == 7 && f[0] == "eff" && f[2] == c20eExp {
				c20eCase(out, f[1], f[3], f[4], f[5], f[6])
			}
		}
		return
	}
	for _, p := range c20ePaths {
		for _, o := range c20eOptVals {
			for _, s := range c20eEnvVals {
				for _, g := range c20eEnvVals {
					c20eCase(out, "exh", p, o, c20eTok(s), c20eTok(g))
				}
			}
		}
	}
	r := &vRand{s: vSeed()}
	for i, n := 0, vN(200); i < n; i++ {
		v := func() string {
			if r.Intn(3) == 0 {
				return "-"
			}
			return vHex(fmt.Sprint(int64(r.Intn(4000)) - 100))
		}
		o := "-"
		if r.Intn(2) == 0 {
			o = fmt.Sprint((int64(r.Intn(4000)) - 100) * 1000000)
		}
		c20eCase(out, "rnd", vPick(r, c20ePaths), o, v(), v())
	}
}
