package otlptracegrpc

// C20: package specific part of the effective-timeout harness (how the client is built and what it runs with).

import (
	"crypto/tls"
	"time"

	"google.golang.org/grpc"
	"google.golang.org/grpc/credentials"
	"google.golang.org/grpc/credentials/insecure"
)

const c20eExp = "tg"
const c20eSpecific = "OTEL_EXPORTER_OTLP_TRACES_TIMEOUT"

var c20ePaths = []string{"def", "tls", "dial", "conn"}

func c20eBuild(path string, optNs *int64) (int64, bool) {
	opts := []Option{WithEndpoint("verif.invalid:4317")}
	switch path {
	case "tls":
		opts = append(opts, WithTLSCredentials(credentials.NewTLS(&tls.Config{})))
	case "conn":
		conn, err := grpc.NewClient("verif.invalid:4317", grpc.WithTransportCredentials(insecure.NewCredentials()))
		if err != nil {
			panic(err)
		}
		defer conn.Close()
		opts = append(opts, WithGRPCConn(conn))
	case "dial":
		opts = append(opts, WithInsecure(), WithDialOption(grpc.WithUserAgent("verif-c20"), grpc.WithDisableServiceConfig()))
	default:
		opts = append(opts, WithInsecure())
	}
	if optNs != nil {
		opts = append(opts, WithTimeout(time.Duration(*optNs)))
	}
	c := newClient(opts...) // not started: no connection, no goroutine
	defer c.stopFunc()
	return int64(c.exportTimeout), c.conn == nil
}
