package otlptracegrpc

// C14: package specific part of the gRPC client harness (how a client is built and one upload is made).

import (
	"context"
	"time"

	"google.golang.org/grpc"
	"google.golang.org/protobuf/proto"

	coltracepb "go.opentelemetry.io/proto/otlp/collector/trace/v1"
	tracepb "go.opentelemetry.io/proto/otlp/trace/v1"
)

const vPkgTag = "trace"
const vCanStop = true

type vUploader struct {
	upload      func(context.Context) error
	stop        func() error
	waitStopped func()
	close       func()
	request     proto.Message
	stopCtx     func(context.Context) error
}

// vExporter: what the `shut` scenario drives. For the trace exporters the otlptrace.Exporter passes ExportSpans /
// Shutdown straight to the client's UploadTraces / Stop, which is what is called here.
type vExporter struct {
	export   func(context.Context) error
	shutdown func(context.Context) error
	close    func()
}

func vNewExporter(core *vCore, rc RetryConfig, to string) *vExporter {
	up := vNewUploader(core, rc, to)
	return &vExporter{export: up.upload, shutdown: up.stopCtx, close: up.close}
}

type vFake struct{ core *vCore }

func (f vFake) Export(ctx context.Context, in *coltracepb.ExportTraceServiceRequest, _ ...grpc.CallOption) (*coltracepb.ExportTraceServiceResponse, error) {
	has, rej, msg, err := f.core.next(ctx, in)
	if err != nil && !has {
		return nil, err
	}
	resp := &coltracepb.ExportTraceServiceResponse{}
	if has {
		resp.PartialSuccess = &coltracepb.ExportTracePartialSuccess{RejectedSpans: rej, ErrorMessage: msg}
	}
	return resp, err
}

// vTimeoutOpts: the client timeout dimension (d: option absent = default 10 s, p: 30 s, z: 0 = none, q: 30 ms)
func vTimeoutOpts(to string) []Option {
	switch to {
	case "p":
		return []Option{WithTimeout(30 * time.Second)}
	case "z":
		return []Option{WithTimeout(0)}
	case "q":
		return []Option{WithTimeout(30 * time.Millisecond)}
	}
	return nil
}

func vNewUploader(core *vCore, rc RetryConfig, to string) *vUploader {
	// no Start(): no ClientConn is created, the service client is the scripted one
	c := newClient(append([]Option{WithInsecure(), WithEndpoint("verif.invalid:4317"), WithRetry(rc)}, vTimeoutOpts(to)...)...)
	c.tscMu.Lock()
	c.tsc = vFake{core}
	c.tscMu.Unlock()
	spans := []*tracepb.ResourceSpans{{ScopeSpans: []*tracepb.ScopeSpans{{Spans: []*tracepb.Span{{
		Name: "verif-c14", TraceId: []byte{1, 2, 3, 4, 5, 6, 7, 8, 9, 10, 11, 12, 13, 14, 15, 16}, SpanId: []byte{1, 2, 3, 4, 5, 6, 7, 8},
		StartTimeUnixNano: 1, EndTimeUnixNano: 2}}}}}}
	return &vUploader{
		upload: func(ctx context.Context) error { return c.UploadTraces(ctx, spans) },
		stop: func() error {
			// Stop with an expired context: "kill any remaining exports"
			ctx, cancel := context.WithCancel(context.Background())
			cancel()
			return c.Stop(ctx)
		},
		stopCtx: c.Stop,
		waitStopped: func() { <-c.stopCtx.Done() },
		close:       func() { c.stopFunc() },
		request:     &coltracepb.ExportTraceServiceRequest{ResourceSpans: spans},
	}
}

func vCloseAll() {}
