package otlptracegrpc

// C14: package specific part of the gRPC client harness (how a client is built and one upload is made).

import (
	"context"

	"google.golang.org/grpc"
	"google.golang.org/protobuf/proto"

	coltracepb "go.opentelemetry.io/proto/otlp/collector/trace/v1"
	tracepb "go.opentelemetry.io/proto/otlp/trace/v1"
)

const vPkgTag = "trace"
const vCanStop = true

type vUploader struct {
	upload      func(context.Context) error
	stop        func()
	waitStopped func()
	close       func()
	request     proto.Message
}

type vFake struct{ core *vCore }

func (f vFake) Export(ctx context.Context, in *coltracepb.ExportTraceServiceRequest, _ ...grpc.CallOption) (*coltracepb.ExportTraceServiceResponse, error) {
	has, rej, msg, err := f.core.next(ctx, in)
	if err != nil && !has {
		return nil, err
	}
	resp := &coltracepb.ExportTraceServiceResponse{}
	if has {
		resp.PartialSuccess = &coltracepb.ExportTracePartialSuccess{RejectedSpans: rej, ErrorMessage: msg}
	}
	return resp, err
}

func vNewUploader(core *vCore, rc RetryConfig) *vUploader {
	// no Start(): no ClientConn is created, the service client is the scripted one
	c := newClient(WithInsecure(), WithEndpoint("verif.invalid:4317"), WithRetry(rc))
	c.tscMu.Lock()
	c.tsc = vFake{core}
	c.tscMu.Unlock()
	spans := []*tracepb.ResourceSpans{{ScopeSpans: []*tracepb.ScopeSpans{{Spans: []*tracepb.Span{{
		Name: "verif-c14", TraceId: []byte{1, 2, 3, 4, 5, 6, 7, 8, 9, 10, 11, 12, 13, 14, 15, 16}, SpanId: []byte{1, 2, 3, 4, 5, 6, 7, 8},
		StartTimeUnixNano: 1, EndTimeUnixNano: 2}}}}}}
	return &vUploader{
		upload: func(ctx context.Context) error { return c.UploadTraces(ctx, spans) },
		stop: func() {
			// Stop with an expired context: "kill any remaining exports"
			ctx, cancel := context.WithCancel(context.Background())
			cancel()
			_ = c.Stop(ctx)
		},
		waitStopped: func() { <-c.stopCtx.Done() },
		close:       func() { c.stopFunc() },
		request:     &coltracepb.ExportTraceServiceRequest{ResourceSpans: spans},
	}
}

func vCloseAll() {}
