package otlptracehttp

// C14: package specific part of the HTTP client harness (how a client is built and one upload is made).

import (
	"context"

	"google.golang.org/protobuf/proto"

	coltracepb "go.opentelemetry.io/proto/otlp/collector/trace/v1"
	tracepb "go.opentelemetry.io/proto/otlp/trace/v1"
)

const vPkgTag = "trace"
const vCanStop = true

type vUploader struct {
	upload  func(context.Context) error
	stop    func()
	payload []byte
}

func vNewUploader(gz bool, rc RetryConfig) *vUploader {
	comp := NoCompression
	if gz {
		comp = GzipCompression
	}
	c := NewClient(WithInsecure(), WithEndpoint("verif.invalid:4318"), WithRetry(rc), WithCompression(comp))
	spans := []*tracepb.ResourceSpans{{ScopeSpans: []*tracepb.ScopeSpans{{Spans: []*tracepb.Span{{
		Name: "verif-c14", TraceId: []byte{1, 2, 3, 4, 5, 6, 7, 8, 9, 10, 11, 12, 13, 14, 15, 16}, SpanId: []byte{1, 2, 3, 4, 5, 6, 7, 8},
		StartTimeUnixNano: 1, EndTimeUnixNano: 2}}}}}}
	payload, err := proto.Marshal(&coltracepb.ExportTraceServiceRequest{ResourceSpans: spans})
	if err != nil {
		panic(err)
	}
	return &vUploader{
		upload:  func(ctx context.Context) error { return c.UploadTraces(ctx, spans) },
		stop:    func() { _ = c.Stop(context.Background()) },
		payload: payload,
	}
}

func vPartialBody(rejected int64, msg string) []byte {
	b, err := proto.Marshal(&coltracepb.ExportTraceServiceResponse{
		PartialSuccess: &coltracepb.ExportTracePartialSuccess{RejectedSpans: rejected, ErrorMessage: msg}})
	if err != nil {
		panic(err)
	}
	return b
}
