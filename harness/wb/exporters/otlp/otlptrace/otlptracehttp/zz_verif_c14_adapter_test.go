package otlptracehttp

// C14: package specific part of the HTTP client harness (how a client is built and one upload is made).

import (
	"context"
	"crypto/tls"
	"net/http"
	"net/url"
	"time"

	"google.golang.org/protobuf/proto"

	coltracepb "go.opentelemetry.io/proto/otlp/collector/trace/v1"
	tracepb "go.opentelemetry.io/proto/otlp/trace/v1"
)

const vPkgTag = "trace"
const vCanStop = true

type vUploader struct {
	upload  func(context.Context) error
	stop    func() error
	stopCtx func(context.Context) error
	payload []byte
}

// vTimeoutOpts: the client timeout dimension (d: option absent = default 10 s, p: 30 s, z: 0 = none)
func vTimeoutOpts(to string) []Option {
	switch to {
	case "p":
		return []Option{WithTimeout(30 * time.Second)}
	case "z":
		return []Option{WithTimeout(0)}
	case "q":
		return []Option{WithTimeout(80 * time.Millisecond)}
	}
	return nil
}

// vPathOpts: the construction path dimension (vPath: d shared transport, t TLS configuration, p proxy, b both)
func vPathOpts() []Option {
	var o []Option
	if vPath == "t" || vPath == "b" {
		o = append(o, WithTLSClientConfig(&tls.Config{}))
	}
	if vPath == "p" || vPath == "b" {
		o = append(o, WithProxy(func(*http.Request) (*url.URL, error) { return nil, nil }))
	}
	return o
}

func vHost(host string) string {
	if host == "" {
		return "verif.invalid:4318"
	}
	return host
}

// vExporter: what the `shut` scenario drives.
type vExporter struct {
	export   func(context.Context) error
	shutdown func(context.Context) error
}

// For the trace exporter the otlptrace.Exporter passes ExportSpans / Shutdown straight to the client's UploadTraces /
// Stop, which is what is called here.
func vNewExporter(host string, rc RetryConfig, to string) *vExporter {
	up := vNewUploader(host, false, rc, to)
	return &vExporter{export: up.upload, shutdown: up.stopCtx}
}

func vNewUploader(host string, gz bool, rc RetryConfig, to string) *vUploader {
	comp := NoCompression
	if gz {
		comp = GzipCompression
	}
	c := NewClient(append(append([]Option{WithInsecure(), WithEndpoint(vHost(host)), WithRetry(rc), WithCompression(comp)}, vTimeoutOpts(to)...), vPathOpts()...)...)
	// a cloned transport (TLS configuration / proxy set) does not inherit the protocols registered on ourTransport: the
	// scripted one is registered on the clone — the http.Client itself stays the one NewClient built
	if tr, ok := c.(*client).client.Transport.(*http.Transport); ok && tr != ourTransport {
		tr.RegisterProtocol("http", vDispatch{})
	}
	spans := []*tracepb.ResourceSpans{{ScopeSpans: []*tracepb.ScopeSpans{{Spans: []*tracepb.Span{{
		Name: "verif-c14", TraceId: []byte{1, 2, 3, 4, 5, 6, 7, 8, 9, 10, 11, 12, 13, 14, 15, 16}, SpanId: []byte{1, 2, 3, 4, 5, 6, 7, 8},
		StartTimeUnixNano: 1, EndTimeUnixNano: 2}}}}}}
	payload, err := proto.Marshal(&coltracepb.ExportTraceServiceRequest{ResourceSpans: spans})
	if err != nil {
		panic(err)
	}
	return &vUploader{
		upload:  func(ctx context.Context) error { return c.UploadTraces(ctx, spans) },
		stop:    func() error { return c.Stop(context.Background()) },
		stopCtx: c.Stop,
		payload: payload,
	}
}

func vPartialBody(rejected int64, msg string) []byte {
	b, err := proto.Marshal(&coltracepb.ExportTraceServiceResponse{
		PartialSuccess: &coltracepb.ExportTracePartialSuccess{RejectedSpans: rejected, ErrorMessage: msg}})
	if err != nil {
		panic(err)
	}
	return b
}
