// C13 — trace leg: random batches of ReadOnlySpans (tracetest.SpanStub snapshots) -> tracetransform.Spans ->
// proto.Marshal -> proto.Unmarshal -> canonical dump of the decoded TracesData; the line also carries the batch
// in canonical form (read back through the ReadOnlySpan interface) for the Lean model.
//
// line: spans <gen> <caseSeed> <batch> => <dump>
//
//	batch = ( item… ) ; item = - (nil ReadOnlySpan) |
//	  ( xname sc parent kind start end (attrs) (events) (links) statusCode xstatusDesc dAttrs dEvents dLinks childCount res scope )
//	sc = ( xtraceid xspanid flags xtracestate remote ) ; event = ( xname time (attrs) dropped ) ; link = ( sc (attrs) dropped )
//	res = - | ( (attrs) xschemaURL ) ; scope = ( xname xversion xschemaURL (attrs) )
//	dump = ( ResourceSpans… ) each message as printed by c13DumpMsg, the ResourceSpans sorted
package tracetransform

import (
	"sort"
	"strings"
	"testing"
	"time"

	"google.golang.org/protobuf/proto"

	"google.golang.org/protobuf/reflect/protoreflect"

	"go.opentelemetry.io/otel/attribute"
	"go.opentelemetry.io/otel/codes"
	"go.opentelemetry.io/otel/sdk/instrumentation"
	"go.opentelemetry.io/otel/sdk/resource"
	tracesdk "go.opentelemetry.io/otel/sdk/trace"
	"go.opentelemetry.io/otel/sdk/trace/tracetest"
	"go.opentelemetry.io/otel/trace"
	tracepb "go.opentelemetry.io/proto/otlp/trace/v1"
)

var c13TraceStates = []string{"", "", "", "", "", "", "a=1", "k1=v1,k2=v2", "vendor@sys=val:x"}

func c13GenSC(r *vRand, zeroOK bool, tsProb int) trace.SpanContext {
	if zeroOK && r.Intn(3) == 0 {
		return trace.SpanContext{}
	}
	var tid trace.TraceID
	var sid trace.SpanID
	switch r.Intn(5) {
	case 0: // all-zero ids (invalid)
	case 1:
		tid[15] = 1
		sid[7] = 1
	default:
		for i := range tid {
			tid[i] = byte(r.U64())
		}
		for i := range sid {
			sid[i] = byte(r.U64())
		}
	}
	if r.Intn(8) == 0 {
		sid = trace.SpanID{} // valid trace id, zero span id
	}
	tsStr := ""
	if r.Intn(tsProb) == 0 {
		tsStr = c13TraceStates[6+r.Intn(3)]
	}
	ts, _ := trace.ParseTraceState(tsStr)
	return trace.NewSpanContext(trace.SpanContextConfig{
		TraceID: tid, SpanID: sid, TraceFlags: trace.TraceFlags(vPick(r, []int{0, 1, 1, 2, 255})),
		TraceState: ts, Remote: r.Intn(3) == 0,
	})
}

func c13GenScope(r *vRand) instrumentation.Scope {
	switch r.Intn(6) {
	case 0:
		return instrumentation.Scope{}
	case 1:
		return instrumentation.Scope{Name: vPick(r, []string{"lib", "lib2", "š"})}
	case 2:
		return instrumentation.Scope{Name: "lib", Version: vPick(r, []string{"v1", "v2", ""})}
	case 3:
		return instrumentation.Scope{SchemaURL: "https://s/1"} // empty name, non-zero scope
	default:
		s := instrumentation.Scope{Name: vValidStr(r, 3), Version: vValidStr(r, 2), SchemaURL: vPick(r, []string{"", "https://s/1", "u"})}
		if kvs := c13SetKVs(r, 3, false); len(kvs) > 0 {
			s.Attributes = attribute.NewSet(kvs...)
		}
		return s
	}
}

func c13GenResources(r *vRand, n int, conflict bool) []*resource.Resource {
	out := make([]*resource.Resource, 0, n+1)
	for i := 0; i < n; i++ {
		switch r.Intn(7) {
		case 0:
			out = append(out, nil)
		case 1:
			out = append(out, resource.Empty())
		case 2:
			out = append(out, resource.NewSchemaless(c13SetKVs(r, 3, false)...))
		default:
			kvs := c13SetKVs(r, 3, false)
			out = append(out, resource.NewWithAttributes(vPick(r, []string{"", "https://r/1", "https://r/2"}), kvs...))
			if conflict && r.Intn(2) == 0 {
				// same attribute set, other schema URL: another resource (grouping key = attributes + schema URL since 089ce94)
				out = append(out, resource.NewWithAttributes("https://r/other", kvs...))
			}
		}
	}
	if len(out) == 0 {
		out = append(out, nil)
	}
	return out
}

func c13GenEvents(r *vRand) []tracesdk.Event {
	n := r.Intn(4)
	if n == 0 {
		return nil
	}
	out := make([]tracesdk.Event, n)
	for i := range out {
		out[i] = tracesdk.Event{Name: vValidStr(r, 3), Time: time.Unix(0, c13TimeNanos(r)), Attributes: c13KVs(r, 3), DroppedAttributeCount: int(c13Int(r))}
	}
	return out
}

func c13GenLinks(r *vRand, tsProb int) []tracesdk.Link {
	n := r.Intn(4)
	if n == 0 {
		return nil
	}
	out := make([]tracesdk.Link, n)
	for i := range out {
		out[i] = tracesdk.Link{SpanContext: c13GenSC(r, false, tsProb), Attributes: c13KVs(r, 3), DroppedAttributeCount: int(c13Int(r))}
	}
	return out
}

func c13GenSpan(r *vRand, res *resource.Resource, sc instrumentation.Scope, linkTS int) tracetest.SpanStub {
	return tracetest.SpanStub{
		Name:              vValidStr(r, 4),
		SpanContext:       c13GenSC(r, false, 3),
		Parent:            c13GenSC(r, true, 3),
		SpanKind:          trace.SpanKind(r.Intn(9) - 2),
		StartTime:         time.Unix(0, c13TimeNanos(r)),
		EndTime:           time.Unix(0, c13TimeNanos(r)),
		Attributes:        c13KVs(r, 4),
		Events:            c13GenEvents(r),
		Links:             c13GenLinks(r, linkTS),
		Status:            tracesdk.Status{Code: codes.Code(vPick(r, []uint32{0, 1, 2, 3, 4294967295})), Description: vValidStr(r, 3)},
		DroppedAttributes: int(c13Int(r)),
		DroppedEvents:     int(c13Int(r)),
		DroppedLinks:      int(c13Int(r)),
		ChildSpanCount:    int(c13Int(r)),
		Resource:          res,
		// both fields: Snapshot() falls back to InstrumentationLibrary when the scope's three strings are empty
		InstrumentationScope:   sc,
		InstrumentationLibrary: sc,
	}
}

// c13GenSpanBatch builds one batch from (generator tag, case seed).
func c13GenSpanBatch(tag string, cs uint64) []tracesdk.ReadOnlySpan {
	r := &vRand{s: cs}
	switch tag {
	case "wit-f16":
		// former F16 witness (repaired in fe0bf20): one span, one link whose span context carries a tracestate
		ts, _ := trace.ParseTraceState("a=1")
		l := trace.NewSpanContext(trace.SpanContextConfig{TraceID: trace.TraceID{1}, SpanID: trace.SpanID{2}, TraceState: ts})
		s := tracetest.SpanStub{Name: "s", SpanContext: trace.NewSpanContext(trace.SpanContextConfig{TraceID: trace.TraceID{1}, SpanID: trace.SpanID{3}}),
			Links: []tracesdk.Link{{SpanContext: l}}}
		return []tracesdk.ReadOnlySpan{s.Snapshot()}
	case "fixed":
		// one span whose encoded size does not depend on the seed (fixed-length name and ids, fixed64 times)
		var tid trace.TraceID
		var sid trace.SpanID
		for i := range tid {
			tid[i] = 1 + byte(r.U64()%255)
		}
		for i := range sid {
			sid[i] = 1 + byte(r.U64()%255)
		}
		st := tracetest.SpanStub{Name: "fixed-" + c13Hex16(r.U64()), SpanContext: trace.NewSpanContext(trace.SpanContextConfig{TraceID: tid, SpanID: sid}),
			SpanKind: trace.SpanKindClient, StartTime: time.Unix(1700000000, int64(r.Intn(1000000000))), EndTime: time.Unix(1700000001, int64(r.Intn(1000000000))),
			Attributes: []attribute.KeyValue{attribute.String("k", c13Hex16(r.U64()))}, Resource: resource.NewSchemaless(attribute.String("service.name", "fixed"))}
		return []tracesdk.ReadOnlySpan{st.Snapshot()}
	case "wit-f32":
		// former F32 witness (repaired in 089ce94): same resource attributes, schema URLs "a" and "b"
		mk := func(schema string, id byte) tracesdk.ReadOnlySpan {
			return tracetest.SpanStub{Name: "s", SpanContext: trace.NewSpanContext(trace.SpanContextConfig{TraceID: trace.TraceID{1}, SpanID: trace.SpanID{id}}),
				Resource: resource.NewWithAttributes(schema, attribute.String("r", "1"))}.Snapshot()
		}
		return []tracesdk.ReadOnlySpan{mk("a", 3), mk("b", 4)}
	case "empty":
		if r.Bool() {
			return nil
		}
		return []tracesdk.ReadOnlySpan{}
	case "onespan":
		res := c13GenResources(r, 1, false)
		return []tracesdk.ReadOnlySpan{c13GenSpan(r, res[0], c13GenScope(r), 3).Snapshot()}
	}
	// "mix", "groups", "reskey": pools of resources and scopes, spans drawing from them
	nRes, nSc, nSp := r.Intn(5), r.Intn(5), r.Intn(7)
	if tag == "groups" {
		nSp = 4 + r.Intn(9)
	}
	ress := c13GenResources(r, nRes, tag == "reskey")
	scs := make([]instrumentation.Scope, 0, nSc+1)
	for i := 0; i < nSc; i++ {
		scs = append(scs, c13GenScope(r))
	}
	if len(scs) == 0 {
		scs = append(scs, instrumentation.Scope{})
	}
	linkTS := 4
	if tag == "groups" {
		linkTS = 4
	}
	out := make([]tracesdk.ReadOnlySpan, 0, nSp)
	for i := 0; i < nSp; i++ {
		if r.Intn(12) == 0 {
			out = append(out, nil)
			continue
		}
		st := c13GenSpan(r, ress[r.Intn(len(ress))], scs[r.Intn(len(scs))], linkTS)
		if tag == "groups" {
			// small spans: the point is the grouping
			st.Attributes, st.Events, st.Links = nil, nil, nil
		}
		out = append(out, st.Snapshot())
	}
	return out
}

func c13PrintSC(w *c13W, sc trace.SpanContext) {
	w.open()
	tid, sid := sc.TraceID(), sc.SpanID()
	w.bytes(tid[:])
	w.bytes(sid[:])
	w.u64(uint64(sc.TraceFlags()))
	w.str(sc.TraceState().String())
	w.boolean(sc.IsRemote())
	w.close()
}

func c13PrintSpan(w *c13W, s tracesdk.ReadOnlySpan) {
	if s == nil {
		w.tok("-")
		return
	}
	w.open()
	w.str(s.Name())
	c13PrintSC(w, s.SpanContext())
	c13PrintSC(w, s.Parent())
	w.i64(int64(s.SpanKind()))
	w.i64(s.StartTime().UnixNano())
	w.i64(s.EndTime().UnixNano())
	c13PrintKVs(w, s.Attributes())
	w.open()
	for _, e := range s.Events() {
		w.open()
		w.str(e.Name)
		w.i64(e.Time.UnixNano())
		c13PrintKVs(w, e.Attributes)
		w.i64(int64(e.DroppedAttributeCount))
		w.close()
	}
	w.close()
	w.open()
	for _, l := range s.Links() {
		w.open()
		c13PrintSC(w, l.SpanContext)
		c13PrintKVs(w, l.Attributes)
		w.i64(int64(l.DroppedAttributeCount))
		w.close()
	}
	w.close()
	w.u64(uint64(s.Status().Code))
	w.str(s.Status().Description)
	w.i64(int64(s.DroppedAttributes()))
	w.i64(int64(s.DroppedEvents()))
	w.i64(int64(s.DroppedLinks()))
	w.i64(int64(s.ChildSpanCount()))
	if res := s.Resource(); res == nil {
		w.tok("-")
	} else {
		w.open()
		c13PrintIter(w, res.Iter())
		w.str(res.SchemaURL())
		w.close()
	}
	sc := s.InstrumentationScope()
	w.open()
	w.str(sc.Name)
	w.str(sc.Version)
	w.str(sc.SchemaURL)
	c13PrintIter(w, sc.Attributes.Iter())
	w.close()
	w.close()
}

func c13RunSpans(out *vOut, tag string, cs uint64) {
	batch := c13GenSpanBatch(tag, cs)
	var w c13W
	w.open()
	for _, s := range batch {
		c13PrintSpan(&w, s)
	}
	w.close()
	rs := Spans(batch)
	var back tracepb.TracesData
	if err := c13WireRoundTrip(&tracepb.TracesData{ResourceSpans: rs}, &back); err != nil {
		out.Line("spans %s %d %s => err:wire", tag, cs, w.String())
		return
	}
	ms := make([]protoreflect.Message, len(back.ResourceSpans))
	for i, m := range back.ResourceSpans {
		ms[i] = m.ProtoReflect()
	}
	out.Line("spans %s %d %s => %s", tag, cs, w.String(), c13DumpSorted(ms))
}

func TestVerifC13Trace(t *testing.T) {
	out := vOpen(t)
	defer out.Close()
	if tags, seeds, replay := c13ReplayCases("spans"); replay {
		for i := range tags {
			c13RunSpans(out, tags[i], seeds[i])
		}
		return
	}
	seed, n := vSeed(), vN(3000)
	c13TraceSens(out)
	c13RunSpans(out, "wit-f16", 0)
	c13RunSpans(out, "wit-f32", 0)
	for i := 0; i < n; i++ {
		tag := "mix"
		switch i % 10 {
		case 0:
			tag = "onespan"
		case 1, 2, 3:
			tag = "groups"
		case 4:
			tag = "reskey"
		case 5:
			if i%50 == 5 {
				tag = "empty"
			}
		}
		c13RunSpans(out, tag, c13CaseSeed(seed, i))
	}
}

// ---------------------------------------------------------------- model-free sensitivity (thorough in spirit, cheap)
// For every field the statement names, changing only that field of a fixed base span must change the deterministic
// wire encoding. line: sens trace 0 <field> => changed|same
func c13EncOne(s tracetest.SpanStub) string {
	rs := Spans([]tracesdk.ReadOnlySpan{s.Snapshot()})
	b, _ := proto.MarshalOptions{Deterministic: true}.Marshal(&tracepb.TracesData{ResourceSpans: rs})
	return string(b)
}

func c13TraceSens(out *vOut) {
	ts1, _ := trace.ParseTraceState("a=1")
	ts2, _ := trace.ParseTraceState("a=2")
	mk := func(ts trace.TraceState, flags trace.TraceFlags, remote bool) trace.SpanContext {
		return trace.NewSpanContext(trace.SpanContextConfig{TraceID: trace.TraceID{1}, SpanID: trace.SpanID{2}, TraceState: ts, TraceFlags: flags, Remote: remote})
	}
	base := func() tracetest.SpanStub {
		return tracetest.SpanStub{
			Name: "n", SpanContext: mk(ts1, 1, false), Parent: trace.NewSpanContext(trace.SpanContextConfig{TraceID: trace.TraceID{1}, SpanID: trace.SpanID{3}, TraceFlags: 1}),
			SpanKind: trace.SpanKindClient, StartTime: time.Unix(10, 0), EndTime: time.Unix(20, 0),
			Attributes: []attribute.KeyValue{attribute.String("k", "v")},
			Events:     []tracesdk.Event{{Name: "e", Time: time.Unix(11, 0), Attributes: []attribute.KeyValue{attribute.Int("x", 1)}, DroppedAttributeCount: 1}},
			Links:      []tracesdk.Link{{SpanContext: mk(ts1, 1, false), Attributes: []attribute.KeyValue{attribute.Int("y", 1)}, DroppedAttributeCount: 2}},
			Status:     tracesdk.Status{Code: codes.Error, Description: "d"}, DroppedAttributes: 3, DroppedEvents: 4, DroppedLinks: 5, ChildSpanCount: 6,
			Resource:               resource.NewWithAttributes("rs", attribute.String("r", "1")),
			InstrumentationLibrary: instrumentation.Scope{Name: "s", Version: "v", SchemaURL: "ss", Attributes: attribute.NewSet(attribute.String("sa", "1"))},
		}
	}
	b := c13EncOne(base())
	muts := map[string]func(s *tracetest.SpanStub){
		"name":            func(s *tracetest.SpanStub) { s.Name = "m" },
		"span tracestate": func(s *tracetest.SpanStub) { s.SpanContext = mk(ts2, 1, false) },
		"span flags":      func(s *tracetest.SpanStub) { s.SpanContext = mk(ts1, 0, false) },
		"parent spanid": func(s *tracetest.SpanStub) {
			s.Parent = trace.NewSpanContext(trace.SpanContextConfig{TraceID: trace.TraceID{1}, SpanID: trace.SpanID{4}})
		},
		"parent remote": func(s *tracetest.SpanStub) { s.Parent = s.Parent.WithRemote(true) },
		"kind":          func(s *tracetest.SpanStub) { s.SpanKind = trace.SpanKindServer },
		"start":         func(s *tracetest.SpanStub) { s.StartTime = time.Unix(9, 0) },
		"end":           func(s *tracetest.SpanStub) { s.EndTime = time.Unix(21, 0) },
		"attr value":    func(s *tracetest.SpanStub) { s.Attributes = []attribute.KeyValue{attribute.String("k", "w")} },
		"event name":    func(s *tracetest.SpanStub) { s.Events[0].Name = "f" },
		"event time":    func(s *tracetest.SpanStub) { s.Events[0].Time = time.Unix(12, 0) },
		"event attr":    func(s *tracetest.SpanStub) { s.Events[0].Attributes = nil },
		"event dropped": func(s *tracetest.SpanStub) { s.Events[0].DroppedAttributeCount = 9 },
		"link spanid": func(s *tracetest.SpanStub) {
			s.Links[0].SpanContext = s.Links[0].SpanContext.WithSpanID(trace.SpanID{7})
		},
		"link traceid": func(s *tracetest.SpanStub) {
			s.Links[0].SpanContext = s.Links[0].SpanContext.WithTraceID(trace.TraceID{7})
		},
		"link tracestate": func(s *tracetest.SpanStub) { s.Links[0].SpanContext = mk(ts2, 1, false) },
		"link flags":      func(s *tracetest.SpanStub) { s.Links[0].SpanContext = mk(ts1, 0, false) },
		"link remote":     func(s *tracetest.SpanStub) { s.Links[0].SpanContext = mk(ts1, 1, true) },
		"link attr":       func(s *tracetest.SpanStub) { s.Links[0].Attributes = nil },
		"link dropped":    func(s *tracetest.SpanStub) { s.Links[0].DroppedAttributeCount = 9 },
		"status code":     func(s *tracetest.SpanStub) { s.Status.Code = codes.Ok },
		"status desc":     func(s *tracetest.SpanStub) { s.Status.Description = "e" },
		"dropped attrs":   func(s *tracetest.SpanStub) { s.DroppedAttributes = 9 },
		"dropped events":  func(s *tracetest.SpanStub) { s.DroppedEvents = 9 },
		"dropped links":   func(s *tracetest.SpanStub) { s.DroppedLinks = 9 },
		"child count":     func(s *tracetest.SpanStub) { s.ChildSpanCount = 9 },
		"resource attr":   func(s *tracetest.SpanStub) { s.Resource = resource.NewWithAttributes("rs", attribute.String("r", "2")) },
		"resource schema": func(s *tracetest.SpanStub) {
			s.Resource = resource.NewWithAttributes("rs2", attribute.String("r", "1"))
		},
		"scope name":    func(s *tracetest.SpanStub) { s.InstrumentationLibrary.Name = "t" },
		"scope version": func(s *tracetest.SpanStub) { s.InstrumentationLibrary.Version = "w" },
		"scope schema":  func(s *tracetest.SpanStub) { s.InstrumentationLibrary.SchemaURL = "tt" },
		"scope attrs": func(s *tracetest.SpanStub) {
			s.InstrumentationLibrary.Attributes = attribute.NewSet(attribute.String("sa", "2"))
		},
	}
	names := make([]string, 0, len(muts))
	for name := range muts {
		names = append(names, name)
	}
	sort.Strings(names)
	for _, name := range names {
		s := base()
		muts[name](&s)
		res := "changed"
		if c13EncOne(s) == b {
			res = "same"
		}
		out.Line("sens trace 0 trace.%s => %s", strings.ReplaceAll(name, " ", "-"), res)
	}
}
