// C13 — Zipkin leg: toZipkinSpanModel restricted to what the statement names (trace/span/parent ids, name, kind,
// start time, duration). Self-contained (the zipkin module does not have protobuf reflection in its closure).
//
// line: zipkin <gen> <caseSeed> xtraceid xspanid xparentspanid xname kind start end
//
//	=> traceHigh traceLow id parent|- xname xkind timestampUnixNano durationNanos
package zipkin

import (
	"math"
	"strconv"
	"testing"
	"time"

	"go.opentelemetry.io/otel/sdk/trace/tracetest"
	"go.opentelemetry.io/otel/trace"
)

var c13zTimes = []int64{0, -1, 1, math.MaxInt64, math.MinInt64, 1700000000000000000, 1700000000000000001, 999999999, 1000000000}

func c13zTime(r *vRand) int64 {
	if r.Intn(3) == 0 {
		return int64(r.U64())
	}
	if r.Intn(3) == 0 {
		return 1700000000000000000 + int64(r.Intn(1<<40))
	}
	return c13zTimes[r.Intn(len(c13zTimes))]
}

func c13zBytes(r *vRand, b []byte) {
	switch r.Intn(6) {
	case 0: // all zero
	case 1:
		b[len(b)-1] = 1
	case 2:
		b[0] = 0x80
	case 3:
		for i := range b {
			b[i] = 0xff
		}
	default:
		for i := range b {
			b[i] = byte(r.U64())
		}
	}
}

func c13zRun(out *vOut, tag string, cs uint64) {
	r := &vRand{s: cs}
	var tid trace.TraceID
	var sid, pid trace.SpanID
	c13zBytes(r, tid[:])
	c13zBytes(r, sid[:])
	c13zBytes(r, pid[:])
	if tag == "halves" {
		// only one half of the trace id set: High and Low must not be swapped
		tid = trace.TraceID{}
		if r.Bool() {
			tid[0], tid[7] = byte(r.U64())|1, byte(r.U64())
		} else {
			tid[8], tid[15] = byte(r.U64()), byte(r.U64())|1
		}
	}
	kind := trace.SpanKind(r.Intn(9) - 2)
	start, end := c13zTime(r), c13zTime(r)
	name := vValidStr(r, 4)
	st := tracetest.SpanStub{
		Name:        name,
		SpanContext: trace.NewSpanContext(trace.SpanContextConfig{TraceID: tid, SpanID: sid}),
		Parent:      trace.NewSpanContext(trace.SpanContextConfig{TraceID: tid, SpanID: pid}),
		SpanKind:    kind, StartTime: time.Unix(0, start), EndTime: time.Unix(0, end),
	}
	m := toZipkinSpanModel(st.Snapshot())
	parent := "-"
	if m.ParentID != nil {
		parent = strconv.FormatUint(uint64(*m.ParentID), 10)
	}
	out.Line("zipkin %s %d %s %s %s %s %d %d %d => %d %d %d %s %s %s %d %d", tag, cs,
		vHexB(tid[:]), vHexB(sid[:]), vHexB(pid[:]), vHex(name), int64(kind), start, end,
		m.TraceID.High, m.TraceID.Low, uint64(m.ID), parent, vHex(m.Name), vHex(string(m.Kind)), m.Timestamp.UnixNano(), int64(m.Duration))
}

func TestVerifC13Zipkin(t *testing.T) {
	out := vOpen(t)
	defer out.Close()
	if lines := vReplayLines(); lines != nil {
		for _, l := range lines {
			if len(l) >= 3 && l[0] == "zipkin" {
				if cs, err := strconv.ParseUint(l[2], 10, 64); err == nil {
					c13zRun(out, l[1], cs)
				}
			}
		}
		return
	}
	seed, n := vSeed(), vN(3000)
	for i := 0; i < n; i++ {
		tag := "mix"
		if i%5 == 0 {
			tag = "halves"
		}
		r := vRand{s: seed ^ (uint64(i)+1)*0x9e3779b97f4a7c15}
		c13zRun(out, tag, r.U64()>>1)
	}
}
