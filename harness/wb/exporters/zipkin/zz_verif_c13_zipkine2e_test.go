// C13 — Zipkin end-to-end leg: a real zipkin.New(url, WithClient(...)) exporter exporting SEQUENCES of 1–4 batches.
// Two modes: "rt" = scripted http.RoundTripper (202 / other statuses / transport error before, in the middle of,
// or after reading the request body / context cancelled inside the transport); "net" = the real http.Transport
// against an httptest server, with a scripted dial failure ("connection refused"-like: the request never leaves).
// For every call the line records the error class returned by ExportSpans and, when a COMPLETE request body was
// delivered, the spans decoded from it by a reference JSON decoder written from the Zipkin v2 API (one JSON array
// and nothing else; ids lower-hex 16/32 chars; timestamp/duration in microseconds).
//
// line: zipkinseq <gen> <caseSeed> <mode> <call> | <call> … => <obs> | <obs> …
//   call = stopBefore(0|1) resp n span* ; resp = ok(202) | s200 | s204 | s400 | s500 | tebefore | tepartial | teafter | cancel
//   span = xtraceid xspanid xparentspanid xname kind startNanos endNanos
//   obs  = nil|err  nodeliv | bad:<class> | k jspan* ; jspan = traceHigh traceLow id parent|- xname xkind timestampMicros durationMicros
package zipkin

import (
	"bytes"
	"context"
	"encoding/json"
	"errors"
	"fmt"
	"io"
	"net"
	"net/http"
	"net/http/httptest"
	"strconv"
	"strings"
	"sync"
	"testing"
	"time"

	tracesdk "go.opentelemetry.io/otel/sdk/trace"
	"go.opentelemetry.io/otel/sdk/trace/tracetest"
	"go.opentelemetry.io/otel/trace"
)

type c13eSpan struct {
	tid        trace.TraceID
	sid, pid   trace.SpanID
	name       string
	kind       int
	start, end int64
}

type c13eCall struct {
	stop  bool
	resp  string
	spans []c13eSpan
}

// c13eCur is what the transport/server sees of the call in flight.
type c13eCur struct {
	mu        sync.Mutex
	resp      string
	delivered bool
	body      []byte
	cancel    context.CancelFunc
}

func (c *c13eCur) set(resp string, cancel context.CancelFunc) {
	c.mu.Lock()
	c.resp, c.delivered, c.body, c.cancel = resp, false, nil, cancel
	c.mu.Unlock()
}
func (c *c13eCur) deliver(b []byte) {
	c.mu.Lock()
	c.delivered, c.body = true, b
	c.mu.Unlock()
}
func (c *c13eCur) get() (string, bool, []byte) {
	c.mu.Lock()
	defer c.mu.Unlock()
	return c.resp, c.delivered, c.body
}

func c13eStatus(resp string) int {
	switch resp {
	case "ok":
		return http.StatusAccepted
	case "s200":
		return 200
	case "s204":
		return 204
	case "s400":
		return 400
	}
	return 500
}

// scripted RoundTripper (mode "rt")
type c13eRT struct{ cur *c13eCur }

func (rt c13eRT) RoundTrip(req *http.Request) (*http.Response, error) {
	resp, _, _ := rt.cur.get()
	defer req.Body.Close()
	switch resp {
	case "tebefore":
		return nil, errors.New("scripted transport error before the body was read")
	case "cancel":
		rt.cur.cancel() // the context expires while the request is in the transport, nothing was written
		return nil, req.Context().Err()
	case "tepartial":
		half := make([]byte, req.ContentLength/2)
		_, _ = io.ReadFull(req.Body, half)
		return nil, errors.New("scripted transport error in the middle of the body")
	}
	b, err := io.ReadAll(req.Body)
	if err != nil {
		return nil, err
	}
	rt.cur.deliver(b)
	if resp == "teafter" {
		return nil, errors.New("scripted transport error after the body was read")
	}
	return &http.Response{StatusCode: c13eStatus(resp), Status: strconv.Itoa(c13eStatus(resp)), Proto: "HTTP/1.1", ProtoMajor: 1, ProtoMinor: 1,
		Header: http.Header{}, Body: io.NopCloser(strings.NewReader("{}")), Request: req}, nil
}

var c13eNames = []string{"get /", "GET /Users", "a", "Span-1", "db.query", "X", "op_2", "checkout.Pay"}

func c13eGenSpan(r *vRand, bad bool) c13eSpan {
	var s c13eSpan
	for i := range s.tid {
		s.tid[i] = byte(r.U64())
	}
	switch r.Intn(5) {
	case 0: // 64-bit trace id: High = 0, rendered as 16 hex chars
		for i := 0; i < 8; i++ {
			s.tid[i] = 0
		}
	case 1:
		s.tid[8], s.tid[15] = 0, 0
	}
	if s.tid == (trace.TraceID{}) {
		s.tid[15] = 1
	}
	for i := range s.sid {
		s.sid[i] = byte(r.U64())
	}
	if r.Intn(4) == 0 {
		s.sid = trace.SpanID{0, 0, 0, 0, 0, 0, 0, byte(1 + r.Intn(255))}
	}
	if s.sid == (trace.SpanID{}) {
		s.sid[7] = 1
	}
	if r.Intn(3) != 0 {
		for i := range s.pid {
			s.pid[i] = byte(r.U64())
		}
	}
	s.name = c13eNames[r.Intn(len(c13eNames))]
	s.kind = r.Intn(7) - 1
	s.start = 1700000000000000000 + int64(r.Intn(1<<40))
	switch r.Intn(6) {
	case 0:
		s.end = s.start // zero duration: omitted from the JSON
	case 1:
		s.end = s.start + int64(1+r.Intn(999)) // sub-microsecond: reported as 1 µs
	case 2:
		s.end = s.start + 1000*int64(r.Intn(1000)) + vPick(r, []int64{0, 499, 500, 501, 999})
	default:
		s.end = s.start + int64(r.Intn(1<<36))
	}
	if bad {
		if r.Bool() {
			s.end = s.start - 1 - int64(r.Intn(1000)) // negative duration: the batch cannot be serialised
		} else {
			s.start, s.end = int64(r.Intn(1000000000)), 2000000000 // before 1970-01-01T00:00:01Z: rejected by the Zipkin model
		}
	}
	return s
}

func c13eGenSeq(tag string, cs uint64) (mode string, calls []c13eCall) {
	r := &vRand{s: cs}
	if tag == "wit-seq" {
		// minimal witness of seeded change C13-3: a transport failure before the body is read, then a good export
		a := c13eSpan{tid: trace.TraceID{1}, sid: trace.SpanID{2}, name: "first", kind: 2, start: 1700000000000000000, end: 1700000000000001000}
		b := c13eSpan{tid: trace.TraceID{3}, sid: trace.SpanID{4}, pid: trace.SpanID{5}, name: "second", kind: 3, start: 1700000001000000000, end: 1700000001000002000}
		return "rt", []c13eCall{{resp: "tebefore", spans: []c13eSpan{a}}, {resp: "ok", spans: []c13eSpan{b}}}
	}
	mode = "rt"
	resps := []string{"ok", "ok", "ok", "s200", "s204", "s400", "s500", "tebefore", "tebefore", "tepartial", "teafter", "cancel"}
	if tag == "net" {
		mode = "net"
		resps = []string{"ok", "ok", "s200", "s400", "s500", "tebefore", "tebefore"}
	}
	n := 1 + r.Intn(4)
	for i := 0; i < n; i++ {
		c := c13eCall{resp: resps[r.Intn(len(resps))], stop: r.Intn(25) == 0}
		k := r.Intn(4)
		if k == 0 && r.Intn(3) != 0 {
			k = 1
		}
		badAt := -1
		if r.Intn(25) == 0 && k > 0 {
			badAt = r.Intn(k)
		}
		for j := 0; j < k; j++ {
			c.spans = append(c.spans, c13eGenSpan(r, j == badAt))
		}
		calls = append(calls, c)
	}
	return mode, calls
}

type c13eJSpan struct {
	TraceID   string  `json:"traceId"`
	ID        string  `json:"id"`
	ParentID  *string `json:"parentId"`
	Name      string  `json:"name"`
	Kind      string  `json:"kind"`
	Timestamp int64   `json:"timestamp"`
	Duration  int64   `json:"duration"`
}

func c13eLowerHex(s string) bool {
	for _, c := range s {
		if !(c >= '0' && c <= '9' || c >= 'a' && c <= 'f') {
			return false
		}
	}
	return true
}

// c13eDecodeBody: reference decoder of a Zipkin v2 POST body: exactly one JSON array of span objects.
func c13eDecodeBody(b []byte) string {
	dec := json.NewDecoder(bytes.NewReader(b))
	var arr []c13eJSpan
	if err := dec.Decode(&arr); err != nil {
		return "bad:json"
	}
	if _, err := dec.Token(); err != io.EOF {
		return "bad:trailing-data"
	}
	var sb strings.Builder
	fmt.Fprintf(&sb, "%d", len(arr))
	for _, j := range arr {
		if (len(j.TraceID) != 16 && len(j.TraceID) != 32) || len(j.ID) != 16 || !c13eLowerHex(j.TraceID) || !c13eLowerHex(j.ID) {
			return "bad:id-format"
		}
		var high uint64
		lowHex := j.TraceID
		if len(j.TraceID) == 32 {
			high, _ = strconv.ParseUint(j.TraceID[:16], 16, 64)
			lowHex = j.TraceID[16:]
		}
		low, _ := strconv.ParseUint(lowHex, 16, 64)
		id, _ := strconv.ParseUint(j.ID, 16, 64)
		parent := "-"
		if j.ParentID != nil {
			if len(*j.ParentID) != 16 || !c13eLowerHex(*j.ParentID) {
				return "bad:id-format"
			}
			p, _ := strconv.ParseUint(*j.ParentID, 16, 64)
			parent = strconv.FormatUint(p, 10)
		}
		fmt.Fprintf(&sb, " %d %d %d %s %s %s %d %d", high, low, id, parent, vHex(j.Name), vHex(j.Kind), j.Timestamp, j.Duration)
	}
	return sb.String()
}

func c13eRunSeq(out *vOut, tag string, cs uint64) {
	mode, calls := c13eGenSeq(tag, cs)
	cur := &c13eCur{}
	var client *http.Client
	url := "http://zipkin.invalid:9411/api/v2/spans"
	var cleanup func()
	if mode == "net" {
		srv := httptest.NewServer(http.HandlerFunc(func(w http.ResponseWriter, req *http.Request) {
			resp, _, _ := cur.get()
			b, _ := io.ReadAll(req.Body)
			cur.deliver(b)
			w.WriteHeader(c13eStatus(resp))
		}))
		tr := &http.Transport{DisableKeepAlives: true, DialContext: func(ctx context.Context, network, addr string) (net.Conn, error) {
			if resp, _, _ := cur.get(); resp == "tebefore" {
				return nil, errors.New("scripted dial error: connection refused")
			}
			return (&net.Dialer{}).DialContext(ctx, network, addr)
		}}
		client = &http.Client{Transport: tr}
		url = srv.URL + "/api/v2/spans"
		cleanup = func() { tr.CloseIdleConnections(); srv.Close() }
	} else {
		client = &http.Client{Transport: c13eRT{cur: cur}}
		cleanup = func() {}
	}
	defer cleanup()
	exp, err := New(url, WithClient(client))
	if err != nil {
		out.Line("zipkinseq %s %d %s => err:new", tag, cs, mode)
		return
	}
	var in, obs []string
	for _, c := range calls {
		var sb strings.Builder
		stop := 0
		if c.stop {
			stop = 1
			_ = exp.Shutdown(context.Background())
		}
		fmt.Fprintf(&sb, "%d %s %d", stop, c.resp, len(c.spans))
		batch := make([]tracesdk.ReadOnlySpan, 0, len(c.spans))
		for _, s := range c.spans {
			fmt.Fprintf(&sb, " %s %s %s %s %d %d %d", vHexB(s.tid[:]), vHexB(s.sid[:]), vHexB(s.pid[:]), vHex(s.name), s.kind, s.start, s.end)
			batch = append(batch, tracetest.SpanStub{
				Name:        s.name,
				SpanContext: trace.NewSpanContext(trace.SpanContextConfig{TraceID: s.tid, SpanID: s.sid}),
				Parent:      trace.NewSpanContext(trace.SpanContextConfig{TraceID: s.tid, SpanID: s.pid}),
				SpanKind:    trace.SpanKind(s.kind), StartTime: time.Unix(0, s.start), EndTime: time.Unix(0, s.end),
			}.Snapshot())
		}
		in = append(in, sb.String())
		ctx, cancel := context.WithCancel(context.Background())
		cur.set(c.resp, cancel)
		e := exp.ExportSpans(ctx, batch)
		cancel()
		_, delivered, body := cur.get()
		o := "nil"
		if e != nil {
			o = "err"
		}
		if delivered {
			o += " " + c13eDecodeBody(body)
		} else {
			o += " nodeliv"
		}
		obs = append(obs, o)
	}
	out.Line("zipkinseq %s %d %s %s => %s", tag, cs, mode, strings.Join(in, " | "), strings.Join(obs, " | "))
}

func TestVerifC13ZipkinE2E(t *testing.T) {
	out := vOpen(t)
	defer out.Close()
	if lines := vReplayLines(); lines != nil {
		for _, l := range lines {
			if len(l) >= 3 && l[0] == "zipkinseq" {
				if cs, err := strconv.ParseUint(l[2], 10, 64); err == nil {
					c13eRunSeq(out, l[1], cs)
				}
			}
		}
		return
	}
	seed, n := vSeed(), vN(2000)
	c13eRunSeq(out, "wit-seq", 0)
	for i := 0; i < n; i++ {
		tag := "rt"
		if i%8 == 0 {
			tag = "net"
		}
		r := vRand{s: seed ^ (uint64(i)+1)*0x9e3779b97f4a7c15}
		c13eRunSeq(out, tag, r.U64()>>1)
	}
}
