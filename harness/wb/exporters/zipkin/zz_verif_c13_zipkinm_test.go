// C13 — Zipkin model leg: the parts of toZipkinSpanModel beyond ids/name/kind/time — toZipkinTags
// (attributeToStringPair, status / error / scope tags, resource-over-span and later-over-earlier overriding),
// toZipkinRemoteEndpoint (rank table, first-of-smallest-rank selection, IP + port endpoints), getServiceName,
// toZipkinAnnotations and the constant fields.
//
// line: zipkinm <gen> <caseSeed> kind code xdesc xscopeName xscopeVersion xdefaultService
//
//	A <n> (xkey <type> <value>)… R <n> (xkey <type> <value>)… E <n> (xname time nattrs xjson)… IP <n> (xtext -|4x…|6x…)…
//	=> xlocalService <-|ep xservice xipv4 xipv6 port> T <n> (xkey xvalue)… N <n> (time xvalue)… <shared><debug><sampled><err>
//
// type/value: b 0|1, i <decimal>, f x<fmt.Sprint text>, s x<bytes>, B <0|1,…|->, I <decimal,…|->,
// F x<json text or empty>, S <xhex,…|->, v -   (float texts and the event JSON come from fmt / encoding/json here,
// not from the code under test; the IP table from net.ParseIP).
package zipkin

import (
	"encoding/json"
	"fmt"
	"math"
	"net"
	"sort"
	"strconv"
	"strings"
	"testing"
	"time"

	"go.opentelemetry.io/otel/attribute"
	"go.opentelemetry.io/otel/codes"
	"go.opentelemetry.io/otel/sdk/instrumentation"
	"go.opentelemetry.io/otel/sdk/resource"
	tracesdk "go.opentelemetry.io/otel/sdk/trace"
	"go.opentelemetry.io/otel/sdk/trace/tracetest"
	"go.opentelemetry.io/otel/trace"
)

var (
	c13zmRanked = []string{"peer.service", "server.address", "net.peer.name", "network.peer.address",
		"server.socket.domain", "server.socket.address", "net.sock.peer.name", "net.sock.peer.addr", "peer.hostname",
		"peer.address", "db.name"}
	c13zmPorts   = []string{"network.peer.port", "server.socket.port", "net.sock.peer.port"}
	c13zmSpecial = []string{"error", "otel.status_code", "otel.scope.name", "otel.scope.version", "service.name"}
	c13zmOther   = []string{"a", "b", "http.method", "", "peer.servic", "peer.service.x", "Error"}
	c13zmIPs     = []string{"1.2.3.4", "::1", "2001:db8::1", "::ffff:1.2.3.4", "not-an-ip", "", "256.1.1.1",
		"example.com", "10.0.0.1", "fe80::1", "1.2.3", "0.0.0.0"}
	c13zmPortS = []string{"8080", "0", "65535", "65536", "99999999999999999999", "-1", "+1", "08", "8_0", "", " 80", "80 ", "443"}
	c13zmInts  = []int64{0, 80, 8080, 65535, 65536, -1, 1 << 40, math.MaxInt64, math.MinInt64, 7}
	c13zmFlts  = []float64{0, 1.5, 8080, 1e21, 1e-7, math.NaN(), math.Inf(1), math.Copysign(0, -1), 65536, 1e6}
	c13zmSafe  = []string{"", "a", "svc", "x y", "A.b-c_d:e/f", "0"}
	// string-slice elements: everything encoding/json escapes (quote, backslash, control characters, <, >, &, U+2028/9,
	// invalid UTF-8) next to what it copies (DEL, multi-byte runes, an encoded U+FFFD)
	c13zmEsc = []string{"", "a", "x y", "a\"b", "back\\slash", "\x00\x1f", "\b\f\n\r\t", "<&>", "\u2028x\u2029", "\xff",
		"\xe2\x80", "\xc0\x80", "é日", "\x7f", "\xef\xbf\xbd", "\xf0\x9f\x98\x80", "\xed\xa0\x80", "\x01\x0b\x0e", "a\xffb\"", "'/"}
	c13zmNames = []string{"", "ev", "exception", "a: b"}
)

func c13zmValue(r *vRand, key string) attribute.KeyValue {
	k := attribute.Key(key)
	isPort := false
	for _, p := range c13zmPorts {
		if p == key {
			isPort = true
		}
	}
	isIPKey := key == "network.peer.address" || key == "server.socket.address" || key == "net.sock.peer.addr"
	t := r.Intn(20)
	if isIPKey && r.Intn(4) != 0 {
		return k.String(vPick(r, c13zmIPs))
	}
	if isPort && r.Intn(3) == 0 {
		return k.Int64(vPick(r, c13zmInts))
	}
	switch {
	case t < 8: // string
		var s string
		switch {
		case isPort:
			s = vPick(r, c13zmPortS)
		case r.Intn(2) == 0:
			s = vPick(r, c13zmIPs)
		default:
			s = vPick(r, c13zmSafe)
		}
		return k.String(s)
	case t < 11:
		return k.Int64(vPick(r, c13zmInts))
	case t < 13:
		return k.Float64(vPick(r, c13zmFlts))
	case t < 14:
		return k.Bool(r.Bool())
	case t < 15:
		n := r.Intn(4)
		l := make([]bool, n)
		for i := range l {
			l[i] = r.Bool()
		}
		return k.BoolSlice(l)
	case t < 16:
		n := r.Intn(4)
		l := make([]int64, n)
		for i := range l {
			l[i] = vPick(r, c13zmInts)
		}
		return k.Int64Slice(l)
	case t < 17:
		n := r.Intn(4)
		l := make([]float64, n)
		for i := range l {
			l[i] = vPick(r, c13zmFlts)
		}
		return k.Float64Slice(l)
	case t < 19:
		n := r.Intn(4)
		l := make([]string, n)
		for i := range l {
			switch r.Intn(4) {
			case 0:
				l[i] = vStr(r, 3) // byte strings around the UTF-8 branch points (may be invalid)
			case 1:
				l[i] = vPick(r, c13zmSafe)
			default:
				l[i] = vPick(r, c13zmEsc)
			}
		}
		return k.StringSlice(l)
	default:
		return attribute.KeyValue{Key: k} // INVALID
	}
}

func c13zmKey(r *vRand, tag string) string {
	w := r.Intn(10)
	switch tag {
	case "ep":
		switch {
		case w < 6:
			return vPick(r, c13zmRanked)
		case w < 9:
			return vPick(r, c13zmPorts)
		}
		return vPick(r, c13zmOther)
	case "ipport":
		if w < 5 {
			return vPick(r, c13zmPorts)
		}
		if w < 7 {
			return vPick(r, c13zmRanked[7:]) // ranks 8-11: the address keys with rank 4 and 6 win over them
		}
		return vPick(r, c13zmOther)
	case "tags":
		switch {
		case w < 5:
			return vPick(r, c13zmSpecial)
		case w < 8:
			return vPick(r, c13zmOther)
		}
		return vPick(r, c13zmRanked)
	}
	switch {
	case w < 3:
		return vPick(r, c13zmRanked)
	case w < 4:
		return vPick(r, c13zmPorts)
	case w < 6:
		return vPick(r, c13zmSpecial)
	}
	return vPick(r, c13zmOther)
}

func c13zmCSV[T any](l []T, f func(T) string) string {
	if len(l) == 0 {
		return "-"
	}
	p := make([]string, len(l))
	for i, x := range l {
		p[i] = f(x)
	}
	return strings.Join(p, ",")
}

// canonical token triple of one attribute, read through the public accessors; ips collects every string value
func c13zmTok(kv attribute.KeyValue, ips map[string]bool) string {
	k := vHex(string(kv.Key))
	v := kv.Value
	switch v.Type() {
	case attribute.BOOL:
		if v.AsBool() {
			return k + " b 1"
		}
		return k + " b 0"
	case attribute.INT64:
		return k + " i " + strconv.FormatInt(v.AsInt64(), 10)
	case attribute.FLOAT64:
		return k + " f " + vHex(fmt.Sprint(v.AsFloat64()))
	case attribute.STRING:
		ips[v.AsString()] = true
		return k + " s " + vHex(v.AsString())
	case attribute.BOOLSLICE:
		return k + " B " + c13zmCSV(v.AsBoolSlice(), func(b bool) string {
			if b {
				return "1"
			}
			return "0"
		})
	case attribute.INT64SLICE:
		return k + " I " + c13zmCSV(v.AsInt64Slice(), func(i int64) string { return strconv.FormatInt(i, 10) })
	case attribute.FLOAT64SLICE:
		data, _ := json.Marshal(v.AsFloat64Slice())
		return k + " F " + vHex(string(data))
	case attribute.STRINGSLICE:
		return k + " S " + c13zmCSV(v.AsStringSlice(), vHex)
	}
	return k + " v -"
}

func c13zmIface(v attribute.Value) interface{} {
	switch v.Type() {
	case attribute.BOOL:
		return v.AsBool()
	case attribute.INT64:
		return v.AsInt64()
	case attribute.FLOAT64:
		return v.AsFloat64()
	case attribute.STRING:
		return v.AsString()
	case attribute.BOOLSLICE:
		return v.AsBoolSlice()
	case attribute.INT64SLICE:
		return v.AsInt64Slice()
	case attribute.FLOAT64SLICE:
		return v.AsFloat64Slice()
	case attribute.STRINGSLICE:
		return v.AsStringSlice()
	}
	return struct{}{} // INVALID: an empty JSON object
}

func c13zmRun(out *vOut, tag string, cs uint64) {
	r := &vRand{s: cs}
	kind := trace.SpanKind(r.Intn(8) - 1)
	if (tag == "ep" && r.Intn(4) != 0) || tag == "ipport" {
		kind = trace.SpanKindClient
		if r.Bool() {
			kind = trace.SpanKindProducer
		}
	}
	code := codes.Code(vPick(r, []uint32{0, 0, 1, 1, 2, 2, 3}))
	desc := vPick(r, []string{"", "boom", "x y"})
	scope := instrumentation.Scope{Name: vPick(r, []string{"", "lib", "otel"}), Version: vPick(r, []string{"", "v1"})}
	ips := map[string]bool{}

	na := r.Intn(7)
	attrs := make([]attribute.KeyValue, na)
	atoks := make([]string, na)
	for i := range attrs {
		attrs[i] = c13zmValue(r, c13zmKey(r, tag))
	}
	if tag == "ipport" {
		// one address attribute with a parsable IP and (mostly) its own port key next to the random ones
		j := r.Intn(3)
		addr := attribute.String([]string{"network.peer.address", "server.socket.address", "net.sock.peer.addr"}[j],
			vPick(r, []string{"1.2.3.4", "::1", "2001:db8::1", "::ffff:1.2.3.4", "10.0.0.1"}))
		pk := c13zmPorts[j]
		if r.Intn(6) == 0 {
			pk = vPick(r, c13zmPorts)
		}
		var port attribute.KeyValue
		if r.Bool() {
			port = attribute.String(pk, vPick(r, c13zmPortS))
		} else {
			port = attribute.Int64(pk, vPick(r, c13zmInts))
		}
		ins := func(kv attribute.KeyValue) {
			at := r.Intn(len(attrs) + 1)
			attrs = append(attrs, attribute.KeyValue{})
			copy(attrs[at+1:], attrs[at:])
			attrs[at] = kv
		}
		ins(addr)
		if r.Intn(8) != 0 {
			ins(port)
		}
		atoks = make([]string, len(attrs))
	}
	if tag == "exh" {
		// exhaustive small scope: every ordered choice of up to three ranked keys (index 11 = absent), client kind;
		// the case seed IS the choice (replayable)
		kind = trace.SpanKindClient
		attrs = attrs[:0]
		for p, c := 0, cs; p < 3; p, c = p+1, c/12 {
			if i := int(c % 12); i < len(c13zmRanked) {
				attrs = append(attrs, attribute.String(c13zmRanked[i], []string{"s0", "1.2.3.4", "::1"}[p]))
			}
		}
		attrs = append(attrs, attribute.Int64(c13zmPorts[int(cs/1728)%3], 8080))
		atoks = make([]string, len(attrs))
	}
	for i := range attrs {
		atoks[i] = c13zmTok(attrs[i], ips)
	}
	var res *resource.Resource
	if r.Intn(5) != 0 {
		nr := r.Intn(5)
		rkv := make([]attribute.KeyValue, nr)
		for i := range rkv {
			rkv[i] = c13zmValue(r, vPick(r, []string{"service.name", "a", "error", "otel.status_code", "peer.service", "b", "otel.scope.name"}))
		}
		res = resource.NewSchemaless(rkv...)
	}
	var rtoks []string
	for _, kv := range res.Attributes() {
		rtoks = append(rtoks, c13zmTok(kv, ips))
	}
	ne := r.Intn(4)
	events := make([]tracesdk.Event, ne)
	etoks := make([]string, ne)
	for i := range events {
		nea := r.Intn(3)
		ea := make([]attribute.KeyValue, nea)
		m := make(map[string]interface{}, nea)
		for j := range ea {
			ea[j] = c13zmValue(r, vPick(r, []string{"a", "b", "k"}))
			m[string(ea[j].Key)] = c13zmIface(ea[j].Value)
		}
		js, _ := json.Marshal(m)
		tm := int64(1700000000000000000) + int64(r.Intn(1<<30))
		events[i] = tracesdk.Event{Name: vPick(r, c13zmNames), Time: time.Unix(0, tm), Attributes: ea}
		etoks[i] = fmt.Sprintf("%s %d %d %s", vHex(events[i].Name), tm, nea, vHex(string(js)))
	}
	var iptoks []string
	var ipkeys []string
	for s := range ips {
		ipkeys = append(ipkeys, s)
	}
	sort.Strings(ipkeys)
	for _, s := range ipkeys {
		ip := net.ParseIP(s)
		switch {
		case ip == nil:
			iptoks = append(iptoks, vHex(s)+" -")
		case ip.To4() != nil:
			iptoks = append(iptoks, vHex(s)+" 4"+vHexB(ip))
		default:
			iptoks = append(iptoks, vHex(s)+" 6"+vHexB(ip))
		}
	}

	st := tracetest.SpanStub{
		Name:        "n",
		SpanContext: trace.NewSpanContext(trace.SpanContextConfig{TraceID: trace.TraceID{1}, SpanID: trace.SpanID{2}}),
		SpanKind:    kind, StartTime: time.Unix(0, 1700000000000000000), EndTime: time.Unix(0, 1700000000000001000),
		Attributes: attrs, Events: events, Status: tracesdk.Status{Code: code, Description: desc},
		Resource: res, InstrumentationScope: scope,
	}
	m := toZipkinSpanModel(st.Snapshot())

	local := "-"
	if m.LocalEndpoint != nil {
		local = vHex(m.LocalEndpoint.ServiceName)
	}
	remote := "-"
	if e := m.RemoteEndpoint; e != nil {
		remote = fmt.Sprintf("ep %s %s %s %d", vHex(e.ServiceName), vHexB(e.IPv4), vHexB(e.IPv6), e.Port)
	}
	var tkeys []string
	for k := range m.Tags {
		tkeys = append(tkeys, k)
	}
	sort.Strings(tkeys)
	var ttoks []string
	for _, k := range tkeys {
		ttoks = append(ttoks, vHex(k)+" "+vHex(m.Tags[k]))
	}
	var ntoks []string
	for _, a := range m.Annotations {
		ntoks = append(ntoks, fmt.Sprintf("%d %s", a.Timestamp.UnixNano(), vHex(a.Value)))
	}
	fl := func(b bool) string {
		if b {
			return "1"
		}
		return "0"
	}
	join := func(n int, toks []string) string {
		if n == 0 {
			return "0"
		}
		return strconv.Itoa(n) + " " + strings.Join(toks, " ")
	}
	out.Line("zipkinm %s %d %d %d %s %s %s %s A %s R %s E %s IP %s => %s %s T %s N %s %s", tag, cs,
		int64(kind), uint32(code), vHex(desc), vHex(scope.Name), vHex(scope.Version), vHex(defaultServiceName),
		join(len(atoks), atoks), join(len(rtoks), rtoks), join(len(etoks), etoks), join(len(iptoks), iptoks),
		local, remote, join(len(ttoks), ttoks), join(len(ntoks), ntoks),
		fl(m.Shared)+fl(m.Debug)+fl(m.Sampled != nil)+fl(m.Err != nil))
}

func TestVerifC13ZipkinM(t *testing.T) {
	out := vOpen(t)
	defer out.Close()
	if lines := vReplayLines(); lines != nil {
		for _, l := range lines {
			if len(l) >= 3 && l[0] == "zipkinm" {
				if cs, err := strconv.ParseUint(l[2], 10, 64); err == nil {
					c13zmRun(out, l[1], cs)
				}
			}
		}
		return
	}
	seed, n := vSeed(), vN(4000)
	for cs := uint64(0); cs < 3*1728; cs++ {
		c13zmRun(out, "exh", cs)
	}
	for i := 0; i < n; i++ {
		tag := "mix"
		switch i % 5 {
		case 1, 2:
			tag = "ep"
		case 3:
			tag = "tags"
		case 4:
			tag = "ipport"
		}
		r := vRand{s: seed ^ (uint64(i)+1)*0x9e3779b97f4a7c15}
		c13zmRun(out, tag, r.U64()>>1)
	}
}
