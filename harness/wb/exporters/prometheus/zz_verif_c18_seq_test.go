package prometheus

import (
	"context"
	"fmt"
	"strings"
	"testing"

	"go.opentelemetry.io/otel"
	"go.opentelemetry.io/otel/attribute"
	"go.opentelemetry.io/otel/metric"
	sdkmetric "go.opentelemetry.io/otel/sdk/metric"
	"go.opentelemetry.io/otel/sdk/metric/metricdata"
	"go.opentelemetry.io/otel/sdk/resource"
)

// TestVerifC18Seq: SEQUENCES of scrapes of one exporter. The collector keeps caches across scrapes (target info, resource
// constant labels, one otel_scope_info metric per instrumentation scope, the set of scopes whose info metric cannot be
// created, the family table); the application creates meters and instruments while it runs. One line = one exporter:
//
//	seq <gen> <6 flags> <ns raw|-> <res kvs> || N || D | S <name> <ver> <schema> <scope kvs> | I … | P … || D | … => <scrape 1> || <scrape 2> || …
//
// N = a scrape before the exporter is registered with a MeterProvider, D = a scrape with the scopes/instruments/data the SDK
// holds at that moment (input part = what a second, independent cumulative ManualReader collects right after the scrape).
// Meters are drawn from a pool of scope identities that differ from one another only in version / schema URL / scope
// attributes (plus unrelated ones); new meters and instruments appear between scrapes, existing instruments keep
// measuring. Every scrape is rendered like an e2e scrape and judged by the same oracle on its own: what scrape k exposes
// is a function of the data at scrape k, whatever earlier scrapes saw (theorem runSeq_refines).
func TestVerifC18Seq(t *testing.T) {
	out := vOpen(t)
	defer out.Close()
	otel.SetErrorHandler(otel.ErrorHandlerFunc(func(error) {}))
	defer c18SetScheme(false)

	if rp := vReplayLines(); rp != nil {
		for _, f := range rp {
			if f[0] != "seq" || len(f) < 6 {
				continue
			}
			c18SeqReplay(out, f)
		}
		return
	}

	r := &vRand{s: vSeed() ^ 0x5e9c18}
	n := vN(300)
	g := newC18Gen(r)
	ctx := context.Background()
	for _, mode := range []string{"late-attrs", "late-attrs", "late-schema", "late-version", "invalid-first", "invalid-late", "same-again"} {
		c18Seq(out, g, ctx, mode)
	}
	for i := 0; i < n; i++ {
		c18Seq(out, g, ctx, "")
	}
}

type c18SeqScope struct {
	prefix string
	name   string
	ver    string
	schema string
	attrs  []attribute.KeyValue
	meter  metric.Meter
	insts  []c18SeqInst
}

type c18SeqInst struct {
	in   c18Inst
	sets [][]attribute.KeyValue
}

func c18Seq(out *vOut, g *c18Gen, ctx context.Context, mode string) {
	r := g.r
	legacy := r.Intn(3) == 0
	flags := fmt.Sprintf("%d%d%d%d%d%d", b2i(legacy), b2i(r.Intn(4) == 0), b2i(r.Intn(4) == 0), b2i(r.Intn(6) == 0 && mode == ""), b2i(r.Intn(5) == 0), c18ResFlag(r))
	nsTok := "-"
	if r.Intn(4) == 0 {
		nsTok = vHex(vPick(r, g.namespaces))
	}
	c18SetScheme(legacy)
	var res []attribute.KeyValue
	for k := r.Intn(3); k > 0; k-- {
		res = append(res, attribute.String(vPick(r, []string{"r.a", "r_a", "service.name", "r-b"}), vPick(r, c18Vals)))
	}

	cr := &c18CapReg{}
	exp, err := New(append(c18Opts(flags, nsTok), WithRegisterer(cr))...)
	if err != nil {
		out.Line("seq %s %s %s - => new-error", "new", flags, nsTok)
		return
	}
	var steps, obs []string
	if r.Intn(6) == 0 {
		steps = append(steps, "N")
		obs = append(obs, c18Gather(cr.c))
	}
	r2 := sdkmetric.NewManualReader()
	mp := sdkmetric.NewMeterProvider(sdkmetric.WithReader(exp), sdkmetric.WithReader(r2), sdkmetric.WithResource(resource.NewSchemaless(res...)))
	defer mp.Shutdown(ctx)

	// the pool of scope identities of this application
	var pool []*c18SeqScope
	add := func(name, ver, schema string, attrs []attribute.KeyValue) {
		pool = append(pool, &c18SeqScope{prefix: fmt.Sprintf("s%d", len(pool)), name: name, ver: ver, schema: schema, attrs: attrs})
	}
	gen := "rnd"
	ordered := mode != "" // forced patterns create the pool's scopes in pool order, one per scrape
	switch mode {
	case "late-attrs":
		add("lib", "v1", "", []attribute.KeyValue{attribute.String("tenant", "a")})
		add("lib", "v1", "", []attribute.KeyValue{attribute.String("tenant", "b")})
		add("lib", "v1", "", nil)
	case "late-schema":
		add("lib", "v1", "https://opentelemetry.io/schemas/1.21.0", nil)
		add("lib", "v1", "https://opentelemetry.io/schemas/1.26.0", nil)
	case "late-version":
		add("lib", "", "", []attribute.KeyValue{attribute.String("tenant", "a")})
		add("lib", "v2", "", []attribute.KeyValue{attribute.String("tenant", "a")})
	case "invalid-first":
		add("lib", "v1", "", []attribute.KeyValue{attribute.String("__reserved", "x")})
		add("lib", "v1", "", []attribute.KeyValue{attribute.String("tenant", "b")})
	case "invalid-late":
		add("lib", "v1", "", []attribute.KeyValue{attribute.String("tenant", "b")})
		add("lib", "v1", "", []attribute.KeyValue{attribute.String("bad", "\xff")})
		add("lib", "v1", "", []attribute.KeyValue{attribute.String("tenant", "c")})
	case "same-again":
		add("lib", "v1", "", []attribute.KeyValue{attribute.String("tenant", "a")})
		add("lib", "v1", "", []attribute.KeyValue{attribute.String("tenant", "a")})
	default:
		n0, v0, u0, a0 := c18ScopeID(r)
		add(n0, v0, u0, a0)
		for k := 1 + r.Intn(4); k > 0; k-- {
			switch b := pool[r.Intn(len(pool))]; r.Intn(5) {
			case 0:
				add(c18ScopeID(r))
			default:
				add(c18ScopeVariant(r, b.name, b.ver, b.schema, b.attrs))
			}
		}
	}
	if mode != "" {
		gen = mode
	}

	next := 0 // next pool entry to bring to life
	var live []*c18SeqScope
	dupTag := 0
	noCtx := func() context.Context { return ctx }
	newInst := func(sc *c18SeqScope) {
		var in c18Inst
		in.kind = r.Intn(7)
		if in.kind == 2 && r.Intn(2) == 0 {
			in.kind = 0
		}
		in.float = r.Bool()
		_, in.name = g.name()
		for tries := 0; tries < 8 && !c18Legal(in.name); tries++ {
			_, in.name = g.name()
		}
		in.name = sc.prefix + in.name // scope order is a map order: keep the scopes' families apart
		in.unit = g.unit()
		in.desc = vPick(r, []string{"", "d1", "d2"})
		if len(sc.insts) > 0 && r.Intn(4) == 0 {
			// same family as an earlier instrument of this scope (help / type conflict across scrapes)
			prev := sc.insts[r.Intn(len(sc.insts))].in
			in.name, in.unit = prev.name, prev.unit
			if r.Bool() {
				in.name = prev.name + "_total"
			}
			if r.Bool() {
				in.kind, in.float = prev.kind, prev.float
			}
		}
		var sets [][]attribute.KeyValue
		for a := 1 + r.Intn(2); a > 0; a-- {
			kvs := g.attrs(false)
			if legacy {
				kvs2 := kvs[:0]
				for _, kv := range kvs {
					if !strings.Contains(string(kv.Key), ":") {
						kvs2 = append(kvs2, kv)
					}
				}
				kvs = kvs2
			}
			dupTag++
			kvs = append(kvs, attribute.Int("id", dupTag))
			sets = append(sets, kvs)
		}
		c18Record(noCtx, r, sc.meter, in, sets, false)
		sc.insts = append(sc.insts, c18SeqInst{in, sets})
	}

	nData := 2 + r.Intn(3)
	if ordered {
		nData = len(pool) + 1
	}
	for k := 0; k < nData; k++ {
		// new meters
		born := 0
		switch {
		case ordered:
			if next < len(pool) {
				born = 1
			}
		case k == 0:
			born = 1 + r.Intn(2)
			if r.Intn(10) == 0 {
				born = 0
			}
		default:
			born = r.Intn(3)
		}
		for ; born > 0 && next < len(pool); born-- {
			sc := pool[next]
			next++
			sc.meter = mp.Meter(sc.name, metric.WithInstrumentationVersion(sc.ver), metric.WithSchemaURL(sc.schema), metric.WithInstrumentationAttributes(sc.attrs...))
			live = append(live, sc)
			for ni := 1 + r.Intn(2); ni > 0; ni-- {
				newInst(sc)
			}
		}
		// existing meters: more measurements on synchronous instruments, sometimes a new instrument
		for _, sc := range live {
			for _, si := range sc.insts {
				if si.in.kind <= 3 && r.Intn(3) == 0 {
					c18Record(noCtx, r, sc.meter, si.in, si.sets[:1], false)
				}
			}
			if r.Intn(5) == 0 {
				newInst(sc)
			}
		}
		o := c18Gather(cr.c)
		var rm metricdata.ResourceMetrics
		if err := r2.Collect(ctx, &rm); err != nil {
			out.Line("seq %s %s %s - => reader-error", gen, flags, nsTok)
			return
		}
		d := "D"
		if data := c18Data(&rm, false); data != "" {
			d += " | " + data
		}
		steps = append(steps, d)
		obs = append(obs, o)
	}
	out.Line("seq %s %s %s %s || %s => %s", gen, flags, nsTok, c18KVsOf(res), strings.Join(steps, " || "), strings.Join(obs, " || "))
}

// c18KVsOf renders the resource the way the provider holds it (attribute.NewSet order, last value wins).
func c18KVsOf(res []attribute.KeyValue) string {
	return c18SetKVs(attribute.NewSet(res...))
}

// c18SeqReplay re-executes the input part of a seq line against a fresh collector, feeding every D step to the collector
// through a stub reader (exact, no SDK involved).
func c18SeqReplay(out *vOut, f []string) {
	flags, nsTok, resTok := f[2], f[3], f[4]
	c18SetScheme(flags[0] == '1')
	cr := &c18CapReg{}
	if _, err := New(append(c18Opts(flags, nsTok), WithRegisterer(cr))...); err != nil {
		out.Line("seq %s %s %s - => new-error", f[1], flags, nsTok)
		return
	}
	c := cr.c.(*collector)
	orig := c.reader
	var stepToks [][]string
	cur := []string(nil)
	for _, tok := range f[5:] {
		if tok == "||" {
			if cur != nil {
				stepToks = append(stepToks, cur)
			}
			cur = []string{}
			continue
		}
		cur = append(cur, tok)
	}
	if cur != nil {
		stepToks = append(stepToks, cur)
	}
	var steps, obs []string
	for _, st := range stepToks {
		if len(st) == 1 && st[0] == "N" {
			c.reader = orig
			steps = append(steps, "N")
			obs = append(obs, c18Gather(c))
			continue
		}
		rm := c18ParseData(c18ParseKVs(resTok), c18Groups(st))
		c.reader = &c18Reader{Reader: orig, rm: rm}
		o := c18Gather(c)
		d := "D"
		if data := c18Data(rm, true); data != "" {
			d += " | " + data
		}
		steps = append(steps, d)
		obs = append(obs, o)
	}
	out.Line("seq %s %s %s %s || %s => %s", f[1], flags, nsTok, resTok, strings.Join(steps, " || "), strings.Join(obs, " || "))
}
