package prometheus

// Helpers shared by the C18 harness legs (names, e2e, race). Injected with go test -overlay; /repo is not modified.

import (
	"context"
	"encoding/hex"
	"fmt"
	"math"
	"sort"
	"strconv"
	"strings"
	"time"

	"github.com/prometheus/client_golang/prometheus"
	dto "github.com/prometheus/client_model/go"
	"github.com/prometheus/common/model"

	"go.opentelemetry.io/otel/attribute"
	sdkmetric "go.opentelemetry.io/otel/sdk/metric"
	"go.opentelemetry.io/otel/sdk/metric/metricdata"
	"go.opentelemetry.io/otel/sdk/resource"
)

// c18CapReg captures the collector the exporter registers (white-box access to *collector).
type c18CapReg struct{ c prometheus.Collector }

func (r *c18CapReg) Register(c prometheus.Collector) error   { r.c = c; return nil }
func (r *c18CapReg) MustRegister(cs ...prometheus.Collector) { r.c = cs[0] }
func (r *c18CapReg) Unregister(prometheus.Collector) bool    { return true }

// c18Safe wraps the collector so that a panic inside Collect (which runs in a goroutine owned by the
// registry) becomes an observation instead of killing the test binary.
type c18Safe struct {
	inner    prometheus.Collector
	panicked *string
}

func (s c18Safe) Describe(ch chan<- *prometheus.Desc) { s.inner.Describe(ch) }
func (s c18Safe) Collect(ch chan<- prometheus.Metric) {
	defer func() {
		if r := recover(); r != nil {
			*s.panicked = fmt.Sprint(r)
		}
	}()
	s.inner.Collect(ch)
}

func c18SetScheme(legacy bool) {
	if legacy {
		model.NameValidationScheme = model.LegacyValidation // nolint:staticcheck
	} else {
		model.NameValidationScheme = model.UTF8Validation // nolint:staticcheck
	}
}

// c18Q renders a number in quarter units (value*4) when that is exact, else as IEEE bits (which the
// driver refuses: generators only produce multiples of 0.25).
func c18Q(v float64) string {
	x := v * 4
	if x != math.Trunc(x) || math.Abs(x) > 1<<52 {
		return fmt.Sprintf("f%016x", math.Float64bits(v))
	}
	return strconv.FormatInt(int64(x), 10)
}

func c18KVs(keys, vals []string) string {
	if len(keys) == 0 {
		return "-"
	}
	parts := make([]string, len(keys))
	for i := range keys {
		parts[i] = vHex(keys[i]) + "=" + vHex(vals[i])
	}
	return strings.Join(parts, ",")
}

func c18SetKVs(s attribute.Set) string {
	var ks, vs []string
	it := s.Iter()
	for it.Next() {
		kv := it.Attribute()
		ks = append(ks, string(kv.Key))
		vs = append(vs, kv.Value.Emit())
	}
	return c18KVs(ks, vs)
}

func c18ParseKVs(s string) []attribute.KeyValue {
	if s == "-" {
		return nil
	}
	var out []attribute.KeyValue
	for _, p := range strings.Split(s, ",") {
		kv := strings.SplitN(p, "=", 2)
		out = append(out, attribute.String(vUnhex(kv[0]), vUnhex(kv[1])))
	}
	return out
}

func c18Uints(xs []uint64) string {
	if len(xs) == 0 {
		return "-"
	}
	p := make([]string, len(xs))
	for i, x := range xs {
		p[i] = strconv.FormatUint(x, 10)
	}
	return strings.Join(p, ",")
}

func c18ParseUints(s string) []uint64 {
	if s == "-" {
		return nil
	}
	var out []uint64
	for _, p := range strings.Split(s, ",") {
		x, err := strconv.ParseUint(p, 10, 64)
		if err != nil {
			panic("bad uint in replay: " + p)
		}
		out = append(out, x)
	}
	return out
}

func c18Bounds(xs []float64) string {
	if len(xs) == 0 {
		return "-"
	}
	p := make([]string, len(xs))
	for i, x := range xs {
		p[i] = c18Q(x)
	}
	return strings.Join(p, ",")
}

func c18ParseBounds(s string) []float64 {
	if s == "-" {
		return nil
	}
	var out []float64
	for _, p := range strings.Split(s, ",") {
		x, err := strconv.ParseInt(p, 10, 64)
		if err != nil {
			panic("bad bound in replay: " + p)
		}
		out = append(out, float64(x)/4)
	}
	return out
}

func c18Atoi(s string) int64 {
	x, err := strconv.ParseInt(s, 10, 64)
	if err != nil {
		panic("bad int in replay: " + s)
	}
	return x
}

// c18Spans decodes native-histogram spans/deltas to the populated (index, count) pairs.
func c18Spans(spans []*dto.BucketSpan, deltas []int64) string {
	var parts []string
	idx := int64(0)
	cnt := int64(0)
	d := 0
	for _, sp := range spans {
		idx += int64(sp.GetOffset())
		for k := uint32(0); k < sp.GetLength(); k++ {
			if d >= len(deltas) {
				return "bad-spans"
			}
			cnt += deltas[d]
			d++
			if cnt != 0 {
				parts = append(parts, fmt.Sprintf("%d:%d", idx, cnt))
			}
			idx++
		}
	}
	if d != len(deltas) {
		return "bad-spans"
	}
	if len(parts) == 0 {
		return "-"
	}
	return strings.Join(parts, ",")
}

func c18NativeTokens(h *dto.Histogram) string {
	return fmt.Sprintf("%d %s %d %d %s %s", h.GetSampleCount(), c18Q(h.GetSampleSum()), h.GetSchema(), h.GetZeroCount(),
		c18Spans(h.GetPositiveSpan(), h.GetPositiveDelta()), c18Spans(h.GetNegativeSpan(), h.GetNegativeDelta()))
}

// c18ExLabels renders exemplar label pairs sorted by name (they come out of a Go map).
func c18ExLabels(e *dto.Exemplar) string {
	lps := append([]*dto.LabelPair{}, e.Label...)
	sort.Slice(lps, func(i, j int) bool { return lps[i].GetName() < lps[j].GetName() })
	var ks, vs []string
	for _, lp := range lps {
		ks = append(ks, lp.GetName())
		vs = append(vs, lp.GetValue())
	}
	return c18KVs(ks, vs)
}

// c18ClassicTokens renders count, sum, the finite buckets, and (optional last token) the exemplars:
// E:<upper bound q|inf>/<value q>/<labels>;…  (+Inf buckets exist only when client_golang appended one for an exemplar)
func c18ClassicTokens(h *dto.Histogram) string {
	bs := "-"
	var p, ex []string
	for _, bk := range h.Bucket {
		slot := "inf"
		if !math.IsInf(bk.GetUpperBound(), 1) {
			slot = c18Q(bk.GetUpperBound())
			p = append(p, slot+":"+strconv.FormatUint(bk.GetCumulativeCount(), 10))
		} else if bk.Exemplar == nil || bk.GetCumulativeCount() != h.GetSampleCount() {
			ex = append(ex, "bad-inf-bucket")
		}
		if bk.Exemplar != nil {
			ex = append(ex, slot+"/"+c18Q(bk.Exemplar.GetValue())+"/"+c18ExLabels(bk.Exemplar))
		}
	}
	if len(p) > 0 {
		bs = strings.Join(p, ",")
	}
	out := fmt.Sprintf("%d %s %s", h.GetSampleCount(), c18Q(h.GetSampleSum()), bs)
	if len(ex) > 0 {
		out += " E:" + strings.Join(ex, ";")
	}
	return out
}

// c18Families renders the result of Registry.Gather canonically (families by name, series by rendering).
func c18Families(mfs []*dto.MetricFamily) string {
	type fam struct {
		name string
		text []string
	}
	var fams []fam
	for _, mf := range mfs {
		t := "?"
		switch mf.GetType() {
		case dto.MetricType_COUNTER:
			t = "c"
		case dto.MetricType_GAUGE:
			t = "g"
		case dto.MetricType_HISTOGRAM:
			t = "h"
		}
		f := fam{name: mf.GetName()}
		head := fmt.Sprintf("F %s %s %s", vHex(mf.GetName()), t, vHex(mf.GetHelp()))
		var series []string
		for _, m := range mf.Metric {
			var ks, vs []string
			for _, lp := range m.Label {
				ks = append(ks, lp.GetName())
				vs = append(vs, lp.GetValue())
			}
			var pl string
			switch {
			case m.Counter != nil:
				pl = "v " + c18Q(m.Counter.GetValue())
				if e := m.Counter.Exemplar; e != nil {
					pl += " E:c/" + c18Q(e.GetValue()) + "/" + c18ExLabels(e)
				}
			case m.Gauge != nil:
				pl = "v " + c18Q(m.Gauge.GetValue())
			case m.Histogram != nil && m.Histogram.Schema != nil:
				pl = "n " + c18NativeTokens(m.Histogram)
			case m.Histogram != nil:
				pl = "h " + c18ClassicTokens(m.Histogram)
			default:
				pl = "?"
			}
			series = append(series, "M "+c18KVs(ks, vs)+" "+pl)
		}
		sort.Strings(series)
		f.text = append([]string{head}, series...)
		fams = append(fams, f)
	}
	sort.Slice(fams, func(i, j int) bool { return fams[i].name < fams[j].name })
	var parts []string
	for _, f := range fams {
		parts = append(parts, f.text...)
	}
	return strings.Join(parts, " | ")
}

// ---- SDK data → input part of an e2e line ----

// c18Exemplars renders the SDK exemplars of a data point as the optional token ` E:<q>/<filtered kvs>/<trace>/<span>;…`
// (ids as the hex of their lower-case hex text, which is what the exporter puts into the labels).
func c18Exemplars[N int64 | float64](exs []metricdata.Exemplar[N], with bool) string {
	if !with || len(exs) == 0 {
		return ""
	}
	p := make([]string, len(exs))
	for i, e := range exs {
		var ks, vs []string
		for _, kv := range e.FilteredAttributes {
			ks = append(ks, string(kv.Key))
			vs = append(vs, kv.Value.Emit())
		}
		p[i] = fmt.Sprintf("%s/%s/%s/%s", c18Q(float64(e.Value)), c18KVs(ks, vs), vHex(hex.EncodeToString(e.TraceID)), vHex(hex.EncodeToString(e.SpanID)))
	}
	return " E:" + strings.Join(p, ";")
}

func c18ParseExemplars(tok string) []metricdata.Exemplar[float64] {
	var out []metricdata.Exemplar[float64]
	for _, it := range strings.Split(strings.TrimPrefix(tok, "E:"), ";") {
		f := strings.Split(it, "/")
		if len(f) != 4 {
			panic("bad exemplar in replay: " + it)
		}
		tid, _ := hex.DecodeString(vUnhex(f[2]))
		sid, _ := hex.DecodeString(vUnhex(f[3]))
		out = append(out, metricdata.Exemplar[float64]{Value: float64(c18Atoi(f[0])) / 4, FilteredAttributes: c18ParseKVs(f[1]),
			TraceID: tid, SpanID: sid, Time: time.Unix(1700000000, 0)})
	}
	return out
}

func c18PointNum[N int64 | float64](dps []metricdata.DataPoint[N], withEx bool) []string {
	var out []string
	for _, dp := range dps {
		out = append(out, fmt.Sprintf("P %s v %s%s", c18SetKVs(dp.Attributes), c18Q(float64(dp.Value)), c18Exemplars(dp.Exemplars, withEx)))
	}
	sort.Strings(out)
	return out
}

func c18PointHist[N int64 | float64](dps []metricdata.HistogramDataPoint[N], withEx bool) []string {
	var out []string
	for _, dp := range dps {
		out = append(out, fmt.Sprintf("P %s h %d %s %s %s%s", c18SetKVs(dp.Attributes), dp.Count, c18Q(float64(dp.Sum)),
			c18Bounds(dp.Bounds), c18Uints(dp.BucketCounts), c18Exemplars(dp.Exemplars, withEx)))
	}
	sort.Strings(out)
	return out
}

func c18PointExpo[N int64 | float64](dps []metricdata.ExponentialHistogramDataPoint[N]) []string {
	var out []string
	for _, dp := range dps {
		zt := ""
		if dp.ZeroThreshold != 0 {
			zt = " zero-threshold" // never produced by the SDK; the driver refuses the line
		}
		out = append(out, fmt.Sprintf("P %s e %d %s %d %d %d %s %d %s%s", c18SetKVs(dp.Attributes), dp.Count, c18Q(float64(dp.Sum)),
			dp.Scale, dp.ZeroCount, dp.PositiveBucket.Offset, c18Uints(dp.PositiveBucket.Counts),
			dp.NegativeBucket.Offset, c18Uints(dp.NegativeBucket.Counts), zt))
	}
	sort.Strings(out)
	return out
}

// c18Data renders resource metrics (as seen by a cumulative ManualReader) as the S/I/P groups of an e2e line.
func c18Data(rm *metricdata.ResourceMetrics, withEx bool) string {
	sms := append([]metricdata.ScopeMetrics{}, rm.ScopeMetrics...)
	// scope order in ResourceMetrics is a Go map order: canonical order = by the whole scope identity
	sid := func(sm metricdata.ScopeMetrics) string {
		return fmt.Sprintf("S %s %s %s %s", vHex(sm.Scope.Name), vHex(sm.Scope.Version), vHex(sm.Scope.SchemaURL), c18SetKVs(sm.Scope.Attributes))
	}
	sort.Slice(sms, func(i, j int) bool {
		if sms[i].Scope.Name != sms[j].Scope.Name {
			return sms[i].Scope.Name < sms[j].Scope.Name
		}
		if sms[i].Scope.Version != sms[j].Scope.Version {
			return sms[i].Scope.Version < sms[j].Scope.Version
		}
		return sid(sms[i]) < sid(sms[j])
	})
	var parts []string
	for _, sm := range sms {
		parts = append(parts, sid(sm))
		for _, m := range sm.Metrics {
			dt := "?"
			var pts []string
			switch v := m.Data.(type) {
			case metricdata.Sum[int64]:
				dt = map[bool]string{true: "sm", false: "sn"}[v.IsMonotonic]
				pts = c18PointNum(v.DataPoints, withEx)
			case metricdata.Sum[float64]:
				dt = map[bool]string{true: "sm", false: "sn"}[v.IsMonotonic]
				pts = c18PointNum(v.DataPoints, withEx)
			case metricdata.Gauge[int64]:
				dt = "g"
				pts = c18PointNum(v.DataPoints, withEx)
			case metricdata.Gauge[float64]:
				dt = "g"
				pts = c18PointNum(v.DataPoints, withEx)
			case metricdata.Histogram[int64]:
				dt = "h"
				pts = c18PointHist(v.DataPoints, withEx)
			case metricdata.Histogram[float64]:
				dt = "h"
				pts = c18PointHist(v.DataPoints, withEx)
			case metricdata.ExponentialHistogram[int64]:
				dt = "e"
				pts = c18PointExpo(v.DataPoints)
			case metricdata.ExponentialHistogram[float64]:
				dt = "e"
				pts = c18PointExpo(v.DataPoints)
			}
			parts = append(parts, fmt.Sprintf("I %s %s %s %s", dt, vHex(m.Name), vHex(m.Unit), vHex(m.Description)))
			parts = append(parts, pts...)
		}
	}
	return strings.Join(parts, " | ")
}

// ---- replay: input part of an e2e line → resource metrics fed to the collector through a fake reader ----

type c18Reader struct {
	sdkmetric.Reader
	rm *metricdata.ResourceMetrics
}

func (r *c18Reader) Collect(_ context.Context, rm *metricdata.ResourceMetrics) error {
	*rm = *r.rm
	return nil
}

// c18Tap records what the exporter's own reader handed to Collect (the exemplars of the two readers' reservoirs may
// differ, so the exemplars of the input part are taken here; everything else is cross-checked with the second reader).
type c18Tap struct {
	sdkmetric.Reader
	last  string // with exemplars
	plain string // without
}

func (r *c18Tap) Collect(ctx context.Context, rm *metricdata.ResourceMetrics) error {
	err := r.Reader.Collect(ctx, rm)
	r.last = c18Data(rm, true)
	r.plain = c18Data(rm, false)
	return err
}

func c18Groups(toks []string) [][]string {
	var out [][]string
	cur := []string{}
	for _, t := range toks {
		if t == "|" {
			out = append(out, cur)
			cur = []string{}
			continue
		}
		cur = append(cur, t)
	}
	return append(out, cur)
}

func c18ParseData(res []attribute.KeyValue, groups [][]string) *metricdata.ResourceMetrics {
	rm := &metricdata.ResourceMetrics{Resource: resource.NewSchemaless(res...)}
	for _, g := range groups {
		if len(g) == 0 {
			continue
		}
		switch g[0] {
		case "S":
			rm.ScopeMetrics = append(rm.ScopeMetrics, metricdata.ScopeMetrics{})
			sm := &rm.ScopeMetrics[len(rm.ScopeMetrics)-1]
			sm.Scope.Name = vUnhex(g[1])
			sm.Scope.Version = vUnhex(g[2])
			if len(g) >= 5 {
				sm.Scope.SchemaURL = vUnhex(g[3])
				sm.Scope.Attributes = attribute.NewSet(c18ParseKVs(g[4])...)
			}
		case "I":
			sm := &rm.ScopeMetrics[len(rm.ScopeMetrics)-1]
			m := metricdata.Metrics{Name: vUnhex(g[2]), Unit: vUnhex(g[3]), Description: vUnhex(g[4])}
			switch g[1] {
			case "sm":
				m.Data = metricdata.Sum[float64]{IsMonotonic: true, Temporality: metricdata.CumulativeTemporality}
			case "sn":
				m.Data = metricdata.Sum[float64]{IsMonotonic: false, Temporality: metricdata.CumulativeTemporality}
			case "g":
				m.Data = metricdata.Gauge[float64]{}
			case "h":
				m.Data = metricdata.Histogram[float64]{Temporality: metricdata.CumulativeTemporality}
			case "e":
				m.Data = metricdata.ExponentialHistogram[float64]{Temporality: metricdata.CumulativeTemporality}
			}
			sm.Metrics = append(sm.Metrics, m)
		case "P":
			sm := &rm.ScopeMetrics[len(rm.ScopeMetrics)-1]
			m := &sm.Metrics[len(sm.Metrics)-1]
			set := attribute.NewSet(c18ParseKVs(g[1])...)
			var exs []metricdata.Exemplar[float64]
			if last := g[len(g)-1]; strings.HasPrefix(last, "E:") {
				exs = c18ParseExemplars(last)
				g = g[:len(g)-1]
			}
			switch d := m.Data.(type) {
			case metricdata.Sum[float64]:
				d.DataPoints = append(d.DataPoints, metricdata.DataPoint[float64]{Attributes: set, Value: float64(c18Atoi(g[3])) / 4, Exemplars: exs})
				m.Data = d
			case metricdata.Gauge[float64]:
				d.DataPoints = append(d.DataPoints, metricdata.DataPoint[float64]{Attributes: set, Value: float64(c18Atoi(g[3])) / 4})
				m.Data = d
			case metricdata.Histogram[float64]:
				d.DataPoints = append(d.DataPoints, metricdata.HistogramDataPoint[float64]{Attributes: set,
					Count: uint64(c18Atoi(g[3])), Sum: float64(c18Atoi(g[4])) / 4, Bounds: c18ParseBounds(g[5]), BucketCounts: c18ParseUints(g[6]),
					Exemplars: exs})
				m.Data = d
			case metricdata.ExponentialHistogram[float64]:
				dp := metricdata.ExponentialHistogramDataPoint[float64]{Attributes: set,
					Count: uint64(c18Atoi(g[3])), Sum: float64(c18Atoi(g[4])) / 4, Scale: int32(c18Atoi(g[5])), ZeroCount: uint64(c18Atoi(g[6]))}
				dp.PositiveBucket.Offset = int32(c18Atoi(g[7]))
				dp.PositiveBucket.Counts = c18ParseUints(g[8])
				dp.NegativeBucket.Offset = int32(c18Atoi(g[9]))
				dp.NegativeBucket.Counts = c18ParseUints(g[10])
				d.DataPoints = append(d.DataPoints, dp)
				m.Data = d
			}
		}
	}
	return rm
}

// c18Opts builds exporter options from the flag string "<legacy><nounits><nosuffix><noscope><notarget><resconst 0|1|2|3>"
// (the legacy flag is applied by the caller through c18SetScheme) and the namespace token.
func c18Opts(flags string, nsTok string) []Option {
	var opts []Option
	if flags[1] == '1' {
		opts = append(opts, WithoutUnits())
	}
	if flags[2] == '1' {
		opts = append(opts, WithoutCounterSuffixes())
	}
	if len(flags) > 3 {
		if flags[3] == '1' {
			opts = append(opts, WithoutScopeInfo())
		}
		if flags[4] == '1' {
			opts = append(opts, WithoutTargetInfo())
		}
		switch flags[5] {
		case '1':
			opts = append(opts, WithResourceAsConstantLabels(func(attribute.KeyValue) bool { return true }))
		case '2':
			opts = append(opts, WithResourceAsConstantLabels(attribute.NewDenyKeysFilter("r.a", "service.name")))
		case '3':
			// a filter that rejects everything: resourceKeyVals stays empty and is recomputed on every scrape
			opts = append(opts, WithResourceAsConstantLabels(func(attribute.KeyValue) bool { return false }))
		}
	}
	if nsTok != "-" {
		opts = append(opts, WithNamespace(vUnhex(nsTok)))
	}
	return opts
}

// c18Gather scrapes the captured collector through a real registry; a panic in Collect is an observation.
func c18Gather(c prometheus.Collector) (res string) {
	var pan string
	reg := prometheus.NewRegistry()
	if err := reg.Register(c18Safe{c, &pan}); err != nil {
		return "register-error"
	}
	// Collect runs in a goroutine of the registry (recovered by c18Safe); the metrics it sent are processed in the
	// goroutine that called Gather: a nil metric panics there.
	defer func() {
		if r := recover(); r != nil {
			res = "panic"
		}
	}()
	mfs, err := reg.Gather()
	if pan != "" {
		return "panic"
	}
	first := c18Families(mfs)
	e := "ok"
	if err != nil {
		e = "err"
	}
	// a second scrape with no measurement in between must expose the same thing
	mfs2, err2 := reg.Gather()
	if pan != "" {
		return "panic"
	}
	if c18Families(mfs2) != first || (err2 != nil) != (err != nil) {
		return "unstable " + e
	}
	if first == "" {
		return e
	}
	return e + " | " + first
}

// c18ResFlag draws the 6th flag: 0 = no WithResourceAsConstantLabels, 1 = accept-all filter, 2 = deny-keys filter, 3 = reject-all.
func c18ResFlag(r *vRand) int {
	if r.Intn(4) != 0 {
		return 0
	}
	return vPick(r, []int{1, 1, 2, 2, 3})
}
