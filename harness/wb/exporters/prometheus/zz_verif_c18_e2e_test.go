package prometheus

import (
	"context"
	"fmt"
	"strings"
	"testing"

	"github.com/prometheus/client_golang/prometheus"

	"go.opentelemetry.io/otel"
	"go.opentelemetry.io/otel/attribute"
	"go.opentelemetry.io/otel/metric"
	sdkmetric "go.opentelemetry.io/otel/sdk/metric"
	"go.opentelemetry.io/otel/sdk/metric/metricdata"
	"go.opentelemetry.io/otel/sdk/resource"
	"go.opentelemetry.io/otel/trace"
)

// TestVerifC18E2E: end-to-end lines. A scenario = exporter options + resource + instruments + measurements on a real
// MeterProvider with two readers: the Prometheus exporter (scraped through a real Registry.Gather) and a cumulative
// ManualReader whose aggregated data is the *input* part of the line:
//   e2e <gen> <legacy><nounits><nosuffix><noscope><notarget><resconst> <ns raw|-> <res kvs> | S <name> <ver> | I <dtype> <name> <unit> <desc> | P <kvs> <payload…> …
//        => panic | <ok|err> | F <name> <t> <help> | M <kvs> <payload…> …
// Replayed lines feed the same data to the collector through a stub reader (exact, no SDK involved).
func TestVerifC18E2E(t *testing.T) {
	out := vOpen(t)
	defer out.Close()
	otel.SetErrorHandler(otel.ErrorHandlerFunc(func(error) {}))
	defer c18SetScheme(false)

	if rp := vReplayLines(); rp != nil {
		for _, f := range rp {
			if f[0] != "e2e" || len(f) < 5 {
				continue
			}
			flags, nsTok, resTok := f[2], f[3], f[4]
			c18SetScheme(flags[0] == '1')
			cr := &c18CapReg{}
			if _, err := New(append(c18Opts(flags, nsTok), WithRegisterer(cr))...); err != nil {
				t.Fatal(err)
			}
			c := cr.c.(*collector)
			early := ""
			if len(flags) > 6 && flags[6] == '1' {
				// scrape before the exporter is registered with a MeterProvider (reader.Collect: ErrReaderNotRegistered)
				early = c18Gather(c) + " || "
			}
			rm := c18ParseData(c18ParseKVs(resTok), c18Groups(f[5:]))
			c.reader = &c18Reader{Reader: c.reader, rm: rm}
			obs := early + c18Gather(c)
			data := c18Data(rm, true)
			sep := ""
			if data != "" {
				sep = " | "
			}
			out.Line("e2e %s %s %s %s%s%s => %s", f[1], flags, nsTok, resTok, sep, data, obs)
		}
		return
	}

	r := &vRand{s: vSeed()}
	n := vN(3000)
	g := newC18Gen(r)
	ctx := context.Background()

	// a few F28 scenarios on every run: one measurement at the default MaxScale 20
	for i := 0; i < 3; i++ {
		c18Scenario(out, g, ctx, "f28", "f28")
	}
	// a few F34 scenarios on every run (the random stream also produces the pattern)
	for i := 0; i < 3; i++ {
		c18Scenario(out, g, ctx, "f34", "f34")
	}
	// a few scenarios with an exemplar client_golang refuses (> 128 runes) on every run
	for i := 0; i < 4; i++ {
		c18Scenario(out, g, ctx, "ex", "ex")
	}
	// a few scenarios that are scraped once before the exporter is registered with a MeterProvider
	for i := 0; i < 4; i++ {
		c18Scenario(out, g, ctx, "early", "early")
	}
	for i := 0; i < n; i++ {
		c18Scenario(out, g, ctx, "rnd", "")
	}
}

type c18Inst struct {
	kind  int // 0 counter 1 updown 2 histogram 3 gauge 4 obs counter 5 obs updown 6 obs gauge 7 histogram with exponential aggregation
	float bool
	name  string
	unit  string
	desc  string
}

var c18KindNames = []string{"counter", "updown", "hist", "gauge", "ocounter", "oupdown", "ogauge", "expo"}

// mode: "" random; "f28" one exponential histogram, one measurement, default MaxScale 20 (known finding F28);
// "f34" two instruments of the same family and type, first description empty, second not (F34, repaired in /repo de0451a:
// the empty first description wins and Gather succeeds).
// "ovl": plain scenario (no early scrape, no exemplars) that is built but NOT scraped: the overlap leg drives the scrapes.
func c18Scenario(out *vOut, g *c18Gen, ctx context.Context, gen string, mode string) *c18Built {
	ovl := mode == "ovl"
	forceF28 := mode == "f28"
	forceF34 := mode == "f34"
	forceEarly := mode == "early" // a scrape before NewMeterProvider(WithReader(exporter)), then the normal scenario
	forceEx := mode == "ex" // sampled measurements on a counter/histogram whose View drops a long attribute: exemplar refused
	r := g.r
	legacy := r.Intn(3) == 0
	flags := fmt.Sprintf("%d%d%d%d%d%d", b2i(legacy), b2i(r.Intn(4) == 0), b2i(r.Intn(4) == 0), b2i(r.Intn(5) == 0), b2i(r.Intn(5) == 0), c18ResFlag(r))
	nsTok := "-"
	if r.Intn(3) == 0 {
		nsTok = vHex(vPick(r, g.namespaces))
	}
	c18SetScheme(legacy)

	// resource: keys disjoint from the attribute key pool (prefix r)
	var res []attribute.KeyValue
	resKeys := []string{"r.a", "r_a", "service.name", "r-b", "r.c"}
	for k := r.Intn(4); k > 0; k-- {
		res = append(res, attribute.String(vPick(r, resKeys), vPick(r, c18Vals)))
	}
	if r.Intn(40) == 0 {
		res = append(res, attribute.String(vPick(r, []string{"a", "otel_scope_name", "__r"}), "odd"))
	}

	// instruments
	nScopes := 1
	if r.Intn(5) == 0 && !forceF34 {
		nScopes = 2 + r.Intn(2)
	}
	type scopeSpec struct {
		name, ver, schema string
		attrs             []attribute.KeyValue
		insts             []c18Inst
	}
	var scopes []scopeSpec
	for s := 0; s < nScopes; s++ {
		sp := scopeSpec{}
		sp.name, sp.ver, sp.schema, sp.attrs = c18ScopeID(r)
		if s >= 1 && r.Intn(2) == 0 {
			// a scope that differs from the first one only in its version / schema URL / scope attributes (a distinct
			// instrumentation.Scope: its own meter, its own otel_scope_info series)
			sp.name, sp.ver, sp.schema, sp.attrs = c18ScopeVariant(r, scopes[0].name, scopes[0].ver, scopes[0].schema, scopes[0].attrs)
		}
		ni := 1 + r.Intn(3)
		if s >= 1 {
			ni = 1
		}
		if forceF34 {
			ni = 2
		}
		for k := 0; k < ni; k++ {
			var in c18Inst
			in.kind = r.Intn(8)
			in.float = r.Bool()
			_, in.name = g.name()
			if r.Intn(8) != 0 {
				// mostly API-legal names in the end-to-end leg
				for tries := 0; tries < 5 && !c18Legal(in.name); tries++ {
					_, in.name = g.name()
				}
			}
			if s >= 1 {
				in.name = []string{"zq", "zr"}[s-1] + in.name // scope order is a map order: keep the scopes' families apart
			}
			in.unit = g.unit()
			in.desc = vPick(r, []string{"", "d1", "d2", "some help"})
			if k > 0 && r.Intn(3) == 0 {
				// same family as the previous instrument: same name or a name that translates to the same family
				prev := sp.insts[k-1]
				in.name = prev.name
				in.unit = prev.unit
				switch r.Intn(4) {
				case 0:
					in.name = prev.name + "_total"
				case 1:
					in.name = strings.ReplaceAll(prev.name, ".", "_")
				}
				if r.Bool() {
					in.kind = prev.kind // same type: help conflict or plain merge
				}
			}
			if forceF28 {
				in.kind = 7
			}
			if forceEx {
				in.kind = vPick(r, []int{0, 2})
				for tries := 0; tries < 20 && !c18Legal(in.name); tries++ {
					_, in.name = g.name()
				}
			}
			if forceF34 {
				for tries := 0; tries < 20 && !c18Legal(in.name); tries++ {
					_, in.name = g.name()
				}
				if k == 0 {
					in.desc = ""
				} else {
					prev := sp.insts[0]
					in.kind, in.float, in.name, in.unit = prev.kind, prev.float, prev.name, prev.unit
					in.desc = vPick(r, []string{"d1", "d2", "some help"})
				}
			}
			sp.insts = append(sp.insts, in)
		}
		scopes = append(scopes, sp)
	}

	gen += "-" + c18KindNames[scopes[0].insts[0].kind]

	// views, one per (instrument name, kind): exponential aggregation for kind 7; in a third of the scenarios an
	// attribute filter that drops the c18DropKeys (dropped attributes travel on the exemplars)
	filterOn := (!ovl && r.Intn(3) == 0) || forceEx
	var views []sdkmetric.View
	seenView := map[string]bool{}
	sdkKinds := []sdkmetric.InstrumentKind{sdkmetric.InstrumentKindCounter, sdkmetric.InstrumentKindUpDownCounter,
		sdkmetric.InstrumentKindHistogram, sdkmetric.InstrumentKindGauge, sdkmetric.InstrumentKindObservableCounter,
		sdkmetric.InstrumentKindObservableUpDownCounter, sdkmetric.InstrumentKindObservableGauge, sdkmetric.InstrumentKindHistogram}
	for _, sp := range scopes {
		for _, in := range sp.insts {
			if in.kind != 7 && !filterOn {
				continue
			}
			key := fmt.Sprintf("%s\x00%d", strings.ToLower(in.name), sdkKinds[in.kind])
			if seenView[key] && in.kind != 7 {
				continue
			}
			seenView[key] = true
			var st sdkmetric.Stream
			if filterOn {
				dk := make([]attribute.Key, len(c18DropKeys))
				for i, k := range c18DropKeys {
					dk[i] = attribute.Key(k)
				}
				st.AttributeFilter = attribute.NewDenyKeysFilter(dk...)
			}
			if in.kind == 7 {
				maxScale := vPick(r, []int32{20, 20, 8, 8, 5, 3, 0, -2, -4, -5, -8})
				maxSize := vPick(r, []int32{160, 160, 8, 4, 2})
				if forceF28 {
					maxScale, maxSize = 20, 160
				}
				st.Aggregation = sdkmetric.AggregationBase2ExponentialHistogram{MaxSize: maxSize, MaxScale: maxScale}
			}
			views = append(views, sdkmetric.NewView(sdkmetric.Instrument{Name: in.name, Kind: sdkKinds[in.kind]}, st))
		}
	}

	cr := &c18CapReg{}
	exp, err := New(append(c18Opts(flags, nsTok), WithRegisterer(cr))...)
	if err != nil {
		out.Line("e2e %s %s %s - => new-error", gen, flags, nsTok)
		return nil
	}
	tap := &c18Tap{Reader: cr.c.(*collector).reader}
	cr.c.(*collector).reader = tap
	early := ""
	if forceEarly || (!ovl && r.Intn(8) == 0) {
		// Prometheus scrapes while the application is still starting: the exporter is not registered with a
		// MeterProvider yet (reader.Collect returns ErrReaderNotRegistered). Nothing may be exposed — and nothing cached.
		flags += "1"
		early = c18Gather(cr.c) + " || "
		if forceEarly && len(res) == 0 {
			res = append(res, attribute.String("service.name", "svc"))
		}
	}
	r2 := sdkmetric.NewManualReader()
	mp := sdkmetric.NewMeterProvider(sdkmetric.WithReader(exp), sdkmetric.WithReader(r2),
		sdkmetric.WithResource(resource.NewSchemaless(res...)), sdkmetric.WithView(views...))
	if !ovl {
		defer mp.Shutdown(ctx)
	}

	dupTag := 0
	for _, sp := range scopes {
		m := mp.Meter(sp.name, metric.WithInstrumentationVersion(sp.ver), metric.WithSchemaURL(sp.schema), metric.WithInstrumentationAttributes(sp.attrs...))
		for _, in := range sp.insts {
			nSets := 1 + r.Intn(3)
			if forceF28 {
				nSets = 1
			}
			var sets [][]attribute.KeyValue
			for a := 0; a < nSets; a++ {
				kvs := g.attrs(r.Intn(25) == 0)
				if legacy {
					// ':' is kept by the metric-name escaper but is not a legal legacy label name: see the final report
					kvs2 := kvs[:0]
					for _, kv := range kvs {
						if !strings.Contains(string(kv.Key), ":") {
							kvs2 = append(kvs2, kv)
						}
					}
					kvs = kvs2
				}
				if a > 0 || r.Intn(3) == 0 || forceF34 {
					dupTag++
					kvs = append(kvs, attribute.Int("id", dupTag))
				}
				if filterOn && (r.Intn(3) != 0 || forceEx) {
					// attributes the View drops: short, straddling the 128-rune exemplar limit (63 runes are taken by
					// trace_id/span_id), multi-byte, invalid UTF-8, long
					for k := 1 + r.Intn(2); k > 0; k-- {
						v := vPick(r, c18DropVals)
						if forceEx {
							v = strings.Repeat("a", 100)
						}
						kvs = append(kvs, attribute.String(vPick(r, c18DropKeys), v))
					}
				}
				sets = append(sets, kvs)
			}
			// span contexts: sampled (exemplar offered), valid but unsampled, none
			cx := func() context.Context {
				k := r.Intn(10)
				if forceEx {
					k = 0
				}
				if k >= 5 || ovl {
					return ctx
				}
				var tid trace.TraceID
				var sid trace.SpanID
				for i := range tid {
					tid[i] = byte(r.U64())
				}
				for i := range sid {
					sid[i] = byte(r.U64())
				}
				tid[0] |= 1
				sid[0] |= 1
				fl := trace.FlagsSampled
				if k == 4 {
					fl = 0
				}
				return trace.ContextWithSpanContext(ctx, trace.NewSpanContext(trace.SpanContextConfig{TraceID: tid, SpanID: sid, TraceFlags: fl}))
			}
			c18Record(cx, r, m, in, sets, forceF28)
		}
	}

	if ovl {
		return &c18Built{gen: gen, flags: flags, nsTok: nsTok, col: cr.c, r2: r2, mp: mp}
	}
	var rm metricdata.ResourceMetrics
	if err := r2.Collect(ctx, &rm); err != nil {
		out.Line("e2e %s %s %s - => reader-error", gen, flags, nsTok)
		return nil
	}
	obs := early + c18Gather(cr.c)
	data := c18Data(&rm, false)
	if tap.last != "" {
		// input part = what the exporter's own reader delivered (incl. its exemplars); apart from the exemplars it must be
		// what the independent second reader saw
		if tap.plain != data {
			obs = "sdk-readers-differ " + obs
		}
		data = tap.last
	}
	sep := ""
	if data != "" {
		sep = " | "
	}
	out.Line("e2e %s %s %s %s%s%s => %s", gen, flags, nsTok, c18SetKVs(*rm.Resource.Set()), sep, data, obs)
	return nil
}

// c18Built is a scenario that has been set up and measured but not scraped yet.
type c18Built struct {
	gen, flags, nsTok string
	col               prometheus.Collector
	r2                *sdkmetric.ManualReader
	mp                *sdkmetric.MeterProvider
}

// emit writes the e2e line of one scrape of this exporter: input = the independent second reader's data.
func (b *c18Built) emit(out *vOut, ctx context.Context, gen string, obs string) {
	var rm metricdata.ResourceMetrics
	if err := b.r2.Collect(ctx, &rm); err != nil {
		out.Line("e2e %s %s %s - => reader-error", gen, b.flags, b.nsTok)
		return
	}
	data := c18Data(&rm, false)
	sep := ""
	if data != "" {
		sep = " | "
	}
	out.Line("e2e %s %s %s %s%s%s => %s", gen, b.flags, b.nsTok, c18SetKVs(*rm.Resource.Set()), sep, data, obs)
}

// c18ScopeID draws an instrumentation scope identity: name, version, schema URL, scope attributes (mostly none; keys that
// collide after sanitising, that are named like the scope labels, and — rarely — that the registry refuses, which makes
// the collector remember the scope as invalid and skip it).
func c18ScopeID(r *vRand) (name, ver, schema string, attrs []attribute.KeyValue) {
	name = vPick(r, []string{"m", "scope.a", "", "lib/x"})
	ver = vPick(r, []string{"", "v1", "1.2.3"})
	if r.Intn(4) == 0 {
		schema = vPick(r, []string{"https://opentelemetry.io/schemas/1.21.0", "https://opentelemetry.io/schemas/1.26.0"})
	}
	if r.Intn(3) == 0 {
		attrs = c18ScopeAttrs(r)
	}
	return
}

func c18ScopeAttrs(r *vRand) []attribute.KeyValue {
	keys := []string{"tenant", "tenant", "tenant.id", "tenant_id", "region", "a", "é", "otel_scope_name", "otel.scope.version", "otel_scope_version"}
	var attrs []attribute.KeyValue
	for k := 1 + r.Intn(3); k > 0; k-- {
		switch r.Intn(6) {
		case 0:
			attrs = append(attrs, attribute.Int(vPick(r, keys), r.Intn(3)))
		case 1:
			attrs = append(attrs, attribute.Bool(vPick(r, keys), r.Bool()))
		default:
			attrs = append(attrs, attribute.String(vPick(r, keys), vPick(r, c18Vals)))
		}
	}
	if r.Intn(25) == 0 {
		attrs = append(attrs, vPick(r, []attribute.KeyValue{attribute.String("__reserved", "x"), attribute.String("bad", "\xff"), attribute.String("k:c", "v")}))
	}
	return attrs
}

// c18ScopeVariant returns a scope identity that differs from the given one in exactly one of version / schema URL /
// scope attributes (or, 1 in 8, in nothing: the same meter again).
func c18ScopeVariant(r *vRand, name, ver, schema string, attrs []attribute.KeyValue) (string, string, string, []attribute.KeyValue) {
	switch r.Intn(8) {
	case 0, 1:
		ver += "b"
	case 2:
		schema += "/x"
	case 3:
		// nothing
	default:
		attrs = append(append([]attribute.KeyValue{}, attrs...), attribute.String("tenant", vPick(r, []string{"t1", "t2", "t3"})))
		if r.Intn(4) == 0 {
			attrs = append(attrs, attribute.String("region", "eu"))
		}
	}
	return name, ver, schema, attrs
}

func c18Legal(s string) bool {
	if s == "" || len(s) > 255 {
		return false
	}
	for i := 0; i < len(s); i++ {
		c := s[i]
		letter := (c >= 'a' && c <= 'z') || (c >= 'A' && c <= 'Z')
		if i == 0 && !letter {
			return false
		}
		if !letter && !(c >= '0' && c <= '9') && c != '_' && c != '.' && c != '-' && c != '/' {
			return false
		}
	}
	return true
}

var c18DropKeys = []string{"url.full", "drop.me", "drop_me", "é.k", "drop:c"}
var c18DropVals = []string{"", "x", "GET", strings.Repeat("a", 10), strings.Repeat("a", 48), strings.Repeat("a", 49), strings.Repeat("a", 50),
	strings.Repeat("a", 55), strings.Repeat("a", 56), strings.Repeat("a", 57), strings.Repeat("a", 58), strings.Repeat("a", 59),
	strings.Repeat("a", 64), strings.Repeat("a", 65), strings.Repeat("a", 66), strings.Repeat("a", 100), strings.Repeat("ab", 100),
	strings.Repeat("é", 20), strings.Repeat("é", 40), strings.Repeat("é", 56), strings.Repeat("é", 57), strings.Repeat("é", 58),
	strings.Repeat("é", 59), strings.Repeat("日本", 14), strings.Repeat("日本", 40), "\xff", "a\xffb", "https://example.com/" + strings.Repeat("p/", 30)}

var c18HistVals = []float64{0, 0.25, 1, 1, 2, 3, 4, 5, 7.5, 10, 16, 100, 1000, 1024, 20000, 0.5, 0.75}

func c18Record(cx func() context.Context, r *vRand, m metric.Meter, in c18Inst, sets [][]attribute.KeyValue, single bool) {
	opts := func() (string, string) { return in.unit, in.desc }
	u, d := opts()
	for _, kvs := range sets {
		ao := metric.WithAttributes(kvs...)
		k := 1 + r.Intn(3)
		if single {
			k = 1
		}
		switch in.kind {
		case 0:
			if in.float {
				c, _ := m.Float64Counter(in.name, metric.WithUnit(u), metric.WithDescription(d))
				for ; k > 0; k-- {
					c.Add(cx(), float64(r.Intn(400))/4, ao)
				}
			} else {
				c, _ := m.Int64Counter(in.name, metric.WithUnit(u), metric.WithDescription(d))
				for ; k > 0; k-- {
					c.Add(cx(), int64(r.Intn(100)), ao)
				}
			}
		case 1:
			if in.float {
				c, _ := m.Float64UpDownCounter(in.name, metric.WithUnit(u), metric.WithDescription(d))
				for ; k > 0; k-- {
					c.Add(cx(), float64(r.Intn(400)-200)/4, ao)
				}
			} else {
				c, _ := m.Int64UpDownCounter(in.name, metric.WithUnit(u), metric.WithDescription(d))
				for ; k > 0; k-- {
					c.Add(cx(), int64(r.Intn(100)-50), ao)
				}
			}
		case 2, 7:
			k += r.Intn(4)
			if single {
				k = 1
			}
			neg := in.kind == 7 && r.Intn(4) == 0
			if in.float {
				c, _ := m.Float64Histogram(in.name, metric.WithUnit(u), metric.WithDescription(d))
				for ; k > 0; k-- {
					v := vPick(r, c18HistVals)
					if neg && r.Bool() {
						v = -v
					}
					c.Record(cx(), v, ao)
				}
			} else {
				c, _ := m.Int64Histogram(in.name, metric.WithUnit(u), metric.WithDescription(d))
				for ; k > 0; k-- {
					v := int64(vPick(r, c18HistVals))
					if neg && r.Bool() {
						v = -v
					}
					c.Record(cx(), v, ao)
				}
			}
		case 3:
			if in.float {
				c, _ := m.Float64Gauge(in.name, metric.WithUnit(u), metric.WithDescription(d))
				for ; k > 0; k-- {
					c.Record(cx(), float64(r.Intn(400)-200)/4, ao)
				}
			} else {
				c, _ := m.Int64Gauge(in.name, metric.WithUnit(u), metric.WithDescription(d))
				for ; k > 0; k-- {
					c.Record(cx(), int64(r.Intn(100)-50), ao)
				}
			}
		}
	}
	// observable instruments: one callback reporting a fixed value per attribute set
	if in.kind >= 4 && in.kind <= 6 {
		vals := make([]int64, len(sets))
		for i := range vals {
			vals[i] = int64(r.Intn(400))
			if in.kind != 4 {
				vals[i] -= 200
			}
		}
		if in.float {
			cb := metric.WithFloat64Callback(func(_ context.Context, o metric.Float64Observer) error {
				for i, kvs := range sets {
					o.Observe(float64(vals[i])/4, metric.WithAttributes(kvs...))
				}
				return nil
			})
			switch in.kind {
			case 4:
				m.Float64ObservableCounter(in.name, metric.WithUnit(u), metric.WithDescription(d), cb)
			case 5:
				m.Float64ObservableUpDownCounter(in.name, metric.WithUnit(u), metric.WithDescription(d), cb)
			case 6:
				m.Float64ObservableGauge(in.name, metric.WithUnit(u), metric.WithDescription(d), cb)
			}
		} else {
			cb := metric.WithInt64Callback(func(_ context.Context, o metric.Int64Observer) error {
				for i, kvs := range sets {
					o.Observe(vals[i], metric.WithAttributes(kvs...))
				}
				return nil
			})
			switch in.kind {
			case 4:
				m.Int64ObservableCounter(in.name, metric.WithUnit(u), metric.WithDescription(d), cb)
			case 5:
				m.Int64ObservableUpDownCounter(in.name, metric.WithUnit(u), metric.WithDescription(d), cb)
			case 6:
				m.Int64ObservableGauge(in.name, metric.WithUnit(u), metric.WithDescription(d), cb)
			}
		}
	}
}
