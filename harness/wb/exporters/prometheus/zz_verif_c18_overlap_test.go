package prometheus

import (
	"bufio"
	"context"
	"fmt"
	"os"
	"os/exec"
	"runtime"
	"runtime/debug"
	"strconv"
	"strings"
	"testing"
	"time"

	"github.com/prometheus/client_golang/prometheus"

	"go.opentelemetry.io/otel"
	sdkmetric "go.opentelemetry.io/otel/sdk/metric"
)

// TestVerifC18Overlap: forced overlap of scrapes (seeded change C18-7: a ResourceMetrics buffer that is in the package
// level pool twice is handed to two scrapes in flight). In a child process, per scenario:
//   1. an early-return scrape (exporter not registered with a MeterProvider, or its provider shut down);
//   2. exporters A and B (random e2e scenarios, built but not scraped); goroutine 1 runs A's Collect on an UNBUFFERED
//      channel, k metrics are taken, then a COMPLETE Collect of B (or of A again) runs, then A is drained;
//   3. each scrape is written as an ordinary e2e line (input = its own exporter's second reader, observed = what that
//      scrape sent, run through a real registry): the oracle is unchanged — every scrape exposes exactly its own
//      exporter's model output.
// One child runs with GOMAXPROCS(1) and GC off (sync.Pool deterministic), one free. A crash/hang of a child is the
// observation `race ovl-<mode> <n> => panic|hang|fail:…`.
func TestVerifC18Overlap(t *testing.T) {
	out := vOpen(t)
	defer out.Close()
	if vReplayLines() != nil {
		return
	}
	n := vN(40)
	for _, mode := range []string{"det", "free"} {
		childOut := os.Getenv("VERIF_OUT") + ".ovl-" + mode
		_ = os.Remove(childOut)
		cmd := exec.Command(os.Args[0], "-test.run=^TestVerifC18OverlapChild$", "-test.count=1", "-test.timeout=600s")
		cmd.Env = append(os.Environ(), "VERIF_C18_OVLCHILD="+mode, "VERIF_C18_OVLOUT="+childOut, "VERIF_C18_ITER="+strconv.Itoa(n))
		done := make(chan struct{})
		var b []byte
		var err error
		go func() { b, err = cmd.CombinedOutput(); close(done) }()
		res := "ok"
		select {
		case <-done:
			s := string(b)
			switch {
			case strings.Contains(s, "panic:") || strings.Contains(s, "fatal error:"):
				res = "panic"
			case strings.Contains(s, "CHILD-FAIL"):
				res = "fail:child"
			case err != nil:
				res = "fail:exit"
			case !strings.Contains(s, "CHILD-OK"):
				res = "fail:no-output"
			}
			if res != "ok" {
				t.Logf("child output:\n%s", s)
				_ = os.WriteFile(childOut+".log", b, 0o644)
			}
		case <-time.After(620 * time.Second):
			cmd.Process.Kill()
			<-done
			res = "hang"
		}
		if f, err := os.Open(childOut); err == nil {
			sc := bufio.NewScanner(f)
			sc.Buffer(make([]byte, 1<<20), 1<<26)
			for sc.Scan() {
				if l := sc.Text(); l != "" && !strings.HasPrefix(l, "#") {
					out.Line("%s", l)
				}
			}
			f.Close()
		}
		out.Line("race ovl-%s %d => %s", mode, n, res)
	}
}

type c18ReplayCollector struct{ ms []prometheus.Metric }

func (r c18ReplayCollector) Describe(chan<- *prometheus.Desc) {}
func (r c18ReplayCollector) Collect(ch chan<- prometheus.Metric) {
	for _, m := range r.ms {
		ch <- m
	}
}

// c18RenderMetrics runs the metrics one scrape sent through a real registry and renders the families like c18Gather.
func c18RenderMetrics(ms []prometheus.Metric, panicked bool) (res string) {
	if panicked {
		return "panic"
	}
	defer func() {
		if r := recover(); r != nil {
			res = "panic"
		}
	}()
	reg := prometheus.NewRegistry()
	if err := reg.Register(c18ReplayCollector{ms}); err != nil {
		return "register-error"
	}
	mfs, err := reg.Gather()
	e := "ok"
	if err != nil {
		e = "err"
	}
	first := c18Families(mfs)
	if first == "" {
		return e
	}
	return e + " | " + first
}

func TestVerifC18OverlapChild(t *testing.T) {
	mode := os.Getenv("VERIF_C18_OVLCHILD")
	if mode == "" {
		t.Skip("child of TestVerifC18Overlap")
	}
	if mode == "det" {
		// one P and no background GC make sync.Pool deterministic
		runtime.GOMAXPROCS(1)
		debug.SetGCPercent(-1)
	}
	otel.SetErrorHandler(otel.ErrorHandlerFunc(func(error) {}))
	defer c18SetScheme(false)
	f, err := os.Create(os.Getenv("VERIF_C18_OVLOUT"))
	if err != nil {
		fmt.Println("CHILD-FAIL create", err)
		return
	}
	out := &vOut{f: f, w: bufio.NewWriterSize(f, 1<<20)}
	defer func() { out.w.Flush(); f.Close() }()
	iters, _ := strconv.Atoi(os.Getenv("VERIF_C18_ITER"))
	seed := vSeed()
	if mode == "free" {
		seed += 1000003
	}
	r := &vRand{s: seed}
	g := newC18Gen(r)
	ctx := context.Background()

	for it := 0; it < iters; it++ {
		a := c18Scenario(out, g, ctx, "ovl", "ovl")
		b := c18Scenario(out, g, ctx, "ovl", "ovl")
		if a == nil || b == nil {
			continue
		}
		// both were built under their own validation scheme; scrape under a's (b is rebuilt to match when needed)
		for tries := 0; b != nil && b.flags[0] != a.flags[0] && tries < 20; tries++ {
			_ = b.mp.Shutdown(ctx)
			b = c18Scenario(out, g, ctx, "ovl", "ovl")
		}
		if b == nil || b.flags[0] != a.flags[0] {
			_ = a.mp.Shutdown(ctx)
			continue
		}
		c18SetScheme(a.flags[0] == '1')

		// 1. an early-return scrape: not registered, or provider shut down
		cr := &c18CapReg{}
		expO, err := New(WithRegisterer(cr))
		if err != nil {
			fmt.Println("CHILD-FAIL new")
			return
		}
		earlyKind := "unregistered"
		if it%2 == 1 {
			earlyKind = "shutdown"
			mpO := sdkmetric.NewMeterProvider(sdkmetric.WithReader(expO))
			_ = mpO.Shutdown(ctx)
		}
		chO := make(chan prometheus.Metric, 64)
		cr.c.Collect(chO)
		close(chO)
		nO := 0
		for range chO {
			nO++
		}
		if nO != 0 {
			out.Line("race ovl-early-%s %d => fail:exposed-%d-metrics", earlyKind, it, nO)
		}

		// 2. scrape of A in flight (unbuffered channel), complete scrape of B (or A again) in between
		second := b
		secondGen := "ovl-second"
		if it%3 == 1 {
			second = a
			secondGen = "ovl-same"
		}
		chA := make(chan prometheus.Metric)
		doneA := make(chan struct{})
		panA := false
		go func() {
			defer close(doneA)
			defer func() {
				if recover() != nil {
					panA = true
				}
			}()
			a.col.Collect(chA)
		}()
		var msA []prometheus.Metric
		hung := false
		take := func() bool {
			select {
			case m := <-chA:
				msA = append(msA, m)
				return true
			case <-doneA:
				return false
			case <-time.After(20 * time.Second):
				hung = true
				return false
			}
		}
		k := 1 + r.Intn(3)
		open := true
		for i := 0; i < k && open; i++ {
			open = take()
		}
		chB := make(chan prometheus.Metric, 1<<16)
		panB := false
		func() {
			defer func() {
				if recover() != nil {
					panB = true
				}
			}()
			second.col.Collect(chB)
		}()
		close(chB)
		var msB []prometheus.Metric
		for m := range chB {
			msB = append(msB, m)
		}
		for open {
			open = take()
		}
		if hung {
			fmt.Println("CHILD-FAIL hang")
			return
		}
		a.emit(out, ctx, "ovl-first-"+earlyKind, c18RenderMetrics(msA, panA))
		second.emit(out, ctx, secondGen+"-"+earlyKind, c18RenderMetrics(msB, panB))
		_ = a.mp.Shutdown(ctx)
		_ = b.mp.Shutdown(ctx)
		if it%8 == 7 {
			runtime.GC() // keeps the GC-off child small; the double Put (if any) is re-created by step 1 of every scenario
		}
	}
	fmt.Println("CHILD-OK")
}
