package prometheus

import (
	"context"
	"fmt"
	"os"
	"os/exec"
	"strconv"
	"strings"
	"sync"
	"sync/atomic"
	"testing"
	"time"

	"github.com/prometheus/client_golang/prometheus"

	"go.opentelemetry.io/otel"
	"go.opentelemetry.io/otel/attribute"
	"go.opentelemetry.io/otel/metric"
	sdkmetric "go.opentelemetry.io/otel/sdk/metric"
	"go.opentelemetry.io/otel/sdk/resource"
)

// TestVerifC18Race (run with -race): concurrent scrapes + measurements + instrument creation, in a child process so
// that a data race report, a panic in the registry's goroutine or a deadlock is an observation:
//   race <gen> <iterations> => ok | race | panic | hang | fail:<what>
// gen `coldres` (every run): concurrent *first* scrapes of fresh exporters with WithResourceAsConstantLabels — the witness
// round of F35 (collector fields read without c.mu after lazy initialisation; fixed in /repo d3bd916).
func TestVerifC18Race(t *testing.T) {
	out := vOpen(t)
	defer out.Close()
	rounds := 2
	if os_exhaustive() {
		rounds = 6
	}
	if vReplayLines() != nil {
		rounds = 1
	}
	n := vN(3000)
	cold := vReplayLines() == nil
	if cold {
		rounds++
	}
	for i := 0; i < rounds; i++ {
		cmd := exec.Command(os.Args[0], "-test.run=^TestVerifC18RaceChild$", "-test.count=1", "-test.timeout=170s")
		cmd.Env = append(os.Environ(), "VERIF_C18_CHILD=1", "VERIF_C18_ITER="+strconv.Itoa(n),
			"VERIF_C18_CHILDSEED="+strconv.FormatUint(vSeed()+uint64(i), 10), "GORACE=halt_on_error=0")
		gen := fmt.Sprintf("g%d", i)
		if cold && i == rounds-1 {
			cmd.Env = append(cmd.Env, "VERIF_C18_COLD=1")
			gen = "coldres"
		}
		done := make(chan struct{})
		var b []byte
		var err error
		go func() { b, err = cmd.CombinedOutput(); close(done) }()
		res := ""
		select {
		case <-done:
			s := string(b)
			switch {
			case strings.Contains(s, "DATA RACE"):
				res = "race"
			case strings.Contains(s, "panic:") || strings.Contains(s, "fatal error:"):
				res = "panic"
			case strings.Contains(s, "CHILD-FAIL"):
				i := strings.Index(s, "CHILD-FAIL")
				w := strings.Fields(s[i:])
				res = "fail:" + strings.Join(w[1:min(len(w), 2)], "")
			case err != nil:
				res = "fail:exit"
			case strings.Contains(s, "CHILD-OK"):
				res = "ok"
			default:
				res = "fail:no-output"
			}
			if res != "ok" {
				t.Logf("child output:\n%s", s)
				// keep the report next to the trace file for the replay/triage
				_ = os.WriteFile(os.Getenv("VERIF_OUT")+fmt.Sprintf(".child%d.log", i), b, 0o644)
			}
		case <-time.After(180 * time.Second):
			cmd.Process.Kill()
			<-done
			res = "hang"
		}
		out.Line("race %s %d => %s", gen, n, res)
	}
}

func TestVerifC18RaceChild(t *testing.T) {
	if os.Getenv("VERIF_C18_CHILD") != "1" {
		t.Skip("child of TestVerifC18Race")
	}
	iters, _ := strconv.Atoi(os.Getenv("VERIF_C18_ITER"))
	seed, _ := strconv.ParseUint(os.Getenv("VERIF_C18_CHILDSEED"), 10, 64)
	var handled atomic.Int64
	otel.SetErrorHandler(otel.ErrorHandlerFunc(func(error) { handled.Add(1) }))
	ctx := context.Background()
	reg := prometheus.NewRegistry()
	opts := []Option{WithRegisterer(reg)}
	if seed%2 == 0 {
		opts = append(opts, WithNamespace("ns"), WithResourceAsConstantLabels(func(attribute.KeyValue) bool { return true }))
	}
	exp, err := New(opts...)
	if err != nil {
		fmt.Println("CHILD-FAIL new")
		return
	}
	view := sdkmetric.NewView(sdkmetric.Instrument{Name: "expo.*"},
		sdkmetric.Stream{Aggregation: sdkmetric.AggregationBase2ExponentialHistogram{MaxSize: 160, MaxScale: 6}})
	mp := sdkmetric.NewMeterProvider(sdkmetric.WithReader(exp), sdkmetric.WithView(view))
	if os.Getenv("VERIF_C18_COLD") == "1" {
		// F35 witness round: concurrent *first* scrapes with WithResourceAsConstantLabels (before d3bd916 Collect read
		// c.resourceKeyVals / targetInfo / disableTargetInfo without c.mu while another first scrape initialised them)
		for round := 0; round < 300; round++ {
			reg := prometheus.NewRegistry()
			exp, err := New(WithRegisterer(reg), WithResourceAsConstantLabels(func(attribute.KeyValue) bool { return true }))
			if err != nil {
				fmt.Println("CHILD-FAIL new")
				return
			}
			mpOpts := []sdkmetric.Option{sdkmetric.WithReader(exp)}
			if round%2 == 1 {
				// empty resource: resourceKeyVals stays empty, so every scrape re-initialises it
				mpOpts = append(mpOpts, sdkmetric.WithResource(resource.Empty()))
			}
			mp := sdkmetric.NewMeterProvider(mpOpts...)
			c, _ := mp.Meter("m").Int64Counter("foo")
			c.Add(ctx, 1)
			var wg sync.WaitGroup
			start := make(chan struct{})
			for g := 0; g < 4; g++ {
				wg.Add(1)
				go func() { defer wg.Done(); <-start; _, _ = reg.Gather() }()
			}
			close(start)
			wg.Wait()
			_ = mp.Shutdown(ctx)
		}
		fmt.Println("CHILD-OK cold")
		return
	}
	// op mix: scrapes of an exporter that is not registered with a MeterProvider and of one whose provider is shut down
	// (the early-return paths of Collect; seeded change C18-7 put the pooled buffer back twice there, so that later
	// overlapping scrapes share one buffer: a data race between scrapes)
	unregReg := prometheus.NewRegistry()
	if _, err := New(WithRegisterer(unregReg)); err != nil {
		fmt.Println("CHILD-FAIL new")
		return
	}
	deadReg := prometheus.NewRegistry()
	if expD, err := New(WithRegisterer(deadReg)); err == nil {
		_ = sdkmetric.NewMeterProvider(sdkmetric.WithReader(expD)).Shutdown(ctx)
	}
	const writers, scrapers = 4, 3
	var wg sync.WaitGroup
	var total atomic.Int64
	stop := make(chan struct{})
	for w := 0; w < writers; w++ {
		wg.Add(1)
		go func(w int) {
			defer wg.Done()
			r := &vRand{s: seed*1000 + uint64(w)}
			m := mp.Meter(fmt.Sprintf("scope%d", w%2), metric.WithInstrumentationVersion("v1"))
			c, _ := m.Int64Counter("race.total", metric.WithUnit("1"))
			h, _ := m.Float64Histogram("race.latency", metric.WithUnit("s"))
			e, _ := m.Float64Histogram("expo.latency", metric.WithUnit("ms"))
			g, _ := m.Int64Gauge("race.gauge")
			for i := 0; i < iters; i++ {
				ao := metric.WithAttributes(attribute.Int("k", r.Intn(6)), attribute.String("a.b", "x"), attribute.String("a_b", "y"))
				v := int64(r.Intn(10))
				c.Add(ctx, v, ao)
				total.Add(v)
				h.Record(ctx, float64(r.Intn(400))/4, ao)
				e.Record(ctx, float64(1+r.Intn(4000))/4, ao)
				g.Record(ctx, v, ao)
				if i%64 == 0 {
					// new instruments (new families) while scrapes are running
					u, _ := m.Int64UpDownCounter(fmt.Sprintf("race.dyn%d.%d", w, i/64%8), metric.WithDescription("dyn"))
					u.Add(ctx, 1, ao)
				}
			}
		}(w)
	}
	var swg sync.WaitGroup
	var scrapes, gerrs atomic.Int64
	for s := 0; s < scrapers; s++ {
		swg.Add(1)
		go func() {
			defer swg.Done()
			for {
				select {
				case <-stop:
					return
				default:
				}
				if n := scrapes.Add(1); n%4 == 0 {
					if mfs, _ := unregReg.Gather(); len(mfs) != 0 {
						gerrs.Add(1)
					}
					if mfs, _ := deadReg.Gather(); len(mfs) != 0 {
						gerrs.Add(1)
					}
				}
				if _, err := reg.Gather(); err != nil {
					gerrs.Add(1)
				}
			}
		}()
	}
	wg.Wait()
	close(stop)
	swg.Wait()
	mfs, err := reg.Gather()
	if err != nil || gerrs.Load() != 0 {
		fmt.Println("CHILD-FAIL gather-error", err)
		return
	}
	var sum float64
	found := false
	for _, mf := range mfs {
		if strings.HasSuffix(mf.GetName(), "race_ratio_total") || strings.HasSuffix(mf.GetName(), "race.ratio_total") {
			found = true
			for _, m := range mf.Metric {
				sum += m.Counter.GetValue()
			}
		}
	}
	if !found || int64(sum) != total.Load() {
		fmt.Println("CHILD-FAIL counter-sum", found, sum, total.Load())
		return
	}
	_ = mp.Shutdown(ctx)
	fmt.Printf("CHILD-OK scrapes=%d handled=%d\n", scrapes.Load(), handled.Load())
}
