package prometheus

import (
	sdkmetric "go.opentelemetry.io/otel/sdk/metric"
	"fmt"
	"sort"
	"strings"
	"testing"

	"github.com/prometheus/client_golang/prometheus"
	dto "github.com/prometheus/client_model/go"

	"go.opentelemetry.io/otel"
	"go.opentelemetry.io/otel/attribute"
	"go.opentelemetry.io/otel/sdk/metric/metricdata"
)

// TestVerifC18Names: white-box correspondence lines for the pure pieces of the exporter.
//   name  <gen> <legacy><nounits><nosuffix> <ns raw|-> <name> <unit> <c|g|h> => <hex>|panic
//   attrs <gen> <legacy> <kvs>                                              => <kvs>
//   hist  <gen> <count> <sumq> <bounds> <counts>                            => <count> <sumq> <b:c,…>
//   expo  <gen> <count> <sumq> <scale> <zc> <posOff> <pos> <negOff> <neg>   => none | <count> <sumq> <schema> <zc> <pos> <neg>
//   val   <gen> | <name> <desc> <t> | …                                     => <drop>:<help> …
func TestVerifC18Names(t *testing.T) {
	out := vOpen(t)
	defer out.Close()
	otel.SetErrorHandler(otel.ErrorHandlerFunc(func(error) {}))
	defer c18SetScheme(false)

	collectors := map[string]*collector{}
	getCollector := func(flags, nsTok string) *collector {
		key := flags + " " + nsTok
		if c, ok := collectors[key]; ok {
			return c
		}
		c18SetScheme(flags[0] == '1')
		cr := &c18CapReg{}
		if _, err := New(append(c18Opts(flags, nsTok), WithRegisterer(cr))...); err != nil {
			t.Fatal(err)
		}
		c := cr.c.(*collector)
		if len(collectors) < 4096 {
			collectors[key] = c
		}
		return c
	}
	types := map[string]dto.MetricType{"c": dto.MetricType_COUNTER, "g": dto.MetricType_GAUGE, "h": dto.MetricType_HISTOGRAM}

	emitName := func(gen, flags, nsTok, name, unit, typ string) {
		c := getCollector(flags, nsTok)
		c18SetScheme(flags[0] == '1')
		res := func() (r string) {
			defer func() {
				if p := recover(); p != nil {
					r = "panic"
				}
			}()
			mt := types[typ]
			return vHex(c.getName(metricdata.Metrics{Name: name, Unit: unit}, &mt))
		}()
		out.Line("name %s %s %s %s %s %s => %s", gen, flags, nsTok, vHex(name), vHex(unit), typ, res)
	}

	emitAttrs := func(gen string, legacy bool, kvs []attribute.KeyValue) {
		c18SetScheme(legacy)
		set := attribute.NewSet(kvs...)
		keys, vals := getAttrs(set)
		if legacy {
			idx := make([]int, len(keys))
			for i := range idx {
				idx[i] = i
			}
			sort.Slice(idx, func(a, b int) bool { return keys[idx[a]] < keys[idx[b]] })
			k2, v2 := make([]string, len(keys)), make([]string, len(keys))
			for i, j := range idx {
				k2[i], v2[i] = keys[j], vals[j]
			}
			keys, vals = k2, v2
		}
		l := 0
		if legacy {
			l = 1
		}
		out.Line("attrs %s %d %s => %s", gen, l, c18SetKVs(set), c18KVs(keys, vals))
	}

	emitHist := func(gen string, count uint64, sumq int64, bounds []float64, counts []uint64) {
		c18SetScheme(false)
		h := metricdata.Histogram[float64]{DataPoints: []metricdata.HistogramDataPoint[float64]{{
			Attributes: *attribute.EmptySet(), Count: count, Sum: float64(sumq) / 4, Bounds: bounds, BucketCounts: counts}}}
		ch := make(chan prometheus.Metric, 4)
		res := func() (r string) {
			defer func() {
				if p := recover(); p != nil {
					r = "panic"
				}
			}()
			addHistogramMetric(ch, h, metricdata.Metrics{Name: "h", Description: "d"}, "h", keyVals{})
			select {
			case m := <-ch:
				var d dto.Metric
				if err := m.Write(&d); err != nil {
					return "write-error"
				}
				return c18ClassicTokens(d.Histogram)
			default:
				return "none"
			}
		}()
		out.Line("hist %s %d %d %s %s => %s", gen, count, sumq, c18Bounds(bounds), c18Uints(counts), res)
	}

	emitExpo := func(gen string, count uint64, sumq int64, scale int32, zc uint64, posOff int32, pos []uint64, negOff int32, neg []uint64) {
		c18SetScheme(false)
		dp := metricdata.ExponentialHistogramDataPoint[float64]{Attributes: *attribute.EmptySet(), Count: count, Sum: float64(sumq) / 4,
			Scale: scale, ZeroCount: zc}
		dp.PositiveBucket.Offset, dp.PositiveBucket.Counts = posOff, pos
		dp.NegativeBucket.Offset, dp.NegativeBucket.Counts = negOff, neg
		h := metricdata.ExponentialHistogram[float64]{DataPoints: []metricdata.ExponentialHistogramDataPoint[float64]{dp}}
		ch := make(chan prometheus.Metric, 4)
		res := func() (r string) {
			defer func() {
				if p := recover(); p != nil {
					r = "panic"
				}
			}()
			addExponentialHistogramMetric(ch, h, metricdata.Metrics{Name: "e", Description: "d"}, "e", keyVals{})
			select {
			case m := <-ch:
				var d dto.Metric
				if err := m.Write(&d); err != nil {
					return "write-error"
				}
				return c18NativeTokens(d.Histogram)
			default:
				return "none"
			}
		}()
		out.Line("expo %s %d %d %d %d %d %s %d %s => %s", gen, count, sumq, scale, zc, posOff, c18Uints(pos), negOff, c18Uints(neg), res)
	}

	emitVal := func(gen string, ops [][3]string) {
		c18SetScheme(false)
		cr := &c18CapReg{}
		if _, err := New(WithRegisterer(cr)); err != nil {
			t.Fatal(err)
		}
		c := cr.c.(*collector)
		var in, res []string
		for _, op := range ops {
			mt := types[op[2]]
			drop, help := c.validateMetrics(op[0], op[1], &mt)
			d := 0
			if drop {
				d = 1
			}
			in = append(in, fmt.Sprintf("| %s %s %s", vHex(op[0]), vHex(op[1]), op[2]))
			res = append(res, fmt.Sprintf("%d:%s", d, vHex(help)))
		}
		out.Line("val %s %s => %s", gen, strings.Join(in, " "), strings.Join(res, " "))
	}

	// option sequences: New(opts...) with any order and repetitions; observed = the collector fields New filled in
	// (T U C S switches, namespace, the resource filter probed with four keys)
	emitOpts := func(gen string, legacy bool, toks []string) {
		c18SetScheme(legacy)
		var opts []Option
		for _, tk := range toks {
			switch {
			case tk == "T":
				opts = append(opts, WithoutTargetInfo())
			case tk == "U":
				opts = append(opts, WithoutUnits())
			case tk == "C":
				opts = append(opts, WithoutCounterSuffixes())
			case tk == "S":
				opts = append(opts, WithoutScopeInfo())
			case tk == "R1":
				opts = append(opts, WithResourceAsConstantLabels(func(attribute.KeyValue) bool { return true }))
			case tk == "R2":
				opts = append(opts, WithResourceAsConstantLabels(attribute.NewDenyKeysFilter("r.a", "service.name")))
			case tk == "R3":
				opts = append(opts, WithResourceAsConstantLabels(func(attribute.KeyValue) bool { return false }))
			case tk == "X":
				opts = append(opts, WithAggregationSelector(sdkmetric.DefaultAggregationSelector))
			case strings.HasPrefix(tk, "N:"):
				opts = append(opts, WithNamespace(vUnhex(tk[2:])))
			}
		}
		cr := &c18CapReg{}
		// the registerer option goes to a random-looking but fixed place: first
		if _, err := New(append([]Option{WithRegisterer(cr)}, opts...)...); err != nil {
			out.Line("opts %s %d %s => new-error", gen, b2i(legacy), strings.Join(toks, ","))
			return
		}
		c := cr.c.(*collector)
		c.mu.Lock()
		dt := c.disableTargetInfo
		c.mu.Unlock()
		filt := "-"
		if c.resourceAttributesFilter != nil {
			filt = ""
			for _, k := range []string{"r.a", "service.name", "r-b", "zz"} {
				filt += fmt.Sprint(b2i(c.resourceAttributesFilter(attribute.String(k, "v"))))
			}
		}
		ot := "-"
		if len(toks) > 0 {
			ot = strings.Join(toks, ",")
		}
		out.Line("opts %s %d %s => %d%d%d%d %s %s", gen, b2i(legacy), ot, b2i(dt), b2i(c.withoutUnits), b2i(c.withoutCounterSuffixes),
			b2i(c.disableScopeInfo), vHex(c.namespace), filt)
	}

	if rp := vReplayLines(); rp != nil {
		for _, f := range rp {
			switch f[0] {
			case "opts":
				var toks []string
				if f[3] != "-" {
					toks = strings.Split(f[3], ",")
				}
				emitOpts(f[1], f[2] == "1", toks)
			case "name":
				emitName(f[1], f[2], f[3], vUnhex(f[4]), vUnhex(f[5]), f[6])
			case "attrs":
				emitAttrs(f[1], f[2] == "1", c18ParseKVs(f[3]))
			case "hist":
				emitHist(f[1], uint64(c18Atoi(f[2])), c18Atoi(f[3]), c18ParseBounds(f[4]), c18ParseUints(f[5]))
			case "expo":
				emitExpo(f[1], uint64(c18Atoi(f[2])), c18Atoi(f[3]), int32(c18Atoi(f[4])), uint64(c18Atoi(f[5])),
					int32(c18Atoi(f[6])), c18ParseUints(f[7]), int32(c18Atoi(f[8])), c18ParseUints(f[9]))
			case "val":
				var ops [][3]string
				for _, g := range c18Groups(f[2:]) {
					if len(g) == 3 {
						ops = append(ops, [3]string{vUnhex(g[0]), vUnhex(g[1]), g[2]})
					}
				}
				emitVal(f[1], ops)
			}
		}
		return
	}

	r := &vRand{s: vSeed()}
	n := vN(20000)
	g := newC18Gen(r)

	if os_exhaustive() {
		// every (name ∈ pool) × unit × type × option set
		for _, name := range g.namePool() {
			for _, unit := range g.units {
				for _, typ := range []string{"c", "g", "h"} {
					for _, flags := range []string{"000", "100", "010", "001", "111"} {
						for _, ns := range []string{"-", vHex("ns"), vHex("total"), vHex("seconds_")} {
							emitName("exh", flags, ns, name, unit, typ)
						}
					}
				}
			}
		}
	}
	// fixed boundary cases on every run
	for _, name := range []string{"total", "_total", "", "_", "t", "otal", "atotal", "a_total", "a.total", "total_total", "a_total_total",
		"totaltotal", "seconds", "a_seconds", "seconds_total", "a.seconds.total", "bytes_", "a__", "a_", "Total", "aTOTAL"} {
		for _, typ := range []string{"c", "g", "h"} {
			for _, flags := range []string{"000", "100", "001", "010"} {
				for _, unit := range []string{"", "s", "By", "1"} {
					emitName("fixed", flags, "-", name, unit, typ)
					emitName("fixed", flags, vHex("ns"), name, unit, typ)
				}
			}
		}
	}
	for i := 0; i < n; i++ {
		switch k := r.Intn(20); {
		case k < 10:
			flags := fmt.Sprintf("%d%d%d", b2i(r.Intn(3) == 0), b2i(r.Intn(4) == 0), b2i(r.Intn(4) == 0))
			ns := "-"
			if r.Intn(3) == 0 {
				ns = vHex(vPick(r, g.namespaces))
			}
			gen, name := g.name()
			emitName(gen, flags, ns, name, g.unit(), vPick(r, []string{"c", "c", "g", "h"}))
		case k < 14:
			emitAttrs("rnd", r.Intn(2) == 0, g.attrs(true))
		case k < 16:
			nb := r.Intn(6)
			bounds := make([]float64, nb)
			x := float64(r.Intn(40)-20) / 4
			for j := range bounds {
				bounds[j] = x
				x += float64(1+r.Intn(200)) / 4
			}
			counts := make([]uint64, nb+1)
			var total uint64
			for j := range counts {
				if r.Intn(3) != 0 {
					counts[j] = uint64(r.Intn(50))
				}
				if r.Intn(40) == 0 {
					counts[j] = 1 << 40
				}
				total += counts[j]
			}
			emitHist("rnd", total, int64(r.Intn(4000)-1000), bounds, counts)
		case k < 18:
			mk := func() (int32, []uint64, uint64) {
				m := r.Intn(6)
				cs := make([]uint64, m)
				var tot uint64
				for j := range cs {
					if r.Intn(3) != 0 {
						cs[j] = uint64(r.Intn(30))
					}
					tot += cs[j]
				}
				return int32(r.Intn(41) - 20), cs, tot
			}
			po, pc, pt := mk()
			no, nc, nt := mk()
			if r.Intn(3) == 0 {
				nc, nt = nil, 0
			}
			zc := uint64(0)
			if r.Intn(3) == 0 {
				zc = uint64(r.Intn(9))
			}
			scale := int32(r.Intn(16) - 6) // -6..9 straddles both ends of -4..8
			if r.Intn(10) == 0 {
				scale = vPick(r, []int32{-10, -5, -4, 8, 9, 20})
			}
			count := pt + nt + zc
			gen := "rnd"
			if r.Intn(12) == 0 {
				count += uint64(1 + r.Intn(3)) // inconsistent count: validateCount rejects
				gen = "badcount"
			}
			emitExpo(gen, count, int64(r.Intn(4000)-1000), scale, zc, po, pc, no, nc)
		default:
			m := 1 + r.Intn(5)
			names := []string{"a", "b", "a_total", "x"}
			descs := []string{"", "d1", "d2"}
			ops := make([][3]string, m)
			for j := range ops {
				ops[j] = [3]string{vPick(r, names), vPick(r, descs), vPick(r, []string{"c", "g", "h"})}
			}
			emitVal("rnd", ops)
		}
	}
	emitOpts("defaults", false, nil)
	emitOpts("fixed", true, []string{"N:" + vHex("a"), "U", "N:" + vHex("my.ns"), "U", "R1", "R2"})
	optPool := []string{"T", "U", "C", "S", "R1", "R2", "R3", "X"}
	for i := 0; i < n/25; i++ {
		var toks []string
		for k := r.Intn(7); k > 0; k-- {
			if r.Intn(4) == 0 {
				toks = append(toks, "N:"+vHex(vPick(r, g.namespaces)))
			} else {
				toks = append(toks, vPick(r, optPool))
			}
		}
		emitOpts("rnd", r.Intn(3) == 0, toks)
	}
}

func b2i(b bool) int {
	if b {
		return 1
	}
	return 0
}

// ---- generators shared with the e2e leg ----

type c18Gen struct {
	r          *vRand
	units      []string
	words      []string
	namespaces []string
}

func newC18Gen(r *vRand) *c18Gen {
	g := &c18Gen{r: r}
	seen := map[string]bool{}
	for u, w := range unitSuffixes {
		g.units = append(g.units, u)
		if !seen[w] {
			seen[w] = true
			g.words = append(g.words, w)
		}
	}
	sort.Strings(g.units)
	sort.Strings(g.words)
	g.units = append(g.units, "", "{req}", "km", "S", "by", "1/s", "ms ", "Ms")
	g.words = append(g.words, "total", "total", "Total", "TOTAL", "Seconds", "ratio", "otal", "tota")
	g.namespaces = []string{"ns", "ns_", "", "my.ns", "total", "seconds", "1x", "a_total", "x__", "é"}
	return g
}

var c18Seps = []string{"_", ".", "-", "/", "__", "._"}
var c18Plain = []string{"a", "b", "req", "http", "x", "T", "Z9", "0", "7"}

// name returns (generator tag, name). "legal": inside the API's alphabet; "raw": anything.
func (g *c18Gen) name() (string, string) {
	r := g.r
	if r.Intn(12) == 0 {
		return "raw", vPick(r, []string{"", "_", "total", "_total", ".total", "é", "aé", "日本", "a b", "1a", ":a", "a:b", "a\xff", "\xff",
			"total\xc3", "a_é", "ätotal", "a total", "-", ".", "_seconds", "9total", "a%", "a{}"})
	}
	var sb strings.Builder
	// API-legal: first character a letter
	switch r.Intn(4) {
	case 0:
		sb.WriteString(vPick(r, g.words))
	default:
		sb.WriteString(vPick(r, []string{"a", "b", "req", "http", "x", "T"}))
	}
	for k := r.Intn(5); k > 0; k-- {
		switch r.Intn(3) {
		case 0:
			sb.WriteString(vPick(r, c18Seps))
		case 1:
			sb.WriteString(vPick(r, g.words))
		default:
			sb.WriteString(vPick(r, c18Plain))
		}
	}
	s := sb.String()
	if c := s[0]; !((c >= 'a' && c <= 'z') || (c >= 'A' && c <= 'Z')) {
		s = "m" + s
	}
	return "legal", s
}

func (g *c18Gen) unit() string {
	if g.r.Intn(5) == 0 {
		return ""
	}
	return vPick(g.r, g.units)
}

// namePool: the thorough tier's exhaustive name pool (a few hundred names)
func (g *c18Gen) namePool() []string {
	bases := []string{"a", "total", "seconds", "req", "bytes", "T"}
	tails := append([]string{"", "total", "Total", "seconds", "bytes", "ratio", "x", "1"}, g.words[:6]...)
	var out []string
	for _, bs := range bases {
		for _, sep := range []string{"", "_", ".", "-", "/", "__"} {
			for _, tl := range tails {
				out = append(out, bs+sep+tl)
				if tl != "" {
					out = append(out, bs+sep+tl+"_total", bs+sep+tl+".")
				}
			}
		}
	}
	return out
}

var c18Keys = []string{"a", "b", "a.b", "a_b", "a-b", "a/b", "a b", "A.b", "a.b.c", "a_b_c", "a.b_c", "k", "http.method", "http_method", "_a", "x9"}
var c18OddKeys = []string{"1a", "é", "aé", "a\xff", "a:b", "", "__a", "..a", "otel_scope_name", "日本"}
var c18Vals = []string{"", "1", "2", "v", "w;x", ";", "a", "B", "é", "10", "9", "v v"}

// attrs builds an attribute list; odd=true admits keys that are not valid label names in some scheme.
func (g *c18Gen) attrs(odd bool) []attribute.KeyValue {
	r := g.r
	n := r.Intn(5)
	var out []attribute.KeyValue
	for i := 0; i < n; i++ {
		k := vPick(r, c18Keys)
		if odd && r.Intn(6) == 0 {
			k = vPick(r, c18OddKeys)
		}
		switch r.Intn(6) {
		case 0:
			out = append(out, attribute.Int(k, r.Intn(20)-5))
		case 1:
			out = append(out, attribute.Bool(k, r.Bool()))
		default:
			out = append(out, attribute.String(k, vPick(r, c18Vals)))
		}
	}
	return out
}
