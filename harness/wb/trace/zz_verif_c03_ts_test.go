package trace

import (
	"fmt"
	"strconv"
	"strings"
	"testing"
)

// TestVerifC03Ts: correspondence lines for trace/tracestate.go and the hex ID parsers of trace/trace.go.
//
//	checkkey <gen> <xkey>  => 0|1
//	checkval <gen> <xval>  => 0|1
//	idhex <gen> t|s <xhex> => ok <xbytes> | err
//	parsets <gen> <xheader> => ok <n> <xString()> <members> <x re-parsed String()|err> | err
//	tsedit <gen> <xheader> | ins <xk> <xv> | del <xk> | get <xk> ... => <r0> | <r1> | ...
//	tssib <gen> <xheader> | <j> ins <xk> <xv> | <j> del <xk> | <j> get <xk> | <j> walk <n> ... => <r0> | <r1> | ...
//	    (every op names the earlier value j it applies to; all earlier values are re-read after every op)
//	idjson <gen> <xtid> <xsid> <flags> <remote> <members> => builderr | String() x3, MarshalJSON x5, FromHex(String()) x2
//	scops <gen> <xtid> <xsid> <flags> <remote> <members> | tid <x> | sid <x> | fl <n> | rem <0|1> | ts <members> | sampled <0|1>
//	    => builderr | <d0> | <d1> ...   d = <xtid>:<xsid>:<flags>:<remote>:<xtsString>:<valid>:<sampled>:<Equal(previous)>
//
// members = `-` or comma-separated <xkey>:<xval> (from Walk). See lean/Otel/C03/Main.lean.
func TestVerifC03Ts(t *testing.T) {
	out := vOpen(t)
	defer out.Close()
	c := &c03ts{out: out}
	if rp := vReplayLines(); rp != nil {
		for _, f := range rp {
			c.replay(f)
		}
		return
	}
	r := &vRand{s: vSeed()}
	n := vN(20000)
	if os_exhaustive() {
		c.exhaustive()
	}
	for i := 0; i < n; i++ {
		switch r.Intn(21) {
		case 20:
			c.idjson(r)
		case 19:
			c.limits(r)
		case 16, 17:
			c.sib(r)
		case 18:
			c.scops(r)
		case 0, 1:
			c.checkKey("gen", c03Key(r, true))
		case 2:
			c.checkKey("rnd", vStr(r, 6))
		case 3:
			c.checkVal("gen", c03Val(r, true))
		case 4:
			c.checkVal("rnd", vStr(r, 6))
		case 5, 6:
			c.idHex(r)
		case 7, 8, 9:
			c.parseTS("hdr", c03Header(r, c03N(r), true))
		case 10:
			// single byte mutation of a valid header
			h := []byte(c03Header(r, 1+r.Intn(4), false))
			if len(h) > 0 {
				h[r.Intn(len(h))] = c03BadByte(r)
			}
			c.parseTS("mut1", string(h))
		case 11:
			c.parseTS("rnd", vStr(r, 10))
		default:
			c.edit(r)
		}
	}
}

type c03ts struct{ out *vOut }

func c03b(b bool) int {
	if b {
		return 1
	}
	return 0
}

func (c *c03ts) checkKey(gen, k string) {
	c.out.Line("checkkey %s %s => %d", gen, vHex(k), c03b(checkKey(k)))
}

func (c *c03ts) checkVal(gen, v string) {
	c.out.Line("checkval %s %s => %d", gen, vHex(v), c03b(checkValue(v)))
}

func (c *c03ts) idHexOne(gen, which, h string) {
	var res string
	func() {
		defer func() {
			if e := recover(); e != nil {
				res = "panic"
			}
		}()
		if which == "t" {
			id, err := TraceIDFromHex(h)
			if err != nil {
				res = "err"
			} else {
				res = "ok " + vHexB(id[:])
			}
		} else {
			id, err := SpanIDFromHex(h)
			if err != nil {
				res = "err"
			} else {
				res = "ok " + vHexB(id[:])
			}
		}
	}()
	c.out.Line("idhex %s %s %s => %s", gen, which, vHex(h), res)
}

const c03hexdig = "0123456789abcdef"

func (c *c03ts) idHex(r *vRand) {
	which, n := "t", 32
	if r.Bool() {
		which, n = "s", 16
	}
	b := make([]byte, n)
	for i := range b {
		b[i] = c03hexdig[r.Intn(16)]
	}
	gen := "valid"
	switch r.Intn(10) {
	case 0:
		gen = "upper"
		b[r.Intn(n)] = "ABCDEF"[r.Intn(6)]
	case 1:
		gen = "badbyte"
		b[r.Intn(n)] = c03BadByte(r)
	case 2:
		gen = "multibyte" // a 2-byte rune keeps the byte length right
		i := r.Intn(n - 1)
		copy(b[i:], vPick(r, []string{"š", "é", "\xc5\x41", "\xff\x30"}))
	case 3:
		gen = "len"
		b = b[:vPick(r, []int{0, 1, n - 2, n - 1})]
	case 4:
		gen = "len"
		b = append(b, c03hexdig[r.Intn(16)])
		if r.Bool() {
			b = append(b, c03hexdig[r.Intn(16)])
		}
	case 5:
		gen = "zero"
		for i := range b {
			b[i] = '0'
		}
	case 6:
		gen = "onebit"
		for i := range b {
			b[i] = '0'
		}
		b[r.Intn(n)] = c03hexdig[1+r.Intn(15)]
	}
	c.idHexOne(gen, which, string(b))
}

func c03Members(ts TraceState) string {
	var sb strings.Builder
	first := true
	ts.Walk(func(k, v string) bool {
		if !first {
			sb.WriteByte(',')
		}
		first = false
		sb.WriteString(vHex(k) + ":" + vHex(v))
		return true
	})
	if first {
		return "-"
	}
	return sb.String()
}

func (c *c03ts) parseTS(gen, h string) {
	var res string
	func() {
		defer func() {
			if e := recover(); e != nil {
				res = "panic"
			}
		}()
		ts, err := ParseTraceState(h)
		if err != nil {
			res = "err"
			return
		}
		s := ts.String()
		rp := "err"
		if ts2, err2 := ParseTraceState(s); err2 == nil {
			rp = vHex(ts2.String())
		}
		res = fmt.Sprintf("ok %d %s %s %s", ts.Len(), vHex(s), c03Members(ts), rp)
	}()
	c.out.Line("parsets %s %s => %s", gen, vHex(h), res)
}

// one edit script: ops is a flat token list `ins xk xv | del xk | get xk`
func (c *c03ts) editRun(gen, h string, ops [][]string) {
	var sb strings.Builder
	func() {
		defer func() {
			if e := recover(); e != nil {
				sb.WriteString(" | panic")
			}
		}()
		ts, err := ParseTraceState(h)
		if err != nil {
			sb.WriteString("err:x")
		} else {
			sb.WriteString("ok:" + vHex(ts.String()))
		}
		for _, op := range ops {
			before := ts.String()
			old := ts
			switch op[0] {
			case "ins":
				nts, err := ts.Insert(vUnhex(op[1]), vUnhex(op[2]))
				st := "ok"
				if err != nil {
					st = "err"
				}
				ts = nts
				fmt.Fprintf(&sb, " | %s:%s:%d:%d", st, vHex(ts.String()), ts.Len(), c03b(old.String() == before))
			case "del":
				ts = ts.Delete(vUnhex(op[1]))
				fmt.Fprintf(&sb, " | ok:%s:%d:%d", vHex(ts.String()), ts.Len(), c03b(old.String() == before))
			case "get":
				fmt.Fprintf(&sb, " | val:%s", vHex(ts.Get(vUnhex(op[1]))))
			}
		}
	}()
	var in strings.Builder
	for _, op := range ops {
		in.WriteString(" | " + strings.Join(op, " "))
	}
	c.out.Line("tsedit %s %s%s => %s", gen, vHex(h), in.String(), sb.String())
}

func (c *c03ts) edit(r *vRand) {
	// initial size: often near the 32-member bound
	n0 := vPick(r, []int{0, 1, 2, 5, 30, 31, 32, 32})
	pool := make([]string, 40)
	for i := range pool {
		pool[i] = "k" + strconv.Itoa(i)
	}
	if r.Intn(4) == 0 {
		pool[0] = c03Key(r, false)
		pool[1] = "t" + "@" + "sys"
	}
	var ms []string
	for i := 0; i < n0; i++ {
		ms = append(ms, pool[i]+"="+c03ShortVal(r))
	}
	// shuffle the initial members
	for i := len(ms) - 1; i > 0; i-- {
		j := r.Intn(i + 1)
		ms[i], ms[j] = ms[j], ms[i]
	}
	h := strings.Join(ms, ",")
	nops := 1 + r.Intn(80)
	if r.Intn(3) == 0 {
		nops = 1 + r.Intn(6)
	}
	var ops [][]string
	for i := 0; i < nops; i++ {
		k := pool[r.Intn(len(pool))]
		switch r.Intn(10) {
		case 0:
			k = c03Key(r, true) // possibly invalid, possibly long
		case 1:
			k = "n" + strconv.Itoa(r.Intn(1000)) // fresh key
		}
		switch r.Intn(8) {
		case 0, 1:
			ops = append(ops, []string{"del", vHex(k)})
		case 2:
			ops = append(ops, []string{"get", vHex(k)})
		default:
			v := c03ShortVal(r)
			if r.Intn(6) == 0 {
				v = c03Val(r, true)
			}
			ops = append(ops, []string{"ins", vHex(k), vHex(v)})
		}
	}
	c.editRun("script", h, ops)
}

func c03ShortVal(r *vRand) string {
	return vPick(r, []string{"1", "2", "v", "a b", "~", "x!y"}) + strconv.Itoa(r.Intn(10))
}

func (c *c03ts) replay(f []string) {
	switch f[0] {
	case "checkkey":
		c.checkKey(f[1], vUnhex(f[2]))
	case "checkval":
		c.checkVal(f[1], vUnhex(f[2]))
	case "idhex":
		c.idHexOne(f[1], f[2], vUnhex(f[3]))
	case "parsets":
		c.parseTS(f[1], vUnhex(f[2]))
	case "idjson":
		fl, _ := strconv.Atoi(f[4])
		c.idjsonRun(f[1], vUnhex(f[2]), vUnhex(f[3]), byte(fl), f[5] == "1", f[6])
	case "tssib":
		c.sibRun(f[1], vUnhex(f[2]), c03Groups(f[3:]))
	case "scops":
		fl, _ := strconv.Atoi(f[4])
		c.scopsRun(f[1], vUnhex(f[2]), vUnhex(f[3]), byte(fl), f[5] == "1", f[6], c03Groups(f[7:]))
	case "tsedit":
		var ops [][]string
		var cur []string
		for _, tok := range f[3:] {
			if tok == "|" {
				if cur != nil {
					ops = append(ops, cur)
				}
				cur = []string{}
				continue
			}
			cur = append(cur, tok)
		}
		if cur != nil {
			ops = append(ops, cur)
		}
		c.editRun(f[1], vUnhex(f[2]), ops)
	}
}

// exhaustive small scope (thorough tier): every key/value/header of length <= 3 over a small alphabet,
// alone and spliced into a valid header.
func (c *c03ts) exhaustive() {
	alpha := []byte{'a', '0', '@', '=', ',', ' ', '\t', '_', 'A', 0xc5, 0xa1, 0x7f, '~', '!'}
	var rec func(p []byte, d int)
	rec = func(p []byte, d int) {
		s := string(p)
		c.checkKey("exh", s)
		c.checkVal("exh", s)
		c.parseTS("exh", s)
		c.parseTS("exh", "x=1,"+s)
		c.parseTS("exh", "a"+s+"=1,b=2")
		c.parseTS("exh", "a=1"+s+",b=2")
		if d == 3 {
			return
		}
		for _, b := range alpha {
			rec(append(append([]byte{}, p...), b), d+1)
		}
	}
	rec(nil, 0)
}

// ---- generators shared in spirit with the propagation leg (each package gets its own copy) ----

var c03Bad = []string{"A", "Z", "@", " ", "\t", "=", ",", ".", ":", "\x7f", "\x1f", "\x00", "\x80", "\xc5", "\xa1", "\xff", "\xe1", "~", "!"}

func c03BadByte(r *vRand) byte {
	if r.Intn(4) == 0 {
		return byte(r.Intn(256))
	}
	return vPick(r, c03Bad)[0]
}

const c03keychars = "abcxyz0189_-*/"

func c03KeyPart(r *vRand, first string, rest int) string {
	b := make([]byte, 0, rest+1)
	b = append(b, first[r.Intn(len(first))])
	for i := 0; i < rest; i++ {
		b = append(b, c03keychars[r.Intn(len(c03keychars))])
	}
	return string(b)
}

// c03Key: a key that is legal unless mutate is set (then it is mutated with probability 1/2);
// lengths straddle 255/256, 240/241 and 13/14.
func c03Key(r *vRand, mutate bool) string {
	var k string
	long := r.Intn(16) == 0
	if r.Intn(3) > 0 {
		n := r.Intn(6)
		if long {
			n = vPick(r, []int{254, 255, 256})
		}
		k = c03KeyPart(r, "abkz", n)
	} else {
		tn, sn := r.Intn(4), r.Intn(4)
		if long {
			tn = vPick(r, []int{239, 240, 241})
			sn = vPick(r, []int{12, 13, 14})
		}
		k = c03KeyPart(r, "ab09", tn) + "@" + c03KeyPart(r, "abz", sn)
	}
	if mutate && r.Bool() {
		b := []byte(k)
		switch r.Intn(6) {
		case 0: // multi-byte rune whose low byte is a legal character (F1)
			i := r.Intn(len(b))
			k = string(b[:i]) + vPick(r, []string{"š", "é", "İ", "ĭ", "€"}) + string(b[i:])
		case 1:
			b[0] = vPick(r, []string{"0", "_", "-", "A", "@", " "})[0]
			k = string(b)
		case 2:
			k = k + "@" + c03KeyPart(r, "ab", r.Intn(3))
		case 3:
			k = vPick(r, []string{"", "@", "a@", "@a", " a", "a "})
		default:
			b[r.Intn(len(b))] = c03BadByte(r)
			k = string(b)
		}
	}
	return k
}

// c03Val: a legal value unless mutate is set; lengths straddle 256/257.
func c03Val(r *vRand, mutate bool) string {
	n := 1 + r.Intn(6)
	if r.Intn(25) == 0 {
		n = vPick(r, []int{255, 256, 257})
		if !mutate && n == 257 {
			n = 256
		}
	}
	b := make([]byte, n)
	for i := range b {
		for {
			b[i] = byte(0x20 + r.Intn(0x5f))
			if b[i] != ',' && b[i] != '=' {
				break
			}
		}
		if r.Intn(3) > 0 {
			b[i] = "az09 ~!"[r.Intn(7)]
		}
	}
	if b[n-1] == ' ' {
		b[n-1] = '~'
	}
	if mutate && r.Bool() {
		switch r.Intn(5) {
		case 0:
			b[n-1] = ' '
		case 1:
			b[r.Intn(n)] = vPick(r, []string{",", "=", "\t", "\x7f", "\x1f", "\x80", "\xc5"})[0]
		case 2:
			return ""
		case 3:
			b = append(b, "š"...)
		default:
			b[r.Intn(n)] = c03BadByte(r)
		}
	}
	return string(b)
}

// c03Header: n members; with noise: OWS around members, empty members, duplicate keys, missing '='.
func c03Header(r *vRand, n int, noise bool) string {
	// noise modes: 0 = clean, 1 = exactly one noisy member, 2 = every member noisy with probability 1/6
	mode, one := 0, -1
	if noise {
		mode = r.Intn(3)
		if mode == 1 && n > 0 {
			one = r.Intn(n)
		}
	}
	var ms []string
	for i := 0; i < n; i++ {
		noisy := (mode == 1 && i == one) || (mode == 2 && r.Intn(6) == 0)
		k := c03Key(r, noisy && r.Intn(4) == 0)
		if n > 6 || r.Bool() {
			k = "k" + strconv.Itoa(i) + k // keep keys distinct in long lists
			if len(k) > 256 {
				k = k[:256]
			}
		}
		m := k + "=" + c03Val(r, noisy && r.Intn(4) == 0)
		if noisy {
			switch r.Intn(8) {
			case 0:
				m = " " + m
			case 1:
				m = m + vPick(r, []string{" ", "\t", " \t "})
			case 2:
				m = ""
			case 3:
				m = vPick(r, []string{" ", "\t", "a", "=", "=1", "a="})
			case 4, 6, 7:
				if i > 0 {
					// duplicate key: the exact member, or the same key behind optional whitespace and/or with another
					// value (what a proxy folding two header lines with ", " produces)
					m = ms[r.Intn(len(ms))]
					if k2, _, ok := strings.Cut(strings.TrimLeft(m, " \t"), "="); ok && r.Intn(3) != 0 {
						m = vPick(r, []string{"", " ", "\t", "  ", " \t"}) + k2 + "=" + c03Val(r, false) + vPick(r, []string{"", "", " ", "\t"})
					}
				}
			case 5:
				m = strings.Replace(m, "=", vPick(r, []string{" =", "= ", "==", ""}), 1)
			}
		}
		ms = append(ms, m)
	}
	return strings.Join(ms, ",")
}

// c03N: a member count, concentrated around the 32-member bound
func c03N(r *vRand) int {
	if r.Intn(3) == 0 {
		return vPick(r, []int{30, 31, 32, 33, 34})
	}
	return r.Intn(8)
}

// ---- sibling edits: values derived from one parent, every earlier value re-read after every later call ----

// c03Groups splits `| a b | c d` into [[a b] [c d]].
func c03Groups(toks []string) [][]string {
	var ops [][]string
	var cur []string
	for _, tok := range toks {
		if tok == "|" {
			if cur != nil {
				ops = append(ops, cur)
			}
			cur = []string{}
			continue
		}
		cur = append(cur, tok)
	}
	if cur != nil {
		ops = append(ops, cur)
	}
	return ops
}

func (c *c03ts) sibRun(gen, h string, ops [][]string) {
	var sb strings.Builder
	func() {
		defer func() {
			if e := recover(); e != nil {
				sb.WriteString(" | panic")
			}
		}()
		ts, err := ParseTraceState(h)
		if err != nil {
			sb.WriteString("err:x")
		} else {
			sb.WriteString("ok:" + vHex(ts.String()))
		}
		vals := []TraceState{ts}
		strs := []string{ts.String()}
		mems := []string{c03Members(ts)}
		unchanged := func() int {
			for i, v := range vals {
				if v.String() != strs[i] || c03Members(v) != mems[i] || v.Len() != strings.Count(mems[i], ":") {
					return 0
				}
			}
			return 1
		}
		for _, op := range ops {
			j, _ := strconv.Atoi(op[0])
			if j >= len(vals) {
				j = len(vals) - 1
			}
			cur := vals[j]
			nv := cur
			switch op[1] {
			case "ins":
				n2, err := cur.Insert(vUnhex(op[2]), vUnhex(op[3]))
				st := "ok"
				if err != nil {
					st = "err"
				}
				nv = n2
				// record the new value before the re-read so that it is covered by later steps, not this one
				fmt.Fprintf(&sb, " | %s:%s:%d:%d", st, vHex(nv.String()), nv.Len(), unchanged())
			case "del":
				nv = cur.Delete(vUnhex(op[2]))
				fmt.Fprintf(&sb, " | ok:%s:%d:%d", vHex(nv.String()), nv.Len(), unchanged())
			case "get":
				fmt.Fprintf(&sb, " | val:%s", vHex(cur.Get(vUnhex(op[2]))))
			case "walk":
				n, _ := strconv.Atoi(op[2])
				var ps []string
				calls := 0
				cur.Walk(func(k, v string) bool {
					calls++
					ps = append(ps, vHex(k)+":"+vHex(v))
					return calls != n
				})
				w := "-"
				if len(ps) > 0 {
					w = strings.Join(ps, ",")
				}
				fmt.Fprintf(&sb, " | w=%s", w)
			}
			vals = append(vals, nv)
			strs = append(strs, nv.String())
			mems = append(mems, c03Members(nv))
		}
	}()
	var in strings.Builder
	for _, op := range ops {
		in.WriteString(" | " + strings.Join(op, " "))
	}
	c.out.Line("tssib %s %s%s => %s", gen, vHex(h), in.String(), sb.String())
}

func (c *c03ts) sib(r *vRand) {
	n0 := vPick(r, []int{0, 1, 2, 5, 30, 31, 32, 32})
	pool := make([]string, 36)
	for i := range pool {
		pool[i] = "k" + strconv.Itoa(i)
	}
	var ms []string
	for i := 0; i < n0; i++ {
		ms = append(ms, pool[i]+"="+c03ShortVal(r))
	}
	for i := len(ms) - 1; i > 0; i-- {
		j := r.Intn(i + 1)
		ms[i], ms[j] = ms[j], ms[i]
	}
	nops := 1 + r.Intn(24)
	var ops [][]string
	for i := 0; i < nops; i++ {
		// target: the latest value, the parent of the latest (a sibling), or any earlier value
		j := i
		switch r.Intn(5) {
		case 0:
			j = r.Intn(i + 1)
		case 1, 2:
			if i > 0 {
				j = i - 1
			}
		}
		k := pool[r.Intn(len(pool))]
		switch r.Intn(12) {
		case 0:
			k = c03Key(r, true)
		case 1:
			k = "n" + strconv.Itoa(r.Intn(1000))
		}
		js := strconv.Itoa(j)
		switch r.Intn(10) {
		case 0, 1, 2:
			ops = append(ops, []string{js, "del", vHex(k)})
		case 3:
			ops = append(ops, []string{js, "get", vHex(k)})
		case 4:
			ops = append(ops, []string{js, "walk", strconv.Itoa(r.Intn(5) * r.Intn(9))})
		default:
			v := c03ShortVal(r)
			if r.Intn(8) == 0 {
				v = c03Val(r, true)
			}
			ops = append(ops, []string{js, "ins", vHex(k), vHex(v)})
		}
	}
	c.sibRun("sib", strings.Join(ms, ","), ops)
}

// ---- SpanContext copy constructors ----

func c03BuildTS(mem string) (TraceState, bool) {
	ts := TraceState{}
	if mem == "-" {
		return ts, true
	}
	ps := strings.Split(mem, ",")
	for i := len(ps) - 1; i >= 0; i-- {
		kv := strings.Split(ps[i], ":")
		var err error
		ts, err = ts.Insert(vUnhex(kv[0]), vUnhex(kv[1]))
		if err != nil {
			return TraceState{}, false
		}
	}
	return ts, true
}

func c03ScDump(sc, prev SpanContext) string {
	tid, sid := sc.TraceID(), sc.SpanID()
	return fmt.Sprintf("%s:%s:%d:%d:%s:%d:%d:%d", vHexB(tid[:]), vHexB(sid[:]), byte(sc.TraceFlags()), c03b(sc.IsRemote()),
		vHex(sc.TraceState().String()), c03b(sc.IsValid()), c03b(sc.IsSampled()), c03b(sc.Equal(prev)))
}

func (c *c03ts) scopsRun(gen, tid, sid string, flags byte, remote bool, mem string, ops [][]string) {
	var res []string
	func() {
		defer func() {
			if e := recover(); e != nil {
				res = append(res, "panic")
			}
		}()
		ts, ok := c03BuildTS(mem)
		if !ok {
			res = []string{"builderr"}
			return
		}
		var cfg SpanContextConfig
		copy(cfg.TraceID[:], tid)
		copy(cfg.SpanID[:], sid)
		cfg.TraceFlags = TraceFlags(flags)
		cfg.TraceState = ts
		cfg.Remote = remote
		sc := NewSpanContext(cfg)
		res = append(res, c03ScDump(sc, sc))
		for _, op := range ops {
			prev := sc
			switch op[0] {
			case "tid":
				var t TraceID
				copy(t[:], vUnhex(op[1]))
				sc = sc.WithTraceID(t)
			case "sid":
				var s SpanID
				copy(s[:], vUnhex(op[1]))
				sc = sc.WithSpanID(s)
			case "fl":
				f, _ := strconv.Atoi(op[1])
				sc = sc.WithTraceFlags(TraceFlags(f))
			case "rem":
				sc = sc.WithRemote(op[1] == "1")
			case "ts":
				nts, _ := c03BuildTS(op[1])
				sc = sc.WithTraceState(nts)
			case "sampled":
				sc = sc.WithTraceFlags(sc.TraceFlags().WithSampled(op[1] == "1"))
			}
			res = append(res, c03ScDump(sc, prev))
		}
	}()
	var in strings.Builder
	for _, op := range ops {
		in.WriteString(" | " + strings.Join(op, " "))
	}
	tb, sb := make([]byte, 16), make([]byte, 8)
	copy(tb, tid)
	copy(sb, sid)
	c.out.Line("scops %s %s %s %d %d %s%s => %s", gen, vHexB(tb), vHexB(sb), flags, c03b(remote), mem, in.String(), strings.Join(res, " | "))
}

func c03RandID(r *vRand, n int) string {
	b := make([]byte, n)
	switch r.Intn(6) {
	case 0: // all zero
	case 1:
		b[r.Intn(n)] = byte(1 + r.Intn(255))
	default:
		for i := range b {
			b[i] = byte(r.Intn(256))
		}
	}
	return string(b)
}

func c03RandMembers(r *vRand) string {
	n := vPick(r, []int{0, 0, 1, 2, 3, 32})
	var ps []string
	for i := 0; i < n; i++ {
		ps = append(ps, vHex("m"+strconv.Itoa(i)+c03KeyPart(r, "ab", r.Intn(3)))+":"+vHex(c03ShortVal(r)))
	}
	if n == 0 {
		return "-"
	}
	return strings.Join(ps, ",")
}

func (c *c03ts) scops(r *vRand) {
	nops := 1 + r.Intn(8)
	var ops [][]string
	for i := 0; i < nops; i++ {
		switch r.Intn(7) {
		case 0:
			ops = append(ops, []string{"tid", vHex(c03RandID(r, 16))})
		case 1:
			ops = append(ops, []string{"sid", vHex(c03RandID(r, 8))})
		case 2:
			ops = append(ops, []string{"fl", strconv.Itoa(vPick(r, []int{0, 1, 2, 3, 254, 255, r.Intn(256)}))})
		case 3:
			ops = append(ops, []string{"rem", strconv.Itoa(r.Intn(2))})
		case 4:
			ops = append(ops, []string{"ts", c03RandMembers(r)})
		default:
			ops = append(ops, []string{"sampled", strconv.Itoa(r.Intn(2))})
		}
	}
	fl := byte(vPick(r, []int{0, 1, 2, 3, 255, r.Intn(256)}))
	c.scopsRun("ops", c03RandID(r, 16), c03RandID(r, 8), fl, r.Bool(), c03RandMembers(r), ops)
}

// ---- members and lists at the grammar limits (both limits at once, one byte over, 32 / 33 members) ----

func c03Fill(r *vRand, first string, n int) string {
	if n <= 0 {
		return ""
	}
	return c03KeyPart(r, first, n-1)
}

func c03LimitKey(r *vRand, over bool) string {
	d := 0
	if over {
		d = 1
	}
	switch r.Intn(3) {
	case 0:
		return c03Fill(r, "abz", 256+d)
	case 1:
		return c03Fill(r, "a09", 241+d) + "@" + c03Fill(r, "abz", 14)
	default:
		return c03Fill(r, "a09", 241) + "@" + c03Fill(r, "abz", 14+d)
	}
}

func c03LimitVal(r *vRand, n int) string {
	b := make([]byte, n)
	for i := range b {
		b[i] = "az09 ~!;:"[r.Intn(9)]
	}
	if n > 0 && b[n-1] == ' ' {
		b[n-1] = '~'
	}
	return string(b)
}

func (c *c03ts) limits(r *vRand) {
	switch r.Intn(6) {
	case 0:
		c.checkVal("lim", c03LimitVal(r, vPick(r, []int{255, 256, 257, 258, 300, 512})))
	case 1:
		c.checkKey("lim", c03LimitKey(r, r.Bool()))
	case 2:
		// one member at BOTH limits (or one byte over in the key or in the value), alone or among others
		k := c03LimitKey(r, r.Intn(4) == 0)
		v := c03LimitVal(r, vPick(r, []int{256, 256, 256, 257}))
		h := k + "=" + v
		if r.Bool() {
			h = "a=1," + h + ",b=2"
		}
		c.parseTS("lim", h)
		c.editRun("lim", "a=1", [][]string{{"ins", vHex(k), vHex(v)}, {"get", vHex(k)}, {"ins", vHex("c"), vHex("3")}, {"del", vHex(k)}})
	default:
		// exactly 31 / 32 / 33 clean members, optionally with empty members and OWS in between (those do not count)
		n := vPick(r, []int{31, 32, 32, 33})
		var ms []string
		for i := 0; i < n; i++ {
			m := "k" + strconv.Itoa(i) + c03KeyPart(r, "ab", r.Intn(3)) + "=" + c03ShortVal(r)
			switch r.Intn(8) {
			case 0:
				m = " " + m
			case 1:
				m = m + "\t"
			case 2:
				m = m + ","
			}
			ms = append(ms, m)
		}
		if r.Intn(6) == 0 {
			ms[n-1] = ms[r.Intn(n-1)] // a duplicate in the last position
		}
		c.parseTS("lim", strings.Join(ms, ","))
	}
}

// ---- String / MarshalJSON / FromHex of the identifiers, flags, tracestate and span context ----

func (c *c03ts) idjsonRun(gen, tid, sid string, flags byte, remote bool, mem string) {
	var res string
	func() {
		defer func() {
			if e := recover(); e != nil {
				res = "panic"
			}
		}()
		ts, ok := c03BuildTS(mem)
		if !ok {
			res = "builderr"
			return
		}
		var cfg SpanContextConfig
		copy(cfg.TraceID[:], tid)
		copy(cfg.SpanID[:], sid)
		cfg.TraceFlags = TraceFlags(flags)
		cfg.TraceState = ts
		cfg.Remote = remote
		sc := NewSpanContext(cfg)
		mj := func(b []byte, err error) string {
			if err != nil {
				return "err"
			}
			return vHexB(b)
		}
		th, sh := "err", "err"
		if t, err := TraceIDFromHex(sc.TraceID().String()); err == nil {
			th = "ok:" + vHexB(t[:])
		}
		if s, err := SpanIDFromHex(sc.SpanID().String()); err == nil {
			sh = "ok:" + vHexB(s[:])
		}
		res = strings.Join([]string{vHex(sc.TraceID().String()), vHex(sc.SpanID().String()), vHex(sc.TraceFlags().String()),
			mj(sc.TraceID().MarshalJSON()), mj(sc.SpanID().MarshalJSON()), mj(sc.TraceFlags().MarshalJSON()),
			mj(sc.TraceState().MarshalJSON()), mj(sc.MarshalJSON()), th, sh}, " ")
	}()
	tb, sb := make([]byte, 16), make([]byte, 8)
	copy(tb, tid)
	copy(sb, sid)
	c.out.Line("idjson %s %s %s %d %d %s => %s", gen, vHexB(tb), vHexB(sb), flags, c03b(remote), mem, res)
}

func (c *c03ts) idjson(r *vRand) {
	n := vPick(r, []int{0, 1, 2, 3, 32})
	var ps []string
	for i := 0; i < n; i++ {
		v := c03ShortVal(r)
		if r.Intn(3) == 0 {
			v = vPick(r, []string{"\"", "\\", "<", ">", "&", "a\"b\\c", "<x>&", "'", "/", "\\u0041", "~"}) + v
		}
		ps = append(ps, vHex("m"+strconv.Itoa(i)+c03KeyPart(r, "ab", r.Intn(3)))+":"+vHex(v))
	}
	mem := "-"
	if n > 0 {
		mem = strings.Join(ps, ",")
	}
	c.idjsonRun("gen", c03RandID(r, 16), c03RandID(r, 8), byte(vPick(r, []int{0, 1, 2, 3, 255, r.Intn(256)})), r.Bool(), mem)
}
