package attribute

import (
	"encoding/hex"
	"fmt"
	"math"
	"strconv"
	"strings"
	"testing"
)

// C05 correspondence harness (white-box in package attribute, injected with go test -overlay).
// Line formats: see /verif/lean/Otel/C05/Main.lean.

func c05Hex(s string) string { return hex.EncodeToString([]byte(s)) }

func c05Val(v Value) string {
	switch v.Type() {
	case BOOL:
		if v.AsBool() {
			return "b1"
		}
		return "b0"
	case INT64:
		return fmt.Sprintf("i%016x", uint64(v.AsInt64()))
	case FLOAT64:
		return fmt.Sprintf("f%016x", math.Float64bits(v.AsFloat64()))
	case STRING:
		return "s" + c05Hex(v.AsString())
	case BOOLSLICE:
		var sb strings.Builder
		sb.WriteString("B")
		for _, b := range v.AsBoolSlice() {
			if b {
				sb.WriteString(".1")
			} else {
				sb.WriteString(".0")
			}
		}
		return sb.String()
	case INT64SLICE:
		var sb strings.Builder
		sb.WriteString("I")
		for _, x := range v.AsInt64Slice() {
			fmt.Fprintf(&sb, ".%016x", uint64(x))
		}
		return sb.String()
	case FLOAT64SLICE:
		var sb strings.Builder
		sb.WriteString("F")
		for _, x := range v.AsFloat64Slice() {
			fmt.Fprintf(&sb, ".%016x", math.Float64bits(x))
		}
		return sb.String()
	case STRINGSLICE:
		var sb strings.Builder
		sb.WriteString("S")
		for _, x := range v.AsStringSlice() {
			sb.WriteString("." + c05Hex(x))
		}
		return sb.String()
	}
	return "n"
}

func c05KVs(kvs []KeyValue) string {
	if len(kvs) == 0 {
		return "-"
	}
	parts := make([]string, len(kvs))
	for i, kv := range kvs {
		parts[i] = c05Hex(string(kv.Key)) + "=" + c05Val(kv.Value)
	}
	return strings.Join(parts, ",")
}

func c05Unhex(s string) string {
	b, err := hex.DecodeString(s)
	if err != nil {
		panic("bad hex in replay: " + s)
	}
	return string(b)
}

func c05U64(s string) uint64 {
	u, err := strconv.ParseUint(s, 16, 64)
	if err != nil {
		panic("bad u64 in replay: " + s)
	}
	return u
}

func c05Dotted(s string) []string { return strings.Split(s, ".")[1:] }

func c05ParseVal(s string) Value {
	switch s[0] {
	case 'n':
		return Value{}
	case 'b':
		return BoolValue(s == "b1")
	case 'i':
		return Int64Value(int64(c05U64(s[1:])))
	case 'f':
		return Float64Value(math.Float64frombits(c05U64(s[1:])))
	case 's':
		return StringValue(c05Unhex(s[1:]))
	case 'B':
		xs := []bool{}
		for _, e := range c05Dotted(s) {
			xs = append(xs, e == "1")
		}
		return BoolSliceValue(xs)
	case 'I':
		xs := []int64{}
		for _, e := range c05Dotted(s) {
			xs = append(xs, int64(c05U64(e)))
		}
		return Int64SliceValue(xs)
	case 'F':
		xs := []float64{}
		for _, e := range c05Dotted(s) {
			xs = append(xs, math.Float64frombits(c05U64(e)))
		}
		return Float64SliceValue(xs)
	case 'S':
		xs := []string{}
		for _, e := range c05Dotted(s) {
			xs = append(xs, c05Unhex(e))
		}
		return StringSliceValue(xs)
	}
	panic("bad value token " + s)
}

func c05ParseKVs(s string) []KeyValue {
	if s == "-" {
		return nil
	}
	var out []KeyValue
	for _, p := range strings.Split(s, ",") {
		i := strings.IndexByte(p, '=')
		out = append(out, KeyValue{Key: Key(c05Unhex(p[:i])), Value: c05ParseVal(p[i+1:])})
	}
	return out
}

// filter token -> Filter (nil for "nil")
func c05ParseFilter(s string) Filter {
	if s == "nil" {
		return nil
	}
	el := c05Dotted(s)
	switch strings.Split(s, ".")[0] {
	case "allow", "deny":
		// the key slice has spare capacity and is overwritten after the constructor returned
		ks := make([]Key, 0, len(el)+2)
		for _, e := range el {
			ks = append(ks, Key(c05Unhex(e)))
		}
		var f Filter
		if strings.HasPrefix(s, "allow") {
			f = NewAllowKeysFilter(ks...)
		} else {
			f = NewDenyKeysFilter(ks...)
		}
		ks = ks[:cap(ks)]
		for i := range ks {
			ks[i] = "zz.scribbled"
		}
		return f
	case "vt":
		ts := map[Type]bool{}
		for _, e := range el {
			n, _ := strconv.Atoi(e)
			ts[Type(n)] = true
		}
		return func(kv KeyValue) bool { return ts[kv.Value.Type()] }
	}
	panic("bad filter token " + s)
}

func c05Clone(kvs []KeyValue) []KeyValue { return append([]KeyValue(nil), kvs...) }

func c05B(b bool) int {
	if b {
		return 1
	}
	return 0
}

var c05SmallKeys = []string{"", "a", "aa", "b", "k=,\\"}
var c05LargeKeys = []string{"", "a", "aa", "b", "k=,\\", "c", "d", "e", "f", "g", "h", "i", "j", "ab", "\xffz", "š", "z"}

var c05Floats = []uint64{0, 0x8000000000000000, 0x3ff8000000000000, 0x7ff0000000000000, 0x7ff8000000000001, 0x7ff8000000000000, 0xfff8000000000000, 1}
var c05Ints = []int64{0, 1, -1, math.MinInt64, math.MaxInt64, 42}
var c05Strs = []string{"", "v", "w", "a=b,c\\d", "\xff", "š€", "1"}

var c05JSONStrs = []string{"\"q\"", "<a&b>", "\n\t\r", "\b\f", "\x00\x01\x1f", "\x7f", "\u2028x\u2029", "\xe2\x80", "a\xc3", "\\", "é\u00a0", "\U0001f600"}

func c05GenVal(r *vRand) Value {
	f := func() float64 { return math.Float64frombits(vPick(r, c05Floats)) }
	switch r.Intn(10) {
	case 0:
		return Value{}
	case 1:
		return BoolValue(r.Bool())
	case 2:
		return Int64Value(vPick(r, c05Ints))
	case 3:
		return Float64Value(f())
	case 4:
		return StringValue(vPick(r, c05Strs))
	case 5:
		xs := []bool{}
		for i, n := 0, r.Intn(3); i < n; i++ {
			xs = append(xs, r.Bool())
		}
		return BoolSliceValue(xs)
	case 6:
		xs := []int64{}
		for i, n := 0, r.Intn(3); i < n; i++ {
			xs = append(xs, vPick(r, c05Ints))
		}
		return Int64SliceValue(xs)
	case 7, 8:
		xs := []float64{}
		for i, n := 0, r.Intn(3); i < n; i++ {
			xs = append(xs, f())
		}
		return Float64SliceValue(xs)
	default:
		xs := []string{}
		for i, n := 0, r.Intn(3); i < n; i++ {
			if r.Intn(3) == 0 {
				// what json.Marshal escapes: quotes, HTML characters, control characters, U+2028/9, invalid bytes
				xs = append(xs, vPick(r, c05JSONStrs))
			} else {
				xs = append(xs, vPick(r, c05Strs))
			}
		}
		return StringSliceValue(xs)
	}
}

// a float slice with at least one NaN (the F9 witness shape)
func c05NaNVal(r *vRand) Value {
	xs := []float64{math.Float64frombits(0x7ff8000000000001)}
	if r.Bool() {
		xs = append(xs, 1.5)
	}
	if r.Bool() {
		xs = append([]float64{0}, xs...)
	}
	return Float64SliceValue(xs)
}

// c05GenSlice: 0-14 key-values; small pool (many duplicates) or large pool (sizes around the 10/11 switch)
var c05LongKeys = func() []string {
	ks := append([]string(nil), c05SmallKeys...)
	for i := 0; i < 40; i++ {
		ks = append(ks, fmt.Sprintf("k%02d", i))
	}
	return ks
}()

func c05GenSlice(r *vRand) ([]KeyValue, []string) {
	if r.Intn(60) == 0 {
		// very long slices: 20-220 key-values over 45 keys
		n := 20 + r.Intn(201)
		out := make([]KeyValue, 0, n)
		for i := 0; i < n; i++ {
			out = append(out, KeyValue{Key: Key(vPick(r, c05LongKeys)), Value: c05GenVal(r)})
		}
		return out, c05LongKeys
	}
	switch r.Intn(4) {
	case 0, 1:
		n := r.Intn(15)
		out := make([]KeyValue, 0, n)
		for i := 0; i < n; i++ {
			out = append(out, KeyValue{Key: Key(vPick(r, c05SmallKeys)), Value: c05GenVal(r)})
		}
		return out, c05SmallKeys
	case 2:
		n := r.Intn(15)
		out := make([]KeyValue, 0, n)
		for i := 0; i < n; i++ {
			out = append(out, KeyValue{Key: Key(vPick(r, c05LargeKeys)), Value: c05GenVal(r)})
		}
		return out, c05LargeKeys
	default:
		// m distinct keys (8..13) in random order + up to 3 duplicates at random places
		m := 8 + r.Intn(6)
		perm := append([]string(nil), c05LargeKeys...)
		for i := len(perm) - 1; i > 0; i-- {
			j := r.Intn(i + 1)
			perm[i], perm[j] = perm[j], perm[i]
		}
		out := make([]KeyValue, 0, m+3)
		for i := 0; i < m; i++ {
			out = append(out, KeyValue{Key: Key(perm[i]), Value: c05GenVal(r)})
		}
		for d := r.Intn(4); d > 0 && len(out) < 14; d-- {
			kv := KeyValue{Key: Key(perm[r.Intn(m)]), Value: c05GenVal(r)}
			at := r.Intn(len(out) + 1)
			out = append(out[:at], append([]KeyValue{kv}, out[at:]...)...)
		}
		return out, c05LargeKeys
	}
}

func c05GenFilter(r *vRand, pool []string) string {
	switch r.Intn(8) {
	case 0:
		return "nil"
	case 1:
		s := "vt"
		for t := 0; t <= 8; t++ {
			if r.Bool() {
				s += "." + strconv.Itoa(t)
			}
		}
		return s
	case 2:
		return vPick(r, []string{"allow", "deny"}) // deny-all / allow-all
	default:
		s := vPick(r, []string{"allow", "deny"})
		p := 1 + r.Intn(3)
		for _, k := range pool {
			if r.Intn(4) < p {
				s += "." + c05Hex(k)
			}
		}
		if r.Intn(8) == 0 {
			s += "." + c05Hex("nokey")
		}
		return s
	}
}

// last-wins reference used only to *generate* order/duplication variants
func c05Winners(kvs []KeyValue) []KeyValue {
	var out []KeyValue
	for i, kv := range kvs {
		last := true
		for _, l := range kvs[i+1:] {
			if l.Key == kv.Key {
				last = false
				break
			}
		}
		if last {
			out = append(out, kv)
		}
	}
	return out
}

// a permutation of the winners of base with superseded junk inserted before some of them
func c05Variant(r *vRand, base []KeyValue) []KeyValue {
	w := c05Winners(base)
	for i := len(w) - 1; i > 0; i-- {
		j := r.Intn(i + 1)
		w[i], w[j] = w[j], w[i]
	}
	var out []KeyValue
	for _, kv := range w {
		out = append(out, kv)
	}
	for i := 0; i < len(out) && len(out) < 16; i++ {
		if r.Intn(3) == 0 {
			junk := KeyValue{Key: out[r.Intn(len(out)-i)+i].Key, Value: c05GenVal(r)}
			out = append(out[:i], append([]KeyValue{junk}, out[i:]...)...)
			i++
		}
	}
	return out
}

func c05Pair(r *vRand) (string, []KeyValue, []KeyValue) {
	a, pool := c05GenSlice(r)
	if r.Intn(6) == 0 && len(a) < 14 {
		a = append(a, KeyValue{Key: Key(vPick(r, pool)), Value: c05NaNVal(r)})
	}
	switch r.Intn(7) {
	case 6:
		// flip the sign of every zero (scalar and inside float slices); seed one zero-only float slice
		if len(a) < 14 {
			a = append(a, KeyValue{Key: Key(vPick(r, pool)), Value: Float64SliceValue([]float64{0, math.Copysign(0, -1)}[:1+r.Intn(2)])})
		}
		b := c05Variant(r, a)
		flip := func(x float64) float64 {
			if x == 0 {
				return -x
			}
			return x
		}
		for i, kv := range b {
			switch kv.Value.Type() {
			case FLOAT64:
				if r.Intn(4) == 0 {
					b[i].Value = Float64Value(flip(kv.Value.AsFloat64()))
				}
			case FLOAT64SLICE:
				xs := kv.Value.AsFloat64Slice()
				for j := range xs {
					xs[j] = flip(xs[j])
				}
				b[i].Value = Float64SliceValue(xs)
			}
		}
		return "szero", a, b
	case 0:
		return "same", a, c05Clone(a)
	case 1, 2:
		return "variant", a, c05Variant(r, a)
	case 3, 4:
		b := c05Variant(r, a)
		switch {
		case len(b) > 0 && r.Intn(3) == 0:
			i := r.Intn(len(b))
			b = append(b[:i:i], b[i+1:]...)
		case len(b) > 0 && r.Intn(2) == 0:
			// change the value of one winner: append a new last binding
			b = append(b, KeyValue{Key: b[r.Intn(len(b))].Key, Value: c05GenVal(r)})
		default:
			b = append(b, KeyValue{Key: Key(vPick(r, pool)), Value: c05GenVal(r)})
		}
		return "mutated", a, b
	default:
		b, _ := c05GenSlice(r)
		return "indep", a, b
	}
}

// ---- constructor diversity -------------------------------------------------------------------
// Every typed value can be built through several public constructors (XValue functions, the
// helpers of kv.go, the Key methods of key.go, the int flavours, Stringer; nil or empty slices).
// A generator tag may end in "~X" or "~XY" (hex digits): the constructor family used for the
// (first, second) input of the line. The tokens on the line are the typed values, whatever built them.

type c05Str string

func (s c05Str) String() string { return string(s) }

const c05Families = 12

func c05Fam(gen string) (base string, fa, fb int) {
	base = gen
	if i := strings.IndexByte(gen, '~'); i >= 0 {
		base = gen[:i]
		d := gen[i+1:]
		if len(d) >= 1 {
			x, _ := strconv.ParseUint(d[:1], 16, 8)
			fa, fb = int(x)%c05Families, int(x)%c05Families
		}
		if len(d) >= 2 {
			y, _ := strconv.ParseUint(d[1:2], 16, 8)
			fb = int(y) % c05Families
		}
	}
	return
}

// c05Build rebuilds one key-value (same key, same typed value) through constructor family f.
func c05Build(kv KeyValue, f int) KeyValue {
	k, v := string(kv.Key), kv.Value
	c := f % 6
	nilEmpty := f/6 == 1 // hand a nil slice instead of an empty one
	switch v.Type() {
	case BOOL:
		b := v.AsBool()
		switch c % 3 {
		case 0:
			return KeyValue{Key: Key(k), Value: BoolValue(b)}
		case 1:
			return Bool(k, b)
		}
		return Key(k).Bool(b)
	case INT64:
		x := v.AsInt64()
		switch c {
		case 0:
			return KeyValue{Key: Key(k), Value: Int64Value(x)}
		case 1:
			return Int64(k, x)
		case 2:
			return Key(k).Int64(x)
		case 3:
			return KeyValue{Key: Key(k), Value: IntValue(int(x))}
		case 4:
			return Int(k, int(x))
		}
		return Key(k).Int(int(x))
	case FLOAT64:
		x := v.AsFloat64()
		switch c % 3 {
		case 0:
			return KeyValue{Key: Key(k), Value: Float64Value(x)}
		case 1:
			return Float64(k, x)
		}
		return Key(k).Float64(x)
	case STRING:
		x := v.AsString()
		switch c % 4 {
		case 0:
			return KeyValue{Key: Key(k), Value: StringValue(x)}
		case 1:
			return String(k, x)
		case 2:
			return Key(k).String(x)
		}
		return Stringer(k, c05Str(x))
	case BOOLSLICE:
		xs := v.AsBoolSlice()
		if len(xs) == 0 && nilEmpty {
			xs = nil
		}
		switch c % 3 {
		case 0:
			return KeyValue{Key: Key(k), Value: BoolSliceValue(xs)}
		case 1:
			return BoolSlice(k, xs)
		}
		return Key(k).BoolSlice(xs)
	case INT64SLICE:
		xs := v.AsInt64Slice()
		if len(xs) == 0 && nilEmpty {
			xs = nil
		}
		var is []int
		if xs != nil {
			is = make([]int, len(xs))
			for i, x := range xs {
				is[i] = int(x)
			}
		}
		switch c {
		case 0:
			return KeyValue{Key: Key(k), Value: Int64SliceValue(xs)}
		case 1:
			return Int64Slice(k, xs)
		case 2:
			return Key(k).Int64Slice(xs)
		case 3:
			return KeyValue{Key: Key(k), Value: IntSliceValue(is)}
		case 4:
			return IntSlice(k, is)
		}
		return Key(k).IntSlice(is)
	case FLOAT64SLICE:
		xs := v.AsFloat64Slice()
		if len(xs) == 0 && nilEmpty {
			xs = nil
		}
		switch c % 3 {
		case 0:
			return KeyValue{Key: Key(k), Value: Float64SliceValue(xs)}
		case 1:
			return Float64Slice(k, xs)
		}
		return Key(k).Float64Slice(xs)
	case STRINGSLICE:
		xs := v.AsStringSlice()
		if len(xs) == 0 && nilEmpty {
			xs = nil
		}
		switch c % 3 {
		case 0:
			return KeyValue{Key: Key(k), Value: StringSliceValue(xs)}
		case 1:
			return StringSlice(k, xs)
		}
		return Key(k).StringSlice(xs)
	}
	return KeyValue{Key: Key(k)}
}

// c05BuildAll returns a fresh slice with every element rebuilt through family f.
func c05BuildAll(kvs []KeyValue, f int) []KeyValue {
	if kvs == nil {
		return nil
	}
	out := make([]KeyValue, len(kvs))
	for i, kv := range kvs {
		out[i] = c05Build(kv, f)
	}
	return out
}

var c05FamPairs = []string{"03", "30", "09", "90", "14", "41", "25", "52", "6b", "b6", "39", "93", "7a", "a7", "8b", "44"}

// c05Tag decorates a generator tag with a constructor family (single) or a pair of families.
func c05Tag(r *vRand, gen string, pair bool) string {
	if r.Intn(5) < 2 {
		return gen
	}
	if pair {
		return gen + "~" + vPick(r, c05FamPairs)
	}
	return gen + "~" + strconv.FormatInt(int64(r.Intn(c05Families)), 16)
}

func c05MkSet(base string, kvs []KeyValue, f int) Set {
	if base == "zero" && len(kvs) == 0 {
		return Set{}
	}
	return c05NewSet(c05BuildAll(kvs, f))
}

// Shared argument table. Every slice handed to the API is a sub-slice of this one table, WITH
// SPARE CAPACITY (three sentinel slots that belong to the table, not to the argument). After the
// call the argument's elements are overwritten and the table is re-used by the next argument; the
// results are read only after that (and, in seq lines, again after every later call). An
// implementation that keeps the caller's slice, appends into its spare capacity, or hands out
// internal storage shows up as a changed late reading or a damaged sentinel (BADCAP).
type c05Arena struct {
	tab  []KeyValue
	used int
}

var c05Tab = &c05Arena{tab: make([]KeyValue, 2048)}
var c05Junk = KeyValue{Key: "zz.scribbled", Value: StringValue("junk")}
var c05Sentinel = KeyValue{Key: "zz.sentinel", Value: Int64Value(-7)}
var c05BadCap = false

func (a *c05Arena) slice(kvs []KeyValue) []KeyValue {
	n := len(kvs)
	if a.used+n+3 > len(a.tab) {
		a.tab, a.used = make([]KeyValue, 2048+n), 0
	}
	s := a.tab[a.used : a.used+n : a.used+n+3]
	copy(s, kvs)
	for i := n; i < n+3; i++ {
		a.tab[a.used+i] = c05Sentinel
	}
	a.used += n + 3
	return s
}

// the three slots behind an argument slice must still hold the sentinel
func c05CapCheck(arg []KeyValue) {
	for _, kv := range arg[len(arg):cap(arg)] {
		if kv != c05Sentinel {
			c05BadCap = true
		}
	}
}

func c05Scribble(sl []KeyValue) {
	sl = sl[:cap(sl)]
	for i := range sl {
		sl[i] = c05Junk
	}
}

// NewSet(arg...) on a table-backed argument that is overwritten right after the call
func c05NewSet(kvs []KeyValue) Set {
	arg := c05Tab.slice(kvs)
	s := NewSet(arg...)
	c05CapCheck(arg)
	c05Scribble(arg)
	return s
}

type c05Emitter struct{ out *vOut }

// line: one trace line; a damaged sentinel makes it unparsable on purpose
func (e c05Emitter) line(format string, args ...interface{}) {
	c05Tab.used = 0
	if c05BadCap {
		c05BadCap = false
		format += " BADCAP"
	}
	e.out.Line(format, args...)
}

func (e c05Emitter) newset(gen string, in []KeyValue, ftok string) {
	base, fa, _ := c05Fam(gen)
	work := c05Tab.slice(c05BuildAll(in, fa))
	var s Set
	var dropped []KeyValue
	f := c05ParseFilter(ftok)
	if f == nil && base == "variadic" {
		s = NewSet(work...)
	} else {
		s, dropped = NewSetWithFiltered(work, f)
	}
	c05CapCheck(work)
	// the dropped slice and the caller's slice are read now (dropped may alias the caller's slice:
	// documented), then both are overwritten, a later call is made, and only then is the Set read
	d, w := c05KVs(dropped), c05KVs(work)
	c05Scribble(work)
	if len(dropped) > 0 {
		c05Scribble(dropped[:len(dropped):len(dropped)])
	}
	_ = c05NewSet([]KeyValue{c05Junk, c05Sentinel})
	sl := s.ToSlice()
	if s.Len() != len(sl) {
		sl = append(sl, KeyValue{Key: "BADLEN"})
	}
	e.line("newset %s %s %s => %s %s %s", gen, c05KVs(in), ftok, c05KVs(sl), d, w)
}

func (e c05Emitter) filter(gen string, in []KeyValue, ftok string) {
	_, fa, _ := c05Fam(gen)
	s := c05NewSet(c05BuildAll(in, fa))
	kept, dropped := s.Filter(c05ParseFilter(ftok))
	d := c05KVs(dropped)
	c05Scribble(dropped)
	sl := s.ToSlice()
	first := c05KVs(sl)
	c05Scribble(sl)
	_, _ = kept.Filter(c05ParseFilter(ftok))
	if now := c05KVs(s.ToSlice()); now != first {
		first = now + ",UNSTABLE"
	}
	e.line("filter %s %s %s => %s %s %s", gen, c05KVs(in), ftok, c05KVs(kept.ToSlice()), d, first)
}

func (e c05Emitter) value(gen string, in []KeyValue, k string) {
	_, fa, _ := c05Fam(gen)
	s := c05NewSet(c05BuildAll(in, fa))
	v, ok := s.Value(Key(k))
	res := "-"
	if ok {
		res = c05Val(v)
	}
	if s.HasValue(Key(k)) != ok {
		res = "BADHAS"
	}
	e.line("value %s %s x%s => %s", gen, c05KVs(in), c05Hex(k), res)
}

func (e c05Emitter) equal(gen string, a, b []KeyValue) {
	base, fa, fb := c05Fam(gen)
	sa, sb := c05MkSet(base, a, fa), c05MkSet(base, b, fb)
	e.line("equal %s %s %s => %d %d %d", gen, c05KVs(a), c05KVs(b), c05B(sa.Equals(&sb)), c05B(sb.Equals(&sa)), c05B(sa.Equals(&sa)))
}

func (e c05Emitter) mapkey(gen string, a, b []KeyValue) {
	base, fa, fb := c05Fam(gen)
	sa, sb := c05MkSet(base, a, fa), c05MkSet(base, b, fb)
	m := map[Distinct]int{}
	m[sa.Equivalent()] = 1
	_, found := m[sb.Equivalent()]
	m[sb.Equivalent()] = 2
	e.line("mapkey %s %s %s => %d %d", gen, c05KVs(a), c05KVs(b), c05B(found), len(m))
}

func (e c05Emitter) merge(gen string, a, b []KeyValue) {
	base, fa, fb := c05Fam(gen)
	sa, sb := c05MkSet(base, a, fa), c05MkSet(base, b, fb)
	it := NewMergeIterator(&sa, &sb)
	var got []KeyValue
	for it.Next() {
		got = append(got, it.Attribute())
	}
	e.line("merge %s %s %s => %s", gen, c05KVs(a), c05KVs(b), c05KVs(got))
}

func (e c05Emitter) encode(gen string, in []KeyValue) {
	_, fa, _ := c05Fam(gen)
	s := c05NewSet(c05BuildAll(in, fa))
	em := "E"
	for _, kv := range s.ToSlice() {
		em += "." + c05Hex(kv.Value.Emit())
	}
	e.line("encode %s %s %s => x%s", gen, c05KVs(in), em, c05Hex(s.Encoded(DefaultEncoder())))
}

// iter: the Iterator API step by step (Next / Attribute / Label / IndexedAttribute / Len / ToSlice)
func (e c05Emitter) iter(gen string, in []KeyValue, k int) {
	_, fa, _ := c05Fam(gen)
	s := c05NewSet(c05BuildAll(in, fa))
	it := s.Iter()
	var got []KeyValue
	idxOK := 1
	for pos := 0; it.Next(); pos++ {
		i, kv := it.IndexedAttribute()
		i2, kv2 := it.IndexedLabel()
		// compared through their rendering: Go == on a KeyValue holding a NaN in a FLOAT64SLICE is false (F9)
		one := func(x KeyValue) string { return c05KVs([]KeyValue{x}) }
		if i != pos || i2 != pos || one(kv) != one(it.Attribute()) || one(kv) != one(it.Label()) || one(kv) != one(kv2) {
			idxOK = 0
		}
		got = append(got, kv)
		if pos > len(in)+2 {
			break
		}
	}
	after := it.Attribute()
	extra := it.Next()
	it2 := s.Iter()
	for j := 0; j < k; j++ {
		it2.Next()
	}
	sl := it2.ToSlice()
	shown := c05KVs(sl)
	c05Scribble(sl)
	nxt := it2.Next()
	e.line("iter %s %s %d => %s %d %d %s %d %s %d", gen, c05KVs(in), k, c05KVs(got), idxOK, it.Len(),
		c05KVs([]KeyValue{after}), c05B(extra), shown, c05B(nxt))
}

// nilfilter: Set.Filter on a nil *Set / the zero Set / empty Sets; a panic of Filter is the observation "panic"
func (e c05Emitter) nilfilter(which, ftok string) {
	var l *Set
	switch which {
	case "nil":
	case "zero":
		l = &Set{}
	case "new":
		s := NewSet()
		l = &s
	default:
		l = EmptySet()
	}
	obs := func() (res string) {
		defer func() {
			if p := recover(); p != nil {
				res = "panic"
			}
		}()
		kept, dropped := l.Filter(c05ParseFilter(ftok))
		return c05KVs(kept.ToSlice()) + " " + c05KVs(dropped)
	}()
	e.line("nilfilter fix %s %s => %s", which, ftok, obs)
}

// nilset: every accessor on a nil *Set, the zero Set{}, NewSet() and EmptySet(); which = nil | zero | new | empty
func (e c05Emitter) nilset(which, other string, k string, idx int) {
	mk := func(w string) *Set {
		switch w {
		case "nil":
			return nil
		case "zero":
			return &Set{}
		case "new":
			s := NewSet()
			return &s
		case "filtered":
			s, _ := NewSetWithFiltered(c05Tab.slice([]KeyValue{c05Junk}), func(KeyValue) bool { return false })
			return &s
		}
		return EmptySet()
	}
	l, o := mk(which), mk(other)
	_, okv := l.Value(Key(k))
	_, okg := l.Get(idx)
	it := l.Iter()
	n := 0
	for it.Next() {
		n++
	}
	m := map[Distinct]bool{l.Equivalent(): true}
	e.line("nilset fix %s %s x%s %d => %d %d %d %d %s %d %d %d %d x%s", which, other, c05Hex(k), idx,
		l.Len(), c05B(okv), c05B(l.HasValue(Key(k))), c05B(okg), c05KVs(l.ToSlice()), n,
		c05B(l.Equals(o)), c05B(o.Equals(l)), c05B(m[o.Equivalent()]), c05Hex(l.Encoded(DefaultEncoder())))
}

// ---- scripts with temporal re-observation ------------------------------------------------------
// seq: several calls on several Sets; EVERY result (Sets, dropped slices, caller's slices, merged
// lists, looked-up values) is kept alive and dumped a second time after the last call.

type c05SeqOp struct {
	kind string // set | newset | filter | merge | value
	kvs  []KeyValue
	ftok string
	i, j int
	key  string
}

func (o c05SeqOp) String() string {
	switch o.kind {
	case "set":
		return "set " + c05KVs(o.kvs)
	case "newset":
		return "newset " + c05KVs(o.kvs) + " " + o.ftok
	case "filter":
		return fmt.Sprintf("filter %d %s", o.i, o.ftok)
	case "merge":
		return fmt.Sprintf("merge %d %d", o.i, o.j)
	}
	return fmt.Sprintf("value %d x%s", o.i, c05Hex(o.key))
}

func c05ParseSeq(toks []string) []c05SeqOp {
	var ops []c05SeqOp
	for i := 0; i < len(toks); {
		j := i
		for j < len(toks) && toks[j] != "|" {
			j++
		}
		g := toks[i:j]
		op := c05SeqOp{kind: g[0]}
		switch g[0] {
		case "set":
			op.kvs = c05ParseKVs(g[1])
		case "newset":
			op.kvs, op.ftok = c05ParseKVs(g[1]), g[2]
		case "filter":
			op.i, _ = strconv.Atoi(g[1])
			op.ftok = g[2]
		case "merge":
			op.i, _ = strconv.Atoi(g[1])
			op.j, _ = strconv.Atoi(g[2])
		case "value":
			op.i, _ = strconv.Atoi(g[1])
			op.key = c05Unhex(strings.TrimPrefix(g[2], "x"))
		default:
			panic("bad seq op " + g[0])
		}
		ops = append(ops, op)
		i = j + 1
	}
	return ops
}

func (e c05Emitter) seq(gen string, ops []c05SeqOp) {
	_, fa, _ := c05Fam(gen)
	var sets []*Set
	var in, atReturn []string
	var redump []func() string
	// a Set is re-read with a fresh ToSlice at the end; a slice handed out is re-read as it is now
	for _, op := range ops {
		in = append(in, op.String())
		switch op.kind {
		case "set":
			s := c05NewSet(c05BuildAll(op.kvs, fa)) // table-backed argument, overwritten after the call
			sets = append(sets, &s)
			sl := s.ToSlice()
			first := c05KVs(sl)
			atReturn = append(atReturn, first)
			redump = append(redump, func() string {
				if now := c05KVs(sl); now != first {
					return now // the slice ToSlice handed out has changed
				}
				c05Scribble(sl) // it is the caller's: overwriting it must not reach the Set
				return c05KVs(s.ToSlice())
			})
		case "newset":
			work := c05Tab.slice(c05BuildAll(op.kvs, fa))
			s, dropped := NewSetWithFiltered(work, c05ParseFilter(op.ftok))
			c05CapCheck(work)
			sets = append(sets, &s)
			atReturn = append(atReturn, c05KVs(s.ToSlice())+" "+c05KVs(dropped)+" "+c05KVs(work))
			redump = append(redump, func() string {
				// slices first (dropped may alias the caller's slice: documented), then both are
				// overwritten, then the Set is read
				d, w := c05KVs(dropped), c05KVs(work)
				c05Scribble(work)
				if len(dropped) > 0 {
					c05Scribble(dropped[:len(dropped):len(dropped)])
				}
				return c05KVs(s.ToSlice()) + " " + d + " " + w
			})
		case "filter":
			src := sets[op.i]
			kept, dropped := src.Filter(c05ParseFilter(op.ftok))
			sets = append(sets, &kept)
			atReturn = append(atReturn, c05KVs(kept.ToSlice())+" "+c05KVs(dropped)+" "+c05KVs(src.ToSlice()))
			redump = append(redump, func() string {
				d := c05KVs(dropped)
				c05Scribble(dropped)
				return c05KVs(kept.ToSlice()) + " " + d + " " + c05KVs(src.ToSlice())
			})
		case "merge":
			it := NewMergeIterator(sets[op.i], sets[op.j])
			var got []KeyValue
			for it.Next() {
				got = append(got, it.Attribute())
			}
			atReturn = append(atReturn, c05KVs(got))
			redump = append(redump, func() string { return c05KVs(got) })
		case "value":
			v, ok := sets[op.i].Value(Key(op.key))
			show := func() string {
				if !ok {
					return "-"
				}
				return "=" + c05Val(v)
			}
			atReturn = append(atReturn, show())
			redump = append(redump, show)
		}
	}
	atEnd := make([]string, len(redump))
	for i, f := range redump {
		atEnd[i] = f()
	}
	e.line("seq %s %s => %s ;; %s", gen, strings.Join(in, " | "), strings.Join(atReturn, " | "), strings.Join(atEnd, " | "))
}

// reference contents (only to steer the generator towards the three code paths of Set.Filter)
func c05Apply(contents []KeyValue, ftok string) (kept []KeyValue) {
	f := c05ParseFilter(ftok)
	for _, kv := range contents {
		if f == nil || f(kv) {
			kept = append(kept, kv)
		}
	}
	return
}

func c05MinKey(contents []KeyValue) string {
	m := string(contents[0].Key)
	for _, kv := range contents {
		if string(kv.Key) < m {
			m = string(kv.Key)
		}
	}
	return m
}

// a filter for a Set with the given contents: shape 0 nothing dropped, 1 only the smallest key
// dropped (the `first == 0` fast path), 2 general, 3 everything dropped
func c05ShapeFilter(r *vRand, contents []KeyValue, pool []string, shape int) string {
	if len(contents) == 0 {
		return vPick(r, []string{"allow", "deny", "nil"})
	}
	switch shape {
	case 0:
		return vPick(r, []string{"deny." + c05Hex("nokey"), "deny", "nil"})
	case 1:
		return "deny." + c05Hex(c05MinKey(contents))
	case 3:
		return "allow"
	}
	if len(contents) >= 2 && r.Bool() {
		// drop one key that is not the smallest
		min := c05MinKey(contents)
		for tries := 0; tries < 8; tries++ {
			k := string(contents[r.Intn(len(contents))].Key)
			if k != min {
				return "deny." + c05Hex(k)
			}
		}
	}
	return c05GenFilter(r, pool)
}

func c05GenSeq(r *vRand) []c05SeqOp {
	var ops []c05SeqOp
	var contents [][]KeyValue // reference contents of the Sets created so far
	pools := [][]string{}
	addSet := func() {
		kvs, pool := c05GenSlice(r)
		switch r.Intn(6) {
		case 0: // larger than the usual scratch capacity
		case 1, 2, 3:
			if len(kvs) > 4 {
				kvs = kvs[:1+r.Intn(4)]
			}
		default:
			if len(kvs) > 8 {
				kvs = kvs[:8]
			}
		}
		ops = append(ops, c05SeqOp{kind: "set", kvs: kvs})
		contents = append(contents, c05Winners(kvs))
		pools = append(pools, pool)
	}
	for n := 1 + r.Intn(3); n > 0; n-- {
		addSet()
	}
	addFilter := func(shape int) {
		i := r.Intn(len(contents))
		ft := c05ShapeFilter(r, contents[i], pools[i], shape)
		ops = append(ops, c05SeqOp{kind: "filter", i: i, ftok: ft})
		contents = append(contents, c05Apply(contents[i], ft))
		pools = append(pools, pools[i])
	}
	for n := 1 + r.Intn(5); n > 0; n-- {
		switch r.Intn(10) {
		case 0:
			addSet()
		case 1:
			kvs, pool := c05GenSlice(r)
			ft := c05GenFilter(r, pool)
			ops = append(ops, c05SeqOp{kind: "newset", kvs: kvs, ftok: ft})
			contents = append(contents, c05Apply(c05Winners(kvs), ft))
			pools = append(pools, pool)
		case 2:
			ops = append(ops, c05SeqOp{kind: "merge", i: r.Intn(len(contents)), j: r.Intn(len(contents))})
		case 3:
			i := r.Intn(len(contents))
			ops = append(ops, c05SeqOp{kind: "value", i: i, key: vPick(r, pools[i])})
		default:
			addFilter(r.Intn(4))
		}
	}
	// always end with a Filter that drops something (it re-uses whatever scratch space Filter has)
	addFilter(1 + 2*r.Intn(2))
	return ops
}

func TestVerifC05Set(t *testing.T) {
	out := vOpen(t)
	defer out.Close()
	// a panic of the code under test is an observation: it becomes an (unparsable) trace line, so the
	// run cannot pass for a truncated trace
	defer func() {
		if p := recover(); p != nil {
			out.Line("panic harness => %s", strings.ReplaceAll(fmt.Sprint(p), " ", "_"))
			t.Errorf("panic: %v", p)
		}
	}()
	e := c05Emitter{out}
	if rp := vReplayLines(); rp != nil {
		for _, f := range rp {
			switch f[0] {
			case "newset":
				e.newset(f[1], c05ParseKVs(f[2]), f[3])
			case "filter":
				e.filter(f[1], c05ParseKVs(f[2]), f[3])
			case "value":
				e.value(f[1], c05ParseKVs(f[2]), c05Unhex(strings.TrimPrefix(f[3], "x")))
			case "equal":
				e.equal(f[1], c05ParseKVs(f[2]), c05ParseKVs(f[3]))
			case "mapkey":
				e.mapkey(f[1], c05ParseKVs(f[2]), c05ParseKVs(f[3]))
			case "merge":
				e.merge(f[1], c05ParseKVs(f[2]), c05ParseKVs(f[3]))
			case "encode":
				e.encode(f[1], c05ParseKVs(f[2]))
			case "seq":
				e.seq(f[1], c05ParseSeq(f[2:]))
			case "iter":
				k, _ := strconv.Atoi(f[3])
				e.iter(f[1], c05ParseKVs(f[2]), k)
			case "nilfilter":
				e.nilfilter(f[2], f[3])
			case "nilset":
				idx, _ := strconv.Atoi(f[5])
				e.nilset(f[2], f[3], c05Unhex(strings.TrimPrefix(f[4], "x")), idx)
			}
		}
		return
	}
	r := &vRand{s: vSeed()}
	n := vN(20000)
	{
		// nil *Set, zero Set{}, NewSet(), EmptySet(), a Set whose every attribute was filtered out: every accessor, all pairs
		for _, w := range []string{"nil", "zero", "new", "empty"} {
			for _, ft := range []string{"nil", "allow", "deny", "allow." + c05Hex("a"), "vt.2"} {
				e.nilfilter(w, ft)
			}
		}
		kinds := []string{"nil", "zero", "new", "empty", "filtered"}
		for _, w := range kinds {
			for _, o := range kinds {
				for _, k := range []string{"", "a"} {
					for _, idx := range []int{-1, 0, 1} {
						e.nilset(w, o, k, idx)
					}
				}
			}
		}
	}
	{
		// constructor diversity, exhaustively: one value of every type (and every empty slice) built
		// through every pair of constructor families must give Equal Sets / one map key
		vals := []Value{BoolValue(true), Int64Value(5), Int64Value(-1), Float64Value(1.5), StringValue("s"), StringValue(""),
			BoolSliceValue([]bool{}), BoolSliceValue([]bool{true}), Int64SliceValue([]int64{}), Int64SliceValue([]int64{1, -2}),
			Float64SliceValue([]float64{}), Float64SliceValue([]float64{1.5}), StringSliceValue([]string{}), StringSliceValue([]string{"a"}), {}}
		for vi, v := range vals {
			a := []KeyValue{{Key: "svc", Value: StringValue("x")}, {Key: "ids", Value: v}}
			b := []KeyValue{{Key: "ids", Value: Int64Value(7)}, {Key: "ids", Value: v}, {Key: "svc", Value: StringValue("x")}}
			for fa := 0; fa < c05Families; fa++ {
				for fb := 0; fb < c05Families; fb++ {
					tag := fmt.Sprintf("ctor~%x%x", fa, fb)
					if (fa+fb+vi)%3 == 0 {
						e.mapkey(tag, a, b)
					} else {
						e.equal(tag, a, b)
					}
				}
			}
		}
	}
	if os_exhaustive() {
		// all slices of length <= 4 over 3 keys x 6 values
		vals := []Value{Int64Value(0), Int64Value(1), StringValue(""), Float64SliceValue([]float64{0}),
			Float64SliceValue([]float64{math.Copysign(0, -1)}), BoolSliceValue(nil)}
		var alpha []KeyValue
		for _, k := range []string{"", "a", "b"} {
			for _, v := range vals {
				alpha = append(alpha, KeyValue{Key: Key(k), Value: v})
			}
		}
		filters := []string{"nil", "allow." + c05Hex("a"), "deny." + c05Hex(""), "allow", "vt.2"}
		cnt := 0
		var rec func(prefix []KeyValue, depth int)
		rec = func(prefix []KeyValue, depth int) {
			cnt++
			e.newset("exh", prefix, filters[cnt%len(filters)])
			if cnt%7 == 0 {
				e.filter("exh", prefix, filters[1+cnt%(len(filters)-1)])
			}
			if depth == 4 {
				return
			}
			for _, kv := range alpha {
				rec(append(c05Clone(prefix), kv), depth+1)
			}
		}
		rec(nil, 0)
		// all ordered pairs of Filter shapes on two small Sets, every result re-read at the end
		setA := []KeyValue{String("A", "a"), Int("B", 2), Bool("C", true)}
		setB := []KeyValue{String("X", "x"), Float64("Y", 1.5)}
		for s1 := 0; s1 < 4; s1++ {
			for s2 := 0; s2 < 4; s2++ {
				for tgt := 0; tgt < 2; tgt++ {
					second := [][]KeyValue{setA, setB}[tgt]
					e.seq("exh", []c05SeqOp{{kind: "set", kvs: setA}, {kind: "set", kvs: setB},
						{kind: "filter", i: 0, ftok: c05ShapeFilter(r, setA, c05SmallKeys, s1)},
						{kind: "filter", i: tgt, ftok: c05ShapeFilter(r, second, c05SmallKeys, s2)}})
				}
			}
		}
	}
	for i := 0; i < n; i++ {
		if i%400 == 7 {
			// a few F9 witnesses per run: a set holding a float slice with a NaN, compared with itself
			a, pool := c05GenSlice(r)
			if len(a) > 12 {
				a = a[:12]
			}
			a = append(a, KeyValue{Key: Key(vPick(r, pool)), Value: c05NaNVal(r)})
			if r.Bool() {
				e.equal("nan", a, c05Clone(a))
			} else {
				e.mapkey("nan", a, c05Variant(r, a))
			}
			continue
		}
		switch r.Intn(20) {
		case 19:
			in, _ := c05GenSlice(r)
			k := r.Intn(4)
			if r.Intn(3) == 0 {
				k = len(in) + r.Intn(3)
			}
			e.iter(c05Tag(r, "rnd", false), in, k)
		case 0, 1, 2, 3:
			in, pool := c05GenSlice(r)
			ft := c05GenFilter(r, pool)
			gen := "rnd"
			if ft == "nil" && r.Bool() {
				gen = "variadic"
			}
			e.newset(c05Tag(r, gen, false), in, ft)
		case 4:
			// permutation / duplication of a base slice: same set expected
			in, _ := c05GenSlice(r)
			e.newset(c05Tag(r, "variant", false), c05Variant(r, in), "nil")
		case 5, 6, 7:
			in, pool := c05GenSlice(r)
			e.filter(c05Tag(r, "rnd", false), in, c05GenFilter(r, pool))
		case 8, 9:
			in, pool := c05GenSlice(r)
			k := vPick(r, pool)
			if r.Intn(5) == 0 {
				k = vPick(r, []string{"zz", "0", "a\x00", "\xff", "ac"})
			}
			e.value(c05Tag(r, "rnd", false), in, k)
		case 10, 11:
			gen, a, b := c05Pair(r)
			if len(a) == 0 && len(b) == 0 && r.Bool() {
				gen = "zero"
			}
			e.equal(c05Tag(r, gen, true), a, b)
		case 12:
			gen, a, b := c05Pair(r)
			e.mapkey(c05Tag(r, gen, true), a, b)
		case 13, 14:
			a, _ := c05GenSlice(r)
			b, _ := c05GenSlice(r)
			if r.Intn(4) == 0 {
				b = c05Variant(r, a)
				if len(b) > 2 {
					b = b[:len(b)/2]
				}
			}
			e.merge(c05Tag(r, "rnd", true), a, b)
		case 15:
			in, _ := c05GenSlice(r)
			e.encode(c05Tag(r, "rnd", false), in)
		default:
			e.seq(c05Tag(r, "rnd", false), c05GenSeq(r))
		}
	}
}
