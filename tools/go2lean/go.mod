module verif/go2lean

go 1.22
