// go2lean — a tiny translator from selected decision logic of the Go source tree to Lean 4 definitions.
//
// It is the *regenerated* half of the tie between /verif's Lean models and /repo (DESIGN §0, "generated tie"):
// bin/check runs it on every invocation against the current working tree (or a mutant overlay) and re-checks the
// tie theorems of lean/Otel/Cxx/GenTie.lean against what it prints.
//
// Supported site kinds (anything else at a configured site is an error, i.e. a broken tie — nothing is skipped silently;
// a package that does not type-check is an error too, since constants and identifiers could not be trusted):
//
//	const   package-level constants / variables with a constant initialiser: the *evaluated* value is emitted
//	        (integers and time.Duration as Int, in nanoseconds; strings as String; booleans as Bool); a name
//	        `pkg.Name` denotes a constant of a package the site's file imports under the local name pkg.
//	struct  a package-level `var X = T{Field: constexpr, …}` composite literal: the listed fields, evaluated.
//	map     a package-level `var X = map[K]V{k: v, …}` (or keyed array `[N]V{i: v, …}`) literal with constant keys and
//	        values: a list of pairs, sorted by key.
//	literals every composite literal of a given type (as written: "http.Client") in the file or in one function: the list
//	        of its (field, value source text) pairs — to state that every constructor sets a field.
//	callargs the argument list of the first call in a function whose callee matches "start_re", each argument as
//	        `callee("CONST",…)`: the order in which e.g. environment option readers are applied.
//	boolfn  a function with a single bool result whose body is in the skel subset: every `return e` becomes the
//	        condition e; the definition has type Bool (e.g. a character-class predicate over rune comparisons).
//	litlist the unique `field: []T{c1, c2, …}` key-value pair inside a function whose elements are numeric constants
//	        (e.g. the default histogram boundaries): List Int, or List (Int × Int) = exact numerator/denominator.
//	skel    the decision skeleton of a function (or of the statements from a marked statement — "start": text prefix,
//	        "start_re": regular expression on the statement text, first ("start_nth": n-th) match in source order — to the end of its block;
//	        or, with "closure": true, of the body of the first function literal inside the function (or inside the
//	        initialiser of the package-level variable of that name); "until_re" cuts
//	        the skeleton — leaf "<cut>" — at the first statement matching it, e.g. a loop it cannot follow):
//	        if / else, switch (with or without tag), return; `continue` / `break` / `goto` become the leaves
//	        "<continue>", "<break>", "<goto>" (e.g. for a skeleton that starts inside a loop body).  Conditions are decomposed over && || ! and parentheses;
//	        a leaf must be (a) an expression whose source text is listed under "atoms" (it becomes a Bool parameter;
//	        with a trailing '#' in the configured name, one parameter per source occurrence: name1, name2, … — for
//	        re-reads of shared state such as the double check `if p.isShutdown.Load()` before and after Lock; `a == b`
//	        is understood as the negation of a configured atom `a != b` and vice versa),
//	        (b) a comparison of integer expressions built from literals, evaluated constants, + - * and the
//	        expressions listed under "ints" (Int parameters; Go's fixed-width integers become unbounded Int), or
//	        (c) a comparison ==/!= of a "strs" expression with a constant string.  A switch tag must be listed under
//	        "ints" or "strs"; its case labels are evaluated with go/types (http.StatusTooManyRequests -> 429).
//	        (d) a call `f(args)` of a package-level function of the same package with a single bool result is inlined
//	        when f's body is itself in this subset (every `return e` of f becomes the condition e; integer / string /
//	        bool parameters are bound to the translated arguments) — so a decision moved into a small helper
//	        (`if isRetryableStatus(resp.StatusCode) {…}`) stays translatable.
//	        Every return statement must match one of the "returns" regular expressions and is replaced by that tag;
//	        in a tag `\1`…`\9` stand for the text of the pattern's capture groups, `${1}` for the evaluated constant
//	        of the first result expression (enum mappings; strings unquoted), and `${v}` for the constant last assigned, on that path, to the local variable v listed under "track"
//	        (`switch x { case A: c = K1 … }; return &T{Code: c}`: assignments `v = const`, `v := const`, `var v T`
//	        are followed; any other assignment to a tracked variable is an error).
//	        "selects": a `select` statement becomes a choice made by the environment — one String parameter selectN per
//	        select statement of the function (source order) naming the communication that fires; each case's comm
//	        text must match a configured pattern, whose label also joins the path effects ("select:<label>"); if no
//	        label matches the parameter the leaf is "<blocked>".
//	        "marks": a skipped simple statement whose text matches a marks regexp contributes its label to every leaf
//	        reached after it on that path; such a site has type `String × List String` (tag, effects of the path in
//	        order), e.g. `("<end>", ["code", "desc", "set"])`; a label may mention `${v}` of a tracked variable.
//	        A mark is [pattern, label]; every mark must match a statement on at least one path (a pinned statement
//	        that vanished or was re-spelled is a translation error, not a silently shorter effects list) unless it is
//	        written [pattern, label, "optional"] (catch-all patterns such as "any other assignment to x").  Likewise
//	        a tracked variable must be assigned a constant on some path.
//	        Other statements are skipped only if they contain no return statement and do not assign to an identifier
//	        that occurs in an atom/int/str expression — unless their text matches one of the "allow" regexps.
//
// The output is deterministic Lean text in namespace Otel.Gen.<prop>.
package main

import (
	"bytes"
	"encoding/json"
	"flag"
	"fmt"
	"go/ast"
	"go/constant"
	"go/importer"
	"go/parser"
	"go/printer"
	"go/token"
	"go/types"
	"io"
	"os"
	"os/exec"
	"path/filepath"
	"regexp"
	"sort"
	"strings"
)

type Site struct {
	Kind     string      `json:"kind"`
	File     string      `json:"file"`
	Names    []string    `json:"names"`
	Prefix   string      `json:"prefix"`
	Func     string      `json:"func"`
	Start    string      `json:"start"`
	StartRe  string      `json:"start_re"`
	Closure  bool        `json:"closure"`
	UntilRe  string      `json:"until_re"`
	StartNth int         `json:"start_nth"`
	Name     string      `json:"name"`
	Atoms    [][2]string `json:"atoms"`
	Ints     [][2]string `json:"ints"`
	Strs     [][2]string `json:"strs"`
	Returns  [][2]string `json:"returns"`
	Allow    []string    `json:"allow"`
	Var      string      `json:"var"`
	Fields   []string    `json:"fields"`
	Field    string      `json:"field"`
	Type     string      `json:"type"`
	Track    []string    `json:"track"`
	Marks    [][]string  `json:"marks"`
	Selects  [][2]string `json:"selects"`
}

type PropCfg struct {
	Sites     []Site `json:"sites"`
	Gen       string `json:"gen"`
	TieModule string `json:"tie_module"`
}

var overlay = map[string]string{}

func die(f string, a ...any) {
	fmt.Fprintf(os.Stderr, "go2lean: "+f+"\n", a...)
	if scratch != "" {
		os.RemoveAll(scratch) // os.Exit skips deferred calls
	}
	os.Exit(1)
}

func readSrc(path string) ([]byte, error) {
	if o, ok := overlay[path]; ok {
		path = o
	}
	return os.ReadFile(path)
}

type pkgInfo struct {
	fset  *token.FileSet
	files map[string]*ast.File // abs path -> file
	info  *types.Info
	pkg   *types.Package
	errs  []string
}

var pkgs = map[string]*pkgInfo{}
var overlayFile string
var scratch string

func goEnv() []string {
	return append(os.Environ(), "GOFLAGS=-mod=mod", "GOPROXY=off", "GOSUMDB=off", "GOTOOLCHAIN=local")
}

func modRoot(dir string) string {
	d := dir
	for {
		if _, err := os.Stat(filepath.Join(d, "go.mod")); err == nil {
			return d
		}
		p := filepath.Dir(d)
		if p == d {
			return ""
		}
		d = p
	}
}

func loadPkg(dir string) *pkgInfo {
	if p, ok := pkgs[dir]; ok {
		return p
	}
	// go list: file set under the default build tags (and the overlay), export data of every dependency
	args := []string{"list", "-json=Dir,ImportPath,GoFiles,Export,DepOnly,Error", "-export", "-deps", "-e"}
	if mr := modRoot(dir); mr != "" {
		// never let -mod=mod write go.mod/go.sum inside the repository
		md := filepath.Join(scratch, fmt.Sprintf("mod%d", len(pkgs)))
		os.MkdirAll(md, 0o755)
		for _, f := range []string{"go.mod", "go.sum"} {
			if b, err := os.ReadFile(filepath.Join(mr, f)); err == nil {
				os.WriteFile(filepath.Join(md, f), b, 0o644)
			}
		}
		args = append(args, "-modfile="+filepath.Join(md, "go.mod"))
	}
	if overlayFile != "" {
		args = append(args, "-overlay="+overlayFile)
	}
	args = append(args, ".")
	cmd := exec.Command("go", args...)
	cmd.Dir = dir
	cmd.Env = goEnv()
	var stderr bytes.Buffer
	cmd.Stderr = &stderr
	out, err := cmd.Output()
	if err != nil && len(out) == 0 {
		die("go list in %s failed: %v\n%s", dir, err, stderr.String())
	}
	type lp struct {
		Dir, ImportPath, Export string
		GoFiles                 []string
		DepOnly                 bool
	}
	exports := map[string]string{}
	var root *lp
	dec := json.NewDecoder(bytes.NewReader(out))
	for {
		var p lp
		if err := dec.Decode(&p); err == io.EOF {
			break
		} else if err != nil {
			die("go list output: %v", err)
		}
		if p.Export != "" {
			exports[p.ImportPath] = p.Export
		}
		if !p.DepOnly {
			q := p
			root = &q
		}
	}
	if root == nil {
		die("go list found no package in %s\n%s", dir, stderr.String())
	}
	pi := &pkgInfo{fset: token.NewFileSet(), files: map[string]*ast.File{}}
	var files []*ast.File
	for _, f := range root.GoFiles {
		path := filepath.Join(root.Dir, f)
		src, err := readSrc(path)
		if err != nil {
			die("%v", err)
		}
		af, err := parser.ParseFile(pi.fset, path, src, parser.ParseComments)
		if err != nil {
			die("parse %s: %v", path, err)
		}
		pi.files[path] = af
		files = append(files, af)
	}
	lookup := func(path string) (io.ReadCloser, error) {
		e, ok := exports[path]
		if !ok {
			return nil, fmt.Errorf("no export data for %s", path)
		}
		return os.Open(e)
	}
	pi.info = &types.Info{Types: map[ast.Expr]types.TypeAndValue{}, Defs: map[*ast.Ident]types.Object{}, Uses: map[*ast.Ident]types.Object{}}
	conf := types.Config{Importer: importer.ForCompiler(pi.fset, "gc", lookup), Error: func(err error) { pi.errs = append(pi.errs, err.Error()) }}
	pi.pkg, _ = conf.Check(root.ImportPath, pi.fset, files, pi.info)
	if len(pi.errs) > 0 {
		// constants and identifier resolution cannot be trusted when the package does not type-check
		die("package %s does not type-check: %s", root.ImportPath, pi.errs[0])
	}
	pkgs[dir] = pi
	return pi
}

func (p *pkgInfo) text(n ast.Node) string {
	var b bytes.Buffer
	printer.Fprint(&b, p.fset, n)
	return strings.Join(strings.Fields(b.String()), " ")
}

// ---------------------------------------------------------------- values

func leanString(s string) string {
	var b strings.Builder
	b.WriteByte('"')
	for _, c := range []byte(s) {
		switch {
		case c == '"' || c == '\\':
			b.WriteByte('\\')
			b.WriteByte(c)
		case c >= 0x20 && c < 0x7f:
			b.WriteByte(c)
		default:
			fmt.Fprintf(&b, "\\x%02x", c)
		}
	}
	b.WriteByte('"')
	return b.String()
}

func leanInt(s string) string {
	if strings.HasPrefix(s, "-") {
		return "(" + s + ")"
	}
	return s
}

// leanValue renders an evaluated Go constant: (Lean type, Lean term)
func leanValue(v constant.Value, where string) (string, string) {
	switch v.Kind() {
	case constant.Int:
		return "Int", leanInt(v.ExactString())
	case constant.Bool:
		if constant.BoolVal(v) {
			return "Bool", "true"
		}
		return "Bool", "false"
	case constant.String:
		return "String", leanString(constant.StringVal(v))
	case constant.Float:
		// exact rational: numerator / denominator
		if iv := constant.ToInt(v); iv.Kind() == constant.Int {
			return "Int", leanInt(iv.ExactString())
		}
		n, d := constant.Num(v), constant.Denom(v)
		return "Int × Int", "(" + leanInt(n.ExactString()) + ", " + d.ExactString() + ")"
	}
	die("%s: constant of unsupported kind %v", where, v.Kind())
	return "", ""
}

func leanIdent(s string) string {
	s = strings.NewReplacer(".", "_", "-", "_").Replace(s)
	return s
}

// ---------------------------------------------------------------- const / struct

func genConst(p *pkgInfo, file *ast.File, s Site, out *strings.Builder) {
	for _, name := range s.Names {
		var obj types.Object
		if i := strings.Index(name, "."); i > 0 {
			// pkg.Name: a constant of a package imported by the site's file (local import name pkg)
			local, sel := name[:i], name[i+1:]
			for _, imp := range file.Imports {
				pth := strings.Trim(imp.Path.Value, `"`)
				for _, ip := range p.pkg.Imports() {
					if ip.Path() != pth {
						continue
					}
					ln := ip.Name()
					if imp.Name != nil {
						ln = imp.Name.Name
					}
					if ln == local {
						obj = ip.Scope().Lookup(sel)
					}
				}
			}
			if _, ok := obj.(*types.Const); !ok {
				die("%s: %s is not a constant of a package imported as %s", s.File, name, local)
			}
		} else {
			obj = p.pkg.Scope().Lookup(name)
		}
		if obj == nil {
			die("%s: no package-level object %s", s.File, name)
		}
		var val constant.Value
		switch o := obj.(type) {
		case *types.Const:
			val = o.Val()
		case *types.Var:
			// find the initialiser
			for _, f := range p.files {
				for _, d := range f.Decls {
					gd, ok := d.(*ast.GenDecl)
					if !ok || gd.Tok != token.VAR {
						continue
					}
					for _, sp := range gd.Specs {
						vs := sp.(*ast.ValueSpec)
						for i, id := range vs.Names {
							if id.Name == name && i < len(vs.Values) {
								if tv, ok := p.info.Types[vs.Values[i]]; ok && tv.Value != nil {
									val = tv.Value
								}
							}
						}
					}
				}
			}
			if val == nil {
				die("%s: variable %s has no constant initialiser", s.File, name)
			}
		default:
			die("%s: %s is not a constant or variable", s.File, name)
		}
		ty, tm := leanValue(val, s.File+":"+name)
		fmt.Fprintf(out, "/-- `%s` in %s (evaluated) -/\ndef %s%s : %s := %s\n\n", name, s.File, s.Prefix, leanIdent(name), ty, tm)
	}
}

func genStruct(p *pkgInfo, s Site, out *strings.Builder) {
	var lit *ast.CompositeLit
	for _, f := range p.files {
		for _, d := range f.Decls {
			gd, ok := d.(*ast.GenDecl)
			if !ok || gd.Tok != token.VAR {
				continue
			}
			for _, sp := range gd.Specs {
				vs := sp.(*ast.ValueSpec)
				for i, id := range vs.Names {
					if id.Name == s.Var && i < len(vs.Values) {
						if cl, ok := vs.Values[i].(*ast.CompositeLit); ok {
							lit = cl
						}
					}
				}
			}
		}
	}
	if lit == nil {
		die("%s: no `var %s = T{…}` composite literal", s.File, s.Var)
	}
	got := map[string]ast.Expr{}
	for _, e := range lit.Elts {
		kv, ok := e.(*ast.KeyValueExpr)
		if !ok {
			die("%s: %s: positional composite literal not supported", s.File, s.Var)
		}
		got[p.text(kv.Key)] = kv.Value
	}
	for _, fld := range s.Fields {
		e, ok := got[fld]
		if !ok {
			die("%s: %s has no field %s in its literal (zero value fields must be written explicitly in the config as absent)", s.File, s.Var, fld)
		}
		tv, ok := p.info.Types[e]
		if !ok || tv.Value == nil {
			die("%s: %s.%s is not a constant expression: %s", s.File, s.Var, fld, p.text(e))
		}
		ty, tm := leanValue(tv.Value, s.File+":"+s.Var+"."+fld)
		fmt.Fprintf(out, "/-- field `%s` of `%s` in %s (evaluated) -/\ndef %s%s_%s : %s := %s\n\n", fld, s.Var, s.File, s.Prefix, leanIdent(s.Var), leanIdent(fld), ty, tm)
	}
	// fields present in the literal but not configured are reported so that a new field is noticed
	var extra []string
	for k := range got {
		found := false
		for _, f := range s.Fields {
			if f == k {
				found = true
			}
		}
		if !found {
			extra = append(extra, k)
		}
	}
	sort.Strings(extra)
	fmt.Fprintf(out, "/-- fields of `%s` set in the literal but not translated -/\ndef %s%s_otherFields : List String := [%s]\n\n", s.Var, s.Prefix, leanIdent(s.Var), quoteList(extra))
}

// genLitList: the unique `Field: []T{c1, c2, …}` key-value pair inside function s.Func whose elements are numeric
// constants: emitted as `List Int` (all elements integral) or `List (Int × Int)` (exact numerator/denominator).
func genLitList(p *pkgInfo, file *ast.File, s Site, out *strings.Builder) {
	fd := findFunc(p, file, s.Func)
	if fd == nil {
		die("%s: no function %s", s.File, s.Func)
	}
	var lits []*ast.CompositeLit
	ast.Inspect(fd.Body, func(n ast.Node) bool {
		if kv, ok := n.(*ast.KeyValueExpr); ok && p.text(kv.Key) == s.Field {
			if cl, ok := kv.Value.(*ast.CompositeLit); ok {
				lits = append(lits, cl)
			}
		}
		return true
	})
	if len(lits) != 1 {
		die("%s: function %s has %d composite literals under the key %s (need exactly one)", s.File, s.Func, len(lits), s.Field)
	}
	var vals []constant.Value
	allInt := true
	for _, e := range lits[0].Elts {
		tv, ok := p.info.Types[e]
		if !ok || tv.Value == nil || (tv.Value.Kind() != constant.Int && tv.Value.Kind() != constant.Float) {
			die("%s: %s: element `%s` of %s is not a numeric constant", s.File, s.Func, p.text(e), s.Field)
		}
		if constant.ToInt(tv.Value).Kind() != constant.Int {
			allInt = false
		}
		vals = append(vals, tv.Value)
	}
	var items []string
	for _, v := range vals {
		if allInt {
			items = append(items, leanInt(constant.ToInt(v).ExactString()))
		} else {
			items = append(items, "("+leanInt(constant.Num(v).ExactString())+", "+constant.Denom(v).ExactString()+")")
		}
	}
	ty := "List Int"
	if !allInt {
		ty = "List (Int × Int)"
	}
	fmt.Fprintf(out, "/-- the elements of the literal `%s: …{…}` in `%s`, %s (evaluated, exact) -/\ndef %s : %s := [%s]\n\n", s.Field, s.Func, s.File, s.Name, ty, strings.Join(items, ", "))
}

// genMap: a package-level `var X = map[K]V{k1: v1, …}` whose keys and values are constants: emitted as a list of
// (key, value) pairs sorted by the rendered key (a map literal has no order); duplicate keys are a compile error in Go.
func genMap(p *pkgInfo, s Site, out *strings.Builder) {
	var lit *ast.CompositeLit
	for _, f := range p.files {
		for _, d := range f.Decls {
			gd, ok := d.(*ast.GenDecl)
			if !ok || gd.Tok != token.VAR {
				continue
			}
			for _, sp := range gd.Specs {
				vs := sp.(*ast.ValueSpec)
				for i, id := range vs.Names {
					if id.Name == s.Var && i < len(vs.Values) {
						if cl, ok := vs.Values[i].(*ast.CompositeLit); ok {
							lit = cl
						}
					}
				}
			}
		}
	}
	if lit == nil {
		die("%s: no `var %s = map[K]V{…}` composite literal", s.File, s.Var)
	}
	if tv, ok := p.info.Types[lit]; !ok || tv.Type == nil {
		die("%s: %s: untyped literal", s.File, s.Var)
	} else {
		switch tv.Type.Underlying().(type) {
		case *types.Map, *types.Array, *types.Slice: // `[N]T{k: v, …}` with explicit indices is a finite map too
		default:
			die("%s: %s is not a map (or keyed array) literal", s.File, s.Var)
		}
	}
	type kv struct{ k, v string }
	var kvs []kv
	kty, vty := "", ""
	for _, e := range lit.Elts {
		pair, ok := e.(*ast.KeyValueExpr)
		if !ok {
			die("%s: %s: element `%s` is not key: value", s.File, s.Var, p.text(e))
		}
		ktv, ok1 := p.info.Types[pair.Key]
		vtv, ok2 := p.info.Types[pair.Value]
		if !ok1 || !ok2 || ktv.Value == nil || vtv.Value == nil {
			die("%s: %s: `%s` is not a constant key/value pair", s.File, s.Var, p.text(e))
		}
		kt, ks := leanValue(ktv.Value, s.File+":"+s.Var)
		vt, vstr := leanValue(vtv.Value, s.File+":"+s.Var)
		if (kty != "" && kt != kty) || (vty != "" && vt != vty) {
			die("%s: %s: mixed key or value kinds", s.File, s.Var)
		}
		kty, vty = kt, vt
		kvs = append(kvs, kv{ks, vstr})
	}
	if len(kvs) == 0 {
		kty, vty = "String", "Int"
	}
	sort.Slice(kvs, func(i, j int) bool { return kvs[i].k < kvs[j].k })
	var items []string
	for _, x := range kvs {
		items = append(items, "("+x.k+", "+x.v+")")
	}
	fmt.Fprintf(out, "/-- the map literal `%s` in %s (keys and values evaluated; sorted by key) -/\ndef %s%s : List (%s × %s) := [%s]\n\n",
		s.Var, s.File, s.Prefix, leanIdent(s.Var), kty, vty, strings.Join(items, ", "))
}

// genLiterals: every composite literal of the type written s.Type (e.g. "http.Client", "client") in the file — or in
// the function s.Func if given — as the list of its (field, value source text) pairs, in source order.  At least one
// literal must exist.  Used to state "every place that constructs a T sets field F".
func genLiterals(p *pkgInfo, file *ast.File, s Site, out *strings.Builder) {
	var root ast.Node = file
	if s.Func != "" {
		fd := findFunc(p, file, s.Func)
		if fd == nil {
			die("%s: no function %s", s.File, s.Func)
		}
		root = fd
	}
	var lits []string
	ast.Inspect(root, func(n ast.Node) bool {
		cl, ok := n.(*ast.CompositeLit)
		if !ok || cl.Type == nil || p.text(cl.Type) != s.Type {
			return true
		}
		var kvs []string
		for _, e := range cl.Elts {
			kv, ok := e.(*ast.KeyValueExpr)
			if !ok {
				// positional element (slice / array literal): the key is its index
				kvs = append(kvs, "("+leanString(fmt.Sprint(len(kvs)))+", "+leanString(p.text(e))+")")
				continue
			}
			kvs = append(kvs, "("+leanString(p.text(kv.Key))+", "+leanString(p.text(kv.Value))+")")
		}
		lits = append(lits, "["+strings.Join(kvs, ", ")+"]")
		return true
	})
	if len(lits) == 0 {
		die("%s: no composite literal of type %s (site %s)", s.File, s.Type, s.Name)
	}
	fmt.Fprintf(out, "/-- every composite literal `%s{…}` in %s %s: its (field, value text) pairs, in source order -/\ndef %s : List (List (String × String)) :=\n  [%s]\n\n",
		s.Type, s.File, s.Func, s.Name, strings.Join(lits, ",\n   "))
}

// genCallArgs: the argument list of the first call in function s.Func whose callee text matches s.StartRe, each
// argument rendered as `callee("CONST", …)` (callee text plus its constant string arguments) or, if it is not a call,
// as its source text: the ORDER in which e.g. environment readers are applied.
func genCallArgs(p *pkgInfo, file *ast.File, s Site, out *strings.Builder) {
	fd := findFunc(p, file, s.Func)
	if fd == nil {
		die("%s: no function %s", s.File, s.Func)
	}
	re := regexp.MustCompile(s.StartRe)
	var call *ast.CallExpr
	ast.Inspect(fd.Body, func(n ast.Node) bool {
		if c, ok := n.(*ast.CallExpr); ok && call == nil && re.MatchString(p.text(c.Fun)) {
			call = c
		}
		return call == nil
	})
	if call == nil {
		die("%s: function %s contains no call of /%s/", s.File, s.Func, s.StartRe)
	}
	var items []string
	for _, a := range call.Args {
		if c, ok := a.(*ast.CallExpr); ok {
			var strs []string
			for _, x := range c.Args {
				if tv, ok := p.info.Types[x]; ok && tv.Value != nil && tv.Value.Kind() == constant.String {
					strs = append(strs, constant.StringVal(tv.Value))
				}
			}
			items = append(items, leanString(p.text(c.Fun)+"("+strings.Join(strs, ",")+")"))
		} else {
			items = append(items, leanString(p.text(a)))
		}
	}
	fmt.Fprintf(out, "/-- the arguments of the call `%s(…)` in `%s`, %s, in order (callee and constant string arguments) -/\ndef %s : List String :=\n  [%s]\n\n",
		p.text(call.Fun), s.Func, s.File, s.Name, strings.Join(items, ", "))
}

func quoteList(xs []string) string {
	var q []string
	for _, x := range xs {
		q = append(q, leanString(x))
	}
	return strings.Join(q, ", ")
}

// ---------------------------------------------------------------- skeleton

type skel struct {
	p       *pkgInfo
	s       Site
	atoms   map[string]string
	ints    map[string]string
	strs    map[string]string
	rets    []*regexp.Regexp
	allow   []*regexp.Regexp
	guarded map[string]bool // identifiers occurring in atom/int/str expressions
	where   string
	selIdx  map[token.Pos]string // select statements: the String parameter that names the communication that fires
	selRe   []*regexp.Regexp
	until   *regexp.Regexp       // "until_re": translation stops (leaf "<cut>") at the first statement matching it
	occ     map[token.Pos]string // atoms configured with a trailing '#': one Bool parameter per source occurrence
	marks   []*regexp.Regexp
	markHit []bool            // marks matched by at least one statement on some translated path
	trkSeen map[string]bool   // tracked variables assigned on some translated path
	path    []string          // labels of the "marks" statements passed on the current path
	env     map[string]string // tracked local variables ("track"): the constant last assigned on the current path
	boolRet bool              // translating the body of an inlined Boolean helper: `return e` becomes the condition e
	depth   int               // inlining depth
}

func (k *skel) fail(n ast.Node, f string, a ...any) {
	pos := k.p.fset.Position(n.Pos())
	die("%s:%d (site %s): %s", k.s.File, pos.Line, k.s.Name, fmt.Sprintf(f, a...))
}

func (k *skel) intExpr(e ast.Expr) (string, bool) {
	t := k.p.text(e)
	if n, ok := k.ints[t]; ok {
		return n, true
	}
	if tv, ok := k.p.info.Types[e]; ok && tv.Value != nil && tv.Value.Kind() == constant.Int {
		return leanInt(tv.Value.ExactString()), true
	}
	switch x := e.(type) {
	case *ast.ParenExpr:
		return k.intExpr(x.X)
	case *ast.BinaryExpr:
		var op string
		switch x.Op {
		case token.ADD:
			op = "+"
		case token.SUB:
			op = "-"
		case token.MUL:
			op = "*"
		default:
			return "", false
		}
		a, ok1 := k.intExpr(x.X)
		b, ok2 := k.intExpr(x.Y)
		if ok1 && ok2 {
			return "(" + a + " " + op + " " + b + ")", true
		}
	case *ast.CallExpr:
		// conversion T(x) to an integer type: identity on unbounded Int
		if len(x.Args) == 1 {
			if tv, ok := k.p.info.Types[x.Fun]; ok && tv.IsType() {
				if b, ok := tv.Type.Underlying().(*types.Basic); ok && b.Info()&types.IsInteger != 0 {
					return k.intExpr(x.Args[0])
				}
			}
		}
	}
	return "", false
}

func (k *skel) cond(e ast.Expr) string {
	t := k.p.text(e)
	if n, ok := k.occ[e.Pos()]; ok {
		return n
	}
	if n, ok := k.atoms[t]; ok {
		return n
	}
	switch x := e.(type) {
	case *ast.ParenExpr:
		return k.cond(x.X)
	case *ast.UnaryExpr:
		if x.Op == token.NOT {
			return "(!" + k.cond(x.X) + ")"
		}
	case *ast.BinaryExpr:
		switch x.Op {
		case token.LAND:
			return "(" + k.cond(x.X) + " && " + k.cond(x.Y) + ")"
		case token.LOR:
			return "(" + k.cond(x.X) + " || " + k.cond(x.Y) + ")"
		case token.EQL, token.NEQ, token.LSS, token.LEQ, token.GTR, token.GEQ:
			// `a == b` where the atom `a != b` is configured (or vice versa): its negation
			if x.Op == token.EQL || x.Op == token.NEQ {
				other := " != "
				if x.Op == token.NEQ {
					other = " == "
				}
				same := " == "
				if x.Op == token.NEQ {
					same = " != "
				}
				// `b == a` for a configured atom `a == b`
				if n, ok := k.atoms[k.p.text(x.Y)+same+k.p.text(x.X)]; ok {
					return n
				}
				for _, pr := range [][2]ast.Expr{{x.X, x.Y}, {x.Y, x.X}} {
					if n, ok := k.atoms[k.p.text(pr[0])+other+k.p.text(pr[1])]; ok {
						return "(!" + n + ")"
					}
				}
			}
			// strings
			if x.Op == token.EQL || x.Op == token.NEQ {
				for _, pr := range [][2]ast.Expr{{x.X, x.Y}, {x.Y, x.X}} {
					if n, ok := k.strs[k.p.text(pr[0])]; ok {
						if tv, ok := k.p.info.Types[pr[1]]; ok && tv.Value != nil && tv.Value.Kind() == constant.String {
							c := "(" + n + " == " + leanString(constant.StringVal(tv.Value)) + ")"
							if x.Op == token.NEQ {
								c = "(!" + c + ")"
							}
							return c
						}
					}
				}
			}
			a, ok1 := k.intExpr(x.X)
			b, ok2 := k.intExpr(x.Y)
			if ok1 && ok2 {
				op := map[token.Token]string{token.EQL: "=", token.NEQ: "≠", token.LSS: "<", token.LEQ: "≤", token.GTR: ">", token.GEQ: "≥"}[x.Op]
				return "decide (" + a + " " + op + " " + b + ")"
			}
		}
	}
	if tv, ok := k.p.info.Types[e]; ok && tv.Value != nil && tv.Value.Kind() == constant.Bool {
		if constant.BoolVal(tv.Value) {
			return "true"
		}
		return "false"
	}
	if call, ok := e.(*ast.CallExpr); ok {
		if c, ok := k.inlineCall(call); ok {
			return c
		}
	}
	k.fail(e, "condition `%s` is neither a configured atom nor an integer/string comparison over configured expressions", t)
	return ""
}

// inlineCall translates a condition `f(args)` where f is a package-level function of the same package with a single
// bool result whose body is itself a translatable skeleton over its parameters: every `return e` of f becomes the
// condition e, the parameters are bound to the translations of the arguments (integer parameters to integer
// expressions, string parameters to configured "strs" expressions, bool parameters to conditions).
func (k *skel) inlineCall(call *ast.CallExpr) (string, bool) {
	id, ok := call.Fun.(*ast.Ident)
	if !ok || k.depth >= 3 {
		return "", false
	}
	fn, ok := k.p.info.Uses[id].(*types.Func)
	if !ok || fn.Pkg() != k.p.pkg {
		return "", false
	}
	sig := fn.Type().(*types.Signature)
	if sig.Recv() != nil || sig.Variadic() || sig.Results().Len() != 1 {
		return "", false
	}
	if b, ok := sig.Results().At(0).Type().Underlying().(*types.Basic); !ok || b.Kind() != types.Bool {
		return "", false
	}
	var decl *ast.FuncDecl
	for _, f := range k.p.files {
		for _, d := range f.Decls {
			if fd, ok := d.(*ast.FuncDecl); ok && fd.Recv == nil && fd.Body != nil && fd.Name.Name == id.Name {
				decl = fd
			}
		}
	}
	if decl == nil || sig.Params().Len() != len(call.Args) {
		return "", false
	}
	c := &skel{p: k.p, s: k.s, atoms: map[string]string{}, ints: map[string]string{}, strs: map[string]string{},
		guarded: map[string]bool{}, env: map[string]string{}, trkSeen: map[string]bool{}, boolRet: true, depth: k.depth + 1}
	for i := 0; i < sig.Params().Len(); i++ {
		pv := sig.Params().At(i)
		name, arg := pv.Name(), call.Args[i]
		if name == "" || name == "_" {
			continue
		}
		b, _ := pv.Type().Underlying().(*types.Basic)
		switch {
		case b != nil && b.Info()&types.IsInteger != 0:
			t, ok := k.intExpr(arg)
			if !ok {
				k.fail(arg, "argument `%s` of the inlined helper %s is not a translatable integer expression", k.p.text(arg), id.Name)
			}
			c.ints[name] = t
		case b != nil && b.Info()&types.IsString != 0:
			t, ok := k.strs[k.p.text(arg)]
			if !ok {
				k.fail(arg, "argument `%s` of the inlined helper %s is not a configured string expression", k.p.text(arg), id.Name)
			}
			c.strs[name] = t
		case b != nil && b.Kind() == types.Bool:
			c.atoms[name] = k.cond(arg)
		default:
			k.fail(arg, "parameter %s of the inlined helper %s has a type the translator does not handle", name, id.Name)
		}
		c.guarded[name] = true
	}
	return "(" + c.block(decl.Body.List, nil, "      ") + ")", true
}

// leaf renders a leaf: the tag, or — when the site configures "marks" — the pair (tag, labels of the marked
// statements executed on the path to it, in order)
func (k *skel) leaf(tag string) string {
	if (len(k.s.Marks) == 0 && len(k.s.Selects) == 0) || k.boolRet {
		return leanString(tag)
	}
	return "(" + leanString(tag) + ", [" + quoteList(k.path) + "])"
}

func (k *skel) ret(r *ast.ReturnStmt) string {
	if k.boolRet {
		if len(r.Results) != 1 {
			k.fail(r, "inlined Boolean helper: `%s` does not return exactly one expression", k.p.text(r))
		}
		return k.cond(r.Results[0])
	}
	t := k.p.text(r)
	for i, re := range k.rets {
		if re.MatchString(t) {
			tag := k.s.Returns[i][1]
			if sm := re.FindStringSubmatch(t); len(sm) > 1 {
				// `\1` … `\9` in a tag: the text matched by that capture group of the return pattern
				for g := 1; g < len(sm) && g <= 9; g++ {
					tag = strings.ReplaceAll(tag, fmt.Sprintf("\\%d", g), sm[g])
				}
			}
			if strings.Contains(tag, "${1}") {
				// the evaluated constant of the first result expression
				if len(r.Results) == 0 {
					k.fail(r, "`%s` has no result to evaluate for ${1}", t)
				}
				tv, ok := k.p.info.Types[r.Results[0]]
				if !ok || tv.Value == nil {
					k.fail(r, "first result of `%s` is not a constant (needed for ${1})", t)
				}
				val := tv.Value.ExactString()
				if tv.Value.Kind() == constant.String {
					val = constant.StringVal(tv.Value)
				}
				tag = strings.ReplaceAll(tag, "${1}", val)
			}
			for _, v := range k.s.Track {
				if strings.Contains(tag, "${"+v+"}") {
					val, ok := k.env[v]
					if !ok {
						k.fail(r, "tracked variable %s has no known constant value at `%s`", v, t)
					}
					tag = strings.ReplaceAll(tag, "${"+v+"}", val)
				}
			}
			return k.leaf(tag)
		}
	}
	k.fail(r, "return statement `%s` matches none of the configured return patterns", t)
	return ""
}

func containsReturn(n ast.Node) bool {
	found := false
	ast.Inspect(n, func(m ast.Node) bool {
		switch m.(type) {
		case *ast.FuncLit:
			return false
		case *ast.ReturnStmt:
			found = true
		}
		return !found
	})
	return found
}

func (k *skel) assignsGuarded(st ast.Stmt) string {
	hit := ""
	ast.Inspect(st, func(m ast.Node) bool {
		switch x := m.(type) {
		case *ast.FuncLit:
			return false
		case *ast.AssignStmt:
			for _, l := range x.Lhs {
				if id, ok := l.(*ast.Ident); ok && k.guarded[id.Name] {
					hit = id.Name
				}
			}
		case *ast.IncDecStmt:
			if id, ok := x.X.(*ast.Ident); ok && k.guarded[id.Name] {
				hit = id.Name
			}
		case *ast.ValueSpec:
			for _, id := range x.Names {
				if k.guarded[id.Name] {
					hit = id.Name
				}
			}
		}
		return true
	})
	return hit
}

// block translates a statement list followed by the continuation `rest` (statements of the enclosing blocks).
// tail is the Lean term used when control falls off the end of everything.
func (k *skel) block(stmts []ast.Stmt, rest [][]ast.Stmt, ind string) string {
	if len(stmts) == 0 {
		if len(rest) == 0 {
			if k.boolRet {
				die("site %s: control reaches the end of an inlined Boolean helper", k.s.Name)
			}
			return k.leaf("<end>")
		}
		return k.block(rest[0], rest[1:], ind)
	}
	st, after := stmts[0], stmts[1:]
	if k.until != nil && k.until.MatchString(k.p.text(st)) {
		return k.leaf("<cut>")
	}
	cont := append([][]ast.Stmt{after}, rest...)
	if name, val, ok := k.trackedAssign(st); ok {
		k.trkSeen[name] = true
		old, had := k.env[name]
		k.env[name] = val
		r := k.block(after, rest, ind)
		if had {
			k.env[name] = old
		} else {
			delete(k.env, name)
		}
		return r
	}
	switch x := st.(type) {
	case *ast.ReturnStmt:
		return k.ret(x)
	case *ast.BranchStmt:
		// break / continue / goto leave the translated statement list: a leaf of their own (never skipped)
		if k.boolRet {
			k.fail(x, "`%s` inside an inlined Boolean helper", x.Tok)
		}
		return k.leaf("<" + x.Tok.String() + ">")
	case *ast.BlockStmt:
		return k.block(x.List, cont, ind)
	case *ast.SelectStmt:
		// the environment chooses: a String parameter names the communication that fires (labels from "selects");
		// no configured label fires => "<blocked>"
		par, ok := k.selIdx[x.Pos()]
		if !ok {
			k.fail(x, "select statement outside the pre-scanned function body")
		}
		var b strings.Builder
		for _, cs := range x.Body.List {
			cc := cs.(*ast.CommClause)
			ct := "default"
			if cc.Comm != nil {
				ct = k.p.text(cc.Comm)
			}
			label := ""
			for i, re := range k.selRe {
				if re.MatchString(ct) {
					label = k.s.Selects[i][1]
					break
				}
			}
			if label == "" {
				k.fail(cc, "select case `%s` matches none of the configured \"selects\" patterns", ct)
			}
			body := cc.Body
			if n := len(body); n > 0 {
				if br, ok := body[n-1].(*ast.BranchStmt); ok && br.Tok == token.BREAK && br.Label == nil {
					body = body[:n-1]
				}
			}
			for _, st2 := range body {
				ast.Inspect(st2, func(m ast.Node) bool {
					if _, ok := m.(*ast.FuncLit); ok {
						return false
					}
					if br, ok := m.(*ast.BranchStmt); ok && br.Tok == token.BREAK {
						k.fail(br, "`break` inside a select clause is not supported")
					}
					return true
				})
			}
			k.path = append(k.path, "select:"+label)
			arm := k.block(body, cont, ind+"  ")
			k.path = k.path[:len(k.path)-1]
			b.WriteString("if (" + par + " == " + leanString(label) + ") then\n" + ind + "  " + arm + "\n" + ind + "else ")
		}
		b.WriteString("\n" + ind + "  " + k.leaf("<blocked>"))
		return b.String()
	case *ast.IfStmt:
		pre := ""
		if x.Init != nil {
			if !k.skippable(x.Init) {
				k.fail(x.Init, "if-initialiser `%s` assigns to `%s`, which a configured condition reads", k.p.text(x.Init), k.assignsGuarded(x.Init))
			}
			// `if sc := e; cond(sc)`: only supported when the condition can be expressed without the new name,
			// or the name is itself configured (text match) — handled by cond()
		}
		c := k.cond(x.Cond)
		th := k.block(x.Body.List, cont, ind+"  ")
		var el string
		switch e := x.Else.(type) {
		case nil:
			el = k.block(nil, cont, ind+"  ")
		case *ast.BlockStmt:
			el = k.block(e.List, cont, ind+"  ")
		case *ast.IfStmt:
			el = k.block([]ast.Stmt{e}, cont, ind+"  ")
		}
		return pre + "if " + c + " then\n" + ind + "  " + th + "\n" + ind + "else\n" + ind + "  " + el
	case *ast.SwitchStmt:
		if x.Init != nil && !k.skippable(x.Init) {
			k.fail(x.Init, "switch initialiser assigns to a guarded name")
		}
		var tagName string
		tagIsStr := false
		if x.Tag != nil {
			tt := k.p.text(x.Tag)
			if n, ok := k.ints[tt]; ok {
				tagName = n
			} else if n, ok := k.strs[tt]; ok {
				tagName, tagIsStr = n, true
			} else {
				k.fail(x.Tag, "switch tag `%s` is not a configured int/str expression", tt)
			}
		}
		type arm struct{ c, body string }
		var arms []arm
		var deflt *ast.CaseClause
		for _, cs := range x.Body.List {
			cc := cs.(*ast.CaseClause)
			body := cc.Body
			if n := len(body); n > 0 {
				if br, ok := body[n-1].(*ast.BranchStmt); ok {
					if br.Tok == token.BREAK && br.Label == nil {
						body = body[:n-1]
					} else if br.Tok == token.BREAK || br.Tok == token.FALLTHROUGH {
						k.fail(br, "`%s` in a switch clause is not supported", br.Tok)
					}
					// continue / goto leave the switch AND the translated list: ordinary leaves
				}
			}
			for _, b := range body {
				ast.Inspect(b, func(m ast.Node) bool {
					if _, ok := m.(*ast.FuncLit); ok {
						return false
					}
					if br, ok := m.(*ast.BranchStmt); ok && (br.Tok == token.BREAK || br.Tok == token.FALLTHROUGH) {
						k.fail(br, "`%s` inside a switch clause is not supported", br.Tok)
					}
					return true
				})
			}
			if cc.List == nil {
				c2 := *cc
				c2.Body = body
				deflt = &c2
				continue
			}
			var cs2 []string
			for _, e := range cc.List {
				if x.Tag == nil {
					cs2 = append(cs2, k.cond(e))
					continue
				}
				tv, ok := k.p.info.Types[e]
				if !ok || tv.Value == nil {
					k.fail(e, "case label `%s` is not a constant", k.p.text(e))
				}
				if tagIsStr {
					if tv.Value.Kind() != constant.String {
						k.fail(e, "case label `%s` is not a string constant", k.p.text(e))
					}
					cs2 = append(cs2, "("+tagName+" == "+leanString(constant.StringVal(tv.Value))+")")
				} else {
					if tv.Value.Kind() != constant.Int {
						k.fail(e, "case label `%s` is not an integer constant", k.p.text(e))
					}
					cs2 = append(cs2, "("+tagName+" == "+leanInt(tv.Value.ExactString())+")")
				}
			}
			arms = append(arms, arm{strings.Join(cs2, " || "), k.block(body, cont, ind+"  ")})
		}
		var tail string
		if deflt != nil {
			tail = k.block(deflt.Body, cont, ind+"  ")
		} else {
			tail = k.block(nil, cont, ind+"  ")
		}
		var b strings.Builder
		for _, a := range arms {
			b.WriteString("if " + a.c + " then\n" + ind + "  " + a.body + "\n" + ind + "else ")
		}
		if len(arms) > 0 {
			b.WriteString("\n" + ind + "  ")
		}
		b.WriteString(tail)
		return b.String()
	default:
		if !k.skippable(st) {
			if containsReturn(st) {
				k.fail(st, "statement `%.80s…` contains a return inside a construct the translator does not follow", k.p.text(st))
			}
			k.fail(st, "statement `%.120s` assigns to `%s`, which a configured condition reads (add an `allow` pattern if it is the definition the condition refers to)", k.p.text(st), k.assignsGuarded(st))
		}
		for i, re := range k.marks {
			if re.MatchString(k.p.text(st)) {
				k.markHit[i] = true
				label := k.s.Marks[i][1]
				for _, v := range k.s.Track {
					if strings.Contains(label, "${"+v+"}") {
						val, ok := k.env[v]
						if !ok {
							k.fail(st, "tracked variable %s has no known constant value at the marked statement", v)
						}
						label = strings.ReplaceAll(label, "${"+v+"}", val)
					}
				}
				k.path = append(k.path, label)
				r := k.block(after, rest, ind)
				k.path = k.path[:len(k.path)-1]
				return r
			}
		}
		return k.block(after, rest, ind)
	}
}

// trackedAssign recognises `v = const`, `v := const` and `var v T` (zero value, rendered "0"/"false"/"") for a
// variable listed under "track"; any other statement that assigns to a tracked variable is rejected by skippable
// (tracked variables are guarded).
func (k *skel) trackedAssign(st ast.Stmt) (string, string, bool) {
	isTracked := func(n string) bool {
		for _, v := range k.s.Track {
			if v == n {
				return true
			}
		}
		return false
	}
	switch x := st.(type) {
	case *ast.AssignStmt:
		if len(x.Lhs) == 1 && len(x.Rhs) == 1 && (x.Tok == token.ASSIGN || x.Tok == token.DEFINE) {
			if id, ok := x.Lhs[0].(*ast.Ident); ok && isTracked(id.Name) {
				tv, ok := k.p.info.Types[x.Rhs[0]]
				if !ok || tv.Value == nil {
					k.fail(st, "tracked variable %s is assigned the non-constant `%s`", id.Name, k.p.text(x.Rhs[0]))
				}
				if tv.Value.Kind() == constant.String {
					return id.Name, constant.StringVal(tv.Value), true
				}
				return id.Name, tv.Value.ExactString(), true
			}
		}
	case *ast.DeclStmt:
		if gd, ok := x.Decl.(*ast.GenDecl); ok && gd.Tok == token.VAR && len(gd.Specs) == 1 {
			vs := gd.Specs[0].(*ast.ValueSpec)
			if len(vs.Names) == 1 && len(vs.Values) == 0 && isTracked(vs.Names[0].Name) {
				zero := "0"
				if obj := k.p.info.Defs[vs.Names[0]]; obj != nil {
					if b, ok := obj.Type().Underlying().(*types.Basic); ok {
						switch {
						case b.Info()&types.IsString != 0:
							zero = ""
						case b.Info()&types.IsBoolean != 0:
							zero = "false"
						case b.Info()&types.IsNumeric == 0:
							k.fail(st, "tracked variable %s has a type without a constant zero value", vs.Names[0].Name)
						}
					} else {
						k.fail(st, "tracked variable %s has a type without a constant zero value", vs.Names[0].Name)
					}
				}
				return vs.Names[0].Name, zero, true
			}
		}
	}
	return "", "", false
}

func (k *skel) skippable(st ast.Stmt) bool {
	if containsReturn(st) {
		return false
	}
	if k.assignsGuarded(st) == "" {
		return true
	}
	t := k.p.text(st)
	for _, re := range k.allow {
		if re.MatchString(t) {
			return true
		}
	}
	return false
}

func findFunc(p *pkgInfo, file *ast.File, name string) *ast.FuncDecl {
	for _, d := range file.Decls {
		fd, ok := d.(*ast.FuncDecl)
		if !ok || fd.Body == nil {
			continue
		}
		n := fd.Name.Name
		if fd.Recv != nil && len(fd.Recv.List) == 1 {
			t := fd.Recv.List[0].Type
			if st, ok := t.(*ast.StarExpr); ok {
				t = st.X
			}
			if ix, ok := t.(*ast.IndexExpr); ok {
				t = ix.X
			}
			if ix, ok := t.(*ast.IndexListExpr); ok {
				t = ix.X
			}
			if id, ok := t.(*ast.Ident); ok {
				n = id.Name + "." + n
			}
		}
		if n == name {
			return fd
		}
	}
	return nil
}

func genSkel(p *pkgInfo, file *ast.File, s Site, out *strings.Builder) {
	fd := findFunc(p, file, s.Func)
	if fd == nil && s.Closure {
		// `var X = f(…, func(…) {…})`: the function literal inside the initialiser of the package-level variable X
		for _, d := range file.Decls {
			gd, ok := d.(*ast.GenDecl)
			if !ok || gd.Tok != token.VAR {
				continue
			}
			for _, sp := range gd.Specs {
				vs := sp.(*ast.ValueSpec)
				for i, id := range vs.Names {
					if id.Name == s.Func && i < len(vs.Values) {
						fd = &ast.FuncDecl{Name: id, Body: &ast.BlockStmt{List: []ast.Stmt{&ast.ExprStmt{X: vs.Values[i]}}}}
					}
				}
			}
		}
	}
	if fd == nil {
		die("%s: no function %s", s.File, s.Func)
	}
	k := &skel{p: p, s: s, atoms: map[string]string{}, ints: map[string]string{}, strs: map[string]string{}, guarded: map[string]bool{}, env: map[string]string{}}
	for _, v := range s.Track {
		k.guarded[v] = true
	}
	k.boolRet = s.Kind == "boolfn"
	var params []string
	addGuard := func(expr string) {
		e, err := parser.ParseExpr(expr)
		if err != nil {
			die("site %s: cannot parse configured expression %q: %v", s.Name, expr, err)
		}
		// only the root of a selector chain is a variable (a.b.c -> a), never the field / method names
		var guardExpr func(n ast.Node)
		guardExpr = func(n ast.Node) {
			ast.Inspect(n, func(m ast.Node) bool {
				if se, ok := m.(*ast.SelectorExpr); ok {
					root := se.X
					for {
						inner, ok := root.(*ast.SelectorExpr)
						if !ok {
							break
						}
						root = inner.X
					}
					guardExpr(root)
					return false
				}
				if id, ok := m.(*ast.Ident); ok {
					k.guarded[id.Name] = true
				}
				return true
			})
		}
		guardExpr(e)
	}
	norm := func(s string) string { return strings.Join(strings.Fields(s), " ") }
	for _, a := range s.Atoms {
		addGuard(a[0])
		if strings.HasSuffix(a[1], "#") {
			// one parameter per occurrence, numbered in source order (a re-read of shared state may differ)
			if k.occ == nil {
				k.occ = map[token.Pos]string{}
			}
			base, n := strings.TrimSuffix(a[1], "#"), 0
			lhs := map[token.Pos]bool{} // the variable being (re)defined is not a read of it
			ast.Inspect(fd.Body, func(m ast.Node) bool {
				if as, ok := m.(*ast.AssignStmt); ok {
					for _, l := range as.Lhs {
						lhs[l.Pos()] = true
					}
				}
				return true
			})
			ast.Inspect(fd.Body, func(m ast.Node) bool {
				if ex, ok := m.(ast.Expr); ok && !lhs[ex.Pos()] && p.text(ex) == norm(a[0]) {
					n++
					name := fmt.Sprintf("%s%d", base, n)
					k.occ[ex.Pos()] = name
					params = append(params, "("+name+" : Bool)")
					return false
				}
				return true
			})
			if n == 0 {
				die("site %s: atom %q does not occur in %s", s.Name, a[0], s.Func)
			}
			continue
		}
		k.atoms[norm(a[0])] = a[1]
		params = append(params, "("+a[1]+" : Bool)")
	}
	for _, a := range s.Ints {
		k.ints[norm(a[0])] = a[1]
		params = append(params, "("+a[1]+" : Int)")
		addGuard(a[0])
	}
	for _, a := range s.Strs {
		k.strs[norm(a[0])] = a[1]
		params = append(params, "("+a[1]+" : String)")
		addGuard(a[0])
	}
	// names of packages and of universe objects are not variables
	for _, u := range []string{"nil", "true", "false", "len", "cap"} {
		delete(k.guarded, u)
	}
	for _, imp := range file.Imports {
		if imp.Name != nil {
			delete(k.guarded, imp.Name.Name)
		} else {
			pth := strings.Trim(imp.Path.Value, `"`)
			delete(k.guarded, pth[strings.LastIndex(pth, "/")+1:])
		}
	}
	if len(s.Selects) > 0 {
		k.selIdx = map[token.Pos]string{}
		n := 0
		ast.Inspect(fd.Body, func(m ast.Node) bool {
			if sel, ok := m.(*ast.SelectStmt); ok {
				n++
				name := fmt.Sprintf("select%d", n)
				k.selIdx[sel.Pos()] = name
				params = append(params, "("+name+" : String)")
			}
			return true
		})
		for _, r := range s.Selects {
			k.selRe = append(k.selRe, regexp.MustCompile(r[0]))
		}
	}
	for _, r := range s.Returns {
		k.rets = append(k.rets, regexp.MustCompile(r[0]))
	}
	for _, r := range s.Allow {
		k.allow = append(k.allow, regexp.MustCompile(r))
	}
	for _, r := range s.Marks {
		if len(r) < 2 || len(r) > 3 || (len(r) == 3 && r[2] != "optional") {
			die("site %s: a mark is [pattern, label] or [pattern, label, \"optional\"]", s.Name)
		}
		k.marks = append(k.marks, regexp.MustCompile(r[0]))
	}
	k.markHit = make([]bool, len(s.Marks))
	k.trkSeen = map[string]bool{}
	if s.UntilRe != "" {
		k.until = regexp.MustCompile(s.UntilRe)
	}
	stmts := fd.Body.List
	if s.Closure {
		// the body of the first function literal of the function (`func f(..) resolver { return func(s) {…} }`)
		var lit *ast.FuncLit
		ast.Inspect(fd.Body, func(n ast.Node) bool {
			if l, ok := n.(*ast.FuncLit); ok && lit == nil {
				lit = l
			}
			return lit == nil
		})
		if lit == nil {
			die("%s: function %s contains no function literal", s.File, s.Func)
		}
		stmts = lit.Body.List
	}
	var startRe *regexp.Regexp
	if s.StartRe != "" {
		startRe = regexp.MustCompile(s.StartRe)
	}
	if s.Start != "" || startRe != nil {
		// the statements from the first statement whose text starts with s.Start to the end of its block
		var found []ast.Stmt
		nth := 0
		ast.Inspect(fd.Body, func(n ast.Node) bool {
			if found != nil {
				return false
			}
			var list []ast.Stmt
			switch b := n.(type) {
			case *ast.BlockStmt:
				list = b.List
			case *ast.CaseClause:
				list = b.Body
			}
			for i, st := range list {
				if (s.Start != "" && strings.HasPrefix(p.text(st), s.Start)) || (startRe != nil && startRe.MatchString(p.text(st))) {
					nth++
					if nth < s.StartNth {
						continue
					}
					found = list[i:]
					return false
				}
			}
			return true
		})
		if found == nil {
			die("%s: function %s has no statement starting with %q", s.File, s.Func, s.Start+s.StartRe)
		}
		stmts = found
	}
	body := k.block(stmts, nil, "  ")
	// a pinned statement that disappeared or was re-spelled would silently drop out of every effects list: that is
	// "site not translatable any more", not a different decision
	for i, r := range s.Marks {
		if !k.markHit[i] && len(r) == 2 {
			die("%s (site %s): no statement on any path matches the mark %q (label %s); mark it \"optional\" if it is a catch-all", s.File, s.Name, r[0], r[1])
		}
	}
	for _, v := range s.Track {
		if !k.trkSeen[v] {
			die("%s (site %s): the tracked variable %s is never assigned a constant on any path", s.File, s.Name, v)
		}
	}
	what := "decision skeleton of `" + s.Func + "`"
	if s.Start != "" {
		what += " from the statement `" + s.Start + " …`"
	}
	if s.StartRe != "" {
		what += " from the first statement matching /" + s.StartRe + "/"
	}
	if s.Closure {
		what = "decision skeleton of the closure returned by `" + s.Func + "`"
	}
	ty := "String"
	if len(s.Marks) > 0 || len(s.Selects) > 0 {
		ty = "String × List String"
	}
	if k.boolRet {
		ty = "Bool"
		what = "Boolean function `" + s.Func + "`"
	}
	fmt.Fprintf(out, "/-- %s in %s -/\ndef %s %s : %s :=\n  %s\n\n", what, s.File, s.Name, strings.Join(params, " "), ty, body)
}

func main() {
	repo := flag.String("repo", "/repo", "repository root")
	spec := flag.String("spec", "", "checks/gentie.json")
	prop := flag.String("prop", "", "property id")
	ov := flag.String("overlay", os.Getenv("VERIF_EXTRA_OVERLAY"), "go overlay JSON (mutant runs)")
	flag.Parse()
	raw, err := os.ReadFile(*spec)
	if err != nil {
		die("%v", err)
	}
	all := map[string]PropCfg{}
	if err := json.Unmarshal(raw, &all); err != nil {
		die("spec: %v", err)
	}
	cfg, ok := all[*prop]
	if !ok {
		die("no gentie entry for %s", *prop)
	}
	if *ov != "" {
		b, err := os.ReadFile(*ov)
		if err != nil {
			die("%v", err)
		}
		var o struct{ Replace map[string]string }
		if err := json.Unmarshal(b, &o); err != nil {
			die("overlay: %v", err)
		}
		overlay = o.Replace
		overlayFile = *ov
	}
	scratch, err = os.MkdirTemp("", "go2lean-")
	if err != nil {
		die("%v", err)
	}
	defer os.RemoveAll(scratch)
	var out strings.Builder
	var srcs []string
	seen := map[string]bool{}
	for _, s := range cfg.Sites {
		if !seen[s.File] {
			seen[s.File] = true
			srcs = append(srcs, s.File)
		}
	}
	fmt.Fprintf(&out, "-- GENERATED by tools/go2lean from the Go sources listed below; do not edit (bin/gentie-regen rewrites it).\n")
	for _, f := range srcs {
		fmt.Fprintf(&out, "--   %s\n", f)
	}
	fmt.Fprintf(&out, "\nnamespace Otel.Gen.%s\nset_option linter.unusedVariables false\n\n", *prop)
	for _, s := range cfg.Sites {
		path := filepath.Join(*repo, s.File)
		p := loadPkg(filepath.Dir(path))
		file := p.files[path]
		if file == nil {
			die("%s is not among the package's Go files under the default build tags", s.File)
		}
		switch s.Kind {
		case "const":
			genConst(p, file, s, &out)
		case "struct":
			genStruct(p, s, &out)
		case "skel", "boolfn":
			genSkel(p, file, s, &out)
		case "litlist":
			genLitList(p, file, s, &out)
		case "map":
			genMap(p, s, &out)
		case "literals":
			genLiterals(p, file, s, &out)
		case "callargs":
			genCallArgs(p, file, s, &out)
		default:
			die("unknown site kind %q", s.Kind)
		}
	}
	fmt.Fprintf(&out, "end Otel.Gen.%s\n", *prop)
	os.RemoveAll(scratch)
	fmt.Print(out.String())
}
