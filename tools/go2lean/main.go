// go2lean — a tiny translator from selected decision logic of the Go source tree to Lean 4 definitions.
//
// It is the *regenerated* half of the tie between /verif's Lean models and /repo (DESIGN §0, "generated tie"):
// bin/check runs it on every invocation against the current working tree (or a mutant overlay) and re-checks the
// tie theorems of lean/Otel/Cxx/GenTie.lean against what it prints.
//
// Supported site kinds (anything else at a configured site is an error, i.e. a broken tie — nothing is skipped silently):
//
//	const   package-level constants / variables with a constant initialiser: the *evaluated* value is emitted
//	        (integers and time.Duration as Int, in nanoseconds; strings as String; booleans as Bool).
//	struct  a package-level `var X = T{Field: constexpr, …}` composite literal: the listed fields, evaluated.
//	skel    the decision skeleton of a function (or of the statements from a marked statement to the end of its block):
//	        if / else, switch (with or without tag), return.  Conditions are decomposed over && || ! and parentheses;
//	        a leaf must be (a) an expression whose source text is listed under "atoms" (it becomes a Bool parameter),
//	        (b) a comparison of integer expressions built from literals, evaluated constants, + - * and the
//	        expressions listed under "ints" (Int parameters; Go's fixed-width integers become unbounded Int), or
//	        (c) a comparison ==/!= of a "strs" expression with a constant string.  A switch tag must be listed under
//	        "ints" or "strs"; its case labels are evaluated with go/types (http.StatusTooManyRequests -> 429).
//	        Every return statement must match one of the "returns" regular expressions and is replaced by that tag.
//	        Other statements are skipped only if they contain no return statement and do not assign to an identifier
//	        that occurs in an atom/int/str expression — unless their text matches one of the "allow" regexps.
//
// The output is deterministic Lean text in namespace Otel.Gen.<prop>.
package main

import (
	"bytes"
	"encoding/json"
	"flag"
	"fmt"
	"go/ast"
	"go/constant"
	"go/importer"
	"go/parser"
	"go/printer"
	"go/token"
	"go/types"
	"io"
	"os"
	"os/exec"
	"path/filepath"
	"regexp"
	"sort"
	"strings"
)

type Site struct {
	Kind    string      `json:"kind"`
	File    string      `json:"file"`
	Names   []string    `json:"names"`
	Prefix  string      `json:"prefix"`
	Func    string      `json:"func"`
	Start   string      `json:"start"`
	Name    string      `json:"name"`
	Atoms   [][2]string `json:"atoms"`
	Ints    [][2]string `json:"ints"`
	Strs    [][2]string `json:"strs"`
	Returns [][2]string `json:"returns"`
	Allow   []string    `json:"allow"`
	Var     string      `json:"var"`
	Fields  []string    `json:"fields"`
}

type PropCfg struct {
	Sites     []Site `json:"sites"`
	Gen       string `json:"gen"`
	TieModule string `json:"tie_module"`
}

var overlay = map[string]string{}

func die(f string, a ...any) {
	fmt.Fprintf(os.Stderr, "go2lean: "+f+"\n", a...)
	os.Exit(1)
}

func readSrc(path string) ([]byte, error) {
	if o, ok := overlay[path]; ok {
		path = o
	}
	return os.ReadFile(path)
}

type pkgInfo struct {
	fset  *token.FileSet
	files map[string]*ast.File // abs path -> file
	info  *types.Info
	pkg   *types.Package
	errs  []string
}

var pkgs = map[string]*pkgInfo{}
var overlayFile string
var scratch string

func goEnv() []string {
	return append(os.Environ(), "GOFLAGS=-mod=mod", "GOPROXY=off", "GOSUMDB=off", "GOTOOLCHAIN=local")
}

func modRoot(dir string) string {
	d := dir
	for {
		if _, err := os.Stat(filepath.Join(d, "go.mod")); err == nil {
			return d
		}
		p := filepath.Dir(d)
		if p == d {
			return ""
		}
		d = p
	}
}

func loadPkg(dir string) *pkgInfo {
	if p, ok := pkgs[dir]; ok {
		return p
	}
	// go list: file set under the default build tags (and the overlay), export data of every dependency
	args := []string{"list", "-json=Dir,ImportPath,GoFiles,Export,DepOnly,Error", "-export", "-deps", "-e"}
	if mr := modRoot(dir); mr != "" {
		// never let -mod=mod write go.mod/go.sum inside the repository
		md := filepath.Join(scratch, fmt.Sprintf("mod%d", len(pkgs)))
		os.MkdirAll(md, 0o755)
		for _, f := range []string{"go.mod", "go.sum"} {
			if b, err := os.ReadFile(filepath.Join(mr, f)); err == nil {
				os.WriteFile(filepath.Join(md, f), b, 0o644)
			}
		}
		args = append(args, "-modfile="+filepath.Join(md, "go.mod"))
	}
	if overlayFile != "" {
		args = append(args, "-overlay="+overlayFile)
	}
	args = append(args, ".")
	cmd := exec.Command("go", args...)
	cmd.Dir = dir
	cmd.Env = goEnv()
	var stderr bytes.Buffer
	cmd.Stderr = &stderr
	out, err := cmd.Output()
	if err != nil && len(out) == 0 {
		die("go list in %s failed: %v\n%s", dir, err, stderr.String())
	}
	type lp struct {
		Dir, ImportPath, Export string
		GoFiles                 []string
		DepOnly                 bool
	}
	exports := map[string]string{}
	var root *lp
	dec := json.NewDecoder(bytes.NewReader(out))
	for {
		var p lp
		if err := dec.Decode(&p); err == io.EOF {
			break
		} else if err != nil {
			die("go list output: %v", err)
		}
		if p.Export != "" {
			exports[p.ImportPath] = p.Export
		}
		if !p.DepOnly {
			q := p
			root = &q
		}
	}
	if root == nil {
		die("go list found no package in %s\n%s", dir, stderr.String())
	}
	pi := &pkgInfo{fset: token.NewFileSet(), files: map[string]*ast.File{}}
	var files []*ast.File
	for _, f := range root.GoFiles {
		path := filepath.Join(root.Dir, f)
		src, err := readSrc(path)
		if err != nil {
			die("%v", err)
		}
		af, err := parser.ParseFile(pi.fset, path, src, parser.ParseComments)
		if err != nil {
			die("parse %s: %v", path, err)
		}
		pi.files[path] = af
		files = append(files, af)
	}
	lookup := func(path string) (io.ReadCloser, error) {
		e, ok := exports[path]
		if !ok {
			return nil, fmt.Errorf("no export data for %s", path)
		}
		return os.Open(e)
	}
	pi.info = &types.Info{Types: map[ast.Expr]types.TypeAndValue{}, Defs: map[*ast.Ident]types.Object{}, Uses: map[*ast.Ident]types.Object{}}
	conf := types.Config{Importer: importer.ForCompiler(pi.fset, "gc", lookup), Error: func(err error) { pi.errs = append(pi.errs, err.Error()) }}
	pi.pkg, _ = conf.Check(root.ImportPath, pi.fset, files, pi.info)
	pkgs[dir] = pi
	return pi
}

func (p *pkgInfo) text(n ast.Node) string {
	var b bytes.Buffer
	printer.Fprint(&b, p.fset, n)
	return strings.Join(strings.Fields(b.String()), " ")
}

// ---------------------------------------------------------------- values

func leanString(s string) string {
	var b strings.Builder
	b.WriteByte('"')
	for _, c := range []byte(s) {
		switch {
		case c == '"' || c == '\\':
			b.WriteByte('\\')
			b.WriteByte(c)
		case c >= 0x20 && c < 0x7f:
			b.WriteByte(c)
		default:
			fmt.Fprintf(&b, "\\x%02x", c)
		}
	}
	b.WriteByte('"')
	return b.String()
}

func leanInt(s string) string {
	if strings.HasPrefix(s, "-") {
		return "(" + s + ")"
	}
	return s
}

// leanValue renders an evaluated Go constant: (Lean type, Lean term)
func leanValue(v constant.Value, where string) (string, string) {
	switch v.Kind() {
	case constant.Int:
		return "Int", leanInt(v.ExactString())
	case constant.Bool:
		if constant.BoolVal(v) {
			return "Bool", "true"
		}
		return "Bool", "false"
	case constant.String:
		return "String", leanString(constant.StringVal(v))
	case constant.Float:
		// exact rational: numerator / denominator
		if iv := constant.ToInt(v); iv.Kind() == constant.Int {
			return "Int", leanInt(iv.ExactString())
		}
		n, d := constant.Num(v), constant.Denom(v)
		return "Int × Int", "(" + leanInt(n.ExactString()) + ", " + d.ExactString() + ")"
	}
	die("%s: constant of unsupported kind %v", where, v.Kind())
	return "", ""
}

func leanIdent(s string) string {
	s = strings.NewReplacer(".", "_", "-", "_").Replace(s)
	return s
}

// ---------------------------------------------------------------- const / struct

func genConst(p *pkgInfo, s Site, out *strings.Builder) {
	for _, name := range s.Names {
		obj := p.pkg.Scope().Lookup(name)
		if obj == nil {
			die("%s: no package-level object %s", s.File, name)
		}
		var val constant.Value
		switch o := obj.(type) {
		case *types.Const:
			val = o.Val()
		case *types.Var:
			// find the initialiser
			for _, f := range p.files {
				for _, d := range f.Decls {
					gd, ok := d.(*ast.GenDecl)
					if !ok || gd.Tok != token.VAR {
						continue
					}
					for _, sp := range gd.Specs {
						vs := sp.(*ast.ValueSpec)
						for i, id := range vs.Names {
							if id.Name == name && i < len(vs.Values) {
								if tv, ok := p.info.Types[vs.Values[i]]; ok && tv.Value != nil {
									val = tv.Value
								}
							}
						}
					}
				}
			}
			if val == nil {
				die("%s: variable %s has no constant initialiser", s.File, name)
			}
		default:
			die("%s: %s is not a constant or variable", s.File, name)
		}
		ty, tm := leanValue(val, s.File+":"+name)
		fmt.Fprintf(out, "/-- `%s` in %s (evaluated) -/\ndef %s%s : %s := %s\n\n", name, s.File, s.Prefix, leanIdent(name), ty, tm)
	}
}

func genStruct(p *pkgInfo, s Site, out *strings.Builder) {
	var lit *ast.CompositeLit
	for _, f := range p.files {
		for _, d := range f.Decls {
			gd, ok := d.(*ast.GenDecl)
			if !ok || gd.Tok != token.VAR {
				continue
			}
			for _, sp := range gd.Specs {
				vs := sp.(*ast.ValueSpec)
				for i, id := range vs.Names {
					if id.Name == s.Var && i < len(vs.Values) {
						if cl, ok := vs.Values[i].(*ast.CompositeLit); ok {
							lit = cl
						}
					}
				}
			}
		}
	}
	if lit == nil {
		die("%s: no `var %s = T{…}` composite literal", s.File, s.Var)
	}
	got := map[string]ast.Expr{}
	for _, e := range lit.Elts {
		kv, ok := e.(*ast.KeyValueExpr)
		if !ok {
			die("%s: %s: positional composite literal not supported", s.File, s.Var)
		}
		got[p.text(kv.Key)] = kv.Value
	}
	for _, fld := range s.Fields {
		e, ok := got[fld]
		if !ok {
			die("%s: %s has no field %s in its literal (zero value fields must be written explicitly in the config as absent)", s.File, s.Var, fld)
		}
		tv, ok := p.info.Types[e]
		if !ok || tv.Value == nil {
			die("%s: %s.%s is not a constant expression: %s", s.File, s.Var, fld, p.text(e))
		}
		ty, tm := leanValue(tv.Value, s.File+":"+s.Var+"."+fld)
		fmt.Fprintf(out, "/-- field `%s` of `%s` in %s (evaluated) -/\ndef %s%s_%s : %s := %s\n\n", fld, s.Var, s.File, s.Prefix, leanIdent(s.Var), leanIdent(fld), ty, tm)
	}
	// fields present in the literal but not configured are reported so that a new field is noticed
	var extra []string
	for k := range got {
		found := false
		for _, f := range s.Fields {
			if f == k {
				found = true
			}
		}
		if !found {
			extra = append(extra, k)
		}
	}
	sort.Strings(extra)
	fmt.Fprintf(out, "/-- fields of `%s` set in the literal but not translated -/\ndef %s%s_otherFields : List String := [%s]\n\n", s.Var, s.Prefix, leanIdent(s.Var), quoteList(extra))
}

func quoteList(xs []string) string {
	var q []string
	for _, x := range xs {
		q = append(q, leanString(x))
	}
	return strings.Join(q, ", ")
}

// ---------------------------------------------------------------- skeleton

type skel struct {
	p       *pkgInfo
	s       Site
	atoms   map[string]string
	ints    map[string]string
	strs    map[string]string
	rets    []*regexp.Regexp
	allow   []*regexp.Regexp
	guarded map[string]bool // identifiers occurring in atom/int/str expressions
	where   string
}

func (k *skel) fail(n ast.Node, f string, a ...any) {
	pos := k.p.fset.Position(n.Pos())
	die("%s:%d (site %s): %s", k.s.File, pos.Line, k.s.Name, fmt.Sprintf(f, a...))
}

func (k *skel) intExpr(e ast.Expr) (string, bool) {
	t := k.p.text(e)
	if n, ok := k.ints[t]; ok {
		return n, true
	}
	if tv, ok := k.p.info.Types[e]; ok && tv.Value != nil && tv.Value.Kind() == constant.Int {
		return leanInt(tv.Value.ExactString()), true
	}
	switch x := e.(type) {
	case *ast.ParenExpr:
		return k.intExpr(x.X)
	case *ast.BinaryExpr:
		var op string
		switch x.Op {
		case token.ADD:
			op = "+"
		case token.SUB:
			op = "-"
		case token.MUL:
			op = "*"
		default:
			return "", false
		}
		a, ok1 := k.intExpr(x.X)
		b, ok2 := k.intExpr(x.Y)
		if ok1 && ok2 {
			return "(" + a + " " + op + " " + b + ")", true
		}
	case *ast.CallExpr:
		// conversion T(x) to an integer type: identity on unbounded Int
		if len(x.Args) == 1 {
			if tv, ok := k.p.info.Types[x.Fun]; ok && tv.IsType() {
				if b, ok := tv.Type.Underlying().(*types.Basic); ok && b.Info()&types.IsInteger != 0 {
					return k.intExpr(x.Args[0])
				}
			}
		}
	}
	return "", false
}

func (k *skel) cond(e ast.Expr) string {
	t := k.p.text(e)
	if n, ok := k.atoms[t]; ok {
		return n
	}
	switch x := e.(type) {
	case *ast.ParenExpr:
		return k.cond(x.X)
	case *ast.UnaryExpr:
		if x.Op == token.NOT {
			return "(!" + k.cond(x.X) + ")"
		}
	case *ast.BinaryExpr:
		switch x.Op {
		case token.LAND:
			return "(" + k.cond(x.X) + " && " + k.cond(x.Y) + ")"
		case token.LOR:
			return "(" + k.cond(x.X) + " || " + k.cond(x.Y) + ")"
		case token.EQL, token.NEQ, token.LSS, token.LEQ, token.GTR, token.GEQ:
			// strings
			if x.Op == token.EQL || x.Op == token.NEQ {
				for _, pr := range [][2]ast.Expr{{x.X, x.Y}, {x.Y, x.X}} {
					if n, ok := k.strs[k.p.text(pr[0])]; ok {
						if tv, ok := k.p.info.Types[pr[1]]; ok && tv.Value != nil && tv.Value.Kind() == constant.String {
							c := "(" + n + " == " + leanString(constant.StringVal(tv.Value)) + ")"
							if x.Op == token.NEQ {
								c = "(!" + c + ")"
							}
							return c
						}
					}
				}
			}
			a, ok1 := k.intExpr(x.X)
			b, ok2 := k.intExpr(x.Y)
			if ok1 && ok2 {
				op := map[token.Token]string{token.EQL: "=", token.NEQ: "≠", token.LSS: "<", token.LEQ: "≤", token.GTR: ">", token.GEQ: "≥"}[x.Op]
				return "decide (" + a + " " + op + " " + b + ")"
			}
		}
	}
	if tv, ok := k.p.info.Types[e]; ok && tv.Value != nil && tv.Value.Kind() == constant.Bool {
		if constant.BoolVal(tv.Value) {
			return "true"
		}
		return "false"
	}
	k.fail(e, "condition `%s` is neither a configured atom nor an integer/string comparison over configured expressions", t)
	return ""
}

func (k *skel) ret(r *ast.ReturnStmt) string {
	t := k.p.text(r)
	for i, re := range k.rets {
		if re.MatchString(t) {
			return leanString(k.s.Returns[i][1])
		}
	}
	k.fail(r, "return statement `%s` matches none of the configured return patterns", t)
	return ""
}

func containsReturn(n ast.Node) bool {
	found := false
	ast.Inspect(n, func(m ast.Node) bool {
		switch m.(type) {
		case *ast.FuncLit:
			return false
		case *ast.ReturnStmt:
			found = true
		}
		return !found
	})
	return found
}

func (k *skel) assignsGuarded(st ast.Stmt) string {
	hit := ""
	ast.Inspect(st, func(m ast.Node) bool {
		switch x := m.(type) {
		case *ast.FuncLit:
			return false
		case *ast.AssignStmt:
			for _, l := range x.Lhs {
				if id, ok := l.(*ast.Ident); ok && k.guarded[id.Name] {
					hit = id.Name
				}
			}
		case *ast.IncDecStmt:
			if id, ok := x.X.(*ast.Ident); ok && k.guarded[id.Name] {
				hit = id.Name
			}
		case *ast.ValueSpec:
			for _, id := range x.Names {
				if k.guarded[id.Name] {
					hit = id.Name
				}
			}
		}
		return true
	})
	return hit
}

// block translates a statement list followed by the continuation `rest` (statements of the enclosing blocks).
// tail is the Lean term used when control falls off the end of everything.
func (k *skel) block(stmts []ast.Stmt, rest [][]ast.Stmt, ind string) string {
	if len(stmts) == 0 {
		if len(rest) == 0 {
			return leanString("<end>")
		}
		return k.block(rest[0], rest[1:], ind)
	}
	st, after := stmts[0], stmts[1:]
	cont := append([][]ast.Stmt{after}, rest...)
	switch x := st.(type) {
	case *ast.ReturnStmt:
		return k.ret(x)
	case *ast.BlockStmt:
		return k.block(x.List, cont, ind)
	case *ast.IfStmt:
		pre := ""
		if x.Init != nil {
			if !k.skippable(x.Init) {
				k.fail(x.Init, "if-initialiser `%s` assigns to `%s`, which a configured condition reads", k.p.text(x.Init), k.assignsGuarded(x.Init))
			}
			// `if sc := e; cond(sc)`: only supported when the condition can be expressed without the new name,
			// or the name is itself configured (text match) — handled by cond()
		}
		c := k.cond(x.Cond)
		th := k.block(x.Body.List, cont, ind+"  ")
		var el string
		switch e := x.Else.(type) {
		case nil:
			el = k.block(nil, cont, ind+"  ")
		case *ast.BlockStmt:
			el = k.block(e.List, cont, ind+"  ")
		case *ast.IfStmt:
			el = k.block([]ast.Stmt{e}, cont, ind+"  ")
		}
		return pre + "if " + c + " then\n" + ind + "  " + th + "\n" + ind + "else\n" + ind + "  " + el
	case *ast.SwitchStmt:
		if x.Init != nil && !k.skippable(x.Init) {
			k.fail(x.Init, "switch initialiser assigns to a guarded name")
		}
		var tagName string
		tagIsStr := false
		if x.Tag != nil {
			tt := k.p.text(x.Tag)
			if n, ok := k.ints[tt]; ok {
				tagName = n
			} else if n, ok := k.strs[tt]; ok {
				tagName, tagIsStr = n, true
			} else {
				k.fail(x.Tag, "switch tag `%s` is not a configured int/str expression", tt)
			}
		}
		type arm struct{ c, body string }
		var arms []arm
		var deflt *ast.CaseClause
		for _, cs := range x.Body.List {
			cc := cs.(*ast.CaseClause)
			body := cc.Body
			if n := len(body); n > 0 {
				if br, ok := body[n-1].(*ast.BranchStmt); ok {
					if br.Tok == token.BREAK && br.Label == nil {
						body = body[:n-1]
					} else {
						k.fail(br, "`%s` in a switch clause is not supported", br.Tok)
					}
				}
			}
			for _, b := range body {
				ast.Inspect(b, func(m ast.Node) bool {
					if _, ok := m.(*ast.FuncLit); ok {
						return false
					}
					if br, ok := m.(*ast.BranchStmt); ok {
						k.fail(br, "`%s` inside a switch clause is not supported", br.Tok)
					}
					return true
				})
			}
			if cc.List == nil {
				c2 := *cc
				c2.Body = body
				deflt = &c2
				continue
			}
			var cs2 []string
			for _, e := range cc.List {
				if x.Tag == nil {
					cs2 = append(cs2, k.cond(e))
					continue
				}
				tv, ok := k.p.info.Types[e]
				if !ok || tv.Value == nil {
					k.fail(e, "case label `%s` is not a constant", k.p.text(e))
				}
				if tagIsStr {
					if tv.Value.Kind() != constant.String {
						k.fail(e, "case label `%s` is not a string constant", k.p.text(e))
					}
					cs2 = append(cs2, "("+tagName+" == "+leanString(constant.StringVal(tv.Value))+")")
				} else {
					if tv.Value.Kind() != constant.Int {
						k.fail(e, "case label `%s` is not an integer constant", k.p.text(e))
					}
					cs2 = append(cs2, "("+tagName+" == "+leanInt(tv.Value.ExactString())+")")
				}
			}
			arms = append(arms, arm{strings.Join(cs2, " || "), k.block(body, cont, ind+"  ")})
		}
		var tail string
		if deflt != nil {
			tail = k.block(deflt.Body, cont, ind+"  ")
		} else {
			tail = k.block(nil, cont, ind+"  ")
		}
		var b strings.Builder
		for _, a := range arms {
			b.WriteString("if " + a.c + " then\n" + ind + "  " + a.body + "\n" + ind + "else ")
		}
		if len(arms) > 0 {
			b.WriteString("\n" + ind + "  ")
		}
		b.WriteString(tail)
		return b.String()
	default:
		if !k.skippable(st) {
			if containsReturn(st) {
				k.fail(st, "statement `%.80s…` contains a return inside a construct the translator does not follow", k.p.text(st))
			}
			k.fail(st, "statement `%.120s` assigns to `%s`, which a configured condition reads (add an `allow` pattern if it is the definition the condition refers to)", k.p.text(st), k.assignsGuarded(st))
		}
		return k.block(after, rest, ind)
	}
}

func (k *skel) skippable(st ast.Stmt) bool {
	if containsReturn(st) {
		return false
	}
	if k.assignsGuarded(st) == "" {
		return true
	}
	t := k.p.text(st)
	for _, re := range k.allow {
		if re.MatchString(t) {
			return true
		}
	}
	return false
}

func findFunc(p *pkgInfo, file *ast.File, name string) *ast.FuncDecl {
	for _, d := range file.Decls {
		fd, ok := d.(*ast.FuncDecl)
		if !ok || fd.Body == nil {
			continue
		}
		n := fd.Name.Name
		if fd.Recv != nil && len(fd.Recv.List) == 1 {
			t := fd.Recv.List[0].Type
			if st, ok := t.(*ast.StarExpr); ok {
				t = st.X
			}
			if ix, ok := t.(*ast.IndexExpr); ok {
				t = ix.X
			}
			if ix, ok := t.(*ast.IndexListExpr); ok {
				t = ix.X
			}
			if id, ok := t.(*ast.Ident); ok {
				n = id.Name + "." + n
			}
		}
		if n == name {
			return fd
		}
	}
	return nil
}

func genSkel(p *pkgInfo, file *ast.File, s Site, out *strings.Builder) {
	fd := findFunc(p, file, s.Func)
	if fd == nil {
		die("%s: no function %s", s.File, s.Func)
	}
	k := &skel{p: p, s: s, atoms: map[string]string{}, ints: map[string]string{}, strs: map[string]string{}, guarded: map[string]bool{}}
	var params []string
	addGuard := func(expr string) {
		e, err := parser.ParseExpr(expr)
		if err != nil {
			die("site %s: cannot parse configured expression %q: %v", s.Name, expr, err)
		}
		ast.Inspect(e, func(n ast.Node) bool {
			if se, ok := n.(*ast.SelectorExpr); ok {
				// only the root identifier of a selector chain is a variable
				ast.Inspect(se.X, func(m ast.Node) bool {
					if id, ok := m.(*ast.Ident); ok {
						k.guarded[id.Name] = true
					}
					return true
				})
				return false
			}
			if id, ok := n.(*ast.Ident); ok {
				k.guarded[id.Name] = true
			}
			return true
		})
	}
	norm := func(s string) string { return strings.Join(strings.Fields(s), " ") }
	for _, a := range s.Atoms {
		k.atoms[norm(a[0])] = a[1]
		params = append(params, "("+a[1]+" : Bool)")
		addGuard(a[0])
	}
	for _, a := range s.Ints {
		k.ints[norm(a[0])] = a[1]
		params = append(params, "("+a[1]+" : Int)")
		addGuard(a[0])
	}
	for _, a := range s.Strs {
		k.strs[norm(a[0])] = a[1]
		params = append(params, "("+a[1]+" : String)")
		addGuard(a[0])
	}
	// names of packages and of universe objects are not variables
	for _, u := range []string{"nil", "true", "false", "len", "cap"} {
		delete(k.guarded, u)
	}
	for _, imp := range file.Imports {
		if imp.Name != nil {
			delete(k.guarded, imp.Name.Name)
		} else {
			pth := strings.Trim(imp.Path.Value, `"`)
			delete(k.guarded, pth[strings.LastIndex(pth, "/")+1:])
		}
	}
	for _, r := range s.Returns {
		k.rets = append(k.rets, regexp.MustCompile(r[0]))
	}
	for _, r := range s.Allow {
		k.allow = append(k.allow, regexp.MustCompile(r))
	}
	stmts := fd.Body.List
	if s.Start != "" {
		// the statements from the first statement whose text starts with s.Start to the end of its block
		var found []ast.Stmt
		ast.Inspect(fd.Body, func(n ast.Node) bool {
			if found != nil {
				return false
			}
			var list []ast.Stmt
			switch b := n.(type) {
			case *ast.BlockStmt:
				list = b.List
			case *ast.CaseClause:
				list = b.Body
			}
			for i, st := range list {
				if strings.HasPrefix(p.text(st), s.Start) {
					found = list[i:]
					return false
				}
			}
			return true
		})
		if found == nil {
			die("%s: function %s has no statement starting with %q", s.File, s.Func, s.Start)
		}
		stmts = found
	}
	body := k.block(stmts, nil, "  ")
	what := "decision skeleton of `" + s.Func + "`"
	if s.Start != "" {
		what += " from the statement `" + s.Start + " …`"
	}
	fmt.Fprintf(out, "/-- %s in %s -/\ndef %s %s : String :=\n  %s\n\n", what, s.File, s.Name, strings.Join(params, " "), body)
}

func main() {
	repo := flag.String("repo", "/repo", "repository root")
	spec := flag.String("spec", "", "checks/gentie.json")
	prop := flag.String("prop", "", "property id")
	ov := flag.String("overlay", os.Getenv("VERIF_EXTRA_OVERLAY"), "go overlay JSON (mutant runs)")
	flag.Parse()
	raw, err := os.ReadFile(*spec)
	if err != nil {
		die("%v", err)
	}
	all := map[string]PropCfg{}
	if err := json.Unmarshal(raw, &all); err != nil {
		die("spec: %v", err)
	}
	cfg, ok := all[*prop]
	if !ok {
		die("no gentie entry for %s", *prop)
	}
	if *ov != "" {
		b, err := os.ReadFile(*ov)
		if err != nil {
			die("%v", err)
		}
		var o struct{ Replace map[string]string }
		if err := json.Unmarshal(b, &o); err != nil {
			die("overlay: %v", err)
		}
		overlay = o.Replace
		overlayFile = *ov
	}
	scratch, err = os.MkdirTemp("", "go2lean-")
	if err != nil {
		die("%v", err)
	}
	defer os.RemoveAll(scratch)
	var out strings.Builder
	var srcs []string
	seen := map[string]bool{}
	for _, s := range cfg.Sites {
		if !seen[s.File] {
			seen[s.File] = true
			srcs = append(srcs, s.File)
		}
	}
	fmt.Fprintf(&out, "-- GENERATED by tools/go2lean from the Go sources listed below; do not edit (bin/gentie-regen rewrites it).\n")
	for _, f := range srcs {
		fmt.Fprintf(&out, "--   %s\n", f)
	}
	fmt.Fprintf(&out, "\nnamespace Otel.Gen.%s\n\n", *prop)
	for _, s := range cfg.Sites {
		path := filepath.Join(*repo, s.File)
		p := loadPkg(filepath.Dir(path))
		file := p.files[path]
		if file == nil {
			die("%s is not among the package's Go files under the default build tags", s.File)
		}
		switch s.Kind {
		case "const":
			genConst(p, s, &out)
		case "struct":
			genStruct(p, s, &out)
		case "skel":
			genSkel(p, file, s, &out)
		default:
			die("unknown site kind %q", s.Kind)
		}
	}
	fmt.Fprintf(&out, "end Otel.Gen.%s\n", *prop)
	os.RemoveAll(scratch)
	fmt.Print(out.String())
}
