module verif/syncscan

go 1.22
