// syncscan prints, for the named functions of one Go source file, the sequence of
// synchronisation-relevant operations in source order, with the nesting of control statements:
// mutex Lock/Unlock, atomic Load/Store/Swap/CompareAndSwap/Add, sync.Once.Do, WaitGroup Add/Done/Wait,
// channel send/receive/close, select cases, go and defer statements, and calls to the "call-out"
// method names given with -calls (user callbacks such as ExportSpans, OnEnd, Shutdown).
//
// The output is compared by /verif/bin/check with a reviewed expectation file: the LTS models take
// exactly these operations as their atomic steps, so a change of this listing means the model's
// atomicity/ordering assumptions no longer match the source (DESIGN §3.6 (ii)).
//
// usage: syncscan -file path.go -funcs 'recv.Method,Func' [-calls 'ExportSpans,Shutdown']
package main

import (
	"flag"
	"fmt"
	"go/ast"
	"go/constant"
	"go/parser"
	"go/printer"
	"go/token"
	"os"
	"strings"
)

var syncMethods = map[string]bool{
	"Lock": true, "Unlock": true, "RLock": true, "RUnlock": true, "TryLock": true,
	"Load": true, "Store": true, "Swap": true, "CompareAndSwap": true,
	"Do": true, "Wait": true, "Done": true,
	"LoadUint32": true, "AddUint32": true, "StoreUint32": true, "AddInt64": true, "LoadInt64": true,
	"Stop": true, "Reset": true,
}

// ---- constant folding for the -consts listing (and for expectation files: -normconsts) ----
// A defining expression is printed with every constant sub-expression folded to its value (integers; time.Duration
// units in nanoseconds; same-file constants substituted), so that `1 << 11` and `2048`, `time.Minute / 2` and
// `30 * time.Second`, `attribute.Bool(overflowKey, true)` and `attribute.Bool("otel.metric.overflow", true)` print alike.
var knownConsts = map[string]string{
	"time.Nanosecond": "1", "time.Microsecond": "1000", "time.Millisecond": "1000000", "time.Second": "1000000000",
	"time.Minute": "60000000000", "time.Hour": "3600000000000",
	"math.MaxInt64": "9223372036854775807", "math.MinInt64": "-9223372036854775808", "math.MaxInt32": "2147483647",
	"math.MinInt32": "-2147483648", "math.MaxUint32": "4294967295", "math.MaxInt": "9223372036854775807",
}

type folder struct {
	fset   *token.FileSet
	consts map[string]ast.Expr // same-file constant name -> defining expression
	busy   map[string]bool
}

func (f *folder) eval(e ast.Expr) (constant.Value, bool) {
	switch x := e.(type) {
	case *ast.BasicLit:
		v := constant.MakeFromLiteral(x.Value, x.Kind, 0)
		return v, v.Kind() != constant.Unknown
	case *ast.ParenExpr:
		return f.eval(x.X)
	case *ast.Ident:
		if x.Name == "true" {
			return constant.MakeBool(true), true
		}
		if x.Name == "false" {
			return constant.MakeBool(false), true
		}
		if d, ok := f.consts[x.Name]; ok && !f.busy[x.Name] {
			f.busy[x.Name] = true
			v, ok := f.eval(d)
			delete(f.busy, x.Name)
			return v, ok
		}
	case *ast.SelectorExpr:
		if id, ok := x.X.(*ast.Ident); ok {
			if s, ok := knownConsts[id.Name+"."+x.Sel.Name]; ok {
				return constant.MakeFromLiteral(s, token.INT, 0), true
			}
		}
	case *ast.UnaryExpr:
		if v, ok := f.eval(x.X); ok && (x.Op == token.SUB || x.Op == token.ADD || x.Op == token.NOT || x.Op == token.XOR) {
			defer func() { recover() }()
			return constant.UnaryOp(x.Op, v, 0), true
		}
	case *ast.BinaryExpr:
		a, ok1 := f.eval(x.X)
		b, ok2 := f.eval(x.Y)
		if ok1 && ok2 {
			ok := true
			var r constant.Value
			func() {
				defer func() {
					if recover() != nil {
						ok = false
					}
				}()
				switch x.Op {
				case token.SHL, token.SHR:
					n, exact := constant.Uint64Val(b)
					if !exact || n > 4096 {
						ok = false
						return
					}
					r = constant.Shift(a, x.Op, uint(n))
				case token.QUO:
					if a.Kind() == constant.Int && b.Kind() == constant.Int {
						r = constant.BinaryOp(a, token.QUO_ASSIGN, b) // integer division
					} else {
						r = constant.BinaryOp(a, x.Op, b)
					}
				case token.ADD, token.SUB, token.MUL, token.REM, token.AND, token.OR, token.XOR, token.AND_NOT:
					r = constant.BinaryOp(a, x.Op, b)
				default:
					ok = false
				}
			}()
			if ok && r != nil && r.Kind() != constant.Unknown {
				return r, true
			}
		}
	case *ast.CallExpr:
		// conversion to a named numeric type: time.Duration(5), int64(3)
		if len(x.Args) == 1 {
			switch fn := x.Fun.(type) {
			case *ast.SelectorExpr:
				if id, ok := fn.X.(*ast.Ident); ok && id.Name == "time" && fn.Sel.Name == "Duration" {
					return f.eval(x.Args[0])
				}
			case *ast.Ident:
				switch fn.Name {
				case "int", "int32", "int64", "uint", "uint32", "uint64":
					return f.eval(x.Args[0])
				}
			}
		}
	}
	return nil, false
}

// norm prints e with every maximal constant sub-expression replaced by its value
func (f *folder) norm(e ast.Expr) string {
	if v, ok := f.eval(e); ok {
		return v.ExactString()
	}
	var sb strings.Builder
	switch x := e.(type) {
	case *ast.CallExpr:
		sb.WriteString(f.norm(x.Fun) + "(")
		for i, a := range x.Args {
			if i > 0 {
				sb.WriteString(", ")
			}
			sb.WriteString(f.norm(a))
		}
		sb.WriteString(")")
		return sb.String()
	case *ast.BinaryExpr:
		return f.norm(x.X) + " " + x.Op.String() + " " + f.norm(x.Y)
	case *ast.ParenExpr:
		return "(" + f.norm(x.X) + ")"
	case *ast.UnaryExpr:
		return x.Op.String() + f.norm(x.X)
	case *ast.CompositeLit:
		var ty string
		if x.Type != nil {
			ty = f.norm(x.Type)
		}
		sb.WriteString(ty + "{")
		for i, a := range x.Elts {
			if i > 0 {
				sb.WriteString(", ")
			}
			sb.WriteString(f.norm(a))
		}
		sb.WriteString("}")
		return sb.String()
	case *ast.KeyValueExpr:
		return f.norm(x.Key) + ": " + f.norm(x.Value)
	}
	printer.Fprint(&sb, f.fset, e)
	return strings.Join(strings.Fields(sb.String()), " ")
}

// normExpectation rewrites the `const X = expr` / `var X = expr` lines of an expectation file in folded form
func normExpectation(path string) {
	b, err := os.ReadFile(path)
	if err != nil {
		fmt.Fprintln(os.Stderr, err)
		os.Exit(2)
	}
	f := &folder{fset: token.NewFileSet(), consts: map[string]ast.Expr{}, busy: map[string]bool{}}
	type ln struct{ kw, name, rhs string }
	var lines []ln
	for _, l := range strings.Split(strings.TrimSpace(string(b)), "\n") {
		parts := strings.SplitN(l, " = ", 2)
		hd := strings.Fields(parts[0])
		if len(parts) != 2 || len(hd) != 2 || (hd[0] != "const" && hd[0] != "var") {
			fmt.Println(l)
			continue
		}
		lines = append(lines, ln{hd[0], hd[1], parts[1]})
		if e, err := parser.ParseExpr(parts[1]); err == nil && hd[0] == "const" {
			f.consts[hd[1]] = e
		}
	}
	for _, l := range lines {
		if e, err := parser.ParseExpr(l.rhs); err == nil {
			fmt.Printf("%s %s = %s\n", l.kw, l.name, f.norm(e))
		} else {
			fmt.Printf("%s %s = %s\n", l.kw, l.name, l.rhs)
		}
	}
}

func expr(fset *token.FileSet, e ast.Node) string {
	var sb strings.Builder
	printer.Fprint(&sb, fset, e)
	s := strings.Join(strings.Fields(sb.String()), " ")
	if len(s) > 70 {
		s = s[:70] + "…"
	}
	return s
}

type scanner struct {
	fset  *token.FileSet
	calls map[string]bool
	out   []string
	depth int
	// -inline: calls to functions declared in the same file (unique simple name, not listed under -calls) are
	// replaced by the listing of their bodies (depth <= 3): a helper extraction keeps the listing unchanged
	inline   map[string]*ast.FuncDecl
	inlining map[string]bool
}

func (s *scanner) emit(format string, a ...any) {
	s.out = append(s.out, strings.Repeat("  ", s.depth)+fmt.Sprintf(format, a...))
}

func (s *scanner) callName(c *ast.CallExpr) (string, bool) {
	switch f := c.Fun.(type) {
	case *ast.SelectorExpr:
		n := f.Sel.Name
		if syncMethods[n] || s.calls[n] {
			return expr(s.fset, f), true
		}
	case *ast.Ident:
		if f.Name == "close" {
			return "close(" + expr(s.fset, c.Args[0]) + ")", true
		}
		if s.calls[f.Name] {
			return f.Name, true
		}
	}
	return "", false
}

func (s *scanner) walkExpr(e ast.Node) {
	if e == nil {
		return
	}
	ast.Inspect(e, func(n ast.Node) bool {
		switch x := n.(type) {
		case *ast.FuncLit:
			s.emit("func-literal {")
			s.depth++
			s.walkBlock(x.Body)
			s.depth--
			s.emit("}")
			return false
		case *ast.CallExpr:
			for _, a := range x.Args {
				s.walkExpr(a)
			}
			if fl, ok := x.Fun.(*ast.FuncLit); ok {
				s.walkExpr(fl)
			}
			if n, ok := s.callName(x); ok {
				s.emit("call %s", n)
			} else if s.inline != nil {
				callee := ""
				switch f := x.Fun.(type) {
				case *ast.SelectorExpr:
					callee = f.Sel.Name
					if inner, ok := f.X.(*ast.SelectorExpr); ok && s.inline[inner.Sel.Name+"."+callee] != nil {
						callee = inner.Sel.Name + "." + callee
					}
				case *ast.Ident:
					callee = f.Name
				}
				if fd := s.inline[callee]; fd != nil && !s.inlining[callee] && len(s.inlining) < 3 {
					s.inlining[callee] = true
					s.walkBlock(fd.Body)
					delete(s.inlining, callee)
				}
			}
			return false
		case *ast.UnaryExpr:
			if x.Op == token.ARROW {
				s.emit("recv %s", expr(s.fset, x.X))
			}
		}
		return true
	})
}

func (s *scanner) walkBlock(b *ast.BlockStmt) {
	if b == nil {
		return
	}
	for _, st := range b.List {
		s.walkStmt(st)
	}
}

func (s *scanner) walkStmt(st ast.Stmt) {
	switch x := st.(type) {
	case *ast.BlockStmt:
		s.walkBlock(x)
	case *ast.ExprStmt:
		s.walkExpr(x.X)
	case *ast.SendStmt:
		s.walkExpr(x.Value)
		s.emit("send %s", expr(s.fset, x.Chan))
	case *ast.AssignStmt:
		for _, r := range x.Rhs {
			s.walkExpr(r)
		}
	case *ast.DeclStmt:
		s.walkExpr(x)
	case *ast.IncDecStmt:
	case *ast.ReturnStmt:
		for _, r := range x.Results {
			s.walkExpr(r)
		}
		s.emit("return")
	case *ast.DeferStmt:
		s.emit("defer {")
		s.depth++
		s.walkExpr(x.Call)
		s.depth--
		s.emit("}")
	case *ast.GoStmt:
		s.emit("go {")
		s.depth++
		s.walkExpr(x.Call)
		s.depth--
		s.emit("}")
	case *ast.IfStmt:
		if x.Init != nil {
			s.walkStmt(x.Init)
		}
		s.walkExpr(x.Cond)
		s.emit("if {")
		s.depth++
		s.walkBlock(x.Body)
		s.depth--
		if x.Else != nil {
			s.emit("} else {")
			s.depth++
			s.walkStmt(x.Else)
			s.depth--
		}
		s.emit("}")
	case *ast.ForStmt:
		s.emit("for {")
		s.depth++
		if x.Init != nil {
			s.walkStmt(x.Init)
		}
		s.walkExpr(x.Cond)
		s.walkBlock(x.Body)
		if x.Post != nil {
			s.walkStmt(x.Post)
		}
		s.depth--
		s.emit("}")
	case *ast.RangeStmt:
		s.walkExpr(x.X)
		s.emit("range {")
		s.depth++
		s.walkBlock(x.Body)
		s.depth--
		s.emit("}")
	case *ast.SelectStmt:
		s.emit("select {")
		s.depth++
		for _, c := range x.Body.List {
			cc := c.(*ast.CommClause)
			if cc.Comm == nil {
				s.emit("default:")
			} else {
				s.emit("case %s:", expr(s.fset, cc.Comm))
			}
			s.depth++
			for _, b := range cc.Body {
				s.walkStmt(b)
			}
			s.depth--
		}
		s.depth--
		s.emit("}")
	case *ast.SwitchStmt:
		if x.Init != nil {
			s.walkStmt(x.Init)
		}
		s.walkExpr(x.Tag)
		s.emit("switch {")
		s.depth++
		for _, c := range x.Body.List {
			cc := c.(*ast.CaseClause)
			s.emit("case:")
			s.depth++
			for _, b := range cc.Body {
				s.walkStmt(b)
			}
			s.depth--
		}
		s.depth--
		s.emit("}")
	case *ast.TypeSwitchStmt:
		s.emit("typeswitch {")
		s.depth++
		for _, c := range x.Body.List {
			cc := c.(*ast.CaseClause)
			s.emit("case:")
			s.depth++
			for _, b := range cc.Body {
				s.walkStmt(b)
			}
			s.depth--
		}
		s.depth--
		s.emit("}")
	case *ast.LabeledStmt:
		s.walkStmt(x.Stmt)
	case *ast.BranchStmt:
		s.emit("%s", x.Tok.String())
	}
}

// prune removes control blocks that contain no synchronisation operation at all (only plain
// return/continue/break or nothing): business logic that does not synchronise is not part of the listing.
func prune(lines []string) []string {
	plain := func(t string) bool { return t == "return" || t == "continue" || t == "break" || t == "goto" || t == "fallthrough" }
	for {
		changed := false
		out := []string{}
		for i := 0; i < len(lines); i++ {
			t := strings.TrimSpace(lines[i])
			if strings.HasSuffix(t, "{") && !strings.HasPrefix(t, "}") {
				// find the matching close at the same indentation, allowing "} else {" continuations
				ind := len(lines[i]) - len(strings.TrimLeft(lines[i], " "))
				j := i + 1
				onlyPlain := true
				for ; j < len(lines); j++ {
					tj := strings.TrimSpace(lines[j])
					indj := len(lines[j]) - len(strings.TrimLeft(lines[j], " "))
					if indj == ind && tj == "}" {
						break
					}
					if indj == ind && tj == "} else {" {
						continue
					}
					if !plain(tj) {
						onlyPlain = false
					}
				}
				if onlyPlain && j < len(lines) {
					i = j
					changed = true
					continue
				}
			}
			out = append(out, lines[i])
		}
		lines = out
		if !changed {
			return lines
		}
	}
}

func main() {
	file := flag.String("file", "", "Go source file")
	funcs := flag.String("funcs", "", "comma separated: Func or Recv.Method")
	calls := flag.String("calls", "", "comma separated call-out method names")
	consts := flag.String("consts", "", "comma separated package-level const/var names whose defining expression is printed")
	inline := flag.Bool("inline", false, "inline the listings of same-file helper functions at their call sites")
	fold := flag.Bool("fold", false, "with -consts: print defining expressions with constant sub-expressions folded to their values")
	normc := flag.String("normconsts", "", "rewrite the const/var lines of this expectation file in folded form and exit")
	flag.Parse()
	if *normc != "" {
		normExpectation(*normc)
		return
	}
	fset := token.NewFileSet()
	f, err := parser.ParseFile(fset, *file, nil, 0)
	if err != nil {
		fmt.Fprintln(os.Stderr, err)
		os.Exit(2)
	}
	want := map[string]bool{}
	for _, n := range strings.Split(*funcs, ",") {
		if n != "" {
			want[n] = true
		}
	}
	cs := map[string]bool{}
	for _, n := range strings.Split(*calls, ",") {
		if n != "" {
			cs[n] = true
		}
	}
	found := map[string]bool{}
	// package-level constants / variables the models take their numbers from: printed as written in the source
	wantC := map[string]bool{}
	for _, n := range strings.Split(*consts, ",") {
		if n != "" {
			wantC[n] = true
		}
	}
	fl := &folder{fset: fset, consts: map[string]ast.Expr{}, busy: map[string]bool{}}
	for _, d := range f.Decls {
		if gd, ok := d.(*ast.GenDecl); ok && gd.Tok == token.CONST {
			for _, sp := range gd.Specs {
				vs := sp.(*ast.ValueSpec)
				for i, id := range vs.Names {
					if i < len(vs.Values) {
						fl.consts[id.Name] = vs.Values[i]
					}
				}
			}
		}
	}
	for _, d := range f.Decls {
		gd, ok := d.(*ast.GenDecl)
		if !ok || (gd.Tok != token.CONST && gd.Tok != token.VAR) {
			continue
		}
		for _, sp := range gd.Specs {
			vs := sp.(*ast.ValueSpec)
			for i, id := range vs.Names {
				if !wantC[id.Name] {
					continue
				}
				val := "<no initialiser: iota/previous expression or zero value>"
				if i < len(vs.Values) {
					var sb strings.Builder
					printer.Fprint(&sb, fset, vs.Values[i])
					val = strings.Join(strings.Fields(sb.String()), " ")
					if *fold {
						val = fl.norm(vs.Values[i])
					}
				}
				fmt.Printf("%s %s = %s\n", gd.Tok, id.Name, val)
				delete(wantC, id.Name)
			}
		}
	}
	for _, n := range strings.Split(*consts, ",") { // in the order asked for: deterministic output
		if wantC[n] {
			fmt.Printf("const %s MISSING\n", n)
		}
	}
	for _, d := range f.Decls {
		fd, ok := d.(*ast.FuncDecl)
		if !ok || fd.Body == nil {
			continue
		}
		name := fd.Name.Name
		if fd.Recv != nil && len(fd.Recv.List) > 0 {
			t := fd.Recv.List[0].Type
			if st, ok := t.(*ast.StarExpr); ok {
				t = st.X
			}
			if ix, ok := t.(*ast.IndexExpr); ok {
				t = ix.X
			}
			if id, ok := t.(*ast.Ident); ok {
				name = id.Name + "." + name
			}
		}
		if !want[name] {
			continue
		}
		found[name] = true
		sc := &scanner{fset: fset, calls: cs}
		if *inline {
			sc.inline = map[string]*ast.FuncDecl{}
			sc.inlining = map[string]bool{}
			dup := map[string]bool{}
			for _, d2 := range f.Decls {
				if fd2, ok := d2.(*ast.FuncDecl); ok && fd2.Body != nil && fd2 != fd {
					if sc.inline[fd2.Name.Name] != nil {
						dup[fd2.Name.Name] = true
					}
					sc.inline[fd2.Name.Name] = fd2
					// also under "Recv.Method": a call through an embedded field `x.recv.Method()` picks its method
					if fd2.Recv != nil && len(fd2.Recv.List) == 1 {
						t := fd2.Recv.List[0].Type
						if st, ok := t.(*ast.StarExpr); ok {
							t = st.X
						}
						if ix, ok := t.(*ast.IndexExpr); ok {
							t = ix.X
						}
						if id, ok := t.(*ast.Ident); ok {
							sc.inline[id.Name+"."+fd2.Name.Name] = fd2
						}
					}
				}
			}
			for n := range dup {
				delete(sc.inline, n)
			}
		}
		sc.walkBlock(fd.Body)
		fmt.Printf("func %s\n", name)
		for _, l := range prune(sc.out) {
			fmt.Println("  " + l)
		}
	}
	for n := range want {
		if !found[n] {
			fmt.Printf("func %s\n  MISSING\n", n)
		}
	}
}
