-- Root of the `Otel` library; all modules under Otel/ are built through the `globs` entry of lakefile.toml.
import Otel.Base.Wire
