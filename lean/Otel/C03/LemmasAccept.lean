/- C03 — lemmas: the set of traceparent headers `extract` accepts, positionally (helpers for PropsDeep.lean) -/
import Otel.C03.SpecDeep
import Otel.C03.LemmasShape
namespace Otel.C03
open Otel

/-- the header spelled by a version byte, two ids, a flag byte and a tail -/
def encTP (v : UInt8) (tid sid : Bytes) (o : UInt8) (tail : Bytes) : Bytes :=
  hexEncode [v] ++ 0x2d :: (hexEncode tid ++ 0x2d :: (hexEncode sid ++ 0x2d :: (hexEncode [o] ++ tail)))

theorem extract_fields (v o : UInt8) (tid sid tail t : Bytes) (ht : tid.length = 16) (hs : sid.length = 8)
    (htail : tail = [] ∨ ∃ r, tail = 0x2d :: r) :
    extract (encTP v tid sid o tail) t =
      if v.toNat > 254 then none
      else if v.toNat == 0 && (tail.drop 1 != [] || o.toNat > 2) then none
      else if allZero tid || allZero sid then none
      else some { tid := tid, sid := sid, flags := o &&& 0x01, ts := parseOrEmpty t, remote := true } := by
  have hne : encTP v tid sid o tail ≠ [] := by simp [encTP, hexEncode]
  unfold extract
  simp only [hne, if_false]
  unfold encTP
  rw [extractPart_mid [v] _ 2 (by simp)]
  simp only []
  rw [extractPart_mid tid _ 32 (by omega)]
  simp only []
  rw [extractPart_mid sid _ 16 (by omega)]
  simp only []
  have h4 : extractPart (hexEncode [o] ++ tail) 2 = (some [o], tail.drop 1) := by
    rcases htail with e | ⟨r, e⟩
    · subst e; simpa using extractPart_end [o] 2 (by simp)
    · subst e; simpa using extractPart_mid [o] r 2 (by simp)
  rw [h4]
  simp only [List.headD_cons]
  by_cases h1 : v.toNat > 254
  · simp [h1]
  · simp only [h1, if_false]
    show (if (v.toNat == 0 && (List.drop 1 tail != [] || decide (o.toNat > 2))) = true then none else _) = _
    by_cases h2 : (v.toNat == 0 && (List.drop 1 tail != [] || decide (o.toNat > 2))) = true
    · rw [if_pos h2, if_pos h2]
    · rw [if_neg h2, if_neg h2]
      cases h3 : allZero tid <;> cases h4' : allZero sid <;> simp [SpanCtx.isValid, h3, h4']

/-- inversion: whatever `extract` accepts is spelled `encTP …` -/
theorem extract_inv_fields (h t : Bytes) (sc : SpanCtx) (he : extract h t = some sc) :
    ∃ v o tid sid tail, h = encTP v tid sid o tail ∧ tid.length = 16 ∧ sid.length = 8 ∧
      (tail = [] ∨ ∃ r, tail = 0x2d :: r) := by
  unfold extract at he
  by_cases h0 : h = []
  · simp [h0] at he
  · simp only [h0, if_false] at he
    rcases hp1 : extractPart h 2 with ⟨_ | ver, h1⟩
    · simp [hp1] at he
    · simp only [hp1] at he
      by_cases hv : (ver.headD 0).toNat > 254
      · simp only [hv, if_true, reduceCtorEq] at he
      · simp only [hv, if_false] at he
        rcases hp2 : extractPart h1 32 with ⟨_ | tid, h2⟩
        · simp [hp2] at he
        · simp only [hp2] at he
          rcases hp3 : extractPart h2 16 with ⟨_ | sid, h3⟩
          · simp [hp3] at he
          · simp only [hp3] at he
            rcases hp4 : extractPart h3 2 with ⟨_ | opts, h4⟩
            · simp [hp4] at he
            · obtain ⟨V, t1, rfl, hVl, hVh, hVe, ht1⟩ := extractPart_inv _ _ _ _ hp1
              obtain ⟨T, t2, rfl, hTl, hTh, hTe, ht2⟩ := extractPart_inv _ _ _ _ hp2
              obtain ⟨S, t3, rfl, hSl, hSh, hSe, ht3⟩ := extractPart_inv _ _ _ _ hp3
              obtain ⟨F, t4, rfl, hFl, hFh, hFe, ht4⟩ := extractPart_inv _ _ _ _ hp4
              have e1 : t1 = 0x2d :: (T ++ t2) := by
                rcases ht1 with ⟨_, e⟩ | e
                · have := congrArg List.length e; simp [hTl] at this
                · exact e
              have e2 : t2 = 0x2d :: (S ++ t3) := by
                rcases ht2 with ⟨_, e⟩ | e
                · have := congrArg List.length e; simp [hSl] at this
                · exact e
              have e3 : t3 = 0x2d :: (F ++ t4) := by
                rcases ht3 with ⟨_, e⟩ | e
                · have := congrArg List.length e; simp [hFl] at this
                · exact e
              have e4 : t4 = [] ∨ ∃ r, t4 = 0x2d :: r := by
                rcases ht4 with ⟨e, _⟩ | e
                · exact Or.inl e
                · exact Or.inr ⟨_, e⟩
              have l1 := extractPart_len _ _ _ _ hp1
              have l2 := extractPart_len _ _ _ _ hp2
              have l3 := extractPart_len _ _ _ _ hp3
              have l4 := extractPart_len _ _ _ _ hp4
              obtain ⟨v, rfl⟩ : ∃ v, ver = [v] := by
                match ver, l1 with
                | [v], _ => exact ⟨v, rfl⟩
              obtain ⟨o, rfl⟩ : ∃ o, opts = [o] := by
                match opts, l4 with
                | [o], _ => exact ⟨o, rfl⟩
              refine ⟨v, o, tid, sid, t4, ?_, by omega, by omega, e4⟩
              subst e1 e2 e3
              simp only [encTP, hVe, hTe, hSe, hFe]

/-! ### positions -/

theorem enc_positions (V T S F tail : Bytes) (hV : V.length = 2) (hT : T.length = 32) (hS : S.length = 16)
    (hF : F.length = 2) :
    let h := V ++ 0x2d :: (T ++ 0x2d :: (S ++ 0x2d :: (F ++ tail)))
    h.length = 55 + tail.length ∧ h.take 2 = V ∧ (h.drop 53).take 2 = F ∧ h.drop 55 = tail := by
  intro h
  refine ⟨by simp [h, hV, hT, hS, hF]; omega, List.take_left' hV, ?_, ?_⟩
  · have : h = (V ++ [0x2d] ++ T ++ [0x2d] ++ S ++ [0x2d]) ++ (F ++ tail) := by simp [h]
    rw [this]; exact drop_take_mid _ _ _ _ _ (by simp [hV, hT, hS]) hF
  · have : h = (V ++ [0x2d] ++ T ++ [0x2d] ++ S ++ [0x2d] ++ F) ++ tail := by simp [h]
    rw [this]; exact List.drop_left' (by simp [hV, hT, hS, hF])

theorem drop_cons_of_get (l : Bytes) (n : Nat) (c : UInt8) (h : l[n]? = some c) : l.drop n = c :: l.drop (n + 1) := by
  have hlt : n < l.length := by
    apply Classical.byContradiction
    intro hge
    rw [List.getElem?_eq_none (by omega)] at h
    exact absurd h (by simp)
  rw [List.drop_eq_getElem_cons hlt]
  rw [List.getElem?_eq_getElem hlt] at h
  rw [Option.some.inj h]

theorem positional_decomp (h : Bytes) (h2 : h[2]? = some 0x2d) (h35 : h[35]? = some 0x2d) (h52 : h[52]? = some 0x2d) :
    h = h.take 2 ++ 0x2d :: ((h.drop 3).take 32 ++ 0x2d :: ((h.drop 36).take 16 ++ 0x2d :: ((h.drop 53).take 2 ++ h.drop 55))) := by
  have a1 : h.take 2 ++ h.drop 2 = h := List.take_append_drop 2 h
  have a2 := drop_cons_of_get h 2 _ h2
  have a3 : (h.drop 3).take 32 ++ h.drop 35 = h.drop 3 := by
    have := List.take_append_drop 32 (h.drop 3)
    simpa [List.drop_drop] using this
  have a4 := drop_cons_of_get h 35 _ h35
  have a5 : (h.drop 36).take 16 ++ h.drop 52 = h.drop 36 := by
    have := List.take_append_drop 16 (h.drop 36)
    simpa [List.drop_drop] using this
  have a6 := drop_cons_of_get h 52 _ h52
  have a7 : (h.drop 53).take 2 ++ h.drop 55 = h.drop 53 := by
    have := List.take_append_drop 2 (h.drop 53)
    simpa [List.drop_drop] using this
  rw [a7, ← a6, a5, ← a4, a3, ← a2, a1]

theorem hex_single (V : Bytes) (hl : V.length = 2) (hh : V.all W3C.hexdiglc = true) : ∃ v, hexEncode [v] = V := by
  obtain ⟨X, hX⟩ := hexEncode_surj V hh (by omega)
  have := hexEncode_length X
  rw [hX, hl] at this
  match X, this with
  | [v], _ => exact ⟨v, hX⟩

theorem hex_of_len (T : Bytes) (n : Nat) (hl : T.length = 2 * n) (hh : T.all W3C.hexdiglc = true) :
    ∃ X, hexEncode X = T ∧ X.length = n := by
  obtain ⟨X, hX⟩ := hexEncode_surj T hh (by omega)
  have := hexEncode_length X
  rw [hX, hl] at this
  exact ⟨X, hX, by omega⟩

end Otel.C03
