/-
C03 — executable model of W3C trace-context propagation as implemented in
  /repo/propagation/trace_context.go   (Inject, extract, extractPart, upperHex)
  /repo/trace/tracestate.go            (checkKey*, checkValue, newMember, parseMember, ParseTraceState,
                                        String, Get, Insert, Delete, Len)
  /repo/trace/trace.go                 (TraceIDFromHex, SpanIDFromHex, decodeHex, IsValid)
Core Lean only. Go strings are byte strings (`Otel.Bytes`); `for _, r := range s` is `Utf8.chunks`.
The model mirrors the code as it is now (after fix 2d8c5e7: checkKeyRemain iterates bytes).
-/
import Otel.Base.Utf8
namespace Otel.C03
open Otel

/-! ## generic byte-string helpers (Go `strings`) -/

/-- `strings.Cut(s, sep)` for a one-byte separator: (before, after, found) -/
def cut (sep : UInt8) : Bytes → Bytes × Bytes × Bool
  | [] => ([], [], false)
  | b :: r =>
    if b = sep then ([], r, true)
    else
      let c := cut sep r
      (b :: c.1, c.2.1, c.2.2)

def isSpaceTab (b : UInt8) : Bool := b.toNat == 0x20 || b.toNat == 0x09
/-- `strings.TrimLeft(s, " \t")` -/
def trimLeft (s : Bytes) : Bytes := s.dropWhile isSpaceTab
/-- `strings.TrimRight(s, " \t")` -/
def trimRight (s : Bytes) : Bytes := (s.reverse.dropWhile isSpaceTab).reverse

/-! ## encoding/hex -/

def hexChar (n : Nat) : UInt8 := if n < 10 then UInt8.ofNat (48 + n) else UInt8.ofNat (87 + n)

/-- `hex.Encode` / `hex.EncodeToString` (lower-case) -/
def hexEncode (bs : Bytes) : Bytes := bs.flatMap (fun b => [hexChar (b.toNat / 16), hexChar (b.toNat % 16)])

/-- `reverseHexTable`: 0-9, a-f and A-F are accepted by encoding/hex -/
def hexVal (c : UInt8) : Option Nat :=
  let n := c.toNat
  if 48 ≤ n ∧ n ≤ 57 then some (n - 48)
  else if 97 ≤ n ∧ n ≤ 102 then some (n - 87)
  else if 65 ≤ n ∧ n ≤ 70 then some (n - 55)
  else none

/-- `hex.Decode` / `hex.DecodeString`: `none` on an invalid byte or odd length -/
def hexDecode : Bytes → Option Bytes
  | [] => some []
  | [_] => none
  | a :: b :: r =>
    match hexVal a, hexVal b, hexDecode r with
    | some x, some y, some d => some (UInt8.ofNat (x * 16 + y) :: d)
    | _, _, _ => none

/-! ## trace/tracestate.go -/

structure Member where
  key : Bytes
  val : Bytes
deriving DecidableEq, Repr

/-- `TraceState.list`, newest first -/
abbrev TraceState := List Member

def checkValueChar (v : UInt8) : Bool :=
  0x20 ≤ v.toNat && v.toNat ≤ 0x7e && v.toNat != 0x2c && v.toNat != 0x3d
def checkValueLast (v : UInt8) : Bool :=
  0x21 ≤ v.toNat && v.toNat ≤ 0x7e && v.toNat != 0x2c && v.toNat != 0x3d

/-- `checkValue`: 1..256 bytes, all but the last pass `checkValueChar`, the last `checkValueLast` -/
def checkValue (val : Bytes) : Bool :=
  let n := val.length
  if n == 0 || n > 256 then false
  else
    (val.take (n - 1)).all checkValueChar &&
    (match val.getLast? with
     | some l => checkValueLast l
     | none => false)

def isAlphaNum (c : UInt8) : Bool :=
  (0x61 ≤ c.toNat && c.toNat ≤ 0x7a) || (0x30 ≤ c.toNat && c.toNat ≤ 0x39)

def keyRemainByte (v : UInt8) : Bool :=
  isAlphaNum v || v.toNat == 0x5f || v.toNat == 0x2d || v.toNat == 0x2a || v.toNat == 0x2f

/-- `checkKeyRemain` (after the F1 repair: `for i := 0; i < len(key); i++ { v := key[i] … }`) -/
def checkKeyRemain (key : Bytes) : Bool := key.all keyRemainByte

/-- `checkKeyPart(key, n)` -/
def checkKeyPart (key : Bytes) (n : Nat) : Bool :=
  match key with
  | [] => false
  | first :: rest =>
    decide (rest.length ≤ n) && (0x61 ≤ first.toNat && first.toNat ≤ 0x7a) && checkKeyRemain rest

/-- `checkKeyTenant(key, n)` -/
def checkKeyTenant (key : Bytes) (n : Nat) : Bool :=
  match key with
  | [] => false
  | first :: rest => isAlphaNum first && decide (rest.length ≤ n) && checkKeyRemain rest

/-- `checkKey`: `strings.Cut(key, "@")` at the FIRST '@' -/
def checkKey (key : Bytes) : Bool :=
  let c := cut 0x40 key
  if !c.2.2 then checkKeyPart key 255
  else checkKeyTenant c.1 240 && checkKeyPart c.2.1 13

/-- `newMember` (the error class is not observed) -/
def newMember (key value : Bytes) : Option Member :=
  if !checkKey key then none
  else if !checkValue value then none
  else some ⟨key, value⟩

/-- `parseMember` -/
def parseMember (m : Bytes) : Option Member :=
  let c := cut 0x3d m
  if !c.2.2 then none
  else newMember (trimLeft c.1) (trimRight c.2.1)

/-- the loop of `ParseTraceState` (`for ts != "" { memberStr, ts, _ = strings.Cut(ts, ",") … }`);
`fuel` bounds the number of iterations (each consumes at least one byte: `ts.length` suffices). -/
def parseLoop : Nat → Bytes → List Member → Option (List Member)
  | 0, _, acc => some acc
  | fuel + 1, ts, acc =>
    if ts = [] then some acc
    else
      let c := cut 0x2c ts
      if c.1 = [] then parseLoop fuel c.2.1 acc
      else
        match parseMember c.1 with
        | none => none
        | some m =>
          if acc.any (fun x => x.key == m.key) then none          -- errDuplicate
          else
            let acc' := acc ++ [m]
            if acc'.length > 32 then none                          -- errMemberNumber
            else parseLoop fuel c.2.1 acc'

/-- `ParseTraceState` (`none` = error) -/
def parseTraceState (ts : Bytes) : Option TraceState :=
  if ts = [] then some [] else parseLoop ts.length ts []

def memberString (m : Member) : Bytes := m.key ++ 0x3d :: m.val

/-- `TraceState.String` -/
def tsString : TraceState → Bytes
  | [] => []
  | m :: rest => memberString m ++ rest.flatMap (fun x => 0x2c :: memberString x)

/-- `TraceState.Get` -/
def tsGet (ts : TraceState) (key : Bytes) : Bytes :=
  match ts.find? (fun m => m.key == key) with
  | some m => m.val
  | none => []

/-- the `found` loop of `Insert` (no `break`: the LAST index whose key matches, else the initial value) -/
def findLastFrom (key : Bytes) : List Member → Nat → Nat → Nat
  | [], _, f => f
  | m :: r, i, f => findLastFrom key r (i + 1) (if m.key = key then i else f)

/-- `TraceState.Insert`: `none` = error (the receiver is returned unchanged) -/
def tsInsert (ts : TraceState) (key value : Bytes) : Option TraceState :=
  match newMember key value with
  | none => none
  | some m =>
    let n := ts.length
    let found := findLastFrom key ts 0 n
    let len := if found = n ∧ n < 32 then n + 1 else n
    -- cTS.list[0] = m ; copy(cTS.list[1:], ts.list[0:found])  (copy truncates at len)
    let head := (m :: ts.take found).take len
    if found < n then
      -- copy(cTS.list[1+found:], ts.list[found+1:])
      some (head ++ (ts.drop (found + 1)).take (len - (1 + found)))
    else some head

/-- `TraceState.Delete`: copy, remove the first match -/
def tsDelete (ts : TraceState) (key : Bytes) : TraceState := ts.eraseP (fun m => m.key == key)

/-! ## trace/trace.go -/

def isLowerHexRune (r : Nat) : Bool := (0x61 ≤ r && r ≤ 0x66) || (0x30 ≤ r && r ≤ 0x39)

/-- `decodeHex`: every RUNE in a-f0-9, then `hex.DecodeString` -/
def decodeHexId (h : Bytes) : Option Bytes :=
  if !(Utf8.chunks h).all (fun c => isLowerHexRune c.rune) then none
  else hexDecode h

def allZero (b : Bytes) : Bool := b.all (fun x => x.toNat == 0)

/-- `TraceIDFromHex` (n = 32) / `SpanIDFromHex` (n = 16) -/
def idFromHex (n : Nat) (h : Bytes) : Option Bytes :=
  if h.length != n then none
  else
    match decodeHexId h with
    | none => none
    | some t => if allZero t then none else some t

structure SpanCtx where
  tid : Bytes      -- [16]byte
  sid : Bytes      -- [8]byte
  flags : UInt8
  ts : TraceState
  remote : Bool
deriving DecidableEq, Repr

/-- the Go array types fix the lengths -/
def SpanCtx.wf (sc : SpanCtx) : Bool := sc.tid.length == 16 && sc.sid.length == 8
/-- `SpanContext.IsValid` -/
def SpanCtx.isValid (sc : SpanCtx) : Bool := !allZero sc.tid && !allZero sc.sid

/-! ## propagation/trace_context.go -/

/-- `Inject`: `none` = carrier untouched; else (traceparent, tracestate header if set) -/
def inject (sc : SpanCtx) : Option (Bytes × Option Bytes) :=
  if !sc.isValid then none
  else
    let s := tsString sc.ts
    let tsh := if s = [] then none else some s
    let flags := sc.flags &&& 0x01
    let tp := [0x30, 0x30] ++ (0x2d :: hexEncode sc.tid) ++ (0x2d :: hexEncode sc.sid) ++ (0x2d :: hexEncode [flags])
    some (tp, tsh)

/-- `upperHex`: some RUNE in 'A'..'F' -/
def upperHex (v : Bytes) : Bool := (Utf8.chunks v).any (fun c => 0x41 ≤ c.rune && c.rune ≤ 0x46)

/-- `extractPart(dst, &h, n)`: (decoded part or none, rest of h) -/
def extractPart (h : Bytes) (n : Nat) : Option Bytes × Bytes :=
  let c := cut 0x2d h
  let part := c.1
  let left := c.2.1
  if part.length != n || upperHex part then (none, left)
  else
    match hexDecode part with
    | none => (none, left)
    | some d => if d.length != n / 2 then (none, left) else (some d, left)

/-- `scc.TraceState, _ = trace.ParseTraceState(…)`: the error is ignored, the zero TraceState is kept -/
def parseOrEmpty (t : Bytes) : TraceState :=
  match parseTraceState t with
  | some ts => ts
  | none => []

/-- `extract` applied to the two header values (`carrier.Get` gives "" for an absent header) -/
def extract (h t : Bytes) : Option SpanCtx :=
  if h = [] then none
  else
    match extractPart h 2 with
    | (none, _) => none
    | (some ver, h1) =>
      let version := (ver.headD 0).toNat
      if version > 254 then none
      else
        match extractPart h1 32 with
        | (none, _) => none
        | (some tid, h2) =>
          match extractPart h2 16 with
          | (none, _) => none
          | (some sid, h3) =>
            match extractPart h3 2 with
            | (none, _) => none
            | (some opts, h4) =>
              let o := opts.headD 0
              if version == 0 && (h4 != [] || o.toNat > 2) then none
              else
                let ts := parseOrEmpty t
                let sc : SpanCtx := { tid := tid, sid := sid, flags := o &&& 0x01, ts := ts, remote := true }
                if !sc.isValid then none else some sc

/-- branch tag of `extract` for the coverage accounting of the driver -/
def extractBranch (h t : Bytes) : String :=
  if h = [] then "x-empty"
  else
    match extractPart h 2 with
    | (none, _) => "x-badver"
    | (some ver, h1) =>
      let version := (ver.headD 0).toNat
      if version > 254 then "x-verff"
      else
        match extractPart h1 32 with
        | (none, _) => "x-badtid"
        | (some tid, h2) =>
          match extractPart h2 16 with
          | (none, _) => "x-badsid"
          | (some sid, h3) =>
            match extractPart h3 2 with
            | (none, _) => "x-badflags"
            | (some opts, h4) =>
              let o := opts.headD 0
              if version == 0 && (h4 != [] || o.toNat > 2) then "x-v0extra"
              else if allZero tid || allZero sid then "x-zeroid"
              else
                (if version == 0 then "x-ok-v0" else if h4 != [] then "x-ok-vN-tail" else "x-ok-vN") ++
                (match parseTraceState t with
                 | some [] => ",ts-empty"
                 | some _ => ",ts-ok"
                 | none => ",ts-bad")

end Otel.C03
