/- C03 — lemmas: JSON string escaping of the model is inverted by the reference decoder; identifier String/FromHex -/
import Otel.C03.LemmasCarrier
import Otel.C03.LemmasAccept
namespace Otel.C03
open Otel

set_option maxRecDepth 100000 in
theorem byte_recompose' (c : UInt8) : UInt8.ofNat (c.toNat / 16) * 16 + UInt8.ofNat (c.toNat % 16) = c := by
  apply u8_forall (fun c => UInt8.ofNat (c.toNat / 16) * 16 + UInt8.ofNat (c.toNat % 16) = c)
  decide

theorem jsonDecTok_esc (c : UInt8) (rest : Bytes) : jsonDecTok (jsonEscByte c ++ rest) = some (c, rest) := by
  unfold jsonEscByte
  by_cases h1 : c = 0x22
  · subst h1; simp [jsonDecTok]
  · by_cases h2 : c = 0x5c
    · subst h2; simp [jsonDecTok]
    · simp only [h1, h2, if_false]
      by_cases h3 : c = 0x3c ∨ c = 0x3e ∨ c = 0x26 ∨ c.toNat < 0x20
      · simp only [h3, if_true]
        have hh := hexVal_hexChar (c.toNat / 16) (byte_div_lt c)
        have hl := hexVal_hexChar (c.toNat % 16) (byte_mod_lt c)
        simp [jsonDecTok, hh, hl, byte_recompose']
      · simp only [h3, if_false]
        simp [jsonDecTok, h1, h2]

theorem jsonEscByte_head (c : UInt8) : ∃ x r, jsonEscByte c = x :: r ∧ x ≠ 0x22 := by
  unfold jsonEscByte
  by_cases h1 : c = 0x22
  · exact ⟨0x5c, [0x22], by simp [h1], by decide⟩
  · by_cases h2 : c = 0x5c
    · exact ⟨0x5c, [0x5c], by simp [h2], by decide⟩
    · by_cases h3 : c = 0x3c ∨ c = 0x3e ∨ c = 0x26 ∨ c.toNat < 0x20
      · exact ⟨0x5c, [0x75, 0x30, 0x30, hexChar (c.toNat / 16), hexChar (c.toNat % 16)], by simp only [h1, h2, h3, if_false, if_true], by decide⟩
      · exact ⟨c, [], by simp only [h1, h2, h3, if_false], h1⟩

theorem jsonDecodeBody_esc (s : Bytes) : ∀ fuel, s.length < fuel →
    jsonDecodeBody fuel (s.flatMap jsonEscByte ++ [0x22]) = some s := by
  induction s with
  | nil =>
    intro fuel hf
    cases fuel with
    | zero => omega
    | succ n => simp [jsonDecodeBody]
  | cons c r ih =>
    intro fuel hf
    cases fuel with
    | zero => omega
    | succ n =>
      obtain ⟨x, t, hx, hne⟩ := jsonEscByte_head c
      have hcons : (c :: r).flatMap jsonEscByte ++ [0x22] = jsonEscByte c ++ (r.flatMap jsonEscByte ++ [0x22]) := by
        simp [List.flatMap_cons]
      have hnq : jsonEscByte c ++ (r.flatMap jsonEscByte ++ [0x22]) ≠ [0x22] := by
        rw [hx]; intro e
        simp only [List.cons_append, List.cons.injEq] at e
        exact hne e.1
      rw [hcons]
      simp only [jsonDecodeBody, hnq, if_false, jsonDecTok_esc]
      rw [ih n (by simp at hf; omega)]
      rfl

theorem flatMap_esc_length (s : Bytes) : s.length ≤ (s.flatMap jsonEscByte).length := by
  induction s with
  | nil => simp
  | cons c r ih =>
    obtain ⟨x, t, hx, _⟩ := jsonEscByte_head c
    simp only [List.flatMap_cons, List.length_append, List.length_cons, hx]
    omega

theorem jsonDecode_string (s : Bytes) : jsonDecode (jsonString s) = some s := by
  unfold jsonDecode jsonString
  simp only [if_true]
  apply jsonDecodeBody_esc
  have := flatMap_esc_length s
  have h2 : (List.flatMap jsonEscByte s ++ [0x22]).length = (List.flatMap jsonEscByte s).length + 1 := by
    rw [List.length_append]; rfl
  omega

theorem id_fromHex_string (n : Nat) (b : Bytes) (hl : 2 * b.length = n) :
    idFromHex n (idString b) = if allZero b then none else some b := by
  unfold idString
  cases hz : allZero b with
  | true =>
    simp only [if_true]
    cases hi : idFromHex n (hexEncode b) with
    | none => rfl
    | some t =>
      have := ((idFromHex_iff n _ t).mp hi).1
      simp [idHexOK, hexEncode_allZero, hz] at this
  | false =>
    simp only [Bool.false_eq_true, if_false]
    apply (idFromHex_iff n _ b).mpr
    refine ⟨?_, rfl⟩
    simp [idHexOK, W3C.hexField, hexEncode_length, hl, hexEncode_lower, hexEncode_allZero, hz]

set_option maxRecDepth 100000 in
theorem and1_facts (f : UInt8) : ((f &&& 1) &&& 254 = 0) ∧ ((f &&& 1 = f) ↔ (f &&& 254 = 0)) := by
  apply u8_forall (fun f => ((f &&& 1) &&& 254 = 0) ∧ ((f &&& 1 = f) ↔ (f &&& 254 = 0)))
  decide

end Otel.C03
