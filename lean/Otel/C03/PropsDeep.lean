/-
C03 — property theorems, second part: the glue around the W3C propagator (carriers, composite propagator,
SpanContext copy constructors), whole edit scripts, and the exact accepted languages of the two header parsers.
Model = Otel.C03.Model + Otel.C03.Carrier, Spec = Otel.C03.Spec + Otel.C03.SpecDeep.
-/
import Otel.C03.LemmasCarrier
import Otel.C03.LemmasAccept2
import Otel.C03.LemmasTs
import Otel.C03.LemmasJson
namespace Otel.C03
open Otel

/-! ### edit scripts -/

/-- Clause "Editing a tracestate (insert, update, delete) preserves those invariants, puts the newest member first
and drops only the right-most member on overflow" for EVERY sequence of edits: starting from a TraceState that
satisfies the invariant (the empty one, or anything `ParseTraceState` returned), the code's `Insert`/`Delete` calls
compute exactly what the reference ordered key-unique list bounded by 32 computes, the invariant holds after the
script, and `Get` answers like the reference lookup. -/
theorem edits_refine (ops : List TsOp) (ts : TraceState) (h : TSInv ts) :
    tsRun ts ops = refRun ts ops ∧ TSInv (tsRun ts ops) ∧ ∀ k, tsGet (tsRun ts ops) k = refGet (refRun ts ops) k := by
  induction ops generalizing ts with
  | nil => exact ⟨rfl, h, fun k => tsGet_eq_ref ts k⟩
  | cons op r ih =>
    cases op with
    | ins k v =>
      have hs := insert_spec ts k v h
      have hinv : TSInv ((tsInsert ts k v).getD ts) := by
        cases hi : tsInsert ts k v with
        | none => simpa using h
        | some ts' => simpa using hs.2 ts' hi
      have := ih _ hinv
      simp only [tsRun, refRun]
      rw [← hs.1]
      exact this
    | del k =>
      have hs := delete_spec ts k h
      have := ih _ hs.2
      simp only [tsRun, refRun, refDelete]
      rw [← hs.1]
      exact this

/-- … in particular for every script applied to the result of parsing an arbitrary header -/
theorem edits_refine_parsed (b : Bytes) (ts : TraceState) (hp : parseTraceState b = some ts) (ops : List TsOp) :
    tsRun ts ops = refRun ts ops ∧ TSInv (tsRun ts ops) :=
  let r := edits_refine ops ts (parse_sound b ts hp); ⟨r.1, r.2.1⟩

/-- `Get` is the reference lookup (first member with that key) on every TraceState -/
theorem get_spec (ts : TraceState) (k : Bytes) : tsGet ts k = refGet ts k := tsGet_eq_ref ts k

/-! ### carriers -/

/-- MapCarrier and HeaderCarrier satisfy the carrier laws (Get after Set), MapCarrier with keys compared as they are,
HeaderCarrier with keys compared after MIME canonicalisation; in both, "traceparent" and "tracestate" address
different slots. -/
theorem carriers_lawful :
    LawfulCarrier mapOps mapSame ∧ LawfulCarrier headerOps headerSame ∧
    mapSame tpKey tsKey = false ∧ headerSame tpKey tsKey = false :=
  ⟨map_lawful, header_lawful, map_keys_distinct, header_keys_distinct⟩

/-- Clause "Injecting any valid span context into a carrier and extracting it again yields a remote span context with
the same trace ID, span ID, sampled flag and tracestate" through ANY lawful carrier (MapCarrier, HeaderCarrier, …),
whatever the carrier held before — provided that a span context with an EMPTY tracestate is not injected into a
carrier that still answers Get("tracestate") with something (Inject does not clear that header: see
`stale_tracestate_witness`). -/
theorem carrier_roundtrip {C : Type} (ops : CarrierOps C) (same : Bytes → Bytes → Bool) (hl : LawfulCarrier ops same)
    (hd : same tpKey tsKey = false) (sc : SpanCtx) (hwf : sc.wf = true) (hv : sc.isValid = true) (hts : TSInv sc.ts)
    (c : C) (hstale : sc.ts = [] → ops.get c tsKey = []) :
    tcExtract ops (tcInject ops sc c) = some { sc with flags := sc.flags &&& 0x01, remote := true } :=
  carrier_rt ops same hl hd sc hwf hv hts c hstale

/-- the side condition of `carrier_roundtrip` is needed: injecting a span context without tracestate into a
MapCarrier that still holds "tracestate: o=1" and extracting gives a span context WITH the old tracestate. -/
theorem stale_tracestate_witness :
    let sc : SpanCtx := ⟨[1, 2, 3, 4, 5, 6, 7, 8, 9, 10, 11, 12, 13, 14, 15, 16], [0, 0xf0, 0x67, 0xaa, 0x0b, 0xa9, 0x02, 0xb7], 1, [], false⟩
    let c : MapCarrier := [(tsKey, [0x6f, 0x3d, 0x31])]
    sc.wf = true ∧ sc.isValid = true ∧ TSInv sc.ts ∧
    (tcExtract mapOps (tcInject mapOps sc c)).map (·.ts) = some [⟨[0x6f], [0x31]⟩] := by
  decide

/-- HeaderCarrier keys: MIME canonicalisation is idempotent, so `Get` is insensitive to the spelling of the key — it
answers the same for a key and for its canonical form (the form `Keys()` lists after `Set`) -/
theorem header_get_case_insensitive (c : HeaderCarrier) (k k' : Bytes) :
    canonicalKey (canonicalKey k) = canonicalKey k ∧ hcGet c (canonicalKey k) = hcGet c k ∧
    (headerSame k k' = true → hcGet c k = hcGet c k') := by
  refine ⟨canonicalKey_idem' k, by simp [hcGet, canonicalKey_idem'], ?_⟩
  intro h
  simp only [headerSame, beq_iff_eq] at h
  simp [hcGet, h]

/-- what `Inject` writes conforms to the W3C grammar, for every valid span context whose tracestate satisfies the
invariant: a version-00 traceparent (lower-case hex, non-zero ids, 55 bytes) and, when the tracestate is not empty,
a tracestate header of at most 32 unique legal members — in whatever lawful carrier. -/
theorem inject_conforms {C : Type} (ops : CarrierOps C) (same : Bytes → Bytes → Bool) (hl : LawfulCarrier ops same)
    (hd : same tpKey tsKey = false) (sc : SpanCtx) (hwf : sc.wf = true) (hv : sc.isValid = true) (hts : TSInv sc.ts) (c : C) :
    W3C.traceparentOK (ops.get (tcInject ops sc c) tpKey) = true ∧
    (sc.ts ≠ [] → W3C.tracestateOK (ops.get (tcInject ops sc c) tsKey) = true) ∧
    (sc.ts = [] → ops.get (tcInject ops sc c) tsKey = ops.get c tsKey) := by
  simp only [SpanCtx.wf, Bool.and_eq_true, beq_iff_eq] at hwf
  have hz : allZero sc.tid = false ∧ allZero sc.sid = false := by
    simp only [SpanCtx.isValid, Bool.and_eq_true, Bool.not_eq_true'] at hv; exact hv
  have hinj : inject sc = some (canonTP sc.tid sc.sid (sc.flags &&& 0x01),
      if tsString sc.ts = [] then none else some (tsString sc.ts)) := by
    simp [inject, hv, canonTP]
  unfold tcInject
  rw [hinj]
  simp only [hl.get_set, hl.same_refl, hd, if_true, Bool.false_eq_true, if_false]
  refine ⟨traceparentOK_canon _ _ _ hwf.1 hwf.2 hz.1 hz.2, ?_, ?_⟩
  · intro hne
    have : tsString sc.ts ≠ [] := fun e => hne ((tsString_eq_nil _).mp e)
    simp only [this, if_false, hl.get_set, hl.same_refl, if_true]
    exact tracestateOK_string sc.ts hts hne
  · intro he
    have : tsString sc.ts = [] := (tsString_eq_nil _).mpr he
    simp [this]

/-- every TraceState that can be built through the API from the empty one (any sequence of Insert / Delete calls,
failing ones included) satisfies the invariant — so the hypothesis `TSInv` of the round-trip theorems holds for every
span context a program can construct, and the round trip holds for all of them. -/
theorem api_roundtrip {C : Type} (ops : CarrierOps C) (same : Bytes → Bytes → Bool) (hl : LawfulCarrier ops same)
    (hd : same tpKey tsKey = false) (script : List TsOp) (tid sid : Bytes) (flags : UInt8) (remote : Bool)
    (ht : tid.length = 16) (hs : sid.length = 8) (htz : allZero tid = false) (hsz : allZero sid = false)
    (c : C) (hstale : tsRun [] script = [] → ops.get c tsKey = []) :
    TSInv (tsRun [] script) ∧
    tcExtract ops (tcInject ops ⟨tid, sid, flags, tsRun [] script, remote⟩ c) =
      some ⟨tid, sid, flags &&& 0x01, tsRun [] script, true⟩ :=
  ⟨tsRun_nil_inv script,
   carrier_rt ops same hl hd ⟨tid, sid, flags, tsRun [] script, remote⟩ (by simp [SpanCtx.wf, ht, hs])
     (by simp [SpanCtx.isValid, htz, hsz]) (tsRun_nil_inv script) c hstale⟩

/-! ### the composite propagator -/

/-- The round trip through `NewCompositeTextMapPropagator(pre…, TraceContext{}, post…)` for ANY other members that
respect the frame (their Inject does not change what Get("traceparent") / Get("tracestate") answer, their Extract does
not replace the span), any lawful carrier, any starting context of Extract: the span context comes back remote with
the same ids, sampled flag and tracestate. -/
theorem composite_roundtrip {β C : Type} (ops : CarrierOps C) (same : Bytes → Bytes → Bool) (hl : LawfulCarrier ops same)
    (hd : same tpKey tsKey = false) (pre post : List (Propagator β C))
    (hpre : ∀ p ∈ pre, Frame ops p) (hpost : ∀ p ∈ post, Frame ops p)
    (ctx ctx0 : Ctx β) (sc : SpanCtx) (hs : ctx.span = some sc)
    (hwf : sc.wf = true) (hv : sc.isValid = true) (hts : TSInv sc.ts)
    (c : C) (hstale : sc.ts = [] → ops.get c tsKey = []) :
    let ps := pre ++ tcPropagator ops :: post
    (compExtract ps ctx0 (compInject ps ctx c)).span = some { sc with flags := sc.flags &&& 0x01, remote := true } := by
  intro ps
  have hinj : compInject ps ctx c = compInject post ctx (tcInject ops sc (compInject pre ctx c)) := by
    show compInject (pre ++ tcPropagator ops :: post) ctx c = _
    rw [compInject_append]
    simp [compInject, tcPropagator, hs]
  have hc1 := compInject_frame ops pre hpre ctx c
  have hrt := carrier_rt ops same hl hd sc hwf hv hts (compInject pre ctx c) (fun e => by rw [hc1.2]; exact hstale e)
  have hc3 := compInject_frame ops post hpost ctx (tcInject ops sc (compInject pre ctx c))
  have hex3 : tcExtract ops (compInject ps ctx c) = some { sc with flags := sc.flags &&& 0x01, remote := true } := by
    rw [hinj]
    unfold tcExtract at hrt ⊢
    rw [hc3.1, hc3.2]
    exact hrt
  show (compExtract (pre ++ tcPropagator ops :: post) ctx0 (compInject ps ctx c)).span = _
  rw [compExtract_append]
  have : compExtract (tcPropagator ops :: post) (compExtract pre ctx0 (compInject ps ctx c)) (compInject ps ctx c)
      = compExtract post ((tcPropagator ops).extract (compExtract pre ctx0 (compInject ps ctx c)) (compInject ps ctx c))
          (compInject ps ctx c) := by
    simp [compExtract]
  rw [this, compExtract_frame ops post hpost]
  simp [tcPropagator, hex3]

/-- the harness's probe propagators (and any propagator that only Sets / Gets keys addressing other slots than
"traceparent" and "tracestate") respect the frame -/
theorem tag_frame {C : Type} (ops : CarrierOps C) (same : Bytes → Bytes → Bool) (hl : LawfulCarrier ops same)
    (key val : Bytes) (h1 : same key tpKey = false) (h2 : same key tsKey = false) :
    Frame ops (tagPropagator ops key val) := by
  refine ⟨fun ctx c => ?_, fun ctx c => rfl⟩
  simp [tagPropagator, hl.get_set, h1, h2]

/-- `propagation.Baggage{}` (as modelled here: it Sets only "baggage" and never touches the span) respects the frame in
both carriers, so `composite_roundtrip` covers the usual `NewCompositeTextMapPropagator(TraceContext{}, Baggage{})` in
either order, through MapCarrier and through HeaderCarrier. -/
theorem baggage_member_frame {β : Type} (bagOf : Ctx β → Bytes) :
    Frame mapOps (bagPropagator (β := β) mapOps bagOf) ∧ Frame headerOps (bagPropagator (β := β) headerOps bagOf) := by
  have hm1 : mapSame bagKey tpKey = false := by decide
  have hm2 : mapSame bagKey tsKey = false := by decide
  have hh1 : headerSame bagKey tpKey = false := by decide
  have hh2 : headerSame bagKey tsKey = false := by decide
  constructor
  · refine ⟨fun ctx c => ?_, fun ctx c => rfl⟩
    simp only [bagPropagator]
    split
    · exact ⟨rfl, rfl⟩
    · simp [map_lawful.get_set, hm1, hm2]
  · refine ⟨fun ctx c => ?_, fun ctx c => rfl⟩
    simp only [bagPropagator]
    split
    · exact ⟨rfl, rfl⟩
    · simp [header_lawful.get_set, hh1, hh2]

/-- a SpanContext copy constructor changes exactly its own field -/
theorem spanctx_with_frame (sc : SpanCtx) (op : ScOp) :
    (match op with
     | .tid b => scApply sc op = { sc with tid := b }
     | .sid b => scApply sc op = { sc with sid := b }
     | .flags f => scApply sc op = { sc with flags := f }
     | .remote r => scApply sc op = { sc with remote := r }
     | .ts t => scApply sc op = { sc with ts := t }
     | .sampled s => scApply sc op = { sc with flags := withSampled sc.flags s } ∧
         isSampled (withSampled sc.flags s) = s ∧ (withSampled sc.flags s) &&& 0xfe = sc.flags &&& 0xfe) := by
  cases op <;> simp only [scApply, true_and]
  rename_i s
  cases s
  · simp only [withSampled, isSampled, Bool.false_eq_true, if_false]
    exact withSampled_false sc.flags
  · simp only [withSampled, isSampled, if_true]
    exact withSampled_true sc.flags

/-! ### identifiers: String / FromHex / MarshalJSON -/

/-- `TraceIDFromHex(t.String()) = t` and `SpanIDFromHex(s.String()) = s` for every identifier that is not all zero; for
the all-zero identifier the parse is an error (n = 32 with 16 bytes, n = 16 with 8 bytes). Conversely whatever the
parsers return spells the input: `FromHex(h) = t → t.String() = h`. -/
theorem id_string_fromhex (n : Nat) (b : Bytes) (hl : 2 * b.length = n) :
    idFromHex n (idString b) = (if allZero b then none else some b) ∧
    (∀ h t, idFromHex n h = some t → idString t = h) :=
  ⟨id_fromHex_string n b hl, fun h t hi => ((idFromHex_iff n h t).mp hi).2⟩

/-- an identifier string with an upper-case hex digit, any byte outside 0-9a-f (multi-byte runes included), the wrong
length, or only '0' digits is rejected -/
theorem id_fromhex_rejects (n : Nat) (h : Bytes) :
    ((∃ c ∈ h, W3C.hexdiglc c = false) → idFromHex n h = none) ∧
    ((∃ c ∈ h, 0x41 ≤ c.toNat ∧ c.toNat ≤ 0x46) → idFromHex n h = none) ∧
    (h.length ≠ n → idFromHex n h = none) ∧
    (W3C.allZeroDigits h = true → idFromHex n h = none) := by
  have key : ∀ t, idFromHex n h = some t → idHexOK n h = true := fun t hi => ((idFromHex_iff n h t).mp hi).1
  have none_of : idHexOK n h = false → idFromHex n h = none := by
    intro hf
    cases hi : idFromHex n h with
    | none => rfl
    | some t => rw [key t hi] at hf; cases hf
  refine ⟨?_, ?_, ?_, ?_⟩
  · rintro ⟨c, hc, hlow⟩
    apply none_of
    simp only [idHexOK, W3C.hexField, Bool.and_eq_false_iff]
    left; right
    rw [List.all_eq_false]
    exact ⟨c, hc, by simp [hlow]⟩
  · rintro ⟨c, hc, h1, h2⟩
    apply none_of
    simp only [idHexOK, W3C.hexField, Bool.and_eq_false_iff]
    left; right
    rw [List.all_eq_false]
    refine ⟨c, hc, ?_⟩
    simp only [W3C.hexdiglc, Bool.not_eq_true, Bool.or_eq_false_iff, Bool.and_eq_false_iff, decide_eq_false_iff_not]
    omega
  · intro hne
    apply none_of
    simp only [idHexOK, W3C.hexField, Bool.and_eq_false_iff]
    left; left
    simpa using hne
  · intro hz
    apply none_of
    simp [idHexOK, hz]

/-- `MarshalJSON` of TraceID, SpanID, TraceFlags, TraceState (and so of every string field of SpanContext's JSON) is
faithful: the reference JSON string decoder (RFC 8259) returns exactly the `String()` form, for every byte string the
model's escaper is applied to; in particular the escaping is injective. -/
theorem json_string_roundtrip (s : Bytes) :
    jsonDecode (jsonString s) = some s ∧ (∀ s', jsonString s' = jsonString s → s' = s) := by
  refine ⟨jsonDecode_string s, fun s' h => ?_⟩
  have h1 := jsonDecode_string s'
  rw [h, jsonDecode_string s] at h1
  exact (Option.some.inj h1).symm

/-! ### the trace flags other than "sampled" -/

/-- What happens to the flag bits other than the sampled bit (the statement speaks of the "sampled flag" only):
`Inject` writes only the sampled bit (the two flag digits of the traceparent spell `flags & 0x01`); whatever `Extract`
accepts - any version, any flag byte - yields flags with every other bit cleared; so the round trip returns the
flags unchanged exactly when no other bit was set. -/
theorem flags_other_bits_dropped :
    (∀ sc tp tsh, sc.wf = true → inject sc = some (tp, tsh) → (tp.drop 53).take 2 = hexEncode [sc.flags &&& 0x01]) ∧
    (∀ h t sc, extract h t = some sc → sc.flags &&& 0xfe = 0) ∧
    (∀ sc, sc.wf = true → sc.isValid = true → TSInv sc.ts →
      ∃ tp tsh sc', inject sc = some (tp, tsh) ∧ extract tp (tsh.getD []) = some sc' ∧
        sc'.flags = sc.flags &&& 0x01 ∧ (sc'.flags = sc.flags ↔ sc.flags &&& 0xfe = 0)) := by
  refine ⟨?_, ?_, ?_⟩
  · intro sc tp tsh hwf hinj
    simp only [SpanCtx.wf, Bool.and_eq_true, beq_iff_eq] at hwf
    unfold inject at hinj
    split at hinj
    · simp at hinj
    · simp only [Option.some.injEq, Prod.mk.injEq] at hinj
      rw [← hinj.1]
      have hpos := enc_positions [0x30, 0x30] (hexEncode sc.tid) (hexEncode sc.sid) (hexEncode [sc.flags &&& 0x01]) []
        rfl (by rw [hexEncode_length]; omega) (by rw [hexEncode_length]; omega) (by rw [hexEncode_length]; rfl)
      simpa using hpos.2.2.1
  · intro h t sc he
    obtain ⟨tid, sid, o, _, _, _, _, rfl⟩ := extract_some h t sc he
    exact (and1_facts o).1
  · intro sc hwf hv hts
    obtain ⟨tp, tsh, hinj, hex⟩ := extract_inject sc hwf hv hts
    exact ⟨tp, tsh, _, hinj, hex, rfl, (and1_facts sc.flags).2⟩

/-! ### degenerate composites -/

/-- `NewCompositeTextMapPropagator()` with zero members does nothing: Inject leaves the carrier, Extract the context,
Fields is empty; with one member it is that member. -/
theorem composite_empty_and_singleton {β C : Type} (p : Propagator β C) (ctx : Ctx β) (c : C) :
    compInject ([] : List (Propagator β C)) ctx c = c ∧ compExtract ([] : List (Propagator β C)) ctx c = ctx ∧
    compFields ([] : List (Propagator β C)) = [] ∧
    compInject [p] ctx c = p.inject ctx c ∧ compExtract [p] ctx c = p.extract ctx c :=
  ⟨rfl, rfl, rfl, rfl, rfl⟩

/-! ### the accepted language of the traceparent parser -/

/-- "never accepts malformed headers", made exact: for every byte string `h` presented as traceparent (and whatever
the tracestate header is) `Extract` yields a span context IF AND ONLY IF `h` is in the language written positionally
from the W3C grammar: 2HEXDIGLC version other than "ff", "-", 32HEXDIGLC not all zero, "-", 16HEXDIGLC not all zero,
"-", 2HEXDIGLC flags, then the end or a "-" and anything; for version "00": nothing after the flags (a single trailing
"-" is let through by the code) and flags 00, 01 or 02. -/
theorem extract_accepts_iff (h t : Bytes) : (extract h t).isSome = W3C.traceparentAccepts h := extract_accepts h t

/-- every member of that language is spelled by a version byte, two ids, a flag byte and a tail, and `Extract` returns
exactly those ids and the sampled bit of the flag byte -/
theorem extract_decodes (h t : Bytes) (sc : SpanCtx) (he : extract h t = some sc) :
    ∃ v o tail, h = encTP v sc.tid sc.sid o tail ∧ sc.flags = o &&& 0x01 ∧ sc.remote = true ∧ sc.ts = parseOrEmpty t := by
  obtain ⟨v, o, tid, sid, tail, rfl, ht, hs, htail⟩ := extract_inv_fields h t sc he
  rw [extract_fields v o tid sid tail t ht hs htail] at he
  split at he
  · simp at he
  · split at he
    · simp at he
    · split at he
      · simp at he
      · simp only [Option.some.injEq] at he
        subst he
        exact ⟨v, o, tail, rfl, rfl, rfl, rfl⟩

/-! ### the accepted language of the tracestate parser -/

/-- `ParseTraceState` accepts EXACTLY the headers of the list grammar, for every byte string: split at every ",",
ignore empty pieces; every other piece must be `OWS key "=" value OWS` (first "=", key and value per the ABNF, the
value may start with blanks but a piece of blanks only is an error); no key twice; at most 32 members — and it
returns those members in order. -/
theorem parse_accepts_iff (s : Bytes) :
    parseTraceState s = if W3C.tracestateAccepts s then some (W3C.tracestateDecode s) else none :=
  parseTraceState_accepts s

/-! ### non-vacuity -/
section Examples
/-- "a=1, b@c=2 ,,d=3" is in the language (OWS, an empty member), "a=1, ,b=2" (a blank member) and "a=1,a=2" are not -/
example : W3C.tracestateAccepts [0x61, 0x3d, 0x31, 0x2c, 0x20, 0x62, 0x40, 0x63, 0x3d, 0x32, 0x20, 0x2c, 0x2c, 0x64, 0x3d, 0x33] = true ∧
    W3C.tracestateDecode [0x61, 0x3d, 0x31, 0x2c, 0x20, 0x62, 0x40, 0x63, 0x3d, 0x32, 0x20, 0x2c, 0x2c, 0x64, 0x3d, 0x33]
      = [⟨[0x61], [0x31]⟩, ⟨[0x62, 0x40, 0x63], [0x32]⟩, ⟨[0x64], [0x33]⟩] := by decide
example : W3C.tracestateAccepts [0x61, 0x3d, 0x31, 0x2c, 0x20, 0x2c, 0x62, 0x3d, 0x32] = false := by decide
example : W3C.tracestateAccepts [0x61, 0x3d, 0x31, 0x2c, 0x61, 0x3d, 0x32] = false := by decide
/-- "00-0102…10-00f067aa0ba902b7-01" is in the language, and so is the same with a trailing "-"; flags "03" or a
tail "-x" are not (version 00); version "01" may carry both -/
example : W3C.traceparentAccepts [0x30, 0x30, 0x2d, 0x30, 0x31, 0x30, 0x32, 0x30, 0x33, 0x30, 0x34, 0x30, 0x35, 0x30, 0x36, 0x30, 0x37, 0x30, 0x38, 0x30, 0x39, 0x30, 0x61, 0x30, 0x62, 0x30, 0x63, 0x30, 0x64, 0x30, 0x65, 0x30, 0x66, 0x31, 0x30, 0x2d, 0x30, 0x30, 0x66, 0x30, 0x36, 0x37, 0x61, 0x61, 0x30, 0x62, 0x61, 0x39, 0x30, 0x32, 0x62, 0x37, 0x2d, 0x30, 0x31] = true := by decide
example : W3C.traceparentAccepts [0x30, 0x30, 0x2d, 0x30, 0x31, 0x30, 0x32, 0x30, 0x33, 0x30, 0x34, 0x30, 0x35, 0x30, 0x36, 0x30, 0x37, 0x30, 0x38, 0x30, 0x39, 0x30, 0x61, 0x30, 0x62, 0x30, 0x63, 0x30, 0x64, 0x30, 0x65, 0x30, 0x66, 0x31, 0x30, 0x2d, 0x30, 0x30, 0x66, 0x30, 0x36, 0x37, 0x61, 0x61, 0x30, 0x62, 0x61, 0x39, 0x30, 0x32, 0x62, 0x37, 0x2d, 0x30, 0x31, 0x2d] = true := by decide
example : W3C.traceparentAccepts [0x30, 0x30, 0x2d, 0x30, 0x31, 0x30, 0x32, 0x30, 0x33, 0x30, 0x34, 0x30, 0x35, 0x30, 0x36, 0x30, 0x37, 0x30, 0x38, 0x30, 0x39, 0x30, 0x61, 0x30, 0x62, 0x30, 0x63, 0x30, 0x64, 0x30, 0x65, 0x30, 0x66, 0x31, 0x30, 0x2d, 0x30, 0x30, 0x66, 0x30, 0x36, 0x37, 0x61, 0x61, 0x30, 0x62, 0x61, 0x39, 0x30, 0x32, 0x62, 0x37, 0x2d, 0x30, 0x33] = false := by decide
example : W3C.traceparentAccepts [0x30, 0x31, 0x2d, 0x30, 0x31, 0x30, 0x32, 0x30, 0x33, 0x30, 0x34, 0x30, 0x35, 0x30, 0x36, 0x30, 0x37, 0x30, 0x38, 0x30, 0x39, 0x30, 0x61, 0x30, 0x62, 0x30, 0x63, 0x30, 0x64, 0x30, 0x65, 0x30, 0x66, 0x31, 0x30, 0x2d, 0x30, 0x30, 0x66, 0x30, 0x36, 0x37, 0x61, 0x61, 0x30, 0x62, 0x61, 0x39, 0x30, 0x32, 0x62, 0x37, 0x2d, 0x30, 0x33, 0x2d, 0x78] = true := by decide
/-- a script with an update, a delete and an overflow-free insert -/
example : tsRun [⟨[0x61], [0x31]⟩, ⟨[0x62], [0x32]⟩] [.ins [0x62] [0x39], .del [0x61], .ins [0x63] [0x33]]
    = [⟨[0x63], [0x33]⟩, ⟨[0x62], [0x39]⟩] := by decide
/-- "tRaCe-pArent" and "Trace-Parent" address the same HeaderCarrier slot, "a b" is not canonicalised -/
example : canonicalKey [0x74, 0x52, 0x61, 0x43, 0x65, 0x2d, 0x70, 0x41, 0x72, 0x65, 0x6e, 0x74]
    = [0x54, 0x72, 0x61, 0x63, 0x65, 0x2d, 0x50, 0x61, 0x72, 0x65, 0x6e, 0x74] := by decide
example : canonicalKey [0x61, 0x20, 0x62] = [0x61, 0x20, 0x62] := by decide
/-- a probe propagator writing "x-tag" satisfies the hypotheses of `tag_frame` for both carriers -/
example : mapSame [0x78, 0x2d, 0x74, 0x61, 0x67] tpKey = false ∧ headerSame [0x78, 0x2d, 0x74, 0x61, 0x67] tsKey = false := by decide
/-- … and one writing "TraceParent" does for MapCarrier but not for HeaderCarrier -/
example : mapSame [0x54, 0x72, 0x61, 0x63, 0x65, 0x50, 0x61, 0x72, 0x65, 0x6e, 0x74] tpKey = false ∧
    headerSame [0x54, 0x72, 0x61, 0x63, 0x65, 0x50, 0x61, 0x72, 0x65, 0x6e, 0x74] tpKey = true := by decide
end Examples

end Otel.C03
