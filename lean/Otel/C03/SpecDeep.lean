/-
C03 — specification, second part: reference semantics of whole edit scripts, carrier laws, and the exact
languages accepted by the two header parsers, written positionally / declaratively from the W3C ABNF
(independent of the scanning code of the implementation). Executable (Bool / decidable) where it is used as an
oracle.
-/
import Otel.C03.Spec
import Otel.C03.Carrier
namespace Otel.C03

/-- reference run of an edit script: an ordered key-unique list, newest first, bounded by 32 -/
def refRun : TraceState → List TsOp → TraceState
  | ts, [] => ts
  | ts, .ins k v :: r => refRun ((refInsert ts k v).getD ts) r
  | ts, .del k :: r => refRun (refDelete ts k) r

/-- the laws a `TextMapCarrier` must satisfy for propagation to work: `Get` after `Set` returns the value for every
key addressing the same slot (`same`), and the old answer for every other key -/
structure LawfulCarrier {C : Type} (ops : CarrierOps C) (same : Bytes → Bytes → Bool) : Prop where
  get_set : ∀ c k v k', ops.get (ops.set c k v) k' = if same k k' then v else ops.get c k'
  same_refl : ∀ k, same k k = true

/-- MapCarrier: keys are compared as they are -/
def mapSame (a b : Bytes) : Bool := a == b
/-- HeaderCarrier: keys are compared after MIME canonicalisation (case-insensitive for well-formed names) -/
def headerSame (a b : Bytes) : Bool := canonicalKey a == canonicalKey b

/-- a propagator that can share a carrier and a context with TraceContext: its Inject leaves the answers to
Get("traceparent") / Get("tracestate") alone, its Extract leaves the span of the context alone -/
def Frame {β C : Type} (ops : CarrierOps C) (p : Propagator β C) : Prop :=
  (∀ ctx c, ops.get (p.inject ctx c) tpKey = ops.get c tpKey ∧ ops.get (p.inject ctx c) tsKey = ops.get c tsKey) ∧
  (∀ ctx c, (p.extract ctx c).span = ctx.span)

/-- reference JSON string decoding, one token from the front: a character and the rest (RFC 8259: `\"`, `\\`,
`\u00XX`, or any byte other than `"` and `\`) -/
def jsonDecTok : Bytes → Option (UInt8 × Bytes)
  | [] => none
  | c :: r =>
    if c = 0x5c then
      match r with
      | e :: r' =>
        if e = 0x22 ∨ e = 0x5c then some (e, r')
        else if e = 0x75 then
          match r' with
          | a :: b :: x :: y :: r'' =>
            if a = 0x30 ∧ b = 0x30 then
              match hexVal x, hexVal y with
              | some p, some q => some (UInt8.ofNat (p * 16 + q), r'')
              | _, _ => none
            else none
          | _ => none
        else none
      | [] => none
    else if c = 0x22 then none
    else some (c, r)

/-- decode a whole quoted JSON string (`fuel` ≥ its length) -/
def jsonDecodeBody : Nat → Bytes → Option Bytes
  | 0, _ => none
  | fuel + 1, s =>
    if s = [0x22] then some []
    else
      match jsonDecTok s with
      | some (c, r) => (jsonDecodeBody fuel r).map (c :: ·)
      | none => none

def jsonDecode (s : Bytes) : Option Bytes :=
  match s with
  | q :: r => if q = 0x22 then jsonDecodeBody (r.length + 1) r else none
  | [] => none

def printable (s : Bytes) : Bool := s.all (fun c => 0x20 ≤ c.toNat && c.toNat ≤ 0x7e)

namespace W3C

/-- the EXACT set of traceparent headers `Extract` accepts: the shape every conforming parser may accept
(`traceparentShapeOK`), and for version 00 additionally: nothing after the flags (the code also lets a single
trailing '-' pass) and flags 00, 01 or 02 -/
def traceparentAccepts (h : Bytes) : Bool :=
  traceparentShapeOK h &&
  (h.take 2 != [0x30, 0x30] ||
    ((h.length == 55 || h.length == 56) &&
     ((h.drop 53).take 2 == [0x30, 0x30] || (h.drop 53).take 2 == [0x30, 0x31] || (h.drop 53).take 2 == [0x30, 0x32])))

def isOWS (b : UInt8) : Bool := b.toNat == 0x20 || b.toNat == 0x09

/-- a list-member as `ParseTraceState` reads it: `OWS key "=" value OWS` where the '=' is the first one -/
def memberLooseOK (m : Bytes) : Bool :=
  (m.any (· == 0x3d)) &&
  keyOK ((memberKey m).dropWhile isOWS) &&
  valueOK (((memberVal m).reverse.dropWhile isOWS).reverse)

def looseMember (m : Bytes) : Member :=
  ⟨(memberKey m).dropWhile isOWS, ((memberVal m).reverse.dropWhile isOWS).reverse⟩

/-- the EXACT set of tracestate headers `ParseTraceState` accepts: split at every ',', drop the empty pieces,
every remaining piece is a loose list-member, no key twice, at most 32 -/
def tracestateAccepts (s : Bytes) : Bool :=
  let ms := (pieces 0x2c s).filter (fun p => !p.isEmpty)
  ms.all memberLooseOK && decide (((ms.map looseMember).map (·.key)).Nodup) && decide (ms.length ≤ 32)

/-- … and what it returns for them -/
def tracestateDecode (s : Bytes) : List Member :=
  ((pieces 0x2c s).filter (fun p => !p.isEmpty)).map looseMember

end W3C
end Otel.C03
