/-
C03 — helper lemmas: an accepted traceparent has the W3C shape (core Lean only).
-/
import Otel.C03.LemmasId
namespace Otel.C03
open Otel

theorem hexDecode_chars (h : Bytes) : ∀ t, hexDecode h = some t → ∀ c ∈ h, (hexVal c).isSome = true := by
  induction h using pairs_induction with
  | h0 => intro t _ c hc; simp at hc
  | h1 x => intro t ht; simp [hexDecode] at ht
  | h2 a b r ih =>
    intro t ht c hc
    simp only [hexDecode] at ht
    cases ha : hexVal a with
    | none => simp [ha] at ht
    | some x =>
      cases hb : hexVal b with
      | none => simp [ha, hb] at ht
      | some y =>
        cases hr : hexDecode r with
        | none => simp [ha, hb, hr] at ht
        | some d =>
          simp only [List.mem_cons] at hc
          rcases hc with e | e | e
          · subst e; simp [ha]
          · subst e; simp [hb]
          · exact ih d hr c e

theorem hexDecode_even (s : Bytes) : ∀ t, hexDecode s = some t → s.length % 2 = 0 := by
  induction s using pairs_induction with
  | h0 => intro _ _; rfl
  | h1 x => intro t ht; simp [hexDecode] at ht
  | h2 a b r ih =>
    intro t ht
    simp only [hexDecode] at ht
    cases hr : hexDecode r with
    | none => cases hexVal a <;> cases hexVal b <;> simp [hr] at ht
    | some d => have := ih d hr; simp only [List.length_cons]; omega

theorem hexVal_lower (c : UInt8) (h : (hexVal c).isSome = true) (hu : ¬ (0x41 ≤ c.toNat ∧ c.toNat ≤ 0x46)) :
    W3C.hexdiglc c = true := by
  simp only [W3C.hexdiglc, Bool.or_eq_true, Bool.and_eq_true, decide_eq_true_eq]
  by_cases h1 : 48 ≤ c.toNat ∧ c.toNat ≤ 57
  · omega
  · by_cases h2 : 97 ≤ c.toNat ∧ c.toNat ≤ 102
    · omega
    · simp [hexVal, h1, h2, hu] at h

theorem extractPart_inv (h : Bytes) (n : Nat) (d r : Bytes) (he : extractPart h n = (some d, r)) :
    ∃ part tail, h = part ++ tail ∧ part.length = n ∧ part.all W3C.hexdiglc = true ∧ hexEncode d = part ∧
      ((tail = [] ∧ r = []) ∨ tail = 0x2d :: r) := by
  have key : ∀ part left f, cut 0x2d h = (part, left, f) →
      part.length = n ∧ part.all W3C.hexdiglc = true ∧ hexEncode d = part ∧ left = r := by
    intro part left f hc
    simp only [extractPart, hc] at he
    split at he
    · simp at he
    · rename_i hcond
      simp only [Bool.or_eq_true, bne_iff_ne, ne_eq, not_or, Decidable.not_not, Bool.not_eq_true] at hcond
      cases hd : hexDecode part with
      | none => simp [hd] at he
      | some d' =>
        simp only [hd] at he
        split at he
        · simp at he
        · simp only [Prod.mk.injEq, Option.some.injEq] at he
          obtain ⟨rfl, rfl⟩ := he
          have hch := hexDecode_chars part d' hd
          have hasc : ∀ c ∈ part, c.toNat < 0x80 := fun c hc => hexVal_ascii c (hch c hc)
          have hup := hcond.2
          unfold upperHex at hup
          rw [chunks_ascii part hasc, List.any_eq_false] at hup
          have hlow : part.all W3C.hexdiglc = true := by
            rw [List.all_eq_true]
            intro c hc
            apply hexVal_lower c (hch c hc)
            have := hup _ (List.mem_map_of_mem (f := fun b => (⟨[b], b.toNat, false⟩ : Utf8.Chunk)) hc)
            simpa using this
          obtain ⟨t', ht'⟩ := hexEncode_surj part hlow (hexDecode_even part d' hd)
          have : d' = t' := by
            rw [← ht', hexDecode_hexEncode] at hd
            exact (Option.some.inj hd).symm
          subst this
          exact ⟨hcond.1, hlow, ht', rfl⟩
  rcases cut_cases 0x2d h with ⟨_, hc⟩ | ⟨x, y, hxy, _, hc⟩
  · have := key h [] false hc
    exact ⟨h, [], by simp, this.1, this.2.1, this.2.2.1, Or.inl ⟨rfl, this.2.2.2.symm⟩⟩
  · have := key x y true hc
    exact ⟨x, 0x2d :: y, hxy, this.1, this.2.1, this.2.2.1, Or.inr (by rw [this.2.2.2])⟩


theorem shape_eval (V T S F tail : Bytes) (hV : V.length = 2) (hT : T.length = 32) (hS : S.length = 16)
    (hF : F.length = 2)
    (hVh : V.all W3C.hexdiglc = true) (hTh : T.all W3C.hexdiglc = true) (hSh : S.all W3C.hexdiglc = true)
    (hFh : F.all W3C.hexdiglc = true) (hVf : V ≠ [0x66, 0x66])
    (hTz : W3C.allZeroDigits T = false) (hSz : W3C.allZeroDigits S = false)
    (htail : tail = [] ∨ ∃ r, tail = 0x2d :: r) :
    let h := V ++ 0x2d :: (T ++ 0x2d :: (S ++ 0x2d :: (F ++ tail)))
    W3C.traceparentShapeOK h = true ∧ (h.drop 3).take 32 = T ∧ (h.drop 36).take 16 = S := by
  intro h
  have c1 : h.length = 55 + tail.length := by simp [h, hV, hT, hS, hF]; omega
  have c2 : h.take 2 = V := List.take_left' hV
  have c3 : h[2]? = some 0x2d := get_mid _ _ _ _ hV
  have c4 : (h.drop 3).take 32 = T := by
    have : h = (V ++ [0x2d]) ++ (T ++ (0x2d :: (S ++ 0x2d :: (F ++ tail)))) := by simp [h]
    rw [this]; exact drop_take_mid _ _ _ _ _ (by simp [hV]) hT
  have c5 : h[35]? = some 0x2d := by
    have : h = (V ++ [0x2d] ++ T) ++ 0x2d :: (S ++ 0x2d :: (F ++ tail)) := by simp [h]
    rw [this]; exact get_mid _ _ _ _ (by simp [hV, hT])
  have c6 : (h.drop 36).take 16 = S := by
    have : h = (V ++ [0x2d] ++ T ++ [0x2d]) ++ (S ++ (0x2d :: (F ++ tail))) := by simp [h]
    rw [this]; exact drop_take_mid _ _ _ _ _ (by simp [hV, hT]) hS
  have c7 : h[52]? = some 0x2d := by
    have : h = (V ++ [0x2d] ++ T ++ [0x2d] ++ S) ++ 0x2d :: (F ++ tail) := by simp [h]
    rw [this]; exact get_mid _ _ _ _ (by simp [hV, hT, hS])
  have c8 : (h.drop 53).take 2 = F := by
    have : h = (V ++ [0x2d] ++ T ++ [0x2d] ++ S ++ [0x2d]) ++ (F ++ tail) := by simp [h]
    rw [this]; exact drop_take_mid _ _ _ _ _ (by simp [hV, hT, hS]) hF
  have c9 : (h.length == 55 || h[55]? == some 0x2d) = true := by
    rcases htail with e | ⟨r, e⟩
    · simp [c1, e]
    · have : h = (V ++ [0x2d] ++ T ++ [0x2d] ++ S ++ [0x2d] ++ F) ++ 0x2d :: r := by simp [h, e]
      have g : h[55]? = some 0x2d := by rw [this]; exact get_mid _ _ _ _ (by simp [hV, hT, hS, hF])
      simp [g]
  have c0 : decide (55 ≤ h.length) = true := by simp [c1]
  have cV : (V != [0x66, 0x66]) = true := by simpa using hVf
  refine ⟨?_, c4, c6⟩
  simp only [W3C.traceparentShapeOK, W3C.hexField, c0, c2, c3, c4, c5, c6, c7, c8, c9, hV, hT, hS, hF, hVh, hTh, hSh, hFh,
    hTz, hSz, cV]
  decide

theorem extract_shape (h t : Bytes) (sc : SpanCtx) (he : extract h t = some sc) :
    acceptedOK h sc.tid sc.sid = true := by
  unfold extract at he
  by_cases h0 : h = []
  · simp [h0] at he
  · simp only [h0, if_false] at he
    rcases hp1 : extractPart h 2 with ⟨_ | ver, h1⟩
    · simp [hp1] at he
    · simp only [hp1] at he
      by_cases hv : (ver.headD 0).toNat > 254
      · simp only [hv, if_true, reduceCtorEq] at he
      · simp only [hv, if_false] at he
        rcases hp2 : extractPart h1 32 with ⟨_ | tid, h2⟩
        · simp [hp2] at he
        · simp only [hp2] at he
          rcases hp3 : extractPart h2 16 with ⟨_ | sid, h3⟩
          · simp [hp3] at he
          · simp only [hp3] at he
            rcases hp4 : extractPart h3 2 with ⟨_ | opts, h4⟩
            · simp [hp4] at he
            · simp only [hp4] at he
              split at he
              · simp at he
              · split at he
                · simp at he
                · rename_i hvalid
                  simp only [Option.some.injEq] at he
                  subst he
                  simp only [SpanCtx.isValid, Bool.not_and, Bool.not_not, Bool.or_eq_true, not_or,
                    Bool.not_eq_true] at hvalid
                  obtain ⟨V, t1, rfl, hVl, hVh, hVe, ht1⟩ := extractPart_inv _ _ _ _ hp1
                  obtain ⟨T, t2, rfl, hTl, hTh, hTe, ht2⟩ := extractPart_inv _ _ _ _ hp2
                  obtain ⟨S, t3, rfl, hSl, hSh, hSe, ht3⟩ := extractPart_inv _ _ _ _ hp3
                  obtain ⟨F, t4, rfl, hFl, hFh, hFe, ht4⟩ := extractPart_inv _ _ _ _ hp4
                  have e1 : t1 = 0x2d :: (T ++ t2) := by
                    rcases ht1 with ⟨_, e⟩ | e
                    · have := congrArg List.length e; simp [hTl] at this
                    · exact e
                  have e2 : t2 = 0x2d :: (S ++ t3) := by
                    rcases ht2 with ⟨_, e⟩ | e
                    · have := congrArg List.length e; simp [hSl] at this
                    · exact e
                  have e3 : t3 = 0x2d :: (F ++ t4) := by
                    rcases ht3 with ⟨_, e⟩ | e
                    · have := congrArg List.length e; simp [hFl] at this
                    · exact e
                  have e4 : t4 = [] ∨ ∃ r, t4 = 0x2d :: r := by
                    rcases ht4 with ⟨e, _⟩ | e
                    · exact Or.inl e
                    · exact Or.inr ⟨_, e⟩
                  have hverl := extractPart_len _ _ _ _ hp1
                  have hVf : V ≠ [0x66, 0x66] := by
                    intro e
                    have : hexEncode ver = hexEncode [0xff] := by rw [hVe, e]; decide
                    have := hexEncode_inj _ _ this
                    subst this
                    exact hv (by decide)
                  have hz1 : W3C.allZeroDigits T = false := by rw [← hTe, hexEncode_allZero]; exact hvalid.1
                  have hz2 : W3C.allZeroDigits S = false := by rw [← hSe, hexEncode_allZero]; exact hvalid.2
                  have := shape_eval V T S F t4 hVl hTl hSl hFl hVh hTh hSh hFh hVf hz1 hz2 e4
                  subst e1 e2 e3
                  simp only [acceptedOK, Bool.and_eq_true, beq_iff_eq]
                  exact ⟨⟨this.1, by rw [this.2.1]; exact hTe⟩, by rw [this.2.2]; exact hSe⟩

end Otel.C03
