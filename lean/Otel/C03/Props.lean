/-
C03 — property theorems: W3C trace-context propagation round-trips and never accepts malformed headers.
Only the statements users rely on; helper lemmas are in Lemmas*.lean. Model = Otel.C03.Model (mirrors
propagation/trace_context.go, trace/tracestate.go, trace/trace.go), Spec = Otel.C03.Spec (W3C ABNF).
-/
import Otel.C03.LemmasShape
namespace Otel.C03
open Otel

/-! ### the validators are the grammar -/

/-- `checkKey` accepts exactly the keys of the W3C ABNF (simple-key / tenant-id "@" system-id with the
length bounds 256, 241 and 14) — for every byte string, including multi-byte runes (F1 after its repair). -/
theorem checkKey_spec (k : Bytes) : checkKey k = W3C.keyOK k := checkKey_eq k

/-- `checkValue` accepts exactly the values of the ABNF (1..256 printable characters without ',' and '=',
not ending in a space). -/
theorem checkValue_spec (v : Bytes) : checkValue v = W3C.valueOK v := checkValue_eq v

/-! ### parsing and serialising a tracestate -/

/-- Clause "at most 32 unique members with legal keys and values": whatever `ParseTraceState` accepts
satisfies the TraceState invariant (W3C.keyOK / W3C.valueOK on every member, no key twice, ≤ 32). -/
theorem parse_sound (b : Bytes) (ts : TraceState) (h : parseTraceState b = some ts) : TSInv ts :=
  parseTraceState_inv b ts h

/-- `ParseTraceState(ts.String()) = ts` for every TraceState satisfying the invariant. -/
theorem parse_string_roundtrip (ts : TraceState) (h : TSInv ts) : parseTraceState (tsString ts) = some ts :=
  parse_tsString ts h

/-- re-serialising an accepted header and parsing it again gives the same TraceState -/
theorem string_parse_stable (b : Bytes) (ts : TraceState) (h : parseTraceState b = some ts) :
    parseTraceState (tsString ts) = some ts :=
  parse_tsString ts (parseTraceState_inv b ts h)

/-- what `String` emits for a non-empty TraceState conforms to the tracestate grammar, and reading it back
member by member (the oracle's decoder) returns the members in order -/
theorem string_conforms (ts : TraceState) (h : TSInv ts) :
    (ts ≠ [] → W3C.tracestateOK (tsString ts) = true) ∧ (tsString ts = [] ↔ ts = []) ∧
    W3C.decodeTS (tsString ts) = ts :=
  ⟨tracestateOK_string ts h, tsString_eq_nil ts, decodeTS_string ts h⟩

/-! ### editing a tracestate -/

/-- Clause "Editing a tracestate (insert, update) … puts the newest member first and drops only the
right-most member on overflow": on a TraceState satisfying the invariant `Insert` is the reference
operation (new member first, the others in order without the old binding, cut to 32), it fails exactly
when the key or the value is illegal, and the result satisfies the invariant again. -/
theorem insert_spec (ts : TraceState) (k v : Bytes) (h : TSInv ts) :
    tsInsert ts k v = refInsert ts k v ∧ (∀ ts', tsInsert ts k v = some ts' → TSInv ts') := by
  have e := tsInsert_eq_ref ts k v h.2.2 h.1
  exact ⟨e, fun ts' h' => refInsert_inv ts ts' k v h (e ▸ h')⟩

/-- the shape of a successful `Insert`, spelled out: the new member is first; for a new key the old members
follow unchanged, all of them when there were fewer than 32, all but the right-most when there were 32;
for an existing key the other members follow in their old order and the length does not change. -/
theorem insert_shape (ts ts' : TraceState) (k v : Bytes) (h : TSInv ts) (hi : tsInsert ts k v = some ts') :
    ts'.head? = some ⟨k, v⟩ ∧
    (k ∉ ts.map (·.key) → ts' = ⟨k, v⟩ :: ts.take 31 ∧ ts'.length = min (ts.length + 1) 32) ∧
    (k ∈ ts.map (·.key) → ts' = ⟨k, v⟩ :: ts.filter (fun m => m.key != k) ∧ ts'.length = ts.length) := by
  rw [tsInsert_eq_ref ts k v h.2.2 h.1] at hi
  unfold refInsert at hi
  split at hi
  · simp only [Option.some.injEq] at hi
    subst hi
    refine ⟨by simp, ?_, ?_⟩
    · intro hk
      rw [filter_absent k ts hk]
      have := h.1
      simp [List.take_succ_cons, List.length_take]; omega
    · intro hk
      obtain ⟨j, hj, _, he⟩ := findLastFrom_present k ts h.2.2 hk 0 0
      have hl : (ts.filter (fun m => m.key != k)).length = ts.length - 1 := by
        rw [← he]; simp [List.length_take, List.length_drop]; omega
      have := h.1
      have h32 : List.take 32 (⟨k, v⟩ :: ts.filter (fun m => m.key != k)) = ⟨k, v⟩ :: ts.filter (fun m => m.key != k) := by
        apply List.take_of_length_le; simp [hl]; omega
      rw [h32]
      refine ⟨rfl, ?_⟩
      simp [hl]; omega
  · simp at hi

/-- `Delete` removes the member with that key and nothing else, keeps the order, and preserves the invariant -/
theorem delete_spec (ts : TraceState) (k : Bytes) (h : TSInv ts) :
    tsDelete ts k = ts.filter (fun m => m.key != k) ∧ TSInv (tsDelete ts k) := by
  have e := tsDelete_eq_ref ts k h.2.2
  exact ⟨e, e ▸ refDelete_inv ts k h⟩

/-! ### the propagator -/

/-- Clause "Injecting any valid span context into a carrier and extracting it again yields a remote span
context with the same trace ID, span ID, sampled flag and tracestate". -/
theorem extract_inject (sc : SpanCtx) (hwf : sc.wf = true) (hv : sc.isValid = true) (hts : TSInv sc.ts) :
    ∃ tp tsh, inject sc = some (tp, tsh) ∧
      extract tp (tsh.getD []) = some { sc with flags := sc.flags &&& 0x01, remote := true } := by
  simp only [SpanCtx.wf, Bool.and_eq_true, beq_iff_eq] at hwf
  have hz : allZero sc.tid = false ∧ allZero sc.sid = false := by
    simp only [SpanCtx.isValid, Bool.and_eq_true, Bool.not_eq_true'] at hv; exact hv
  refine ⟨canonTP sc.tid sc.sid (sc.flags &&& 0x01), if tsString sc.ts = [] then none else some (tsString sc.ts), ?_, ?_⟩
  · simp [inject, hv, canonTP]
  · rw [extract_canon _ _ _ _ hwf.1 hwf.2 (Nat.le_trans (and_one_le _) (by decide))]
    simp only [hz.1, hz.2, Bool.or_self, Bool.false_eq_true, if_false, Option.some.injEq]
    have hp : parseOrEmpty ((if tsString sc.ts = [] then none else some (tsString sc.ts)).getD []) = sc.ts := by
      by_cases he : tsString sc.ts = []
      · have := (tsString_eq_nil sc.ts).mp he
        simp [this, tsString, parseOrEmpty, parseTraceState]
      · simp [he, parseOrEmpty, parse_tsString sc.ts hts]
    rw [hp]
    have : (sc.flags &&& 1) &&& 1 = sc.flags &&& 1 := by
      rw [UInt8.and_assoc]; rfl
    rw [this]

/-- Clause "either leaves the context untouched or yields a valid span context whose re-injected
traceparent and tracestate conform to the W3C grammar (lower-case hex, non-zero IDs, at most 32 unique
members with legal keys and values)" — for arbitrary header bytes `h` (traceparent) and `t` (tracestate). -/
theorem extract_sound (h t : Bytes) (sc : SpanCtx) (he : extract h t = some sc) :
    sc.wf = true ∧ sc.isValid = true ∧ idsValid sc.tid sc.sid = true ∧ sc.remote = true ∧
    sc.flags.toNat ≤ 1 ∧ TSInv sc.ts ∧
    ∃ tp tsh, inject sc = some (tp, tsh) ∧ W3C.traceparentOK tp = true ∧
      (tsh = none ↔ sc.ts = []) ∧ (∀ s, tsh = some s → s = tsString sc.ts ∧ W3C.tracestateOK s = true) := by
  obtain ⟨tid, sid, o, ht, hs, htz, hsz, rfl⟩ := extract_some h t sc he
  have hinv := parseOrEmpty_inv t
  refine ⟨by simp [SpanCtx.wf, ht, hs], by simp [SpanCtx.isValid, htz, hsz], idsValid_of tid sid ht hs htz hsz, rfl,
    and_one_le o, hinv, ?_⟩
  refine ⟨canonTP tid sid ((o &&& 0x01) &&& 0x01),
    if tsString (parseOrEmpty t) = [] then none else some (tsString (parseOrEmpty t)), ?_, ?_, ?_, ?_⟩
  · simp [inject, SpanCtx.isValid, htz, hsz, canonTP]
  · exact traceparentOK_canon tid sid _ ht hs htz hsz
  · rw [← tsString_eq_nil]
    split <;> simp_all
  · intro s hsome
    split at hsome
    · simp at hsome
    · rename_i hne
      simp only [Option.some.injEq] at hsome
      subst hsome
      exact ⟨rfl, tracestateOK_string _ hinv (fun e => hne ((tsString_eq_nil _).mpr e))⟩

/-- Clause "a bad tracestate never invalidates a good traceparent": whether extraction succeeds, and the
trace ID, span ID and flags it yields, do not depend on the tracestate header at all. -/
theorem bad_tracestate_harmless (h t : Bytes) :
    (extract h t).isSome = (extract h []).isSome ∧
    (extract h t).map (fun sc => (sc.tid, sc.sid, sc.flags, sc.remote)) =
      (extract h []).map (fun sc => (sc.tid, sc.sid, sc.flags, sc.remote)) := by
  have key : extract h t = (extract h []).map (fun sc => { sc with ts := parseOrEmpty t }) := by
    unfold extract
    by_cases h0 : h = []
    · simp [h0]
    · simp only [h0, if_false]
      rcases hp1 : extractPart h 2 with ⟨_ | ver, h1⟩
      · simp
      · simp only
        split
        · simp
        · rcases hp2 : extractPart h1 32 with ⟨_ | tid, h2⟩
          · simp
          · simp only
            rcases hp3 : extractPart h2 16 with ⟨_ | sid, h3⟩
            · simp
            · simp only
              rcases hp4 : extractPart h3 2 with ⟨_ | opts, h4⟩
              · simp
              · simp only
                split
                · simp
                · cases hz1 : allZero tid <;> cases hz2 : allZero sid <;> simp [SpanCtx.isValid, hz1, hz2]
  rw [key]
  cases extract h [] <;> simp


/-! ### hex identifiers -/

/-- `TraceIDFromHex` (n = 32) / `SpanIDFromHex` (n = 16) accept exactly the strings of n lower-case hex digits
that are not all '0', and return the bytes whose lower-case hex encoding is the input. -/
theorem traceid_hex (n : Nat) (h : Bytes) :
    (∀ t, idFromHex n h = some t ↔ (idHexOK n h = true ∧ hexEncode t = h)) ∧
    (n % 2 = 0 → ((idFromHex n h).isSome = idHexOK n h)) := by
  refine ⟨fun t => idFromHex_iff n h t, ?_⟩
  intro hn
  cases hi : idFromHex n h with
  | some t => simp [((idFromHex_iff n h t).mp hi).1]
  | none =>
    cases hok : idHexOK n h with
    | false => rfl
    | true =>
      exfalso
      have hok' := hok
      simp only [idHexOK, W3C.hexField, Bool.and_eq_true, beq_iff_eq] at hok'
      obtain ⟨t, ht⟩ := hexEncode_surj h hok'.1.2 (by rw [hok'.1.1]; exact hn)
      have := (idFromHex_iff n h t).mpr ⟨hok, ht⟩
      rw [hi] at this; simp at this

/-- "never accepts malformed headers", input side: every accepted traceparent has the W3C shape (lower-case
hex fields of the right widths at the right positions, version not ff, non-zero ids, nothing or a '-' after
the flags) and the extracted ids are the ones the header spells. -/
theorem extract_accepts_shape (h t : Bytes) (sc : SpanCtx) (he : extract h t = some sc) :
    acceptedOK h sc.tid sc.sid = true := extract_shape h t sc he

/-! ### non-vacuity: the hypotheses of the theorems are satisfiable by non-trivial concrete cases -/

section Examples
/-- "a=1,b@c=2 " is accepted (trailing blank trimmed) -/
example : parseTraceState [0x61, 0x3d, 0x31, 0x2c, 0x62, 0x40, 0x63, 0x3d, 0x32, 0x20]
    = some [⟨[0x61], [0x31]⟩, ⟨[0x62, 0x40, 0x63], [0x32]⟩] := by decide
/-- F1 witness "aš=1" is rejected by the repaired code -/
example : parseTraceState [0x61, 0xc5, 0xa1, 0x3d, 0x31] = none := by decide
example : TSInv [⟨[0x61], [0x31]⟩, ⟨[0x62, 0x40, 0x63], [0x32]⟩] := by decide
/-- update moves to the front -/
example : tsInsert [⟨[0x61], [0x31]⟩, ⟨[0x62], [0x32]⟩, ⟨[0x63], [0x33]⟩] [0x62] [0x39]
    = some [⟨[0x62], [0x39]⟩, ⟨[0x61], [0x31]⟩, ⟨[0x63], [0x33]⟩] := by decide
example : tsDelete [⟨[0x61], [0x31]⟩, ⟨[0x62], [0x32]⟩] [0x61] = [⟨[0x62], [0x32]⟩] := by decide
/-- SpanIDFromHex("00f067aa0ba902b7") -/
example : idFromHex 16 [0x30, 0x30, 0x66, 0x30, 0x36, 0x37, 0x61, 0x61, 0x30, 0x62, 0x61, 0x39, 0x30, 0x32, 0x62, 0x37]
    = some [0x00, 0xf0, 0x67, 0xaa, 0x0b, 0xa9, 0x02, 0xb7] := by decide
/-- a valid, well-formed span context with a tracestate (hypotheses of `extract_inject`) -/
example : let sc : SpanCtx := ⟨[1, 2, 3, 4, 5, 6, 7, 8, 9, 10, 11, 12, 13, 14, 15, 16], [0, 0xf0, 0x67, 0xaa, 0x0b, 0xa9, 0x02, 0xb7], 3,
      [⟨[0x61], [0x31]⟩], false⟩
    sc.wf = true ∧ sc.isValid = true ∧ TSInv sc.ts := by decide
/-- hypothesis of `extract_sound`: "00-0102…10-00f067aa0ba902b7-01" with tracestate "a=1" is accepted -/
example : extract [0x30, 0x30, 0x2d, 0x30, 0x31, 0x30, 0x32, 0x30, 0x33, 0x30, 0x34, 0x30, 0x35, 0x30, 0x36, 0x30, 0x37, 0x30, 0x38, 0x30, 0x39, 0x30, 0x61, 0x30, 0x62, 0x30, 0x63, 0x30, 0x64, 0x30, 0x65, 0x30, 0x66, 0x31, 0x30, 0x2d, 0x30, 0x30, 0x66, 0x30, 0x36, 0x37, 0x61, 0x61, 0x30, 0x62, 0x61, 0x39, 0x30, 0x32, 0x62, 0x37, 0x2d, 0x30, 0x31] [0x61, 0x3d, 0x31]
    = some ⟨[0x01, 0x02, 0x03, 0x04, 0x05, 0x06, 0x07, 0x08, 0x09, 0x0a, 0x0b, 0x0c, 0x0d, 0x0e, 0x0f, 0x10], [0x00, 0xf0, 0x67, 0xaa, 0x0b, 0xa9, 0x02, 0xb7], 1, [⟨[0x61], [0x31]⟩], true⟩ := by decide
/-- a bad tracestate ("aš=1") leaves the traceparent usable -/
example : extract [0x30, 0x30, 0x2d, 0x30, 0x31, 0x30, 0x32, 0x30, 0x33, 0x30, 0x34, 0x30, 0x35, 0x30, 0x36, 0x30, 0x37, 0x30, 0x38, 0x30, 0x39, 0x30, 0x61, 0x30, 0x62, 0x30, 0x63, 0x30, 0x64, 0x30, 0x65, 0x30, 0x66, 0x31, 0x30, 0x2d, 0x30, 0x30, 0x66, 0x30, 0x36, 0x37, 0x61, 0x61, 0x30, 0x62, 0x61, 0x39, 0x30, 0x32, 0x62, 0x37, 0x2d, 0x30, 0x31] [0x61, 0xc5, 0xa1, 0x3d, 0x31]
    = some ⟨[0x01, 0x02, 0x03, 0x04, 0x05, 0x06, 0x07, 0x08, 0x09, 0x0a, 0x0b, 0x0c, 0x0d, 0x0e, 0x0f, 0x10], [0x00, 0xf0, 0x67, 0xaa, 0x0b, 0xa9, 0x02, 0xb7], 1, [], true⟩ := by decide
/-- a future version may carry a tail after a '-' and any flags -/
example : (extract [0x30, 0x31, 0x2d, 0x30, 0x31, 0x30, 0x32, 0x30, 0x33, 0x30, 0x34, 0x30, 0x35, 0x30, 0x36, 0x30, 0x37, 0x30, 0x38, 0x30, 0x39, 0x30, 0x61, 0x30, 0x62, 0x30, 0x63, 0x30, 0x64, 0x30, 0x65, 0x30, 0x66, 0x31, 0x30, 0x2d, 0x30, 0x30, 0x66, 0x30, 0x36, 0x37, 0x61, 0x61, 0x30, 0x62, 0x61, 0x39, 0x30, 0x32, 0x62, 0x37, 0x2d, 0x30, 0x39, 0x2d, 0x66, 0x75, 0x74, 0x75, 0x72, 0x65] []).isSome = true := by decide
/-- an upper-case hex digit is rejected -/
example : extract [0x30, 0x30, 0x2d, 0x30, 0x31, 0x30, 0x32, 0x30, 0x33, 0x30, 0x34, 0x30, 0x35, 0x30, 0x36, 0x30, 0x37, 0x30, 0x38, 0x30, 0x39, 0x30, 0x41, 0x30, 0x62, 0x30, 0x63, 0x30, 0x64, 0x30, 0x65, 0x30, 0x66, 0x31, 0x30, 0x2d, 0x30, 0x30, 0x66, 0x30, 0x36, 0x37, 0x61, 0x61, 0x30, 0x62, 0x61, 0x39, 0x30, 0x32, 0x62, 0x37, 0x2d, 0x30, 0x31] [] = none := by decide
end Examples

end Otel.C03
