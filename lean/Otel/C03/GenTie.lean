/-
C03 — generated tie.  `Otel.Gen.C03` is regenerated from /repo's current source by tools/go2lean on every run of
bin/check (checks/gentie.json); the theorems below are re-checked against the regenerated text.
Sites: the constants of propagation/trace_context.go (supportedVersion, maxVersion, header names, delimiter) and
trace/tracestate.go (maxListMembers, delimiters).  The C03 model carries these numbers inline (`version > 254`,
`acc'.length > 32`, `n < 32`), so besides the values the theorems pin the model's *behaviour at the boundary the
constant defines*: a header/tracestate built from the generated constant is accepted, the next one is not.
-/
import Otel.Gen.C03
import Otel.C03.Model
import Otel.C03.Carrier

namespace Otel.C03.GenTie
open Otel Otel.C03

def strBytes (s : String) : Bytes := s.toList.map (fun c => UInt8.ofNat c.toNat)
def hexDigit (n : Nat) : UInt8 := if n < 10 then UInt8.ofNat (48 + n) else UInt8.ofNat (87 + n)
def hex2 (n : Nat) : Bytes := [hexDigit (n / 16), hexDigit (n % 16)]

/-- a well-formed traceparent of version `v` (two lower-case hex digits) -/
def tpOfVersion (v : Nat) : Bytes :=
  hex2 v ++ strBytes Otel.Gen.C03.delimiter ++ strBytes "0af7651916cd43dd8448eb211c80319c" ++
  strBytes Otel.Gen.C03.delimiter ++ strBytes "b7ad6b7169203331" ++ strBytes Otel.Gen.C03.delimiter ++ strBytes "01"

/-- the i-th of a family of distinct legal list-members `xy=1` -/
def memKey (i : Nat) : Bytes := [UInt8.ofNat (97 + i / 26), UInt8.ofNat (97 + i % 26)]
def tsOfLen (n : Nat) : TraceState := (List.range n).map (fun i => ⟨memKey i, [0x31]⟩)
def tsHeaderOfLen (n : Nat) : Bytes :=
  List.intercalate (strBytes Otel.Gen.C03.listDelimiters)
    ((List.range n).map (fun i => memKey i ++ strBytes Otel.Gen.C03.memberDelimiter ++ [0x31]))

theorem gen_consts_values :
    Otel.Gen.C03.supportedVersion = 0 ∧ Otel.Gen.C03.maxVersion = 254 ∧ Otel.Gen.C03.maxListMembers = 32 ∧
    Otel.Gen.C03.delimiter = "-" ∧ Otel.Gen.C03.listDelimiters = "," ∧ Otel.Gen.C03.memberDelimiter = "=" := by decide

/-- the header names are the keys the model's carrier operations read and write -/
theorem gen_header_names_eq_model :
    strBytes Otel.Gen.C03.traceparentHeader = tpKey ∧ strBytes Otel.Gen.C03.tracestateHeader = tsKey := by decide

/-- version boundary: the model's `extract` accepts version `maxVersion` and rejects `maxVersion + 1` (0xff) -/
theorem gen_max_version_boundary :
    (extract (tpOfVersion Otel.Gen.C03.maxVersion.toNat) []).isSome = true ∧
    (extract (tpOfVersion (Otel.Gen.C03.maxVersion.toNat + 1)) []).isSome = false := by decide

/-- the version the model's `inject` writes is `supportedVersion` -/
theorem gen_supported_version_injected :
    ∀ sc tp tsh, inject sc = some (tp, tsh) → tp.take 2 = hex2 Otel.Gen.C03.supportedVersion.toNat := by
  intro sc tp tsh h
  unfold inject at h
  split at h
  · simp at h
  · simp at h; rw [← h.1]; rfl

set_option maxRecDepth 20000 in
/-- list-member boundary of `ParseTraceState`: `maxListMembers` members parse, one more is an error -/
theorem gen_max_list_members_parse_boundary :
    (parseTraceState (tsHeaderOfLen Otel.Gen.C03.maxListMembers.toNat)).map List.length = some Otel.Gen.C03.maxListMembers.toNat ∧
    parseTraceState (tsHeaderOfLen (Otel.Gen.C03.maxListMembers.toNat + 1)) = none := by decide

set_option maxRecDepth 20000 in
/-- list-member boundary of `Insert`: a new key grows a tracestate of `maxListMembers - 1` members to
`maxListMembers`, and leaves a full one at `maxListMembers` (the right-most member is evicted) -/
theorem gen_max_list_members_insert_boundary :
    (tsInsert (tsOfLen (Otel.Gen.C03.maxListMembers.toNat - 1)) [0x7a, 0x7a] [0x31]).map List.length = some Otel.Gen.C03.maxListMembers.toNat ∧
    (tsInsert (tsOfLen Otel.Gen.C03.maxListMembers.toNat) [0x7a, 0x7a] [0x31]).map List.length = some Otel.Gen.C03.maxListMembers.toNat := by
  decide

/-! ### the character classes of tracestate keys and values -/

private theorem gen_alnum_iff (x : Int) :
    Otel.Gen.C03.isAlphaNum x = true ↔ ((97 ≤ x ∧ x ≤ 122) ∨ (48 ≤ x ∧ x ≤ 57)) := by
  unfold Otel.Gen.C03.isAlphaNum
  by_cases h1 : (97 ≤ x ∧ x ≤ 122) <;> by_cases h2 : (48 ≤ x ∧ x ≤ 57) <;>
    simp [h1, h2] <;> (try omega) <;> (repeat' split) <;> (try simp_all) <;> omega

private theorem model_alnum_iff (c : UInt8) :
    isAlphaNum c = true ↔ ((97 ≤ (c.toNat : Int) ∧ (c.toNat : Int) ≤ 122) ∨ (48 ≤ (c.toNat : Int) ∧ (c.toNat : Int) ≤ 57)) := by
  unfold isAlphaNum; simp; omega

/-- `checkValueChar` / `checkValueLast` / `isAlphaNum` as written today are the model's predicates, on every byte -/
theorem gen_value_chars_eq_model (c : UInt8) :
    Otel.Gen.C03.checkValueChar (c.toNat : Int) = checkValueChar c ∧
    Otel.Gen.C03.checkValueLast (c.toNat : Int) = checkValueLast c ∧
    Otel.Gen.C03.isAlphaNum (c.toNat : Int) = isAlphaNum c := by
  refine ⟨?_, ?_, ?_⟩
  · unfold Otel.Gen.C03.checkValueChar checkValueChar
    generalize c.toNat = n
    rw [Bool.eq_iff_iff]; simp; omega
  · unfold Otel.Gen.C03.checkValueLast checkValueLast
    generalize c.toNat = n
    rw [Bool.eq_iff_iff]; simp; omega
  · rw [Bool.eq_iff_iff, gen_alnum_iff, model_alnum_iff]

/-- one iteration of the loop of `checkKeyRemain`: a byte that is lower-case alphanumeric or one of `_ - * /` moves on
to the next byte, any other byte rejects the key — the model's `keyRemainByte` -/
theorem gen_key_remain_step_eq_model (c : UInt8) :
    Otel.Gen.C03.checkKeyRemainStep (c.toNat : Int) =
      (if keyRemainByte c then "<continue>" else "false", ["v=key[i]"]) := by
  have hg : ∀ x : Int, Otel.Gen.C03.checkKeyRemainStep x =
      (if ((97 ≤ x ∧ x ≤ 122) ∨ (48 ≤ x ∧ x ≤ 57)) ∨ x = 95 ∨ x = 45 ∨ x = 42 ∨ x = 47 then "<continue>" else "false",
       ["v=key[i]"]) := by
    intro x
    unfold Otel.Gen.C03.checkKeyRemainStep
    by_cases h1 : (97 ≤ x ∧ x ≤ 122) <;> by_cases h2 : (48 ≤ x ∧ x ≤ 57) <;>
      by_cases h3 : (x = 95 ∨ x = 45 ∨ x = 42 ∨ x = 47) <;>
      simp [h1, h2, h3] <;> (try omega) <;> (repeat' split) <;> (try simp_all) <;> omega
  have hm : keyRemainByte c = true ↔
      (((97 ≤ (c.toNat : Int) ∧ (c.toNat : Int) ≤ 122) ∨ (48 ≤ (c.toNat : Int) ∧ (c.toNat : Int) ≤ 57)) ∨
        (c.toNat : Int) = 95 ∨ (c.toNat : Int) = 45 ∨ (c.toNat : Int) = 42 ∨ (c.toNat : Int) = 47) := by
    unfold keyRemainByte
    rw [Bool.or_eq_true, Bool.or_eq_true, Bool.or_eq_true, Bool.or_eq_true, model_alnum_iff]
    simp; omega
  rw [hg]
  by_cases hk : keyRemainByte c = true
  · rw [if_pos (hm.mp hk)]; simp [hk]
  · rw [if_neg (fun h => hk (hm.mpr h))]; simp [hk]

/-- the sampled bit of the trace flags -/
theorem gen_flags_sampled : Otel.Gen.C03.FlagsSampled = 1 := by decide

end Otel.C03.GenTie
