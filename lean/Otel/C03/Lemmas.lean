/-
C03 — helper lemmas (core Lean only).
-/
import Otel.C03.Spec
namespace Otel.C03
open Otel

/-! ### strings.Cut -/

theorem cut_none (sep : UInt8) (s : Bytes) (h : sep ∉ s) : cut sep s = (s, [], false) := by
  induction s with
  | nil => rfl
  | cons b r ih =>
    have hb : b ≠ sep := fun e => h (by simp [e])
    have hr : sep ∉ r := fun e => h (by simp [e])
    simp [cut, hb, ih hr]

theorem cut_append (sep : UInt8) (x y : Bytes) (h : sep ∉ x) : cut sep (x ++ sep :: y) = (x, y, true) := by
  induction x with
  | nil => simp [cut]
  | cons b r ih =>
    have hb : b ≠ sep := fun e => h (by simp [e])
    have hr : sep ∉ r := fun e => h (by simp [e])
    simp [cut, hb, ih hr]

theorem cut_found (sep : UInt8) (s : Bytes) (h : (cut sep s).2.2 = true) :
    s = (cut sep s).1 ++ sep :: (cut sep s).2.1 ∧ sep ∉ (cut sep s).1 := by
  induction s with
  | nil => simp [cut] at h
  | cons b r ih =>
    by_cases hb : b = sep
    · simp [cut, hb]
    · simp only [cut, hb, if_false] at h ⊢
      have := ih h
      refine ⟨by rw [List.cons_append, ← this.1], ?_⟩
      intro hm
      rcases List.mem_cons.mp hm with e | e
      · exact hb e.symm
      · exact this.2 e

theorem cut_not_found (sep : UInt8) (s : Bytes) (h : (cut sep s).2.2 = false) : sep ∉ s := by
  induction s with
  | nil => simp
  | cons b r ih =>
    by_cases hb : b = sep
    · simp [cut, hb] at h
    · simp only [cut, hb, if_false] at h
      intro hm
      rcases List.mem_cons.mp hm with e | e
      · exact hb e.symm
      · exact ih h e


/-! ### character classes: the code's tests are the ABNF's classes -/

theorem keyRemainByte_eq (c : UInt8) : keyRemainByte c = W3C.keychar c := by
  simp [keyRemainByte, isAlphaNum, W3C.keychar, W3C.lcalpha, W3C.digit]

theorem checkValueChar_eq (c : UInt8) : checkValueChar c = W3C.chr c := by
  rw [Bool.eq_iff_iff]
  simp only [checkValueChar, W3C.chr, W3C.nblkChr, Bool.and_eq_true, Bool.or_eq_true, decide_eq_true_eq, bne_iff_ne, beq_iff_eq, ne_eq]
  omega

theorem checkValueLast_eq (c : UInt8) : checkValueLast c = W3C.nblkChr c := by
  rw [Bool.eq_iff_iff]
  simp only [checkValueLast, W3C.nblkChr, Bool.and_eq_true, Bool.or_eq_true, decide_eq_true_eq, bne_iff_ne, ne_eq]
  omega

theorem checkKeyRemain_eq (k : Bytes) : checkKeyRemain k = k.all W3C.keychar := by
  simp only [checkKeyRemain]
  congr

theorem keychar_not_at (c : UInt8) (h : W3C.keychar c = true) : c ≠ 0x40 := by
  intro e; subst e; revert h; decide

theorem checkKeyPart_255 (k : Bytes) : checkKeyPart k 255 = W3C.simpleKey k := by
  cases k with
  | nil => rfl
  | cons c r => simp [checkKeyPart, W3C.simpleKey, W3C.lcalpha, checkKeyRemain_eq, Bool.and_comm]

theorem checkKeyPart_13 (k : Bytes) : checkKeyPart k 13 = W3C.systemId k := by
  cases k with
  | nil => rfl
  | cons c r => simp [checkKeyPart, W3C.systemId, W3C.lcalpha, checkKeyRemain_eq, Bool.and_comm]

theorem checkKeyTenant_240 (k : Bytes) : checkKeyTenant k 240 = W3C.tenantId k := by
  cases k with
  | nil => rfl
  | cons c r => simp [checkKeyTenant, W3C.tenantId, W3C.lcalpha, W3C.digit, isAlphaNum, checkKeyRemain_eq]

theorem tenantId_no_at (x : Bytes) (h : W3C.tenantId x = true) : (0x40 : UInt8) ∉ x := by
  cases x with
  | nil => simp
  | cons c r =>
    simp only [W3C.tenantId, Bool.and_eq_true, List.all_eq_true] at h
    intro hm
    rcases List.mem_cons.mp hm with e | e
    · have h1 := h.1.1
      rw [← e] at h1
      revert h1; decide
    · exact keychar_not_at _ (h.2 _ e) rfl

theorem simpleKey_no_at (x : Bytes) (h : W3C.simpleKey x = true) : (0x40 : UInt8) ∉ x := by
  cases x with
  | nil => simp
  | cons c r =>
    simp only [W3C.simpleKey, Bool.and_eq_true, List.all_eq_true] at h
    intro hm
    rcases List.mem_cons.mp hm with e | e
    · have h1 := h.1.1
      rw [← e] at h1
      revert h1; decide
    · exact keychar_not_at _ (h.2 _ e) rfl


theorem cut_cases (sep : UInt8) (s : Bytes) :
    (sep ∉ s ∧ cut sep s = (s, [], false)) ∨
    (∃ x y, s = x ++ sep :: y ∧ sep ∉ x ∧ cut sep s = (x, y, true)) := by
  cases hf : (cut sep s).2.2 with
  | false => exact Or.inl ⟨cut_not_found sep s hf, cut_none sep s (cut_not_found sep s hf)⟩
  | true =>
    have := cut_found sep s hf
    refine Or.inr ⟨(cut sep s).1, (cut sep s).2.1, this.1, this.2, ?_⟩
    rw [← hf]

theorem any_no_sep (sep : UInt8) (k : Bytes) (h : sep ∉ k) (f : Nat → Bool)
    (hf : ∀ i, f i = true → k[i]? = some sep) :
    (List.range k.length).any f = false := by
  rw [List.any_eq_false]
  intro i _ hfi
  exact h (List.mem_of_getElem? (hf i hfi))

/-- with the first `sep` at position `t.length`, only that position can split the string when the left
part must not contain `sep` -/
theorem any_split_unique (sep : UInt8) (t s : Bytes) (hnt : sep ∉ t) (L R : Bytes → Bool)
    (hL : ∀ x, L x = true → sep ∉ x) :
    (List.range (t ++ sep :: s).length).any
      (fun i => (t ++ sep :: s)[i]? == some sep && L ((t ++ sep :: s).take i) && R ((t ++ sep :: s).drop (i + 1)))
      = (L t && R s) := by
  rw [Bool.eq_iff_iff]
  simp only [List.any_eq_true, List.mem_range, Bool.and_eq_true, beq_iff_eq]
  constructor
  · rintro ⟨i, hi, ⟨h1, h2⟩, h3⟩
    have hit : i = t.length := by
      rcases Nat.lt_trichotomy i t.length with hlt | heq | hgt
      · exfalso
        rw [List.getElem?_append_left hlt] at h1
        exact hnt (List.mem_of_getElem? h1)
      · exact heq
      · exfalso
        apply hL _ h2
        have : (List.take i (t ++ sep :: s))[t.length]? = some sep := by
          rw [List.getElem?_take_of_lt hgt]
          simp
        exact List.mem_of_getElem? this
    subst hit
    simp at h2 h3
    exact ⟨h2, h3⟩
  · rintro ⟨h1, h2⟩
    refine ⟨t.length, by simp, ⟨by simp, by simpa using h1⟩, by simpa using h2⟩

theorem checkKey_eq (k : Bytes) : checkKey k = W3C.keyOK k := by
  unfold checkKey W3C.keyOK
  rcases cut_cases 0x40 k with ⟨hn, hc⟩ | ⟨t, s, rfl, hnt, hc⟩
  · rw [any_no_sep 0x40 k hn _ (by
      intro i hi
      simp only [Bool.and_eq_true, beq_iff_eq] at hi
      exact hi.1.1)]
    simp [hc, checkKeyPart_255]
  · rw [any_split_unique 0x40 t s hnt W3C.tenantId W3C.systemId tenantId_no_at]
    have hs : W3C.simpleKey (t ++ 0x40 :: s) = false := by
      cases h : W3C.simpleKey (t ++ 0x40 :: s) with
      | false => rfl
      | true => exact absurd (by simp) (simpleKey_no_at _ h)
    simp [hc, hs, checkKeyTenant_240, checkKeyPart_13]

theorem checkValue_eq (v : Bytes) : checkValue v = W3C.valueOK v := by
  unfold checkValue W3C.valueOK
  cases hl : v.getLast? with
  | none =>
    have : v = [] := by simpa using hl
    subst this; rfl
  | some l =>
    have hne : v ≠ [] := by intro e; subst e; simp at hl
    have hlen : v.length ≠ 0 := by simpa using hne
    simp only [← List.dropLast_eq_take, List.length_dropLast, checkValueLast_eq]
    have hc : v.dropLast.all checkValueChar = v.dropLast.all W3C.chr := by
      congr; funext c; exact checkValueChar_eq c
    rw [hc]
    by_cases h256 : v.length > 256
    · have : ¬ (v.length - 1 ≤ 255) := by omega
      simp [h256, this]
    · have : v.length - 1 ≤ 255 := by omega
      simp [h256, this, hlen, Bool.and_comm]

theorem newMember_some (k v : Bytes) (m : Member) :
    newMember k v = some m ↔ (W3C.keyOK k = true ∧ W3C.valueOK v = true ∧ m = ⟨k, v⟩) := by
  unfold newMember
  rw [checkKey_eq, checkValue_eq]
  cases W3C.keyOK k <;> cases W3C.valueOK v <;> simp [eq_comm]

theorem newMember_none (k v : Bytes) :
    newMember k v = none ↔ ¬ (W3C.keyOK k = true ∧ W3C.valueOK v = true) := by
  unfold newMember
  rw [checkKey_eq, checkValue_eq]
  cases W3C.keyOK k <;> cases W3C.valueOK v <;> simp


/-! ### ParseTraceState -/

theorem parseMember_ok (b : Bytes) (m : Member) (h : parseMember b = some m) :
    W3C.keyOK m.key = true ∧ W3C.valueOK m.val = true := by
  simp only [parseMember] at h
  split at h
  · simp at h
  · obtain ⟨hk, hv, rfl⟩ := (newMember_some _ _ _).mp h
    exact ⟨hk, hv⟩

theorem TSInv_snoc (acc : TraceState) (m : Member) (hinv : TSInv acc)
    (hm : W3C.keyOK m.key = true ∧ W3C.valueOK m.val = true)
    (hdup : acc.any (fun x => x.key == m.key) = false) (hlen : ¬ (acc ++ [m]).length > 32) :
    TSInv (acc ++ [m]) := by
  obtain ⟨_, h2, h3⟩ := hinv
  refine ⟨by omega, ?_, ?_⟩
  · intro x hx
    rcases List.mem_append.mp hx with hx | hx
    · exact h2 x hx
    · simp at hx; subst hx; exact hm
  · rw [List.map_append, List.nodup_append]
    refine ⟨h3, by simp, ?_⟩
    intro a ha b hb
    simp at hb
    subst hb
    rw [List.any_eq_false] at hdup
    obtain ⟨x, hx, rfl⟩ := List.mem_map.mp ha
    have := hdup x hx
    simpa using this

theorem parseLoop_inv (fuel : Nat) : ∀ (ts : Bytes) (acc r : TraceState),
    parseLoop fuel ts acc = some r → TSInv acc → TSInv r := by
  induction fuel with
  | zero => intro ts acc r h hinv; simp [parseLoop] at h; subst h; exact hinv
  | succ n ih =>
    intro ts acc r h hinv
    simp only [parseLoop] at h
    split at h
    · simp at h; subst h; exact hinv
    · split at h
      · exact ih _ _ _ h hinv
      · split at h
        · simp at h
        · rename_i m hm
          split at h
          · simp at h
          · split at h
            · simp at h
            · rename_i hdup hlen
              exact ih _ _ _ h (TSInv_snoc acc m hinv (parseMember_ok _ _ hm) (by simpa using hdup) hlen)

theorem TSInv_nil : TSInv [] := ⟨by simp, by simp, by simp⟩

theorem parseTraceState_inv (b : Bytes) (ts : TraceState) (h : parseTraceState b = some ts) : TSInv ts := by
  unfold parseTraceState at h
  split at h
  · simp at h; subst h; exact TSInv_nil
  · exact parseLoop_inv _ _ _ _ h TSInv_nil


/-! ### String, and parse ∘ String -/

theorem keychar_plain (c : UInt8) (h : W3C.keychar c = true ∨ c = 0x40) :
    c ≠ 0x2c ∧ c ≠ 0x3d ∧ isSpaceTab c = false := by
  rcases h with h | h
  · refine ⟨?_, ?_, ?_⟩
    · intro e; subst e; revert h; decide
    · intro e; subst e; revert h; decide
    · revert h
      simp only [W3C.keychar, W3C.lcalpha, W3C.digit, isSpaceTab, Bool.or_eq_true, Bool.and_eq_true,
        decide_eq_true_eq, beq_iff_eq, Bool.or_eq_false_iff, beq_eq_false_iff_ne, ne_eq]
      omega
  · subst h; decide

theorem tenantId_chars (x : Bytes) (h : W3C.tenantId x = true) :
    x ≠ [] ∧ ∀ c ∈ x, W3C.keychar c = true := by
  cases x with
  | nil => simp [W3C.tenantId] at h
  | cons c r =>
    simp only [W3C.tenantId, Bool.and_eq_true, List.all_eq_true] at h
    refine ⟨by simp, ?_⟩
    intro d hd
    rcases List.mem_cons.mp hd with e | e
    · subst e
      have := h.1.1
      simp only [W3C.keychar, Bool.or_eq_true] at this ⊢
      rcases this with t | t
      · exact Or.inl (Or.inl (Or.inl (Or.inl (Or.inl t))))
      · exact Or.inl (Or.inl (Or.inl (Or.inl (Or.inr t))))
    · exact h.2 _ e

theorem lckey_chars (x : Bytes) (n : Nat)
    (h : (match x with | [] => false | c :: r => W3C.lcalpha c && decide (r.length ≤ n) && r.all W3C.keychar) = true) :
    x ≠ [] ∧ ∀ c ∈ x, W3C.keychar c = true := by
  cases x with
  | nil => simp at h
  | cons c r =>
    simp only [Bool.and_eq_true, List.all_eq_true] at h
    refine ⟨by simp, ?_⟩
    intro d hd
    rcases List.mem_cons.mp hd with e | e
    · subst e
      have := h.1.1
      simp only [W3C.keychar, Bool.or_eq_true]
      exact Or.inl (Or.inl (Or.inl (Or.inl (Or.inl this))))
    · exact h.2 _ e

theorem keyOK_chars (k : Bytes) (h : W3C.keyOK k = true) :
    k ≠ [] ∧ ∀ c ∈ k, (W3C.keychar c = true ∨ c = 0x40) := by
  simp only [W3C.keyOK, Bool.or_eq_true, List.any_eq_true, List.mem_range, Bool.and_eq_true, beq_iff_eq] at h
  rcases h with h | ⟨i, hi, ⟨h1, h2⟩, h3⟩
  · have := lckey_chars k 255 (by cases k <;> simpa [W3C.simpleKey] using h)
    exact ⟨this.1, fun c hc => Or.inl (this.2 c hc)⟩
  · have ht := tenantId_chars _ h2
    have hs := lckey_chars (k.drop (i + 1)) 13 (by
      cases hd : k.drop (i + 1) <;> simpa [W3C.systemId, hd] using h3)
    have hk : k = k.take i ++ 0x40 :: k.drop (i + 1) := by
      have hget : k[i] = 0x40 := by
        have := List.getElem?_eq_getElem hi
        rw [this] at h1
        exact Option.some.inj h1
      rw [← hget, List.getElem_cons_drop, List.take_append_drop]
    refine ⟨by intro e; subst e; simp at hi, ?_⟩
    intro c hc
    rw [hk] at hc
    rcases List.mem_append.mp hc with hc | hc
    · exact Or.inl (ht.2 c hc)
    · rcases List.mem_cons.mp hc with e | e
      · exact Or.inr e
      · exact Or.inl (hs.2 c e)

theorem chr_plain (c : UInt8) (h : W3C.chr c = true) : c ≠ 0x2c ∧ c ≠ 0x3d := by
  constructor
  · intro e; subst e; revert h; decide
  · intro e; subst e; revert h; decide

theorem nblk_chr (c : UInt8) (h : W3C.nblkChr c = true) : W3C.chr c = true := by
  simp [W3C.chr, h]

theorem nblk_not_space (c : UInt8) (h : W3C.nblkChr c = true) : isSpaceTab c = false := by
  revert h
  simp only [W3C.nblkChr, isSpaceTab, Bool.or_eq_true, Bool.and_eq_true,
    decide_eq_true_eq, beq_iff_eq, Bool.or_eq_false_iff, beq_eq_false_iff_ne, ne_eq]
  omega

theorem valueOK_chars (v : Bytes) (h : W3C.valueOK v = true) :
    (∃ l, v = v.dropLast ++ [l] ∧ W3C.nblkChr l = true) ∧ ∀ c ∈ v, W3C.chr c = true := by
  unfold W3C.valueOK at h
  split at h
  · simp at h
  · rename_i l hl
    simp only [Bool.and_eq_true, List.all_eq_true] at h
    have hne : v ≠ [] := by intro e; subst e; simp at hl
    have hv : v = v.dropLast ++ [l] := by
      rw [List.getLast?_eq_getLast hne] at hl
      have := List.dropLast_concat_getLast hne
      rw [Option.some.inj hl] at this
      exact this.symm
    refine ⟨⟨l, hv, h.1.1⟩, ?_⟩
    intro c hc
    rw [hv] at hc
    rcases List.mem_append.mp hc with hc | hc
    · exact h.1.2 c hc
    · simp at hc; subst hc; exact nblk_chr _ h.1.1

theorem trimLeft_key (k : Bytes) (h : W3C.keyOK k = true) : trimLeft k = k := by
  have ⟨hne, hc⟩ := keyOK_chars k h
  cases k with
  | nil => exact absurd rfl hne
  | cons c r =>
    have := (keychar_plain c (hc c (by simp))).2.2
    simp [trimLeft, this]

theorem trimRight_val (v : Bytes) (h : W3C.valueOK v = true) : trimRight v = v := by
  obtain ⟨⟨l, hv, hl⟩, _⟩ := valueOK_chars v h
  have := nblk_not_space l hl
  unfold trimRight
  rw [hv]
  simp [this]

theorem memberString_no_comma (m : Member) (hk : W3C.keyOK m.key = true) (hv : W3C.valueOK m.val = true) :
    (0x2c : UInt8) ∉ memberString m := by
  unfold memberString
  intro hm
  rcases List.mem_append.mp hm with h | h
  · exact (keychar_plain _ ((keyOK_chars _ hk).2 _ h)).1 rfl
  · rcases List.mem_cons.mp h with e | e
    · revert e; decide
    · exact (chr_plain _ ((valueOK_chars _ hv).2 _ e)).1 rfl

theorem key_no_eq (k : Bytes) (hk : W3C.keyOK k = true) : (0x3d : UInt8) ∉ k := by
  intro h
  exact (keychar_plain _ ((keyOK_chars _ hk).2 _ h)).2.1 rfl

theorem parseMember_string (m : Member) (hk : W3C.keyOK m.key = true) (hv : W3C.valueOK m.val = true) :
    parseMember (memberString m) = some m := by
  simp only [parseMember, memberString, cut_append 0x3d m.key m.val (key_no_eq _ hk)]
  rw [trimLeft_key _ hk, trimRight_val _ hv]
  simp [(newMember_some m.key m.val m).mpr ⟨hk, hv, rfl⟩]

theorem tsString_single (m : Member) : tsString [m] = memberString m := by simp [tsString]

theorem tsString_cons_cons (m m' : Member) (r : TraceState) :
    tsString (m :: m' :: r) = memberString m ++ 0x2c :: tsString (m' :: r) := by
  simp [tsString]

theorem memberString_ne_nil (m : Member) : memberString m ≠ [] := by simp [memberString]

theorem tsString_eq_nil (ts : TraceState) : tsString ts = [] ↔ ts = [] := by
  cases ts with
  | nil => simp [tsString]
  | cons m r => simp [tsString, memberString]

theorem parseLoop_nil (fuel : Nat) (acc : TraceState) : parseLoop fuel [] acc = some acc := by
  cases fuel <;> simp [parseLoop]

theorem parseLoop_string (ms : TraceState) : ∀ (fuel : Nat) (acc : TraceState),
    TSInv (acc ++ ms) → (tsString ms).length ≤ fuel → parseLoop fuel (tsString ms) acc = some (acc ++ ms) := by
  induction ms with
  | nil => intro fuel acc _ _; simp [tsString, parseLoop_nil]
  | cons m r ih =>
    intro fuel acc hinv hfuel
    obtain ⟨hlen, hmem, hnd⟩ := hinv
    have hm := hmem m (by simp)
    have hs := memberString_ne_nil m
    have hdup : acc.any (fun x => x.key == m.key) = false := by
      rw [List.any_eq_false]
      intro x hx
      rw [List.map_append, List.nodup_append] at hnd
      have := hnd.2.2 x.key (List.mem_map_of_mem hx) m.key (by simp)
      simpa using this
    have hlen1 : ¬ (acc ++ [m]).length > 32 := by
      simp only [List.length_append, List.length_cons] at hlen ⊢
      simp; omega
    have hpm := parseMember_string m hm.1 hm.2
    have hnc := memberString_no_comma m hm.1 hm.2
    cases r with
    | nil =>
      rw [tsString_single] at hfuel ⊢
      cases fuel with
      | zero => cases hq : memberString m with
        | nil => exact absurd hq hs
        | cons a b => rw [hq] at hfuel; simp at hfuel
      | succ f =>
        simp only [parseLoop, hs, if_false, cut_none 0x2c _ hnc, hpm, hdup]
        simp only [hlen1, if_false]
        simp [parseLoop_nil]
    | cons m' r' =>
      rw [tsString_cons_cons] at hfuel ⊢
      cases fuel with
      | zero => simp at hfuel
      | succ f =>
        have hne : memberString m ++ 0x2c :: tsString (m' :: r') ≠ [] := by simp
        simp only [parseLoop, hne, if_false, cut_append 0x2c _ _ hnc, hs, hpm, hdup]
        simp only [hlen1, if_false]
        have := ih f (acc ++ [m]) (by
          rw [List.append_assoc]; exact ⟨hlen, hmem, hnd⟩) (by
          simp only [List.length_append, List.length_cons] at hfuel; omega)
        simpa [List.append_assoc] using this

theorem parse_tsString (ts : TraceState) (h : TSInv ts) : parseTraceState (tsString ts) = some ts := by
  unfold parseTraceState
  split
  · rename_i he
    rw [tsString_eq_nil] at he
    simp [he]
  · have := parseLoop_string ts (tsString ts).length [] (by simpa using h) (Nat.le_refl _)
    simpa using this


/-! ### Insert / Delete -/

theorem findLastFrom_absent (k : Bytes) (ts : TraceState) (h : k ∉ ts.map (·.key)) :
    ∀ i f, findLastFrom k ts i f = f := by
  induction ts with
  | nil => intro i f; rfl
  | cons x r ih =>
    intro i f
    have hx : x.key ≠ k := fun e => h (by simp [e])
    have hr : k ∉ r.map (·.key) := fun e => h (by simp at e ⊢; exact Or.inr e)
    simp [findLastFrom, hx, ih hr]

theorem filter_absent (k : Bytes) (ts : TraceState) (h : k ∉ ts.map (·.key)) :
    ts.filter (fun m => m.key != k) = ts := by
  rw [List.filter_eq_self]
  intro m hm
  have : m.key ≠ k := fun e => h (e ▸ List.mem_map_of_mem hm)
  simpa using this

theorem findLastFrom_present (k : Bytes) (ts : TraceState) (hnd : (ts.map (·.key)).Nodup)
    (hk : k ∈ ts.map (·.key)) :
    ∀ i f, ∃ j, j < ts.length ∧ findLastFrom k ts i f = i + j ∧
      ts.take j ++ ts.drop (j + 1) = ts.filter (fun m => m.key != k) := by
  induction ts with
  | nil => simp at hk
  | cons x r ih =>
    intro i f
    simp only [List.map_cons, List.nodup_cons] at hnd
    by_cases hx : x.key = k
    · have hr : k ∉ r.map (·.key) := hx ▸ hnd.1
      refine ⟨0, by simp, ?_, ?_⟩
      · simp [findLastFrom, hx, findLastFrom_absent k r hr]
      · simp [hx, filter_absent k r hr]
    · have hr : k ∈ r.map (·.key) := by
        simp only [List.map_cons, List.mem_cons] at hk
        rcases hk with e | e
        · exact absurd e.symm hx
        · exact e
      obtain ⟨j, hj, hf, he⟩ := ih hnd.2 hr (i + 1) f
      refine ⟨j + 1, by simp; omega, ?_, ?_⟩
      · simp only [findLastFrom, hx, if_false, hf]; omega
      · have : (x.key != k) = true := by simpa using hx
        simp [List.filter_cons, this, he]

theorem tsInsert_eq_ref (ts : TraceState) (k v : Bytes) (hnd : (ts.map (·.key)).Nodup) (hlen : ts.length ≤ 32) :
    tsInsert ts k v = refInsert ts k v := by
  unfold tsInsert refInsert
  cases hm : newMember k v with
  | none =>
    have := (newMember_none k v).mp hm
    have h2 : (W3C.keyOK k && W3C.valueOK v) = false := by
      cases h1 : W3C.keyOK k <;> cases h2 : W3C.valueOK v <;> simp_all
    simp [h2]
  | some m =>
    obtain ⟨hk, hv, rfl⟩ := (newMember_some k v m).mp hm
    simp only [hk, hv, Bool.and_self, if_true]
    by_cases hin : k ∈ ts.map (·.key)
    · obtain ⟨j, hj, hf, he⟩ := findLastFrom_present k ts hnd hin 0 ts.length
      simp only [Nat.zero_add] at hf
      have hne : ¬ (j = ts.length ∧ ts.length < 32) := by omega
      simp only [hf, hne, if_false, hj, if_true]
      rw [← he]
      have h1 : List.take ts.length (⟨k, v⟩ :: List.take j ts) = ⟨k, v⟩ :: List.take j ts := by
        apply List.take_of_length_le
        simp only [List.length_cons, List.length_take]; omega
      have h2 : List.take (ts.length - (1 + j)) (List.drop (j + 1) ts) = List.drop (j + 1) ts := by
        apply List.take_of_length_le
        simp only [List.length_drop]; omega
      have h3 : List.take 32 (⟨k, v⟩ :: (List.take j ts ++ List.drop (j + 1) ts))
          = ⟨k, v⟩ :: (List.take j ts ++ List.drop (j + 1) ts) := by
        apply List.take_of_length_le
        simp only [List.length_cons, List.length_append, List.length_take, List.length_drop]; omega
      rw [h1, h2, h3]; simp
    · have hf := findLastFrom_absent k ts hin 0 ts.length
      simp only [hf, Nat.lt_irrefl, if_false, true_and, filter_absent k ts hin, List.take_length]
      by_cases h32 : ts.length < 32
      · simp only [h32, if_true]
        rw [List.take_of_length_le (by simp), List.take_of_length_le (by simp; omega)]
      · have : ts.length = 32 := by omega
        simp [h32, this]

theorem tsDelete_eq_ref (ts : TraceState) (k : Bytes) (hnd : (ts.map (·.key)).Nodup) :
    tsDelete ts k = refDelete ts k := by
  unfold tsDelete refDelete
  induction ts with
  | nil => rfl
  | cons x r ih =>
    simp only [List.map_cons, List.nodup_cons] at hnd
    by_cases hx : x.key = k
    · have hr : k ∉ r.map (·.key) := hx ▸ hnd.1
      simp [List.eraseP_cons, hx, filter_absent k r hr]
    · have h1 : (x.key == k) = false := by simpa using hx
      have h2 : (x.key != k) = true := by simpa using hx
      simp [List.eraseP_cons, h1, List.filter_cons, h2, ih hnd.2]

theorem TSInv_sublist (a b : TraceState) (hs : a.Sublist b) (h : TSInv b) : TSInv a := by
  obtain ⟨h1, h2, h3⟩ := h
  exact ⟨Nat.le_trans hs.length_le h1, fun m hm => h2 m (hs.subset hm), (hs.map _).nodup h3⟩

theorem refInsert_inv (ts ts' : TraceState) (k v : Bytes) (h : TSInv ts) (hr : refInsert ts k v = some ts') :
    TSInv ts' := by
  unfold refInsert at hr
  split at hr
  · rename_i hkv
    simp only [Bool.and_eq_true] at hkv
    simp only [Option.some.injEq] at hr
    subst hr
    have hf := TSInv_sublist _ _ (List.filter_sublist (p := fun m => m.key != k)) h
    obtain ⟨_, h2, h3⟩ := hf
    refine ⟨by simp [List.length_take]; omega, ?_, ?_⟩
    · intro m hm
      have := List.mem_of_mem_take hm
      rcases List.mem_cons.mp this with e | e
      · subst e; exact hkv
      · exact h2 m e
    · apply ((List.take_sublist 32 _).map _).nodup
      simp only [List.map_cons, List.nodup_cons]
      refine ⟨?_, h3⟩
      intro hm
      obtain ⟨x, hx, hxe⟩ := List.mem_map.mp hm
      have := (List.mem_filter.mp hx).2
      simp at this
      exact this hxe
  · simp at hr

theorem refDelete_inv (ts : TraceState) (k : Bytes) (h : TSInv ts) : TSInv (refDelete ts k) :=
  TSInv_sublist _ _ List.filter_sublist h

end Otel.C03
