/-
C03 — helper lemmas for TraceIDFromHex / SpanIDFromHex (core Lean only).
-/
import Otel.C03.LemmasExtract
namespace Otel.C03
open Otel

theorem pairs_induction {P : Bytes → Prop} (h0 : P []) (h1 : ∀ x, P [x])
    (h2 : ∀ a b r, P r → P (a :: b :: r)) : ∀ s, P s
  | [] => h0
  | [x] => h1 x
  | a :: b :: r => h2 a b r (pairs_induction h0 h1 h2 r)

theorem hexVal_ascii (c : UInt8) (h : (hexVal c).isSome = true) : c.toNat < 0x80 := by
  unfold hexVal at h
  simp only at h
  split at h
  · omega
  · split at h
    · omega
    · split at h
      · omega
      · simp at h

theorem hexDecode_ascii (h : Bytes) : ∀ t, hexDecode h = some t → ∀ c ∈ h, c.toNat < 0x80 := by
  induction h using pairs_induction with
  | h0 => intro t _ c hc; simp at hc
  | h1 x => intro t ht; simp [hexDecode] at ht
  | h2 a b r ih =>
    intro t ht c hc
    simp only [hexDecode] at ht
    cases ha : hexVal a with
    | none => simp [ha] at ht
    | some x =>
      cases hb : hexVal b with
      | none => simp [ha, hb] at ht
      | some y =>
        cases hr : hexDecode r with
        | none => simp [ha, hb, hr] at ht
        | some d =>
          simp only [List.mem_cons] at hc
          rcases hc with e | e | e
          · subst e; exact hexVal_ascii _ (by simp [ha])
          · subst e; exact hexVal_ascii _ (by simp [hb])
          · exact ih d hr c e

theorem lowerRunes_ascii (h : Bytes) (ha : ∀ c ∈ h, c.toNat < 0x80) :
    (Utf8.chunks h).all (fun c => isLowerHexRune c.rune) = h.all W3C.hexdiglc := by
  rw [chunks_ascii h ha, List.all_map]
  congr
  funext b
  simp only [Function.comp, isLowerHexRune, W3C.hexdiglc]
  rw [Bool.or_comm]

theorem hexdiglc_char (c : UInt8) (h : W3C.hexdiglc c = true) : ∃ x, x < 16 ∧ hexChar x = c := by
  simp only [W3C.hexdiglc, Bool.or_eq_true, Bool.and_eq_true, decide_eq_true_eq] at h
  rcases h with h | h
  · refine ⟨c.toNat - 48, by omega, ?_⟩
    have : c.toNat - 48 < 10 := by omega
    simp only [hexChar, this, if_true]
    have : 48 + (c.toNat - 48) = c.toNat := by omega
    rw [this]; simp
  · refine ⟨c.toNat - 87, by omega, ?_⟩
    have : ¬ (c.toNat - 87 < 10) := by omega
    simp only [hexChar, this, if_false]
    have : 87 + (c.toNat - 87) = c.toNat := by omega
    rw [this]; simp

theorem hexEncode_pair (x y : Nat) (hx : x < 16) (hy : y < 16) (r : Bytes) :
    hexEncode (UInt8.ofNat (x * 16 + y) :: r) = hexChar x :: hexChar y :: hexEncode r := by
  rw [hexEncode_cons]
  have : (UInt8.ofNat (x * 16 + y)).toNat = x * 16 + y := by
    simp [UInt8.toNat_ofNat']; omega
  rw [this]
  have h1 : (x * 16 + y) / 16 = x := by omega
  have h2 : (x * 16 + y) % 16 = y := by omega
  rw [h1, h2]

/-- every even-length lower-case hex string is the encoding of some byte string -/
theorem hexEncode_surj (h : Bytes) : h.all W3C.hexdiglc = true → h.length % 2 = 0 → ∃ t, hexEncode t = h := by
  induction h using pairs_induction with
  | h0 => intro _ _; exact ⟨[], rfl⟩
  | h1 x => intro _ hl; simp at hl
  | h2 a b r ih =>
    intro hl he
    simp only [List.all_cons, Bool.and_eq_true] at hl
    obtain ⟨x, hx, rfl⟩ := hexdiglc_char a hl.1
    obtain ⟨y, hy, rfl⟩ := hexdiglc_char b hl.2.1
    obtain ⟨t, rfl⟩ := ih hl.2.2 (by simp only [List.length_cons] at he; omega)
    exact ⟨UInt8.ofNat (x * 16 + y) :: t, hexEncode_pair x y hx hy t⟩

theorem hexEncode_inj (a b : Bytes) (h : hexEncode a = hexEncode b) : a = b := by
  have := congrArg hexDecode h
  simpa [hexDecode_hexEncode] using this

theorem idFromHex_iff (n : Nat) (h t : Bytes) :
    idFromHex n h = some t ↔ (idHexOK n h = true ∧ hexEncode t = h) := by
  constructor
  · intro hi
    unfold idFromHex at hi
    split at hi
    · simp at hi
    · rename_i hlen
      have hlen : h.length = n := by simpa using hlen
      cases hd : decodeHexId h with
      | none => simp [hd] at hi
      | some d =>
        simp only [hd] at hi
        split at hi
        · simp at hi
        · rename_i hz
          simp only [Option.some.injEq] at hi
          subst hi
          unfold decodeHexId at hd
          split at hd
          · simp at hd
          · rename_i hrunes
            have hasc := hexDecode_ascii h d hd
            rw [lowerRunes_ascii h hasc] at hrunes
            have hlow : h.all W3C.hexdiglc = true := by simpa using hrunes
            have hlen2 : h.length % 2 = 0 := by
              cases hm : h.length % 2 with
              | zero => rfl
              | succ k =>
                exfalso
                -- an odd-length string is not decodable
                have : ∀ (s : Bytes), s.length % 2 = 1 → hexDecode s = none := by
                  intro s
                  induction s using pairs_induction with
                  | h0 => intro h; simp at h
                  | h1 x => intro _; rfl
                  | h2 a b r ih =>
                    intro hs
                    have := ih (by simp only [List.length_cons] at hs; omega)
                    simp [hexDecode, this]
                have := this h (by omega)
                rw [this] at hd; simp at hd
            obtain ⟨t', ht'⟩ := hexEncode_surj h hlow hlen2
            have : d = t' := by
              rw [← ht', hexDecode_hexEncode] at hd
              exact (Option.some.inj hd).symm
            subst this
            refine ⟨?_, ht'⟩
            have hz' : allZero d = false := by simpa using hz
            have hz2 : W3C.allZeroDigits h = false := by rw [← ht', hexEncode_allZero]; exact hz'
            simp only [idHexOK, W3C.hexField, hlen, hlow, hz2]; simp
  · rintro ⟨hok, rfl⟩
    simp only [idHexOK, W3C.hexField, Bool.and_eq_true, beq_iff_eq, Bool.not_eq_true'] at hok
    obtain ⟨⟨hlen, hlow⟩, hz⟩ := hok
    rw [hexEncode_allZero] at hz
    have hasc : ∀ c ∈ hexEncode t, c.toNat < 0x80 := by
      intro c hc
      simp only [List.all_eq_true] at hlow
      exact (hexdiglc_props c (hlow c hc)).2.1
    unfold idFromHex decodeHexId
    rw [lowerRunes_ascii _ hasc]
    simp [hlen, hlow, hexDecode_hexEncode, hz]

end Otel.C03
