/-
C03 — specification, written from the W3C Trace Context ABNF (https://www.w3.org/TR/trace-context-1/)
independently of the validation functions of the implementation. Executable (Bool / decidable): the same
definitions are the conclusions of the theorems in Props.lean and the oracle the driver evaluates on the
implementation's observed results.

  traceparent     = version "-" version-format            version = 2HEXDIGLC
  version-format  = trace-id "-" parent-id "-" trace-flags   (version 00)
  trace-id = 32HEXDIGLC (not all zero)   parent-id = 16HEXDIGLC (not all zero)   trace-flags = 2HEXDIGLC
  list        = list-member 0*31( OWS "," OWS list-member )
  list-member = key "=" value
  key         = simple-key / multi-tenant-key
  simple-key  = lcalpha 0*255( lcalpha / DIGIT / "_" / "-"/ "*" / "/" )
  multi-tenant-key = tenant-id "@" system-id
  tenant-id   = ( lcalpha / DIGIT ) 0*240( lcalpha / DIGIT / "_" / "-"/ "*" / "/" )
  system-id   = lcalpha 0*13( lcalpha / DIGIT / "_" / "-"/ "*" / "/" )
  value       = 0*255(chr) nblk-chr     nblk-chr = %x21-2B / %x2D-3C / %x3E-7E     chr = %x20 / nblk-chr
-/
import Otel.C03.Model
namespace Otel.C03
namespace W3C

/-- HEXDIGLC -/
def hexdiglc (c : UInt8) : Bool := (0x30 ≤ c.toNat && c.toNat ≤ 0x39) || (0x61 ≤ c.toNat && c.toNat ≤ 0x66)

def allZeroDigits (s : Bytes) : Bool := s.all (fun c => c.toNat == 0x30)

/-- n lower-case hex digits -/
def hexField (n : Nat) (s : Bytes) : Bool := s.length == n && s.all hexdiglc

/-- a version-00 traceparent, read positionally: 2 + 1 + 32 + 1 + 16 + 1 + 2 = 55 bytes -/
def traceparentOK (h : Bytes) : Bool :=
  h.length == 55 &&
  h.take 2 == [0x30, 0x30] &&
  h[2]? == some 0x2d &&
  hexField 32 ((h.drop 3).take 32) && !allZeroDigits ((h.drop 3).take 32) &&
  h[35]? == some 0x2d &&
  hexField 16 ((h.drop 36).take 16) && !allZeroDigits ((h.drop 36).take 16) &&
  h[52]? == some 0x2d &&
  hexField 2 (h.drop 53)

/-- what any conforming parser may accept as a traceparent of ANY version (W3C §3.2.2.1–3.2.2.5 and the
forward-compatibility rules of §3.2.4): 2HEXDIGLC version other than "ff", "-", 32HEXDIGLC not all zero, "-",
16HEXDIGLC not all zero, "-", 2HEXDIGLC, and then either the end of the string or a "-" (followed by anything). -/
def traceparentShapeOK (h : Bytes) : Bool :=
  decide (55 ≤ h.length) &&
  hexField 2 (h.take 2) && h.take 2 != [0x66, 0x66] &&
  h[2]? == some 0x2d &&
  hexField 32 ((h.drop 3).take 32) && !allZeroDigits ((h.drop 3).take 32) &&
  h[35]? == some 0x2d &&
  hexField 16 ((h.drop 36).take 16) && !allZeroDigits ((h.drop 36).take 16) &&
  h[52]? == some 0x2d &&
  hexField 2 ((h.drop 53).take 2) &&
  (h.length == 55 || h[55]? == some 0x2d)

def lcalpha (c : UInt8) : Bool := 0x61 ≤ c.toNat && c.toNat ≤ 0x7a
def digit (c : UInt8) : Bool := 0x30 ≤ c.toNat && c.toNat ≤ 0x39
/-- lcalpha / DIGIT / "_" / "-" / "*" / "/" -/
def keychar (c : UInt8) : Bool :=
  lcalpha c || digit c || c.toNat == 0x5f || c.toNat == 0x2d || c.toNat == 0x2a || c.toNat == 0x2f

def simpleKey : Bytes → Bool
  | [] => false
  | c :: r => lcalpha c && decide (r.length ≤ 255) && r.all keychar
def tenantId : Bytes → Bool
  | [] => false
  | c :: r => (lcalpha c || digit c) && decide (r.length ≤ 240) && r.all keychar
def systemId : Bytes → Bool
  | [] => false
  | c :: r => lcalpha c && decide (r.length ≤ 13) && r.all keychar

/-- key = simple-key / tenant-id "@" system-id  (some position of an '@' splits it) -/
def keyOK (k : Bytes) : Bool :=
  simpleKey k ||
  (List.range k.length).any (fun i => k[i]? == some 0x40 && tenantId (k.take i) && systemId (k.drop (i + 1)))

def nblkChr (c : UInt8) : Bool :=
  (0x21 ≤ c.toNat && c.toNat ≤ 0x2b) || (0x2d ≤ c.toNat && c.toNat ≤ 0x3c) || (0x3e ≤ c.toNat && c.toNat ≤ 0x7e)
def chr (c : UInt8) : Bool := c.toNat == 0x20 || nblkChr c

/-- value = 0*255(chr) nblk-chr -/
def valueOK (v : Bytes) : Bool :=
  match v.getLast? with
  | none => false
  | some l => nblkChr l && v.dropLast.all chr && decide (v.dropLast.length ≤ 255)

/-- list-member = key "=" value (some position of an '=' splits it) -/
def memberOK (m : Bytes) : Bool :=
  (List.range m.length).any (fun i => m[i]? == some 0x3d && keyOK (m.take i) && valueOK (m.drop (i + 1)))

/-- split at every occurrence of `sep` (always at least one piece) -/
def pieces (sep : UInt8) : Bytes → List Bytes
  | [] => [[]]
  | b :: r =>
    if b = sep then [] :: pieces sep r
    else
      match pieces sep r with
      | x :: xs => (b :: x) :: xs
      | [] => [[b]]

/-- the key of a serialised member: everything before the first '=' -/
def memberKey (m : Bytes) : Bytes := m.takeWhile (fun b => b != 0x3d)
def memberVal (m : Bytes) : Bytes := (m.dropWhile (fun b => b != 0x3d)).drop 1

/-- a tracestate header as this library emits it: 1..32 list-members separated by "," (no OWS, no empty
members), legal keys and values, no key twice. (An empty tracestate is never emitted as a header.) -/
def tracestateOK (s : Bytes) : Bool :=
  let ms := pieces 0x2c s
  decide (ms.length ≤ 32) && ms.all memberOK && decide ((ms.map memberKey).Nodup)

/-- decode an emitted tracestate (oracle side only): members in order -/
def decodeTS (s : Bytes) : List Member :=
  if s = [] then [] else (pieces 0x2c s).map (fun m => ⟨memberKey m, memberVal m⟩)

end W3C

/-- the invariant of a `TraceState` value: at most 32 members, every key/value legal per the ABNF,
no key twice -/
def TSInv (ts : TraceState) : Prop :=
  ts.length ≤ 32 ∧ (∀ m ∈ ts, W3C.keyOK m.key = true ∧ W3C.valueOK m.val = true) ∧ (ts.map (·.key)).Nodup

instance (ts : TraceState) : Decidable (TSInv ts) := by unfold TSInv; exact inferInstance

/-! ### reference semantics of the edits (ordered association list, newest first, bounded by 32) -/

/-- insert/update: the new member first, the others in order without the old binding, at most 32 kept
(the right-most is dropped on overflow); illegal key or value: error -/
def refInsert (ts : TraceState) (k v : Bytes) : Option TraceState :=
  if W3C.keyOK k && W3C.valueOK v then some ((⟨k, v⟩ :: ts.filter (fun m => m.key != k)).take 32) else none

def refDelete (ts : TraceState) (k : Bytes) : TraceState := ts.filter (fun m => m.key != k)

def refGet (ts : TraceState) (k : Bytes) : Bytes :=
  ((ts.filter (fun m => m.key == k)).head?.map (·.val)).getD []

/-- the identifiers of a span context are usable: right sizes, not all zero -/
def idsValid (tid sid : Bytes) : Bool :=
  tid.length == 16 && sid.length == 8 && tid.any (fun b => b.toNat != 0) && sid.any (fun b => b.toNat != 0)

/-- `TraceIDFromHex` / `SpanIDFromHex` accept exactly n lower-case hex digits that are not all '0' -/
def idHexOK (n : Nat) (h : Bytes) : Bool := W3C.hexField n h && !W3C.allZeroDigits h

/-- an accepted header has the W3C shape and the extracted identifiers are the ones it spells -/
def acceptedOK (h tid sid : Bytes) : Bool :=
  W3C.traceparentShapeOK h && hexEncode tid == (h.drop 3).take 32 && hexEncode sid == (h.drop 36).take 16

end Otel.C03
