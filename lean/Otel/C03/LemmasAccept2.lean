/- C03 — lemmas: `extract` accepts exactly `W3C.traceparentAccepts` (helpers for PropsDeep.lean) -/
import Otel.C03.LemmasAccept
namespace Otel.C03
open Otel

theorem u8_of_toNat (v : UInt8) (n : Nat) (hn : n < 256) (h : v.toNat = n) : v = UInt8.ofNat n := by
  apply UInt8.toNat_inj.mp
  rw [h]; simp [Nat.mod_eq_of_lt hn]

theorem flags_le2 (o : UInt8) (h : o.toNat ≤ 2) :
    hexEncode [o] = [0x30, 0x30] ∨ hexEncode [o] = [0x30, 0x31] ∨ hexEncode [o] = [0x30, 0x32] := by
  have : o.toNat = 0 ∨ o.toNat = 1 ∨ o.toNat = 2 := by omega
  rcases this with e | e | e
  · rw [u8_of_toNat o 0 (by omega) e]; exact Or.inl (by decide)
  · rw [u8_of_toNat o 1 (by omega) e]; exact Or.inr (Or.inl (by decide))
  · rw [u8_of_toNat o 2 (by omega) e]; exact Or.inr (Or.inr (by decide))

theorem accepts_of_some (h t : Bytes) (sc : SpanCtx) (he : extract h t = some sc) : W3C.traceparentAccepts h = true := by
  obtain ⟨v, o, tid, sid, tail, rfl, ht, hs, htail⟩ := extract_inv_fields h t sc he
  rw [extract_fields v o tid sid tail t ht hs htail] at he
  by_cases h1 : v.toNat > 254
  · simp [h1] at he
  · simp only [h1, if_false] at he
    by_cases h2 : (v.toNat == 0 && (tail.drop 1 != [] || decide (o.toNat > 2))) = true
    · rw [if_pos h2] at he; simp at he
    · rw [if_neg h2] at he
      by_cases h3 : (allZero tid || allZero sid) = true
      · rw [if_pos h3] at he; simp at he
      · simp only [Bool.or_eq_true, not_or, Bool.not_eq_true] at h3
        have hVl : (hexEncode [v]).length = 2 := by rw [hexEncode_length]; rfl
        have hTl : (hexEncode tid).length = 32 := by rw [hexEncode_length]; omega
        have hSl : (hexEncode sid).length = 16 := by rw [hexEncode_length]; omega
        have hFl : (hexEncode [o]).length = 2 := by rw [hexEncode_length]; rfl
        have hVf : hexEncode [v] ≠ [0x66, 0x66] := by
          intro e
          have : hexEncode [v] = hexEncode [0xff] := by rw [e]; decide
          have := hexEncode_inj _ _ this
          simp only [List.cons.injEq, and_true] at this
          subst this
          exact h1 (by decide)
        have hsh := shape_eval (hexEncode [v]) (hexEncode tid) (hexEncode sid) (hexEncode [o]) tail hVl hTl hSl hFl
          (hexEncode_lower _) (hexEncode_lower _) (hexEncode_lower _) (hexEncode_lower _) hVf
          (by rw [hexEncode_allZero]; exact h3.1) (by rw [hexEncode_allZero]; exact h3.2) htail
        have hpos := enc_positions (hexEncode [v]) (hexEncode tid) (hexEncode sid) (hexEncode [o]) tail hVl hTl hSl hFl
        simp only [W3C.traceparentAccepts, encTP, hsh.1, Bool.true_and, hpos.1, hpos.2.1, hpos.2.2.1]
        by_cases hv0 : v.toNat = 0
        · have hv : v = 0 := u8_of_toNat v 0 (by omega) hv0
          have hc : (tail.drop 1 != [] || decide (o.toNat > 2)) = false := by
            cases hcc : (tail.drop 1 != [] || decide (o.toNat > 2))
            · rfl
            · exfalso; apply h2; rw [hcc]; simp [hv0]
          simp only [Bool.or_eq_false_iff, bne_eq_false_iff_eq, decide_eq_false_iff_not] at hc
          have hlen : tail.length = 0 ∨ tail.length = 1 := by
            rcases htail with e | ⟨r, e⟩
            · simp [e]
            · have := hc.1; rw [e] at this; simp at this; simp [e, this]
          have hfl := flags_le2 o (by omega)
          have hl : (55 + tail.length == 55 || 55 + tail.length == 56) = true := by
            rcases hlen with e | e <;> simp [e]
          have hf : (hexEncode [o] == [0x30, 0x30] || hexEncode [o] == [0x30, 0x31] || hexEncode [o] == [0x30, 0x32]) = true := by
            rcases hfl with e | e | e <;> simp [e]
          simp [hl, hf]
        · have : (hexEncode [v] != [0x30, 0x30]) = true := by
            simp only [bne_iff_ne, ne_eq]
            intro e
            have : hexEncode [v] = hexEncode [0] := by rw [e]; decide
            have := hexEncode_inj _ _ this
            simp only [List.cons.injEq, and_true] at this
            exact hv0 (by rw [this]; rfl)
          simp [this]

theorem some_of_accepts (h t : Bytes) (ha : W3C.traceparentAccepts h = true) : (extract h t).isSome = true := by
  simp only [W3C.traceparentAccepts, W3C.traceparentShapeOK, W3C.hexField, Bool.and_eq_true, decide_eq_true_eq,
    beq_iff_eq, bne_iff_ne, ne_eq, Bool.not_eq_true', Bool.or_eq_true, and_assoc] at ha
  obtain ⟨hlen, _, hVh, hVf, h2, hTl, hTh, hTz, h35, hSl, hSh, hSz, h52, hFl, hFh, hend, hv0⟩ := ha
  have hVl : (h.take 2).length = 2 := by rw [List.length_take]; omega
  have hdec := positional_decomp h h2 h35 h52
  obtain ⟨v, hv⟩ := hex_single (h.take 2) hVl hVh
  obtain ⟨tid, htid, htl⟩ := hex_of_len ((h.drop 3).take 32) 16 hTl hTh
  obtain ⟨sid, hsid, hsl⟩ := hex_of_len ((h.drop 36).take 16) 8 hSl hSh
  obtain ⟨o, ho⟩ := hex_single ((h.drop 53).take 2) hFl hFh
  have htail : h.drop 55 = [] ∨ ∃ r, h.drop 55 = 0x2d :: r := by
    rcases hend with e | e
    · left; apply List.drop_eq_nil_of_le; omega
    · right; exact ⟨_, drop_cons_of_get h 55 _ e⟩
  have henc : h = encTP v tid sid o (h.drop 55) := by
    unfold encTP; rw [hv, htid, hsid, ho]; exact hdec
  rw [henc, extract_fields v o tid sid (h.drop 55) t htl hsl htail]
  have h1 : ¬ v.toNat > 254 := by
    intro hgt
    have : v = 255 := u8_of_toNat v 255 (by omega) (by have := v.toNat_lt; omega)
    subst this
    apply hVf; rw [← hv]; decide
  have h3 : (allZero tid || allZero sid) = false := by
    rw [← hexEncode_allZero tid, ← hexEncode_allZero sid, htid, hsid, hTz, hSz]; rfl
  have h2' : (v.toNat == 0 && ((h.drop 55).drop 1 != [] || decide (o.toNat > 2))) = false := by
    cases hvz : (v.toNat == 0)
    · rfl
    · have hvz' : v = 0 := u8_of_toNat v 0 (by omega) (by simpa using hvz)
      subst hvz'
      have hV00 : h.take 2 = [0x30, 0x30] := by rw [← hv]; decide
      rcases hv0 with e | ⟨hl, hf⟩
      · exact absurd hV00 e
      · have ht1 : ((h.drop 55).drop 1 != []) = false := by
          simp only [bne_eq_false_iff_eq]
          apply List.drop_eq_nil_of_le
          rw [List.length_drop]; omega
        have ho2 : decide (o.toNat > 2) = false := by
          simp only [decide_eq_false_iff_not]
          rw [← ho] at hf
          rcases hf with (e | e) | e
          · have : hexEncode [o] = hexEncode [0] := by rw [e]; decide
            have := hexEncode_inj _ _ this
            simp only [List.cons.injEq, and_true] at this
            subst this; decide
          · have : hexEncode [o] = hexEncode [1] := by rw [e]; decide
            have := hexEncode_inj _ _ this
            simp only [List.cons.injEq, and_true] at this
            subst this; decide
          · have : hexEncode [o] = hexEncode [2] := by rw [e]; decide
            have := hexEncode_inj _ _ this
            simp only [List.cons.injEq, and_true] at this
            subst this; decide
        rw [ht1, ho2]; rfl
  simp only [h1, if_false]
  rw [if_neg (by rw [h2']; simp), if_neg (by rw [h3]; simp)]
  rfl

theorem extract_accepts (h t : Bytes) : (extract h t).isSome = W3C.traceparentAccepts h := by
  cases he : extract h t with
  | some sc => rw [accepts_of_some h t sc he]; rfl
  | none =>
    cases ha : W3C.traceparentAccepts h with
    | false => rfl
    | true => have := some_of_accepts h t ha; rw [he] at this; simp at this

end Otel.C03
