/- C03 — lemmas: `ParseTraceState` accepts exactly `W3C.tracestateAccepts` (helpers for PropsDeep.lean) -/
import Otel.C03.SpecDeep
import Otel.C03.LemmasSpec
namespace Otel.C03
open Otel

/-- the loop of `ParseTraceState` over the non-empty pieces between commas -/
def foldMembers : List Bytes → List Member → Option (List Member)
  | [], acc => some acc
  | p :: ps, acc =>
    match parseMember p with
    | none => none
    | some m =>
      if acc.any (fun x => x.key == m.key) then none
      else if (acc ++ [m]).length > 32 then none
      else foldMembers ps (acc ++ [m])

def nonEmptyPieces (ts : Bytes) : List Bytes := (W3C.pieces 0x2c ts).filter (fun p => !p.isEmpty)

theorem nonEmptyPieces_nil : nonEmptyPieces [] = [] := by decide

theorem nonEmptyPieces_cons (x y : Bytes) (h : (0x2c : UInt8) ∉ x) :
    nonEmptyPieces (x ++ 0x2c :: y) = if x = [] then nonEmptyPieces y else x :: nonEmptyPieces y := by
  unfold nonEmptyPieces
  rw [pieces_append 0x2c x y h, List.filter_cons]
  cases x <;> simp

theorem nonEmptyPieces_single (x : Bytes) (h : (0x2c : UInt8) ∉ x) (hne : x ≠ []) : nonEmptyPieces x = [x] := by
  unfold nonEmptyPieces
  rw [pieces_none 0x2c x h]
  cases x with
  | nil => exact absurd rfl hne
  | cons a r => simp

theorem parseLoop_fold (fuel : Nat) : ∀ (ts : Bytes) (acc : TraceState), ts.length ≤ fuel →
    parseLoop fuel ts acc = foldMembers (nonEmptyPieces ts) acc := by
  induction fuel with
  | zero =>
    intro ts acc hl
    have : ts = [] := List.eq_nil_of_length_eq_zero (by omega)
    subst this
    simp [parseLoop, nonEmptyPieces_nil, foldMembers]
  | succ n ih =>
    intro ts acc hl
    by_cases h0 : ts = []
    · subst h0; simp [parseLoop, nonEmptyPieces_nil, foldMembers]
    · simp only [parseLoop, h0, if_false]
      rcases cut_cases 0x2c ts with ⟨hno, hc⟩ | ⟨x, y, rfl, hno, hc⟩
      · rw [hc]
        simp only [h0, if_false]
        rw [nonEmptyPieces_single ts hno h0]
        simp only [foldMembers]
        cases parseMember ts with
        | none => rfl
        | some m =>
          simp only []
          split
          · rfl
          · split
            · rfl
            · exact parseLoop_nil n _
      · rw [hc]
        have hy : y.length ≤ n := by simp at hl; omega
        rw [nonEmptyPieces_cons x y hno]
        by_cases hx : x = []
        · simp only [hx, if_true]
          exact ih y acc hy
        · simp only [hx, if_false, foldMembers]
          cases parseMember x with
          | none => rfl
          | some m =>
            simp only []
            split
            · rfl
            · split
              · rfl
              · exact ih y _ hy

theorem isOWS_eq : W3C.isOWS = isSpaceTab := rfl

theorem parseMember_loose (p : Bytes) :
    parseMember p = if W3C.memberLooseOK p then some (W3C.looseMember p) else none := by
  unfold parseMember
  rcases cut_cases 0x3d p with ⟨hno, hc⟩ | ⟨x, y, rfl, hno, hc⟩
  · rw [hc]
    have : p.any (· == 0x3d) = false := by
      rw [List.any_eq_false]; intro b hb; simp; intro e; exact hno (e ▸ hb)
    simp [W3C.memberLooseOK, this]
  · rw [hc]
    have hany : (x ++ 0x3d :: y).any (· == 0x3d) = true := by simp
    have hk : W3C.memberKey (x ++ 0x3d :: y) = x := takeWhile_key x y hno
    have hv : W3C.memberVal (x ++ 0x3d :: y) = y := by
      unfold W3C.memberVal; rw [dropWhile_key x y hno]; rfl
    simp only [W3C.memberLooseOK, W3C.looseMember, hany, hk, hv, isOWS_eq, Bool.true_and, Bool.not_true,
      Bool.false_eq_true, if_false]
    show newMember (trimLeft x) (trimRight y) = _
    unfold trimLeft trimRight
    cases hkk : W3C.keyOK (List.dropWhile isSpaceTab x) <;>
      cases hvv : W3C.valueOK (List.dropWhile isSpaceTab y.reverse).reverse
    · have := (newMember_none (List.dropWhile isSpaceTab x) (List.dropWhile isSpaceTab y.reverse).reverse).mpr (by rw [hkk]; simp)
      simp [this]
    · have := (newMember_none (List.dropWhile isSpaceTab x) (List.dropWhile isSpaceTab y.reverse).reverse).mpr (by rw [hkk]; simp)
      simp [this]
    · have := (newMember_none (List.dropWhile isSpaceTab x) (List.dropWhile isSpaceTab y.reverse).reverse).mpr (by rw [hvv]; simp)
      simp [this]
    · simp [(newMember_some _ _ _).mpr ⟨hkk, hvv, rfl⟩]

/-- the acceptance condition of the loop, with an accumulator -/
def foldCond (ms : List Bytes) (acc : List Member) : Bool :=
  ms.all W3C.memberLooseOK && decide (((acc ++ ms.map W3C.looseMember).map (·.key)).Nodup) &&
  decide (acc.length + ms.length ≤ 32)

theorem foldMembers_spec (ms : List Bytes) : ∀ (acc : List Member), (acc.map (·.key)).Nodup → acc.length ≤ 32 →
    foldMembers ms acc = if foldCond ms acc then some (acc ++ ms.map W3C.looseMember) else none := by
  induction ms with
  | nil =>
    intro acc hnd hl
    simp [foldMembers, foldCond, hnd, hl]
  | cons p ps ih =>
    intro acc hnd hl
    simp only [foldMembers, parseMember_loose p]
    cases hp : W3C.memberLooseOK p with
    | false => simp [foldCond, hp]
    | true =>
      simp only [if_true]
      by_cases hdup : acc.any (fun x => x.key == (W3C.looseMember p).key) = true
      · simp only [hdup, if_true]
        have : foldCond (p :: ps) acc = false := by
          simp only [foldCond, Bool.and_eq_false_iff, decide_eq_false_iff_not]
          left; right
          intro hn
          rw [List.map_append, List.nodup_append] at hn
          obtain ⟨x, hx, hxe⟩ := List.any_eq_true.mp hdup
          have := hn.2.2 x.key (List.mem_map_of_mem hx) (W3C.looseMember p).key (by simp)
          exact this (by simpa using hxe)
        simp [this]
      · simp only [hdup, Bool.false_eq_true, if_false]
        by_cases hlen : (acc ++ [W3C.looseMember p]).length > 32
        · simp only [hlen, if_true]
          have : foldCond (p :: ps) acc = false := by
            simp only [foldCond, Bool.and_eq_false_iff, decide_eq_false_iff_not]
            right
            simp at hlen ⊢; omega
          simp [this]
        · simp only [hlen, if_false]
          have hnd' : ((acc ++ [W3C.looseMember p]).map (·.key)).Nodup := by
            rw [List.map_append, List.nodup_append]
            refine ⟨hnd, by simp, ?_⟩
            intro a ha b hb
            simp at hb; subst hb
            obtain ⟨x, hx, rfl⟩ := List.mem_map.mp ha
            intro e
            apply hdup
            exact List.any_eq_true.mpr ⟨x, hx, by simpa using e⟩
          rw [ih _ hnd' (by simp at hlen ⊢; omega)]
          have hc : foldCond ps (acc ++ [W3C.looseMember p]) = foldCond (p :: ps) acc := by
            simp only [foldCond, List.all_cons, hp, Bool.true_and, List.append_assoc, List.singleton_append,
              List.map_cons, List.length_append, List.length_cons, List.length_nil]
            congr 2
            apply propext
            constructor <;> intro h <;> omega
          rw [hc]
          simp

theorem parseTraceState_accepts (s : Bytes) :
    parseTraceState s = if W3C.tracestateAccepts s then some (W3C.tracestateDecode s) else none := by
  unfold parseTraceState
  by_cases h0 : s = []
  · subst h0; decide
  · simp only [h0, if_false]
    rw [parseLoop_fold s.length s [] (Nat.le_refl _), foldMembers_spec _ [] (by simp) (by simp)]
    have : foldCond (nonEmptyPieces s) [] = W3C.tracestateAccepts s := by
      simp [foldCond, W3C.tracestateAccepts, nonEmptyPieces]
    rw [this]
    simp [W3C.tracestateDecode, nonEmptyPieces]

end Otel.C03
