/- C03 — lemmas about carriers, the composite propagator and edit scripts (helpers for PropsDeep.lean) -/
import Otel.C03.SpecDeep
import Otel.C03.Props
namespace Otel.C03
open Otel

theorem find_filter_ne {α : Type} (l : List (Bytes × α)) (a b : Bytes) (h : a ≠ b) :
    (l.filter (fun p => p.1 != a)).find? (fun p => p.1 == b) = l.find? (fun p => p.1 == b) := by
  induction l with
  | nil => rfl
  | cons x xs ih =>
    by_cases hxa : x.1 = a
    · have h1 : (x.1 != a) = false := by simp [hxa]
      have h2 : (x.1 == b) = false := by
        rw [hxa]; simpa using h
      rw [List.filter_cons, List.find?_cons]
      simp only [h1, h2, Bool.false_eq_true, if_false]
      exact ih
    · have h1 : (x.1 != a) = true := by simpa using hxa
      rw [List.filter_cons]
      simp only [h1, if_true, List.find?_cons]
      rw [ih]

theorem map_lawful : LawfulCarrier mapOps mapSame := by
  refine ⟨?_, by simp [mapSame]⟩
  intro c k v k'
  simp only [mapOps, mcGet, mcSet, mapSame]
  by_cases h : k = k'
  · simp [h]
  · have hb : (k == k') = false := by simpa using h
    simp only [List.find?, hb, find_filter_ne c k k' h]
    rfl

theorem header_lawful : LawfulCarrier headerOps headerSame := by
  refine ⟨?_, by simp [headerSame]⟩
  intro c k v k'
  simp only [headerOps, hcGet, hcSet, headerSame]
  by_cases h : canonicalKey k = canonicalKey k'
  · simp [h]
  · have hb : (canonicalKey k == canonicalKey k') = false := by simpa using h
    simp only [List.find?, hb, find_filter_ne c _ _ h]
    rfl

theorem map_keys_distinct : mapSame tpKey tsKey = false := by decide
theorem header_keys_distinct : headerSame tpKey tsKey = false := by decide

/-- the round trip through any lawful carrier -/
theorem carrier_rt {C : Type} (ops : CarrierOps C) (same : Bytes → Bytes → Bool) (hl : LawfulCarrier ops same)
    (hd : same tpKey tsKey = false) (sc : SpanCtx) (hwf : sc.wf = true) (hv : sc.isValid = true) (hts : TSInv sc.ts)
    (c : C) (hstale : sc.ts = [] → ops.get c tsKey = []) :
    tcExtract ops (tcInject ops sc c) = some { sc with flags := sc.flags &&& 0x01, remote := true } := by
  obtain ⟨tp, tsh, hinj, hex⟩ := extract_inject sc hwf hv hts
  have htsh : tsh = if tsString sc.ts = [] then none else some (tsString sc.ts) := by
    simp [inject, hv] at hinj
    exact hinj.2.symm
  unfold tcExtract tcInject
  rw [hinj]
  simp only [hl.get_set, hl.same_refl, hd, if_true, Bool.false_eq_true, if_false]
  cases tsh with
  | none =>
    have he : tsString sc.ts = [] := by
      by_cases he : tsString sc.ts = []
      · exact he
      · simp [he] at htsh
    have := hstale ((tsString_eq_nil sc.ts).mp he)
    simpa [this] using hex
  | some s =>
    simpa [hl.get_set, hl.same_refl] using hex

theorem compInject_append {β C : Type} (a b : List (Propagator β C)) (ctx : Ctx β) (c : C) :
    compInject (a ++ b) ctx c = compInject b ctx (compInject a ctx c) := by
  simp [compInject, List.foldl_append]

theorem compExtract_append {β C : Type} (a b : List (Propagator β C)) (ctx : Ctx β) (c : C) :
    compExtract (a ++ b) ctx c = compExtract b (compExtract a ctx c) c := by
  simp [compExtract, List.foldl_append]

theorem compInject_frame {β C : Type} (ops : CarrierOps C) (ps : List (Propagator β C))
    (hf : ∀ p ∈ ps, Frame ops p) (ctx : Ctx β) (c : C) :
    ops.get (compInject ps ctx c) tpKey = ops.get c tpKey ∧ ops.get (compInject ps ctx c) tsKey = ops.get c tsKey := by
  induction ps generalizing c with
  | nil => exact ⟨rfl, rfl⟩
  | cons p ps ih =>
    have hp := (hf p (by simp)).1 ctx c
    have := ih (fun q hq => hf q (by simp [hq])) (p.inject ctx c)
    simp only [compInject, List.foldl_cons] at this ⊢
    exact ⟨this.1.trans hp.1, this.2.trans hp.2⟩

theorem compExtract_frame {β C : Type} (ops : CarrierOps C) (ps : List (Propagator β C))
    (hf : ∀ p ∈ ps, Frame ops p) (ctx : Ctx β) (c : C) :
    (compExtract ps ctx c).span = ctx.span := by
  induction ps generalizing ctx with
  | nil => rfl
  | cons p ps ih =>
    have hp := (hf p (by simp)).2 ctx c
    have := ih (fun q hq => hf q (by simp [hq])) (p.extract ctx c)
    simp only [compExtract, List.foldl_cons] at this ⊢
    exact this.trans hp

theorem tsGet_eq_ref (ts : TraceState) (k : Bytes) : tsGet ts k = refGet ts k := by
  unfold tsGet refGet
  rw [List.head?_filter]
  cases ts.find? (fun m => m.key == k) <;> rfl

theorem u8_forall (P : UInt8 → Prop) (h : ∀ n : Fin 256, P (UInt8.ofNat n.val)) (f : UInt8) : P f := by
  have := h ⟨f.toNat, f.toNat_lt⟩
  simpa using this

set_option maxRecDepth 100000 in
theorem withSampled_false (f : UInt8) : (f &&& 254 &&& 1 == 1) = false ∧ f &&& 254 &&& 254 = f &&& 254 := by
  apply u8_forall (fun f => (f &&& 254 &&& 1 == 1) = false ∧ f &&& 254 &&& 254 = f &&& 254)
  decide

set_option maxRecDepth 100000 in
theorem withSampled_true (f : UInt8) : ((f ||| 1) &&& 1 == 1) = true ∧ (f ||| 1) &&& 254 = f &&& 254 := by
  apply u8_forall (fun f => ((f ||| 1) &&& 1 == 1) = true ∧ (f ||| 1) &&& 254 = f &&& 254)
  decide

set_option maxRecDepth 100000 in
theorem canonByte_facts (c : UInt8) :
    canonByte true (canonByte true c) = canonByte true c ∧ canonByte false (canonByte false c) = canonByte false c ∧
    validHeaderFieldByte (canonByte true c) = validHeaderFieldByte c ∧
    validHeaderFieldByte (canonByte false c) = validHeaderFieldByte c := by
  apply u8_forall (fun c => canonByte true (canonByte true c) = canonByte true c ∧
    canonByte false (canonByte false c) = canonByte false c ∧
    validHeaderFieldByte (canonByte true c) = validHeaderFieldByte c ∧
    validHeaderFieldByte (canonByte false c) = validHeaderFieldByte c)
  decide

theorem canonByte_idem (u : Bool) (c : UInt8) : canonByte u (canonByte u c) = canonByte u c := by
  cases u
  · exact (canonByte_facts c).2.1
  · exact (canonByte_facts c).1

theorem canonByte_valid (u : Bool) (c : UInt8) : validHeaderFieldByte (canonByte u c) = validHeaderFieldByte c := by
  cases u
  · exact (canonByte_facts c).2.2.2
  · exact (canonByte_facts c).2.2.1

theorem canonLoop_idem (k : Bytes) : ∀ u, canonLoop u (canonLoop u k) = canonLoop u k := by
  induction k with
  | nil => intro u; rfl
  | cons c r ih =>
    intro u
    simp only [canonLoop, canonByte_idem]
    rw [ih]

theorem canonLoop_valid (k : Bytes) : ∀ u, (canonLoop u k).all validHeaderFieldByte = k.all validHeaderFieldByte := by
  induction k with
  | nil => intro u; rfl
  | cons c r ih =>
    intro u
    simp only [canonLoop, List.all_cons, canonByte_valid, ih]

theorem canonicalKey_idem' (k : Bytes) : canonicalKey (canonicalKey k) = canonicalKey k := by
  unfold canonicalKey
  cases h : k.all validHeaderFieldByte
  · simp [h]
  · simp only [if_true, canonLoop_valid, h, canonLoop_idem]

/-- every value reachable through the API from the empty TraceState -/
theorem tsRun_nil_inv (ops : List TsOp) : TSInv (tsRun [] ops) := by
  have : ∀ (ops : List TsOp) (ts : TraceState), TSInv ts → TSInv (tsRun ts ops) := by
    intro ops
    induction ops with
    | nil => intro ts h; exact h
    | cons op r ih =>
      intro ts h
      cases op with
      | ins k v =>
        simp only [tsRun]
        apply ih
        cases hi : tsInsert ts k v with
        | none => simpa using h
        | some ts' => simpa using (insert_spec ts k v h).2 ts' hi
      | del k =>
        simp only [tsRun]
        exact ih _ (delete_spec ts k h).2
  exact this ops [] TSInv_nil

end Otel.C03
