/-
C03 — driver, second part: the line kinds added when the model was extended to the carriers, the composite
propagator, the SpanContext copy constructors and sibling edits of TraceState values.

  tssib <gen> <xheader> | <j> ins <xk> <xv> | <j> del <xk> | <j> get <xk> | <j> walk <n> … => <r0> | <r1> | …
        value 0 = the parsed header; value i = the result of op i (get/walk: value j again); every op names the
        value j it applies to (siblings derived from one parent; earlier values are re-read after every op)
        r0 = ok:<xstr> | err:x ; ins/del: ok|err:<xstr>:<len>:<all earlier values unchanged 0|1> ; get: val:<xv> ;
        walk: w=<members visited>
  scops <gen> <xtid> <xsid> <flags> <remote> <members> | tid <x> | sid <x> | fl <n> | rem <0|1> | ts <members> | sampled <0|1>
        => builderr | <d0> | <d1> | … ; d = <xtid>:<xsid>:<flags>:<remote>:<xtsString>:<valid>:<sampled>:<Equal(previous)>
  idjson <gen> <xtid> <xsid> <flags> <remote> <members> => builderr | <xTraceID.String> <xSpanID.String> <xTraceFlags.String>
        <x TraceID json> <x SpanID json> <x TraceFlags json> <x TraceState json> <x SpanContext json>
        <TraceIDFromHex(String()) ok:<x>|err> <SpanIDFromHex(String()) ok:<x>|err>
  carrier <gen> m|h | set <xk> <xv> | get <xk> | add <xk> <xv> | raw <xk> <xv,…|-> | keys … => - | v:<xv> | k:<xk,…|-> …
  composite <gen> m|h <order> <xtid> <xsid> <flags> <remote 0|1|n> <members> <presets> <tags>
        => <carrier dump> | none|<xtid> <xsid> <flags> <remote> <xtsString> | <tag reads> | <fields>
        order = `-` or comma-separated T / P<i> / B (B = propagation.Baggage{}, the context carries the baggage "k=v"); presets, tags = `-` or comma-separated <xk>:<xv>
-/
import Otel.C03.Spec
import Otel.C03.Carrier
import Otel.C03.SpecDeep
open Otel Otel.Wire Otel.C03

namespace Otel.C03.Drv2

def b01 (b : Bool) : String := if b then "1" else "0"

def parseMembers (s : String) : Option (List Member) :=
  if s == "-" then some []
  else
    (s.splitOn ",").mapM (fun p =>
      match p.splitOn ":" with
      | [k, v] => do
        let kb ← parseHex k
        let vb ← parseHex v
        pure (⟨kb, vb⟩ : Member)
      | _ => none)

def renderMembers (ms : List Member) : String :=
  if ms.isEmpty then "-" else ",".intercalate (ms.map (fun m => hexOf m.key ++ ":" ++ hexOf m.val))

def parsePairs (s : String) : Option (List (Bytes × Bytes)) :=
  (parseMembers s).map (fun ms => ms.map (fun m => (m.key, m.val)))

def parseHexList (s : String) : Option (List Bytes) :=
  if s == "-" then some [] else (s.splitOn ",").mapM parseHex

def renderHexList (l : List Bytes) : String := if l.isEmpty then "-" else ",".intercalate (l.map hexOf)

def sortStrs (l : List String) : List String := (l.toArray.qsort (· < ·)).toList

def groups (toks : List String) : List (List String) :=
  let r := toks.foldr (fun t (acc : List String × List (List String)) =>
      if t == "|" then ([], acc.1 :: acc.2) else (t :: acc.1, acc.2)) ([], [])
  r.1 :: r.2

def verdict (model : String) (obs : List String) (spec : Bool) (nontrivial : Bool) (br : String) : Option Verdict :=
  some { agree := model == " ".intercalate obs, spec := if spec then "ok" else "FAIL",
         nontrivial := nontrivial, branches := br, model := model }

def uniq (l : List String) : List String := l.foldl (fun acc x => if acc.contains x then acc else acc ++ [x]) []

def tsStrOK (s : Bytes) : Bool := s.isEmpty || W3C.tracestateOK s

/-- the harness builds a TraceState by inserting the members last to first -/
def buildTS (members : List Member) : Option TraceState :=
  members.foldr (fun m acc => acc.bind (fun ts => tsInsert ts m.key m.val)) (some [])

/-! ### sibling edits -/

inductive SibOp where
  | ins (j : Nat) (k v : Bytes) | del (j : Nat) (k : Bytes) | get (j : Nat) (k : Bytes) | walk (j n : Nat)

def parseSib : List String → Option SibOp
  | [j, "ins", k, v] => do pure (.ins (← j.toNat?) (← parseHex k) (← parseHex v))
  | [j, "del", k] => do pure (.del (← j.toNat?) (← parseHex k))
  | [j, "get", k] => do pure (.get (← j.toNat?) (← parseHex k))
  | [j, "walk", n] => do pure (.walk (← j.toNat?) (← n.toNat?))
  | _ => none

def SibOp.target : SibOp → Nat
  | .ins j _ _ => j | .del j _ => j | .get j _ => j | .walk j _ => j

/-- model side: `vals` = all values so far (value 0 first) -/
def runSib : List TraceState → List SibOp → List String
  | _, [] => []
  | vals, op :: r =>
    let ts := vals.getD op.target []
    match op with
    | .ins _ k v =>
      (match tsInsert ts k v with
       | some ts' => s!"ok:{hexOf (tsString ts')}:{ts'.length}:1" :: runSib (vals ++ [ts']) r
       | none => s!"err:{hexOf (tsString ts)}:{ts.length}:1" :: runSib (vals ++ [ts]) r)
    | .del _ k =>
      let ts' := tsDelete ts k
      s!"ok:{hexOf (tsString ts')}:{ts'.length}:1" :: runSib (vals ++ [ts']) r
    | .get _ k => s!"val:{hexOf (tsGet ts k)}" :: runSib (vals ++ [ts]) r
    | .walk _ n => s!"w={renderMembers (tsWalk ts n)}" :: runSib (vals ++ [ts]) r

def sibBranches : List TraceState → List SibOp → List String
  | _, [] => []
  | vals, op :: r =>
    let ts := vals.getD op.target []
    let old := if op.target + 1 < vals.length then "sib-old," else ""
    match op with
    | .ins _ k v =>
      (match tsInsert ts k v with
       | some ts' =>
         (old ++ (if ts.any (fun m => m.key == k) then "sib-update" else if ts.length ≥ 32 then "sib-overflow" else "sib-new"))
           :: sibBranches (vals ++ [ts']) r
       | none => (old ++ "sib-bad") :: sibBranches (vals ++ [ts]) r)
    | .del _ k => (old ++ (if ts.any (fun m => m.key == k) then "sib-del-hit" else "sib-del-miss")) :: sibBranches (vals ++ [tsDelete ts k]) r
    | .get _ _ => (old ++ "sib-get") :: sibBranches (vals ++ [ts]) r
    | .walk _ n => (old ++ (if n = 0 || n ≥ ts.length then "sib-walk-all" else "sib-walk-stop")) :: sibBranches (vals ++ [ts]) r

/-- oracle side: every observed result follows by the reference semantics from the OBSERVED value it was applied to,
and no earlier value changed -/
def checkSib : List (List Member) → List SibOp → List String → Bool
  | _, [], [] => true
  | vals, op :: es, o :: os =>
    match vals[op.target]? with
    | none => false
    | some prev =>
      match op with
      | .get _ k =>
        (match o.splitOn ":" with
         | ["val", v] => (match parseHex v with
             | some vb => vb == refGet prev k && checkSib (vals ++ [prev]) es os
             | none => false)
         | _ => false)
      | .walk _ n =>
        (match o.splitOn "=" with
         | ["w", ms] => (match parseMembers ms with
             | some seen => seen == (if n = 0 then prev else prev.take n) && checkSib (vals ++ [prev]) es os
             | none => false)
         | _ => false)
      | .ins _ k v =>
        (match o.splitOn ":" with
         | [st, s, n, imm] =>
           (match parseHex s, n.toNat? with
            | some sb, some len =>
              let cur := W3C.decodeTS sb
              let stepOK := match refInsert prev k v with
                | some exp => st == "ok" && cur == exp
                | none => st == "err" && cur == prev
              stepOK && tsStrOK sb && len == cur.length && imm == "1" && checkSib (vals ++ [cur]) es os
            | _, _ => false)
         | _ => false)
      | .del _ k =>
        (match o.splitOn ":" with
         | [st, s, n, imm] =>
           (match parseHex s, n.toNat? with
            | some sb, some len =>
              let cur := W3C.decodeTS sb
              st == "ok" && cur == refDelete prev k && tsStrOK sb && len == cur.length && imm == "1" &&
                checkSib (vals ++ [cur]) es os
            | _, _ => false)
         | _ => false)
  | _, _, _ => false

/-! ### SpanContext copy constructors -/

def parseScOp : List String → Option ScOp
  | ["tid", x] => do pure (.tid (← parseHex x))
  | ["sid", x] => do pure (.sid (← parseHex x))
  | ["fl", n] => do pure (.flags (UInt8.ofNat (← n.toNat?)))
  | ["rem", r] => some (.remote (r == "1"))
  | ["ts", ms] => do
      let members ← parseMembers ms
      match buildTS members with
      | some t => pure (.ts t)
      | none => none
  | ["sampled", s] => some (.sampled (s == "1"))
  | _ => none

def scDump (sc prev : SpanCtx) : String :=
  s!"{hexOf sc.tid}:{hexOf sc.sid}:{sc.flags.toNat}:{b01 sc.remote}:{hexOf (tsString sc.ts)}:{b01 sc.isValid}:{b01 (isSampled sc.flags)}:{b01 (scEqual sc prev)}"

def runScOps : SpanCtx → List ScOp → List String
  | _, [] => []
  | sc, op :: r => let sc' := scApply sc op; scDump sc' sc :: runScOps sc' r

structure ScObs where
  tid : Bytes
  sid : Bytes
  flags : Nat
  remote : String
  ts : Bytes
  valid : String
  sampled : String
  eq : String

def parseScObs (s : String) : Option ScObs :=
  match s.splitOn ":" with
  | [t, sp, f, r, ts, v, sa, e] => do
    pure { tid := (← parseHex t), sid := (← parseHex sp), flags := (← f.toNat?), remote := r, ts := (← parseHex ts),
           valid := v, sampled := sa, eq := e }
  | _ => none

def nonZero (b : Bytes) : Bool := b.any (fun x => x.toNat != 0)

/-- each copy constructor changes exactly its own field; the derived predicates follow from the fields -/
def checkScStep (prev cur : ScObs) (op : Option ScOp) : Bool :=
  let derived := cur.valid == b01 (nonZero cur.tid && nonZero cur.sid) && cur.sampled == b01 (cur.flags % 2 == 1) &&
    cur.eq == b01 (cur.tid == prev.tid && cur.sid == prev.sid && cur.flags == prev.flags && cur.remote == prev.remote && cur.ts == prev.ts) &&
    cur.tid.length == 16 && cur.sid.length == 8 && tsStrOK cur.ts
  let sameTid := cur.tid == prev.tid
  let sameSid := cur.sid == prev.sid
  let sameFl := cur.flags == prev.flags
  let sameRem := cur.remote == prev.remote
  let sameTs := cur.ts == prev.ts
  derived &&
  (match op with
   | none => sameTid && sameSid && sameFl && sameRem && sameTs
   | some (.tid b) => cur.tid == b && sameSid && sameFl && sameRem && sameTs
   | some (.sid b) => sameTid && cur.sid == b && sameFl && sameRem && sameTs
   | some (.flags f) => sameTid && sameSid && cur.flags == f.toNat && sameRem && sameTs
   | some (.remote r) => sameTid && sameSid && sameFl && cur.remote == b01 r && sameTs
   | some (.ts t) => sameTid && sameSid && sameFl && sameRem && W3C.decodeTS cur.ts == t
   | some (.sampled s) => sameTid && sameSid && sameRem && sameTs &&
       cur.flags == (if s then prev.flags / 2 * 2 + 1 else prev.flags / 2 * 2))

def checkScOps : ScObs → List ScOp → List ScObs → Bool
  | _, [], [] => true
  | prev, op :: ops, cur :: rest => checkScStep prev cur (some op) && checkScOps cur ops rest
  | _, _, _ => false

/-! ### carrier scripts -/

inductive CarOp where
  | set (k v : Bytes) | get (k : Bytes) | add (k v : Bytes) | raw (k : Bytes) (vs : List Bytes) | keys

def parseCarOp : List String → Option CarOp
  | ["set", k, v] => do pure (.set (← parseHex k) (← parseHex v))
  | ["get", k] => do pure (.get (← parseHex k))
  | ["add", k, v] => do pure (.add (← parseHex k) (← parseHex v))
  | ["raw", k, vs] => do pure (.raw (← parseHex k) (← parseHexList vs))
  | ["keys"] => some .keys
  | _ => none

def renderKeys (ks : List Bytes) : String :=
  if ks.isEmpty then "k:-" else "k:" ++ ",".intercalate (sortStrs (ks.map hexOf))

def runMapCar : MapCarrier → List CarOp → Option (List String)
  | _, [] => some []
  | c, .set k v :: r => (runMapCar (mcSet c k v) r).map ("-" :: ·)
  | c, .get k :: r => (runMapCar c r).map (s!"v:{hexOf (mcGet c k)}" :: ·)
  | c, .keys :: r => (runMapCar c r).map (renderKeys (mcKeys c) :: ·)
  | _, _ => none

def runHdrCar : HeaderCarrier → List CarOp → List String
  | _, [] => []
  | c, .set k v :: r => "-" :: runHdrCar (hcSet c k v) r
  | c, .add k v :: r => "-" :: runHdrCar (hcAdd c k v) r
  | c, .raw k vs :: r => "-" :: runHdrCar (hcRaw c k vs) r
  | c, .get k :: r => s!"v:{hexOf (hcGet c k)}" :: runHdrCar c r
  | c, .keys :: r => renderKeys (hcKeys c) :: runHdrCar c r

/-- oracle: reference semantics with the carrier as a total function (slot ↦ values), independent of the
association-list model; `canon` = identity for MapCarrier, `canonicalKey` for HeaderCarrier -/
def checkCar (canon : Bytes → Bytes) : (Bytes → List Bytes) → List CarOp → List String → Bool
  | _, [], [] => true
  | st, .set k v :: r, o :: os => o == "-" && checkCar canon (fun x => if x == canon k then [v] else st x) r os
  | st, .add k v :: r, o :: os => o == "-" && checkCar canon (fun x => if x == canon k then st x ++ [v] else st x) r os
  | st, .raw k vs :: r, o :: os => o == "-" && checkCar canon (fun x => if x == k then vs else st x) r os
  | st, .get k :: r, o :: os => o == s!"v:{hexOf ((st (canon k)).headD [])}" && checkCar canon st r os
  | st, .keys :: r, o :: os => o.startsWith "k:" && checkCar canon st r os
  | _, _, _ => false

def carBranches (hdr : Bool) (ops : List CarOp) : String :=
  ",".intercalate (uniq (ops.map (fun
    | .set k _ => if hdr && canonicalKey k != k then "car-set-canon" else "car-set"
    | .get k => if hdr && canonicalKey k != k then "car-get-canon" else "car-get"
    | .add _ _ => "car-add"
    | .raw k _ => if canonicalKey k != k then "car-raw-noncanon" else "car-raw"
    | .keys => "car-keys")))

/-! ### composite propagator -/

inductive Who where
  | tc | tag (i : Nat) | bag

def parseOrder (s : String) : Option (List Who) :=
  if s == "-" then some []
  else (s.splitOn ",").mapM (fun t =>
    if t == "T" then some Who.tc
    else if t == "B" then some Who.bag
    else if t.startsWith "P" then (t.drop 1).toString.toNat?.map Who.tag
    else none)

abbrev TagCtx := Ctx (List (Bytes × Bytes))

def mkProps {C : Type} (ops : CarrierOps C) (tags : List (Bytes × Bytes)) (order : List Who) :
    List (Propagator (List (Bytes × Bytes)) C) :=
  order.map (fun
    | .tc => tcPropagator ops
    | .bag => bagPropagator ops (fun _ => [0x6b, 0x3d, 0x76])      -- the harness puts the baggage "k=v" into the context
    | .tag i => let t := tags.getD i ([], []); tagPropagator ops t.1 t.2)

structure CompOut where
  dump : List (Bytes × Bytes)
  span : Option SpanCtx
  reads : List Bytes
  fields : List Bytes
  tsPreset : Bool      -- the prepared carrier answers Get("tracestate") with a non-empty value

def runComposite {C : Type} (ops : CarrierOps C) (empty : C) (dumpOf : C → List (Bytes × Bytes))
    (presets tags : List (Bytes × Bytes)) (order : List Who) (span : Option SpanCtx) : CompOut :=
  let c0 := presets.foldl (fun c p => ops.set c p.1 p.2) empty
  let ps := mkProps ops tags order
  let c1 := compInject ps ({ span := span, rest := [] } : TagCtx) c0
  let ctx1 := compExtract ps ({ span := none, rest := [] } : TagCtx) c1
  { dump := dumpOf c1, span := ctx1.span, reads := ctx1.rest.map (·.2), fields := compFields ps,
    tsPreset := ops.get c0 tsKey != [] }

def renderDump (d : List (Bytes × Bytes)) : String :=
  if d.isEmpty then "-" else ",".intercalate (sortStrs (d.map (fun p => hexOf p.1 ++ ":" ++ hexOf p.2)))

def renderSpan : Option SpanCtx → String
  | some e => s!"{hexOf e.tid} {hexOf e.sid} {e.flags.toNat} {b01 e.remote} {hexOf (tsString e.ts)}"
  | none => "none"

end Otel.C03.Drv2

open Otel.C03.Drv2

def stepDeep (toks : List String) : Option Verdict :=
  let (inp, obs) := splitObs toks
  match inp with
  | "tssib" :: _ :: h :: "|" :: rest =>
    (match parseHex h, (groups rest).mapM parseSib with
     | some hb, some ops =>
       let init := parseTraceState hb
       let ts0 := init.getD []
       let r0 := match init with | some ts => s!"ok:{hexOf (tsString ts)}" | none => "err:x"
       let ms := " | ".intercalate (r0 :: runSib [ts0] ops)
       let og := (groups obs).map (fun g => " ".intercalate g)
       let spec := match og with
         | o0 :: os =>
           (match o0.splitOn ":" with
            | [_, s] => (match parseHex s with
                | some sb => tsStrOK sb && checkSib [W3C.decodeTS sb] ops os
                | none => false)
            | _ => false)
         | [] => false
       verdict ms obs spec (!ops.isEmpty) (",".intercalate (uniq ((sibBranches [ts0] ops).flatMap (·.splitOn ","))))
     | _, _ => none)
  | "scops" :: _ :: tid :: sid :: fl :: rem :: mem :: rest =>
    (match parseHex tid, parseHex sid, fl.toNat?, parseMembers mem with
     | some tb, some sb, some f, some members =>
       let opToks := match rest with | "|" :: r => groups r | _ => []
       (match buildTS members, opToks.mapM parseScOp with
        | some ts, some ops =>
          let sc : SpanCtx := { tid := tb, sid := sb, flags := UInt8.ofNat f, ts := ts, remote := rem == "1" }
          let ms := " | ".intercalate (scDump sc sc :: runScOps sc ops)
          let og := (groups obs).map (fun g => " ".intercalate g)
          let spec := match og.mapM parseScObs with
            | some (d0 :: ds) =>
              d0.tid == tb && d0.sid == sb && d0.flags == f && d0.remote == rem && W3C.decodeTS d0.ts == members &&
              checkScStep d0 d0 none && checkScOps d0 ops ds
            | _ => false
          verdict ms obs spec (!ops.isEmpty) (",".intercalate (uniq (ops.map (fun
            | .tid _ => "sc-tid" | .sid _ => "sc-sid" | .flags _ => "sc-flags" | .remote _ => "sc-remote"
            | .ts _ => "sc-ts" | .sampled _ => "sc-sampled"))))
        | none, _ => verdict "builderr" obs (obs == ["builderr"] && !decide (TSInv members)) false "sc-builderr"
        | _, none => none)
     | _, _, _, _ => none)
  | ["idjson", _, tid, sid, fl, rem, mem] =>
    (match parseHex tid, parseHex sid, fl.toNat?, parseMembers mem with
     | some tb, some sb, some f, some members =>
       (match buildTS members with
        | none => verdict "builderr" obs (obs == ["builderr"] && !decide (TSInv members)) false "idjson-builderr"
        | some ts =>
          let sc : SpanCtx := { tid := tb, sid := sb, flags := UInt8.ofNat f, ts := ts, remote := rem == "1" }
          let fromHex := fun (n : Nat) (b : Bytes) => match idFromHex n (idString b) with
            | some t => s!"ok:{hexOf t}" | none => "err"
          let ms := s!"{hexOf (idString tb)} {hexOf (idString sb)} {hexOf (hexEncode [sc.flags])} {hexOf (idJSON tb)} {hexOf (idJSON sb)} {hexOf (flagsJSON sc.flags)} {hexOf (tsJSON ts)} {hexOf (scJSON sc)} {fromHex 32 tb} {fromHex 16 sb}"
          let spec := match obs with
            | [ts', ss', fs', tj, sj, fj, tsj, scj, th, sh] =>
              (match parseHex ts', parseHex ss', parseHex fs', parseHex tj, parseHex sj, parseHex fj, parseHex tsj, parseHex scj with
               | some tsb, some ssb, some fsb, some tjb, some sjb, some fjb, some tsjb, some scjb =>
                 W3C.hexField 32 tsb && hexEncode tb == tsb && W3C.hexField 16 ssb && hexEncode sb == ssb &&
                 W3C.hexField 2 fsb && hexEncode [UInt8.ofNat f] == fsb &&
                 jsonDecode tjb == some tsb && jsonDecode sjb == some ssb && jsonDecode fjb == some fsb &&
                 (match jsonDecode tsjb with
                  | some body => W3C.decodeTS body == members && tsStrOK body
                  | none => false) &&
                 scjb == asc "{\"TraceID\":" ++ tjb ++ asc ",\"SpanID\":" ++ sjb ++ asc ",\"TraceFlags\":" ++ fjb ++
                   asc ",\"TraceState\":" ++ tsjb ++ asc ",\"Remote\":" ++ (if rem == "1" then asc "true" else asc "false") ++ asc "}" &&
                 th == (if nonZero tb then s!"ok:{hexOf tb}" else "err") &&
                 sh == (if nonZero sb then s!"ok:{hexOf sb}" else "err")
               | _, _, _, _, _, _, _, _ => false)
            | _ => false
          verdict ms obs spec true
            ((if nonZero tb then "idjson-tid" else "idjson-tid0") ++ (if nonZero sb then ",idjson-sid" else ",idjson-sid0") ++
             (if (tsString ts).any (fun c => c == 0x22 || c == 0x5c || c == 0x3c || c == 0x3e || c == 0x26) then ",idjson-esc" else "")))
     | _, _, _, _ => none)
  | "carrier" :: _ :: kind :: rest =>
    let opToks := match rest with | "|" :: r => groups r | _ => []
    (match opToks.mapM parseCarOp with
     | some ops =>
       let og := (groups obs).map (fun g => " ".intercalate g)
       let og := if ops.isEmpty then [] else og
       if kind == "m" then
         (match runMapCar [] ops with
          | some res => verdict (" | ".intercalate res) obs (checkCar id (fun _ => []) ops og) (!ops.isEmpty) (carBranches false ops)
          | none => none)
       else if kind == "h" then
         verdict (" | ".intercalate (runHdrCar [] ops)) obs (checkCar canonicalKey (fun _ => []) ops og) (!ops.isEmpty)
           (carBranches true ops)
       else none
     | none => none)
  | ["composite", _, kind, order, tid, sid, fl, rem, mem, presets, tags] =>
    (match parseOrder order, parseHex tid, parseHex sid, fl.toNat?, parseMembers mem, parsePairs presets, parsePairs tags with
     | some ord, some tb, some sb, some f, some members, some pre, some tg =>
       (match buildTS members with
        | none => verdict "builderr" obs (obs == ["builderr"] && !decide (TSInv members)) false "comp-builderr"
        | some ts =>
          let sc : SpanCtx := { tid := tb, sid := sb, flags := UInt8.ofNat f, ts := ts, remote := rem == "1" }
          let span := if rem == "n" then none else some sc
          let hdr := kind == "h"
          let out := if hdr then runComposite headerOps [] (fun c => c.map (fun p => (p.1, p.2.headD []))) pre tg ord span
                     else runComposite mapOps [] id pre tg ord span
          let ms := s!"{renderDump out.dump} | {renderSpan out.span} | {renderHexList out.reads} | {(fun (l : List String) => if l.isEmpty then "-" else ",".intercalate l) (sortStrs (out.fields.map hexOf))}"
          -- the hypotheses of `composite_roundtrip`, evaluated on the input
          let same := fun (a b : Bytes) => if hdr then canonicalKey a == canonicalKey b else a == b
          let hasT := ord.any (fun | .tc => true | _ => false)
          let usedTags := ord.filterMap (fun | .tag i => some (tg.getD i ([], [])).1 | _ => none)
          let frame := usedTags.all (fun k => !same k tpKey && !same k tsKey)
          let applies := hasT && frame && rem != "n" && idsValid tb sb && decide (TSInv members) && (!members.isEmpty || !out.tsPreset)
          let spec := match groups obs with
            | [d, ex, rd, fd] =>
              -- zero members: nothing happens (composite_empty_and_singleton); no TraceContext member: the span stays
              (ord.isEmpty → (d == [renderDump out.dump] && ex == ["none"] && rd == ["-"] && fd == ["-"])) &&
              (!hasT → ex == ["none"]) &&
              if applies then
                (match ex with
                 | [etid, esid, efl, erem, etss] =>
                   (match parseHex etss with
                    | some etsb => etid == tid && esid == sid && efl == toString (f % 2) && erem == "1" && W3C.decodeTS etsb == members
                    | none => false)
                 | _ => false)
              else true
            | _ => false
          verdict ms obs spec applies
            ((if hdr then "comp-h" else "comp-m") ++ (if hasT then ",comp-T" else ",comp-noT") ++
             (if ord.any (fun | .bag => true | _ => false) then ",comp-B" else "") ++
             (if frame then "" else ",comp-clash") ++ (if out.tsPreset then ",comp-ts-preset" else "") ++
             (if applies then ",comp-rt" else "") ++ (if out.span.isSome then ",comp-some" else ",comp-none")))
     | _, _, _, _, _, _, _ => none)
  | _ => none
