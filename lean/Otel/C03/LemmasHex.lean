/-
C03 — helper lemmas about encoding/hex, the rune loops over ASCII strings, and extractPart (core Lean only).
-/
import Otel.C03.Lemmas
namespace Otel.C03
open Otel

theorem hexChar_toNat (n : Nat) (h : n < 16) : (hexChar n).toNat = if n < 10 then 48 + n else 87 + n := by
  unfold hexChar
  split <;> simp [UInt8.toNat_ofNat'] <;> omega

theorem hexVal_hexChar (n : Nat) (h : n < 16) : hexVal (hexChar n) = some n := by
  have := hexChar_toNat n h
  unfold hexVal
  simp only [this]
  split
  · have h1 : 48 ≤ 48 + n ∧ 48 + n ≤ 57 := by omega
    simp [h1]
  · have h1 : ¬ (48 ≤ 87 + n ∧ 87 + n ≤ 57) := by omega
    have h2 : 97 ≤ 87 + n ∧ 87 + n ≤ 102 := by omega
    simp [h1, h2]

theorem hexChar_lower (n : Nat) (h : n < 16) : W3C.hexdiglc (hexChar n) = true := by
  have := hexChar_toNat n h
  simp only [W3C.hexdiglc, this, Bool.or_eq_true, Bool.and_eq_true, decide_eq_true_eq]
  split <;> omega

theorem hexChar_zero (n : Nat) (h : n < 16) : ((hexChar n).toNat == 0x30) = (n == 0) := by
  have := hexChar_toNat n h
  rw [this, Bool.eq_iff_iff]
  simp only [beq_iff_eq]
  split <;> omega

theorem byte_recompose (b : UInt8) : UInt8.ofNat (b.toNat / 16 * 16 + b.toNat % 16) = b := by
  have : b.toNat / 16 * 16 + b.toNat % 16 = b.toNat := by omega
  rw [this]; simp

theorem hexEncode_cons (b : UInt8) (r : Bytes) :
    hexEncode (b :: r) = hexChar (b.toNat / 16) :: hexChar (b.toNat % 16) :: hexEncode r := by
  simp [hexEncode]

theorem byte_div_lt (b : UInt8) : b.toNat / 16 < 16 := by
  have := b.toNat_lt; omega
theorem byte_mod_lt (b : UInt8) : b.toNat % 16 < 16 := by omega

theorem hexDecode_hexEncode (bs : Bytes) : hexDecode (hexEncode bs) = some bs := by
  induction bs with
  | nil => rfl
  | cons b r ih =>
    rw [hexEncode_cons]
    simp only [hexDecode, hexVal_hexChar _ (byte_div_lt b), hexVal_hexChar _ (byte_mod_lt b), ih, byte_recompose]

theorem hexEncode_length (bs : Bytes) : (hexEncode bs).length = 2 * bs.length := by
  induction bs with
  | nil => rfl
  | cons b r ih => rw [hexEncode_cons]; simp [ih]; omega

theorem hexEncode_lower (bs : Bytes) : (hexEncode bs).all W3C.hexdiglc = true := by
  induction bs with
  | nil => rfl
  | cons b r ih =>
    rw [hexEncode_cons]
    simp [hexChar_lower _ (byte_div_lt b), hexChar_lower _ (byte_mod_lt b), ih]

theorem hexEncode_allZero (bs : Bytes) : W3C.allZeroDigits (hexEncode bs) = allZero bs := by
  induction bs with
  | nil => rfl
  | cons b r ih =>
    rw [hexEncode_cons]
    simp only [W3C.allZeroDigits, allZero, List.all_cons] at ih ⊢
    rw [ih, hexChar_zero _ (byte_div_lt b), hexChar_zero _ (byte_mod_lt b), ← Bool.and_assoc]
    congr 1
    rw [Bool.eq_iff_iff]
    simp only [Bool.and_eq_true, beq_iff_eq]
    omega

theorem hexdiglc_props (c : UInt8) (h : W3C.hexdiglc c = true) :
    c ≠ 0x2d ∧ c.toNat < 0x80 ∧ ¬ (0x41 ≤ c.toNat ∧ c.toNat ≤ 0x46) := by
  simp only [W3C.hexdiglc, Bool.or_eq_true, Bool.and_eq_true, decide_eq_true_eq] at h
  refine ⟨?_, by omega, by omega⟩
  intro e; subst e; simp at h

/-! ### `range s` over an ASCII string walks its bytes -/

theorem chunks_ascii (s : Bytes) (h : ∀ b ∈ s, b.toNat < 0x80) :
    Utf8.chunks s = s.map (fun b => ⟨[b], b.toNat, false⟩) := by
  induction s with
  | nil => rfl
  | cons b r ih =>
    have hb : b.toNat < 0x80 := h b (by simp)
    have hd : Utf8.decode (b :: r) = (b.toNat, 1) := by simp [Utf8.decode, hb]
    rw [Utf8.chunks_cons, hd]
    have hne : (b.toNat == 0xFFFD) = false := by
      simp only [beq_eq_false_iff_ne, ne_eq]; omega
    simp [hne, ih (fun c hc => h c (by simp [hc]))]

theorem upperHex_lower (s : Bytes) (h : s.all W3C.hexdiglc = true) : upperHex s = false := by
  simp only [List.all_eq_true] at h
  unfold upperHex
  rw [chunks_ascii s (fun b hb => (hexdiglc_props b (h b hb)).2.1)]
  rw [List.any_eq_false]
  intro c hc
  obtain ⟨b, hb, rfl⟩ := List.mem_map.mp hc
  have := (hexdiglc_props b (h b hb)).2.2
  simpa using this

/-! ### extractPart on a canonical field -/

theorem extractPart_mid (X rest : Bytes) (n : Nat) (hn : n = 2 * X.length) :
    extractPart (hexEncode X ++ 0x2d :: rest) n = (some X, rest) := by
  have hno : (0x2d : UInt8) ∉ hexEncode X := by
    intro hm
    have := hexEncode_lower X
    simp only [List.all_eq_true] at this
    exact (hexdiglc_props _ (this _ hm)).1 rfl
  have hl := hexEncode_length X
  simp only [extractPart, cut_append 0x2d _ _ hno, upperHex_lower _ (hexEncode_lower X), hexDecode_hexEncode]
  have h1 : ((hexEncode X).length != n) = false := by simp [hl, hn]
  have h2 : (X.length != n / 2) = false := by simp; omega
  simp [h1, h2]

theorem extractPart_end (X : Bytes) (n : Nat) (hn : n = 2 * X.length) :
    extractPart (hexEncode X) n = (some X, []) := by
  have hno : (0x2d : UInt8) ∉ hexEncode X := by
    intro hm
    have := hexEncode_lower X
    simp only [List.all_eq_true] at this
    exact (hexdiglc_props _ (this _ hm)).1 rfl
  have hl := hexEncode_length X
  simp only [extractPart, cut_none 0x2d _ hno, upperHex_lower _ (hexEncode_lower X), hexDecode_hexEncode]
  have h1 : ((hexEncode X).length != n) = false := by simp [hl, hn]
  have h2 : (X.length != n / 2) = false := by simp; omega
  simp [h1, h2]


/-- the canonical version-00 traceparent, as `Inject` builds it -/
def canonTP (tid sid : Bytes) (f : UInt8) : Bytes :=
  [0x30, 0x30] ++ (0x2d :: hexEncode tid) ++ (0x2d :: hexEncode sid) ++ (0x2d :: hexEncode [f])

theorem canonTP_eq (tid sid : Bytes) (f : UInt8) :
    canonTP tid sid f = hexEncode [0] ++ 0x2d :: (hexEncode tid ++ 0x2d :: (hexEncode sid ++ 0x2d :: hexEncode [f])) := by
  simp [canonTP, hexEncode, hexChar]

theorem extract_canon (tid sid : Bytes) (f : UInt8) (t : Bytes)
    (ht : tid.length = 16) (hs : sid.length = 8) (hf : f.toNat ≤ 2) :
    extract (canonTP tid sid f) t =
      if allZero tid || allZero sid then none
      else some { tid := tid, sid := sid, flags := f &&& 0x01,
                  ts := parseOrEmpty t, remote := true } := by
  have hne : canonTP tid sid f ≠ [] := by simp [canonTP]
  unfold extract
  simp only [hne, if_false]
  rw [canonTP_eq, extractPart_mid [0] _ 2 (by simp)]
  simp only []
  rw [extractPart_mid tid _ 32 (by omega)]
  simp only []
  rw [extractPart_mid sid _ 16 (by omega)]
  simp only []
  rw [extractPart_end [f] 2 (by simp)]
  have h2 : ¬ (f.toNat > 2) := by omega
  cases h3 : allZero tid <;> cases h4 : allZero sid <;> simp [SpanCtx.isValid, h2, h3, h4]

end Otel.C03
