/-
C03 — helper lemmas: what the library emits satisfies the W3C predicates of Spec.lean (core Lean only).
-/
import Otel.C03.LemmasHex
namespace Otel.C03
open Otel

/-! ### traceparent -/

theorem drop_take_mid (A M R : Bytes) (n m : Nat) (hA : A.length = n) (hM : M.length = m) :
    ((A ++ (M ++ R)).drop n).take m = M := by
  rw [List.drop_left' hA, List.take_left' hM]

theorem get_mid (A R : Bytes) (c : UInt8) (n : Nat) (hA : A.length = n) : (A ++ c :: R)[n]? = some c := by
  rw [List.getElem?_append_right (by omega)]; simp [hA]

theorem traceparentOK_shape (T S F : Bytes) (hT : T.length = 32) (hS : S.length = 16) (hF : F.length = 2)
    (hTh : T.all W3C.hexdiglc = true) (hSh : S.all W3C.hexdiglc = true) (hFh : F.all W3C.hexdiglc = true)
    (hTz : W3C.allZeroDigits T = false) (hSz : W3C.allZeroDigits S = false) :
    W3C.traceparentOK ([0x30, 0x30] ++ (0x2d :: T) ++ (0x2d :: S) ++ (0x2d :: F)) = true := by
  generalize hh : ([0x30, 0x30] ++ (0x2d :: T) ++ (0x2d :: S) ++ (0x2d :: F) : Bytes) = h
  have c1 : h.length = 55 := by subst hh; simp [hT, hS, hF]
  have c2 : h.take 2 = [0x30, 0x30] := by subst hh; simp
  have c3 : h[2]? = some 0x2d := by subst hh; simp
  have c4 : (h.drop 3).take 32 = T := by
    have : h = [0x30, 0x30, 0x2d] ++ (T ++ (0x2d :: S ++ 0x2d :: F)) := by subst hh; simp
    rw [this]; exact drop_take_mid _ _ _ _ _ rfl hT
  have c5 : h[35]? = some 0x2d := by
    have : h = ([0x30, 0x30, 0x2d] ++ T) ++ 0x2d :: (S ++ 0x2d :: F) := by subst hh; simp
    rw [this]; exact get_mid _ _ _ _ (by simp [hT])
  have c6 : (h.drop 36).take 16 = S := by
    have : h = ([0x30, 0x30, 0x2d] ++ T ++ [0x2d]) ++ (S ++ (0x2d :: F)) := by subst hh; simp
    rw [this]; exact drop_take_mid _ _ _ _ _ (by simp [hT]) hS
  have c7 : h[52]? = some 0x2d := by
    have : h = ([0x30, 0x30, 0x2d] ++ T ++ [0x2d] ++ S) ++ 0x2d :: F := by subst hh; simp
    rw [this]; exact get_mid _ _ _ _ (by simp [hT, hS])
  have c8 : h.drop 53 = F := by
    have : h = ([0x30, 0x30, 0x2d] ++ T ++ [0x2d] ++ S ++ [0x2d]) ++ F := by subst hh; simp
    rw [this]; exact List.drop_left' (by simp [hT, hS])
  simp only [W3C.traceparentOK, W3C.hexField, c1, c2, c3, c4, c5, c6, c7, c8, hT, hS, hF, hTh, hSh, hFh, hTz, hSz]
  decide

theorem traceparentOK_canon (tid sid : Bytes) (f : UInt8) (ht : tid.length = 16) (hs : sid.length = 8)
    (htz : allZero tid = false) (hsz : allZero sid = false) :
    W3C.traceparentOK (canonTP tid sid f) = true := by
  unfold canonTP
  apply traceparentOK_shape
  · rw [hexEncode_length]; omega
  · rw [hexEncode_length]; omega
  · rw [hexEncode_length]; rfl
  · exact hexEncode_lower _
  · exact hexEncode_lower _
  · exact hexEncode_lower _
  · rw [hexEncode_allZero]; exact htz
  · rw [hexEncode_allZero]; exact hsz

/-! ### tracestate -/

theorem pieces_none (sep : UInt8) (s : Bytes) (h : sep ∉ s) : W3C.pieces sep s = [s] := by
  induction s with
  | nil => rfl
  | cons b r ih =>
    have hb : b ≠ sep := fun e => h (by simp [e])
    have hr : sep ∉ r := fun e => h (by simp [e])
    simp [W3C.pieces, hb, ih hr]

theorem pieces_append (sep : UInt8) (x y : Bytes) (h : sep ∉ x) :
    W3C.pieces sep (x ++ sep :: y) = x :: W3C.pieces sep y := by
  induction x with
  | nil => simp [W3C.pieces]
  | cons b r ih =>
    have hb : b ≠ sep := fun e => h (by simp [e])
    have hr : sep ∉ r := fun e => h (by simp [e])
    simp [W3C.pieces, hb, ih hr]

theorem pieces_tsString (ts : TraceState) (hne : ts ≠ [])
    (hm : ∀ m ∈ ts, W3C.keyOK m.key = true ∧ W3C.valueOK m.val = true) :
    W3C.pieces 0x2c (tsString ts) = ts.map memberString := by
  induction ts with
  | nil => exact absurd rfl hne
  | cons m r ih =>
    have h1 := hm m (by simp)
    have hnc := memberString_no_comma m h1.1 h1.2
    cases r with
    | nil => rw [tsString_single]; simp [pieces_none _ _ hnc]
    | cons m' r' =>
      rw [tsString_cons_cons, pieces_append _ _ _ hnc, ih (by simp) (fun x hx => hm x (by simp [hx]))]
      simp

theorem memberOK_string (m : Member) (hk : W3C.keyOK m.key = true) (hv : W3C.valueOK m.val = true) :
    W3C.memberOK (memberString m) = true := by
  unfold W3C.memberOK memberString
  simp only [List.any_eq_true, List.mem_range, Bool.and_eq_true, beq_iff_eq]
  refine ⟨m.key.length, by simp, ⟨get_mid _ _ _ _ rfl, by simpa using hk⟩, by simpa using hv⟩

theorem takeWhile_key (k v : Bytes) (h : (0x3d : UInt8) ∉ k) :
    (k ++ 0x3d :: v).takeWhile (fun b => b != 0x3d) = k := by
  induction k with
  | nil => simp
  | cons b r ih =>
    have hb : b ≠ 0x3d := fun e => h (by simp [e])
    have hr : (0x3d : UInt8) ∉ r := fun e => h (by simp [e])
    simp [List.takeWhile_cons, hb, ih hr]

theorem dropWhile_key (k v : Bytes) (h : (0x3d : UInt8) ∉ k) :
    (k ++ 0x3d :: v).dropWhile (fun b => b != 0x3d) = 0x3d :: v := by
  induction k with
  | nil => simp
  | cons b r ih =>
    have hb : b ≠ 0x3d := fun e => h (by simp [e])
    have hr : (0x3d : UInt8) ∉ r := fun e => h (by simp [e])
    simp [List.dropWhile_cons, hb, ih hr]

theorem memberKey_string (m : Member) (hk : W3C.keyOK m.key = true) : W3C.memberKey (memberString m) = m.key :=
  takeWhile_key _ _ (key_no_eq _ hk)

theorem tracestateOK_string (ts : TraceState) (h : TSInv ts) (hne : ts ≠ []) :
    W3C.tracestateOK (tsString ts) = true := by
  obtain ⟨h1, h2, h3⟩ := h
  unfold W3C.tracestateOK
  simp only [pieces_tsString ts hne h2, List.length_map, Bool.and_eq_true, decide_eq_true_eq, List.all_eq_true,
    List.map_map]
  refine ⟨⟨h1, ?_⟩, ?_⟩
  · intro x hx
    obtain ⟨m, hm, rfl⟩ := List.mem_map.mp hx
    exact memberOK_string m (h2 m hm).1 (h2 m hm).2
  · have : ts.map (W3C.memberKey ∘ memberString) = ts.map (·.key) := by
      apply List.map_congr_left
      intro m hm
      exact memberKey_string m (h2 m hm).1
    rw [this]; exact h3

/-- the oracle's decoder reads back what `String` wrote -/
theorem decodeTS_string (ts : TraceState) (h : TSInv ts) : W3C.decodeTS (tsString ts) = ts := by
  obtain ⟨_, h2, _⟩ := h
  unfold W3C.decodeTS
  by_cases hne : ts = []
  · subst hne; rfl
  · have : tsString ts ≠ [] := fun e => hne ((tsString_eq_nil ts).mp e)
    simp only [this, if_false, pieces_tsString ts hne h2, List.map_map]
    conv => rhs; rw [← List.map_id ts]
    apply List.map_congr_left
    intro m hm
    have hk := key_no_eq _ (h2 m hm).1
    simp [W3C.memberKey, W3C.memberVal, memberString, takeWhile_key _ _ hk, dropWhile_key _ _ hk]

theorem idsValid_of (tid sid : Bytes) (ht : tid.length = 16) (hs : sid.length = 8)
    (htz : allZero tid = false) (hsz : allZero sid = false) : idsValid tid sid = true := by
  have h1 : tid.any (fun b => b.toNat != 0) = true := by
    have : (!allZero tid) = true := by simp [htz]
    rw [allZero, List.not_all_eq_any_not] at this
    simpa using this
  have h2 : sid.any (fun b => b.toNat != 0) = true := by
    have : (!allZero sid) = true := by simp [hsz]
    rw [allZero, List.not_all_eq_any_not] at this
    simpa using this
  simp only [idsValid, ht, hs, h1, h2]; rfl

end Otel.C03
