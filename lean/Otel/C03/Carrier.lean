/-
C03 — executable model of the glue around the W3C propagator:
  /repo/propagation/propagation.go   (MapCarrier, HeaderCarrier Get/Set/Keys, compositeTextMapPropagator
                                      Inject/Extract/Fields, NewCompositeTextMapPropagator)
  /repo/propagation/trace_context.go (TraceContext.Inject / Extract / Fields as carrier operations)
  /repo/trace/context.go             (ContextWithRemoteSpanContext / SpanContextFromContext: the span slot of a context)
  /repo/trace/trace.go               (SpanContext.With* copy constructors, IsValid/IsSampled/Equal, TraceFlags.WithSampled)
Core Lean only. net/textproto.CanonicalMIMEHeaderKey (used by http.Header.Get/Set underneath HeaderCarrier) is
modelled by `canonicalKey` (standard library: modelled and differentially tested, not verified).
-/
import Otel.C03.Model
namespace Otel.C03
open Otel

/-! ## net/textproto: canonical MIME header keys -/

/-- `validHeaderFieldByte`: RFC 7230 tchar -/
def validHeaderFieldByte (c : UInt8) : Bool :=
  let n := c.toNat
  (48 ≤ n && n ≤ 57) || (97 ≤ n && n ≤ 122) || (65 ≤ n && n ≤ 90) ||
  n == 0x21 || n == 0x23 || n == 0x24 || n == 0x25 || n == 0x26 || n == 0x27 || n == 0x2a || n == 0x2b ||
  n == 0x2d || n == 0x2e || n == 0x5e || n == 0x5f || n == 0x60 || n == 0x7c || n == 0x7e

/-- one step of the canonicalisation loop: upper-case after the start or a '-', lower-case elsewhere -/
def canonByte (upper : Bool) (c : UInt8) : UInt8 :=
  if upper && (97 ≤ c.toNat && c.toNat ≤ 122) then c - 32
  else if !upper && (65 ≤ c.toNat && c.toNat ≤ 90) then c + 32
  else c

def canonLoop : Bool → Bytes → Bytes
  | _, [] => []
  | upper, c :: r => canonByte upper c :: canonLoop (canonByte upper c == 0x2d) r

/-- `textproto.CanonicalMIMEHeaderKey`: a key with a byte that is not a tchar (a space included) is returned
unchanged -/
def canonicalKey (k : Bytes) : Bytes := if k.all validHeaderFieldByte then canonLoop true k else k

/-! ## propagation.MapCarrier (a Go map: key-unique association list, order immaterial) -/

abbrev MapCarrier := List (Bytes × Bytes)

def mcGet (c : MapCarrier) (k : Bytes) : Bytes :=
  match c.find? (fun p => p.1 == k) with
  | some p => p.2
  | none => []

def mcSet (c : MapCarrier) (k v : Bytes) : MapCarrier := (k, v) :: c.filter (fun p => p.1 != k)

def mcKeys (c : MapCarrier) : List Bytes := c.map (·.1)

/-! ## propagation.HeaderCarrier (http.Header = map[string][]string) -/

abbrev HeaderCarrier := List (Bytes × List Bytes)

/-- `http.Header.Get`: first value stored under the canonical form of the key -/
def hcGet (c : HeaderCarrier) (k : Bytes) : Bytes :=
  match c.find? (fun p => p.1 == canonicalKey k) with
  | some (_, v :: _) => v
  | _ => []

/-- `http.Header.Set`: the canonical key now holds exactly this value -/
def hcSet (c : HeaderCarrier) (k v : Bytes) : HeaderCarrier :=
  (canonicalKey k, [v]) :: c.filter (fun p => p.1 != canonicalKey k)

/-- `http.Header.Add` (used by the harness to prepare multi-valued headers) -/
def hcAdd (c : HeaderCarrier) (k v : Bytes) : HeaderCarrier :=
  let ck := canonicalKey k
  match c.find? (fun p => p.1 == ck) with
  | some (_, vs) => (ck, vs ++ [v]) :: c.filter (fun p => p.1 != ck)
  | none => (ck, [v]) :: c

/-- direct map assignment `h[k] = vs` (no canonicalisation) -/
def hcRaw (c : HeaderCarrier) (k : Bytes) (vs : List Bytes) : HeaderCarrier :=
  (k, vs) :: c.filter (fun p => p.1 != k)

def hcKeys (c : HeaderCarrier) : List Bytes := c.map (·.1)

/-! ## the TextMapCarrier interface, and TraceContext on top of it -/

structure CarrierOps (C : Type) where
  get : C → Bytes → Bytes
  set : C → Bytes → Bytes → C

def mapOps : CarrierOps MapCarrier := ⟨mcGet, mcSet⟩
def headerOps : CarrierOps HeaderCarrier := ⟨hcGet, hcSet⟩

/-- "traceparent" -/
def tpKey : Bytes := [0x74, 0x72, 0x61, 0x63, 0x65, 0x70, 0x61, 0x72, 0x65, 0x6e, 0x74]
/-- "tracestate" -/
def tsKey : Bytes := [0x74, 0x72, 0x61, 0x63, 0x65, 0x73, 0x74, 0x61, 0x74, 0x65]

/-- `TraceContext.Inject` as carrier operations: an invalid span context leaves the carrier untouched; the
tracestate header is written first and ONLY when the tracestate is not empty (an old value stays otherwise);
then the traceparent header -/
def tcInject {C : Type} (ops : CarrierOps C) (sc : SpanCtx) (c : C) : C :=
  match inject sc with
  | none => c
  | some (tp, tsh) =>
    let c1 := match tsh with
      | some s => ops.set c tsKey s
      | none => c
    ops.set c1 tpKey tp

/-- `TraceContext.extract` on a carrier -/
def tcExtract {C : Type} (ops : CarrierOps C) (c : C) : Option SpanCtx :=
  extract (ops.get c tpKey) (ops.get c tsKey)

/-! ## contexts and propagators (propagation.go, trace/context.go) -/

/-- a `context.Context` as far as propagation goes: the span context of the current span (`none`: no span is set,
`SpanContextFromContext` then gives the zero SpanContext) and the other values -/
structure Ctx (β : Type) where
  span : Option SpanCtx
  rest : β

/-- a `TextMapPropagator` -/
structure Propagator (β C : Type) where
  inject : Ctx β → C → C
  extract : Ctx β → C → Ctx β
  fields : List Bytes

/-- `propagation.TraceContext{}` -/
def tcPropagator {β C : Type} (ops : CarrierOps C) : Propagator β C where
  inject := fun ctx c =>
    match ctx.span with
    | some sc => tcInject ops sc c
    | none => c
  extract := fun ctx c =>
    match tcExtract ops c with
    | some sc => { ctx with span := some { sc with remote := true } }   -- ContextWithRemoteSpanContext
    | none => ctx
  fields := [tpKey, tsKey]

/-- `compositeTextMapPropagator.Inject`: every member in order, same context, same carrier -/
def compInject {β C : Type} (ps : List (Propagator β C)) (ctx : Ctx β) (c : C) : C :=
  ps.foldl (fun c p => p.inject ctx c) c

/-- `compositeTextMapPropagator.Extract`: the context is threaded through the members in order -/
def compExtract {β C : Type} (ps : List (Propagator β C)) (ctx : Ctx β) (c : C) : Ctx β :=
  ps.foldl (fun ctx p => p.extract ctx c) ctx

/-- `compositeTextMapPropagator.Fields`: de-duplicated union (a Go map: order immaterial) -/
def compFields {β C : Type} (ps : List (Propagator β C)) : List Bytes :=
  (ps.flatMap (·.fields)).eraseDups

/-- the harness's probe propagator: Inject sets one key, Extract records what `Get` of that key returns -/
def tagPropagator {C : Type} (ops : CarrierOps C) (key val : Bytes) : Propagator (List (Bytes × Bytes)) C where
  inject := fun _ c => ops.set c key val
  extract := fun ctx c => { ctx with rest := ctx.rest ++ [(key, ops.get c key)] }
  fields := [key]

/-- "baggage" -/
def bagKey : Bytes := [0x62, 0x61, 0x67, 0x67, 0x61, 0x67, 0x65]

/-- `propagation.Baggage{}` as far as C03 goes (its own behaviour is property C11): Inject sets the "baggage" header
to the serialised baggage of the context when that is not empty, Extract only adds a baggage value to the context -/
def bagPropagator {β C : Type} (ops : CarrierOps C) (bagOf : Ctx β → Bytes) : Propagator β C where
  inject := fun ctx c => if bagOf ctx = [] then c else ops.set c bagKey (bagOf ctx)
  extract := fun ctx _ => ctx
  fields := [bagKey]

/-! ## trace/trace.go: SpanContext copy constructors and predicates -/

inductive ScOp where
  | tid (b : Bytes) | sid (b : Bytes) | flags (f : UInt8) | remote (r : Bool) | ts (t : TraceState)
  | sampled (s : Bool)

/-- `FlagsSampled = 0x01`; `TraceFlags.WithSampled` -/
def withSampled (f : UInt8) (s : Bool) : UInt8 := if s then f ||| 0x01 else f &&& 0xfe
/-- `TraceFlags.IsSampled` -/
def isSampled (f : UInt8) : Bool := f &&& 0x01 == 0x01

/-- `WithTraceID`, `WithSpanID`, `WithTraceFlags`, `WithRemote`, `WithTraceState`, and
`sc.WithTraceFlags(sc.TraceFlags().WithSampled(s))` -/
def scApply (sc : SpanCtx) : ScOp → SpanCtx
  | .tid b => { sc with tid := b }
  | .sid b => { sc with sid := b }
  | .flags f => { sc with flags := f }
  | .remote r => { sc with remote := r }
  | .ts t => { sc with ts := t }
  | .sampled s => { sc with flags := withSampled sc.flags s }

/-- `SpanContext.Equal`: the tracestates are compared through `String()` -/
def scEqual (a b : SpanCtx) : Bool :=
  a.tid == b.tid && a.sid == b.sid && a.flags == b.flags && tsString a.ts == tsString b.ts && a.remote == b.remote

/-- `TraceState.Walk` with a callback that returns false at its n-th call (n ≥ 1; 0 = never): the members visited -/
def tsWalk (ts : TraceState) (stopAt : Nat) : List Member := if stopAt = 0 then ts else ts.take stopAt

/-! ## trace/trace.go: String and MarshalJSON of the identifiers, the flags and the span context -/

/-- `TraceID.String` / `SpanID.String` / `TraceFlags.String`: `hex.EncodeToString` -/
def idString (b : Bytes) : Bytes := hexEncode b

def asc (s : String) : Bytes := s.toList.map (fun c => UInt8.ofNat c.toNat)

/-- encoding/json's string escaping (HTML-safe mode, the default of `json.Marshal`) of one byte of a printable-ASCII
string: `"` and `\` get a backslash, `<` `>` `&` become \u003c \u003e \u0026; control bytes become \u00XX
(\n \r \t \b \f have short forms: they cannot occur in the strings marshalled here and are not modelled);
bytes ≥ 0x80 are outside the domain (every marshalled string is lower-case hex or a valid tracestate) -/
def jsonEscByte (c : UInt8) : Bytes :=
  if c = 0x22 then [0x5c, 0x22]
  else if c = 0x5c then [0x5c, 0x5c]
  else if c = 0x3c ∨ c = 0x3e ∨ c = 0x26 ∨ c.toNat < 0x20 then
    [0x5c, 0x75, 0x30, 0x30, hexChar (c.toNat / 16), hexChar (c.toNat % 16)]
  else [c]

/-- `json.Marshal(s)` for such a string -/
def jsonString (s : Bytes) : Bytes := 0x22 :: (s.flatMap jsonEscByte ++ [0x22])

/-- `TraceID.MarshalJSON` / `SpanID.MarshalJSON` -/
def idJSON (b : Bytes) : Bytes := jsonString (idString b)
/-- `TraceFlags.MarshalJSON` -/
def flagsJSON (f : UInt8) : Bytes := jsonString (hexEncode [f])
/-- `TraceState.MarshalJSON` -/
def tsJSON (ts : TraceState) : Bytes := jsonString (tsString ts)

/-- `SpanContext.MarshalJSON`: `json.Marshal(SpanContextConfig{…})`, fields in declaration order -/
def scJSON (sc : SpanCtx) : Bytes :=
  asc "{\"TraceID\":" ++ idJSON sc.tid ++ asc ",\"SpanID\":" ++ idJSON sc.sid ++
  asc ",\"TraceFlags\":" ++ flagsJSON sc.flags ++ asc ",\"TraceState\":" ++ tsJSON sc.ts ++
  asc ",\"Remote\":" ++ (if sc.remote then asc "true" else asc "false") ++ asc "}"

/-! ## edit scripts on a TraceState value -/

inductive TsOp where
  | ins (k v : Bytes) | del (k : Bytes)

/-- run a script of `Insert` / `Delete` calls, each applied to the result of the previous one (a failing
`Insert` returns the receiver) -/
def tsRun : TraceState → List TsOp → TraceState
  | ts, [] => ts
  | ts, .ins k v :: r => tsRun ((tsInsert ts k v).getD ts) r
  | ts, .del k :: r => tsRun (tsDelete ts k) r

end Otel.C03
