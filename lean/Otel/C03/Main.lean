/-
C03 — driver: replays the trace lines of the Go harnesses on the model and evaluates the Spec oracle
on the implementation's observed results. Line kinds (see harness/wb/{trace,propagation}/zz_verif_c03_*):

  checkkey <gen> <xkey>  => 0|1
  checkval <gen> <xval>  => 0|1
  idhex <gen> t|s <xhex> => ok <xbytes> | err
  parsets <gen> <xheader> => ok <n> <xString()> <members> <x re-parsed String() | err> | err
  tsedit <gen> <xheader> | ins <xk> <xv> | del <xk> | get <xk> … => <r0> | <r1> | …
        r0 = ok:<xstr> | err:x ; ins/del: ok|err:<xstr>:<len>:<receiver unchanged 0|1> ; get: val:<xv>
  extract <gen> <xtraceparent> <xtracestate> => R | R0
        R = none | <xtid> <xsid> <flags> <remote> <xtsString> <x re-injected traceparent> <x re-injected tracestate|->
        R0 (same traceparent, no tracestate) = none | <xtid> <xsid> <flags>
  roundtrip <gen> <xtid> <xsid> <flags> <remote> <members> => builderr | <xtp|-> <xts|-> | none
                                                                      | <xtp|-> <xts|-> | <xtid> <xsid> <flags> <remote> <xtsString>
  members = `-` or comma-separated `<xkey>:<xval>`
-/
import Otel.C03.Spec
import Otel.C03.SpecDeep
import Otel.C03.MainDeep
open Otel Otel.Wire Otel.C03

namespace Otel.C03.Drv

def b01 (b : Bool) : String := if b then "1" else "0"

def parseMembers (s : String) : Option (List Member) :=
  if s == "-" then some []
  else
    (s.splitOn ",").mapM (fun p =>
      match p.splitOn ":" with
      | [k, v] => do
        let kb ← parseHex k
        let vb ← parseHex v
        pure (⟨kb, vb⟩ : Member)
      | _ => none)

def renderMembers (ms : List Member) : String :=
  if ms.isEmpty then "-" else ",".intercalate (ms.map (fun m => hexOf m.key ++ ":" ++ hexOf m.val))

def optHex (o : Option Bytes) : String := match o with | some b => hexOf b | none => "-"

/-- split a token list at `|` tokens -/
def groups (toks : List String) : List (List String) :=
  let r := toks.foldr (fun t (acc : List String × List (List String)) =>
      if t == "|" then ([], acc.1 :: acc.2) else (t :: acc.1, acc.2)) ([], [])
  r.1 :: r.2

def verdict (model : String) (obs : List String) (spec : Bool) (nontrivial : Bool) (br : String) : Option Verdict :=
  some { agree := model == " ".intercalate obs, spec := if spec then "ok" else "FAIL",
         nontrivial := nontrivial, branches := br, model := model }

/-- an emitted tracestate string is fine: empty, or conforming to the grammar -/
def tsStrOK (s : Bytes) : Bool := s.isEmpty || W3C.tracestateOK s

/-! ### edit scripts -/

inductive Edit where
  | ins (k v : Bytes) | del (k : Bytes) | get (k : Bytes)

def parseEdit : List String → Option Edit
  | ["ins", k, v] => do pure (.ins (← parseHex k) (← parseHex v))
  | ["del", k] => do pure (.del (← parseHex k))
  | ["get", k] => do pure (.get (← parseHex k))
  | _ => none

/-- model side: run the script, one result token per step -/
def runEdits : TraceState → List Edit → List String
  | _, [] => []
  | ts, .ins k v :: r =>
    match tsInsert ts k v with
    | some ts' => s!"ok:{hexOf (tsString ts')}:{ts'.length}:1" :: runEdits ts' r
    | none => s!"err:{hexOf (tsString ts)}:{ts.length}:1" :: runEdits ts r
  | ts, .del k :: r =>
    let ts' := tsDelete ts k
    s!"ok:{hexOf (tsString ts')}:{ts'.length}:1" :: runEdits ts' r
  | ts, .get k :: r => s!"val:{hexOf (tsGet ts k)}" :: runEdits ts r

def editBranches : TraceState → List Edit → List String
  | _, [] => []
  | ts, .ins k v :: r =>
    match tsInsert ts k v with
    | some ts' =>
      (if ts.any (fun m => m.key == k) then "ins-update" else if ts.length ≥ 32 then "ins-overflow" else "ins-new")
        :: editBranches ts' r
    | none => (if checkKey k then "ins-badval" else "ins-badkey") :: editBranches ts r
  | ts, .del k :: r => (if ts.any (fun m => m.key == k) then "del-hit" else "del-miss") :: editBranches (tsDelete ts k) r
  | ts, .get k :: r => (if ts.any (fun m => m.key == k) then "get-hit" else "get-miss") :: editBranches ts r

/-- oracle side: every observed step result follows from the observed previous state by the reference
semantics; the state is whatever the implementation reported (decoded from its String()) -/
def checkEdits : List Member → List Edit → List String → Bool
  | _, [], [] => true
  | prev, e :: es, o :: os =>
    match e, o.splitOn ":" with
    | .get k, ["val", v] =>
      (match parseHex v with
       | some vb => vb == refGet prev k && checkEdits prev es os
       | none => false)
    | .ins k v, [st, s, n, imm] =>
      (match parseHex s, n.toNat? with
       | some sb, some len =>
         let cur := W3C.decodeTS sb
         let stepOK := match refInsert prev k v with
           | some exp => st == "ok" && cur == exp
           | none => st == "err" && cur == prev
         stepOK && tsStrOK sb && len == cur.length && imm == "1" && checkEdits cur es os
       | _, _ => false)
    | .del k, [st, s, n, imm] =>
      (match parseHex s, n.toNat? with
       | some sb, some len =>
         let cur := W3C.decodeTS sb
         st == "ok" && cur == refDelete prev k && tsStrOK sb && len == cur.length && imm == "1" && checkEdits cur es os
       | _, _ => false)
    | _, _ => false
  | _, _, _ => false

def uniq (l : List String) : List String := l.foldl (fun acc x => if acc.contains x then acc else acc ++ [x]) []

end Otel.C03.Drv

open Otel.C03.Drv

def stepLine (_ : Unit) (toks : List String) : Unit × Option Verdict :=
  let (inp, obs) := splitObs toks
  ((), match inp with
  | ["checkkey", _, k] =>
    (match parseHex k, obs with
     | some kb, [o] =>
       let m := checkKey kb
       verdict (b01 m) obs (o == b01 (W3C.keyOK kb)) m
         (if (cut 0x40 kb).2.2 then "key-tenant" else "key-simple")
     | _, _ => none)
  | ["checkval", _, v] =>
    (match parseHex v, obs with
     | some vb, [o] =>
       let m := checkValue vb
       verdict (b01 m) obs (o == b01 (W3C.valueOK vb)) m (if vb.length > 256 then "val-long" else "val")
     | _, _ => none)
  | ["idhex", _, which, h] =>
    (match parseHex h with
     | some hb =>
       let n := if which == "t" then 32 else 16
       let m := idFromHex n hb
       let ms := match m with | some b => s!"ok {hexOf b}" | none => "err"
       let spec := match obs with
         | ["ok", b] => idHexOK n hb && (match parseHex b with
             | some bb => hexEncode bb == hb && bb.length * 2 == n | none => false)
         | ["err"] => !idHexOK n hb
         | _ => false
       verdict ms obs spec m.isSome
         (if hb.length != n then "id-len" else if (decodeHexId hb).isNone then "id-nothex" else if m.isNone then "id-zero" else "id-ok")
     | none => none)
  | ["parsets", _, h] =>
    (match parseHex h with
     | some hb =>
       let m := parseTraceState hb
       let ms := match m with
         | some ts =>
           let s := tsString ts
           let rp := match parseTraceState s with | some ts2 => hexOf (tsString ts2) | none => "err"
           s!"ok {ts.length} {hexOf s} {renderMembers ts} {rp}"
         | none => "err"
       let spec := match obs with
         | ["ok", n, s, mem, rp] =>
           (match n.toNat?, parseHex s, parseMembers mem with
            | some len, some sb, some members =>
              tsStrOK sb && decide (TSInv members) && W3C.decodeTS sb == members && len == members.length && rp == s &&
              W3C.tracestateAccepts hb && W3C.tracestateDecode hb == members
            | _, _, _ => false)
         | ["err"] => !W3C.tracestateAccepts hb
         | _ => false
       let br := match m with
         | some ts => if ts.isEmpty then "parse-empty" else if ts.length == 32 then "parse-ok32" else "parse-ok"
         | none => "parse-err"
       verdict ms obs spec (match m with | some ts => !ts.isEmpty | none => false) br
     | none => none)
  | "tsedit" :: _ :: h :: "|" :: rest =>
    (match parseHex h, (groups rest).mapM parseEdit with
     | some hb, some edits =>
       let init := parseTraceState hb
       let ts0 := init.getD []
       let r0 := match init with | some ts => s!"ok:{hexOf (tsString ts)}" | none => "err:x"
       let ms := " | ".intercalate (r0 :: runEdits ts0 edits)
       let og := (groups obs).map (fun g => " ".intercalate g)
       let spec := match og with
         | o0 :: os =>
           (match o0.splitOn ":" with
            | [_, s] => (match parseHex s with
                | some sb => tsStrOK sb && checkEdits (W3C.decodeTS sb) edits os
                | none => false)
            | _ => false)
         | [] => false
       verdict ms obs spec (!edits.isEmpty) (",".intercalate (uniq (editBranches ts0 edits)))
     | _, _ => none)
  | ["extract", _, tp, tst] =>
    (match parseHex tp, parseHex tst with
     | some h, some t =>
       let r := extract h t
       let r0 := extract h []
       let ms1 := match r with
         | some sc =>
           let inj := inject sc
           let itp := match inj with | some (p, _) => hexOf p | none => "-"
           let its := match inj with | some (_, some s) => hexOf s | _ => "-"
           s!"{hexOf sc.tid} {hexOf sc.sid} {sc.flags.toNat} {b01 sc.remote} {hexOf (tsString sc.ts)} {itp} {its}"
         | none => "none"
       let ms0 := match r0 with
         | some sc => s!"{hexOf sc.tid} {hexOf sc.sid} {sc.flags.toNat}"
         | none => "none"
       let spec := match groups obs with
         | [["none"], ["none"]] => !W3C.traceparentAccepts h
         | [[tid, sid, fl, rem, tss, itp, its], [tid0, sid0, fl0]] =>
           W3C.traceparentAccepts h &&
           (match parseHex tid, parseHex sid, fl.toNat?, parseHex tss, parseHex itp with
            | some tb, some sb, some f, some tsb, some itpb =>
              idsValid tb sb && f ≤ 1 && rem == "1" && W3C.traceparentOK itpb && acceptedOK h tb sb &&
              (if tsb.isEmpty then its == "-" else its == tss && W3C.tracestateOK tsb) &&
              tid0 == tid && sid0 == sid && fl0 == fl
            | _, _, _, _, _ => false)
         | _ => false
       verdict (ms1 ++ " | " ++ ms0) obs spec r.isSome (extractBranch h t)
     | _, _ => none)
  | ["roundtrip", _, tid, sid, fl, rem, mem] =>
    (match parseHex tid, parseHex sid, fl.toNat?, parseMembers mem with
     | some tb, some sb, some f, some members =>
       -- the harness builds the TraceState by inserting the members last to first
       let built := members.foldr (fun m acc => acc.bind (fun ts => tsInsert ts m.key m.val)) (some [])
       match built with
       | none =>
         verdict "builderr" obs (obs == ["builderr"] && !decide (TSInv members)) false "rt-builderr"
       | some ts =>
         let sc : SpanCtx := { tid := tb, sid := sb, flags := UInt8.ofNat f, ts := ts, remote := rem == "1" }
         let inj := inject sc
         let (itp, its) := match inj with
           | some (p, s) => (hexOf p, optHex s)
           | none => ("-", "-")
         let ex := match inj with
           | some (p, s) => extract p (s.getD [])
           | none => extract [] []
         let ms1 := match ex with
           | some e => s!"{hexOf e.tid} {hexOf e.sid} {e.flags.toNat} {b01 e.remote} {hexOf (tsString e.ts)}"
           | none => "none"
         let valid := idsValid tb sb
         let spec :=
           if !decide (TSInv members) then true   -- duplicate keys in the input list: only the model comparison applies
           else match groups obs with
           | [[otp, ots], ["none"]] => !valid && otp == "-" && ots == "-"
           | [[otp, ots], [etid, esid, efl, erem, etss]] =>
             (match parseHex otp, parseHex etss with
              | some otpb, some etsb =>
                valid && W3C.traceparentOK otpb && etid == tid && esid == sid && efl == toString (f % 2) && erem == "1" &&
                W3C.decodeTS etsb == members && (if members.isEmpty then ots == "-" else ots == etss && W3C.tracestateOK etsb)
              | _, _ => false)
           | _ => false
         verdict (s!"{itp} {its} | {ms1}") obs spec (valid && true)
           (if !valid then "rt-invalid" else if members.isEmpty then "rt-nots" else if members.length ≥ 32 then "rt-ts32" else "rt-ts")
     | _, _, _, _ => none)
  | _ => stepDeep toks)

def main : IO Unit := Wire.run () stepLine
