/-
C03 — helper lemmas: inversion of a successful `extract` (core Lean only).
-/
import Otel.C03.LemmasSpec
namespace Otel.C03
open Otel

theorem extractPart_len (h : Bytes) (n : Nat) (d r : Bytes) (he : extractPart h n = (some d, r)) :
    d.length = n / 2 := by
  simp only [extractPart] at he
  split at he
  · simp at he
  · split at he
    · simp at he
    · split at he
      · simp at he
      · rename_i hlen
        simp only [Prod.mk.injEq, Option.some.injEq] at he
        rw [← he.1]
        simpa using hlen

theorem extract_some (h t : Bytes) (sc : SpanCtx) (he : extract h t = some sc) :
    ∃ tid sid o, tid.length = 16 ∧ sid.length = 8 ∧ allZero tid = false ∧ allZero sid = false ∧
      sc = { tid := tid, sid := sid, flags := o &&& 0x01, ts := parseOrEmpty t, remote := true } := by
  unfold extract at he
  by_cases h0 : h = []
  · simp [h0] at he
  · simp only [h0, if_false] at he
    rcases hp1 : extractPart h 2 with ⟨_ | ver, h1⟩
    · simp [hp1] at he
    · simp only [hp1] at he
      by_cases hv : (ver.headD 0).toNat > 254
      · simp only [hv, if_true, reduceCtorEq] at he
      · simp only [hv, if_false] at he
        rcases hp2 : extractPart h1 32 with ⟨_ | tid, h2⟩
        · simp [hp2] at he
        · simp only [hp2] at he
          rcases hp3 : extractPart h2 16 with ⟨_ | sid, h3⟩
          · simp [hp3] at he
          · simp only [hp3] at he
            rcases hp4 : extractPart h3 2 with ⟨_ | opts, h4⟩
            · simp [hp4] at he
            · simp only [hp4] at he
              split at he
              · simp at he
              · split at he
                · simp at he
                · rename_i hvalid
                  simp only [Option.some.injEq] at he
                  refine ⟨tid, sid, opts.headD 0, ?_, ?_, ?_, ?_, ?_⟩
                  · have := extractPart_len _ _ _ _ hp2; omega
                  · have := extractPart_len _ _ _ _ hp3; omega
                  · simp [SpanCtx.isValid] at hvalid; exact hvalid.1
                  · simp [SpanCtx.isValid] at hvalid; exact hvalid.2
                  · rw [← he]

theorem parseOrEmpty_inv (t : Bytes) : TSInv (parseOrEmpty t) := by
  unfold parseOrEmpty
  split
  · rename_i ts h; exact parseTraceState_inv t ts h
  · exact TSInv_nil

theorem and_one_le (o : UInt8) : (o &&& 0x01).toNat ≤ 1 := by
  rw [UInt8.toNat_and]
  exact Nat.and_le_right

end Otel.C03
