/-
C10 — argument memory. "The exported snapshot never changes afterwards" also has to hold against LATER API CALLS THAT
SHARE ARGUMENT MEMORY with earlier ones: the caller passes attribute slices (with spare capacity, reused for the next
call, written to after the call returned / after End) to Start options, SetAttributes, AddEvent, RecordError, AddLink
on this span and on other spans.

Here Go slices are modelled explicitly: a heap of arrays, a slice = (array, len, cap), Go's `append` (in place when the
capacity suffices, else a fresh array). The SDK code paths that touch argument slices are mirrored on that heap:

* trace/config.go `attributeOption.applyEvent`: `c.attributes = append(c.attributes, o...)` (c.attributes starts nil);
  `NewEventConfig` folds the options;
* span.go `addEvent`: `Event{Attributes: c.Attributes()}`, per-event cap (`e.Attributes[:limit]`), `s.events.add(e)`;
* span.go `RecordError`: `opts = append(opts[:len(opts):len(opts)], WithAttributes(type, message))` (after fix 30d2a20,
  finding F45: the caller's OPTION slice is never written; option slices themselves are not part of this heap — only
  the attribute arrays the options point to; the exception option is a fresh 2-element attribute array),
  `NewEventConfig(opts...)` (for the StackTrace test; its result is dropped but it runs), then `addEvent` → a second
  `NewEventConfig`;
* span.go `AddLink` (after fix 48fa451, finding F44): per-link cap (`l.Attributes[:limit]`), then
  `l.Attributes = slices.Clone(l.Attributes)` — a fresh array; the ORIGINAL code stored the caller's slice (`keepLink`);
  tracer.go newRecordingSpan: `for l := range config.Links() { s.AddLink(l) }`;
* SetAttributes / Start's WithAttributes: every element is copied into `s.attributes` (by value: C04's model);
* `snapshot()`: `s.events.copy()` / `s.links.copy()` clone the QUEUES (the lists of records), not the attribute arrays
  the records point to.

`step` is parametrised by an `Impl` = (applyEvent function, link-attribute store): `cur` = the code as it is
(`applyEvent`, `cloneLink`); `aliasedEvents` = an allocation-saving fast path that stores the option's slice when the
config has no attribute yet (refuted by `aliased_fastpath_breaks_immutability`); `sharedLinks` = the code before
48fa451 (refuted by `reverted_link_fix_breaks_immutability`).
-/
import Otel.C04.Model
namespace Otel.C10.Alias
open Otel Otel.C04

structure Slice where
  arr : Nat
  len : Nat
  cap : Nat
deriving DecidableEq, Repr

/-- the nil slice -/
def Slice.nil : Slice := ⟨0, 0, 0⟩

abbrev Heap := List (List KV)

def arrOf (h : Heap) (a : Nat) : List KV := (h[a]?).getD []

/-- the elements of a slice -/
def read (h : Heap) (s : Slice) : List KV := (arrOf h s.arr).take s.len

/-- Go's `append(dst, vals...)`: in place when `len+n ≤ cap`, otherwise a fresh array (capacity = length: the growth
policy of the runtime is irrelevant, nobody else holds the fresh array) -/
def goAppend (h : Heap) (dst : Slice) (vals : List KV) : Heap × Slice :=
  if vals.isEmpty then (h, dst)
  else if dst.len + vals.length ≤ dst.cap then
    let a := arrOf h dst.arr
    (h.set dst.arr (a.take dst.len ++ vals ++ a.drop (dst.len + vals.length)),
     { dst with len := dst.len + vals.length })
  else (h ++ [read h dst ++ vals], ⟨h.length, dst.len + vals.length, dst.len + vals.length⟩)

/-- trace/config.go attributeOption.applyEvent, as it is -/
def applyEvent (h : Heap) (c o : Slice) : Heap × Slice := goAppend h c (read h o)

/-- the fast path of seeded change C10-12 / C04-9: "use its attributes directly instead of allocating a copy" -/
def applyEventAliased (h : Heap) (c o : Slice) : Heap × Slice :=
  if c.len = 0 then (h, o) else goAppend h c (read h o)

abbrev ApplyEvent := Heap → Slice → Slice → Heap × Slice
abbrev LinkStore := Heap → Slice → Heap × Slice

/-- `slices.Clone(l.Attributes)`: `append(s[:0:0], s...)` — a fresh array (nothing is allocated for an empty slice) -/
def cloneLink (h : Heap) (s : Slice) : Heap × Slice :=
  if s.len = 0 then (h, Slice.nil) else (h ++ [read h s], ⟨h.length, s.len, s.len⟩)

/-- the code before 48fa451 (finding F44): the caller's slice is stored -/
def keepLink (h : Heap) (s : Slice) : Heap × Slice := (h, s)

structure Impl where
  ae : ApplyEvent
  lk : LinkStore

/-- the code as it is -/
def cur : Impl := ⟨applyEvent, cloneLink⟩
/-- seeded change C10-12 / C04-9 -/
def aliasedEvents : Impl := ⟨applyEventAliased, cloneLink⟩
/-- the code before fix 48fa451 -/
def sharedLinks : Impl := ⟨applyEvent, keepLink⟩

@[simp] theorem cur_ae : cur.ae = applyEvent := rfl
@[simp] theorem cur_lk : cur.lk = cloneLink := rfl

/-- trace.NewEventConfig (attribute options only): returns the heap and `c.attributes` -/
def newEventConfig (ae : ApplyEvent) (h : Heap) (opts : List Slice) : Heap × Slice :=
  opts.foldl (fun hc o => ae hc.1 hc.2 o) (h, Slice.nil)

structure REvent where
  name : Bytes
  attrs : Slice
  dropped : Nat
deriving DecidableEq, Repr

structure RLink where
  sc : SC
  attrs : Slice
  dropped : Nat
deriving DecidableEq, Repr

/-- the per-event / per-link attribute cap on a slice: `nil` / `s[:limit]` -/
def capSlice (limit : Int) (s : Slice) : Slice × Nat :=
  if limit = 0 then (Slice.nil, s.len)
  else if limit > 0 ∧ (s.len : Int) > limit then ({ s with len := limit.toNat }, s.len - limit.toNat)
  else (s, 0)

/-- a recording span: the by-value fields are C04's (`base`, whose own queues stay empty); the queues hold records
that POINT into the heap -/
structure RSpan where
  base : C04.St
  events : EQ REvent := ⟨[], 0⟩
  links : EQ RLink := ⟨[], 0⟩
deriving DecidableEq, Repr

def derefE (h : Heap) (e : REvent) : Event := ⟨e.name, read h e.attrs, e.dropped⟩
def derefL (h : Heap) (l : RLink) : Link := ⟨l.sc, read h l.attrs, l.dropped⟩

/-- what a reader sees NOW: every attribute slice read through the current heap -/
def view (h : Heap) (s : RSpan) : C04.St :=
  { s.base with events := ⟨s.events.queue.map (derefE h), s.events.dropped⟩,
                links := ⟨s.links.queue.map (derefL h), s.links.dropped⟩ }

/-- what a reader of the exported snapshot sees now -/
def snapView (h : Heap) (s : RSpan) : Snap := C04.snapshot (view h s)

/-- recordingSpan.addEvent with the attribute options `opts` -/
def addEvent (ae : ApplyEvent) (lim : Limits) (h : Heap) (s : RSpan) (name : Bytes) (opts : List Slice) : Heap × RSpan :=
  let hc := newEventConfig ae h opts
  let c := capSlice lim.perEvent hc.2
  (hc.1, { s with events := s.events.add lim.eventCount ⟨name, c.1, c.2⟩ })

/-- recordingSpan.AddLink -/
def addLink (lk : LinkStore) (lim : Limits) (h : Heap) (s : RSpan) (sc : SC) (attrs : Slice) : Heap × RSpan :=
  if !sc.isValid && attrs.len == 0 && sc.ts == 0 then (h, s)
  else if s.base.ended then (h, s)
  else
    let c := capSlice lim.perLink attrs
    let r := lk h c.1
    (r.1, { s with links := s.links.add lim.linkCount ⟨sc, r.2, c.2⟩ })

structure World where
  heap : Heap := []
  bufs : List Slice := []                 -- the slices the caller holds
  spans : List RSpan := []
  exported : List (Nat × RSpan) := []     -- OnEnd log: span index, the snapshot (cloned queues of records)
deriving Repr

inductive AOp where
  | mk (kvs : List KV) (spare : Nat)                 -- caller: buf := append(make([]KV, 0, n+spare), kvs...)
  | wr (b i : Nat) (kv : KV)                         -- caller: buf[:cap(buf)][i] = kv
  | start (name : Bytes) (attrBufs : List Nat) (links : List (SC × Option Nat))
  | setAttrs (s b : Nat)
  | addEvent (s : Nat) (name : Bytes) (bufs : List Nat)
  | recordError (s : Nat) (err : Option (Bytes × Bytes)) (bufs : List Nat)
  | addLink (s : Nat) (sc : SC) (b : Option Nat)
  | plain (s : Nat) (op : Op)                        -- SetStatus / SetName (no slice argument)
  | end_ (s : Nat)
deriving DecidableEq, Repr

def bufOf (w : World) (b : Nat) : Slice := (w.bufs[b]?).getD Slice.nil
def optBuf (w : World) : Option Nat → Slice
  | none => Slice.nil
  | some b => bufOf w b

def setSpan (w : World) (i : Nat) (h : Heap) (s : RSpan) : World :=
  { w with heap := h, spans := w.spans.set i s }

def isPlain : Op → Bool
  | .setStatus _ _ | .setName _ => true
  | _ => false

def step (im : Impl) (lim : Limits) (w : World) : AOp → World
  | .mk kvs spare =>
    { w with heap := w.heap ++ [kvs ++ List.replicate spare ⟨[], .invalid⟩],
             bufs := w.bufs ++ [⟨w.heap.length, kvs.length, kvs.length + spare⟩] }
  | .wr b i kv =>
    match w.bufs[b]? with
    | none => w
    | some s => if i < s.cap then { w with heap := w.heap.set s.arr ((arrOf w.heap s.arr).set i kv) } else w
  | .start name attrBufs links =>
    -- newRecordingSpan: the links (AddLink each), then SetAttributes(config.Attributes()...) — config.Attributes() is
    -- `append(nil, o...)` over the options: a copy, whose elements SetAttributes copies again (by value)
    let s0 : RSpan := { base := C04.init name }
    let r := links.foldl (fun (hs : Heap × RSpan) l => addLink im.lk lim hs.1 hs.2 l.1 (optBuf w l.2)) (w.heap, s0)
    let vals := attrBufs.flatMap fun b => read w.heap (bufOf w b)
    let s2 := { r.2 with base := C04.step lim r.2.base (.setAttrs vals) }
    { w with heap := r.1, spans := w.spans ++ [s2] }
  | .setAttrs i b =>
    match w.spans[i]? with
    | none => w
    | some s => setSpan w i w.heap { s with base := C04.step lim s.base (.setAttrs (read w.heap (bufOf w b))) }
  | .addEvent i name bufs =>
    match w.spans[i]? with
    | none => w
    | some s =>
      if s.base.ended then w
      else let r := addEvent im.ae lim w.heap s name (bufs.map (bufOf w)); setSpan w i r.1 r.2
  | .recordError i err bufs =>
    match w.spans[i]?, err with
    | none, _ => w
    | some _, none => w
    | some s, some (typ, msg) =>
      if s.base.ended then w
      else
        -- the variadic literal WithAttributes(exception.type, exception.message): a fresh array
        let h1 := w.heap ++ [[⟨excTypeKey, .str typ⟩, ⟨excMsgKey, .str msg⟩]]
        let opts := bufs.map (bufOf w) ++ [⟨w.heap.length, 2, 2⟩]
        let h2 := (newEventConfig im.ae h1 opts).1          -- `c := trace.NewEventConfig(opts...)` for c.StackTrace()
        let r := addEvent im.ae lim h2 s excName opts
        setSpan w i r.1 r.2
  | .addLink i sc b =>
    match w.spans[i]? with
    | none => w
    | some s => let r := addLink im.lk lim w.heap s sc (optBuf w b); setSpan w i r.1 r.2
  | .plain i op =>
    match w.spans[i]? with
    | none => w
    | some s => if isPlain op then setSpan w i w.heap { s with base := C04.step lim s.base op } else w
  | .end_ i =>
    match w.spans[i]? with
    | none => w
    | some s =>
      if s.base.ended then w
      else
        let s' := { s with base := C04.step lim s.base .end_ }
        { setSpan w i w.heap s' with exported := w.exported ++ [(i, s')] }

def run (im : Impl) (lim : Limits) (w : World) (ops : List AOp) : World := ops.foldl (step im lim) w

inductive Reachable (lim : Limits) : World → Prop where
  | init : Reachable lim {}
  | step {w : World} (op : AOp) : Reachable lim w → Reachable lim (step cur lim w op)

/-! ### Value semantics: the specification ("argument values are copied at the call")

Buffers are plain value lists; a call reads them when it is made; nothing else connects a span to a buffer. -/
structure VWorld where
  bufs : List (List KV × Nat) := []      -- cells (length = capacity), current length
  spans : List C04.St := []
  exported : List (Nat × Snap) := []
deriving Repr

def vbuf (w : VWorld) (b : Nat) : List KV := match w.bufs[b]? with
  | none => []
  | some (cells, n) => cells.take n

/-- the C04 operation an API call amounts to, its slice arguments resolved to their values AT THE CALL -/
def vstep (lim : Limits) (w : VWorld) : AOp → VWorld
  | .mk kvs spare => { w with bufs := w.bufs ++ [(kvs ++ List.replicate spare ⟨[], .invalid⟩, kvs.length)] }
  | .wr b i kv =>
    match w.bufs[b]? with
    | none => w
    | some (cells, n) => if i < cells.length then { w with bufs := w.bufs.set b (cells.set i kv, n) } else w
  | .start name attrBufs links =>
    let ops := links.map (fun l => Op.addLink l.1 (match l.2 with | none => [] | some b => vbuf w b)) ++
               [Op.setAttrs (attrBufs.flatMap (vbuf w))]
    { w with spans := w.spans ++ [C04.run lim (C04.init name) ops] }
  | .setAttrs i b => { w with spans := w.spans.modify i fun s => C04.step lim s (.setAttrs (vbuf w b)) }
  | .addEvent i name bufs =>
    { w with spans := w.spans.modify i fun s => C04.step lim s (.addEvent name (bufs.flatMap (vbuf w))) }
  | .recordError i err bufs =>
    { w with spans := w.spans.modify i fun s => C04.step lim s (.recordError err (bufs.flatMap (vbuf w))) }
  | .addLink i sc b =>
    { w with spans := w.spans.modify i fun s =>
        C04.step lim s (.addLink sc (match b with | none => [] | some b => vbuf w b)) }
  | .plain i op => if isPlain op then { w with spans := w.spans.modify i fun s => C04.step lim s op } else w
  | .end_ i =>
    match w.spans[i]? with
    | none => w
    | some s =>
      if s.ended then w
      else { w with spans := w.spans.set i (C04.step lim s .end_),
                    exported := w.exported ++ [(i, C04.snapshot (C04.step lim s .end_))] }

def vrun (lim : Limits) (w : VWorld) (ops : List AOp) : VWorld := ops.foldl (vstep lim) w

end Otel.C10.Alias
