/-
C10 — the inductive invariant of the LTS of the code as it is now (`step`), for every reachable state, i.e. every
interleaving of any number of goroutines calling End, the mutators, child Start, the accessors and the provider methods.
-/
import Otel.C10.Model
namespace Otel.C10
open Otel Otel.C04

/-! ### facts about C04's sequential step used here -/

theorem c04_step_ended (lim : Limits) (s : C04.St) (op : Op) (he : s.ended = true) : C04.step lim s op = s := by
  cases op with
  | recordError err attrs => cases err <;> simp [C04.step, he]
  | _ => simp [C04.step, he]

theorem c04_mut_not_end (lim : Limits) (s : C04.St) (op : Op) (hop : op ≠ .end_) (he : s.ended = false) :
    (C04.step lim s op).ended = false := by
  cases op with
  | recordError err attrs =>
    cases err with
    | none => simp [C04.step, he]
    | some p => obtain ⟨a, b⟩ := p; simp [C04.step, he]
  | end_ => exact absurd rfl hop
  | setAttrs kvs => simp only [C04.step]; repeat' split
                    all_goals simp_all
  | addLink sc attrs => simp only [C04.step]; repeat' split
                        all_goals simp_all
  | _ => simp [C04.step, he]

theorem c04_end_ended (lim : Limits) (s : C04.St) : (C04.step lim s .end_).ended = true := by
  by_cases he : s.ended = true <;> simp [C04.step, he]

theorem c04_run_snoc (lim : Limits) (s : C04.St) (ops : List Op) (op : Op) :
    C04.run lim s (ops ++ [op]) = C04.step lim (C04.run lim s ops) op := by
  simp [C04.run, List.foldl_append]

/-! ### small list facts -/

theorem eq_singleton_of_mem {α : Type} {l : List α} {x : α} (h : x ∈ l) (hl : l.length ≤ 1) : l = [x] := by
  match l, h, hl with
  | [y], h, _ => simp at h; simp [h]
  | _ :: _ :: _, _, hl => simp at hl

theorem nil_of_length_zero {α : Type} {l : List α} (h : l.length = 0) : l = [] := List.eq_nil_of_length_eq_zero h

/-! ### the invariant -/

/-- number of End calls that have passed the recording check and marked the span ended -/
def active (s : St) : Nat :=
  s.tasking.length + s.loading.length + s.snapping.length + s.delivering.length + s.returned.length

/-- the mutator labels that took effect: all of them while recording, those before the end label afterwards -/
def effective (s : St) : List Op :=
  match s.cut with
  | none => s.hist
  | some k => s.hist.take k.1 ++ [.end_]

structure Inv (c : Cfg) (s : St) : Prop where
  /-- exactly one End call gets past the recording check, and only when the span is ended -/
  act : (s.data.ended = true ∧ active s = 1) ∨ (s.data.ended = false ∧ active s = 0)
  endT : s.endTime.isSome = s.data.ended
  cutE : s.cut.isSome = s.data.ended
  cutLe : ∀ k, s.cut = some k → k.1 ≤ s.hist.length
  dat : s.data = C04.run c.lim (C04.init c.name) (effective s)
  chil : s.children = (match s.cut with | none => s.childLabels | some k => k.2)
  pnd : s.procs.Nodup
  early : (s.tasking ≠ [] ∨ s.loading ≠ []) → s.delivered = [] ∧ s.loaded = none
  snp : ∀ x ∈ s.snapping, s.delivered = [] ∧ s.loaded = some x.2 ∧ x.2.Nodup
  dlv : ∀ x ∈ s.delivering, x.2.1 = mkSnapshot s ∧
          ∃ l, s.loaded = some l ∧ l.Nodup ∧ s.delivered.map (·.1) ++ x.2.2 = l
  ret : s.returned ≠ [] → ∃ l, s.loaded = some l ∧ l.Nodup ∧ s.delivered.map (·.1) = l
  same : ∀ d ∈ s.delivered, d.2 = mkSnapshot s
  notEnded : s.data.ended = false → s.delivered = [] ∧ s.loaded = none
  tasks : s.taskEnds ≤ s.loading.length + s.snapping.length + s.delivering.length + s.returned.length ∧
          (c.hasTask = false → s.taskEnds = 0)
  /-- an End call returns at the recording check only when the span is already ended -/
  earlyRet : s.returnedEarly ≠ [] → s.data.ended = true

theorem inv_init (c : Cfg) : Inv c (init c) := by
  constructor <;> simp [init, active, effective, C04.init, C04.run]

/-- when some End call is in one of the later phases, it is the only one -/
theorem Inv.alone {c : Cfg} {s : St} (h : Inv c s) (hpos : 1 ≤ active s) :
    s.data.ended = true ∧ active s = 1 := by
  rcases h.act with h1 | h1
  · exact h1
  · omega

theorem take_snoc_le {α : Type} (l : List α) (x : α) (n : Nat) (h : n ≤ l.length) : (l ++ [x]).take n = l.take n :=
  List.take_append_of_le_length h

/-- the shape of every reachable state in which the span is still recording -/
structure Idle (s : St) : Prop where
  t : s.tasking = []
  l : s.loading = []
  sn : s.snapping = []
  d : s.delivering = []
  r : s.returned = []
  cut : s.cut = none
  del : s.delivered = []
  ld : s.loaded = none
  et : s.endTime = none

theorem Inv.idle {c : Cfg} {s : St} (h : Inv c s) (he : s.data.ended = false) : Idle s := by
  have ha : active s = 0 := by
    rcases h.act with ⟨h1, _⟩ | ⟨_, h2⟩
    · rw [he] at h1; cases h1
    · exact h2
  unfold active at ha
  have hc := h.cutE; rw [he] at hc
  have ht := h.endT; rw [he] at ht
  have hn := h.notEnded he
  exact ⟨nil_of_length_zero (by omega), nil_of_length_zero (by omega), nil_of_length_zero (by omega),
    nil_of_length_zero (by omega), nil_of_length_zero (by omega), by simpa using hc, hn.1, hn.2, by simpa using ht⟩

theorem Inv.of_tasking {c : Cfg} {s : St} {e : Nat} (h : Inv c s) (hm : e ∈ s.tasking) :
    s.data.ended = true ∧ s.tasking = [e] ∧ s.loading = [] ∧ s.snapping = [] ∧ s.delivering = [] ∧ s.returned = [] := by
  have hp : 1 ≤ s.tasking.length := List.length_pos_of_mem hm
  obtain ⟨he, ha⟩ := h.alone (by unfold active; omega)
  unfold active at ha
  exact ⟨he, eq_singleton_of_mem hm (by omega), nil_of_length_zero (by omega), nil_of_length_zero (by omega),
    nil_of_length_zero (by omega), nil_of_length_zero (by omega)⟩

theorem Inv.of_loading {c : Cfg} {s : St} {e : Nat} (h : Inv c s) (hm : e ∈ s.loading) :
    s.data.ended = true ∧ s.tasking = [] ∧ s.loading = [e] ∧ s.snapping = [] ∧ s.delivering = [] ∧ s.returned = [] := by
  have hp : 1 ≤ s.loading.length := List.length_pos_of_mem hm
  obtain ⟨he, ha⟩ := h.alone (by unfold active; omega)
  unfold active at ha
  exact ⟨he, nil_of_length_zero (by omega), eq_singleton_of_mem hm (by omega), nil_of_length_zero (by omega),
    nil_of_length_zero (by omega), nil_of_length_zero (by omega)⟩

theorem Inv.of_snapping {c : Cfg} {s : St} {x : Nat × List Nat} (h : Inv c s) (hm : x ∈ s.snapping) :
    s.data.ended = true ∧ s.tasking = [] ∧ s.loading = [] ∧ s.snapping = [x] ∧ s.delivering = [] ∧ s.returned = [] := by
  have hp : 1 ≤ s.snapping.length := List.length_pos_of_mem hm
  obtain ⟨he, ha⟩ := h.alone (by unfold active; omega)
  unfold active at ha
  exact ⟨he, nil_of_length_zero (by omega), nil_of_length_zero (by omega), eq_singleton_of_mem hm (by omega),
    nil_of_length_zero (by omega), nil_of_length_zero (by omega)⟩

theorem Inv.of_delivering {c : Cfg} {s : St} {x : Nat × Snapshot × List Nat} (h : Inv c s) (hm : x ∈ s.delivering) :
    s.data.ended = true ∧ s.tasking = [] ∧ s.loading = [] ∧ s.snapping = [] ∧ s.delivering = [x] ∧ s.returned = [] := by
  have hp : 1 ≤ s.delivering.length := List.length_pos_of_mem hm
  obtain ⟨he, ha⟩ := h.alone (by unfold active; omega)
  unfold active at ha
  exact ⟨he, nil_of_length_zero (by omega), nil_of_length_zero (by omega), nil_of_length_zero (by omega),
    eq_singleton_of_mem hm (by omega), nil_of_length_zero (by omega)⟩

theorem inv_step_mut (c : Cfg) (s s' : St) (op : Op) (h : Inv c s) (hs : step c s (.mut op) = some s') : Inv c s' := by
  simp only [step] at hs
  split at hs
  · simp at hs
  · rename_i hop
    simp at hs; subst hs
    rcases h.act with ⟨he, ha⟩ | ⟨he, ha⟩
    · -- ended: the mutator changes nothing
      have hd := c04_step_ended c.lim s.data op he
      obtain ⟨k, hk⟩ : ∃ k, s.cut = some k := by
        have := h.cutE; rw [he] at this; exact Option.isSome_iff_exists.mp this
      have hle := h.cutLe k hk
      exact {
        act := by simp only [hd]; exact Or.inl ⟨he, ha⟩
        endT := by simp only [hd]; exact h.endT
        cutE := by simp only [hd]; exact h.cutE
        cutLe := by intro k' hk'; have := h.cutLe k' hk'; simp; omega
        dat := by
          simp only [hd]
          have := h.dat
          simp only [effective, hk] at this ⊢
          rw [take_snoc_le _ _ _ hle]; exact this
        chil := h.chil
        pnd := h.pnd
        early := h.early
        snp := h.snp
        dlv := by simpa [mkSnapshot, hd] using h.dlv
        ret := h.ret
        same := by simpa [mkSnapshot, hd] using h.same
        notEnded := by simp only [hd]; exact h.notEnded
        tasks := h.tasks
        earlyRet := by simp only [hd]; exact h.earlyRet }
    · have hi := h.idle he
      have hne := c04_mut_not_end c.lim s.data op hop he
      exact {
        act := Or.inr ⟨hne, ha⟩
        endT := by simp [hne, hi.et]
        cutE := by simp [hne, hi.cut]
        cutLe := by simp [hi.cut]
        dat := by
          have := h.dat
          simp only [effective, hi.cut] at this ⊢
          rw [c04_run_snoc, ← this]
        chil := h.chil
        pnd := h.pnd
        early := by simp [hi.t, hi.l]
        snp := by simp [hi.sn]
        dlv := by simp [hi.d]
        ret := by simp [hi.r]
        same := by simp [hi.del]
        notEnded := by simp [hi.del, hi.ld]
        tasks := h.tasks
        earlyRet := by
          intro hr
          have := h.earlyRet hr
          rw [he] at this; cases this }

theorem inv_step_addChild (c : Cfg) (s s' : St) (d : Decision) (h : Inv c s) (hs : step c s (.addChild d) = some s') : Inv c s' := by
  simp only [step] at hs
  simp at hs; subst hs
  rcases h.act with ⟨he, ha⟩ | ⟨he, ha⟩
  · obtain ⟨k, hk⟩ : ∃ k, s.cut = some k := by
      have := h.cutE; rw [he] at this; exact Option.isSome_iff_exists.mp this
    exact {
      act := Or.inl ⟨he, ha⟩, endT := h.endT, cutE := h.cutE, cutLe := h.cutLe, dat := h.dat
      chil := by have := h.chil; simp only [hk] at this ⊢; simp [he, this]
      pnd := h.pnd, early := h.early, snp := h.snp
      dlv := by simpa [mkSnapshot, he] using h.dlv
      ret := h.ret
      same := by simpa [mkSnapshot, he] using h.same
      notEnded := h.notEnded, tasks := h.tasks, earlyRet := h.earlyRet }
  · have hi := h.idle he
    exact {
      act := Or.inr ⟨he, ha⟩, endT := h.endT, cutE := h.cutE, cutLe := h.cutLe, dat := h.dat
      chil := by have := h.chil; simp only [hi.cut] at this ⊢; simp [he, this]
      pnd := h.pnd, early := h.early, snp := h.snp
      dlv := by simp [hi.d]
      ret := h.ret
      same := by simp [hi.del]
      notEnded := h.notEnded, tasks := h.tasks, earlyRet := h.earlyRet }

theorem inv_step_endLock (c : Cfg) (s s' : St) (e t : Nat) (h : Inv c s) (hs : step c s (.endLock e t) = some s') :
    Inv c s' := by
  simp only [step] at hs
  split at hs
  · split at hs
    · rename_i hen
      simp at hs; subst hs
      exact ⟨h.act, h.endT, h.cutE, h.cutLe, h.dat, h.chil, h.pnd, h.early, h.snp, h.dlv, h.ret, h.same,
        h.notEnded, h.tasks, fun _ => hen⟩
    · rename_i he
      have he : s.data.ended = false := by simpa using he
      simp at hs; subst hs
      have hi := h.idle he
      have hee := c04_end_ended c.lim s.data
      exact {
        act := Or.inl ⟨hee, by simp [active, hi.t, hi.l, hi.sn, hi.d, hi.r]⟩
        endT := by simp [hee]
        cutE := by simp [hee]
        cutLe := by simp
        dat := by
          have := h.dat
          simp only [effective, hi.cut] at this ⊢
          rw [List.take_length, c04_run_snoc, ← this]
        chil := by have := h.chil; simp only [hi.cut] at this; simpa using this
        pnd := h.pnd
        early := by simp [hi.del, hi.ld]
        snp := by simp [hi.sn]
        dlv := by simp [hi.d]
        ret := by simp [hi.r]
        same := by simp [hi.del]
        notEnded := by simp [hee]
        tasks := by have := h.tasks; simp [hi.l, hi.sn, hi.d, hi.r] at this ⊢; exact this
        earlyRet := fun _ => hee }
  · simp at hs

theorem inv_step_endLockPanic (c : Cfg) (s s' : St) (e t : Nat) (typ msg : Bytes) (h : Inv c s)
    (hs : step c s (.endLockPanic e t typ msg) = some s') : Inv c s' := by
  simp only [step] at hs
  split at hs
  · split at hs
    · rename_i hen
      simp at hs; subst hs
      obtain ⟨k, hk⟩ : ∃ k, s.cut = some k := by
        have := h.cutE; rw [hen] at this; exact Option.isSome_iff_exists.mp this
      have hle := h.cutLe k hk
      exact {
        act := h.act, endT := h.endT, cutE := h.cutE
        cutLe := by intro k' hk'; have := h.cutLe k' hk'; simp; omega
        dat := by
          have := h.dat
          simp only [effective, hk] at this ⊢
          rw [take_snoc_le _ _ _ hle]; exact this
        chil := h.chil, pnd := h.pnd, early := h.early, snp := h.snp
        dlv := by simpa [mkSnapshot] using h.dlv
        ret := h.ret
        same := by simpa [mkSnapshot] using h.same
        notEnded := h.notEnded, tasks := h.tasks
        earlyRet := fun _ => hen }
    · rename_i he
      have he : s.data.ended = false := by simpa using he
      simp at hs; subst hs
      have hi := h.idle he
      have hee := c04_end_ended c.lim (C04.step c.lim s.data (.recordError (some (typ, msg)) []))
      exact {
        act := Or.inl ⟨hee, by simp [active, hi.t, hi.l, hi.sn, hi.d, hi.r]⟩
        endT := by simp [hee]
        cutE := by simp [hee]
        cutLe := by simp
        dat := by
          have := h.dat
          simp only [effective, hi.cut] at this ⊢
          have hl : (s.hist ++ [Op.recordError (some (typ, msg)) []]).length = s.hist.length + 1 := by simp
          rw [← hl, List.take_length, c04_run_snoc, c04_run_snoc, ← this]
        chil := by have := h.chil; simp only [hi.cut] at this; simpa using this
        pnd := h.pnd
        early := by simp [hi.del, hi.ld]
        snp := by simp [hi.sn]
        dlv := by simp [hi.d]
        ret := by simp [hi.r]
        same := by simp [hi.del]
        notEnded := by simp [hee]
        tasks := by have := h.tasks; simp [hi.l, hi.sn, hi.d, hi.r] at this ⊢; exact this
        earlyRet := fun _ => hee }
  · simp at hs

theorem inv_step_taskEnd (c : Cfg) (s s' : St) (e : Nat) (h : Inv c s) (hs : step c s (.taskEnd e) = some s') :
    Inv c s' := by
  simp only [step] at hs
  split at hs
  · rename_i hm
    obtain ⟨he, h1, h2, h3, h4, h5⟩ := h.of_tasking hm
    have hea := h.early (Or.inl (by simp [h1]))
    simp at hs; subst hs
    exact {
      act := Or.inl ⟨he, by simp [active, h1, h2, h3, h4, h5]⟩
      endT := h.endT, cutE := h.cutE, cutLe := h.cutLe, dat := h.dat, chil := h.chil, pnd := h.pnd
      early := by intro _; exact hea
      snp := by simp [h3]
      dlv := by simp [h4]
      ret := by simp [h5]
      same := by simpa [mkSnapshot] using h.same
      notEnded := h.notEnded
      tasks := by
        have := h.tasks
        simp [h2, h3, h4, h5] at this ⊢
        refine ⟨by split <;> omega, ?_⟩
        intro hf; simp [hf, this.1]
      earlyRet := fun _ => he }
  · simp at hs

theorem inv_step_loadProcs (c : Cfg) (s s' : St) (e : Nat) (h : Inv c s) (hs : step c s (.loadProcs e) = some s') :
    Inv c s' := by
  simp only [step] at hs
  split at hs
  · rename_i hm
    obtain ⟨he, h1, h2, h3, h4, h5⟩ := h.of_loading hm
    have hea := h.early (Or.inr (by simp [h2]))
    split at hs
    · simp at hs; subst hs
      exact {
        act := Or.inl ⟨he, by simp [active, h1, h2, h3, h4, h5]⟩
        endT := h.endT, cutE := h.cutE, cutLe := h.cutLe, dat := h.dat, chil := h.chil, pnd := h.pnd
        early := by simp [h1, h2]
        snp := by simp [h3]
        dlv := by simp [h4]
        ret := by intro _; exact ⟨[], rfl, List.nodup_nil, by simp [hea.1]⟩
        same := by simpa [mkSnapshot] using h.same
        notEnded := by simp [he]
        tasks := by have := h.tasks; simp [h2, h3, h4, h5] at this ⊢; exact ⟨by omega, this.2⟩
        earlyRet := fun _ => he }
    · simp at hs; subst hs
      exact {
        act := Or.inl ⟨he, by simp [active, h1, h2, h3, h4, h5]⟩
        endT := h.endT, cutE := h.cutE, cutLe := h.cutLe, dat := h.dat, chil := h.chil, pnd := h.pnd
        early := by simp [h1, h2]
        snp := by simp [h3, hea.1]; exact h.pnd
        dlv := by simp [h4]
        ret := by simp [h5]
        same := by simpa [mkSnapshot] using h.same
        notEnded := by simp [he]
        tasks := by have := h.tasks; simp [h2, h3, h4, h5] at this ⊢; exact ⟨by omega, this.2⟩
        earlyRet := fun _ => he }
  · simp at hs

theorem inv_step_snapshot (c : Cfg) (s s' : St) (e : Nat) (ps : List Nat) (h : Inv c s)
    (hs : step c s (.snapshot e ps) = some s') : Inv c s' := by
  simp only [step] at hs
  split at hs
  · rename_i hm
    obtain ⟨he, h1, h2, h3, h4, h5⟩ := h.of_snapping hm
    obtain ⟨hd, hl, hn⟩ := h.snp _ hm
    simp at hs; subst hs
    exact {
      act := Or.inl ⟨he, by simp [active, h1, h2, h3, h4, h5]⟩
      endT := h.endT, cutE := h.cutE, cutLe := h.cutLe, dat := h.dat, chil := h.chil, pnd := h.pnd
      early := by simp [h1, h2]
      snp := by simp [h3]
      dlv := by simp [h4, mkSnapshot, hd]; exact ⟨hl, hn⟩
      ret := by simp [h5]
      same := by simpa [mkSnapshot] using h.same
      notEnded := by simp [he]
      tasks := by have := h.tasks; simp [h2, h3, h4, h5] at this ⊢; exact ⟨by omega, this.2⟩
      earlyRet := fun _ => he }
  · simp at hs

theorem inv_step_onEnd (c : Cfg) (s s' : St) (e : Nat) (sn : Snapshot) (p : Nat) (rest : List Nat) (h : Inv c s)
    (hs : step c s (.onEnd e sn p rest) = some s') : Inv c s' := by
  simp only [step] at hs
  split at hs
  · rename_i hm
    obtain ⟨he, h1, h2, h3, h4, h5⟩ := h.of_delivering hm
    obtain ⟨hsn, l, hl, hn, hcat⟩ := h.dlv _ hm
    simp at hs; subst hs
    exact {
      act := Or.inl ⟨he, by simp [active, h1, h2, h3, h4, h5]⟩
      endT := h.endT, cutE := h.cutE, cutLe := h.cutLe, dat := h.dat, chil := h.chil, pnd := h.pnd
      early := by simp [h1, h2]
      snp := by simp [h3]
      dlv := by
        intro x hx
        simp [h4] at hx
        subst hx
        exact ⟨by simpa [mkSnapshot] using hsn, l, hl, hn, by simpa using hcat⟩
      ret := by simp [h5]
      same := by
        intro d hd
        simp at hd
        rcases hd with hd | hd
        · simpa [mkSnapshot] using h.same d hd
        · subst hd; simpa [mkSnapshot] using hsn
      notEnded := by simp [he]
      tasks := by have := h.tasks; simp [h2, h3, h4, h5] at this ⊢; exact this
      earlyRet := fun _ => he }
  · simp at hs

theorem inv_step_endReturn (c : Cfg) (s s' : St) (e : Nat) (sn : Snapshot) (h : Inv c s)
    (hs : step c s (.endReturn e sn) = some s') : Inv c s' := by
  simp only [step] at hs
  split at hs
  · rename_i hm
    obtain ⟨he, h1, h2, h3, h4, h5⟩ := h.of_delivering hm
    obtain ⟨hsn, l, hl, hn, hcat⟩ := h.dlv _ hm
    simp at hs; subst hs
    exact {
      act := Or.inl ⟨he, by simp [active, h1, h2, h3, h4, h5]⟩
      endT := h.endT, cutE := h.cutE, cutLe := h.cutLe, dat := h.dat, chil := h.chil, pnd := h.pnd
      early := by simp [h1, h2]
      snp := by simp [h3]
      dlv := by simp [h4]
      ret := by intro _; exact ⟨l, hl, hn, by simpa using hcat⟩
      same := by simpa [mkSnapshot] using h.same
      notEnded := by simp [he]
      tasks := by have := h.tasks; simp [h2, h3, h4, h5] at this ⊢; exact ⟨by omega, this.2⟩
      earlyRet := fun _ => he }
  · simp at hs

/-- the invariant is preserved by every label -/
theorem inv_step (c : Cfg) (s s' : St) (l : Lbl) (h : Inv c s) (hs : step c s l = some s') : Inv c s' := by
  cases l with
  | «mut» op => exact inv_step_mut c s s' op h hs
  | addChild d => exact inv_step_addChild c s s' d h hs
  | access => simp only [step] at hs; simp at hs; subst hs; exact h
  | register p =>
    simp only [step] at hs
    split at hs
    · simp at hs
    · rename_i hp
      simp at hs; subst hs
      exact ⟨h.act, h.endT, h.cutE, h.cutLe, h.dat, h.chil,
        by simpa [List.nodup_append] using ⟨h.pnd, fun a ha hap => hp (hap ▸ ha)⟩,
        h.early, h.snp, h.dlv, h.ret, h.same, h.notEnded, h.tasks, h.earlyRet⟩
  | unregister p =>
    simp only [step] at hs
    simp at hs; subst hs
    exact ⟨h.act, h.endT, h.cutE, h.cutLe, h.dat, h.chil, h.pnd.erase p,
      h.early, h.snp, h.dlv, h.ret, h.same, h.notEnded, h.tasks, h.earlyRet⟩
  | endCall e t =>
    simp only [step] at hs
    split at hs
    · simp at hs
    · simp at hs; subst hs
      exact ⟨h.act, h.endT, h.cutE, h.cutLe, h.dat, h.chil, h.pnd, h.early, h.snp, h.dlv, h.ret, h.same,
        h.notEnded, h.tasks, h.earlyRet⟩
  | endLock e t => exact inv_step_endLock c s s' e t h hs
  | endLockPanic e t typ msg => exact inv_step_endLockPanic c s s' e t typ msg h hs
  | taskEnd e => exact inv_step_taskEnd c s s' e h hs
  | loadProcs e => exact inv_step_loadProcs c s s' e h hs
  | snapshot e ps => exact inv_step_snapshot c s s' e ps h hs
  | onEnd e sn p rest => exact inv_step_onEnd c s s' e sn p rest h hs
  | endReturn e sn => exact inv_step_endReturn c s s' e sn h hs
  | oTaskEnd e t => simp [step] at hs
  | oRelock e t => simp [step] at hs

theorem inv_reachable (c : Cfg) (s : St) (h : Reachable c s) : Inv c s := by
  induction h with
  | init => exact inv_init c
  | step l _ hs ih => exact inv_step c _ _ l ih hs

end Otel.C10
