/-
C10 — "the exported snapshot never changes afterwards", against later API calls that share ARGUMENT MEMORY with earlier
ones (Alias.lean: explicit heap of arrays, Go slices with spare capacity, Go's append; several spans; the caller keeps
and overwrites its slices). For the code as it is (`applyEvent` copies): every reachable world, every later operation of
any span or of the caller.
-/
import Otel.C10.AliasLemmas
namespace Otel.C10.Alias
open Otel Otel.C04

variable {lim : Limits}

private theorem view_events_congr (h h' : Heap) (s : RSpan)
    (he : ∀ e ∈ s.events.queue, read h' e.attrs = read h e.attrs) : (view h' s).events = (view h s).events := by
  simp only [view]
  congr 1
  apply List.map_congr_left
  intro e hm
  simp [derefE, he e hm]

private theorem view_links_congr (h h' : Heap) (s : RSpan)
    (hl : ∀ l ∈ s.links.queue, read h' l.attrs = read h l.attrs) : (view h' s).links = (view h s).links := by
  simp only [view]
  congr 1
  apply List.map_congr_left
  intro l hm
  simp [derefL, hl l hm]

private theorem view_base (h : Heap) (s : RSpan) :
    (view h s).name = s.base.name ∧ (view h s).status = s.base.status ∧ (view h s).attrs = s.base.attrs ∧
    (view h s).droppedAttrs = s.base.droppedAttrs ∧ (view h s).ended = s.base.ended := by
  simp [view]

/-- how an operation changes the heap: the SDK only ALLOCATES (no write to an existing array — in particular none into
the spare capacity of a caller's slice); the only write to an existing array is the caller's own `wr`, into an array
one of its buffers points to -/
theorem sdk_only_allocates (w : World) (hi : Inv w) (op : AOp) :
    (∃ xs, (step cur lim w op).heap = w.heap ++ xs) ∨
    (∃ b i kv, op = .wr b i kv ∧ ∃ sl ∈ w.bufs, ∃ v, (step cur lim w op).heap = w.heap.set sl.arr v) := by
  cases op with
  | mk kvs spare => exact Or.inl ⟨_, rfl⟩
  | wr b i kv =>
    simp only [step]
    split
    · exact Or.inl ⟨[], by simp⟩
    · rename_i sl hs
      split
      · exact Or.inr ⟨b, i, kv, rfl, sl, List.mem_of_getElem? hs, _, rfl⟩
      · exact Or.inl ⟨[], by simp⟩
  | start name attrBufs links =>
    obtain ⟨⟨xs, hxs⟩, _⟩ := startLinks_ok lim w hi links (w.heap, { base := C04.init name }) [] (by simp) ⟨by simp, by simp⟩
    exact Or.inl ⟨xs, by simpa [step] using hxs⟩
  | setAttrs i b => refine Or.inl ⟨[], ?_⟩; simp only [step]; split <;> simp [setSpan]
  | addEvent i name bufs =>
    simp only [step, cur_ae]
    split
    · exact Or.inl ⟨[], by simp⟩
    · rename_i s hs
      split
      · exact Or.inl ⟨[], by simp⟩
      · have ho : ∀ o ∈ bufs.map (bufOf w), readable w.heap o := by
          intro o hom
          obtain ⟨b, _, rfl⟩ := List.mem_map.mp hom
          exact bufOf_readable w hi b
        obtain ⟨⟨xs, hxs⟩, _⟩ := addEvent_ok lim w.heap w.bufs s name _ ho hi.bufs (hi.spans s (List.mem_of_getElem? hs))
        exact Or.inl ⟨xs, by simpa [setSpan] using hxs⟩
  | recordError i err bufs =>
    simp only [step, cur_ae]
    split
    · exact Or.inl ⟨[], by simp⟩
    · exact Or.inl ⟨[], by simp⟩
    · rename_i s typ msg hs
      split
      · exact Or.inl ⟨[], by simp⟩
      · let exc : List KV := [⟨excTypeKey, .str typ⟩, ⟨excMsgKey, .str msg⟩]
        let h1 := w.heap ++ [exc]
        let opts := bufs.map (bufOf w) ++ [(⟨w.heap.length, 2, 2⟩ : Slice)]
        have ho1 : ∀ o ∈ opts, readable h1 o := by
          intro o hom
          rcases List.mem_append.mp hom with hom | hom
          · obtain ⟨b, _, rfl⟩ := List.mem_map.mp hom
            exact readable_append _ _ _ (bufOf_readable w hi b)
          · simp only [List.mem_singleton] at hom; subst hom; exact Or.inr (by simp [h1])
        obtain ⟨xs, hxs⟩ := (newEventConfig_copies h1 opts ho1).ext
        have ho2 : ∀ o ∈ opts, readable (h1 ++ xs) o := fun o hom => readable_append _ _ _ (ho1 o hom)
        have hb2 : ∀ b ∈ w.bufs, b.arr < (h1 ++ xs).length := by
          intro b hb; have := hi.bufs b hb; simp [h1]; omega
        have hk2 : SpanOK (h1 ++ xs) w.bufs s :=
          spanOK_append _ _ _ _ (spanOK_append _ _ _ _ (hi.spans s (List.mem_of_getElem? hs)))
        obtain ⟨⟨ys, hys⟩, _⟩ := addEvent_ok lim (h1 ++ xs) w.bufs s excName opts ho2 hb2 hk2
        refine Or.inl ⟨[exc] ++ xs ++ ys, ?_⟩
        simp only [setSpan]
        rw [hxs, hys]
        simp [h1, List.append_assoc]
  | addLink i sc b =>
    simp only [step, cur_lk]
    split
    · exact Or.inl ⟨[], by simp⟩
    · rename_i s hs
      obtain ⟨⟨xs, hxs⟩, _⟩ := addLink_ok lim w.heap w.bufs s sc (optBuf w b) hi.bufs (hi.spans s (List.mem_of_getElem? hs))
      exact Or.inl ⟨xs, by simpa [setSpan] using hxs⟩
  | plain i op =>
    refine Or.inl ⟨[], ?_⟩; simp only [step]; split
    · simp
    · split <;> simp [setSpan]
  | end_ i =>
    refine Or.inl ⟨[], ?_⟩; simp only [step]; split
    · simp
    · split <;> simp [setSpan]

private theorem owned_read_stable (w : World) (hi : Inv w) (op : AOp) (sl : Slice) (hk : evOK w.heap w.bufs sl) :
    read (step cur lim w op).heap sl = read w.heap sl := by
  rcases sdk_only_allocates (lim := lim) w hi op with ⟨xs, hx⟩ | ⟨_, _, _, _, b, hb, v, hx⟩
  · rw [hx]; exact read_append _ _ _ (evOK_readable _ _ _ hk)
  · rw [hx]
    rcases hk with h0 | ⟨_, h2⟩
    · exact read_set_ne _ _ _ _ (Or.inl h0)
    · exact read_set_ne _ _ _ _ (Or.inr (Ne.symm (h2 b hb)))

private theorem events_read_stable (w : World) (hi : Inv w) (op : AOp) (s : RSpan) (hk : SpanOK w.heap w.bufs s) :
    ∀ e ∈ s.events.queue, read (step cur lim w op).heap e.attrs = read w.heap e.attrs := by
  intro e he
  rcases sdk_only_allocates (lim := lim) w hi op with ⟨xs, hx⟩ | ⟨_, _, _, _, sl, hsl, v, hx⟩
  · rw [hx]
    rcases hk.ev e he with h0 | ⟨h1, _⟩
    · exact read_append _ _ _ (Or.inl h0)
    · exact read_append _ _ _ (Or.inr h1)
  · rw [hx]
    rcases hk.ev e he with h0 | ⟨_, h2⟩
    · exact read_set_ne _ _ _ _ (Or.inl h0)
    · exact read_set_ne _ _ _ _ (Or.inr (Ne.symm (h2 sl hsl)))

/-- the OnEnd log only grows -/
theorem exported_log_grows (w : World) (op : AOp) (im : Impl) : w.exported <+: (step im lim w op).exported := by
  cases op <;> simp only [step]
  case wr => split; exact List.prefix_refl _; split <;> exact List.prefix_refl _
  case mk => exact List.prefix_refl _
  case start => exact List.prefix_refl _
  case setAttrs => split <;> exact List.prefix_refl _
  case addEvent => split; exact List.prefix_refl _; split <;> exact List.prefix_refl _
  case recordError => split; exact List.prefix_refl _; exact List.prefix_refl _; split <;> exact List.prefix_refl _
  case addLink => split <;> exact List.prefix_refl _
  case plain => split; exact List.prefix_refl _; split <;> exact List.prefix_refl _
  case end_ =>
    split; exact List.prefix_refl _
    split; exact List.prefix_refl _
    exact List.prefix_append _ _

/-- **The exported snapshot never changes afterwards — under ANY later operation of ANY span and of the caller.**
In every reachable world, for every snapshot `e` exported so far and every next operation `op` — an API call on this or
another span whose attribute slices share memory (spare capacity included) with earlier calls, a Start, an End, or the
caller overwriting any cell of any of its slices — what a reader of `e` sees is unchanged in name, status, attributes,
dropped counts, in EVERY EVENT and in EVERY LINK (names / span contexts, attribute values, drop counts): `applyEvent` and
(since fix 48fa451, finding F44) AddLink's `slices.Clone` copied the argument values at the call. So the whole snapshot is
unchanged (last-but-one conjunct), without exception. The log itself only grows. -/
theorem exported_snapshot_stable (w : World) (hr : Reachable lim w) (op : AOp) (e : Nat × RSpan) (he : e ∈ w.exported) :
    let h' := (step cur lim w op).heap
    (snapView h' e.2).events = (snapView w.heap e.2).events ∧
    (snapView h' e.2).droppedEvents = (snapView w.heap e.2).droppedEvents ∧
    (snapView h' e.2).name = (snapView w.heap e.2).name ∧
    (snapView h' e.2).status = (snapView w.heap e.2).status ∧
    (snapView h' e.2).attrs = (snapView w.heap e.2).attrs ∧
    (snapView h' e.2).droppedAttrs = (snapView w.heap e.2).droppedAttrs ∧
    (snapView h' e.2).links = (snapView w.heap e.2).links ∧
    snapView h' e.2 = snapView w.heap e.2 ∧
    w.exported <+: (step cur lim w op).exported := by
  have hi := inv_reachable lim w hr
  have hk := hi.exported e he
  have hev := view_events_congr w.heap (step cur lim w op).heap e.2 (events_read_stable w hi op e.2 hk)
  have hl : (view (step cur lim w op).heap e.2).links = (view w.heap e.2).links :=
    view_links_congr _ _ _ fun l hl => owned_read_stable w hi op _ (hk.ln l hl)
  refine ⟨?_, ?_, ?_, ?_, ?_, ?_, ?_, ?_, exported_log_grows w op _⟩
  · simp only [snapView, C04.snapshot]; rw [hev]
  · simp only [snapView, C04.snapshot]; rw [hev]
  · simp [snapView, C04.snapshot, view]
  · simp [snapView, C04.snapshot, view]
  · simp [snapView, C04.snapshot, view]
  · simp [snapView, C04.snapshot, view]
  · simp only [snapView, C04.snapshot]; rw [hl]
  · simp only [snapView, C04.snapshot]
    rw [hev, hl]
    simp [view]

/-- every script leads to a reachable world -/
theorem run_reachable (w : World) (hr : Reachable lim w) (ops : List AOp) : Reachable lim (run cur lim w ops) := by
  induction ops generalizing w with
  | nil => exact hr
  | cons op rest ih => exact ih _ (Reachable.step op hr)

/-- **argument values are copied at the call** (AddEvent, any number of WithAttributes options sharing any caller
slices): the span a reader sees after the call is C04's sequential step applied to what a reader saw before, with the
option slices resolved to the values they held AT THE CALL -/
theorem call_copies_arguments (w : World) (hr : Reachable lim w) (i : Nat) (name : Bytes) (bufs : List Nat) (s : RSpan)
    (hs : w.spans[i]? = some s) :
    ∃ s', (step cur lim w (.addEvent i name bufs)).spans[i]? = some s' ∧
      view (step cur lim w (.addEvent i name bufs)).heap s' =
        C04.step lim (view w.heap s) (.addEvent name (bufs.flatMap fun b => read w.heap (bufOf w b))) := by
  have hi := inv_reachable lim w hr
  have hk := hi.spans s (List.mem_of_getElem? hs)
  have hlt : i < w.spans.length := by
    rcases Nat.lt_or_ge i w.spans.length with h | h
    · exact h
    · rw [List.getElem?_eq_none h] at hs; cases hs
  simp only [step, hs, cur_ae]
  by_cases hend : s.base.ended = true
  · simp only [hend, if_true]
    refine ⟨s, hs, ?_⟩
    simp [C04.step, view, hend]
  · simp only [hend, if_false, Bool.false_eq_true]
    have ho : ∀ o ∈ bufs.map (bufOf w), readable w.heap o := by
      intro o hom
      obtain ⟨b, _, rfl⟩ := List.mem_map.mp hom
      exact bufOf_readable w hi b
    have hc := newEventConfig_copies w.heap (bufs.map (bufOf w)) ho
    obtain ⟨xs, hxs⟩ := hc.ext
    refine ⟨(addEvent applyEvent lim w.heap s name (bufs.map (bufOf w))).2, by simp [setSpan, hlt], ?_⟩
    have hval : (bufs.map (bufOf w)).flatMap (read w.heap) = bufs.flatMap fun b => read w.heap (bufOf w b) := by
      simp [List.flatMap_map]
    have hcap := capSlice_read (newEventConfig applyEvent w.heap (bufs.map (bufOf w))).1 lim.perEvent
      (newEventConfig applyEvent w.heap (bufs.map (bufOf w))).2 (by rw [hc.val]; exact hc.vlen)
    rw [hc.val, hval] at hcap
    have hE : ∀ e ∈ s.events.queue, derefE (newEventConfig applyEvent w.heap (bufs.map (bufOf w))).1 e = derefE w.heap e := by
      intro e he
      simp only [derefE]
      rw [hxs]
      rcases hk.ev e he with h0 | ⟨h1, _⟩
      · rw [read_append _ _ _ (Or.inl h0)]
      · rw [read_append _ _ _ (Or.inr h1)]
    have hL : ∀ l ∈ s.links.queue, derefL (newEventConfig applyEvent w.heap (bufs.map (bufOf w))).1 l = derefL w.heap l := by
      intro l hl
      simp only [derefL]
      rw [hxs, read_append _ _ _ (evOK_readable _ _ _ (hk.ln l hl))]
    simp only [setSpan, addEvent, view, C04.step]
    have hend' : s.base.ended = false := by simpa using hend
    simp only [hend', Bool.false_eq_true, if_false]
    rw [add_map (derefE (newEventConfig applyEvent w.heap (bufs.map (bufOf w))).1)]
    rw [List.map_congr_left hE, List.map_congr_left hL]
    simp only [derefE, mkEvent, hcap.1, hcap.2]


/-- non-vacuity: two options naming the same caller slice, which has spare capacity -/
example : (view (run cur ⟨-1, -1, -1, -1, -1, -1⟩ {}
      [.mk [⟨[0x61], .int 1⟩] 4, .start [0x6f] [] [], .addEvent 0 [0x65] [0, 0]]).heap
    ((run cur ⟨-1, -1, -1, -1, -1, -1⟩ {}
      [.mk [⟨[0x61], .int 1⟩] 4, .start [0x6f] [] [], .addEvent 0 [0x65] [0, 0]]).spans[0]?.getD { base := C04.init [] })).events.queue
    = [⟨[0x65], [⟨[0x61], .int 1⟩, ⟨[0x61], .int 1⟩], 0⟩] := by decide

/-! ### witnesses -/

def limDemo : Limits := ⟨-1, -1, -1, -1, -1, -1⟩
def kvDemo (k v : UInt8) : KV := ⟨[k], .int v.toNat⟩

/-- the scenario of seeded change C10-12: one "common attributes" slice with spare capacity, passed to RecordError on
two spans one after the other; nobody ever writes to it -/
def sharedErrScript : List AOp :=
  [.mk [kvDemo 0x63 1] 8,
   .start [0x61] [] [], .recordError 0 (some ([0x45], [0x31])) [0], .end_ 0,
   .start [0x62] [] [], .recordError 1 (some ([0x45], [0x32])) [0]]

/-- non-vacuity of `exported_snapshot_stable`: a reachable world with an exported snapshot whose event carries the
caller's attribute and the first span's message, followed by a RecordError on ANOTHER span with the same slice -/
example : ∃ e, e ∈ (run cur limDemo {} (sharedErrScript.take 4)).exported ∧
    (snapView (run cur limDemo {} sharedErrScript).heap e.2).events =
      [⟨excName, [kvDemo 0x63 1, ⟨excTypeKey, .str [0x45]⟩, ⟨excMsgKey, .str [0x31]⟩], 0⟩] := by
  refine ⟨_, List.mem_singleton.mpr rfl, ?_⟩
  decide

/-- **the allocation-saving fast path is refuted**: with `applyEventAliased` ("use the option's attributes directly when
the config has none yet") the SAME script changes the already exported snapshot of the first span — its
exception.message becomes the second span's — although the caller never wrote to its slice: RecordError's own option was
appended in place into the caller's spare capacity, twice. -/
theorem aliased_fastpath_breaks_immutability :
    let w1 := run aliasedEvents limDemo {} (sharedErrScript.take 4)
    let w2 := run aliasedEvents limDemo {} sharedErrScript
    w1.exported = w2.exported ∧
    (w1.exported.map fun e => (snapView w1.heap e.2).events) =
      [[⟨excName, [kvDemo 0x63 1, ⟨excTypeKey, .str [0x45]⟩, ⟨excMsgKey, .str [0x31]⟩], 0⟩]] ∧
    (w2.exported.map fun e => (snapView w2.heap e.2).events) =
      [[⟨excName, [kvDemo 0x63 1, ⟨excTypeKey, .str [0x45]⟩, ⟨excMsgKey, .str [0x32]⟩], 0⟩]] := by
  decide

/-- the same fast path with a caller that reuses its buffer after AddEvent returned and the span ended -/
theorem aliased_fastpath_buffer_reuse_witness :
    let ops : List AOp := [.mk [kvDemo 0x61 1] 0, .start [0x6f] [] [], .addEvent 0 [0x72] [0], .end_ 0]
    let w1 := run aliasedEvents limDemo {} ops
    let w2 := step aliasedEvents limDemo w1 (.wr 0 0 (kvDemo 0x61 2))
    (w1.exported.map fun e => (snapView w1.heap e.2).events) = [[⟨[0x72], [kvDemo 0x61 1], 0⟩]] ∧
    (w2.exported.map fun e => (snapView w2.heap e.2).events) = [[⟨[0x72], [kvDemo 0x61 2], 0⟩]] ∧
    -- the code as it is: unchanged
    (let v1 := run cur limDemo {} ops
     let v2 := step cur limDemo v1 (.wr 0 0 (kvDemo 0x61 2))
     (v2.exported.map fun e => snapView v2.heap e.2) = (v1.exported.map fun e => snapView v1.heap e.2)) := by
  decide

/-- **the reverted fix 48fa451 (finding F44) is refuted**: with `keepLink` (AddLink stores `link.Attributes`, the
caller's slice) a caller that overwrites its slice after AddLink returned and the span ended changes the exported
snapshot's link attributes; with the code as it is (`slices.Clone`) the snapshot is unchanged. -/
theorem reverted_link_fix_breaks_immutability :
    let ops : List AOp := [.mk [kvDemo 0x61 1] 0, .start [0x6f] [] [], .addLink 0 ⟨1, 1, 0⟩ (some 0), .end_ 0]
    let w1 := run sharedLinks limDemo {} ops
    let w2 := step sharedLinks limDemo w1 (.wr 0 0 (kvDemo 0x61 2))
    (w1.exported.map fun e => (snapView w1.heap e.2).links) = [[⟨⟨1, 1, 0⟩, [kvDemo 0x61 1], 0⟩]] ∧
    (w2.exported.map fun e => (snapView w2.heap e.2).links) = [[⟨⟨1, 1, 0⟩, [kvDemo 0x61 2], 0⟩]] ∧
    (let v1 := run cur limDemo {} ops
     let v2 := step cur limDemo v1 (.wr 0 0 (kvDemo 0x61 2))
     (v2.exported.map fun e => snapView v2.heap e.2) = (v1.exported.map fun e => snapView v1.heap e.2) ∧
     (v1.exported.map fun e => (snapView v1.heap e.2).links) = [[⟨⟨1, 1, 0⟩, [kvDemo 0x61 1], 0⟩]]) := by
  decide

/-- the same through Start(WithLinks(…)) -/
theorem reverted_link_fix_withlinks_witness :
    let ops : List AOp := [.mk [kvDemo 0x61 1] 2, .start [0x6f] [] [(⟨1, 1, 0⟩, some 0)], .end_ 0]
    let w1 := run sharedLinks limDemo {} ops
    let w2 := step sharedLinks limDemo w1 (.wr 0 0 (kvDemo 0x61 2))
    (w2.exported.map fun e => (snapView w2.heap e.2).links) ≠ (w1.exported.map fun e => (snapView w1.heap e.2).links) ∧
    (let v1 := run cur limDemo {} ops
     let v2 := step cur limDemo v1 (.wr 0 0 (kvDemo 0x61 2))
     (v2.exported.map fun e => snapView v2.heap e.2) = (v1.exported.map fun e => snapView v1.heap e.2)) := by
  decide

end Otel.C10.Alias
