/-
C10 — "the exported snapshot never changes afterwards", against later API calls that share ARGUMENT MEMORY with earlier
ones (Alias.lean: explicit heap of arrays, Go slices with spare capacity, Go's append; several spans; the caller keeps
and overwrites its slices). For the code as it is (`applyEvent` copies): every reachable world, every later operation of
any span or of the caller.
-/
import Otel.C10.AliasLemmas
namespace Otel.C10.Alias
open Otel Otel.C04

variable {lim : Limits}

private theorem view_events_congr (h h' : Heap) (s : RSpan)
    (he : ∀ e ∈ s.events.queue, read h' e.attrs = read h e.attrs) : (view h' s).events = (view h s).events := by
  simp only [view]
  congr 1
  apply List.map_congr_left
  intro e hm
  simp [derefE, he e hm]

private theorem view_links_congr (h h' : Heap) (s : RSpan)
    (hl : ∀ l ∈ s.links.queue, read h' l.attrs = read h l.attrs) : (view h' s).links = (view h s).links := by
  simp only [view]
  congr 1
  apply List.map_congr_left
  intro l hm
  simp [derefL, hl l hm]

private theorem view_base (h : Heap) (s : RSpan) :
    (view h s).name = s.base.name ∧ (view h s).status = s.base.status ∧ (view h s).attrs = s.base.attrs ∧
    (view h s).droppedAttrs = s.base.droppedAttrs ∧ (view h s).ended = s.base.ended := by
  simp [view]

/-- how an operation changes the heap: the SDK only ALLOCATES (no write to an existing array — in particular none into
the spare capacity of a caller's slice); the only write to an existing array is the caller's own `wr`, into an array
one of its buffers points to -/
theorem sdk_only_allocates (w : World) (hi : Inv w) (op : AOp) :
    (∃ xs, (step cur lim w op).heap = w.heap ++ xs) ∨
    (∃ b i kv, op = .wr b i kv ∧ ∃ sl ∈ w.bufs,
      (step cur lim w op).heap = w.heap.set sl.arr ((arrOf w.heap sl.arr).set i kv)) := by
  cases op with
  | mk kvs spare => exact Or.inl ⟨_, rfl⟩
  | wr b i kv =>
    simp only [step]
    split
    · exact Or.inl ⟨[], by simp⟩
    · rename_i sl hs
      split
      · exact Or.inr ⟨b, i, kv, rfl, sl, List.mem_of_getElem? hs, rfl⟩
      · exact Or.inl ⟨[], by simp⟩
  | start name attrBufs links =>
    obtain ⟨⟨xs, hxs⟩, _⟩ := startLinks_ok lim w hi links (w.heap, { base := C04.init name }) [] (by simp) ⟨by simp, by simp⟩
    exact Or.inl ⟨xs, by simpa [step] using hxs⟩
  | setAttrs i b => refine Or.inl ⟨[], ?_⟩; simp only [step]; split <;> simp [setSpan]
  | addEvent i name bufs =>
    simp only [step, cur_ae]
    split
    · exact Or.inl ⟨[], by simp⟩
    · rename_i s hs
      split
      · exact Or.inl ⟨[], by simp⟩
      · have ho : ∀ o ∈ bufs.map (bufOf w), readable w.heap o := by
          intro o hom
          obtain ⟨b, _, rfl⟩ := List.mem_map.mp hom
          exact bufOf_readable w hi b
        obtain ⟨⟨xs, hxs⟩, _⟩ := addEvent_ok lim w.heap w.bufs s name _ ho hi.bufs (hi.spans s (List.mem_of_getElem? hs))
        exact Or.inl ⟨xs, by simpa [setSpan] using hxs⟩
  | recordError i err bufs =>
    simp only [step, cur_ae]
    split
    · exact Or.inl ⟨[], by simp⟩
    · exact Or.inl ⟨[], by simp⟩
    · rename_i s typ msg hs
      split
      · exact Or.inl ⟨[], by simp⟩
      · let exc : List KV := [⟨excTypeKey, .str typ⟩, ⟨excMsgKey, .str msg⟩]
        let h1 := w.heap ++ [exc]
        let opts := bufs.map (bufOf w) ++ [(⟨w.heap.length, 2, 2⟩ : Slice)]
        have ho1 : ∀ o ∈ opts, readable h1 o := by
          intro o hom
          rcases List.mem_append.mp hom with hom | hom
          · obtain ⟨b, _, rfl⟩ := List.mem_map.mp hom
            exact readable_append _ _ _ (bufOf_readable w hi b)
          · simp only [List.mem_singleton] at hom; subst hom; exact Or.inr (by simp [h1])
        obtain ⟨xs, hxs⟩ := (newEventConfig_copies h1 opts ho1).ext
        have ho2 : ∀ o ∈ opts, readable (h1 ++ xs) o := fun o hom => readable_append _ _ _ (ho1 o hom)
        have hb2 : ∀ b ∈ w.bufs, b.arr < (h1 ++ xs).length := by
          intro b hb; have := hi.bufs b hb; simp [h1]; omega
        have hk2 : SpanOK (h1 ++ xs) w.bufs s :=
          spanOK_append _ _ _ _ (spanOK_append _ _ _ _ (hi.spans s (List.mem_of_getElem? hs)))
        obtain ⟨⟨ys, hys⟩, _⟩ := addEvent_ok lim (h1 ++ xs) w.bufs s excName opts ho2 hb2 hk2
        refine Or.inl ⟨[exc] ++ xs ++ ys, ?_⟩
        simp only [setSpan]
        rw [hxs, hys]
        simp [h1, List.append_assoc]
  | addLink i sc b =>
    simp only [step, cur_lk]
    split
    · exact Or.inl ⟨[], by simp⟩
    · rename_i s hs
      obtain ⟨⟨xs, hxs⟩, _⟩ := addLink_ok lim w.heap w.bufs s sc (optBuf w b) hi.bufs (hi.spans s (List.mem_of_getElem? hs))
      exact Or.inl ⟨xs, by simpa [setSpan] using hxs⟩
  | plain i op =>
    refine Or.inl ⟨[], ?_⟩; simp only [step]; split
    · simp
    · split <;> simp [setSpan]
  | end_ i =>
    refine Or.inl ⟨[], ?_⟩; simp only [step]; split
    · simp
    · split <;> simp [setSpan]

private theorem owned_read_stable (w : World) (hi : Inv w) (op : AOp) (sl : Slice) (hk : evOK w.heap w.bufs sl) :
    read (step cur lim w op).heap sl = read w.heap sl := by
  rcases sdk_only_allocates (lim := lim) w hi op with ⟨xs, hx⟩ | ⟨_, _, _, _, b, hb, hx⟩
  · rw [hx]; exact read_append _ _ _ (evOK_readable _ _ _ hk)
  · rw [hx]
    rcases hk with h0 | ⟨_, h2⟩
    · exact read_set_ne _ _ _ _ (Or.inl h0)
    · exact read_set_ne _ _ _ _ (Or.inr (Ne.symm (h2 b hb)))

private theorem events_read_stable (w : World) (hi : Inv w) (op : AOp) (s : RSpan) (hk : SpanOK w.heap w.bufs s) :
    ∀ e ∈ s.events.queue, read (step cur lim w op).heap e.attrs = read w.heap e.attrs := by
  intro e he
  rcases sdk_only_allocates (lim := lim) w hi op with ⟨xs, hx⟩ | ⟨_, _, _, _, sl, hsl, hx⟩
  · rw [hx]
    rcases hk.ev e he with h0 | ⟨h1, _⟩
    · exact read_append _ _ _ (Or.inl h0)
    · exact read_append _ _ _ (Or.inr h1)
  · rw [hx]
    rcases hk.ev e he with h0 | ⟨_, h2⟩
    · exact read_set_ne _ _ _ _ (Or.inl h0)
    · exact read_set_ne _ _ _ _ (Or.inr (Ne.symm (h2 sl hsl)))

/-- the OnEnd log only grows -/
theorem exported_log_grows (w : World) (op : AOp) (im : Impl) : w.exported <+: (step im lim w op).exported := by
  cases op <;> simp only [step]
  case wr => split; exact List.prefix_refl _; split <;> exact List.prefix_refl _
  case mk => exact List.prefix_refl _
  case start => exact List.prefix_refl _
  case setAttrs => split <;> exact List.prefix_refl _
  case addEvent => split; exact List.prefix_refl _; split <;> exact List.prefix_refl _
  case recordError => split; exact List.prefix_refl _; exact List.prefix_refl _; split <;> exact List.prefix_refl _
  case addLink => split <;> exact List.prefix_refl _
  case plain => split; exact List.prefix_refl _; split <;> exact List.prefix_refl _
  case end_ =>
    split; exact List.prefix_refl _
    split; exact List.prefix_refl _
    exact List.prefix_append _ _

/-- **The exported snapshot never changes afterwards — under ANY later operation of ANY span and of the caller.**
In every reachable world, for every snapshot `e` exported so far and every next operation `op` — an API call on this or
another span whose attribute slices share memory (spare capacity included) with earlier calls, a Start, an End, or the
caller overwriting any cell of any of its slices — what a reader of `e` sees is unchanged in name, status, attributes,
dropped counts, in EVERY EVENT and in EVERY LINK (names / span contexts, attribute values, drop counts): `applyEvent` and
(since fix 48fa451, finding F44) AddLink's `slices.Clone` copied the argument values at the call. So the whole snapshot is
unchanged (last-but-one conjunct), without exception. The log itself only grows. -/
theorem exported_snapshot_stable (w : World) (hr : Reachable lim w) (op : AOp) (e : Nat × RSpan) (he : e ∈ w.exported) :
    let h' := (step cur lim w op).heap
    (snapView h' e.2).events = (snapView w.heap e.2).events ∧
    (snapView h' e.2).droppedEvents = (snapView w.heap e.2).droppedEvents ∧
    (snapView h' e.2).name = (snapView w.heap e.2).name ∧
    (snapView h' e.2).status = (snapView w.heap e.2).status ∧
    (snapView h' e.2).attrs = (snapView w.heap e.2).attrs ∧
    (snapView h' e.2).droppedAttrs = (snapView w.heap e.2).droppedAttrs ∧
    (snapView h' e.2).links = (snapView w.heap e.2).links ∧
    snapView h' e.2 = snapView w.heap e.2 ∧
    w.exported <+: (step cur lim w op).exported := by
  have hi := inv_reachable lim w hr
  have hk := hi.exported e he
  have hev := view_events_congr w.heap (step cur lim w op).heap e.2 (events_read_stable w hi op e.2 hk)
  have hl : (view (step cur lim w op).heap e.2).links = (view w.heap e.2).links :=
    view_links_congr _ _ _ fun l hl => owned_read_stable w hi op _ (hk.ln l hl)
  refine ⟨?_, ?_, ?_, ?_, ?_, ?_, ?_, ?_, exported_log_grows w op _⟩
  · simp only [snapView, C04.snapshot]; rw [hev]
  · simp only [snapView, C04.snapshot]; rw [hev]
  · simp [snapView, C04.snapshot, view]
  · simp [snapView, C04.snapshot, view]
  · simp [snapView, C04.snapshot, view]
  · simp [snapView, C04.snapshot, view]
  · simp only [snapView, C04.snapshot]; rw [hl]
  · simp only [snapView, C04.snapshot]
    rw [hev, hl]
    simp [view]

/-- the same for spans that have not ended: what a reader of ANY span record sees is unchanged by the heap effects of any
operation (the operation's own effect on its target span is `call_copies_arguments`) -/
theorem live_span_stable (w : World) (hr : Reachable lim w) (op : AOp) (s : RSpan) (hs : s ∈ w.spans) :
    view (step cur lim w op).heap s = view w.heap s := by
  have hi := inv_reachable lim w hr
  have hk := hi.spans s hs
  have hev := view_events_congr w.heap (step cur lim w op).heap s (events_read_stable w hi op s hk)
  have hl : (view (step cur lim w op).heap s).links = (view w.heap s).links :=
    view_links_congr _ _ _ fun l hl => owned_read_stable w hi op _ (hk.ln l hl)
  simp only [view] at hev hl ⊢
  rw [hev, hl]

/-- every script leads to a reachable world -/
theorem run_reachable (w : World) (hr : Reachable lim w) (ops : List AOp) : Reachable lim (run cur lim w ops) := by
  induction ops generalizing w with
  | nil => exact hr
  | cons op rest ih => exact ih _ (Reachable.step op hr)

/-! ### caller buffers stay well-formed (length ≤ backing array) -/

/-- every caller slice lies inside its backing array -/
def BufWF (w : World) : Prop := ∀ b ∈ w.bufs, b.arr < w.heap.length ∧ b.len ≤ (arrOf w.heap b.arr).length

private theorem step_bufs (w : World) (op : AOp) :
    (step cur lim w op).bufs = w.bufs ∨ ∃ kvs spare, op = .mk kvs spare := by
  cases op with
  | mk kvs spare => exact Or.inr ⟨kvs, spare, rfl⟩
  | wr b i kv => left; simp only [step]; split; rfl; split <;> rfl
  | start _ _ _ => left; rfl
  | setAttrs _ _ => left; simp only [step]; split <;> rfl
  | addEvent _ _ _ => left; simp only [step]; split; rfl; split <;> rfl
  | recordError _ _ _ => left; simp only [step]; split; rfl; rfl; split <;> rfl
  | addLink _ _ _ => left; simp only [step]; split <;> rfl
  | plain _ _ => left; simp only [step]; split; rfl; split <;> rfl
  | end_ _ => left; simp only [step]; split; rfl; split <;> rfl

private theorem arrOf_append (h xs : Heap) (a : Nat) (ha : a < h.length) : arrOf (h ++ xs) a = arrOf h a := by
  simp [arrOf, List.getElem?_append_left ha]

theorem bufwf_step (w : World) (hi : Inv w) (hw : BufWF w) (op : AOp) : BufWF (step cur lim w op) := by
  rcases step_bufs (lim := lim) w op with hb | ⟨kvs, spare, rfl⟩
  · intro b hbm
    rw [hb] at hbm
    obtain ⟨h1, h2⟩ := hw b hbm
    rcases sdk_only_allocates (lim := lim) w hi op with ⟨xs, hx⟩ | ⟨_, i, kv, _, sl, _, hx⟩
    · rw [hx]; exact ⟨by simp; omega, by rw [arrOf_append _ _ _ h1]; exact h2⟩
    · rw [hx]
      refine ⟨by simpa using h1, ?_⟩
      by_cases he : b.arr = sl.arr
      · simp only [arrOf, he]
        rw [List.getElem?_set_self (by rw [← he]; exact h1)]
        simp only [Option.getD_some, List.length_set]
        have := h2; simp only [arrOf, he] at this; exact this
      · simp only [arrOf]
        rw [List.getElem?_set_ne (Ne.symm he)]
        exact h2
  · intro b hbm
    simp only [step] at hbm ⊢
    rcases List.mem_append.mp hbm with hbm | hbm
    · obtain ⟨h1, h2⟩ := hw b hbm
      exact ⟨by simp; omega, by rw [arrOf_append _ _ _ h1]; exact h2⟩
    · simp only [List.mem_singleton] at hbm
      subst hbm
      refine ⟨by simp, ?_⟩
      simp [arrOf]

theorem bufwf_reachable (w : World) (hr : Reachable lim w) : BufWF w := by
  induction hr with
  | init => intro b hb; simp at hb
  | step op hr' ih => exact bufwf_step _ (inv_reachable lim _ hr') ih op

private theorem read_len (w : World) (hw : BufWF w) (sl : Slice) (hs : sl ∈ w.bufs ∨ sl.len = 0) :
    (read w.heap sl).length = sl.len := by
  rcases hs with hs | h0
  · have := (hw sl hs).2
    simp only [read, List.length_take]; omega
  · simp [read, h0]

private theorem bufOf_mem (w : World) (b : Nat) : bufOf w b ∈ w.bufs ∨ (bufOf w b).len = 0 := by
  unfold bufOf
  cases hb : w.bufs[b]? with
  | none => exact Or.inr rfl
  | some sl => exact Or.inl (List.mem_of_getElem? hb)

/-- the C04 operation an API call on span `i` amounts to, its slice arguments resolved to the values they hold AT THE CALL -/
def resolve (w : World) : AOp → Option (Nat × Op)
  | .setAttrs i b => some (i, .setAttrs (read w.heap (bufOf w b)))
  | .addEvent i name bufs => some (i, .addEvent name (bufs.flatMap fun b => read w.heap (bufOf w b)))
  | .recordError i err bufs => some (i, .recordError err (bufs.flatMap fun b => read w.heap (bufOf w b)))
  | .addLink i sc b => some (i, .addLink sc (read w.heap (optBuf w b)))
  | .plain i op => if isPlain op then some (i, op) else none
  | .end_ i => some (i, .end_)
  | _ => none

private theorem flatMap_congr' {α β : Type} (l : List α) (f g : α → List β) (h : ∀ a ∈ l, f a = g a) :
    l.flatMap f = l.flatMap g := by
  induction l with
  | nil => rfl
  | cons a tl ih =>
    simp only [List.flatMap_cons]
    rw [h a (by simp), ih (fun x hx => h x (by simp [hx]))]

private theorem spans_lt (w : World) (i : Nat) (s : RSpan) (hs : w.spans[i]? = some s) : i < w.spans.length := by
  rcases Nat.lt_or_ge i w.spans.length with h | h
  · exact h
  · rw [List.getElem?_eq_none h] at hs; cases hs

/-- **argument values are copied at the call** — SetAttributes, AddEvent (any number of WithAttributes options),
RecordError, AddLink, SetStatus/SetName, End, with any sharing of caller slices between options, calls and spans: the span
a reader sees after the call is C04's sequential step applied to what a reader saw before, with every slice argument
resolved to the values it held AT THE CALL (`resolve`). Together with `exported_snapshot_stable` (and its analogue for
live spans, `live_span_stable`): nothing that happens to the caller's memory afterwards matters. -/
theorem call_copies_arguments (w : World) (hr : Reachable lim w) (op : AOp) (i : Nat) (cop : Op) (s : RSpan)
    (hres : resolve w op = some (i, cop)) (hs : w.spans[i]? = some s) :
    ∃ s', (step cur lim w op).spans[i]? = some s' ∧
      view (step cur lim w op).heap s' = C04.step lim (view w.heap s) cop := by
  have hi := inv_reachable lim w hr
  have hw := bufwf_reachable w hr
  have hk := hi.spans s (List.mem_of_getElem? hs)
  have hlt := spans_lt w i s hs
  cases op with
  | mk _ _ => simp [resolve] at hres
  | wr _ _ _ => simp [resolve] at hres
  | start _ _ _ => simp [resolve] at hres
  | setAttrs j b =>
    simp only [resolve, Option.some.injEq, Prod.mk.injEq] at hres
    obtain ⟨rfl, rfl⟩ := hres
    simp only [step, hs]
    exact ⟨_, by simp [setSpan, hlt], view_base_step lim _ s _ rfl⟩
  | plain j o =>
    simp only [resolve] at hres
    split at hres
    · rename_i hp
      simp only [Option.some.injEq, Prod.mk.injEq] at hres
      obtain ⟨rfl, rfl⟩ := hres
      simp only [step, hs, hp, if_true]
      refine ⟨_, by simp [setSpan, hlt], view_base_step lim _ s _ ?_⟩
      cases o <;> simp_all [isPlain, isBaseOp]
    · cases hres
  | end_ j =>
    simp only [resolve, Option.some.injEq, Prod.mk.injEq] at hres
    obtain ⟨rfl, rfl⟩ := hres
    simp only [step, hs]
    by_cases hend : s.base.ended = true
    · simp only [hend, if_true]
      exact ⟨s, hs, by simp [C04.step, view, hend]⟩
    · simp only [hend, if_false, Bool.false_eq_true]
      exact ⟨_, by simp [setSpan, hlt], view_base_step lim _ s _ rfl⟩
  | addLink j sc b =>
    simp only [resolve, Option.some.injEq, Prod.mk.injEq] at hres
    obtain ⟨rfl, rfl⟩ := hres
    simp only [step, hs, cur_lk]
    refine ⟨(addLink cloneLink lim w.heap s sc (optBuf w b)).2, by simp [setSpan, hlt], ?_⟩
    simp only [setSpan]
    apply addLink_view lim w.heap w.bufs s sc _ hi.bufs hk
    cases b with
    | none => simp [optBuf, read, Slice.nil]
    | some b => exact read_len w hw _ (bufOf_mem w b)
  | addEvent j name bufs =>
    simp only [resolve, Option.some.injEq, Prod.mk.injEq] at hres
    obtain ⟨rfl, rfl⟩ := hres
    simp only [step, hs, cur_ae]
    by_cases hend : s.base.ended = true
    · simp only [hend, if_true]
      exact ⟨s, hs, by simp [C04.step, view, hend]⟩
    · simp only [hend, if_false, Bool.false_eq_true]
      have ho : ∀ o ∈ bufs.map (bufOf w), readable w.heap o := by
        intro o hom
        obtain ⟨b, _, rfl⟩ := List.mem_map.mp hom
        exact bufOf_readable w hi b
      refine ⟨(addEvent applyEvent lim w.heap s name (bufs.map (bufOf w))).2, by simp [setSpan, hlt], ?_⟩
      simp only [setSpan]
      rw [addEvent_view lim w.heap w.bufs s name _ ho hk]
      have hend' : s.base.ended = false := by simpa using hend
      have hv : (view w.heap s).ended = false := hend'
      simp [C04.step, hv, List.flatMap_map]
  | recordError j err bufs =>
    simp only [resolve, Option.some.injEq, Prod.mk.injEq] at hres
    obtain ⟨rfl, rfl⟩ := hres
    simp only [step, hs, cur_ae]
    cases err with
    | none => exact ⟨s, hs, by simp [C04.step]⟩
    | some tm =>
      obtain ⟨typ, msg⟩ := tm
      simp only
      by_cases hend : s.base.ended = true
      · simp only [hend, if_true]
        exact ⟨s, hs, by simp [C04.step, view, hend]⟩
      · simp only [hend, if_false, Bool.false_eq_true]
        let exc : List KV := [⟨excTypeKey, .str typ⟩, ⟨excMsgKey, .str msg⟩]
        let h1 := w.heap ++ [exc]
        let excS : Slice := ⟨w.heap.length, 2, 2⟩
        let opts := bufs.map (bufOf w) ++ [excS]
        have ho1 : ∀ o ∈ opts, readable h1 o := by
          intro o hom
          rcases List.mem_append.mp hom with hom | hom
          · obtain ⟨b, _, rfl⟩ := List.mem_map.mp hom
            exact readable_append _ _ _ (bufOf_readable w hi b)
          · simp only [List.mem_singleton] at hom; subst hom; exact Or.inr (by simp [h1, excS])
        obtain ⟨xs, hxs⟩ := (newEventConfig_copies h1 opts ho1).ext
        have ho2 : ∀ o ∈ opts, readable (h1 ++ xs) o := fun o hom => readable_append _ _ _ (ho1 o hom)
        have hk2 : SpanOK (h1 ++ xs) w.bufs s := spanOK_append _ _ _ _ (spanOK_append _ _ _ _ hk)
        refine ⟨(addEvent applyEvent lim (newEventConfig applyEvent h1 opts).1 s excName opts).2, by simp [setSpan, hlt, h1, opts, excS, exc], ?_⟩
        simp only [setSpan]
        show view (addEvent applyEvent lim (newEventConfig applyEvent h1 opts).1 s excName opts).1
              (addEvent applyEvent lim (newEventConfig applyEvent h1 opts).1 s excName opts).2 = _
        rw [hxs, addEvent_view lim (h1 ++ xs) w.bufs s excName opts ho2 hk2]
        have hv : view (h1 ++ xs) s = view w.heap s := by
          rw [view_append _ xs _ s (spanOK_append _ _ _ _ hk)]; exact view_append _ _ _ s hk
        rw [hv]
        have hvals : opts.flatMap (read (h1 ++ xs)) =
            errorAttrs typ msg (bufs.flatMap fun b => read w.heap (bufOf w b)) := by
          simp only [opts, List.flatMap_append, List.flatMap_map, List.flatMap_cons, List.flatMap_nil, List.append_nil,
            errorAttrs]
          congr 1
          · apply flatMap_congr'
            intro b _
            rw [read_append _ xs _ (readable_append _ _ _ (bufOf_readable w hi b)),
                read_append _ _ _ (bufOf_readable w hi b)]
          · rw [read_append _ xs _ (Or.inr (by simp [h1, excS]))]
            simp [read, arrOf, h1, excS, exc]
        rw [hvals]
        have hend' : (view w.heap s).ended = false := by simpa [view] using hend
        simp [C04.step, hend']

private theorem startLinks_view (w : World) (hi : Inv w) (hw : BufWF w) :
    ∀ (ls : List (SC × Option Nat)) (p : Heap × RSpan) (xs0 : Heap), p.1 = w.heap ++ xs0 → SpanOK p.1 w.bufs p.2 →
      view (ls.foldl (fun (hs : Heap × RSpan) l => addLink cloneLink lim hs.1 hs.2 l.1 (optBuf w l.2)) p).1
           (ls.foldl (fun (hs : Heap × RSpan) l => addLink cloneLink lim hs.1 hs.2 l.1 (optBuf w l.2)) p).2 =
        C04.run lim (view p.1 p.2) (ls.map fun l => Op.addLink l.1 (read w.heap (optBuf w l.2))) := by
  intro ls
  induction ls with
  | nil => intro p xs0 _ _; rfl
  | cons l rest ih =>
    intro p xs0 e0 k0
    have hb0 : ∀ b ∈ w.bufs, b.arr < p.1.length := by
      intro b hb; have := hi.bufs b hb; rw [e0]; simp; omega
    have hrd : read p.1 (optBuf w l.2) = read w.heap (optBuf w l.2) := by
      rw [e0]; exact read_append _ _ _ (optBuf_readable w hi l.2)
    have hlen : (read p.1 (optBuf w l.2)).length = (optBuf w l.2).len := by
      rw [hrd]
      cases l.2 with
      | none => simp [optBuf, read, Slice.nil]
      | some b => exact read_len w hw _ (bufOf_mem w b)
    obtain ⟨⟨ys, hys⟩, k1⟩ := addLink_ok lim p.1 w.bufs p.2 l.1 (optBuf w l.2) hb0 k0
    simp only [List.foldl_cons, List.map_cons, C04.run]
    rw [ih (addLink cloneLink lim p.1 p.2 l.1 (optBuf w l.2)) (xs0 ++ ys) (by rw [hys, e0, List.append_assoc]) k1,
        addLink_view lim p.1 w.bufs p.2 l.1 _ hb0 k0 hlen, hrd]
    rfl

/-- **Start copies its arguments**: the span `Start(name, WithLinks(…), WithAttributes(…)…)` creates is, for a reader,
C04's run of the links (AddLink each, in order) and then ONE SetAttributes with the concatenated start attributes — all
slices resolved to the values they held at the call -/
theorem start_copies_arguments (w : World) (hr : Reachable lim w) (name : Bytes) (attrBufs : List Nat)
    (links : List (SC × Option Nat)) :
    ∃ s', (step cur lim w (.start name attrBufs links)).spans = w.spans ++ [s'] ∧
      view (step cur lim w (.start name attrBufs links)).heap s' =
        C04.run lim (C04.init name)
          ((links.map fun l => Op.addLink l.1 (read w.heap (optBuf w l.2))) ++
           [Op.setAttrs (attrBufs.flatMap fun b => read w.heap (bufOf w b))]) := by
  have hi := inv_reachable lim w hr
  have hw := bufwf_reachable w hr
  refine ⟨_, rfl, ?_⟩
  simp only [step, cur_lk]
  have h0 : SpanOK w.heap w.bufs ({ base := C04.init name } : RSpan) := ⟨by simp, by simp⟩
  have hv := startLinks_view (lim := lim) w hi hw links (w.heap, { base := C04.init name }) [] (by simp) h0
  rw [view_base_step lim _ _ _ rfl, hv]
  simp only [C04.run, List.foldl_append, List.foldl_cons, List.foldl_nil]
  rfl

/-- non-vacuity: two options naming the same caller slice, which has spare capacity -/
example : (view (run cur ⟨-1, -1, -1, -1, -1, -1⟩ {}
      [.mk [⟨[0x61], .int 1⟩] 4, .start [0x6f] [] [], .addEvent 0 [0x65] [0, 0]]).heap
    ((run cur ⟨-1, -1, -1, -1, -1, -1⟩ {}
      [.mk [⟨[0x61], .int 1⟩] 4, .start [0x6f] [] [], .addEvent 0 [0x65] [0, 0]]).spans[0]?.getD { base := C04.init [] })).events.queue
    = [⟨[0x65], [⟨[0x61], .int 1⟩, ⟨[0x61], .int 1⟩], 0⟩] := by decide

/-- **`append(s[:len(s):len(s)], x…)` never writes the array of `s`** — the idiom of fix 30d2a20 (finding F45: RecordError
appended its exception option to the caller's variadic option slice in place) and of `slices.Clone` (`append(s[:0:0], s...)`,
fix 48fa451): a slice whose capacity equals its length is extended by ALLOCATING, whatever the array holds beyond it;
the old heap is a prefix of the new one. (Stated on this heap's element type; Go's append does not depend on it. Option
slices `[]EventOption` themselves are not objects of this heap — see checks/C10.json assumptions — so for F45 this lemma
plus the `optsrace` observation leg is the coverage.) -/
theorem full_slice_append_allocates (h : Heap) (dst : Slice) (vals : List KV) (ht : dst.cap = dst.len) (hv : vals ≠ []) :
    (goAppend h dst vals).1 = h ++ [read h dst ++ vals] ∧ (goAppend h dst vals).2.arr = h.length := by
  unfold goAppend
  have h1 : vals.isEmpty = false := by cases vals <;> simp_all
  have h2 : ¬ (dst.len + vals.length ≤ dst.cap) := by
    have : 0 < vals.length := List.length_pos_iff.mpr hv
    omega
  simp [h1, h2]

/-- … whereas with spare capacity the same append writes the shared array in place (the heap keeps its length): what
RecordError did to the caller's option slice before 30d2a20 and what `applyEventAliased` does to attribute slices -/
theorem spare_capacity_append_writes_in_place (h : Heap) (dst : Slice) (vals : List KV) (hv : vals ≠ [])
    (hs : dst.len + vals.length ≤ dst.cap) :
    (goAppend h dst vals).1.length = h.length ∧ (goAppend h dst vals).2.arr = dst.arr := by
  unfold goAppend
  have h1 : vals.isEmpty = false := by cases vals <;> simp_all
  simp [h1, hs]

/-! ### witnesses -/

def limDemo : Limits := ⟨-1, -1, -1, -1, -1, -1⟩
def kvDemo (k v : UInt8) : KV := ⟨[k], .int v.toNat⟩

/-- the scenario of seeded change C10-12: one "common attributes" slice with spare capacity, passed to RecordError on
two spans one after the other; nobody ever writes to it -/
def sharedErrScript : List AOp :=
  [.mk [kvDemo 0x63 1] 8,
   .start [0x61] [] [], .recordError 0 (some ([0x45], [0x31])) [0], .end_ 0,
   .start [0x62] [] [], .recordError 1 (some ([0x45], [0x32])) [0]]

/-- non-vacuity of `exported_snapshot_stable`: a reachable world with an exported snapshot whose event carries the
caller's attribute and the first span's message, followed by a RecordError on ANOTHER span with the same slice -/
example : ∃ e, e ∈ (run cur limDemo {} (sharedErrScript.take 4)).exported ∧
    (snapView (run cur limDemo {} sharedErrScript).heap e.2).events =
      [⟨excName, [kvDemo 0x63 1, ⟨excTypeKey, .str [0x45]⟩, ⟨excMsgKey, .str [0x31]⟩], 0⟩] := by
  refine ⟨_, List.mem_singleton.mpr rfl, ?_⟩
  decide

/-- **the allocation-saving fast path is refuted**: with `applyEventAliased` ("use the option's attributes directly when
the config has none yet") the SAME script changes the already exported snapshot of the first span — its
exception.message becomes the second span's — although the caller never wrote to its slice: RecordError's own option was
appended in place into the caller's spare capacity, twice. -/
theorem aliased_fastpath_breaks_immutability :
    let w1 := run aliasedEvents limDemo {} (sharedErrScript.take 4)
    let w2 := run aliasedEvents limDemo {} sharedErrScript
    w1.exported = w2.exported ∧
    (w1.exported.map fun e => (snapView w1.heap e.2).events) =
      [[⟨excName, [kvDemo 0x63 1, ⟨excTypeKey, .str [0x45]⟩, ⟨excMsgKey, .str [0x31]⟩], 0⟩]] ∧
    (w2.exported.map fun e => (snapView w2.heap e.2).events) =
      [[⟨excName, [kvDemo 0x63 1, ⟨excTypeKey, .str [0x45]⟩, ⟨excMsgKey, .str [0x32]⟩], 0⟩]] := by
  decide

/-- the same fast path with a caller that reuses its buffer after AddEvent returned and the span ended -/
theorem aliased_fastpath_buffer_reuse_witness :
    let ops : List AOp := [.mk [kvDemo 0x61 1] 0, .start [0x6f] [] [], .addEvent 0 [0x72] [0], .end_ 0]
    let w1 := run aliasedEvents limDemo {} ops
    let w2 := step aliasedEvents limDemo w1 (.wr 0 0 (kvDemo 0x61 2))
    (w1.exported.map fun e => (snapView w1.heap e.2).events) = [[⟨[0x72], [kvDemo 0x61 1], 0⟩]] ∧
    (w2.exported.map fun e => (snapView w2.heap e.2).events) = [[⟨[0x72], [kvDemo 0x61 2], 0⟩]] ∧
    -- the code as it is: unchanged
    (let v1 := run cur limDemo {} ops
     let v2 := step cur limDemo v1 (.wr 0 0 (kvDemo 0x61 2))
     (v2.exported.map fun e => snapView v2.heap e.2) = (v1.exported.map fun e => snapView v1.heap e.2)) := by
  decide

/-- **the reverted fix 48fa451 (finding F44) is refuted**: with `keepLink` (AddLink stores `link.Attributes`, the
caller's slice) a caller that overwrites its slice after AddLink returned and the span ended changes the exported
snapshot's link attributes; with the code as it is (`slices.Clone`) the snapshot is unchanged. -/
theorem reverted_link_fix_breaks_immutability :
    let ops : List AOp := [.mk [kvDemo 0x61 1] 0, .start [0x6f] [] [], .addLink 0 ⟨1, 1, 0⟩ (some 0), .end_ 0]
    let w1 := run sharedLinks limDemo {} ops
    let w2 := step sharedLinks limDemo w1 (.wr 0 0 (kvDemo 0x61 2))
    (w1.exported.map fun e => (snapView w1.heap e.2).links) = [[⟨⟨1, 1, 0⟩, [kvDemo 0x61 1], 0⟩]] ∧
    (w2.exported.map fun e => (snapView w2.heap e.2).links) = [[⟨⟨1, 1, 0⟩, [kvDemo 0x61 2], 0⟩]] ∧
    (let v1 := run cur limDemo {} ops
     let v2 := step cur limDemo v1 (.wr 0 0 (kvDemo 0x61 2))
     (v2.exported.map fun e => snapView v2.heap e.2) = (v1.exported.map fun e => snapView v1.heap e.2) ∧
     (v1.exported.map fun e => (snapView v1.heap e.2).links) = [[⟨⟨1, 1, 0⟩, [kvDemo 0x61 1], 0⟩]]) := by
  decide

/-- the same through Start(WithLinks(…)) -/
theorem reverted_link_fix_withlinks_witness :
    let ops : List AOp := [.mk [kvDemo 0x61 1] 2, .start [0x6f] [] [(⟨1, 1, 0⟩, some 0)], .end_ 0]
    let w1 := run sharedLinks limDemo {} ops
    let w2 := step sharedLinks limDemo w1 (.wr 0 0 (kvDemo 0x61 2))
    (w2.exported.map fun e => (snapView w2.heap e.2).links) ≠ (w1.exported.map fun e => (snapView w1.heap e.2).links) ∧
    (let v1 := run cur limDemo {} ops
     let v2 := step cur limDemo v1 (.wr 0 0 (kvDemo 0x61 2))
     (v2.exported.map fun e => snapView v2.heap e.2) = (v1.exported.map fun e => snapView v1.heap e.2)) := by
  decide

end Otel.C10.Alias
