/-
C10 — generated tie.  `Otel.Gen.C10` is regenerated from /repo's current source by tools/go2lean on every run of
bin/check (checks/gentie.json); the theorems below are re-checked against the regenerated text.
Site: `recordingSpan.End` (sdk/trace/span.go) as a decision skeleton over `s == nil`, `s.isRecording()`,
`recovered != nil`, `config.StackTrace()`, `config.Timestamp().IsZero()`, `taskEnd != nil`, `len(sps)` (≥ 0), whose leaves
carry the *ordered effects of the path*: now (end time read), lock / unlock (s.mu), repanic, exceptionEvent,
endTime=now | endTime=option, readTask, taskEnd, loadProcs (getSpanProcessors), snapshot, OnEnd* (fan-out).
These are the atomic steps of the C10 transition system (`Otel.C10.step`): endCall (now) → endLock (lock; the
recording check; endTime set; unlock) → taskEnd → loadProcs → snapshot → onEnd* → endReturn.  The theorems state
that the source performs exactly these steps in exactly this order on every path.
Also `attributeOption.applyEvent` and the closure of `WithLinks` (trace/config.go): one unconditional `append`
each — the alias model's `Otel.C10.Alias.applyEvent`; a fast path that stores the caller's slice (seeded C10-12)
changes the generated definition and breaks `gen_applyEvent_unconditional`.
-/
import Otel.Gen.C10
import Otel.C10.Alias

namespace Otel.C10.GenTie

/-- the ordered effects of `End`, path by path, as the C10 model takes them -/
def expectEnd (isNil recording panicking noTimestampOption hasTask : Bool) (nProcs : Int) : String × List String :=
  if isNil then ("return", [])
  else if !recording then ("return", ["now", "lock", "unlock"])
  else
    (if nProcs = 0 then "return" else "<end>",
     ["now", "lock"] ++ (if panicking then ["repanic", "exceptionEvent"] else []) ++
     [if noTimestampOption then "endTime=now" else "endTime=option", "readTask", "unlock"] ++
     (if hasTask then ["taskEnd"] else []) ++ ["loadProcs"] ++
     (if nProcs = 0 then [] else ["snapshot", "OnEnd*"]))

/-- `recordingSpan.End` as written today performs, on every path, exactly the steps of the C10 model in the model's
order (the stack-trace option does not change the steps) -/
theorem gen_span_end_table (isNil recording panicking stackTrace noTimestampOption hasTask : Bool) (nProcs : Int)
    (hn : 0 ≤ nProcs) :
    Otel.Gen.C10.spanEnd isNil recording panicking stackTrace noTimestampOption hasTask nProcs =
      expectEnd isNil recording panicking noTimestampOption hasTask nProcs := by
  unfold Otel.Gen.C10.spanEnd expectEnd
  by_cases h : nProcs = 0 <;>
    cases isNil <;> cases recording <;> cases panicking <;> cases stackTrace <;> cases noTimestampOption <;>
    cases hasTask <;> simp [h] <;> omega

def pos (x : String) (l : List String) : Nat := l.idxOf x

/-- the end time is written at most once per call, only on the recording path, and always between Lock and Unlock
(the "ends exactly once" mechanism: check and mark are one critical section) -/
theorem gen_end_marks_under_lock (isNil recording panicking stackTrace noTs hasTask : Bool) (nProcs : Int)
    (hn : 0 ≤ nProcs) :
    let eff := (Otel.Gen.C10.spanEnd isNil recording panicking stackTrace noTs hasTask nProcs).2
    ((eff.filter (fun x => x == "endTime=now" || x == "endTime=option")).length =
        if isNil = false ∧ recording = true then 1 else 0) ∧
    (isNil = false ∧ recording = true →
      let m := if noTs then "endTime=now" else "endTime=option"
      pos "lock" eff < pos m eff ∧ pos m eff < pos "unlock" eff) := by
  rw [gen_span_end_table _ _ _ _ _ _ _ hn]
  unfold expectEnd
  by_cases h : nProcs = 0 <;>
    cases isNil <;> cases recording <;> cases panicking <;> cases noTs <;> cases hasTask <;> simp [h, pos] <;> decide

/-- the F7 repair: the runtime/trace task is ended only after the span is marked ended and unlocked; processors are
loaded after that; the snapshot is taken after the unlock and before the fan-out; a span that lost the race
(not recording) reaches no processor -/
theorem gen_end_order (isNil recording panicking stackTrace noTs hasTask : Bool) (nProcs : Int)
    (hn : 0 ≤ nProcs) :
    let eff := (Otel.Gen.C10.spanEnd isNil recording panicking stackTrace noTs hasTask nProcs).2
    (isNil = false ∧ recording = true ∧ hasTask = true → pos "unlock" eff < pos "taskEnd" eff ∧ pos "taskEnd" eff < pos "loadProcs" eff) ∧
    (isNil = false ∧ recording = true ∧ nProcs ≠ 0 →
        pos "unlock" eff < pos "loadProcs" eff ∧ pos "loadProcs" eff < pos "snapshot" eff ∧ pos "snapshot" eff < pos "OnEnd*" eff) ∧
    ((isNil = true ∨ recording = false ∨ nProcs = 0) → ¬ ("OnEnd*" ∈ eff)) ∧
    (eff.filter (· == "lock")).length = (eff.filter (· == "unlock")).length := by
  rw [gen_span_end_table _ _ _ _ _ _ _ hn]
  unfold expectEnd
  by_cases h : nProcs = 0 <;>
    cases isNil <;> cases recording <;> cases panicking <;> cases noTs <;> cases hasTask <;> simp [h, pos] <;> decide

/-! ### trace/config.go: option application is an unconditional append -/

theorem gen_applyEvent_unconditional (attrsNil attrsNotNil : Bool) (nAttrs nOpt : Int) :
    Otel.Gen.C10.applyEvent attrsNil attrsNotNil nAttrs nOpt = ("c", ["append"]) := by
  unfold Otel.Gen.C10.applyEvent
  cases attrsNil <;> cases attrsNotNil <;> simp <;> (repeat' split) <;> (try simp_all) <;> omega

theorem gen_withLinks_unconditional (linksNil linksNotNil : Bool) (nLinks nOpt : Int) :
    Otel.Gen.C10.withLinks linksNil linksNotNil nLinks nOpt = ("cfg", ["append"]) := by
  unfold Otel.Gen.C10.withLinks
  cases linksNil <;> cases linksNotNil <;> simp <;> (repeat' split) <;> (try simp_all) <;> omega

/-- what a leaf of the generated `applyEvent` does to (heap, c.attributes) in the alias model -/
def interpApplyEvent (leaf : String × List String) (h : Alias.Heap) (c o : Alias.Slice) : Alias.Heap × Alias.Slice :=
  if leaf = ("c", ["append"]) then Alias.goAppend h c (Alias.read h o) else (h, c)

/-- `attributeOption.applyEvent` as written today is the alias model's `applyEvent`, not `applyEventAliased` -/
theorem gen_applyEvent_eq_model (a b : Bool) (n m : Int) (h : Alias.Heap) (c o : Alias.Slice) :
    Alias.applyEvent h c o = interpApplyEvent (Otel.Gen.C10.applyEvent a b n m) h c o := by
  rw [gen_applyEvent_unconditional]; rfl

/-! ### AddLink and RecordError: no caller memory is retained or written -/

/-- `AddLink`: a nil span, an empty link and an ended span add nothing; otherwise the per-link attribute limit is
applied (0 = drop all, positive = keep the first `limit`) and the attribute slice is CLONED after the cap and before
the link is added — on every path that adds a link -/
theorem gen_add_link_table (isNil validCtx recording : Bool) (nLinkAttrs nTraceState limit nAttrs : Int) :
    Otel.Gen.C10.addLink isNil validCtx recording nLinkAttrs nTraceState limit nAttrs =
      (if isNil then ("return", [])
       else if validCtx = false ∧ nLinkAttrs = 0 ∧ nTraceState = 0 then ("return", [])
       else if recording = false then ("return", ["lock", "deferUnlock"])
       else ("<end>", ["lock", "deferUnlock", "l=link", "limit=perLink"] ++
              (if limit = 0 then ["dropped=n", "attrs=nil"]
               else if limit > 0 ∧ nAttrs > limit then ["dropped=n-limit", "attrs=attrs[:limit]"] else []) ++
              ["clone", "add"])) := by
  unfold Otel.Gen.C10.addLink
  cases isNil <;> cases validCtx <;> cases recording <;>
    by_cases h1 : nLinkAttrs = 0 <;> by_cases h2 : nTraceState = 0 <;> by_cases h3 : limit = 0 <;>
    by_cases h4 : (limit > 0 ∧ nAttrs > limit) <;>
    simp [h1, h2, h3, h4] <;> (try omega) <;> (repeat' split) <;> (try simp_all) <;> omega

/-- `RecordError`: the exception attributes are appended to a capacity-limited copy of the caller's option slice
(`opts[:len:len]`), never in place; the stack trace (if asked for) is appended to that copy; one exception event -/
theorem gen_record_error_table (isNil errNil recording stackTrace : Bool) :
    Otel.Gen.C10.recordError isNil errNil recording stackTrace =
      (if isNil || errNil then ("return", [])
       else if !recording then ("return", ["lock", "deferUnlock"])
       else ("<end>", ["lock", "deferUnlock", "opts=append(opts[:n:n],type+message)", "config"] ++
              (if stackTrace then ["opts=append(opts,stacktrace)"] else []) ++ ["addEvent(exception)"])) := by
  cases isNil <;> cases errNil <;> cases recording <;> cases stackTrace <;> rfl

end Otel.C10.GenTie
