/-
C10 — specification predicates, written from the property statement and independent of the LTS's internals.
All are executable: they are the conclusions of the theorems in Props.lean and the oracle the driver evaluates on what
the real code was observed to do (controlled schedules and free-running histories).
-/
namespace Otel.C10.Spec

/-- "delivered to every registered processor exactly once", upper half: no processor got the span twice
(`procs` = the processor ids in the order of the OnEnd calls observed for ONE span) -/
def atMostOnce (procs : List Nat) : Bool := decide procs.Nodup

/-- lower half: every processor of `must` got it exactly once -/
def exactlyOnce (must procs : List Nat) : Bool := must.all (fun p => procs.count p == 1)

/-- "with a single end time": every delivered snapshot carries the same, set, end time -/
def singleEndTime : List (Option Nat) → Bool
  | [] => true
  | t :: r => t.isSome && r.all (· == t)

def allSame {α : Type} [BEq α] : List α → Bool
  | [] => true
  | a :: r => r.all (· == a)

/-! ### Free-running histories

Events in the order of their linearizable stamps (a global atomic counter; `…C` stamped before the call, `…R` after it
returned, `onEnd` at OnEnd entry). Mutator calls carry a call-unique id `i`:
SetAttributes call `i` sets `k` attributes with call-unique keys `(i, 0) … (i, k-1)` and all the shared keys to the
value `i`; AddEvent call `i` adds an event named `i`; SetName call `i` sets the name `i` (the span starts with name 0);
End call `i` passes the explicit timestamp `i` (≥ 1). -/
inductive Ev where
  | saC (i k : Nat) | saR (i : Nat)
  | evC (i : Nat) | evR (i : Nat)
  | nmC (i : Nat) | nmR (i : Nat)
  | stC (i code : Nat) | stR (i : Nat)
  | chC (i : Nat) | chR (i : Nat)          -- child Start with the span as parent
  | irC (i : Nat) | irR (i : Nat) (v : Bool)
  | enC (i : Nat) | enR (i : Nat)
  | onEnd (p sn : Nat)                     -- processor p, index of the (content of the) snapshot it was handed
  | other                                  -- provider / tracer calls (Tracer, Register…, ForceFlush): no obligation
  | panic | hang
deriving DecidableEq, Repr

/-- a snapshot as the processor saw it -/
structure HSnap where
  endTime : Nat                 -- 0 = zero time; End call id otherwise
  children : Nat
  name : Nat
  status : Nat
  uniq : List (Nat × Nat)       -- call-unique attribute keys present
  shared : List (Nat × Nat)     -- (shared key, value)
  events : List Nat
  immutable : Bool              -- re-read at the end of the run: identical to what OnEnd saw
deriving DecidableEq, Repr

def idx (p : Ev → Bool) (h : List Ev) : Option Nat := h.findIdx? p

def isEnC : Ev → Bool | .enC _ => true | _ => false
def isEnR : Ev → Bool | .enR _ => true | _ => false
def isOnEnd : Ev → Bool | .onEnd _ _ => true | _ => false

/-- `a` is strictly before `b`, where a missing `b` is "never" and a missing `a` is "never" too -/
def before (a b : Option Nat) : Bool :=
  match a, b with
  | some x, some y => x < y
  | some _, none => true
  | none, _ => false

structure Bounds where
  lo : Option Nat     -- first End called: the end label is after this
  hi : Option Nat     -- first OnEnd entry or End return: the end label is before this

def bounds (h : List Ev) : Bounds :=
  { lo := idx isEnC h, hi := idx (fun e => isOnEnd e || isEnR e) h }

/-- the call whose return event is at `r` certainly took effect before the span ended -/
def defBefore (b : Bounds) (r : Option Nat) : Bool := before r b.lo
/-- the call whose call event is at `c` certainly came after the span ended -/
def defAfter (b : Bounds) (c : Option Nat) : Bool :=
  match b.hi, c with
  | some y, some x => y < x
  | _, _ => false

def countWhere (p : Ev → Bool) (h : List Ev) (upTo : Option Nat) : Nat :=
  match upTo with
  | none => (h.filter p).length
  | some n => ((h.take n).filter p).length

/-- the whole-history oracle: the list of violated clauses (empty = ok).
`perm` = processors registered before the span started and never unregistered;
`finalRec`, `finalEnd`, `finalChildren` = IsRecording / EndTime / ChildSpanCount read after everything returned. -/
def histCheck (perm : List Nat) (nShared : Nat) (h : List Ev) (snaps : List HSnap)
    (finalRec : Bool) (finalEnd finalChildren : Nat) : List String :=
  let b := bounds h
  let ended := b.lo.isSome
  let oeProcs := h.filterMap fun | .onEnd p _ => some p | _ => none
  let oeSnaps := h.filterMap fun | .onEnd _ sn => some sn | _ => none
  let bad : List String := []
  let bad := if h.any (· == .panic) then "panic" :: bad else bad
  let bad := if h.any (· == .hang) then "hang" :: bad else bad
  -- exactly once
  let bad := if atMostOnce oeProcs then bad else "end_once:twice" :: bad
  let bad := if ended then (if exactlyOnce perm oeProcs then bad else "end_once:missing" :: bad)
             else (if oeProcs.isEmpty then bad else "end_once:delivered-without-end" :: bad)
  let bad := if allSame oeSnaps && oeSnaps.all (· < snaps.length) then bad else "single_snapshot" :: bad
  -- single end time
  let ends := h.filterMap fun | .enC i => some i | _ => none
  let bad := if singleEndTime (snaps.map fun s => if s.endTime = 0 then none else some s.endTime) then bad
             else "single_end_time" :: bad
  let bad := if snaps.all (fun s => s.endTime == finalEnd && ends.contains s.endTime) then bad
             else "end_time:snapshot-vs-span" :: bad
  let bad := if ended == (finalEnd != 0) then bad else "end_time:final" :: bad
  -- immutable
  let bad := if snaps.all (·.immutable) then bad else "snapshot_immutable" :: bad
  -- not recording after End returned
  let firstRet := idx isEnR h
  let bad := if finalRec == !ended then bad else "not_recording:final" :: bad
  let irBad : Bool := h.any fun
    | .irR i v =>
      let c := idx (· == .irC i) h
      let r := idx (· == .irR i v) h
      (v && before firstRet c) || (!v && before r b.lo) || (!v && !ended)
    | _ => false
  let bad := if irBad then "not_recording_after_end" :: bad else bad
  -- per snapshot: atomic visibility, events, name, status, children
  let perSnap (s : HSnap) : List String :=
    let sas := h.filterMap fun | .saC i k => some (i, k) | _ => none
    let atomicBad : Bool := sas.any fun (i, k) =>
      let c := (s.uniq.filter (·.1 == i)).length
      let dupFree := decide ((s.uniq.filter (·.1 == i)).Nodup)
      !(c == 0 || (c == k && dupFree)) ||
      (c == 0 && k > 0 && defBefore b (idx (· == .saR i) h)) ||
      (c != 0 && defAfter b (idx (· == .saC i k) h))
    let unknownKey : Bool := s.uniq.any fun (i, j) => !(sas.any fun (i', k) => i' == i && j < k)
    let present := sas.filter fun (i, k) => k == 0 || (s.uniq.filter (·.1 == i)).length == k
    let sharedBad : Bool :=
      match s.shared with
      | [] => nShared != 0 && sas.any fun (i, _) => defBefore b (idx (· == .saR i) h)
      | (_, v) :: _ =>
        !(s.shared.all (·.2 == v)) || s.shared.length != nShared || !(decide (s.shared.map (·.1)).Nodup) ||
        !(present.any (·.1 == v)) || defAfter b ((sas.find? (·.1 == v)).bind fun (i, k) => idx (· == .saC i k) h) ||
        -- a call that certainly took effect after call v returned overrides it
        sas.any fun (j, _) => j != v && defBefore b (idx (· == .saR j) h) &&
          before (idx (· == .saR v) h) (idx (fun e => match e with | .saC j' _ => j' == j | _ => false) h)
    let evs := h.filterMap fun | .evC i => some i | _ => none
    let evBad : Bool :=
      !(decide s.events.Nodup) || s.events.any (fun i => !evs.contains i || defAfter b (idx (· == .evC i) h)) ||
      evs.any (fun i => defBefore b (idx (· == .evR i) h) && !s.events.contains i) ||
      -- order: an event that returned before another was called cannot come after it
      (s.events.zipIdx.any fun (a, ia) => s.events.zipIdx.any fun (c, ic) =>
        ia < ic && before (idx (· == .evR c) h) (idx (· == .evC a) h))
    let nms := h.filterMap fun | .nmC i => some i | _ => none
    let nmBad : Bool :=
      (s.name != 0 && (!nms.contains s.name || defAfter b (idx (· == .nmC s.name) h))) ||
      nms.any fun j => j != s.name && defBefore b (idx (· == .nmR j) h) &&
        (s.name == 0 || before (idx (· == .nmR s.name) h) (idx (· == .nmC j) h))
    let sts := h.filterMap fun | .stC i c => some (i, c) | _ => none
    let stBad : Bool :=
      (s.status != 0 && !(sts.any fun (i, c) => c == s.status && !defAfter b (idx (· == .stC i c) h))) ||
      sts.any fun (i, c) => defBefore b (idx (· == .stR i) h) && c > s.status
    let isChC : Ev → Bool := fun | .chC _ => true | _ => false
    let isChR : Ev → Bool := fun | .chR _ => true | _ => false
    let lo := countWhere isChR h b.lo
    let hi := countWhere isChC h b.hi
    let chBad : Bool := !(lo ≤ s.children && s.children ≤ hi) || s.children != finalChildren
    (if atomicBad then ["atomic_visibility"] else []) ++ (if unknownKey then ["unknown-attribute"] else []) ++
    (if sharedBad then ["atomic_visibility:shared"] else []) ++ (if evBad then ["events"] else []) ++
    (if nmBad then ["name"] else []) ++ (if stBad then ["status"] else []) ++
    (if chBad then ["child_count"] else [])
  let bad := bad ++ (snaps.flatMap perSnap)
  -- child count when the span never ended
  let isChC : Ev → Bool := fun | .chC _ => true | _ => false
  let bad := if !ended && finalChildren != countWhere isChC h none then "child_count:final" :: bad else bad
  bad.eraseDups

def spanHistoryOK (perm : List Nat) (nShared : Nat) (h : List Ev) (snaps : List HSnap)
    (finalRec : Bool) (finalEnd finalChildren : Nat) : Bool :=
  (histCheck perm nShared h snaps finalRec finalEnd finalChildren).isEmpty

/-! ### Known finding F36 (data race; an OBSERVATION of the race detector, no theorem speaks about it)

Scenario `attrrace n dup conc`: a span with `n` attributes (`dup` of them set a second time, i.e. duplicate keys) is
ended; one goroutine reads the exported snapshot's `Attributes()`; if `conc`, another one calls `Attributes()` on the
ended span through the ReadWriteSpan it got in OnStart (otherwise it is a second reader of the snapshot: control).
`recordingSpan.Attributes()` → `dedupeAttrsFromRecord` rebuilds `s.attributes` IN PLACE (`unique := s.attributes[:0]`,
then `unique = append(unique, a)` / `unique[idx] = a` for every attribute) and the snapshot's slice aliases the same
backing array. The in-place writes happen for every attribute, duplicate keys or not (without duplicates each element
is rewritten with itself), so the race does not depend on `dup`; with no attribute at all nothing is written. -/
def F36_applies (nAttrs _dupKeys : Nat) (concurrentAttributes : Bool) : Bool :=
  concurrentAttributes && decide (nAttrs > 0)

/-- oracle of the `attrrace` line: `some true` = known finding F36 reproduced, `some false` = ok, `none` = FAIL
(a race where F36 does not apply, a race elsewhere, or a broken child run). `norace` is always ok: the race detector
may miss the race in a given run. -/
def attrRaceVerdict (nAttrs dupKeys : Nat) (conc : Bool) (obs : String) : Option Bool :=
  if obs == "norace" then some false
  else if obs == "race" && F36_applies nAttrs dupKeys conc then some true
  else none

/-! ### Finding F45 (fixed by 30d2a20; data race + mis-attribution; an OBSERVATION, no theorem speaks about data races)

Scenario `optsrace spare shared g`: `g` goroutines record errors on DIFFERENT spans, passing `opts...` where `opts` has
`spare` unused capacity and is one slice for all of them (`shared`) or one per goroutine. `RecordError` used to do
`opts = append(opts, WithAttributes(exception.type, exception.message))`: with spare capacity that wrote the caller's
backing array in place, outside any lock common to the two spans — a data race, and spans recorded each other's
exception.message. Now `opts = append(opts[:len(opts):len(opts)], …)`: always a fresh array. -/
/-- where the ORIGINAL code raced (used for the coverage accounting only) -/
def F45_applies (spare : Nat) (shared : Bool) (goroutines : Nat) : Bool :=
  shared && decide (spare > 0) && decide (goroutines ≥ 2)

/-- the only acceptable observation: no race reported and no span carrying another span's exception.message -/
def optsRaceOK (obs mis : String) : Bool := obs == "norace" && mis == "same"

end Otel.C10.Spec
