/-
C10 — the ghosts `hist` / `cut` / `childLabels` read back from the label sequence itself: for a run from the initial
state they are exactly "the mutator labels so far" and "the position of the first `endLock` label" — used to state
`snapshot_is_prefix_of_mutations_trace` without any ghost.
-/
import Otel.C10.Lemmas
namespace Otel.C10
open Otel Otel.C04

/-- the operations of the mutator labels of a label sequence, in label order -/
def mutsOf : List Lbl → List Op
  | [] => []
  | .mut op :: r => op :: mutsOf r
  | .endLockPanic _ _ typ msg :: r => .recordError (some (typ, msg)) [] :: mutsOf r   -- the panic's exception event
  | _ :: r => mutsOf r

/-- the number of addChild labels -/
def addsOf : List Lbl → Nat
  | [] => 0
  | .addChild _ :: r => addsOf r + 1
  | _ :: r => addsOf r

def isEndLock : Lbl → Bool
  | .endLock _ _ => true
  | .endLockPanic _ _ _ _ => true
  | _ => false

/-- the labels up to and including the first `endLock` / `endLockPanic` label (the first one is the one that ends the
span; a plain `endLock` contributes no operation, an `endLockPanic` contributes its exception event) -/
def beforeEnd : List Lbl → List Lbl
  | [] => []
  | l :: r => if isEndLock l then [l] else l :: beforeEnd r

variable {c : Cfg}

theorem step_hist (s s' : St) (l : Lbl) (hs : step c s l = some s') :
    s'.hist = s.hist ++ mutsOf [l] ∧ s'.childLabels = s.childLabels + addsOf [l] := by
  cases l <;> simp only [step] at hs
  all_goals (
    repeat' (split at hs)
    all_goals (try (simp at hs))
    all_goals (try subst hs)
    all_goals simp_all [mutsOf, addsOf])

theorem step_cut_stable (s s' : St) (l : Lbl) (hr : Reachable c s) (hs : step c s l = some s') (k : Nat × Nat)
    (hk : s.cut = some k) : s'.cut = some k := by
  have hi := inv_reachable c s hr
  have he : s.data.ended = true := by have := hi.cutE; rw [hk] at this; simpa using this.symm
  cases l <;> simp only [step] at hs
  all_goals (
    repeat' (split at hs)
    all_goals (try (simp at hs))
    all_goals (try subst hs)
    all_goals simp_all)

theorem step_cut_set (s s' : St) (l : Lbl) (hr : Reachable c s) (hs : step c s l = some s') (hk : s.cut = none) :
    (isEndLock l = true ∧ s'.cut = some (s.hist.length + (mutsOf [l]).length, s.childLabels) ∧ addsOf [l] = 0) ∨
    (isEndLock l = false ∧ s'.cut = none) := by
  have hi := inv_reachable c s hr
  have he : s.data.ended = false := by have := hi.cutE; rw [hk] at this; simpa using this.symm
  cases l <;> simp only [step] at hs
  all_goals (
    repeat' (split at hs)
    all_goals (try (simp at hs))
    all_goals (try subst hs)
    all_goals simp_all [isEndLock, mutsOf, addsOf])

theorem mutsOf_cons (l : Lbl) (r : List Lbl) : mutsOf (l :: r) = mutsOf [l] ++ mutsOf r := by
  cases l <;> simp [mutsOf]

theorem addsOf_cons (l : Lbl) (r : List Lbl) : addsOf (l :: r) = addsOf [l] + addsOf r := by
  cases l <;> simp [addsOf]; omega

theorem run_hist (s s' : St) (ls : List Lbl) (hs : run c s ls = some s') : s'.hist = s.hist ++ mutsOf ls := by
  induction ls generalizing s with
  | nil => simp [run, runWith] at hs; subst hs; simp [mutsOf]
  | cons l r ih =>
    simp only [run, runWith] at hs
    split at hs
    · rename_i s1 hs1
      rw [ih s1 hs, (step_hist s s1 l hs1).1, mutsOf_cons l r, List.append_assoc]
    · simp at hs

theorem run_cut_stable (s s' : St) (ls : List Lbl) (hr : Reachable c s) (hs : run c s ls = some s') (k : Nat × Nat)
    (hk : s.cut = some k) : s'.cut = some k := by
  induction ls generalizing s with
  | nil => simp [run, runWith] at hs; subst hs; exact hk
  | cons l r ih =>
    simp only [run, runWith] at hs
    split at hs
    · rename_i s1 hs1
      exact ih s1 (Reachable.step l hr hs1) hs (step_cut_stable s s1 l hr hs1 k hk)
    · simp at hs

/-- from a recording state: if the run ends the span, `cut` is the position of the first `endLock` label -/
theorem run_cut (s s' : St) (ls : List Lbl) (hr : Reachable c s) (hs : run c s ls = some s') (hk : s.cut = none)
    (k : Nat × Nat) (hk' : s'.cut = some k) :
    k = (s.hist.length + (mutsOf (beforeEnd ls)).length, s.childLabels + addsOf (beforeEnd ls)) := by
  induction ls generalizing s with
  | nil => simp [run, runWith] at hs; subst hs; rw [hk] at hk'; cases hk'
  | cons l r ih =>
    simp only [run, runWith] at hs
    split at hs
    · rename_i s1 hs1
      have hr1 := Reachable.step l hr hs1
      rcases step_cut_set s s1 l hr hs1 hk with ⟨hl, hc, ha⟩ | ⟨hl, hc⟩
      · have := run_cut_stable s1 s' r hr1 hs _ hc
        rw [this] at hk'; cases hk'
        simp [beforeEnd, hl, ha]
      · have := ih s1 hr1 hs hc
        have hh := step_hist s s1 l hs1
        rw [this, hh.1, hh.2]
        simp only [beforeEnd, hl, Bool.false_eq_true, if_false]
        rw [mutsOf_cons l (beforeEnd r), addsOf_cons l (beforeEnd r)]
        simp only [List.length_append]
        congr 1 <;> omega
    · simp at hs

theorem beforeEnd_prefix (ls : List Lbl) : ∃ more, mutsOf ls = mutsOf (beforeEnd ls) ++ more := by
  induction ls with
  | nil => exact ⟨[], by simp [beforeEnd, mutsOf]⟩
  | cons l r ih =>
    by_cases hl : isEndLock l = true
    · exact ⟨mutsOf r, by simp only [beforeEnd, hl, if_true]; exact mutsOf_cons l r⟩
    · obtain ⟨more, hm⟩ := ih
      refine ⟨more, ?_⟩
      have hl' : isEndLock l = false := by simpa using hl
      simp only [beforeEnd, hl', Bool.false_eq_true, if_false]
      rw [mutsOf_cons l r, mutsOf_cons l (beforeEnd r), hm, List.append_assoc]

end Otel.C10
