/-
C10 — lemmas about the heap model of argument memory (Alias.lean).
-/
import Otel.C10.Alias
namespace Otel.C10.Alias
open Otel Otel.C04

/-- a slice that can be read in `h` and whose reading survives allocations -/
def readable (h : Heap) (s : Slice) : Prop := s.len = 0 ∨ s.arr < h.length

theorem read_len0 (h : Heap) (s : Slice) (h0 : s.len = 0) : read h s = [] := by
  simp [read, h0]

theorem read_append (h xs : Heap) (s : Slice) (hr : readable h s) : read (h ++ xs) s = read h s := by
  rcases hr with h0 | hlt
  · simp [read_len0, h0]
  · simp [read, arrOf, List.getElem?_append_left hlt]

theorem read_set_ne (h : Heap) (a : Nat) (v : List KV) (s : Slice) (hne : s.len = 0 ∨ s.arr ≠ a) :
    read (h.set a v) s = read h s := by
  rcases hne with h0 | hne
  · simp [read_len0, h0]
  · simp [read, arrOf, List.getElem?_set_ne (Ne.symm hne)]

theorem readable_append (h xs : Heap) (s : Slice) (hr : readable h s) : readable (h ++ xs) s := by
  rcases hr with h0 | hlt
  · exact Or.inl h0
  · exact Or.inr (by simp; omega)

/-- what the fold of `NewEventConfig` maintains for the code as it is -/
structure CfgInv (h hc : Heap) (c : Slice) (vals : List KV) : Prop where
  ext : ∃ xs, hc = h ++ xs
  tight : c.cap = c.len
  fresh : c.len = 0 ∨ (h.length ≤ c.arr ∧ c.arr < hc.length)
  val : read hc c = vals
  vlen : vals.length = c.len

theorem applyEvent_inv (h hc : Heap) (c o : Slice) (vals : List KV) (hi : CfgInv h hc c vals) (ho : readable h o) :
    CfgInv h (applyEvent hc c o).1 (applyEvent hc c o).2 (vals ++ read h o) := by
  obtain ⟨xs, hxs⟩ := hi.ext
  have hro : read hc o = read h o := by rw [hxs]; exact read_append h xs o ho
  unfold applyEvent goAppend
  rw [hro]
  by_cases he : (read h o).isEmpty = true
  · have : read h o = [] := List.isEmpty_iff.mp he
    simp only [this, List.isEmpty_nil, if_true, List.append_nil]
    exact hi
  · have hne : read h o ≠ [] := by intro hh; simp [hh] at he
    have hpos : 0 < (read h o).length := List.length_pos_iff.mpr hne
    have hnot : ¬ (c.len + (read h o).length ≤ c.cap) := by rw [hi.tight]; omega
    simp only [he, hnot, if_false, Bool.false_eq_true]
    refine ⟨⟨xs ++ [read hc c ++ read h o], by simp [hxs]⟩, rfl, Or.inr ⟨by simp [hxs], by simp⟩, ?_, ?_⟩
    · simp only [read, arrOf]
      rw [List.getElem?_append_right (Nat.le_refl _)]
      simp only [Nat.sub_self, List.getElem?_cons_zero, Option.getD_some]
      have := hi.val; simp only [read, arrOf] at this
      rw [this]
      apply List.take_of_length_le
      simp [hi.vlen]
    · simp [hi.vlen]

theorem newEventConfig_fold (h : Heap) (opts : List Slice) (ho : ∀ o ∈ opts, readable h o) :
    ∀ (hc : Heap) (c : Slice) (vals : List KV), CfgInv h hc c vals →
      CfgInv h (opts.foldl (fun hc o => applyEvent hc.1 hc.2 o) (hc, c)).1
               (opts.foldl (fun hc o => applyEvent hc.1 hc.2 o) (hc, c)).2
               (vals ++ opts.flatMap (read h)) := by
  induction opts with
  | nil => intro hc c vals hi; simpa using hi
  | cons o rest ih =>
    intro hc c vals hi
    have h1 := applyEvent_inv h hc c o vals hi (ho o (by simp))
    have h2 := ih (fun o' ho' => ho o' (by simp [ho'])) _ _ _ h1
    simpa [List.foldl_cons, List.flatMap_cons, List.append_assoc] using h2

/-- **NewEventConfig copies**: for the code as it is, the attribute slice of the config is nil or a FRESH array holding
the concatenation of the options' values as they were at the call; the heap is only extended -/
theorem newEventConfig_copies (h : Heap) (opts : List Slice) (ho : ∀ o ∈ opts, readable h o) :
    CfgInv h (newEventConfig applyEvent h opts).1 (newEventConfig applyEvent h opts).2 (opts.flatMap (read h)) := by
  have h0 : CfgInv h h Slice.nil [] :=
    ⟨⟨[], by simp⟩, rfl, Or.inl rfl, by simp [read, Slice.nil], rfl⟩
  simpa [newEventConfig] using newEventConfig_fold h opts ho h Slice.nil [] h0


/-! ### ownership invariant -/

/-- an event's attribute slice is empty or lives in an array no caller buffer points to -/
def evOK (h : Heap) (bufs : List Slice) (sl : Slice) : Prop :=
  sl.len = 0 ∨ (sl.arr < h.length ∧ ∀ b ∈ bufs, b.arr ≠ sl.arr)

structure SpanOK (h : Heap) (bufs : List Slice) (s : RSpan) : Prop where
  ev : ∀ e ∈ s.events.queue, evOK h bufs e.attrs
  ln : ∀ l ∈ s.links.queue, evOK h bufs l.attrs

structure Inv (w : World) : Prop where
  bufs : ∀ b ∈ w.bufs, b.arr < w.heap.length
  spans : ∀ s ∈ w.spans, SpanOK w.heap w.bufs s
  exported : ∀ e ∈ w.exported, SpanOK w.heap w.bufs e.2

theorem mem_add {α : Type} (cap : Int) (q : EQ α) (v x : α) (hx : x ∈ (q.add cap v).queue) : x ∈ q.queue ∨ x = v := by
  unfold EQ.add at hx
  split at hx
  · exact Or.inl hx
  · split at hx
    · simp only [List.mem_append, List.mem_singleton] at hx
      rcases hx with hx | hx
      · exact Or.inl (List.mem_of_mem_drop hx)
      · exact Or.inr hx
    · simp only [List.mem_append, List.mem_singleton] at hx
      exact hx

theorem evOK_append (h xs : Heap) (bufs : List Slice) (sl : Slice) (hk : evOK h bufs sl) : evOK (h ++ xs) bufs sl := by
  rcases hk with h0 | ⟨h1, h2⟩
  · exact Or.inl h0
  · exact Or.inr ⟨by simp; omega, h2⟩

theorem evOK_set (h : Heap) (a : Nat) (v : List KV) (bufs : List Slice) (sl : Slice) (hk : evOK h bufs sl) :
    evOK (h.set a v) bufs sl := by
  rcases hk with h0 | ⟨h1, h2⟩
  · exact Or.inl h0
  · exact Or.inr ⟨by simpa using h1, h2⟩

theorem evOK_mk (h : Heap) (x : List KV) (bufs : List Slice) (nb : Slice) (hnb : nb.arr = h.length) (sl : Slice)
    (hk : evOK h bufs sl) : evOK (h ++ [x]) (bufs ++ [nb]) sl := by
  rcases hk with h0 | ⟨h1, h2⟩
  · exact Or.inl h0
  · refine Or.inr ⟨by simp; omega, fun b hb => ?_⟩
    rcases List.mem_append.mp hb with hb | hb
    · exact h2 b hb
    · simp only [List.mem_singleton] at hb; subst hb; omega

theorem evOK_readable (h : Heap) (bufs : List Slice) (sl : Slice) (hk : evOK h bufs sl) : readable h sl := by
  rcases hk with h0 | ⟨h1, _⟩
  · exact Or.inl h0
  · exact Or.inr h1

theorem spanOK_append (h xs : Heap) (bufs : List Slice) (s : RSpan) (hk : SpanOK h bufs s) : SpanOK (h ++ xs) bufs s :=
  ⟨fun e he => evOK_append h xs bufs _ (hk.ev e he), fun l hl => evOK_append h xs bufs _ (hk.ln l hl)⟩

theorem spanOK_set (h : Heap) (a : Nat) (v : List KV) (bufs : List Slice) (s : RSpan) (hk : SpanOK h bufs s) :
    SpanOK (h.set a v) bufs s :=
  ⟨fun e he => evOK_set h a v bufs _ (hk.ev e he), fun l hl => evOK_set h a v bufs _ (hk.ln l hl)⟩

theorem spanOK_mk (h : Heap) (x : List KV) (bufs : List Slice) (nb : Slice) (hnb : nb.arr = h.length) (s : RSpan)
    (hk : SpanOK h bufs s) : SpanOK (h ++ [x]) (bufs ++ [nb]) s :=
  ⟨fun e he => evOK_mk h x bufs nb hnb _ (hk.ev e he), fun l hl => evOK_mk h x bufs nb hnb _ (hk.ln l hl)⟩

theorem capSlice_arr (limit : Int) (s : Slice) : (capSlice limit s).1.len = 0 ∨ (capSlice limit s).1.arr = s.arr := by
  unfold capSlice
  split
  · exact Or.inl rfl
  · split
    · exact Or.inr rfl
    · exact Or.inr rfl

theorem capSlice_len_le (limit : Int) (s : Slice) : (capSlice limit s).1.len ≤ s.len := by
  unfold capSlice
  split
  · simp [Slice.nil]
  · split
    · rename_i h; simp only; omega
    · exact Nat.le_refl _

/-- the event `addEvent` stores points to a fresh array (or is empty); everything else is untouched -/
theorem addEvent_ok (lim : Limits) (h : Heap) (bufs : List Slice) (s : RSpan) (name : Bytes) (opts : List Slice)
    (ho : ∀ o ∈ opts, readable h o) (hb : ∀ b ∈ bufs, b.arr < h.length) (hk : SpanOK h bufs s) :
    (∃ xs, (addEvent applyEvent lim h s name opts).1 = h ++ xs) ∧
    SpanOK (addEvent applyEvent lim h s name opts).1 bufs (addEvent applyEvent lim h s name opts).2 := by
  have hc := newEventConfig_copies h opts ho
  obtain ⟨xs, hxs⟩ := hc.ext
  refine ⟨⟨xs, hxs⟩, ?_⟩
  unfold addEvent
  simp only
  have hk' : SpanOK (newEventConfig applyEvent h opts).1 bufs s := by rw [hxs]; exact spanOK_append h xs bufs s hk
  refine ⟨fun e he => ?_, hk'.ln⟩
  rcases mem_add _ _ _ _ he with he | he
  · exact hk'.ev e he
  · subst he
    simp only
    rcases capSlice_arr lim.perEvent (newEventConfig applyEvent h opts).2 with h0 | h1
    · exact Or.inl h0
    · rcases hc.fresh with f0 | ⟨f1, f2⟩
      · exact Or.inl (by have := capSlice_len_le lim.perEvent (newEventConfig applyEvent h opts).2; omega)
      · refine Or.inr ⟨by rw [h1]; exact f2, fun b hbm => ?_⟩
        have := hb b hbm
        rw [h1]; omega


theorem bufOf_readable (w : World) (hi : Inv w) (b : Nat) : readable w.heap (bufOf w b) := by
  unfold bufOf
  cases hb : w.bufs[b]? with
  | none => exact Or.inl rfl
  | some sl => exact Or.inr (hi.bufs sl (List.mem_of_getElem? hb))

theorem optBuf_readable (w : World) (hi : Inv w) (b : Option Nat) : readable w.heap (optBuf w b) := by
  cases b with
  | none => exact Or.inl rfl
  | some b => exact bufOf_readable w hi b

theorem capSlice_readable (h : Heap) (limit : Int) (sl : Slice) (hr : readable h sl) : readable h (capSlice limit sl).1 := by
  rcases capSlice_arr limit sl with h0 | h1
  · exact Or.inl h0
  · rcases hr with r0 | r1
    · exact Or.inl (by have := capSlice_len_le limit sl; omega)
    · exact Or.inr (by rw [h1]; exact r1)

/-- `slices.Clone`: a fresh array (or nil) holding the values the argument had at the call -/
theorem cloneLink_ok (h : Heap) (bufs : List Slice) (sl : Slice) (hb : ∀ b ∈ bufs, b.arr < h.length) :
    (∃ xs, (cloneLink h sl).1 = h ++ xs) ∧ evOK (cloneLink h sl).1 bufs (cloneLink h sl).2 ∧
    read (cloneLink h sl).1 (cloneLink h sl).2 = read h sl := by
  unfold cloneLink
  by_cases h0 : sl.len = 0
  · simp only [h0, if_true]
    exact ⟨⟨[], by simp⟩, Or.inl rfl, by simp [read_len0, h0, Slice.nil]⟩
  · simp only [h0, if_false]
    refine ⟨⟨_, rfl⟩, Or.inr ⟨by simp, fun b hbm => ?_⟩, ?_⟩
    · have := hb b hbm; simp only; omega
    · simp only [read, arrOf]
      rw [List.getElem?_append_right (Nat.le_refl _)]
      simp [List.take_take]

theorem addLink_ok (lim : Limits) (h : Heap) (bufs : List Slice) (s : RSpan) (sc : SC) (attrs : Slice)
    (hb : ∀ b ∈ bufs, b.arr < h.length) (hk : SpanOK h bufs s) :
    (∃ xs, (addLink cloneLink lim h s sc attrs).1 = h ++ xs) ∧
    SpanOK (addLink cloneLink lim h s sc attrs).1 bufs (addLink cloneLink lim h s sc attrs).2 := by
  unfold addLink
  split
  · exact ⟨⟨[], by simp⟩, hk⟩
  · split
    · exact ⟨⟨[], by simp⟩, hk⟩
    · obtain ⟨⟨xs, hxs⟩, hev, _⟩ := cloneLink_ok h bufs (capSlice lim.perLink attrs).1 hb
      refine ⟨⟨xs, hxs⟩, ?_⟩
      simp only
      have hk' : SpanOK (cloneLink h (capSlice lim.perLink attrs).1).1 bufs s := by
        rw [hxs]; exact spanOK_append h xs bufs s hk
      refine ⟨hk'.ev, fun l hl => ?_⟩
      rcases mem_add _ _ _ _ hl with hl | hl
      · exact hk'.ln l hl
      · subst hl; exact hev

theorem spanOK_base (h : Heap) (bufs : List Slice) (s : RSpan) (b : C04.St) (hk : SpanOK h bufs s) :
    SpanOK h bufs { s with base := b } := ⟨hk.ev, hk.ln⟩

/-- replacing one span and extending the heap keeps the invariant -/
theorem inv_setSpan (w : World) (hi : Inv w) (i : Nat) (xs : Heap) (s' : RSpan)
    (hs : SpanOK (w.heap ++ xs) w.bufs s') : Inv (setSpan w i (w.heap ++ xs) s') :=
  ⟨fun b hb => by have := hi.bufs b hb; simp [setSpan]; omega,
   fun s hs' => by
     simp only [setSpan] at hs'
     rcases List.mem_or_eq_of_mem_set hs' with h1 | h1
     · exact spanOK_append _ _ _ _ (hi.spans s h1)
     · subst h1; exact hs,
   fun e he => spanOK_append _ _ _ _ (hi.exported e he)⟩

/-- newRecordingSpan's `for l := range config.Links() { s.AddLink(l) }` -/
theorem startLinks_ok (lim : Limits) (w : World) (hi : Inv w) :
    ∀ (ls : List (SC × Option Nat)) (p : Heap × RSpan) (xs0 : Heap), p.1 = w.heap ++ xs0 →
        SpanOK p.1 w.bufs p.2 →
        (∃ xs, (ls.foldl (fun (hs : Heap × RSpan) l => addLink cloneLink lim hs.1 hs.2 l.1 (optBuf w l.2)) p).1
            = w.heap ++ xs) ∧
        SpanOK (ls.foldl (fun (hs : Heap × RSpan) l => addLink cloneLink lim hs.1 hs.2 l.1 (optBuf w l.2)) p).1
          w.bufs (ls.foldl (fun (hs : Heap × RSpan) l => addLink cloneLink lim hs.1 hs.2 l.1 (optBuf w l.2)) p).2 := by
  intro ls
  induction ls with
  | nil => intro p xs0 e0 k0; exact ⟨⟨xs0, e0⟩, k0⟩
  | cons l rest ih =>
    intro p xs0 e0 k0
    have hb0 : ∀ b ∈ w.bufs, b.arr < p.1.length := by
      intro b hb; have := hi.bufs b hb; rw [e0]; simp; omega
    obtain ⟨⟨ys, hys⟩, k1⟩ := addLink_ok lim p.1 w.bufs p.2 l.1 (optBuf w l.2) hb0 k0
    simp only [List.foldl_cons]
    exact ih (addLink cloneLink lim p.1 p.2 l.1 (optBuf w l.2)) (xs0 ++ ys) (by rw [hys, e0, List.append_assoc]) k1

theorem inv_step (lim : Limits) (w : World) (hi : Inv w) (op : AOp) : Inv (step cur lim w op) := by
  cases op with
  | mk kvs spare =>
    simp only [step]
    exact ⟨fun b hb => by
             rcases List.mem_append.mp hb with hb | hb
             · have := hi.bufs b hb; simp; omega
             · simp only [List.mem_singleton] at hb; subst hb; simp,
           fun s hs => spanOK_mk _ _ _ _ rfl s (hi.spans s hs),
           fun e he => spanOK_mk _ _ _ _ rfl e.2 (hi.exported e he)⟩
  | wr b i kv =>
    simp only [step]
    split
    · exact hi
    · split
      · exact ⟨fun b hb => by simpa using hi.bufs b hb,
               fun s hs => spanOK_set _ _ _ _ s (hi.spans s hs),
               fun e he => spanOK_set _ _ _ _ e.2 (hi.exported e he)⟩
      · exact hi
  | start name attrBufs links =>
    simp only [step, cur_lk]
    obtain ⟨⟨xs, hxs⟩, hok⟩ := startLinks_ok lim w hi links (w.heap, { base := C04.init name }) [] (by simp) ⟨by simp, by simp⟩
    refine ⟨fun b hb => ?_, fun s hs => ?_, fun e he => ?_⟩
    · have := hi.bufs b hb; simp only; rw [hxs]; simp; omega
    · simp only at hs ⊢
      rcases List.mem_append.mp hs with hs | hs
      · rw [hxs]; exact spanOK_append _ _ _ _ (hi.spans s hs)
      · simp only [List.mem_singleton] at hs
        subst hs
        exact spanOK_base _ _ _ _ hok
    · simp only; rw [hxs]; exact spanOK_append _ _ _ _ (hi.exported e he)
  | setAttrs i b =>
    simp only [step]
    split
    · exact hi
    · rename_i s hs
      have := inv_setSpan w hi i [] { s with base := C04.step lim s.base (.setAttrs (read w.heap (bufOf w b))) }
        (by simpa using spanOK_base _ _ s _ (hi.spans s (List.mem_of_getElem? hs)))
      simpa using this
  | addEvent i name bufs =>
    simp only [step, cur_ae]
    split
    · exact hi
    · rename_i s hs
      split
      · exact hi
      · have hk := hi.spans s (List.mem_of_getElem? hs)
        have ho : ∀ o ∈ bufs.map (bufOf w), readable w.heap o := by
          intro o hom
          obtain ⟨b, _, rfl⟩ := List.mem_map.mp hom
          exact bufOf_readable w hi b
        obtain ⟨⟨xs, hxs⟩, hok⟩ := addEvent_ok lim w.heap w.bufs s name _ ho hi.bufs hk
        have := inv_setSpan w hi i xs (addEvent applyEvent lim w.heap s name (bufs.map (bufOf w))).2 (by rw [← hxs]; exact hok)
        rw [← hxs] at this
        exact this
  | recordError i err bufs =>
    simp only [step, cur_ae]
    split
    · exact hi
    · exact hi
    · rename_i s typ msg hs
      split
      · exact hi
      · have hk := hi.spans s (List.mem_of_getElem? hs)
        let exc : List KV := [⟨excTypeKey, .str typ⟩, ⟨excMsgKey, .str msg⟩]
        let h1 := w.heap ++ [exc]
        let opts := bufs.map (bufOf w) ++ [(⟨w.heap.length, 2, 2⟩ : Slice)]
        have ho1 : ∀ o ∈ opts, readable h1 o := by
          intro o hom
          rcases List.mem_append.mp hom with hom | hom
          · obtain ⟨b, _, rfl⟩ := List.mem_map.mp hom
            exact readable_append _ _ _ (bufOf_readable w hi b)
          · simp only [List.mem_singleton] at hom; subst hom; exact Or.inr (by simp [h1])
        obtain ⟨xs, hxs⟩ := (newEventConfig_copies h1 opts ho1).ext
        have ho2 : ∀ o ∈ opts, readable (h1 ++ xs) o := fun o hom => readable_append _ _ _ (ho1 o hom)
        have hb2 : ∀ b ∈ w.bufs, b.arr < (h1 ++ xs).length := by
          intro b hb; have := hi.bufs b hb; simp [h1]; omega
        have hk2 : SpanOK (h1 ++ xs) w.bufs s := spanOK_append _ _ _ _ (spanOK_append _ _ _ _ hk)
        obtain ⟨⟨ys, hys⟩, hok⟩ := addEvent_ok lim (h1 ++ xs) w.bufs s excName opts ho2 hb2 hk2
        have := inv_setSpan w hi i ([exc] ++ xs ++ ys) (addEvent applyEvent lim (h1 ++ xs) s excName opts).2
          (by rw [hys] at hok; simpa [h1, List.append_assoc] using hok)
        have e : w.heap ++ ([exc] ++ xs ++ ys) = (addEvent applyEvent lim (h1 ++ xs) s excName opts).1 := by
          rw [hys]; simp [h1, List.append_assoc]
        rw [e, ← hxs] at this
        exact this
  | addLink i sc b =>
    simp only [step, cur_lk]
    split
    · exact hi
    · rename_i s hs
      obtain ⟨⟨xs, hxs⟩, hok⟩ := addLink_ok lim w.heap w.bufs s sc (optBuf w b) hi.bufs (hi.spans s (List.mem_of_getElem? hs))
      have := inv_setSpan w hi i xs (addLink cloneLink lim w.heap s sc (optBuf w b)).2 (by rw [← hxs]; exact hok)
      rw [← hxs] at this
      exact this
  | plain i op =>
    simp only [step]
    split
    · exact hi
    · rename_i s hs
      split
      · have := inv_setSpan w hi i [] { s with base := C04.step lim s.base op }
          (by simpa using spanOK_base _ _ s _ (hi.spans s (List.mem_of_getElem? hs)))
        simpa using this
      · exact hi
  | end_ i =>
    simp only [step]
    split
    · exact hi
    · rename_i s hs
      split
      · exact hi
      · have hk : SpanOK w.heap w.bufs { s with base := C04.step lim s.base .end_ } :=
          spanOK_base _ _ s _ (hi.spans s (List.mem_of_getElem? hs))
        have := inv_setSpan w hi i [] { s with base := C04.step lim s.base .end_ } (by simpa using hk)
        simp only [List.append_nil] at this
        refine ⟨this.bufs, this.spans, fun e he => ?_⟩
        rcases List.mem_append.mp he with he | he
        · exact hi.exported e he
        · simp only [List.mem_singleton] at he; subst he; exact hk

theorem inv_reachable (lim : Limits) (w : World) (h : Reachable lim w) : Inv w := by
  induction h with
  | init => exact ⟨by simp, by simp, by simp⟩
  | step op _ ih => exact inv_step lim _ ih op


theorem capSlice_read (h : Heap) (limit : Int) (c : Slice) (hl : (read h c).length = c.len) :
    read h (capSlice limit c).1 = (capAttrs limit (read h c)).1 ∧ (capSlice limit c).2 = (capAttrs limit (read h c)).2 := by
  unfold capSlice capAttrs
  rw [hl]
  split
  · simp [read, Slice.nil]
  · split
    · rename_i h1 h2
      refine ⟨?_, rfl⟩
      simp only [read]
      rw [List.take_take]
      congr 1
      omega
    · exact ⟨rfl, rfl⟩

theorem add_map {α β : Type} (f : α → β) (cap : Int) (q : EQ α) (v : α) :
    (⟨(q.add cap v).queue.map f, (q.add cap v).dropped⟩ : EQ β) = (⟨q.queue.map f, q.dropped⟩ : EQ β).add cap (f v) := by
  unfold EQ.add
  split
  · rfl
  · simp only [List.length_map]
    split
    · simp
    · simp




/-- the operations that touch only by-value fields -/
def isBaseOp : Op → Bool
  | .setAttrs _ | .setStatus _ _ | .setName _ | .end_ => true
  | _ => false

theorem view_base_step (lim : Limits) (h : Heap) (s : RSpan) (op : Op) (hb : isBaseOp op = true) :
    view h { s with base := C04.step lim s.base op } = C04.step lim (view h s) op := by
  cases op with
  | setAttrs kvs =>
    simp only [C04.step, view]
    by_cases h1 : kvs.isEmpty = true
    · simp [h1]
    · by_cases h2 : s.base.ended = true <;> simp [h1, h2]
  | setStatus c d => simp only [C04.step, view]; by_cases h2 : s.base.ended = true <;> simp [h2]
  | setName n => simp only [C04.step, view]; by_cases h2 : s.base.ended = true <;> simp [h2]
  | end_ => simp only [C04.step, view]; by_cases h2 : s.base.ended = true <;> simp [h2]
  | addEvent _ _ => simp [isBaseOp] at hb
  | addLink _ _ => simp [isBaseOp] at hb
  | recordError _ _ => simp [isBaseOp] at hb


/-- allocations do not change what a reader of a span sees -/
theorem view_append (h xs : Heap) (bufs : List Slice) (s : RSpan) (hk : SpanOK h bufs s) : view (h ++ xs) s = view h s := by
  simp only [view]
  have hE : ∀ e ∈ s.events.queue, derefE (h ++ xs) e = derefE h e := fun e he => by
    simp only [derefE]; rw [read_append _ _ _ (evOK_readable _ _ _ (hk.ev e he))]
  have hL : ∀ l ∈ s.links.queue, derefL (h ++ xs) l = derefL h l := fun l hl => by
    simp only [derefL]; rw [read_append _ _ _ (evOK_readable _ _ _ (hk.ln l hl))]
  rw [List.map_congr_left hE, List.map_congr_left hL]

/-- recordingSpan.addEvent on a recording span, at any heap: the new event holds the options' values as they are now -/
theorem addEvent_view (lim : Limits) (h : Heap) (bufs : List Slice) (s : RSpan) (name : Bytes) (opts : List Slice)
    (ho : ∀ o ∈ opts, readable h o) (hk : SpanOK h bufs s) :
    view (addEvent applyEvent lim h s name opts).1 (addEvent applyEvent lim h s name opts).2 =
      { view h s with events := (view h s).events.add lim.eventCount (mkEvent lim name (opts.flatMap (read h))) } := by
  have hc := newEventConfig_copies h opts ho
  obtain ⟨xs, hxs⟩ := hc.ext
  have hcap := capSlice_read (newEventConfig applyEvent h opts).1 lim.perEvent
    (newEventConfig applyEvent h opts).2 (by rw [hc.val]; exact hc.vlen)
  rw [hc.val] at hcap
  have hv := view_append h xs bufs s hk
  rw [← hxs] at hv
  simp only [view] at hv
  simp only [addEvent, view]
  rw [add_map (derefE (newEventConfig applyEvent h opts).1)]
  have h1 := congrArg C04.St.events hv
  have h2 := congrArg C04.St.links hv
  simp only at h1 h2
  rw [h1, h2]
  simp only [derefE, mkEvent, hcap.1, hcap.2]

/-- `slices.Clone` after the per-link cap, on the view -/
theorem addLink_view (lim : Limits) (h : Heap) (bufs : List Slice) (s : RSpan) (sc : SC) (attrs : Slice)
    (hb : ∀ b ∈ bufs, b.arr < h.length) (hk : SpanOK h bufs s) (hlen : (read h attrs).length = attrs.len) :
    view (addLink cloneLink lim h s sc attrs).1 (addLink cloneLink lim h s sc attrs).2 =
      C04.step lim (view h s) (.addLink sc (read h attrs)) := by
  have hemp : (read h attrs).isEmpty = (attrs.len == 0) := by
    rw [← hlen]; cases read h attrs <;> simp
  unfold addLink
  simp only [C04.step, hemp]
  split
  · rfl
  · have hv : (view h s).ended = s.base.ended := rfl
    rw [hv]
    split
    · rfl
    · obtain ⟨⟨xs, hxs⟩, _, hrd⟩ := cloneLink_ok h bufs (capSlice lim.perLink attrs).1 hb
      have hcap := capSlice_read h lim.perLink attrs hlen
      have hvw := view_append h xs bufs s hk
      rw [← hxs] at hvw
      simp only [view] at hvw
      simp only [view]
      rw [add_map (derefL (cloneLink h (capSlice lim.perLink attrs).1).1)]
      have h1 := congrArg C04.St.events hvw
      have h2 := congrArg C04.St.links hvw
      simp only at h1 h2
      rw [h1, h2]
      simp only [derefL, mkLink, hrd, hcap.1, hcap.2]


end Otel.C10.Alias
