/-
C10 — deterministic scheduler over the LTS, used by the driver to replay *controlled schedules* (harness leg `sched`).
The harness executes a script one op at a time; `End` calls run in their own goroutines and are stopped at gates the
harness controls (the `executionTracerTaskEnd` hook, and SpanProcessors whose OnEnd blocks). After every op each End
goroutine is either blocked at a gate or has returned (detected exactly, by channel hand-shakes, not by timing).
`applyOp` takes exactly the LTS labels that correspond (`applyOp_reachable`), so every state it produces is covered by
the theorems.
-/
import Otel.C10.Model
namespace Otel.C10
open Otel Otel.C04

structure Gates where
  task : Bool      -- the task-end hook blocks (only meaningful when `hasTask`)
  proc : Bool      -- every OnEnd of the span under test blocks
  errType : Bytes := []   -- reflect type string of the harness's gate error (parameter, as in C04)
deriving Repr

inductive SOp where
  | mut (op : Op)
  | child (d : Decision)  -- child Start; `d` = what the sampler decides for the child
  | isRec
  | other                 -- Tracer() / ForceFlush: no effect on the span
  | reg (p : Nat)
  | unreg (p : Nat)
  | end_ (k : Nat)        -- start End call k (timestamp k); run it to its first gate or to its return
  | gate (k : Nat)        -- release the gate call k is blocked at; run to the next gate or to its return
  | recErrG (k : Nat) (msg : Bytes)   -- goroutine k: RecordError(err) whose Error() parks on a gate (obs `E`)
  | endPanic (k : Nat) (msg : Bytes)  -- goroutine k: `defer span.End(ts k); panic(err)`, same gate error
deriving Repr, DecidableEq

/-- take a label if enabled -/
def tryStep (c : Cfg) (s : St) (l : Lbl) : St := (step c s l).getD s

/-- run call `k` forward until it blocks at a gate (`T`, `P<p>`) or returns (`r`) -/
def forward (c : Cfg) (g : Gates) : Nat → St → Nat → St × String
  | 0, s, _ => (s, "X")
  | fuel + 1, s, k =>
    if k ∈ s.tasking then
      if c.hasTask && g.task then (s, "T") else forward c g fuel (tryStep c s (.taskEnd k)) k
    else if k ∈ s.loading then forward c g fuel (tryStep c s (.loadProcs k)) k
    else match s.snapping.find? (·.1 == k) with
      | some (_, ps) => forward c g fuel (tryStep c s (.snapshot k ps)) k
      | none =>
        match s.delivering.find? (·.1 == k) with
        | some (_, sn, p :: rest) =>
          let s' := tryStep c s (.onEnd k sn p rest)
          if g.proc then (s', "P" ++ toString p) else forward c g fuel s' k
        | some (_, sn, []) => (tryStep c s (.endReturn k sn), "r")
        | none => if k ∈ s.returned ∨ k ∈ s.returnedEarly then (s, "r") else (s, "X")

def fuelFor (s : St) : Nat := 16 + 2 * s.procs.length

def applyOp (c : Cfg) (g : Gates) (s : St) : SOp → St × String
  | .mut op => (tryStep c s (.mut op), "-")
  | .child d => (tryStep c s (.addChild d), "-")
  | .isRec => (tryStep c s .access, if s.data.ended then "0" else "1")
  | .other => (tryStep c s .access, "-")
  | .reg p => (tryStep c s (.register p), "-")
  | .unreg p => (tryStep c s (.unregister p), "-")
  | .end_ k =>
    if k ∈ s.ids then (s, "X")
    else
      let s1 := tryStep c (tryStep c s (.endCall k k)) (.endLock k k)
      forward c g (fuelFor s1) s1 k
  | .gate k =>
    if k ∈ s.tasking then
      let s1 := tryStep c s (.taskEnd k)
      forward c g (fuelFor s1) s1 k
    else if (s.delivering.find? (·.1 == k)).isSome then forward c g (fuelFor s) s k
    else (s, "-")
  | .recErrG _ _ => (s, "X")     -- handled by `applyOp2`
  | .endPanic _ _ => (s, "X")

/-! ### user code parked INSIDE a critical section

`err.Error()` of RecordError and `fmt.Sprint(recovered)` of a panicking End run while the span mutex is held. The
harness parks them on a gate (obs `E`). While a call is parked there every other span method blocks on the mutex, so
the script may issue exactly one more op (`pendable`), which is started but not awaited (obs `~`, whatever happens —
no timing verdict), and must then release the gate: the parked call's critical section is the next label, the pending
op runs after it. The observation of the release is `<parked call>+<pending op>`. -/
structure Aux where
  parked : Option (Nat × Bytes × Bool) := none   -- call id, message, is it a panicking End
  pending : Option SOp := none
  used : List Nat := []                          -- ids of the gated RecordError calls
deriving Repr

def pendable : SOp → Bool
  | .mut _ | .child _ | .isRec | .end_ _ => true
  | _ => false

def recErrOp (g : Gates) (msg : Bytes) : Lbl := .mut (.recordError (some (g.errType, msg)) [])

/-- an op issued while nothing is parked inside a critical section -/
def startOp (c : Cfg) (g : Gates) (s : St) (a : Aux) : SOp → (St × Aux) × String
  | .recErrG k msg =>
    if k ∈ s.ids ∨ k ∈ a.used then ((s, a), "X")
    else if s.data.ended then ((tryStep c s (recErrOp g msg), { a with used := k :: a.used }), "r")
    else ((s, { a with parked := some (k, msg, false), used := k :: a.used }), "E")
  | .endPanic k msg =>
    if k ∈ s.ids ∨ k ∈ a.used then ((s, a), "X")
    else
      let s1 := tryStep c s (.endCall k k)
      if s.data.ended then
        let s2 := tryStep c s1 (.endLockPanic k k g.errType msg)
        let r := forward c g (fuelFor s2) s2 k
        ((r.1, a), r.2)
      else ((s1, { a with parked := some (k, msg, true) }), "E")
  | .end_ k =>
    if k ∈ a.used then ((s, a), "X") else let r := applyOp c g s (.end_ k); ((r.1, a), r.2)
  | op => let r := applyOp c g s op; ((r.1, a), r.2)

/-- the gate inside the critical section is released: the parked call's critical section happens now -/
def release (c : Cfg) (g : Gates) (s : St) (k : Nat) (msg : Bytes) (isEnd : Bool) : St × String :=
  if isEnd then
    let s1 := tryStep c s (.endLockPanic k k g.errType msg)
    forward c g (fuelFor s1) s1 k
  else (tryStep c s (recErrOp g msg), "r")

def applyOp2 (c : Cfg) (g : Gates) (s : St) (a : Aux) (op : SOp) : (St × Aux) × String :=
  match a.parked with
  | none => startOp c g s a op
  | some (k, msg, isEnd) =>
    if op = .gate k then
      let r1 := release c g s k msg isEnd
      let a1 : Aux := { a with parked := none, pending := none }
      match a.pending with
      | none => ((r1.1, a1), r1.2)
      | some p =>
        let r2 := startOp c g r1.1 a1 p
        (r2.1, r1.2 ++ "+" ++ r2.2)
    else if a.pending.isNone && pendable op then ((s, { a with pending := some op }), "~")
    else ((s, a), "!")

def runScript2 (c : Cfg) (g : Gates) : St → Aux → List SOp → (St × Aux) × List String
  | s, a, [] => ((s, a), [])
  | s, a, op :: r =>
    let x := applyOp2 c g s a op
    let y := runScript2 c g x.1.1 x.1.2 r
    (y.1, x.2 :: y.2)

def runScript (c : Cfg) (g : Gates) : St → List SOp → St × List String
  | s, [] => (s, [])
  | s, op :: r =>
    let (s1, o) := applyOp c g s op
    let (s2, os) := runScript c g s1 r
    (s2, o :: os)

theorem tryStep_reachable {c : Cfg} (s : St) (l : Lbl) (h : Reachable c s) : Reachable c (tryStep c s l) := by
  unfold tryStep
  cases hs : step c s l with
  | none => simpa using h
  | some s' => simpa using Reachable.step l h hs

theorem forward_reachable {c : Cfg} (g : Gates) (fuel : Nat) (s : St) (k : Nat) (h : Reachable c s) :
    Reachable c (forward c g fuel s k).1 := by
  induction fuel generalizing s with
  | zero => exact h
  | succ n ih =>
    simp only [forward]
    repeat' split
    all_goals first
      | exact h
      | exact ih _ (tryStep_reachable _ _ h)
      | exact tryStep_reachable _ _ h

theorem applyOp_reachable {c : Cfg} (g : Gates) (s : St) (op : SOp) (h : Reachable c s) :
    Reachable c (applyOp c g s op).1 := by
  cases op <;> simp only [applyOp]
  all_goals repeat' split
  all_goals first
    | exact h
    | exact tryStep_reachable _ _ h
    | exact forward_reachable g _ _ _ (tryStep_reachable _ _ (tryStep_reachable _ _ h))
    | exact forward_reachable g _ _ _ (tryStep_reachable _ _ h)
    | exact forward_reachable g _ _ _ h

theorem startOp_reachable {c : Cfg} (g : Gates) (s : St) (a : Aux) (op : SOp) (h : Reachable c s) :
    Reachable c (startOp c g s a op).1.1 := by
  cases op <;> simp only [startOp]
  all_goals repeat' split
  all_goals (try dsimp only)
  all_goals first
    | exact h
    | exact applyOp_reachable g s _ h
    | exact tryStep_reachable _ _ h
    | exact forward_reachable g _ _ _ (tryStep_reachable _ _ (tryStep_reachable _ _ h))

theorem release_reachable {c : Cfg} (g : Gates) (s : St) (k : Nat) (msg : Bytes) (isEnd : Bool) (h : Reachable c s) :
    Reachable c (release c g s k msg isEnd).1 := by
  simp only [release]
  split
  · exact forward_reachable g _ _ _ (tryStep_reachable _ _ h)
  · dsimp only; exact tryStep_reachable _ _ h

theorem applyOp2_reachable {c : Cfg} (g : Gates) (s : St) (a : Aux) (op : SOp) (h : Reachable c s) :
    Reachable c (applyOp2 c g s a op).1.1 := by
  simp only [applyOp2]
  split
  · exact startOp_reachable g s a op h
  · split
    · rename_i k msg isEnd _ _
      have h1 := release_reachable g s k msg isEnd h
      split
      · exact h1
      · exact startOp_reachable g _ _ _ h1
    · split <;> exact h

theorem runScript2_reachable {c : Cfg} (g : Gates) (s : St) (a : Aux) (ops : List SOp) (h : Reachable c s) :
    Reachable c (runScript2 c g s a ops).1.1 := by
  induction ops generalizing s a with
  | nil => exact h
  | cons op r ih =>
    simp only [runScript2]
    exact ih _ _ (applyOp2_reachable g s a op h)

theorem runScript_reachable {c : Cfg} (g : Gates) (s : St) (ops : List SOp) (h : Reachable c s) :
    Reachable c (runScript c g s ops).1 := by
  induction ops generalizing s with
  | nil => exact h
  | cons op r ih =>
    simp only [runScript]
    exact ih _ (applyOp_reachable g s op h)

end Otel.C10
