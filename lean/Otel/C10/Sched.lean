/-
C10 — deterministic scheduler over the LTS, used by the driver to replay *controlled schedules* (harness leg `sched`).
The harness executes a script one op at a time; `End` calls run in their own goroutines and are stopped at gates the
harness controls (the `executionTracerTaskEnd` hook, and SpanProcessors whose OnEnd blocks). After every op each End
goroutine is either blocked at a gate or has returned (detected exactly, by channel hand-shakes, not by timing).
`applyOp` takes exactly the LTS labels that correspond (`applyOp_reachable`), so every state it produces is covered by
the theorems.
-/
import Otel.C10.Model
namespace Otel.C10
open Otel Otel.C04

structure Gates where
  task : Bool      -- the task-end hook blocks (only meaningful when `hasTask`)
  proc : Bool      -- every OnEnd of the span under test blocks
deriving Repr

inductive SOp where
  | mut (op : Op)
  | child (d : Decision)  -- child Start; `d` = what the sampler decides for the child
  | isRec
  | other                 -- Tracer() / ForceFlush: no effect on the span
  | reg (p : Nat)
  | unreg (p : Nat)
  | end_ (k : Nat)        -- start End call k (timestamp k); run it to its first gate or to its return
  | gate (k : Nat)        -- release the gate call k is blocked at; run to the next gate or to its return
deriving Repr, DecidableEq

/-- take a label if enabled -/
def tryStep (c : Cfg) (s : St) (l : Lbl) : St := (step c s l).getD s

/-- run call `k` forward until it blocks at a gate (`T`, `P<p>`) or returns (`r`) -/
def forward (c : Cfg) (g : Gates) : Nat → St → Nat → St × String
  | 0, s, _ => (s, "X")
  | fuel + 1, s, k =>
    if k ∈ s.tasking then
      if c.hasTask && g.task then (s, "T") else forward c g fuel (tryStep c s (.taskEnd k)) k
    else if k ∈ s.loading then forward c g fuel (tryStep c s (.loadProcs k)) k
    else match s.snapping.find? (·.1 == k) with
      | some (_, ps) => forward c g fuel (tryStep c s (.snapshot k ps)) k
      | none =>
        match s.delivering.find? (·.1 == k) with
        | some (_, sn, p :: rest) =>
          let s' := tryStep c s (.onEnd k sn p rest)
          if g.proc then (s', "P" ++ toString p) else forward c g fuel s' k
        | some (_, sn, []) => (tryStep c s (.endReturn k sn), "r")
        | none => if k ∈ s.returned ∨ k ∈ s.returnedEarly then (s, "r") else (s, "X")

def fuelFor (s : St) : Nat := 16 + 2 * s.procs.length

def applyOp (c : Cfg) (g : Gates) (s : St) : SOp → St × String
  | .mut op => (tryStep c s (.mut op), "-")
  | .child d => (tryStep c s (.addChild d), "-")
  | .isRec => (tryStep c s .access, if s.data.ended then "0" else "1")
  | .other => (tryStep c s .access, "-")
  | .reg p => (tryStep c s (.register p), "-")
  | .unreg p => (tryStep c s (.unregister p), "-")
  | .end_ k =>
    if k ∈ s.ids then (s, "X")
    else
      let s1 := tryStep c (tryStep c s (.endCall k k)) (.endLock k k)
      forward c g (fuelFor s1) s1 k
  | .gate k =>
    if k ∈ s.tasking then
      let s1 := tryStep c s (.taskEnd k)
      forward c g (fuelFor s1) s1 k
    else if (s.delivering.find? (·.1 == k)).isSome then forward c g (fuelFor s) s k
    else (s, "-")

def runScript (c : Cfg) (g : Gates) : St → List SOp → St × List String
  | s, [] => (s, [])
  | s, op :: r =>
    let (s1, o) := applyOp c g s op
    let (s2, os) := runScript c g s1 r
    (s2, o :: os)

theorem tryStep_reachable {c : Cfg} (s : St) (l : Lbl) (h : Reachable c s) : Reachable c (tryStep c s l) := by
  unfold tryStep
  cases hs : step c s l with
  | none => simpa using h
  | some s' => simpa using Reachable.step l h hs

theorem forward_reachable {c : Cfg} (g : Gates) (fuel : Nat) (s : St) (k : Nat) (h : Reachable c s) :
    Reachable c (forward c g fuel s k).1 := by
  induction fuel generalizing s with
  | zero => exact h
  | succ n ih =>
    simp only [forward]
    repeat' split
    all_goals first
      | exact h
      | exact ih _ (tryStep_reachable _ _ h)
      | exact tryStep_reachable _ _ h

theorem applyOp_reachable {c : Cfg} (g : Gates) (s : St) (op : SOp) (h : Reachable c s) :
    Reachable c (applyOp c g s op).1 := by
  cases op <;> simp only [applyOp]
  all_goals repeat' split
  all_goals first
    | exact h
    | exact tryStep_reachable _ _ h
    | exact forward_reachable g _ _ _ (tryStep_reachable _ _ (tryStep_reachable _ _ h))
    | exact forward_reachable g _ _ _ (tryStep_reachable _ _ h)
    | exact forward_reachable g _ _ _ h

theorem runScript_reachable {c : Cfg} (g : Gates) (s : St) (ops : List SOp) (h : Reachable c s) :
    Reachable c (runScript c g s ops).1 := by
  induction ops generalizing s with
  | nil => exact h
  | cons op r ih =>
    simp only [runScript]
    exact ih _ (applyOp_reachable g s op h)

end Otel.C10
