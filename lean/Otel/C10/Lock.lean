/-
C10 — the span mutex made explicit. A second, finer LTS that keeps only the CONTROL skeleton of the span methods (the
data is abstracted away): every critical section is split into Lock / body+Unlock, callouts (runtime/trace task end,
SpanProcessor.OnEnd) are their own steps, goroutines form an unbounded pool. It justifies the atomic labels of Model.lean
(`Lbl.prims`): the mutex is held only inside a critical section, never across a callout, and the system cannot deadlock.
-/
namespace Otel.C10.Lock

/-- control points of a goroutine -/
inductive PC where
  | mWant | mIn                 -- mutator / accessor / addChild: `Lock` next · inside, `Unlock` next
  | eWant | eIn                 -- End: first critical section (recording check, mark ended)
  | eTask                       -- runtime/trace task end next (callout, unlocked)
  | eLoad                       -- getSpanProcessors next
  | sWant (n : Nat) | sIn (n : Nat)   -- snapshot(): second critical section; n processors loaded
  | eOnEnd (n : Nat)            -- n OnEnd callouts still to make (unlocked)
  | done
deriving DecidableEq, Repr

def PC.holds : PC → Bool
  | .mIn | .eIn | .sIn _ => true
  | _ => false

def PC.wants : PC → Bool
  | .mWant | .eWant | .sWant _ => true
  | _ => false

/-- the next step of this control point calls into user code -/
def PC.callout : PC → Bool
  | .eTask | .eOnEnd (_ + 1) => true
  | _ => false

structure St where
  lock : Option Nat := none     -- holder of s.mu (goroutine index)
  pcs : List PC := []
  ended : Bool := false
deriving Repr

inductive Lbl where
  | spawnMut | spawnEnd
  | act (t : Nat) (n : Nat)     -- goroutine t takes its next step; n = length of the processor list it loads (used at eLoad)

def setPc (s : St) (t : Nat) (pc : PC) : St := { s with pcs := s.pcs.set t pc }

def step (s : St) : Lbl → Option St
  | .spawnMut => some { s with pcs := s.pcs ++ [.mWant] }
  | .spawnEnd => some { s with pcs := s.pcs ++ [.eWant] }
  | .act t n =>
    match s.pcs[t]? with
    | none => none
    | some pc =>
      match pc with
      | .mWant => if s.lock = none then some { setPc s t .mIn with lock := some t } else none
      | .mIn => some { setPc s t .done with lock := none }
      | .eWant => if s.lock = none then some { setPc s t .eIn with lock := some t } else none
      | .eIn =>
        if s.ended then some { setPc s t .done with lock := none }
        else some { setPc s t .eTask with lock := none, ended := true }
      | .eTask => some (setPc s t .eLoad)
      | .eLoad => if n = 0 then some (setPc s t .done) else some (setPc s t (.sWant n))
      | .sWant k => if s.lock = none then some { setPc s t (.sIn k) with lock := some t } else none
      | .sIn k => some { setPc s t (.eOnEnd k) with lock := none }
      | .eOnEnd (k + 1) => some (setPc s t (.eOnEnd k))
      | .eOnEnd 0 => some (setPc s t .done)
      | .done => none

inductive Reachable : St → Prop where
  | init : Reachable {}
  | step {s s' : St} (l : Lbl) : Reachable s → step s l = some s' → Reachable s'

/-- the mutex is held exactly by the goroutine that is inside a critical section; the holder exists -/
def Inv (s : St) : Prop :=
  (∀ t pc, s.pcs[t]? = some pc → (pc.holds = true ↔ s.lock = some t)) ∧
  (∀ h, s.lock = some h → h < s.pcs.length)

theorem inv_init : Inv {} := by
  constructor
  · intro t pc h; simp at h
  · intro h hh; simp at hh

theorem inv_spawn (s : St) (pc0 : PC) (h0 : pc0.holds = false) (h : Inv s) :
    Inv { s with pcs := s.pcs ++ [pc0] } := by
  obtain ⟨h1, h2⟩ := h
  constructor
  · intro t pc ht
    by_cases hlt : t < s.pcs.length
    · rw [List.getElem?_append_left hlt] at ht
      exact h1 t pc ht
    · have hge : s.pcs.length ≤ t := by omega
      rw [List.getElem?_append_right hge] at ht
      have hx : pc = pc0 := by
        cases hq : [pc0][t - s.pcs.length]? with
        | none => simp [hq] at ht
        | some y =>
          rw [hq] at ht; cases ht
          have := List.mem_of_getElem? hq
          simpa using this
      subst hx
      simp only [h0, Bool.false_eq_true, false_iff]
      intro hl
      exact hlt (h2 t hl)
  · intro hh hl
    have := h2 hh hl
    simp; omega

theorem inv_step (s s' : St) (l : Lbl) (h : Inv s) (hs : step s l = some s') : Inv s' := by
  cases l with
  | spawnMut => simp [step] at hs; subst hs; exact inv_spawn s .mWant rfl h
  | spawnEnd => simp [step] at hs; subst hs; exact inv_spawn s .eWant rfl h
  | act t n =>
    obtain ⟨h1, h2⟩ := h
    simp only [step] at hs
    split at hs
    · simp at hs
    · rename_i pc hpc
      have hlt : t < s.pcs.length := (List.getElem?_eq_some_iff.mp hpc).1
      have hme := h1 t pc hpc
      split at hs
      all_goals (
        repeat' (split at hs)
        all_goals (try (simp at hs))
        all_goals (try subst hs)
        all_goals (
          constructor
          · intro u x hu
            simp only [setPc] at hu
            by_cases hut : u = t
            · subst hut
              simp [List.getElem?_set_self hlt] at hu
              subst hu
              simp_all [PC.holds, setPc]
            · have hne : t ≠ u := fun e => hut e.symm
              rw [List.getElem?_set_ne hne] at hu
              have := h1 u x hu
              simp_all [PC.holds, setPc]
              try grind
          · intro hh hl
            simp only [setPc, List.length_set] at hl ⊢
            first | exact h2 hh hl | (simp at hl; omega) | (simp at hl)))

theorem inv_reachable (s : St) (h : Reachable s) : Inv s := by
  induction h with
  | init => exact inv_init
  | step l _ hs ih => exact inv_step _ _ l ih hs

theorem callout_unlocked (s : St) (h : Reachable s) (t : Nat) (pc : PC) (hpc : s.pcs[t]? = some pc)
    (hc : pc.callout = true) : s.lock ≠ some t := by
  intro hl
  have := ((inv_reachable s h).1 t pc hpc).mpr hl
  cases pc <;> simp [PC.holds, PC.callout] at this hc

theorem holder_steps (s : St) (hd : Nat) (pch : PC) (hp : s.pcs[hd]? = some pch) (hh : pch.holds = true) (n : Nat) :
    (step s (.act hd n)).isSome = true := by
  cases pch <;> simp [PC.holds] at hh <;> simp only [step, hp]
  · rfl
  · split <;> rfl
  · rfl

theorem progress (s : St) (h : Reachable s) (t : Nat) (pc : PC) (hpc : s.pcs[t]? = some pc) (hnd : pc ≠ .done)
    (n : Nat) :
    (step s (.act t n)).isSome = true ∨
    (pc.wants = true ∧ ∃ hd pch, s.lock = some hd ∧ hd ≠ t ∧ s.pcs[hd]? = some pch ∧ pch.holds = true ∧
      (step s (.act hd n)).isSome = true) := by
  obtain ⟨h1, h2⟩ := inv_reachable s h
  have blocked : pc.wants = true → pc.holds = false → s.lock ≠ none →
      ∃ hd pch, s.lock = some hd ∧ hd ≠ t ∧ s.pcs[hd]? = some pch ∧ pch.holds = true ∧
        (step s (.act hd n)).isSome = true := by
    intro _ hnh hl
    cases hlk : s.lock with
    | none => exact absurd hlk hl
    | some hd =>
      have hlt := h2 hd hlk
      have hp : s.pcs[hd]? = some s.pcs[hd] := List.getElem?_eq_getElem hlt
      have hh := (h1 hd _ hp).mpr hlk
      refine ⟨hd, _, rfl, ?_, hp, hh, holder_steps s hd _ hp hh n⟩
      intro e
      subst e
      rw [hp] at hpc; cases hpc
      rw [hh] at hnh; cases hnh
  cases pc with
  | mWant =>
    by_cases hl : s.lock = none
    · left; simp [step, hpc, hl]
    · right; exact ⟨rfl, blocked rfl rfl hl⟩
  | eWant =>
    by_cases hl : s.lock = none
    · left; simp [step, hpc, hl]
    · right; exact ⟨rfl, blocked rfl rfl hl⟩
  | sWant k =>
    by_cases hl : s.lock = none
    · left; simp [step, hpc, hl]
    · right; exact ⟨rfl, blocked rfl rfl hl⟩
  | done => exact absurd rfl hnd
  | eIn => left; simp only [step, hpc]; split <;> rfl
  | eLoad => left; simp only [step, hpc]; split <;> rfl
  | eOnEnd k => left; cases k <;> simp [step, hpc]
  | _ => left; simp [step, hpc]

end Otel.C10.Lock
