/-
C10 — property theorems about the span LTS (Model.lean) of the code as it is now, for every reachable state: every
interleaving of any number of goroutines calling End (with any timestamps), the mutators, child Start, the accessors
and Register/UnregisterSpanProcessor; every span-limit configuration; with (`hasTask = true`) and without a
runtime/trace task. The label order of the ORIGINAL code (`stepOld`, defect F7) is refuted by a witness schedule.

Data-race freedom is NOT a theorem here (the LTS has no notion of unsynchronised access): it is an observation of the Go
race detector. One race is known on the current tree — F36, `Spec.F36_applies`: a reader of an exported snapshot's
attributes vs `Attributes()` on the ended span, which rewrites the shared backing array in place — and is reproduced on
every run by the `attrrace` leg.
-/
import Otel.C10.Lemmas
import Otel.C10.Lemmas2
import Otel.C10.Lock
import Otel.C10.Sched
import Otel.C10.Spec
namespace Otel.C10
open Otel Otel.C04

variable {c : Cfg}

private theorem nodup_of_append_left {l a b : List Nat} (h : a ++ b = l) (hn : l.Nodup) : a.Nodup := by
  subst h; exact (List.nodup_append.mp hn).1

/-- which phase the End call that marked the span ended is in -/
private theorem phase_cases (s : St) (h : Inv c s) (he : s.data.ended = true) :
    s.tasking ≠ [] ∨ s.loading ≠ [] ∨ (∃ x, x ∈ s.snapping) ∨ (∃ x, x ∈ s.delivering) ∨ s.returned ≠ [] := by
  have ha : active s = 1 := by
    rcases h.act with ⟨_, h2⟩ | ⟨h1, _⟩
    · exact h2
    · rw [he] at h1; cases h1
  unfold active at ha
  by_cases h1 : s.tasking = []
  · by_cases h2 : s.loading = []
    · by_cases h3 : s.snapping = []
      · by_cases h4 : s.delivering = []
        · by_cases h5 : s.returned = []
          · simp [h1, h2, h3, h4, h5] at ha
          · exact Or.inr (Or.inr (Or.inr (Or.inr h5)))
        · exact Or.inr (Or.inr (Or.inr (Or.inl (List.exists_mem_of_ne_nil _ h4))))
      · exact Or.inr (Or.inr (Or.inl (List.exists_mem_of_ne_nil _ h3)))
    · exact Or.inr (Or.inl h2)
  · exact Or.inl h1

private theorem delivered_nodup (s : St) (h : Inv c s) : (s.delivered.map (·.1)).Nodup := by
  by_cases he : s.data.ended = true
  · rcases phase_cases s h he with h1 | h1 | ⟨x, hx⟩ | ⟨x, hx⟩ | h1
    · simp [(h.early (Or.inl h1)).1]
    · simp [(h.early (Or.inr h1)).1]
    · simp [(h.snp x hx).1]
    · obtain ⟨_, l, _, hn, hcat⟩ := h.dlv x hx
      exact nodup_of_append_left hcat hn
    · obtain ⟨l, _, hn, hl⟩ := h.ret h1
      rw [hl]; exact hn
  · have he' : s.data.ended = false := by simpa using he
    simp [(h.notEnded he').1]

/-- **each recording span is delivered to every registered processor exactly once** — for all `hasTask`.
In every reachable state (i) at most one End call ever got past the recording check (`active`), the runtime/trace task
was ended at most once; (ii) no processor has received the span twice; (iii) once the End call that ended the span has
returned, the processors that received it are exactly the processors of the list that call loaded from the provider
(no duplicates in that list), each exactly once. -/
theorem end_once (s : St) (h : Reachable c s) :
    active s ≤ 1 ∧ s.taskEnds ≤ 1 ∧ (c.hasTask = false → s.taskEnds = 0) ∧
    Spec.atMostOnce (s.delivered.map (·.1)) = true ∧
    (s.returned ≠ [] → ∃ l, s.loaded = some l ∧ s.delivered.map (·.1) = l ∧
        Spec.exactlyOnce l (s.delivered.map (·.1)) = true) := by
  have hi := inv_reachable c s h
  have hact : active s ≤ 1 := by rcases hi.act with ⟨_, h2⟩ | ⟨_, h2⟩ <;> omega
  refine ⟨hact, ?_, hi.tasks.2, ?_, ?_⟩
  · have := hi.tasks.1; unfold active at hact; omega
  · simpa [Spec.atMostOnce] using delivered_nodup s hi
  · intro hr
    obtain ⟨l, hl, hn, hd⟩ := hi.ret hr
    refine ⟨l, hl, hd, ?_⟩
    rw [hd]
    simp only [Spec.exactlyOnce, List.all_eq_true, beq_iff_eq]
    intro p hp
    have h1 := (List.nodup_iff_count.mp hn) p
    have h2 : 0 < l.count p := List.count_pos_iff.mpr hp
    omega

private theorem singleEndTime_const (t : Nat) : ∀ (l : List (Option Nat)), (∀ x ∈ l, x = some t) →
    Spec.singleEndTime l = true
  | [], _ => rfl
  | a :: r, h => by
    have ha : a = some t := h a (by simp)
    simp only [Spec.singleEndTime, ha, Option.isSome_some, Bool.true_and, List.all_eq_true, beq_iff_eq]
    intro x hx
    exact h x (by simp [hx])

/-- **with a single end time**: every snapshot handed to a processor carries the same, set, end time — the span's —
and no label changes the span's end time once it is set. -/
theorem single_end_time (s : St) (h : Reachable c s) :
    Spec.singleEndTime (s.delivered.map (·.2.endTime)) = true ∧
    (∀ d ∈ s.delivered, d.2.endTime = s.endTime ∧ s.endTime ≠ none) ∧
    (∀ l s' t, step c s l = some s' → s.endTime = some t → s'.endTime = some t) := by
  have hi := inv_reachable c s h
  have hall : ∀ d ∈ s.delivered, d.2.endTime = s.endTime ∧ s.endTime ≠ none := by
    intro d hd
    have h1 := hi.same d hd
    refine ⟨by rw [h1]; rfl, ?_⟩
    intro hnone
    by_cases he : s.data.ended = true
    · have := hi.endT; rw [he, hnone] at this; cases this
    · have he' : s.data.ended = false := by simpa using he
      have := (hi.notEnded he').1
      rw [this] at hd; cases hd
  refine ⟨?_, hall, ?_⟩
  · cases ht : s.endTime with
    | none =>
      have : s.delivered = [] := by
        cases hd : s.delivered with
        | nil => rfl
        | cons d r => exact absurd ht (hall d (by simp [hd])).2
      simp [this, Spec.singleEndTime]
    | some t =>
      apply singleEndTime_const t
      intro x hx
      simp only [List.mem_map] at hx
      obtain ⟨d, hd, rfl⟩ := hx
      rw [(hall d hd).1, ht]
  · intro l s' t hs ht
    have he : s.data.ended = true := by have := hi.endT; rw [ht] at this; simpa using this.symm
    cases l <;> simp only [step] at hs
    all_goals (
      repeat' (split at hs)
      all_goals (try (simp at hs))
      all_goals (try subst hs)
      all_goals (first | exact ht | simp_all))

/-- **every concurrent mutation is either completely present in the exported snapshot or completely absent**: every
delivered snapshot is C04's sequential `snapshot ∘ run` of exactly the mutator labels that precede the label that
ended the span (`cut`), in label order, followed by End — a mutator label is a whole call, so each call is entirely in
or entirely out. (`hist`/`cut` are ghosts maintained by `step`; `ghost_meaning` below says what they record.) -/
theorem snapshot_is_prefix_of_mutations (s : St) (h : Reachable c s) :
    ∀ d ∈ s.delivered, ∃ k, s.cut = some k ∧ k.1 ≤ s.hist.length ∧
      d.2.snap = C04.snapshot (C04.run c.lim (C04.init c.name) (s.hist.take k.1 ++ [.end_])) := by
  have hi := inv_reachable c s h
  intro d hd
  have he : s.data.ended = true := by
    by_cases he : s.data.ended = true
    · exact he
    · have he' : s.data.ended = false := by simpa using he
      have := (hi.notEnded he').1
      rw [this] at hd; cases hd
  obtain ⟨k, hk⟩ : ∃ k, s.cut = some k := by
    have := hi.cutE; rw [he] at this; exact Option.isSome_iff_exists.mp this
  refine ⟨k, hk, hi.cutLe k hk, ?_⟩
  have h1 := hi.same d hd
  have h2 := hi.dat
  simp only [effective, hk] at h2
  rw [h1, ← h2]; rfl

/-- what the ghosts record: `hist` grows by exactly the operation of each mutator label (`mutsOf`: the operation of a
`mut` label, the exception event of an `endLockPanic` label), `childLabels` counts the addChild labels, `cut` is set
once, by the `endLock`/`endLockPanic` label that finds the span recording, to the values they have right after that
label's own operation, and never changes afterwards. -/
theorem ghost_meaning (s s' : St) (l : Lbl) (h : Reachable c s) (hs : step c s l = some s') :
    s'.hist = s.hist ++ mutsOf [l] ∧
    s'.childLabels = s.childLabels + (match l with | .addChild _ => 1 | _ => 0) ∧
    (∀ k, s.cut = some k → s'.cut = some k) ∧
    (s.cut = none → ∀ k, s'.cut = some k →
      isEndLock l = true ∧ s.data.ended = false ∧ k = (s.hist.length + (mutsOf [l]).length, s.childLabels)) := by
  have hce : s.data.ended = false → s.cut = none := fun he => ((inv_reachable c s h).idle he).cut
  cases l <;> simp only [step] at hs
  all_goals (
    repeat' (split at hs)
    all_goals (try (simp at hs))
    all_goals (try subst hs)
    all_goals simp_all [mutsOf, isEndLock])

/-- **the exported snapshot never changes afterwards**: once the span is ended no label changes the span data, its end
time or its child count (so `snapshot()` would return the same value again), and the processors' log only grows. -/
theorem snapshot_immutable (s s' : St) (l : Lbl) (h : Reachable c s) (hs : step c s l = some s')
    (he : s.endTime ≠ none) :
    s'.data = s.data ∧ s'.endTime = s.endTime ∧ s'.children = s.children ∧ mkSnapshot s' = mkSnapshot s ∧
    ∃ more, s'.delivered = s.delivered ++ more := by
  have hi := inv_reachable c s h
  have hen : s.data.ended = true := by
    have := hi.endT
    cases ht : s.endTime with
    | none => exact absurd ht he
    | some t => rw [ht] at this; simpa using this.symm
  cases l <;> simp only [step] at hs
  case «mut» op =>
    split at hs
    · simp at hs
    · simp at hs; subst hs
      have := c04_step_ended c.lim s.data op hen
      simp [mkSnapshot, this]
  all_goals (
    repeat' (split at hs)
    all_goals (try (simp at hs))
    all_goals (try subst hs)
    all_goals (first | simp_all [mkSnapshot] | exact ⟨rfl, rfl, rfl, rfl, [], by simp⟩))

/-- **the span reports not-recording once End has returned** (any End: the one that ended the span or one that found
it ended), in fact as soon as any End call is past its first critical section; and it never records again. -/
theorem not_recording_after_end (s : St) (h : Reachable c s) :
    ((s.returned ≠ [] ∨ s.returnedEarly ≠ [] ∨ 1 ≤ active s) → s.data.ended = true) ∧
    (∀ l s', step c s l = some s' → s.data.ended = true → s'.data.ended = true) := by
  have hi := inv_reachable c s h
  constructor
  · intro hor
    rcases hor with h1 | h1 | h1
    · have : 1 ≤ s.returned.length := by
        cases hr : s.returned with
        | nil => exact absurd hr h1
        | cons a r => simp
      exact (hi.alone (by unfold active; omega)).1
    · exact hi.earlyRet h1
    · exact (hi.alone h1).1
  · intro l s' hs he
    have hne : s.endTime ≠ none := by
      intro hn; have := hi.endT; rw [hn, he] at this; cases this
    rw [(snapshot_immutable s s' l h hs hne).1]; exact he

/-- **child counts are exact for children started before the end**: the span's child count is the number of addChild
labels before the label that ended the span (all of them while it is recording), and that is the count every
delivered snapshot carries. -/
theorem child_count_exact (s : St) (h : Reachable c s) :
    s.children = (match s.cut with | none => s.childLabels | some k => k.2) ∧
    (∀ d ∈ s.delivered, ∃ k, s.cut = some k ∧ d.2.children = k.2) := by
  have hi := inv_reachable c s h
  refine ⟨hi.chil, ?_⟩
  intro d hd
  obtain ⟨k, hk, _, _⟩ := snapshot_is_prefix_of_mutations s h d hd
  refine ⟨k, hk, ?_⟩
  have h1 := hi.same d hd
  have h2 := hi.chil
  simp only [hk] at h2
  rw [h1]; exact h2

/-- **End while panicking** (`defer span.End()` in a panicking goroutine): the exception event describing the panic is
formatted and added inside End's first critical section. If this End finds the span recording it wins: its exception
event is the last operation before the end (`cut` is placed right after it, so by `snapshot_is_prefix_of_mutations` the
event is in every delivered snapshot, completely) and the call goes on to deliver. If the span is already ended the
call returns at once and changes nothing: the event is in no snapshot. `end_once`, `single_end_time` and all the other
theorems hold for runs containing such calls (they are about every reachable state). -/
theorem panic_event_iff_end_won (s s' : St) (e t : Nat) (typ msg : Bytes)
    (hs : step c s (.endLockPanic e t typ msg) = some s') :
    (s.data.ended = false →
      s'.hist = s.hist ++ [.recordError (some (typ, msg)) []] ∧ s'.cut = some (s.hist.length + 1, s.childLabels) ∧
      s'.data = C04.step c.lim (C04.step c.lim s.data (.recordError (some (typ, msg)) [])) .end_ ∧
      s'.endTime = some t ∧ e ∈ s'.tasking) ∧
    (s.data.ended = true →
      s'.data = s.data ∧ s'.endTime = s.endTime ∧ s'.cut = s.cut ∧ s'.delivered = s.delivered ∧
      e ∈ s'.returnedEarly ∧ s'.tasking = s.tasking) := by
  simp only [step] at hs
  split at hs
  · split at hs
    · rename_i hen
      simp at hs; subst hs
      simp [hen]
    · rename_i hen
      simp at hs; subst hs
      simp [hen]
  · simp at hs

def cfgPanic : Cfg := { lim := ⟨-1, -1, -1, -1, -1, -1⟩, name := [0x73], hasTask := false }

/-- non-vacuity of the panic path: a panicking End (call 1) and a plain End (call 2) race; call 1 takes the lock first,
its exception event is the last event of the snapshot processor 7 receives (once, end time 10); call 2 returns early. -/
example : ∃ s, run cfgPanic (init cfgPanic)
      [.register 7, .mut (.addEvent [0x65] []), .endCall 1 10, .endCall 2 20, .endLockPanic 1 10 [0x54] [0x6d],
       .endLock 2 20, .taskEnd 1, .loadProcs 1, .snapshot 1 [7]] = some s ∧
    s.returnedEarly = [2] ∧ s.cut = some (2, 0) ∧ s.endTime = some 10 ∧
    s.delivering.map (fun x => x.2.1.snap.events.map (·.name)) = [[[0x65], C04.excName]] := by
  refine ⟨_, rfl, ?_⟩
  decide

/-- forget what the sampler decided for the children -/
def forgetDecision : Lbl → Lbl
  | .addChild _ => .addChild .recordAndSample
  | l => l

/-- **child counts do not depend on the children's sampling**: `tracer.Start` counts the child on its parent before
`newSpan` consults the sampler, so a child the sampler drops (non-recording span) or records without sampling is counted
exactly like a sampled one. The decision carried by an `addChild` label is read by no step; hence two label sequences
that differ only in those decisions run to the same state — same child count, same delivered snapshots. Together with
`child_count_exact`: the count is the number of children STARTED before the end label, whatever their sampling. -/
theorem child_count_independent_of_child_sampling (s : St) :
    (∀ d d', step c s (.addChild d) = step c s (.addChild d')) ∧
    (∀ ls ls', ls.map forgetDecision = ls'.map forgetDecision → run c s ls = run c s ls') := by
  have hstep : ∀ (s : St) (l : Lbl), step c s l = step c s (forgetDecision l) := by
    intro s l; cases l <;> rfl
  have hrun : ∀ (ls : List Lbl) (s : St), run c s ls = run c s (ls.map forgetDecision) := by
    intro ls
    induction ls with
    | nil => intro s; rfl
    | cons l r ih =>
      intro s
      simp only [run, runWith, List.map_cons, ← hstep s l]
      cases step c s l with
      | none => rfl
      | some s1 => exact ih s1
  refine ⟨fun d d' => rfl, ?_⟩
  intro ls ls' h
  rw [hrun ls s, hrun ls' s, h]

/-- **no deadlock**: (i) every label, as a sequence of primitive actions on the single span mutex, locks at most once,
unlocks what it locked and never calls out (OnEnd, runtime/trace task end) while holding it — so between labels the
mutex is free; (ii) consequently nobody ever waits: in every state every mutator, child Start and accessor can take its
step, and every pending End call can take its next label, whatever the other goroutines are doing (e.g. blocked inside
a processor's OnEnd). -/
theorem span_deadlock_free (s : St) :
    (∀ l : Lbl, lockScan false l.prims = some false) ∧
    (∀ op, op ≠ .end_ → (step c s (.mut op)).isSome) ∧ (∀ d, (step c s (.addChild d)).isSome) ∧ (step c s .access).isSome ∧
    (∀ x ∈ s.called, (step c s (.endLock x.1 x.2)).isSome ∧ ∀ typ msg, (step c s (.endLockPanic x.1 x.2 typ msg)).isSome) ∧
    (∀ e ∈ s.tasking, (step c s (.taskEnd e)).isSome) ∧
    (∀ e ∈ s.loading, (step c s (.loadProcs e)).isSome) ∧
    (∀ x ∈ s.snapping, (step c s (.snapshot x.1 x.2)).isSome) ∧
    (∀ x ∈ s.delivering, match x.2.2 with
      | [] => (step c s (.endReturn x.1 x.2.1)).isSome
      | p :: r => (step c s (.onEnd x.1 x.2.1 p r)).isSome) := by
  refine ⟨?_, ?_, by simp [step], by simp [step], ?_, ?_, ?_, ?_, ?_⟩
  · intro l; cases l <;> rfl
  · intro op hop; simp [step, hop]
  · intro x hx
    refine ⟨?_, ?_⟩
    · simp only [step]; rw [if_pos hx]; split <;> rfl
    · intro typ msg; simp only [step]; rw [if_pos hx]; split <;> rfl
  · intro e he; simp only [step]; rw [if_pos he]; rfl
  · intro e he; simp only [step]; rw [if_pos he]; split <;> rfl
  · intro x hx; simp only [step]; rw [if_pos hx]; rfl
  · intro x hx
    obtain ⟨e, sn, rest⟩ := x
    cases rest with
    | nil => simp only [step]; rw [if_pos hx]; rfl
    | cons p r => simp only [step]; rw [if_pos hx]; rfl

/-- **no deadlock, with the span mutex explicit** (`Lock.lean`: the control skeleton of the span methods with Lock and
Unlock as separate steps, callouts as their own steps, any number of goroutines): in every reachable state (i) a
goroutine whose next step calls into user code (runtime/trace task end, SpanProcessor.OnEnd) does not hold the mutex;
(ii) every goroutine that has not finished can take its next step, unless it is waiting for the mutex — and then the
mutex is held by another goroutine that is inside a critical section and can take its next step (which releases it). -/
theorem span_mutex_deadlock_free (s : Lock.St) (h : Lock.Reachable s) (t : Nat) (pc : Lock.PC)
    (hpc : s.pcs[t]? = some pc) (n : Nat) :
    (pc.callout = true → s.lock ≠ some t) ∧
    (pc ≠ .done → (Lock.step s (.act t n)).isSome = true ∨
      (pc.wants = true ∧ ∃ hd pch, s.lock = some hd ∧ hd ≠ t ∧ s.pcs[hd]? = some pch ∧ pch.holds = true ∧
        (Lock.step s (.act hd n)).isSome = true)) :=
  ⟨Lock.callout_unlocked s h t pc hpc, fun hnd => Lock.progress s h t pc hpc hnd n⟩

/-- non-vacuity: End (goroutine 0) is inside its second OnEnd callout, a mutator (goroutine 1) holds the mutex and a
second End (goroutine 2) waits for it -/
example : ∃ s, Lock.Reachable s ∧ s.pcs = [.eOnEnd 1, .mIn, .eWant] ∧ s.lock = some 1 ∧ s.ended = true := by
  have run : ∀ (ls : List Lock.Lbl) (s s' : Lock.St), Lock.Reachable s →
      ls.foldl (fun o l => o.bind (Lock.step · l)) (some s) = some s' → Lock.Reachable s' := by
    intro ls
    induction ls with
    | nil => intro s s' hr h; simp at h; subst h; exact hr
    | cons l r ih =>
      intro s s' hr h
      simp only [List.foldl_cons, Option.bind_some] at h
      cases hs : Lock.step s l with
      | none =>
        rw [hs] at h
        have : ∀ r : List Lock.Lbl, r.foldl (fun o l => o.bind (Lock.step · l)) none = none := by
          intro r; induction r with
          | nil => rfl
          | cons _ _ ih => simpa using ih
        rw [this] at h; cases h
      | some s1 => rw [hs] at h; exact ih s1 s' (Lock.Reachable.step l hr hs) h
  refine ⟨_, run [.spawnEnd, .spawnMut, .spawnEnd, .act 0 2, .act 0 2, .act 0 2, .act 0 2, .act 0 2, .act 0 2,
    .act 0 2, .act 1 0] {} _ Lock.Reachable.init rfl, ?_⟩
  decide

/-! ### The original label order (defect F7, fixed by f1cf949) -/

def cfgDemo : Cfg := { lim := ⟨-1, -1, -1, -1, -1, -1⟩, name := [0x73], hasTask := true }

/-- two racing End calls, runtime/trace enabled, ORIGINAL code: both pass the recording check while the lock is released
around the task end; each sets its own end time, takes its own snapshot and calls OnEnd. -/
def f7Schedule : List Lbl :=
  [.register 7, .endCall 1 10, .endCall 2 20, .endLock 1 10, .endLock 2 20, .oTaskEnd 1 10, .oTaskEnd 2 20,
   .oRelock 1 10, .loadProcs 1, .snapshot 1 [7],
   .onEnd 1 ⟨C04.snapshot (C04.run cfgDemo.lim (C04.init cfgDemo.name) [.end_]), some 10, 0⟩ 7 [],
   .oRelock 2 20, .loadProcs 2, .snapshot 2 [7],
   .onEnd 2 ⟨C04.snapshot (C04.run cfgDemo.lim (C04.init cfgDemo.name) [.end_]), some 20, 0⟩ 7 []]

/-- `end_once` and `single_end_time` are FALSE for the original label order with `hasTask = true`: processor 7 receives
the span twice, with two different end times, and the runtime/trace task is ended twice. -/
theorem end_twice_witness :
    ∃ s, runOld cfgDemo (init cfgDemo) f7Schedule = some s ∧
      Spec.atMostOnce (s.delivered.map (·.1)) = false ∧
      Spec.singleEndTime (s.delivered.map (·.2.endTime)) = false ∧
      s.delivered.map (·.1) = [7, 7] ∧ s.delivered.map (·.2.endTime) = [some 10, some 20] ∧ s.taskEnds = 2 := by
  refine ⟨_, rfl, ?_⟩
  decide

/-- the same schedule is not a run of the code as it is now: the second End call returns at the recording check
(its `oTaskEnd` label does not exist) -/
theorem f7_schedule_disabled_now : run cfgDemo (init cfgDemo) f7Schedule = none := by decide

/-! ### runs are reachable; non-vacuity -/

theorem run_reachable (s : St) (ls : List Lbl) (s' : St) (h : Reachable c s) (hr : run c s ls = some s') :
    Reachable c s' := by
  induction ls generalizing s with
  | nil => simp [run, runWith] at hr; subst hr; exact h
  | cons l ls ih =>
    simp only [run, runWith] at hr
    split at hr
    · rename_i s1 hs1
      exact ih s1 (Reachable.step l h hs1) hr
    · simp at hr

/-- `snapshot_is_prefix_of_mutations` and `child_count_exact` without ghosts, for every label sequence that is a run of
the LTS from the initial state: every delivered snapshot is C04's `snapshot ∘ run` of the operations of exactly the
mutator labels that come before the first `endLock`/`endLockPanic` label of the sequence (in label order; `beforeEnd`
includes that label, whose own operation is the panic's exception event or nothing) followed by End, and its child
count is the number of addChild labels before that label. -/
theorem snapshot_is_prefix_of_mutations_trace (ls : List Lbl) (s : St) (hrun : run c (init c) ls = some s) :
    ∀ d ∈ s.delivered,
      d.2.snap = C04.snapshot (C04.run c.lim (C04.init c.name) (mutsOf (beforeEnd ls) ++ [.end_])) ∧
      d.2.children = addsOf (beforeEnd ls) := by
  intro d hd
  have hr : Reachable c s := run_reachable _ ls s Reachable.init hrun
  obtain ⟨k, hk, _, hsnap⟩ := snapshot_is_prefix_of_mutations s hr d hd
  have hcut := run_cut (init c) s ls Reachable.init hrun rfl k hk
  have hhist := run_hist (init c) s ls hrun
  obtain ⟨more, hmore⟩ := beforeEnd_prefix ls
  have hk1 : k.1 = (mutsOf (beforeEnd ls)).length := by rw [hcut]; simp [init]
  have hk2 : k.2 = addsOf (beforeEnd ls) := by rw [hcut]; simp [init]
  constructor
  · rw [hsnap, hhist, hk1, hmore]
    simp [init]
  · obtain ⟨k', hk', hch⟩ := (child_count_exact s hr).2 d hd
    rw [hk] at hk'; cases hk'
    rw [hch, hk2]

/-- non-vacuity: a reachable state of the current code (runtime/trace task present) in which two End calls raced, a
SetAttributes call and a child Start landed before the end label and others after it, the processor list changed
during the fan-out, and the winning End has returned: processors 7 and 8 got the span once each, with end time 10,
the attribute set before the end, one child. -/
def demoSchedule : List Lbl :=
  let sn : Snapshot := ⟨C04.snapshot (C04.run cfgDemo.lim (C04.init cfgDemo.name) [.setAttrs [⟨[0x61], .int 1⟩], .end_]),
    some 10, 1⟩
  [.register 7, .register 8, .mut (.setAttrs [⟨[0x61], .int 1⟩]), .addChild .drop, .endCall 1 10, .endCall 2 20,
   .endLock 1 10, .mut (.setAttrs [⟨[0x62], .int 2⟩]), .addChild .recordOnly, .endLock 2 20, .taskEnd 1, .loadProcs 1,
   .unregister 8, .register 9, .snapshot 1 [7, 8], .onEnd 1 sn 7 [8], .mut (.setName [0x6e]), .access,
   .onEnd 1 sn 8 [], .endReturn 1 sn]

example : ∃ s, run cfgDemo (init cfgDemo) demoSchedule = some s ∧
    s.returned = [1] ∧ s.returnedEarly = [2] ∧ s.loaded = some [7, 8] ∧ s.delivered.map (·.1) = [7, 8] ∧
    s.delivered.map (·.2.endTime) = [some 10, some 10] ∧ s.delivered.map (·.2.children) = [1, 1] ∧
    s.delivered.map (·.2.snap.attrs) = [[⟨[0x61], .int 1⟩], [⟨[0x61], .int 1⟩]] ∧
    s.hist.length = 3 ∧ s.cut = some (1, 1) ∧ s.childLabels = 2 ∧ s.children = 1 ∧ s.taskEnds = 1 ∧
    s.data.ended = true ∧ s.data.name = [0x73] := by
  refine ⟨_, rfl, ?_⟩
  decide

/-- the controlled-schedule replay of the driver only takes LTS steps: its states are covered by the theorems -/
theorem sched_reachable (g : Gates) (ops : List SOp) : Reachable c (runScript2 c g (init c) {} ops).1.1 :=
  runScript2_reachable g _ _ ops Reachable.init

end Otel.C10
