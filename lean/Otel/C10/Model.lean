/-
C10 — the recording span of sdk/trace under concurrent use, as a labelled transition system.

The span DATA and every mutator are C04's sequential model (`Otel.C04.St`, `Otel.C04.step`): here they are used as the
bodies of the critical sections. Labels are the atomic sections of the Go code as it is NOW (span.go after f1cf949):

* `mut op`        SetAttributes / AddEvent / AddLink / RecordError / SetStatus / SetName: `s.mu.Lock(); if
                  !s.isRecording() {return}; …; s.mu.Unlock()` — one label; the body is `C04.step`, whose first test is
                  the recording check (`C04.St.ended` ⇔ `!endTime.IsZero()`);
* `addChild d`    tracer.Start → parent.addChild(): lock; `if !isRecording return`; childSpanCount++; unlock. It runs
                  BEFORE newSpan asks the sampler, so the child's sampling decision `d` (Drop / RecordOnly /
                  RecordAndSample) is carried by the label but read by nothing (`child_count_independent_of_child_sampling`);
* `access`        IsRecording / EndTime / ChildSpanCount / … (lock, read, unlock) and the provider/tracer methods that
                  never touch the span (Tracer, ForceFlush): no effect on the span;
* `register p` / `unregister p`   provider.go: under p.mu, copy-on-write of the atomic processor list;
* End is the label sequence of the code:
    `endCall e t`  et computed (or WithTimestamp), before the lock;
    `endLock e t`  lock; `if !isRecording {unlock; return}`; endTime = t; taskEnd := executionTracerTaskEnd; unlock;
    `endLockPanic e t typ msg`  the same critical section when End runs deferred while the goroutine is panicking:
                   after the recording check `recover()` returns the panic value, the exception event (type string,
                   `fmt.Sprint(value)`) is added with addEvent — formatting and insertion happen UNDER the lock, in the
                   same critical section that then sets endTime — and the panic continues when End returns;
    `taskEnd e`    `if taskEnd != nil { taskEnd() }` — outside the lock (a no-op when `hasTask = false`);
    `loadProcs e`  `sps := provider.getSpanProcessors()` (atomic load); `len(sps)==0` ⇒ return;
    `snapshot e`   `s.snapshot()`: lock; copy; unlock;
    `onEnd e … p`  `sp.OnEnd(snap)` for the next processor of the loaded list — outside the lock;
    `endReturn e`.
  End calls form an unbounded pool; a call sits in the list of its phase (`called`, `tasking`, `loading`, `snapping`,
  `delivering`, `returned`, `returnedEarly`). Nothing in the STRUCTURE of the state prevents several calls from being
  in the later phases at once — that at most one ever is, is a theorem about `step` (Lemmas.lean), and it is false for
  `stepOld`, the label order of the original code (1712bc2: `if task != nil {Unlock; task(); Lock}` BEFORE endTime is
  set — defect F7), kept here as a separate definition.

Ghost components (not in the Go state): `ids`, `hist` (all mutator labels so far, in label order), `childLabels`
(number of addChild labels so far), `cut` (their values at the label that set endTime), `loaded` (the processor list
the ending call loaded), `taskEnds` (number of runtime/trace task ends), `delivered` (the processors' log).

`hasTask` (runtime/trace enabled when the span was started) and the limits are parameters.
-/
import Otel.C04.Model
namespace Otel.C10
open Otel Otel.C04

/-- the sampler's decision for a child span started with this span as parent (sdk/trace SamplingDecision) -/
inductive Decision where
  | drop | recordOnly | recordAndSample
deriving DecidableEq, Repr

/-- the ReadOnlySpan handed to OnEnd: C04's snapshot + end time + child count -/
structure Snapshot where
  snap : C04.Snap
  endTime : Option Nat
  children : Nat
deriving DecidableEq, Repr

structure Cfg where
  lim : Limits
  name : Bytes
  hasTask : Bool
deriving Repr

structure St where
  data : C04.St
  endTime : Option Nat := none
  children : Nat := 0
  procs : List Nat := []                                -- the provider's processor list
  called : List (Nat × Nat) := []                       -- (call id, end time to set): waiting for the span lock
  tasking : List Nat := []                              -- marked the span ended; task end next (unlocked)
  loading : List Nat := []                              -- getSpanProcessors next
  snapping : List (Nat × List Nat) := []                -- loaded a non-empty list; snapshot() next
  delivering : List (Nat × Snapshot × List Nat) := []   -- fan-out: snapshot, processors still to be called
  returned : List Nat := []                             -- End returned after the fan-out (or with no processor)
  returnedEarly : List Nat := []                        -- End returned at the recording check
  oTask : List (Nat × Nat) := []                        -- OLD order only: passed the check, lock released, endTime unset
  oRelock : List (Nat × Nat) := []                      -- OLD order only: task ended, re-lock and set endTime next
  delivered : List (Nat × Snapshot) := []               -- processor log, appended at OnEnd entry
  ids : List Nat := []
  hist : List Op := []
  childLabels : Nat := 0
  cut : Option (Nat × Nat) := none
  loaded : Option (List Nat) := none
  taskEnds : Nat := 0
deriving Repr

inductive Lbl where
  | mut (op : Op)
  | addChild (d : Decision)
  | access
  | register (p : Nat)
  | unregister (p : Nat)
  | endCall (e t : Nat)
  | endLock (e t : Nat)
  | endLockPanic (e t : Nat) (typ msg : Bytes)
  | taskEnd (e : Nat)
  | loadProcs (e : Nat)
  | snapshot (e : Nat) (ps : List Nat)
  | onEnd (e : Nat) (sn : Snapshot) (p : Nat) (rest : List Nat)
  | endReturn (e : Nat) (sn : Snapshot)
  | oTaskEnd (e t : Nat)      -- OLD order only
  | oRelock (e t : Nat)       -- OLD order only
deriving DecidableEq, Repr

/-- recordingSpan.snapshot() (the fields the property speaks about) -/
def mkSnapshot (s : St) : Snapshot :=
  { snap := C04.snapshot s.data, endTime := s.endTime, children := s.children }

def init (c : Cfg) : St := { data := C04.init c.name }

/-- the code as it is now -/
def step (c : Cfg) (s : St) : Lbl → Option St
  | .mut op =>
    if op = .end_ then none
    else some { s with data := C04.step c.lim s.data op, hist := s.hist ++ [op] }
  | .addChild _ =>
    some { s with children := if s.data.ended then s.children else s.children + 1,
                  childLabels := s.childLabels + 1 }
  | .access => some s
  | .register p => if p ∈ s.procs then none else some { s with procs := s.procs ++ [p] }
  | .unregister p => some { s with procs := s.procs.erase p }
  | .endCall e t =>
    if e ∈ s.ids then none else some { s with ids := e :: s.ids, called := (e, t) :: s.called }
  | .endLock e t =>
    if (e, t) ∈ s.called then
      if s.data.ended then
        some { s with called := s.called.erase (e, t), returnedEarly := e :: s.returnedEarly }
      else
        some { s with called := s.called.erase (e, t), data := C04.step c.lim s.data .end_, endTime := some t,
                      cut := some (s.hist.length, s.childLabels), tasking := e :: s.tasking }
    else none
  | .endLockPanic e t typ msg =>
    -- the exception event is C04's RecordError event (same name, same two attributes, no user attributes); the
    -- operation is logged in `hist` in both branches (like a mutator after the end it has no effect when End loses)
    if (e, t) ∈ s.called then
      if s.data.ended then
        some { s with called := s.called.erase (e, t), returnedEarly := e :: s.returnedEarly,
                      hist := s.hist ++ [.recordError (some (typ, msg)) []] }
      else
        some { s with called := s.called.erase (e, t),
                      data := C04.step c.lim (C04.step c.lim s.data (.recordError (some (typ, msg)) [])) .end_,
                      endTime := some t, hist := s.hist ++ [.recordError (some (typ, msg)) []],
                      cut := some (s.hist.length + 1, s.childLabels), tasking := e :: s.tasking }
    else none
  | .taskEnd e =>
    if e ∈ s.tasking then
      some { s with tasking := s.tasking.erase e, loading := e :: s.loading,
                    taskEnds := s.taskEnds + (if c.hasTask then 1 else 0) }
    else none
  | .loadProcs e =>
    if e ∈ s.loading then
      if s.procs = [] then
        some { s with loading := s.loading.erase e, returned := e :: s.returned, loaded := some [] }
      else
        some { s with loading := s.loading.erase e, snapping := (e, s.procs) :: s.snapping, loaded := some s.procs }
    else none
  | .snapshot e ps =>
    if (e, ps) ∈ s.snapping then
      some { s with snapping := s.snapping.erase (e, ps), delivering := (e, mkSnapshot s, ps) :: s.delivering }
    else none
  | .onEnd e sn p rest =>
    if (e, sn, p :: rest) ∈ s.delivering then
      some { s with delivering := (e, sn, rest) :: s.delivering.erase (e, sn, p :: rest),
                    delivered := s.delivered ++ [(p, sn)] }
    else none
  | .endReturn e sn =>
    if (e, sn, []) ∈ s.delivering then
      some { s with delivering := s.delivering.erase (e, sn, []), returned := e :: s.returned }
    else none
  | .oTaskEnd _ _ => none
  | .oRelock _ _ => none

/-- the ORIGINAL label order (1712bc2, defect F7): with a runtime/trace task the lock is released around the task end
BEFORE endTime is set; everything else as in `step` -/
def stepOld (c : Cfg) (s : St) : Lbl → Option St
  | .endLock e t =>
    if (e, t) ∈ s.called then
      if s.data.ended then
        some { s with called := s.called.erase (e, t), returnedEarly := e :: s.returnedEarly }
      else if c.hasTask then
        some { s with called := s.called.erase (e, t), oTask := (e, t) :: s.oTask }
      else
        some { s with called := s.called.erase (e, t), data := C04.step c.lim s.data .end_, endTime := some t,
                      cut := some (s.hist.length, s.childLabels), tasking := e :: s.tasking }
    else none
  | .oTaskEnd e t =>
    if (e, t) ∈ s.oTask then
      some { s with oTask := s.oTask.erase (e, t), oRelock := (e, t) :: s.oRelock, taskEnds := s.taskEnds + 1 }
    else none
  | .oRelock e t =>
    if (e, t) ∈ s.oRelock then
      some { s with oRelock := s.oRelock.erase (e, t), data := C04.step c.lim s.data .end_, endTime := some t,
                    cut := if s.cut.isSome then s.cut else some (s.hist.length, s.childLabels),
                    loading := e :: s.loading }
    else none
  | l => step c s l

/-- run a label sequence with a step function; `none` if some label is not enabled -/
def runWith (f : St → Lbl → Option St) (s : St) : List Lbl → Option St
  | [] => some s
  | l :: ls => match f s l with
    | some s' => runWith f s' ls
    | none => none

def run (c : Cfg) (s : St) (ls : List Lbl) : Option St := runWith (step c) s ls
def runOld (c : Cfg) (s : St) (ls : List Lbl) : Option St := runWith (stepOld c) s ls

inductive Reachable (c : Cfg) : St → Prop where
  | init : Reachable c (init c)
  | step {s s' : St} (l : Lbl) : Reachable c s → step c s l = some s' → Reachable c s'

/-! ### Lock discipline of the labels (read off the source; used by `span_deadlock_free`)

Each label is a fixed sequence of primitive actions on the single span mutex `s.mu` (provider labels use the provider's
own mutex `p.mu`, which is never taken while `s.mu` is held and under which no span method is called). -/
/- NB: RecordError's `err.Error()` and the panic path's `fmt.Sprint(recovered)` are executed inside the critical section
by the current code; they are treated as `body` (pure formatting that returns and does not use this span) — an
assumption, stated in checks/C10.json. -/
inductive Prim where
  | lock | unlock      -- s.mu
  | body               -- code that neither blocks nor calls out
  | callout            -- call into user code (SpanProcessor.OnEnd, runtime/trace task end)
deriving DecidableEq, Repr

def Lbl.prims : Lbl → List Prim
  | .mut _ | .addChild _ | .access | .endLock _ _ | .endLockPanic _ _ _ _ | .snapshot _ _ => [.lock, .body, .unlock]
  | .register _ | .unregister _ | .endCall _ _ | .loadProcs _ | .endReturn _ _ => [.body]
  | .taskEnd _ | .onEnd _ _ _ _ => [.callout]
  | .oTaskEnd _ _ => [.callout]
  | .oRelock _ _ => [.lock, .body, .unlock]

/-- scan a primitive sequence: `some held'` if the mutex is never re-locked while held, never unlocked while free
and no callout happens while it is held -/
def lockScan : Bool → List Prim → Option Bool
  | held, [] => some held
  | held, .lock :: r => if held then none else lockScan true r
  | held, .unlock :: r => if held then lockScan false r else none
  | held, .body :: r => lockScan held r
  | held, .callout :: r => if held then none else lockScan held r

end Otel.C10
