/-
C10 — wire format of span operations and snapshots: the same syntax as the C04 driver (whose definitions live in its
`Main.lean` and therefore cannot be imported; this is a copy of the parsers/renderers).
  op  = sa <kvs> · ev <hex name> <kvs> · ln <tid>:<sid>:<ts> <kvs> · re <hex msg|-> <kvs> · st <code> <hex desc> · nm <hex>
  kvs = `-` or `kv,kv,…`; kv = <hex key>=<value>; value = N | B:0/1 | I:<dec> | F:f<16 hex> | S:<hex> | BS:… | IS:… | FS:… | SS:…
  snapshot = <hex name> <status code> <hex desc> <kvs> <dropped attrs> <events> <dropped events> <links> <dropped links>
-/
import Otel.Base.Wire
import Otel.C04.Types
open Otel Otel.Wire Otel.C04

namespace Otel.C10.Drv

def splitOnTok (sep : String) (l : List String) : List (List String) :=
  let r := l.foldl (fun (acc : List (List String) × List String) t =>
    if t == sep then (acc.2.reverse :: acc.1, []) else (acc.1, t :: acc.2)) ([], [])
  (r.2.reverse :: r.1).reverse

def parseFloatBits (s : String) : Option UInt64 :=
  match s.toList with
  | 'f' :: rest =>
    if rest.length = 16 then (parseHexChars rest).map (fun bs => bs.foldl (fun acc b => acc * 256 + b.toUInt64) 0)
    else none
  | _ => none

def parseSeq {α : Type} (f : String → Option α) (p : String) : Option (List α) :=
  if p.isEmpty then some [] else (p.splitOn ";").mapM f

def parseBool (s : String) : Option Bool := if s == "1" then some true else if s == "0" then some false else none

def parseValue (s : String) : Option Value :=
  match s.splitOn ":" with
  | ["N"] => some .invalid
  | ["B", p] => (parseBool p).map .bool
  | ["I", p] => p.toInt?.map .int
  | ["F", p] => (parseFloatBits p).map .float
  | ["S", p] => (parseHex p).map .str
  | ["BS", p] => (parseSeq parseBool p).map .bools
  | ["IS", p] => (parseSeq String.toInt? p).map .ints
  | ["FS", p] => (parseSeq parseFloatBits p).map .floats
  | ["SS", p] => (parseSeq parseHex p).map .strs
  | _ => none

def parseKV (s : String) : Option KV :=
  match s.splitOn "=" with
  | [k, v] => do pure ⟨← parseHex k, ← parseValue v⟩
  | _ => none

def parseKVs (s : String) : Option (List KV) :=
  if s == "-" then some [] else (s.splitOn ",").mapM parseKV

def parseSC (s : String) : Option SC :=
  match s.splitOn ":" with
  | [a, b, c] => do pure ⟨← a.toNat?, ← b.toNat?, ← c.toNat?⟩
  | _ => none

/-- reflect type string of `errors.New(…)`: external to the model (parameter of `Op.recordError`) -/
def errorsNewType : Bytes :=
  [0x2a, 0x65, 0x72, 0x72, 0x6f, 0x72, 0x73, 0x2e, 0x65, 0x72, 0x72, 0x6f, 0x72, 0x53, 0x74, 0x72, 0x69, 0x6e, 0x67]

def parseOp : List String → Option Op
  | ["sa", kvs] | ["SA", kvs] => (parseKVs kvs).map .setAttrs
  | ["ev", n, kvs] => do pure (.addEvent (← parseHex n) (← parseKVs kvs))
  | ["ln", sc, kvs] | ["LN", sc, kvs] => do pure (.addLink (← parseSC sc) (← parseKVs kvs))
  | ["re", m, kvs] =>
    if m == "-" then (parseKVs kvs).map (.recordError none)
    else do pure (.recordError (some (errorsNewType, ← parseHex m)) (← parseKVs kvs))
  | ["st", c, d] => do pure (.setStatus (← c.toNat?) (← parseHex d))
  | ["nm", n] => (parseHex n).map .setName
  | ["end"] => some .end_
  | _ => none

def parseItems {α : Type} (f : String → String → Nat → Option α) (s : String) : Option (List α) :=
  if s == "-" then some []
  else (s.splitOn "+").mapM (fun it =>
    match it.splitOn "~" with
    | [h, kvs, d] => do f h kvs (← d.toNat?)
    | _ => none)

def parseEvents : String → Option (List Event) :=
  parseItems (fun h kvs d => do pure ⟨← parseHex h, ← parseKVs kvs, d⟩)

def parseLinks : String → Option (List Link) :=
  parseItems (fun h kvs d => do pure ⟨← parseSC h, ← parseKVs kvs, d⟩)

def parseSnap : List String → Option Snap
  | [n, c, d, kvs, da, evs, de, lns, dl] => do
    pure { name := ← parseHex n, status := ⟨← c.toNat?, ← parseHex d⟩, attrs := ← parseKVs kvs,
           droppedAttrs := ← da.toNat?, events := ← parseEvents evs, droppedEvents := ← de.toNat?,
           links := ← parseLinks lns, droppedLinks := ← dl.toNat? }
  | _ => none

-- rendering (for the `model` field of the verdict / replay files)
def hex16 (w : UInt64) : String :=
  "f" ++ String.ofList ((List.range 8).reverse.flatMap (fun i => hexOfByte (UInt8.ofNat ((w.toNat >>> (8 * i)) % 256))))

def rBool (b : Bool) : String := if b then "1" else "0"

def renderValue : Value → String
  | .invalid => "N"
  | .bool b => "B:" ++ rBool b
  | .int i => "I:" ++ toString i
  | .float w => "F:" ++ hex16 w
  | .str s => "S:" ++ hexOf s
  | .bools l => "BS:" ++ ";".intercalate (l.map rBool)
  | .ints l => "IS:" ++ ";".intercalate (l.map toString)
  | .floats l => "FS:" ++ ";".intercalate (l.map hex16)
  | .strs l => "SS:" ++ ";".intercalate (l.map hexOf)

def renderKVs (l : List KV) : String :=
  if l.isEmpty then "-" else ",".intercalate (l.map (fun a => hexOf a.key ++ "=" ++ renderValue a.val))

def renderSC (c : SC) : String := s!"{c.tid}:{c.sid}:{c.ts}"

def renderSnap (x : Snap) : String :=
  let evs := if x.events.isEmpty then "-" else "+".intercalate (x.events.map (fun e => s!"{hexOf e.name}~{renderKVs e.attrs}~{e.dropped}"))
  let lns := if x.links.isEmpty then "-" else "+".intercalate (x.links.map (fun l => s!"{renderSC l.sc}~{renderKVs l.attrs}~{l.dropped}"))
  s!"{hexOf x.name} {x.status.code} {hexOf x.status.desc} {renderKVs x.attrs} {x.droppedAttrs} {evs} {x.droppedEvents} {lns} {x.droppedLinks}"

end Otel.C10.Drv
