/-
C10 driver. Line kinds

`sched <gen> <task 0|g|r> <pgate 0|1 [+ `R` = the span itself is RecordOnly]> <attrCount> <valueLen> <eventCount> <linkCount> <perEvent> <perLink> <hex name>
       | <op> | <op> … => <obs per op …> ## <isRecording> <childSpanCount> <endTime> ; <delivery> ; <delivery> …`
   task: 0 = no runtime/trace task, g = `executionTracerTaskEnd` replaced by a gate, r = real runtime/trace task
   ops : C04's mutators (`sa`, `ev`, `ln`, `re`, `st`, `nm`), `e <k>` (End call k with timestamp k, in its own
         goroutine, run to its first gate or return), `rE <k> <hex msg>` (goroutine k: RecordError(err), err.Error() parks
         on a gate INSIDE the critical section), `pe <k> <hex msg>` (goroutine k: `defer span.End(ts k); panic(err)`, same
         gate inside fmt.Sprint(recovered)), `g <k>` (release call k's gate), `ir` (IsRecording), `ch [D|R|S]` (child
         Start), `ot` (Tracer()/ForceFlush), `rg <p>` / `ur <p>` (Register/UnregisterSpanProcessor)
   obs : `-` · `0|1` (ir) · `r` returned · `T` blocked in the task-end hook · `P<p>` blocked inside OnEnd of p · `H` hang
         `E` parked inside Error() · `~` started while a call is parked inside its critical section, not awaited ·
         `!` skipped · `<a>+<b>` on the release of an `E` gate: the released call's observation, then the pending op's
   delivery = `<p> <endTime> <children> <immutable 0|1> <snapshot (9 tokens, C04 syntax)>` in OnEnd order
`hist <gen> <perm procs a.b.c|-> <nShared> | <ev> <ev> … => <isRecording> <endTime> <children> ; <snap> ; <snap> …`
   evs : SAc<i>:<k> SAr<i> EVc<i> EVr<i> NMc<i> NMr<i> STc<i>:<code> STr<i> CHc<i> CHr<i> IRc<i> IRr<i>:<0|1>
         ENc<i> ENr<i> OE<p>:<sn> OT PANIC HANG
   snap: `<endTime> <children> <name> <status> <uniq i_j,…|-> <shared j=v,…|-> <events a.b.c|-> <immutable 0|1>`
`alias <gen> <6 limits> | <op> | <op> … => <one 0|1 per op, one token> ## <span idx> <immutable 0|1> <snapshot at OnEnd> ; …`
   argument memory shared between calls (Alias.lean): `mk <kvs> <spare>` caller buffer with spare capacity · `wr <b> <i> <kv>`
   caller overwrites a cell · `sp <hex name> <bufs a.b|-> <links sc@b+sc@-|->` Start · `sa <s> <b>` · `ev <s> <hex> <bufs>` ·
   `re <s> <hex msg|-> <bufs>` · `ln <s> <sc> <b|->` · `st <s> <code> <hex>` · `nm <s> <hex>` · `end <s>`;
   per-op flag: every snapshot exported so far, re-read now, still equals what OnEnd saw
`optsrace <gen> <spare> <shared 0|1> <goroutines> => race|norace|race:other|err mis|same`   finding F45, fixed by 30d2a20: only `norace same` is acceptable
`attrrace <gen> <n attrs> <dup keys> <concurrent Attributes() 0|1> => race | norace | race:other | err`
   known finding F36, observed in a race-instrumented child process (Spec.F36_applies / Spec.attrRaceVerdict)
-/
import Otel.Base.Wire
import Otel.C04.Spec
import Otel.C10.Sched
import Otel.C10.Spec
import Otel.C10.Wire
import Otel.C10.Alias
open Otel Otel.Wire Otel.C04 Otel.C10 Otel.C10.Drv

def dropS (s : String) (n : Nat) : String := (s.drop n).toString

def parseSOp : List String → Option SOp
  | ["e", k] => k.toNat?.map .end_
  | ["g", k] => k.toNat?.map .gate
  | ["ir"] => some .isRec
  | ["ch"] => some (.child .recordAndSample)
  | ["ch", "S"] => some (.child .recordAndSample)
  | ["ch", "R"] => some (.child .recordOnly)
  | ["ch", "D"] => some (.child .drop)
  | ["ot"] => some .other
  | ["rg", p] => p.toNat?.map .reg
  | ["ur", p] => p.toNat?.map .unreg
  | ["rE", k, m] => do pure (.recErrG (← k.toNat?) (← parseHex m))
  | ["pe", k, m] => do pure (.endPanic (← k.toNat?) (← parseHex m))
  | ["end"] => none
  | g => (parseOp g).map .mut

structure Delivery where
  p : Nat
  et : Nat
  children : Nat
  imm : Bool
  snap : Snap
deriving DecidableEq

def parseDelivery : List String → Option Delivery
  | p :: t :: c :: i :: rest => do
    pure { p := ← p.toNat?, et := ← t.toNat?, children := ← c.toNat?, imm := i == "1", snap := ← parseSnap rest }
  | _ => none

def renderDelivery (d : Delivery) : String :=
  s!"{d.p} {d.et} {d.children} {if d.imm then 1 else 0} {renderSnap d.snap}"

structure Final where
  ir : Bool
  children : Nat
  et : Nat
  dels : List Delivery
deriving DecidableEq

def parseFinal (toks : List String) : Option Final :=
  match splitOnTok ";" toks with
  | [i, c, t] :: ds => do
    pure { ir := i == "1", children := ← c.toNat?, et := ← t.toNat?, dels := ← ds.mapM parseDelivery }
  | _ => none

def renderFinal (f : Final) : String :=
  " ; ".intercalate (s!"{if f.ir then 1 else 0} {f.children} {f.et}" :: f.dels.map renderDelivery)

def modelFinal (s : C10.St) : Final :=
  { ir := !s.data.ended, children := s.children, et := s.endTime.getD 0,
    dels := s.delivered.map fun (p, sn) =>
      { p := p, et := sn.endTime.getD 0, children := sn.children, imm := true, snap := sn.snap } }

/-- reflect type string of the harness's gate error (`typeStr`): a parameter, like `errorsNewType` -/
def gateErrType : Bytes := "*trace.c10GateErr".toUTF8.toList

/-- Spec oracle on a controlled schedule, from the script and the observations only (no LTS). Ops are issued one at a
time, so script order is the order of effect (a call parked inside its critical section holds the mutex: it takes
effect where it stands, before the one op issued while it is parked). The End that wins is the first `e` / `pe` op;
everything before it is in (for `pe`: including its own exception event), everything after it is out. -/
def schedOracle (lim : Limits) (name : Bytes) (ops0 : List SOp) (obs0 : List String) (fin : Final) : List String :=
  -- ops the harness skipped (`!`: issued while a pending op already existed) did not happen
  let pairs := (ops0.zip obs0).filter fun (_, o) => o != "!"
  let ops := pairs.map (·.1)
  let obs := pairs.map (·.2)
  let own (o : String) : String := (o.splitOn "+").headD ""
  let pend (o : String) : String := ((o.splitOn "+").drop 1).headD ""
  let isE : SOp → Bool := fun | .end_ _ => true | .endPanic _ _ => true | _ => false
  let firstIdx := ops.findIdx? isE
  let (k, extra) : Nat × List Op := match ops.find? isE with
    | some (.end_ k) => (k, [])
    | some (.endPanic k msg) => (k, [.recordError (some (gateErrType, msg)) []])
    | _ => (0, [])
  let ended := firstIdx.isSome
  let cutAt := firstIdx.getD ops.length
  let pre := ops.take cutAt
  let muts := (pre.filterMap fun
    | .mut op => some op
    | .recErrG _ msg => some (.recordError (some (gateErrType, msg)) [])
    | _ => none) ++ extra
  -- every child STARTED before the end counts, whatever the sampler decided for it
  let nChild := (pre.filter fun | .child _ => true | _ => false).length
  let regd := pre.filterMap fun | .reg p => some p | _ => none
  let must := regd.filter fun p => !(ops.contains (.unreg p))
  let nextObs := obs.drop 1 ++ [""]
  let winnerReturned := ((ops.zip obs).zip nextObs).any fun ((op, o), o') =>
    (own o == "r" && (op == .end_ k || op == .gate k || (match op with | .endPanic k' _ => k' == k | _ => false))) ||
    (op == .end_ k && o == "~" && pend o' == "r")
  let procs := fin.dels.map (·.p)
  let bad : List String := []
  let bad := if obs0.any (fun o => (o.splitOn "+").any fun x => x == "H" || x == "X") then "hang" :: bad else bad
  let bad := if obs0.length == ops0.length then bad else "obs-count" :: bad
  let bad := if Spec.atMostOnce procs then bad else "end_once:twice" :: bad
  let bad := if !winnerReturned || Spec.exactlyOnce must procs then bad else "end_once:missing" :: bad
  let bad := if ended || procs.isEmpty then bad else "end_once:delivered-without-end" :: bad
  let bad := if Spec.singleEndTime (fin.dels.map fun d => if d.et = 0 then none else some d.et) then bad
             else "single_end_time" :: bad
  let bad := if fin.dels.all (fun d => d.et == k) && fin.et == (if ended then k else 0) then bad else "end_time" :: bad
  let bad := if Spec.allSame (fin.dels.map (·.snap)) then bad else "single_snapshot" :: bad
  let bad := if fin.dels.all (fun d => C04.Spec.spanMatchesReference lim name (muts ++ [.end_]) d.snap &&
                                        C04.Spec.exportWellFormed lim d.snap) then bad
             else "snapshot_is_prefix_of_mutations" :: bad
  let bad := if fin.dels.all (·.imm) then bad else "snapshot_immutable" :: bad
  let bad := if fin.ir == !ended then bad else "not_recording:final" :: bad
  let irBad := (((ops.zip obs).zip nextObs).zipIdx).any fun (((op, o), o'), j) =>
    let want := if j < cutAt then "1" else "0"
    op == .isRec && (if o == "~" then pend o' != want else o != want)
  let bad := if irBad then "not_recording_after_end" :: bad else bad
  let bad := if fin.children == nChild && fin.dels.all (·.children == nChild) then bad else "child_count_exact" :: bad
  bad.reverse

def dotList (s : String) : Option (List Nat) := if s == "-" then some [] else (s.splitOn ".").mapM (·.toNat?)

def parsePairs (sep : String) (s : String) : Option (List (Nat × Nat)) :=
  if s == "-" then some [] else (s.splitOn ",").mapM fun e =>
    match e.splitOn sep with
    | [a, b] => do pure (← a.toNat?, ← b.toNat?)
    | _ => none

def parse2 (body : String) : Option (Nat × Nat) :=
  match body.splitOn ":" with
  | [a, b] => do pure (← a.toNat?, ← b.toNat?)
  | _ => none

def parseEv (t : String) : Option Spec.Ev :=
  if t == "OT" then some .other
  else if t == "PANIC" then some .panic
  else if t == "HANG" then some .hang
  else if t.startsWith "SAc" then (parse2 (dropS t 3)).map fun (i, k) => .saC i k
  else if t.startsWith "SAr" then (dropS t 3).toNat?.map .saR
  else if t.startsWith "EVc" then (dropS t 3).toNat?.map .evC
  else if t.startsWith "EVr" then (dropS t 3).toNat?.map .evR
  else if t.startsWith "NMc" then (dropS t 3).toNat?.map .nmC
  else if t.startsWith "NMr" then (dropS t 3).toNat?.map .nmR
  else if t.startsWith "STc" then (parse2 (dropS t 3)).map fun (i, c) => .stC i c
  else if t.startsWith "STr" then (dropS t 3).toNat?.map .stR
  else if t.startsWith "CHc" then (dropS t 3).toNat?.map .chC
  else if t.startsWith "CHr" then (dropS t 3).toNat?.map .chR
  else if t.startsWith "IRc" then (dropS t 3).toNat?.map .irC
  else if t.startsWith "IRr" then (parse2 (dropS t 3)).map fun (i, v) => .irR i (v == 1)
  else if t.startsWith "ENc" then (dropS t 3).toNat?.map .enC
  else if t.startsWith "ENr" then (dropS t 3).toNat?.map .enR
  else if t.startsWith "OE" then (parse2 (dropS t 2)).map fun (p, sn) => .onEnd p sn
  else none

def parseHSnap : List String → Option Spec.HSnap
  | [t, c, n, st, u, sh, ev, i] => do
    pure { endTime := ← t.toNat?, children := ← c.toNat?, name := ← n.toNat?, status := ← st.toNat?,
           uniq := ← parsePairs "_" u, shared := ← parsePairs "=" sh, events := ← dotList ev, immutable := i == "1" }
  | _ => none

def schedLine (task pg : String) (ls : List String) (name0 : String) (rest obs : List String) : Option Verdict := do
  let [a, b, c, d, e, f] := ls | none
  let lim : Limits := ⟨← a.toInt?, ← b.toInt?, ← c.toInt?, ← d.toInt?, ← e.toInt?, ← f.toInt?⟩
  let name ← parseHex name0
  let ops ← ((splitOnTok "|" rest).filter (fun g => !g.isEmpty)).mapM parseSOp
  let [o1, o2] := splitOnTok "##" obs | none
  let fin ← parseFinal o2
  let cfg : Cfg := { lim := lim, name := name, hasTask := task != "0" }
  let gates : Gates := { task := task == "g", proc := pg.startsWith "1", errType := gateErrType }
  let ((s0, aux), mobs) := runScript2 cfg gates (init cfg) {} ops
  -- a script that ends with a call parked inside a critical section: implicit release (the harness does the same)
  let s := match aux.parked with
    | some (k, _, _) => (applyOp2 cfg gates s0 aux (.gate k)).1.1
    | none => s0
  let mfin := modelFinal s
  let agree := mobs == o1 && mfin == fin
  let bad := schedOracle lim name ops o1 fin
  let nE := (ops.filter fun | .end_ _ => true | .endPanic _ _ => true | _ => false).length
  let afterEnd := (ops.dropWhile fun | .end_ _ => false | .endPanic _ _ => false | _ => true).drop 1
  let tags := (if nE ≥ 2 then ["end-again"] else []) ++ (if nE == 0 then ["no-end"] else []) ++
    (if mobs.contains "T" then ["task-gate"] else []) ++ (if task == "r" then ["rt-task"] else []) ++
    (if mobs.any (·.startsWith "P") then ["onend-gate"] else []) ++
    (if afterEnd.any (fun | .mut _ => true | _ => false) then ["mut-after-end"] else []) ++
    (if afterEnd.any (fun | .child _ => true | _ => false) then ["child-after-end"] else []) ++
    (if ops.any (fun | .child .drop => true | _ => false) then ["child-dropped"] else []) ++
    (if ops.any (fun | .child .recordOnly => true | _ => false) then ["child-record-only"] else []) ++
    (if pg.endsWith "R" then ["parent-record-only"] else []) ++
    (if ops.any (fun | .recErrG _ _ => true | _ => false) && mobs.contains "E" then ["recorderror-parked"] else []) ++
    (if ops.any (fun | .endPanic _ _ => true | _ => false) then ["end-panicking"] else []) ++
    (if ops.any (fun | .endPanic _ _ => true | _ => false) && mobs.contains "E" then ["end-panicking-parked"] else []) ++
    (if mobs.contains "~" then ["op-while-lock-held"] else []) ++
    (if mobs.any (fun o => o.startsWith "r+") || mobs.any (fun o => (o.splitOn "+").length == 2) then ["released-with-pending"] else []) ++
    (if s.delivered.length ≥ 2 then ["fanout"] else []) ++
    (if s.loaded == some [] then ["no-processor"] else []) ++
    (if afterEnd.any (fun | .reg _ => true | .unreg _ => true | _ => false) then ["reg-during-end"] else []) ++
    (if !s.returned.isEmpty then ["winner-returned"] else [])
  pure { agree := agree, spec := if bad.isEmpty then "ok" else "FAIL",
         nontrivial := nE ≥ 1 && (afterEnd.length > 0),
         branches := if tags.isEmpty then "-" else ",".intercalate tags,
         model := if agree && bad.isEmpty then "="
                  else s!"violated=[{",".intercalate bad}] model: " ++ " ".intercalate mobs ++ " ## " ++ renderFinal mfin }

def histLine (perm nShared : String) (evToks obs : List String) : Option Verdict := do
  let perm ← dotList perm
  let nShared ← nShared.toNat?
  let evs ← evToks.mapM parseEv
  let (finalRec, finalEnd, finalChildren, snaps) ← match splitOnTok ";" obs with
    | [i, t, c] :: ss => do pure (i == "1", ← t.toNat?, ← c.toNat?, ← ss.mapM parseHSnap)
    | _ => none
  let bad := Spec.histCheck perm nShared evs snaps finalRec finalEnd finalChildren
  let nE := (evs.filter Spec.isEnC).length
  let b := Spec.bounds evs
  -- concurrency actually observed: calls overlapping the window in which the span ended
  let overlap := evs.zipIdx.any fun (e, j) =>
    (match e with | .saR _ | .evR _ | .nmR _ | .stR _ | .chR _ => true | _ => false) &&
    Spec.before b.lo (some j) && !(Spec.before b.hi (some j))
  let tags := (if nE ≥ 2 then ["end-race"] else []) ++ (if nE == 0 then ["no-end"] else []) ++
    (if overlap then ["mutator-overlaps-end"] else []) ++
    (if snaps.any (fun s => !s.uniq.isEmpty) then ["attrs"] else []) ++
    (if snaps.any (fun s => s.children > 0) then ["children"] else []) ++
    (if evs.contains .other then ["provider-ops"] else []) ++
    (if (evs.filter Spec.isOnEnd).length ≥ 2 then ["fanout"] else [])
  pure { agree := true, spec := if bad.isEmpty then "ok" else "FAIL",
         nontrivial := nE ≥ 1, branches := if tags.isEmpty then "-" else ",".intercalate tags,
         model := if bad.isEmpty then "-" else s!"violated=[{",".intercalate bad}]" }

/-! ### leg `alias` -/
def parseIdxList (s : String) : Option (List Nat) := if s == "-" then some [] else (s.splitOn ".").mapM (·.toNat?)

def parseOptIdx (s : String) : Option (Option Nat) := if s == "-" then some none else s.toNat?.map some

def parseALink (l : String) : Option (SC × Option Nat) :=
  match l.splitOn "@" with
  | [sc, b] => do pure (← parseSC sc, ← parseOptIdx b)
  | _ => none

def parseAOp : List String → Option Alias.AOp
  | ["mk", kvs, sp] => do pure (.mk (← parseKVs kvs) (← sp.toNat?))
  | ["wr", b, i, kv] => do pure (.wr (← b.toNat?) (← i.toNat?) (← parseKV kv))
  | ["sp", n, bufs, links] => do
    let ls ← if links == "-" then some [] else (links.splitOn "+").mapM parseALink
    pure (.start (← parseHex n) (← parseIdxList bufs) ls)
  | ["sa", s, b] => do pure (.setAttrs (← s.toNat?) (← b.toNat?))
  | ["ev", s, n, bufs] => do pure (.addEvent (← s.toNat?) (← parseHex n) (← parseIdxList bufs))
  | ["re", s, m, bufs] => do
    let err ← if m == "-" then some none else (parseHex m).map fun x => some (errorsNewType, x)
    pure (.recordError (← s.toNat?) err (← parseIdxList bufs))
  | ["ln", s, sc, b] => do pure (.addLink (← s.toNat?) (← parseSC sc) (← parseOptIdx b))
  | ["st", s, c, d] => do pure (.plain (← s.toNat?) (.setStatus (← c.toNat?) (← parseHex d)))
  | ["nm", s, n] => do pure (.plain (← s.toNat?) (.setName (← parseHex n)))
  | ["end", s] => s.toNat?.map .end_
  | _ => none

structure AExp where
  idx : Nat
  imm : Bool
  snap : Snap
deriving DecidableEq

def parseAExp : List String → Option AExp
  | i :: m :: rest => do pure { idx := ← i.toNat?, imm := m == "1", snap := ← parseSnap rest }
  | _ => none

def renderAExp (e : AExp) : String := s!"{e.idx} {if e.imm then 1 else 0} {renderSnap e.snap}"

/-- the heap model run op by op: after every op every exported snapshot is read through the current heap and compared
with what it showed when it was exported -/
def aliasModel (lim : Limits) (ops : List Alias.AOp) : List Bool × List AExp :=
  let r := ops.foldl (fun (acc : Alias.World × List Snap × List Bool) op =>
    let w := Alias.step Alias.cur lim acc.1 op
    let atE := acc.2.1 ++ (w.exported.drop acc.2.1.length).map fun e => Alias.snapView w.heap e.2
    let same := (w.exported.zip atE).all fun (e, sn) => Alias.snapView w.heap e.2 == sn
    (w, atE, acc.2.2 ++ [same])) (({} : Alias.World), [], [])
  (r.2.2, (r.1.exported.zip r.2.1).map fun (e, sn) =>
    { idx := e.1, imm := Alias.snapView r.1.heap e.2 == sn, snap := sn })

/-- coverage tag: the caller writes to a slice it handed to AddLink / WithLinks earlier (finding F44, fixed by 48fa451) -/
def linkBufWritten : List Alias.AOp → Bool
  | [] => false
  | op :: rest =>
    (match op with
     | .addLink _ _ (some b) => rest.any fun | .wr b' _ _ => b' == b | _ => false
     | .start _ _ links => links.any fun l => match l.2 with
        | some b => rest.any fun | .wr b' _ _ => b' == b | _ => false
        | none => false
     | _ => false) || linkBufWritten rest

def aliasLine (ls : List String) (rest obs : List String) : Option Verdict := do
  let [a, b, c, d, e, f] := ls | none
  let lim : Limits := ⟨← a.toInt?, ← b.toInt?, ← c.toInt?, ← d.toInt?, ← e.toInt?, ← f.toInt?⟩
  let ops ← ((splitOnTok "|" rest).filter (fun g => !g.isEmpty)).mapM parseAOp
  let [[fl], o2] := splitOnTok "##" obs | none
  let flags := if fl == "-" then [] else fl.toList.map (· == '1')
  let exps ← if o2 == ["-"] then some [] else (splitOnTok ";" o2).mapM parseAExp
  let (mflags, mexps) := aliasModel lim ops
  let agree := mflags == flags && mexps == exps
  -- Spec oracle: value semantics (arguments copied at the call), on the observations alone
  let v := Alias.vrun lim {} ops
  let bad : List String := []
  let bad := if flags.length == ops.length then bad else "obs-count" :: bad
  let bad := if exps.map (·.idx) == v.exported.map (·.1) then bad else "exported-spans" :: bad
  let valueOK := exps.map (·.snap) == v.exported.map (·.2)
  let bad := if valueOK then bad else "arguments_copied_at_call" :: bad
  let bad := if exps.all (fun x => C04.Spec.exportWellFormed lim x.snap) then bad else "export-well-formed" :: bad
  let bad := if flags.all id && exps.all (·.imm) then bad else "snapshot_immutable" :: bad
  let isExp (i : Nat) : Bool := v.exported.any (·.1 == i)
  -- non-trivial: after some span was exported, a later op passes or overwrites a caller buffer
  let firstEnd := ops.findIdx? fun | .end_ _ => true | _ => false
  let later := match firstEnd with | some j => ops.drop (j + 1) | none => []
  let usesBuf : Alias.AOp → Bool
    | .wr _ _ _ => true
    | .setAttrs _ _ => true
    | .addEvent _ _ bs => !bs.isEmpty
    | .recordError _ (some _) _ => true
    | .addLink _ _ (some _) => true
    | .start _ bs ls => !bs.isEmpty || ls.any (·.2.isSome)
    | _ => false
  let evBufs : List (Nat × Nat) := ops.flatMap fun
    | .addEvent s _ bs => bs.map fun b => (s, b)
    | .recordError s (some _) bs => bs.map fun b => (s, b)
    | _ => []
  let sharedAcross := evBufs.any fun (s, b) => evBufs.any fun (s', b') => b' == b && s' != s
  let spareRE := ops.any fun
    | .recordError _ (some _) (b :: _) => ops.zipIdx.any fun (o, j) =>
        (match o with | .mk _ sp => sp ≥ 2 | _ => false) &&
        ((ops.take j).filter fun | .mk _ _ => true | _ => false).length == b
    | _ => false
  let tags := (if !v.exported.isEmpty then ["exported"] else []) ++
    (if later.any (fun | .wr _ _ _ => true | _ => false) then ["write-after-export"] else []) ++
    (if later.any (fun | .recordError _ (some _) (_ :: _) => true | _ => false) then ["recorderror-after-export"] else []) ++
    (if sharedAcross then ["buffer-shared-across-spans"] else []) ++
    (if spareRE then ["recorderror-spare-capacity"] else []) ++
    (if ops.any (fun | .addEvent _ _ (_ :: _ :: _) => true | .recordError _ _ (_ :: _ :: _) => true | _ => false) then ["two-attribute-options"] else []) ++
    (if ops.any (fun | .addLink _ _ (some _) => true | .start _ _ ls => ls.any (·.2.isSome) | _ => false) then ["link-buffer"] else []) ++
    (if ops.any (fun | .start _ (_ :: _) _ => true | _ => false) then ["start-attributes"] else []) ++
    (if linkBufWritten ops then ["link-buffer-written"] else []) ++
    (if (ops.filter fun | .start _ _ _ => true | _ => false).length ≥ 2 then ["several-spans"] else []) ++
    (if ops.any (fun | .end_ i => !isExp i | _ => false) then ["end-unknown-span"] else [])
  pure { agree := agree,
         spec := if bad.isEmpty then "ok" else "FAIL",
         nontrivial := later.any usesBuf,
         branches := if tags.isEmpty then "-" else ",".intercalate tags,
         model := if agree && bad.isEmpty then "="
                  else s!"violated=[{",".intercalate bad}] model: " ++ String.ofList (mflags.map fun b => if b then '1' else '0') ++
                       " ## " ++ " ; ".intercalate (mexps.map renderAExp) }

def stepLine (_ : Unit) (toks : List String) : Unit × Option Verdict :=
  let (inp, obs) := splitObs toks
  match inp with
  | "sched" :: _ :: task :: pg :: a :: b :: c :: d :: e :: f :: name0 :: rest =>
    ((), schedLine task pg [a, b, c, d, e, f] name0 rest obs)
  | "alias" :: _ :: a :: b :: c :: d :: e :: f :: rest => ((), aliasLine [a, b, c, d, e, f] rest obs)
  | "hist" :: _ :: perm :: nShared :: "|" :: evToks => ((), histLine perm nShared evToks obs)
  | ["attrrace", _, n, dup, conc] =>
    match n.toNat?, dup.toNat?, obs with
    | some n, some dup, [o] =>
      let applies := Spec.F36_applies n dup (conc == "1")
      let spec := match Spec.attrRaceVerdict n dup (conc == "1") o with
        | some true => "KNOWN:F36"
        | some false => "ok"
        | none => "FAIL"
      ((), some { agree := true, spec := spec, nontrivial := applies,
                  branches := (if applies then "f36-applies" else "control") ++ "," ++ (if o == "norace" then "norace" else "race"),
                  model := if applies then "race-possible" else "norace" })
    | _, _, _ => ((), none)
  | ["optsrace", _, spare, shared, g] =>
    match spare.toNat?, g.toNat?, obs with
    | some spare, some g, [o, mis] =>
      let applies := Spec.F45_applies spare (shared == "1") g
      let spec := if Spec.optsRaceOK o mis then "ok" else "FAIL"
      ((), some { agree := true, spec := spec, nontrivial := applies,
                  branches := (if applies then "f45-applies" else "control") ++ "," ++ o ++ "," ++ mis,
                  model := "norace same" })
    | _, _, _ => ((), none)
  | _ => ((), none)

def main : IO Unit := Wire.run () stepLine
