/-
`truncate(limit, s)` of sdk/trace/span.go and sdk/log/record.go (the two copies are identical),
modelled over the rune chunks of `s`, and the reference truncation it must equal.
Shared by C04 and C17.
-/
import Otel.Base.Utf8
namespace Otel
namespace Trunc
open Utf8

/-- slow loop ("Truncate while validating UTF-8"): copy valid runes while `count < lim`, skip invalid bytes -/
def slow (lim : Nat) : List Chunk → Bytes → Nat → Bytes
  | [], acc, _ => acc
  | c :: tl, acc, count =>
    if count ≥ lim then acc
    else if c.invalid then slow lim tl acc count
    else slow lim tl (acc ++ c.bytes) (count + 1)

/-- fast loop (`for i, c := range s`): every rune that is not an invalid byte is counted; the first
invalid byte switches to the slow loop with the prefix written so far. -/
def fast (lim : Nat) (s : Bytes) : List Chunk → Bytes → Nat → Bytes
  | [], _, _ => s
  | c :: tl, pre, count =>
    if c.invalid then slow lim (c :: tl) pre count
    else if count + 1 > lim then pre
    else fast lim s tl (pre ++ c.bytes) (count + 1)

/-- the code: `if limit < 0 || len(s) <= limit { return s }`, then the two loops -/
def truncate (limit : Int) (s : Bytes) : Bytes :=
  if limit < 0 ∨ (s.length : Int) ≤ limit then s
  else fast limit.toNat s (chunks s) [] 0

/-- reference: when `s` is longer than `limit` bytes, the first `limit` valid runes of `s` -/
def refTrunc (limit : Int) (s : Bytes) : Bytes :=
  if limit < 0 ∨ (s.length : Int) ≤ limit then s
  else flat (((chunks s).filter (fun c => !c.invalid)).take limit.toNat)

theorem slow_eq (lim : Nat) (cs : List Chunk) (acc : Bytes) (count : Nat) :
    slow lim cs acc count = acc ++ flat ((cs.filter (fun c => !c.invalid)).take (lim - count)) := by
  induction cs generalizing acc count with
  | nil => simp [slow]
  | cons c tl ih =>
    unfold slow
    by_cases h : count ≥ lim
    · have : lim - count = 0 := by omega
      simp [h, this]
    · simp only [h, if_false]
      by_cases hi : c.invalid
      · simp [hi, ih]
      · have : lim - count = (lim - (count + 1)) + 1 := by omega
        simp [hi, ih, this, List.take_succ_cons]

theorem fast_eq (lim : Nat) (s : Bytes) (cs : List Chunk) (pre : Bytes) (count : Nat)
    (hs : s = pre ++ flat cs) (hc : count ≤ lim) :
    fast lim s cs pre count = pre ++ flat ((cs.filter (fun c => !c.invalid)).take (lim - count)) := by
  induction cs generalizing pre count with
  | nil => simp [fast, hs]
  | cons c tl ih =>
    unfold fast
    by_cases hi : c.invalid
    · simp only [hi, if_true]; exact slow_eq lim (c :: tl) pre count
    · simp only [hi]
      by_cases h : count + 1 > lim
      · have : lim - count = 0 := by omega
        simp [h, this]
      · have h2 : lim - count = (lim - (count + 1)) + 1 := by omega
        simp only [Bool.false_eq_true, if_false, h]
        rw [ih (pre ++ c.bytes) (count + 1) (by simp [hs]) (by omega)]
        simp [hi, h2, List.take_succ_cons]

end Trunc
end Otel
