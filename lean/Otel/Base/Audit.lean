/-
`#audit_module M` prints, for every theorem declared in module `M`, the axioms its proof depends on:
`THEOREM <name> AXIOMS <a> <b> …`. Used by /verif/bin/check (proof audit, DESIGN §1.5 step 2).
-/
import Lean
open Lean Elab Command

elab "#audit_module " m:ident : command => do
  let env ← getEnv
  let some idx := env.getModuleIdx? m.getId | throwError "module {m.getId} is not imported"
  let names := env.header.moduleData[idx.toNat]!.constNames
  for n in names do
    if n.isInternal then continue
    -- compiler-generated equation/unfolding/injectivity lemmas are not obligations
    let last := n.getString!
    let isEqN := last.startsWith "eq_" && ((last.drop 3).toString.all Char.isDigit || last == "eq_def" || last == "eq_unfold")
    if isEqN || last.startsWith "match_" || last.startsWith "proof_" || last == "congr_simp" || last == "injEq" ||
       last == "inj" || last == "sizeOf_spec" || last == "noConfusion" then continue
    match env.find? n with
    | some (.thmInfo _) =>
      let axs ← Lean.collectAxioms n
      let axs := axs.qsort (fun a b => a.toString < b.toString)
      logInfo m!"THEOREM {n} AXIOMS {" ".intercalate (axs.toList.map (·.toString))}"
    | _ => pure ()
