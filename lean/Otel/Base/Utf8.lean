/-
Model of Go's `unicode/utf8` decoding as used by `range s`, `utf8.DecodeRuneInString`,
`utf8.ValidString`, `utf8.RuneCountInString` (core Lean only).

Tied to Go by the differential check `utf8` (harness/wb/sdk/trace: lines `dec`), which is part of C04.
-/
import Otel.Base.Wire
namespace Otel
namespace Utf8

def isCont (b : UInt8) : Bool := 0x80 ≤ b.toNat && b.toNat ≤ 0xBF

/-- first-byte/second-byte acceptance of a 2-byte sequence (C2..DF, continuation) -/
def valid2 (b0 b1 : UInt8) : Bool := 0xC2 ≤ b0.toNat && b0.toNat < 0xE0 && isCont b1
/-- 3-byte sequence (E0..EF; second byte A0..BF after E0, 80..9F after ED, else 80..BF) -/
def valid3 (b0 b1 b2 : UInt8) : Bool :=
  0xE0 ≤ b0.toNat && b0.toNat < 0xF0 &&
  (if b0.toNat = 0xE0 then 0xA0 else 0x80) ≤ b1.toNat &&
  b1.toNat ≤ (if b0.toNat = 0xED then 0x9F else 0xBF) && isCont b2
/-- 4-byte sequence (F0..F4; second byte 90..BF after F0, 80..8F after F4, else 80..BF) -/
def valid4 (b0 b1 b2 b3 : UInt8) : Bool :=
  0xF0 ≤ b0.toNat && b0.toNat < 0xF5 &&
  (if b0.toNat = 0xF0 then 0x90 else 0x80) ≤ b1.toNat &&
  b1.toNat ≤ (if b0.toNat = 0xF4 then 0x8F else 0xBF) && isCont b2 && isCont b3

def rune2 (b0 b1 : UInt8) : Nat := (b0.toNat &&& 0x1F) <<< 6 ||| (b1.toNat &&& 0x3F)
def rune3 (b0 b1 b2 : UInt8) : Nat :=
  (b0.toNat &&& 0x0F) <<< 12 ||| (b1.toNat &&& 0x3F) <<< 6 ||| (b2.toNat &&& 0x3F)
def rune4 (b0 b1 b2 b3 : UInt8) : Nat :=
  (b0.toNat &&& 0x07) <<< 18 ||| (b1.toNat &&& 0x3F) <<< 12 ||| (b2.toNat &&& 0x3F) <<< 6 ||| (b3.toNat &&& 0x3F)

/-- Go's utf8.DecodeRuneInString: returns (rune, size); (0xFFFD,1) on invalid; (0xFFFD,0) on empty.
The three multi-byte classes have disjoint first-byte ranges, so trying them in turn is the
same function as Go's table-driven decoder. -/
def decode : Bytes → Nat × Nat
  | [] => (0xFFFD, 0)
  | b0 :: rest =>
    if b0.toNat < 0x80 then (b0.toNat, 1)
    else match rest with
      | [] => (0xFFFD, 1)
      | b1 :: rest1 =>
        if valid2 b0 b1 then (rune2 b0 b1, 2)
        else match rest1 with
          | [] => (0xFFFD, 1)
          | b2 :: rest2 =>
            if valid3 b0 b1 b2 then (rune3 b0 b1 b2, 3)
            else match rest2 with
              | [] => (0xFFFD, 1)
              | b3 :: _ => if valid4 b0 b1 b2 b3 then (rune4 b0 b1 b2 b3, 4) else (0xFFFD, 1)

theorem decode_size_pos (b : UInt8) (r : Bytes) : 1 ≤ (decode (b :: r)).2 := by
  unfold decode
  repeat' split
  all_goals simp_all

theorem decode_size_le (s : Bytes) : (decode s).2 ≤ s.length := by
  unfold decode
  repeat' split
  all_goals simp

/-- a rune that is not an invalid byte is decoded from its own bytes alone: whatever follows,
the same rune and size come out -/
theorem decode_take_append (s rest : Bytes) (h : ¬ ((decode s).1 = 0xFFFD ∧ (decode s).2 = 1)) (hne : s ≠ []) :
    decode (s.take (decode s).2 ++ rest) = decode s := by
  revert h
  unfold decode
  repeat' split
  all_goals first | (simp_all; done) | (simp_all; omega)

/-- One step of `for i, c := range s`: the bytes consumed, the rune, and whether it is an
invalid byte (rune error of width 1). -/
structure Chunk where
  bytes : Bytes
  rune : Nat
  invalid : Bool
deriving Repr, DecidableEq

/-- `range s` with explicit fuel (structural recursion, so the kernel can evaluate it) -/
def chunksAux : Nat → Bytes → List Chunk
  | 0, _ => []
  | _, [] => []
  | fuel + 1, b :: r =>
    let d := decode (b :: r)
    ⟨(b :: r).take d.2, d.1, d.1 == 0xFFFD && d.2 == 1⟩ :: chunksAux fuel ((b :: r).drop d.2)

/-- the rune chunks of `s`, exactly as `range s` walks them -/
def chunks (s : Bytes) : List Chunk := chunksAux s.length s

theorem chunksAux_fuel2 (f1 f2 : Nat) (s : Bytes) (h1 : s.length ≤ f1) (h2 : s.length ≤ f2) :
    chunksAux f1 s = chunksAux f2 s := by
  induction f1 generalizing f2 s with
  | zero =>
    have : s = [] := List.eq_nil_of_length_eq_zero (by omega)
    subst this; cases f2 <;> rfl
  | succ n ih =>
    cases s with
    | nil => cases f2 <;> simp [chunksAux]
    | cons b r =>
      cases f2 with
      | zero => simp at h2
      | succ m =>
        simp only [chunksAux]
        have hp := decode_size_pos b r
        congr 1
        simp only [List.length_cons] at h1 h2
        exact ih m _ (by simp only [List.length_drop, List.length_cons]; omega)
          (by simp only [List.length_drop, List.length_cons]; omega)

theorem chunksAux_fuel (fuel : Nat) (s : Bytes) (h : s.length ≤ fuel) :
    chunksAux fuel s = chunksAux s.length s := chunksAux_fuel2 _ _ s h (Nat.le_refl _)

@[simp] theorem chunks_nil : chunks [] = [] := rfl

theorem chunks_cons (b : UInt8) (r : Bytes) :
    chunks (b :: r) =
      ⟨(b :: r).take (decode (b :: r)).2, (decode (b :: r)).1,
        (decode (b :: r)).1 == 0xFFFD && (decode (b :: r)).2 == 1⟩ ::
        chunks ((b :: r).drop (decode (b :: r)).2) := by
  have hp := decode_size_pos b r
  simp only [chunks, List.length_cons, chunksAux]
  congr 1
  exact chunksAux_fuel _ _ (by simp only [List.length_drop, List.length_cons]; omega)

def flat (cs : List Chunk) : Bytes := (cs.map (·.bytes)).flatten

@[simp] theorem flat_nil : flat [] = [] := rfl
@[simp] theorem flat_cons (c : Chunk) (cs : List Chunk) : flat (c :: cs) = c.bytes ++ flat cs := by
  simp [flat]
theorem flat_append (a b : List Chunk) : flat (a ++ b) = flat a ++ flat b := by
  simp [flat]

/-- chunking loses nothing: concatenating the chunks gives the string back -/
theorem flat_chunks (s : Bytes) : flat (chunks s) = s := by
  induction h : s.length using Nat.strongRecOn generalizing s with
  | _ n ih =>
    cases s with
    | nil => simp
    | cons b r =>
      rw [chunks_cons]
      simp only [flat_cons]
      have hp := decode_size_pos b r
      have : flat (chunks (List.drop (decode (b :: r)).2 (b :: r))) = List.drop (decode (b :: r)).2 (b :: r) := by
        apply ih ((List.drop (decode (b :: r)).2 (b :: r)).length) _ _ rfl
        subst h
        simp only [List.length_drop, List.length_cons]
        omega
      rw [this, List.take_append_drop]

/-- utf8.ValidString -/
def validString (s : Bytes) : Bool := (chunks s).all (fun c => !c.invalid)
/-- utf8.RuneCountInString -/
def runeCount (s : Bytes) : Nat := (chunks s).length

end Utf8
end Otel

namespace Otel
namespace Utf8

/-- well-formed chunk: non-empty, decodes to itself -/
def Chunk.WF (c : Chunk) : Prop :=
  c.bytes ≠ [] ∧ decode c.bytes = (c.rune, c.bytes.length) ∧
  c.invalid = (c.rune == 0xFFFD && c.bytes.length == 1)

theorem decode_invalid_single (b : UInt8) (r : Bytes)
    (h : (decode (b :: r)).1 = 0xFFFD ∧ (decode (b :: r)).2 = 1) : decode [b] = (0xFFFD, 1) := by
  by_cases hb : b.toNat < 0x80
  · have : decode (b :: r) = (b.toNat, 1) := by simp [decode, hb]
    rw [this] at h
    simp only at h
    omega
  · simp [decode, hb]

theorem chunks_wf (s : Bytes) : ∀ c ∈ chunks s, c.WF := by
  induction h : s.length using Nat.strongRecOn generalizing s with
  | _ n ih =>
    cases s with
    | nil => simp
    | cons b r =>
      rw [chunks_cons]
      intro c hc
      have hp := decode_size_pos b r
      have hle := decode_size_le (b :: r)
      simp only [List.mem_cons] at hc
      rcases hc with hc | hc
      · subst hc
        by_cases hv : (decode (b :: r)).1 = 0xFFFD ∧ (decode (b :: r)).2 = 1
        · have h1 := decode_invalid_single b r hv
          refine ⟨?_, ?_, ?_⟩
          · simp [hv.2]
          · simp [hv.2, hv.1, h1]
          · simp [hv.2, hv.1]
        · have h1 := decode_take_append (b :: r) [] hv (by simp)
          simp only [List.append_nil] at h1
          refine ⟨?_, ?_, ?_⟩
          · intro h0
            simp only at h0
            have : ((b :: r).take (decode (b :: r)).2).length = 0 := by rw [h0]; rfl
            simp only [List.length_take, List.length_cons] at this
            simp only [List.length_cons] at hle
            omega
          · simp only [h1, List.length_take, List.length_cons]
            simp only [List.length_cons] at hle
            have : min (decode (b :: r)).2 (r.length + 1) = (decode (b :: r)).2 := by omega
            rw [this]
          · simp only [List.length_take, List.length_cons]
            simp only [List.length_cons] at hle
            have : min (decode (b :: r)).2 (r.length + 1) = (decode (b :: r)).2 := by omega
            rw [this]
      · apply ih ((List.drop (decode (b :: r)).2 (b :: r)).length) _ _ rfl c hc
        subst h
        simp only [List.length_drop, List.length_cons]
        omega

/-- re-chunking: a sequence of well-formed runes that are not invalid bytes, followed by anything,
is walked by `range` as exactly those runes and then the rest -/
theorem chunks_flat_append (cs : List Chunk) (rest : Bytes)
    (h : ∀ c ∈ cs, c.WF ∧ c.invalid = false) : chunks (flat cs ++ rest) = cs ++ chunks rest := by
  induction cs with
  | nil => simp
  | cons c tl ih =>
    have ⟨⟨hne, hdec, hinv⟩, hval⟩ := h c (by simp)
    have ihh := ih (fun c hc => h c (by simp [hc]))
    simp only [flat_cons, List.append_assoc]
    cases hb : c.bytes with
    | nil => exact absurd hb hne
    | cons b r =>
      have hnv : ¬ ((decode c.bytes).1 = 0xFFFD ∧ (decode c.bytes).2 = 1) := by
        rw [hdec]; intro ⟨h1, h2⟩
        simp only at h1 h2
        rw [hinv, h1, h2] at hval
        simp at hval
      have h1 := decode_take_append c.bytes (flat tl ++ rest) hnv hne
      rw [hdec] at h1
      simp only [List.take_length] at h1
      rw [hb] at h1
      simp only [List.cons_append] at h1 ⊢
      rw [chunks_cons]
      simp only [h1]
      have e1 : List.take (b :: r).length (b :: (r ++ (flat tl ++ rest))) = b :: r := by
        have : b :: (r ++ (flat tl ++ rest)) = (b :: r) ++ (flat tl ++ rest) := rfl
        rw [this, List.take_left']
        rfl
      have e2 : List.drop (b :: r).length (b :: (r ++ (flat tl ++ rest))) = flat tl ++ rest := by
        have : b :: (r ++ (flat tl ++ rest)) = (b :: r) ++ (flat tl ++ rest) := rfl
        rw [this, List.drop_left']
        rfl
      rw [hb] at hdec hinv
      simp only [e1, e2, ihh]
      congr 1
      cases c
      simp_all

theorem chunks_flat (cs : List Chunk) (h : ∀ c ∈ cs, c.WF ∧ c.invalid = false) :
    chunks (flat cs) = cs := by
  have := chunks_flat_append cs [] h
  simpa using this

end Utf8
end Otel
