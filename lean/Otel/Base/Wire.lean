/-
Line protocol helpers shared by all drivers (core Lean only).
Byte strings travel as lower-case hex with a leading `x` (`x` alone = empty).
-/
namespace Otel

abbrev Bytes := List UInt8

namespace Wire

def hexDigit (n : Nat) : Char :=
  if n < 10 then Char.ofNat (48 + n) else Char.ofNat (87 + n)

def hexOfByte (b : UInt8) : List Char := [hexDigit (b.toNat / 16), hexDigit (b.toNat % 16)]

/-- `x` followed by lower-case hex. -/
def hexOf (bs : Bytes) : String := String.ofList ('x' :: bs.flatMap hexOfByte)

def hexVal (c : Char) : Option Nat :=
  if '0' ≤ c ∧ c ≤ '9' then some (c.toNat - 48)
  else if 'a' ≤ c ∧ c ≤ 'f' then some (c.toNat - 87)
  else none

def parseHexChars : List Char → Option Bytes
  | [] => some []
  | [_] => none
  | a :: b :: rest => do
    let x ← hexVal a
    let y ← hexVal b
    let r ← parseHexChars rest
    pure (UInt8.ofNat (x * 16 + y) :: r)

/-- parse `x<hex>` -/
def parseHex (s : String) : Option Bytes :=
  match s.toList with
  | 'x' :: rest => parseHexChars rest
  | _ => none

def parseInt (s : String) : Option Int := s.toInt?
def parseNat (s : String) : Option Nat := s.toNat?

/-- split on single spaces, dropping empty tokens -/
def tokens (s : String) : List String :=
  (s.splitOn " ").filter (· ≠ "")

/-- split a trace line at the `=>` token: (input tokens, observed tokens) -/
def splitObs (toks : List String) : List String × List String :=
  let pre := toks.takeWhile (· ≠ "=>")
  let post := (toks.dropWhile (· ≠ "=>")).drop 1
  (pre, post)

/-- Verdict line written by every driver:
`<lineno> <agree|DIFF> <ok|FAIL|KNOWN:Fnn|na> <nontrivial 0|1> <branch tags> <model result>` -/
structure Verdict where
  agree : Bool
  spec : String          -- "ok" | "FAIL" | "KNOWN:Fnn" | "na"
  nontrivial : Bool
  branches : String      -- comma separated tags, "-" if none
  model : String

def Verdict.render (n : Nat) (v : Verdict) : String :=
  s!"{n} {if v.agree then "agree" else "DIFF"} {v.spec} {if v.nontrivial then 1 else 0} {v.branches} {v.model}"

/-- generic stdin loop: `step` maps (state, line tokens) to (state, verdict?) ; comment lines (`#…`) are skipped -/
partial def loop {σ : Type} (h : IO.FS.Stream) (out : IO.FS.Stream) (st : σ) (n : Nat)
    (step : σ → List String → σ × Option Verdict) : IO Unit := do
  let line ← h.getLine
  if line.isEmpty then return ()
  let l := line.trimAsciiEnd.toString
  if l.startsWith "#" || l.isEmpty then
    loop h out st (n + 1) step
  else
    let (st', v) := step st (tokens l)
    match v with
    | some v => out.putStrLn (v.render n)
    | none => out.putStrLn s!"{n} DIFF na 0 - unparsed"
    loop h out st' (n + 1) step

def run {σ : Type} (init : σ) (step : σ → List String → σ × Option Verdict) : IO Unit := do
  let i ← IO.getStdin
  let o ← IO.getStdout
  loop i o init 1 step
  o.flush

end Wire
end Otel
