/-
C14 — the property restated over *what an export call did* (`Run`: result, number of attempts, requested waits)
for a given sequence of collector outcomes. These predicates never look at how `requestLoop` computes; they are
(a) the conclusions of the theorems in Props.lean and (b) the oracle the driver evaluates on the OBSERVED run
of the real code. Core Lean only.
-/
import Otel.C14.Model
namespace Otel.C14.Spec
open Otel Otel.C14

def isRetryable : Outcome → Bool
  | .retryable _ => true
  | _ => false

def isOk : Outcome → Bool
  | .ok _ => true
  | _ => false

/-- server-requested delay carried by an outcome (0 when there is none) -/
def throttleOf : Outcome → Dur
  | .retryable t => t
  | _ => 0

/-- index of the first success or non-retryable outcome of the sequence -/
def firstTerminal : List Outcome → Option Nat
  | [] => none
  | o :: rest => if isRetryable o then (firstTerminal rest).map (· + 1) else some 0

/-- "re-sends … only after a retryable outcome": every attempt but the last one made had a retryable outcome -/
def onlyAfterRetryable (outs : List Outcome) (r : Run) : Bool :=
  (outs.take (r.attempts - 1)).all isRetryable

/-- "stops at the first success or non-retryable outcome and reports it": never an attempt past the first
terminal outcome; reaching it means returning exactly it; and whatever is returned as `fn`'s own result is that
first terminal outcome, after index+1 attempts -/
def stopsAtFirstTerminal (outs : List Outcome) (r : Run) : Bool :=
  (match firstTerminal outs with
   | some i => decide (r.attempts ≤ i + 1) &&
               (r.attempts != i + 1 || r.result == .returned (outs.getD i .fatal))
   | none => true) &&
  (match r.result with
   | .returned o => firstTerminal outs == some (r.attempts - 1) && decide (0 < r.attempts) &&
                    outs[r.attempts - 1]? == some o
   | _ => true)

/-- number of waits: one after every attempt but the last; a cancelled call ends inside a wait -/
def waitCountOK (r : Run) : Bool :=
  match r.result with
  | .cancelled => r.waits.length == r.attempts && decide (0 < r.attempts)
  | .pending => r.waits.length == r.attempts
  | _ => r.waits.length + 1 == r.attempts

/-- "never waits less than a server-supplied delay", on the throttle value the retry loop is given -/
def waitsHonourThrottle (outs : List Outcome) (r : Run) : Bool :=
  (r.waits.zip outs).all (fun (w, o) => decide (throttleOf o ≤ w))

/-- generic form: `hint x` is the delay (ns) the server asked for in response `x` -/
def waitsHonourHint {α : Type} (hint : α → Option Dur) (resps : List α) (r : Run) : Bool :=
  (r.waits.zip resps).all (fun (w, x) => match hint x with
    | none => true
    | some h => decide (h ≤ w))

/-- RFC 9110 `Retry-After: delay-seconds` (1*DIGIT) in nanoseconds; the HTTP-date form is outside the model -/
def hintHTTP (r : HttpResp) : Option Dur :=
  match r.net, r.retryAfter with
  | .none, some v => (digitsVal v).map (fun (n : Nat) => Int.ofNat n * 1000000000)
  | _, _ => none

/-- `google.rpc.RetryInfo.retry_delay` of the (first) RetryInfo detail -/
def hintGRPC (r : GrpcResp) : Option Dur :=
  r.details.findSome? (fun d => match d with
    | .retryInfo x => some x
    | .other => none)

/-- F19: a retryable HTTP response whose `Retry-After` is a positive number of seconds
(the clients turn `n` seconds into `n` nanoseconds) -/
def F19_applies (r : HttpResp) : Bool :=
  r.net == .none && [429, 502, 503, 504].contains r.status &&
  (match r.retryAfter with
   | some v => (digitsVal v).any (fun n => decide (0 < n))
   | none => false)

/-- "gives up … once the configured maximum elapsed time would be exceeded": with `MaxElapsedTime = M ≠ 0`, no
attempt that was followed by a wait had `elapsed > M` or `elapsed + throttle > M` -/
def givesUp (cfg : Config) (atts : List Attempt) (r : Run) : Bool :=
  cfg.maxElapsed == 0 ||
  (atts.take r.waits.length).all (fun a =>
    !(decide (a.e1 > cfg.maxElapsed)) && !(decide (a.e2 + throttleOf a.out > cfg.maxElapsed)))

/-- waits number `k, k+1, …` that COMPLETED (the next attempt was made) while the context is cancelled `c` ns into
wait number `j` (`ca = (j, c)`): from wait `j` on, the timer was not later than the cancellation -/
def completedOK (ca : Nat × Dur) : Nat → List Dur → Bool
  | _, [] => true
  | k, w :: ws =>
    (decide (k < ca.1) || decide (w ≤ (if k = ca.1 then ca.2 else 0))) && completedOK ca (k + 1) ws

/-- waits of a call that ended with the context error: all but the last completed as above; the last one is wait
`j` or a later one and the context was done strictly before its timer -/
def cancelledOK (ca : Nat × Dur) : Nat → List Dur → Bool
  | _, [] => false
  | k, w :: ws =>
    match ws with
    | [] => decide (ca.1 ≤ k) && decide ((if k = ca.1 then ca.2 else 0) < w)
    | _ :: _ =>
      (decide (k < ca.1) || decide (w ≤ (if k = ca.1 then ca.2 else 0))) && cancelledOK ca (k + 1) ws

/-- "… or the context is cancelled …, never blocks beyond that": the call ends with the context error only if the
context was cancelled, and then inside a wait whose timer had not fired (no further attempt); every wait that
ran to its end although the context was (being) cancelled had its timer not later than the cancellation -/
def cancelOK (cancelAt : Option (Nat × Dur)) (r : Run) : Bool :=
  match cancelAt, r.result with
  | none, .cancelled => false
  | none, _ => true
  | some ca, .cancelled => cancelledOK ca 0 r.waits
  | some ca, _ => completedOK ca 0 r.waits

/-- every requested wait is the server's throttle or at most the largest value the backoff can produce
(`1.5·max(InitialInterval, MaxInterval) + 1`): nothing else ever lengthens a wait -/
def waitsBounded (cfg : Config) (outs : List Outcome) (r : Run) : Bool :=
  (r.waits.zip outs).all (fun (w, o) => decide (w ≤ max (throttleOf o) (maxBackoff cfg)))

/-- "never blocks beyond that", quantitatively, with `MaxElapsedTime = M ≠ 0`: a wait is only begun while
`elapsed + throttle ≤ M`, and it ends — i.e. the next attempt starts — at model time
`≤ M + max 0 (maxBackoff − throttle)`. (The code compares only the throttle with `M`, not the backoff: a wait may
run past `M` by at most one backoff draw.) -/
def waitsEndBy (cfg : Config) (atts : List Attempt) (r : Run) : Bool :=
  cfg.maxElapsed == 0 ||
  (r.waits.zip atts).all (fun (w, a) =>
    decide (a.e2 + throttleOf a.out ≤ cfg.maxElapsed) &&
    decide (a.e2 + w ≤ cfg.maxElapsed + max 0 (maxBackoff cfg - throttleOf a.out)))

/-- `MaxElapsedTime = 0` ("retry until the context is done"): the call never ends for lack of time -/
def unlimitedOK (cfg : Config) (r : Run) : Bool :=
  cfg.maxElapsed != 0 || (r.result != .maxElapsed && r.result != .wouldElapse)

/-- number of attempts, on a clock on which waits really take their time: with `0 < M`,
`0 < InitialInterval/2`, `InitialInterval ≤ MaxInterval` and no negative throttle, every wait lasts at least
`InitialInterval/2` and is begun no later than `M`, so `(attempts − 2) · (InitialInterval/2) ≤ M`,
i.e. `attempts ≤ M / (InitialInterval·(1 − RandomizationFactor)) + 2` -/
def attemptsBounded (cfg : Config) (outs : List Outcome) (r : Run) : Bool :=
  !(decide (0 < cfg.maxElapsed) && decide (0 < minBackoff cfg) && decide (cfg.initial ≤ cfg.maxInterval) &&
    outs.all (fun o => decide (0 ≤ throttleOf o))) ||
  decide (((r.attempts : Int) - 2) * minBackoff cfg ≤ cfg.maxElapsed)

/-- the time clauses that hold whatever the clock does -/
def timeOK (cfg : Config) (atts : List Attempt) (r : Run) : Bool :=
  waitsBounded cfg (atts.map (·.out)) r && waitsEndBy cfg atts r && unlimitedOK cfg r

/-- "gives up with an error once … the exporter [is] shut down, never blocks beyond that", on the `shut` scenario:
at the final observation Shutdown has returned and the pending export has returned an error -/
def shutdownOK (seen : Option Bool × Option Bool) : Bool :=
  seen.1.isSome && seen.2 == some true

/-- candidate finding (not yet registered): exporters whose Shutdown does not signal the pending export -/
def FShut_applies (w : StopWiring) : Bool := w != .cancelsExport

/-- `Enabled = false`: exactly one attempt, its result returned unchanged -/
def disabledSingle (outs : List Outcome) (r : Run) : Bool :=
  r.attempts == 1 && r.waits.isEmpty && r.result == .returned (outs.headD .fatal)

/-- everything the statement says about one export call with retry enabled -/
def runOK (cfg : Config) (atts : List Attempt) (cancelAt : Option (Nat × Dur)) (r : Run) : Bool :=
  let outs := atts.map (·.out)
  onlyAfterRetryable outs r && stopsAtFirstTerminal outs r && waitCountOK r &&
  waitsHonourThrottle outs r && givesUp cfg atts r && cancelOK cancelAt r

/-- `wait`: done strictly before the timer ⇒ the context error; strictly after (or never) ⇒ nil; tie: either -/
def waitOK (delay : Dur) (ctxDoneAfter : Option Dur) (cancelled : Bool) : Bool :=
  match ctxDoneAfter with
  | none => !cancelled
  | some c => if c < delay then cancelled else if delay < c then !cancelled else true

/-! ### classification, from the statement -/

def httpRetryStatuses : List Nat := [429, 502, 503, 504]

def retryableHTTPRef (r : HttpResp) : Bool :=
  r.net == .temporary || (r.net == .none && httpRetryStatuses.contains r.status)

/-- Canceled, DeadlineExceeded, Aborted, OutOfRange, Unavailable, DataLoss -/
def grpcAlwaysRetry : List Nat := [1, 4, 10, 11, 14, 15]

def hasRetryInfo (ds : List Detail) : Bool :=
  ds.any (fun d => match d with
    | .retryInfo _ => true
    | .other => false)

def retryableGRPCRef (r : GrpcResp) : Bool :=
  grpcAlwaysRetry.contains r.code || (r.code == 8 && hasRetryInfo r.details)

/-- the throttle handed to the retry loop is at least the server's hint -/
def throttleHonoursHint (hint : Option Dur) (o : Outcome) : Bool :=
  match hint, o with
  | some h, .retryable t => decide (h ≤ t)
  | _, _ => true

/-- partial success: a 2xx protobuf answer is a success, reported to the handler iff `rejected ≠ 0 ∨ msg ≠ ""` -/
def partialDeliveredHTTP (r : HttpResp) (o : Outcome) : Bool :=
  match r.net, r.body with
  | .none, .proto (some (n, m)) =>
    if 200 ≤ r.status ∧ r.status ≤ 299 ∧ r.ctProto then o == .ok (n != 0 || m) else true
  | _, _ => true

def classHTTPOK (r : HttpResp) (o : Outcome) : Bool :=
  isRetryable o == retryableHTTPRef r &&
  (!(isOk o) || (r.net == .none && decide (200 ≤ r.status ∧ r.status ≤ 299))) &&
  partialDeliveredHTTP r o

def classGRPCOK (r : GrpcResp) (o : Outcome) : Bool :=
  isRetryable o == retryableGRPCRef r && (isOk o == (r.code == 0)) &&
  (r.code != 0 || o == .ok r.partialReported) &&
  throttleHonoursHint (hintGRPC r) o

/-! ### slow collector (requests accepted, never answered) and the client timeout -/

/-- how an export against a slow collector ended, as an API user sees it -/
inductive SlowRes where
  | ok
  /-- one of the two max-retry-time errors -/
  | gaveUp
  /-- an error wrapping the context's deadline error (gRPC: the client timeout spans the whole export) -/
  | deadline
  | otherErr
  /-- the call had not returned long after every bound had passed (observation only) -/
  | stuck
deriving DecidableEq, Repr

/-- "gives up with an error once the configured maximum elapsed time would be exceeded …, never blocks beyond that" for
the collector outcome `slow response`, with a client timeout `> 0` configured by ANY source and the client assembled
by ANY construction path. `k = some k`: the first `k` requests are never answered, the next one is answered 200
(retry without elapsed-time limit); `k = none`: no request is ever answered (`MaxElapsedTime ≠ 0`).
HTTP: the timeout bounds each attempt, so the slow attempts are abandoned and retried — delivered after exactly
`k + 1` requests, or given up with a max-retry-time error. gRPC: the timeout bounds the whole export — it ends with
the deadline error. Never `stuck`, never a success nobody acknowledged, never a request past the acknowledged one.
(`n` = requests that REACHED the collector: an attempt that times out while the connection is still being set up is not
counted, so no lower bound on `n` is part of the oracle.) -/
def slowOK (grpc : Bool) (k : Option Nat) (res : SlowRes) (n : Nat) : Bool :=
  res != .stuck &&
  (if grpc then res == .deadline
   else match k with
     | some k => res == .ok && n == k + 1
     | none => res == .gaveUp)

/-- what a `Run` of the model amounts to for an API user -/
def slowResOf : Result → SlowRes
  | .returned (.ok _) => .ok
  | .returned _ => .otherErr
  | .maxElapsed => .gaveUp
  | .wouldElapse => .gaveUp
  | .cancelled => .deadline
  | .pending => .stuck

end Otel.C14.Spec
