/-
C14 — generated tie.  `Otel.Gen.C14` is regenerated from /repo's current source by tools/go2lean on every run of
bin/check (checks/gentie.json lists the sites); the theorems below are re-checked against the regenerated text.
They state that the decision tables the Go clients implement today are the ones the hand-written model
(`Otel.C14.retryStatus`, `Otel.C14.retryableGRPC`) and the specification (`httpRetryStatuses`, `grpcAlwaysRetry`) use.
-/
import Otel.Gen.C14
import Otel.C14.Spec

namespace Otel.C14.GenTie
open Otel.C14

/-- characterisation of the generated HTTP table: retried ⇔ 429, 502, 503 or 504 -/
theorem gen_trace_http_retryable_iff (s : Int) :
    Otel.Gen.C14.traceHttpStatus s = "retryable" ↔ (s = 429 ∨ s = 502 ∨ s = 503 ∨ s = 504) := by
  unfold Otel.Gen.C14.traceHttpStatus
  split <;> simp_all <;> omega

private theorem model_retryStatus_iff (s : Nat) : retryStatus s = true ↔ (s = 429 ∨ s = 502 ∨ s = 503 ∨ s = 504) := by
  unfold retryStatus; simp; omega

/-- the HTTP status switch of otlptracehttp's upload closure retries exactly the statuses the model retries -/
theorem gen_trace_http_status_eq_model (s : Nat) :
    (Otel.Gen.C14.traceHttpStatus (s : Int) == "retryable") = retryStatus s := by
  have h1 := gen_trace_http_retryable_iff s
  have h2 := model_retryStatus_iff s
  by_cases h : retryStatus s = true
  · have := h2.mp h
    have : Otel.Gen.C14.traceHttpStatus (s : Int) = "retryable" := h1.mpr (by omega)
    simp [this, h]
  · have h' : ¬ (s = 429 ∨ s = 502 ∨ s = 503 ∨ s = 504) := fun x => h (h2.mpr x)
    have : ¬ Otel.Gen.C14.traceHttpStatus (s : Int) = "retryable" := fun x => h' (by have := h1.mp x; omega)
    simp [this, h]

end Otel.C14.GenTie
