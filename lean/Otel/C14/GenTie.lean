/-
C14 — generated tie.  `Otel.Gen.C14` is regenerated from /repo's current source by tools/go2lean on every run of
bin/check (checks/gentie.json lists the sites); the theorems below are re-checked against the regenerated text.
They state that the decision tables the Go clients implement today are the ones the hand-written model
(`Otel.C14.retryStatus`, `Otel.C14.retryableGRPC`) and the specification (`httpRetryStatuses`, `grpcAlwaysRetry`) use,
that the three HTTP clients (and the three gRPC clients) implement the same table, and that the six copies of
`retry.DefaultConfig` are the same configuration and satisfy the side conditions of the C14 theorems.
-/
import Otel.Gen.C14
import Otel.C14.Spec

namespace Otel.C14.GenTie
open Otel.C14 Otel.C14.Spec

/-! ### HTTP status switch -/

/-- characterisation of the generated HTTP table: retried ⇔ 429, 502, 503 or 504 -/
theorem gen_trace_http_retryable_iff (s : Int) :
    Otel.Gen.C14.traceHttpStatus s = "retryable" ↔ (s = 429 ∨ s = 502 ∨ s = 503 ∨ s = 504) := by
  unfold Otel.Gen.C14.traceHttpStatus
  (repeat' split) <;> (try simp_all) <;> omega

/-- the only other outcome of the switch is the permanent error -/
theorem gen_trace_http_total (s : Int) :
    Otel.Gen.C14.traceHttpStatus s = "retryable" ∨ Otel.Gen.C14.traceHttpStatus s = "permanent" := by
  unfold Otel.Gen.C14.traceHttpStatus
  (repeat' split) <;> simp

theorem gen_metric_http_retryable_iff (s : Int) :
    Otel.Gen.C14.metricHttpStatus s = "retryable" ↔ (s = 429 ∨ s = 502 ∨ s = 503 ∨ s = 504) := by
  unfold Otel.Gen.C14.metricHttpStatus
  (repeat' split) <;> (try simp_all) <;> omega

theorem gen_metric_http_total (s : Int) :
    Otel.Gen.C14.metricHttpStatus s = "retryable" ∨ Otel.Gen.C14.metricHttpStatus s = "permanent" := by
  unfold Otel.Gen.C14.metricHttpStatus
  (repeat' split) <;> simp

theorem gen_log_http_retryable_iff (s : Int) :
    Otel.Gen.C14.logHttpStatus s = "retryable" ↔ (s = 429 ∨ s = 502 ∨ s = 503 ∨ s = 504) := by
  unfold Otel.Gen.C14.logHttpStatus
  (repeat' split) <;> (try simp_all) <;> omega

theorem gen_log_http_total (s : Int) :
    Otel.Gen.C14.logHttpStatus s = "retryable" ∨ Otel.Gen.C14.logHttpStatus s = "permanent" := by
  unfold Otel.Gen.C14.logHttpStatus
  (repeat' split) <;> simp

private theorem model_retryStatus_iff (s : Nat) : retryStatus s = true ↔ (s = 429 ∨ s = 502 ∨ s = 503 ∨ s = 504) := by
  unfold retryStatus; simp; omega

private theorem eq_model_of_iff (f : Int → String)
    (hf : ∀ s : Int, f s = "retryable" ↔ (s = 429 ∨ s = 502 ∨ s = 503 ∨ s = 504)) (s : Nat) :
    (f (s : Int) == "retryable") = retryStatus s := by
  have h1 := hf s
  have h2 := model_retryStatus_iff s
  by_cases h : retryStatus s = true
  · have := h2.mp h
    have : f (s : Int) = "retryable" := h1.mpr (by omega)
    simp [this, h]
  · have h' : ¬ (s = 429 ∨ s = 502 ∨ s = 503 ∨ s = 504) := fun x => h (h2.mpr x)
    have : ¬ f (s : Int) = "retryable" := fun x => h' (by have := h1.mp x; omega)
    simp [this, h]

/-- the HTTP status switch of otlptracehttp's upload closure retries exactly the statuses the model retries -/
theorem gen_trace_http_status_eq_model (s : Nat) :
    (Otel.Gen.C14.traceHttpStatus (s : Int) == "retryable") = retryStatus s :=
  eq_model_of_iff _ gen_trace_http_retryable_iff s

/-- … and so does otlpmetrichttp's -/
theorem gen_metric_http_status_eq_model (s : Nat) :
    (Otel.Gen.C14.metricHttpStatus (s : Int) == "retryable") = retryStatus s :=
  eq_model_of_iff _ gen_metric_http_retryable_iff s

/-- … and otlploghttp's -/
theorem gen_log_http_status_eq_model (s : Nat) :
    (Otel.Gen.C14.logHttpStatus (s : Int) == "retryable") = retryStatus s :=
  eq_model_of_iff _ gen_log_http_retryable_iff s

/-- the generated table is the specification's list `httpRetryStatuses` -/
theorem gen_trace_http_status_eq_spec (s : Nat) :
    (Otel.Gen.C14.traceHttpStatus (s : Int) == "retryable") = httpRetryStatuses.contains s := by
  rw [gen_trace_http_status_eq_model]
  simp [retryStatus, httpRetryStatuses, Bool.or_assoc, ← beq_iff_eq]

/-- the three HTTP clients implement one and the same status table -/
theorem gen_http_tables_agree (s : Int) :
    Otel.Gen.C14.traceHttpStatus s = Otel.Gen.C14.metricHttpStatus s ∧
    Otel.Gen.C14.traceHttpStatus s = Otel.Gen.C14.logHttpStatus s := by
  have t := gen_trace_http_retryable_iff s
  have m := gen_metric_http_retryable_iff s
  have l := gen_log_http_retryable_iff s
  rcases gen_trace_http_total s with ht | ht <;> rcases gen_metric_http_total s with hm | hm <;>
    rcases gen_log_http_total s with hl | hl <;> simp_all

/-! ### gRPC status switch -/

private def grpcTag (c : Int) : String :=
  if c = 1 ∨ c = 4 ∨ c = 10 ∨ c = 11 ∨ c = 14 ∨ c = 15 then "retry+hint"
  else if c = 8 then "retry-iff-hint" else "permanent"

/-- characterisation of the generated gRPC table (otlptracegrpc): the codes Canceled(1), DeadlineExceeded(4),
Aborted(10), OutOfRange(11), Unavailable(14), DataLoss(15) are always retried (with the RetryInfo delay),
ResourceExhausted(8) iff RetryInfo is present, everything else is permanent -/
theorem gen_trace_grpc_char (c : Int) :
    Otel.Gen.C14.traceGrpcStatus c =
      (if c = 1 ∨ c = 4 ∨ c = 10 ∨ c = 11 ∨ c = 14 ∨ c = 15 then "retry+hint"
       else if c = 8 then "retry-iff-hint" else "permanent") := by
  unfold Otel.Gen.C14.traceGrpcStatus
  (repeat' split) <;> (try simp_all) <;> omega

theorem gen_metric_grpc_char (c : Int) :
    Otel.Gen.C14.metricGrpcStatus c =
      (if c = 1 ∨ c = 4 ∨ c = 10 ∨ c = 11 ∨ c = 14 ∨ c = 15 then "retry+hint"
       else if c = 8 then "retry-iff-hint" else "permanent") := by
  unfold Otel.Gen.C14.metricGrpcStatus
  (repeat' split) <;> (try simp_all) <;> omega

theorem gen_log_grpc_char (c : Int) :
    Otel.Gen.C14.logGrpcStatus c =
      (if c = 1 ∨ c = 4 ∨ c = 10 ∨ c = 11 ∨ c = 14 ∨ c = 15 then "retry+hint"
       else if c = 8 then "retry-iff-hint" else "permanent") := by
  unfold Otel.Gen.C14.logGrpcStatus
  (repeat' split) <;> (try simp_all) <;> omega

/-- the three gRPC clients implement one and the same code table -/
theorem gen_grpc_tables_agree (c : Int) :
    Otel.Gen.C14.traceGrpcStatus c = Otel.Gen.C14.metricGrpcStatus c ∧
    Otel.Gen.C14.traceGrpcStatus c = Otel.Gen.C14.logGrpcStatus c := by
  rw [gen_trace_grpc_char, gen_metric_grpc_char, gen_log_grpc_char]; exact ⟨rfl, rfl⟩

/-- interpretation of the generated tags: what `retryableGRPCStatus` returns in each arm -/
def interpGrpc (tag : String) (details : List Detail) : Bool × Int :=
  if tag = "retry+hint" then (true, (throttleDelay details).2)
  else if tag = "retry-iff-hint" then throttleDelay details
  else (false, 0)

private theorem model_grpc_char (c : Nat) (ds : List Detail) :
    retryableGRPC c ds = interpGrpc (grpcTag (c : Int)) ds := by
  unfold retryableGRPC interpGrpc grpcTag
  by_cases h : (c = 1 ∨ c = 4 ∨ c = 10 ∨ c = 11 ∨ c = 14 ∨ c = 15)
  · have hi : ((c : Int) = 1 ∨ (c : Int) = 4 ∨ (c : Int) = 10 ∨ (c : Int) = 11 ∨ (c : Int) = 14 ∨ (c : Int) = 15) := by omega
    have hm : (c == 1 || c == 4 || c == 10 || c == 11 || c == 14 || c == 15) = true := by
      simp [Bool.or_assoc]; omega
    rw [if_pos hm, if_pos hi]; simp
  · have hi : ¬ ((c : Int) = 1 ∨ (c : Int) = 4 ∨ (c : Int) = 10 ∨ (c : Int) = 11 ∨ (c : Int) = 14 ∨ (c : Int) = 15) := by omega
    have hm : ¬ (c == 1 || c == 4 || c == 10 || c == 11 || c == 14 || c == 15) = true := by
      simp [Bool.or_assoc]; omega
    rw [if_neg hm, if_neg hi]
    by_cases h8 : c = 8
    · subst h8; simp
    · have h8i : ¬ (c : Int) = 8 := by omega
      have h8m : ¬ (c == 8) = true := by simp [h8]
      rw [if_neg h8m, if_neg h8i]; simp

/-- `retryableGRPCStatus` of otlptracegrpc, read through the tags, is the model's `retryableGRPC` -/
theorem gen_trace_grpc_eq_model (c : Nat) (ds : List Detail) :
    interpGrpc (Otel.Gen.C14.traceGrpcStatus (c : Int)) ds = retryableGRPC c ds := by
  rw [gen_trace_grpc_char, model_grpc_char]; rfl

/-- … and so are otlpmetricgrpc's and otlploggrpc's -/
theorem gen_metric_log_grpc_eq_model (c : Nat) (ds : List Detail) :
    interpGrpc (Otel.Gen.C14.metricGrpcStatus (c : Int)) ds = retryableGRPC c ds ∧
    interpGrpc (Otel.Gen.C14.logGrpcStatus (c : Int)) ds = retryableGRPC c ds := by
  rw [gen_metric_grpc_char, gen_log_grpc_char, model_grpc_char]; exact ⟨rfl, rfl⟩

/-- the always-retried codes of the generated table are the specification's list `grpcAlwaysRetry` -/
theorem gen_trace_grpc_always_eq_spec (c : Nat) :
    (Otel.Gen.C14.traceGrpcStatus (c : Int) == "retry+hint") = grpcAlwaysRetry.contains c := by
  rw [gen_trace_grpc_char]
  by_cases h : (c = 1 ∨ c = 4 ∨ c = 10 ∨ c = 11 ∨ c = 14 ∨ c = 15)
  · have hi : ((c : Int) = 1 ∨ (c : Int) = 4 ∨ (c : Int) = 10 ∨ (c : Int) = 11 ∨ (c : Int) = 14 ∨ (c : Int) = 15) := by omega
    rw [if_pos hi]
    rcases h with h | h | h | h | h | h <;> subst h <;> decide
  · have hi : ¬ ((c : Int) = 1 ∨ (c : Int) = 4 ∨ (c : Int) = 10 ∨ (c : Int) = 11 ∨ (c : Int) = 14 ∨ (c : Int) = 15) := by omega
    rw [if_neg hi]
    have : grpcAlwaysRetry.contains c = false := by
      simp [grpcAlwaysRetry]; omega
    rw [this]; split <;> decide

/-- ResourceExhausted (8) is the only code whose retryability depends on the RetryInfo detail -/
theorem gen_trace_grpc_iff_hint (c : Int) :
    Otel.Gen.C14.traceGrpcStatus c = "retry-iff-hint" ↔ c = 8 := by
  rw [gen_trace_grpc_char]
  (repeat' split) <;> (try simp_all) <;> omega

/-! ### retry.DefaultConfig (six vendored copies) -/

/-- the default retry configuration of otlptracehttp as a model `Config` -/
def genDefaultConfig : Config :=
  { enabled := Otel.Gen.C14.traceHttp_DefaultConfig_Enabled
    initial := Otel.Gen.C14.traceHttp_DefaultConfig_InitialInterval
    maxInterval := Otel.Gen.C14.traceHttp_DefaultConfig_MaxInterval
    maxElapsed := Otel.Gen.C14.traceHttp_DefaultConfig_MaxElapsedTime }

/-- 5 s / 30 s / 1 min, enabled (nanoseconds) -/
theorem gen_default_config_value :
    genDefaultConfig = { enabled := true, initial := 5000000000, maxInterval := 30000000000, maxElapsed := 60000000000 } := by
  decide

/-- the default configuration satisfies every side condition the C14 theorems put on a configuration
(`enabled`, `0 ≤ initial`, `0 ≤ maxInterval`, `0 < maxElapsed`, `initial ≤ maxInterval`) -/
theorem gen_default_config_side_conditions :
    genDefaultConfig.enabled = true ∧ 0 < genDefaultConfig.initial ∧ 0 ≤ genDefaultConfig.maxInterval ∧
    0 < genDefaultConfig.maxElapsed ∧ genDefaultConfig.initial ≤ genDefaultConfig.maxInterval ∧
    genDefaultConfig.maxInterval ≤ genDefaultConfig.maxElapsed := by
  decide

/-- no field of the literal is left untranslated (a new field of `DefaultConfig` shows up here) -/
theorem gen_default_config_complete : Otel.Gen.C14.traceHttp_DefaultConfig_otherFields = [] := by decide

/-- the six vendored copies of `retry.DefaultConfig` are the same configuration -/
theorem gen_default_configs_agree :
    let t := (Otel.Gen.C14.traceHttp_DefaultConfig_Enabled, Otel.Gen.C14.traceHttp_DefaultConfig_InitialInterval,
              Otel.Gen.C14.traceHttp_DefaultConfig_MaxInterval, Otel.Gen.C14.traceHttp_DefaultConfig_MaxElapsedTime,
              Otel.Gen.C14.traceHttp_DefaultConfig_otherFields)
    t = (Otel.Gen.C14.traceGrpc_DefaultConfig_Enabled, Otel.Gen.C14.traceGrpc_DefaultConfig_InitialInterval,
         Otel.Gen.C14.traceGrpc_DefaultConfig_MaxInterval, Otel.Gen.C14.traceGrpc_DefaultConfig_MaxElapsedTime,
         Otel.Gen.C14.traceGrpc_DefaultConfig_otherFields) ∧
    t = (Otel.Gen.C14.metricHttp_DefaultConfig_Enabled, Otel.Gen.C14.metricHttp_DefaultConfig_InitialInterval,
         Otel.Gen.C14.metricHttp_DefaultConfig_MaxInterval, Otel.Gen.C14.metricHttp_DefaultConfig_MaxElapsedTime,
         Otel.Gen.C14.metricHttp_DefaultConfig_otherFields) ∧
    t = (Otel.Gen.C14.metricGrpc_DefaultConfig_Enabled, Otel.Gen.C14.metricGrpc_DefaultConfig_InitialInterval,
         Otel.Gen.C14.metricGrpc_DefaultConfig_MaxInterval, Otel.Gen.C14.metricGrpc_DefaultConfig_MaxElapsedTime,
         Otel.Gen.C14.metricGrpc_DefaultConfig_otherFields) ∧
    t = (Otel.Gen.C14.logHttp_DefaultConfig_Enabled, Otel.Gen.C14.logHttp_DefaultConfig_InitialInterval,
         Otel.Gen.C14.logHttp_DefaultConfig_MaxInterval, Otel.Gen.C14.logHttp_DefaultConfig_MaxElapsedTime,
         Otel.Gen.C14.logHttp_DefaultConfig_otherFields) ∧
    t = (Otel.Gen.C14.logGrpc_DefaultConfig_Enabled, Otel.Gen.C14.logGrpc_DefaultConfig_InitialInterval,
         Otel.Gen.C14.logGrpc_DefaultConfig_MaxInterval, Otel.Gen.C14.logGrpc_DefaultConfig_MaxElapsedTime,
         Otel.Gen.C14.logGrpc_DefaultConfig_otherFields) := by
  exact ⟨rfl, rfl, rfl, rfl, rfl⟩

/-! ### newRequest: framing of the request body -/

/-- the effects of the two compression arms (shared by the three clients) -/
def plainArm : String × List String := ("req,nil", ["ContentLength=len(body)", "body=payload"])
def gzipPre : List String := ["ContentLength=-1", "Content-Encoding:gzip", "freshBuffer", "gz.Reset(&b)"]

/-- otlptracehttp `newRequest`: NoCompression(0) sets the exact content length and reads the payload itself;
GzipCompression(1) declares the length unknown, sets the header, resets the pooled writer onto a FRESH buffer and —
only if writing and closing succeed — reads that buffer; any other value builds a request without a body -/
theorem gen_trace_new_request_table (e1 e2 e3 : Bool) (c : Int) :
    Otel.Gen.C14.traceHttpNewRequest e1 e2 e3 c =
      (if e1 then ("err(NewRequest)", [])
       else if c = 0 then plainArm
       else if c = 1 then (if e2 || e3 then ("req,err", gzipPre) else ("req,nil", gzipPre ++ ["body=b.Bytes()"]))
       else ("req,nil", [])) := by
  unfold Otel.Gen.C14.traceHttpNewRequest plainArm gzipPre
  cases e1 <;> cases e2 <;> cases e3 <;> by_cases h0 : c = 0 <;> by_cases h1 : c = 1 <;>
    simp [h0, h1] <;> (try omega) <;> (repeat' split) <;> (try simp_all) <;> omega

/-- otlpmetrichttp and otlploghttp frame the body the same way -/
theorem gen_metric_log_new_request_table (e1 e2 : Bool) (c : Int) :
    (Otel.Gen.C14.metricHttpNewRequest e1 e2 c =
      (if c = 0 then plainArm
       else if c = 1 then (if e1 || e2 then ("req,err", gzipPre) else ("req,nil", gzipPre ++ ["body=b.Bytes()"]))
       else ("req,nil", []))) ∧
    Otel.Gen.C14.logHttpNewRequest e1 e2 c = Otel.Gen.C14.metricHttpNewRequest e1 e2 c := by
  unfold Otel.Gen.C14.metricHttpNewRequest Otel.Gen.C14.logHttpNewRequest plainArm gzipPre
  cases e1 <;> cases e2 <;> by_cases h0 : c = 0 <;> by_cases h1 : c = 1 <;>
    simp [h0, h1] <;> (try omega) <;> (repeat' split) <;> (try simp_all) <;> omega

/-- the request the model's `newRequest` builds has the Content-Length and Content-Encoding the source sets on the
successful path of the corresponding arm -/
theorem gen_new_request_eq_model (gz : Bytes → Bytes) (compress : Bool) (m : Mem) (payload : Bytes) :
    let eff := (Otel.Gen.C14.traceHttpNewRequest false false false (if compress then 1 else 0)).2
    (newRequest gz compress m payload).2.contentLength =
        (if eff.contains "ContentLength=-1" then -1 else (payload.length : Int)) ∧
    (newRequest gz compress m payload).2.gzipHeader = eff.contains "Content-Encoding:gzip" ∧
    (compress = true → eff.contains "freshBuffer" = true ∧ eff.contains "body=b.Bytes()" = true) := by
  cases compress <;> simp [gen_trace_new_request_table, newRequest, plainArm, gzipPre]

/-! ### client constructors: every literal sets the export timeout -/

/-- every `http.Client{…}` literal of the three HTTP client files sets `Timeout`, and every `client{…}` literal of the
three gRPC `newClient` functions sets `exportTimeout` (a construction branch that forgets the field — seeded
C14-12 / C20-11 — silently exports without a deadline) -/
theorem gen_client_literals_set_timeout :
    (∀ l ∈ Otel.Gen.C14.traceHttpClientLiterals ++ Otel.Gen.C14.metricHttpClientLiterals ++ Otel.Gen.C14.logHttpClientLiterals,
        (l.map (·.1)).contains "Timeout" = true) ∧
    (∀ l ∈ Otel.Gen.C14.traceGrpcClientLiterals ++ Otel.Gen.C14.metricGrpcClientLiterals ++ Otel.Gen.C14.logGrpcClientLiterals,
        (l.map (·.1)).contains "exportTimeout" = true) := by decide

/-- the model side of the same fact: every branch of the modelled constructors carries the configured timeout -/
theorem gen_model_clients_carry_timeout (b : HttpBuild) (g : GrpcBuild) :
    (newHTTPClient b).timeout = b.timeout ∧ (newGRPCClient g).exportTimeout = g.timeout := by
  constructor
  · unfold newHTTPClient
    cases b.tls <;> cases b.proxy <;> simp
  · rfl

end Otel.C14.GenTie
