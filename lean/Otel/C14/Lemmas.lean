/-
C14 — helper lemmas: one induction over the scripted attempts per Spec clause, for the loop started at any
attempt number `k`.
-/
import Otel.C14.Spec
namespace Otel.C14
open Otel Otel.C14 Otel.C14.Spec

theorem loopFrom_cons (cfg : Config) (ca : Option (Nat × Dur)) (k : Nat) (a : Attempt) (rest : List Attempt)
    (bs : List Dur) :
    loopFrom cfg ca k (a :: rest) bs =
      match a.out with
      | .ok p => { result := .returned (.ok p), attempts := 1, waits := [] }
      | .fatal => { result := .returned .fatal, attempts := 1, waits := [] }
      | .retryable thr =>
        if cfg.maxElapsed ≠ 0 ∧ a.e1 > cfg.maxElapsed then
          { result := .maxElapsed, attempts := 1, waits := [] }
        else
          if cfg.maxElapsed ≠ 0 ∧ a.e2 + thr > cfg.maxElapsed then
            { result := .wouldElapse, attempts := 1, waits := [] }
          else if waitCancelled (max thr (bs.headD 0)) (waitCtx ca k) then
            { result := .cancelled, attempts := 1, waits := [max thr (bs.headD 0)] }
          else
            { result := (loopFrom cfg ca (k + 1) rest bs.tail).result,
              attempts := (loopFrom cfg ca (k + 1) rest bs.tail).attempts + 1,
              waits := max thr (bs.headD 0) :: (loopFrom cfg ca (k + 1) rest bs.tail).waits } := by
  simp only [loopFrom]
  cases a.out <;> rfl

/-- the attempts made are a prefix of the script -/
theorem loopFrom_attempts_le (cfg : Config) (ca : Option (Nat × Dur)) (atts : List Attempt) :
    ∀ (k : Nat) (bs : List Dur), (loopFrom cfg ca k atts bs).attempts ≤ atts.length := by
  induction atts with
  | nil => intro k bs; simp [loopFrom]
  | cons a rest ih =>
    intro k bs
    rw [loopFrom_cons]
    cases h : a.out <;> simp only [List.length_cons] <;> try omega
    split <;> try (simp only []; omega)
    split <;> try (simp only []; omega)
    split <;> try (simp only []; omega)
    have := ih (k + 1) bs.tail
    simp only []; omega

theorem loopFrom_onlyAfterRetryable (cfg : Config) (ca : Option (Nat × Dur)) (atts : List Attempt) :
    ∀ (k : Nat) (bs : List Dur),
      onlyAfterRetryable (atts.map (·.out)) (loopFrom cfg ca k atts bs) = true := by
  induction atts with
  | nil => intro k bs; simp [loopFrom, onlyAfterRetryable]
  | cons a rest ih =>
    intro k bs
    rw [loopFrom_cons]
    cases h : a.out <;> simp only [onlyAfterRetryable, List.map_cons, h] <;> try simp
    split <;> try simp
    split <;> try simp
    split <;> try simp
    have := ih (k + 1) bs.tail
    simp only [onlyAfterRetryable] at this
    generalize (loopFrom cfg ca (k + 1) rest bs.tail).attempts = n at this ⊢
    cases n with
    | zero => simp
    | succ m => simpa [isRetryable] using this

/-- case analysis of one iteration of the loop -/
theorem loopFrom_cases (cfg : Config) (ca : Option (Nat × Dur)) (k : Nat) (a : Attempt) (rest : List Attempt)
    (bs : List Dur) :
    (Spec.isRetryable a.out = false ∧
      loopFrom cfg ca k (a :: rest) bs = { result := .returned a.out, attempts := 1, waits := [] }) ∨
    (∃ thr, a.out = .retryable thr ∧
      ((cfg.maxElapsed ≠ 0 ∧ a.e1 > cfg.maxElapsed ∧
          loopFrom cfg ca k (a :: rest) bs = { result := .maxElapsed, attempts := 1, waits := [] }) ∨
       (¬ (cfg.maxElapsed ≠ 0 ∧ a.e1 > cfg.maxElapsed) ∧ cfg.maxElapsed ≠ 0 ∧ a.e2 + thr > cfg.maxElapsed ∧
          loopFrom cfg ca k (a :: rest) bs = { result := .wouldElapse, attempts := 1, waits := [] }) ∨
       (¬ (cfg.maxElapsed ≠ 0 ∧ a.e1 > cfg.maxElapsed) ∧ ¬ (cfg.maxElapsed ≠ 0 ∧ a.e2 + thr > cfg.maxElapsed) ∧
          waitCancelled (max thr (bs.headD 0)) (waitCtx ca k) = true ∧
          loopFrom cfg ca k (a :: rest) bs =
            { result := .cancelled, attempts := 1, waits := [max thr (bs.headD 0)] }) ∨
       (¬ (cfg.maxElapsed ≠ 0 ∧ a.e1 > cfg.maxElapsed) ∧ ¬ (cfg.maxElapsed ≠ 0 ∧ a.e2 + thr > cfg.maxElapsed) ∧
          waitCancelled (max thr (bs.headD 0)) (waitCtx ca k) = false ∧
          loopFrom cfg ca k (a :: rest) bs =
            { result := (loopFrom cfg ca (k + 1) rest bs.tail).result,
              attempts := (loopFrom cfg ca (k + 1) rest bs.tail).attempts + 1,
              waits := max thr (bs.headD 0) :: (loopFrom cfg ca (k + 1) rest bs.tail).waits }))) := by
  rw [loopFrom_cons]
  cases h : a.out with
  | ok p => left; simp [Spec.isRetryable]
  | fatal => left; simp [Spec.isRetryable]
  | retryable thr =>
    right
    refine ⟨thr, rfl, ?_⟩
    simp only []
    by_cases h1 : cfg.maxElapsed ≠ 0 ∧ a.e1 > cfg.maxElapsed
    · left; rw [if_pos h1]; exact ⟨h1.1, h1.2, rfl⟩
    · right
      rw [if_neg h1]
      by_cases h2 : cfg.maxElapsed ≠ 0 ∧ a.e2 + thr > cfg.maxElapsed
      · left; rw [if_pos h2]; exact ⟨h1, h2.1, h2.2, rfl⟩
      · right
        rw [if_neg h2]
        by_cases h3 : waitCancelled (max thr (bs.headD 0)) (waitCtx ca k) = true
        · left; rw [if_pos h3]; exact ⟨h1, h2, h3, rfl⟩
        · right
          rw [if_neg h3]
          exact ⟨h1, h2, by simpa using h3, rfl⟩

theorem loopFrom_waitCountOK (cfg : Config) (ca : Option (Nat × Dur)) (atts : List Attempt) :
    ∀ (k : Nat) (bs : List Dur), waitCountOK (loopFrom cfg ca k atts bs) = true := by
  induction atts with
  | nil => intro k bs; simp [loopFrom, waitCountOK]
  | cons a rest ih =>
    intro k bs
    rcases loopFrom_cases cfg ca k a rest bs with ⟨_, hR⟩ | ⟨thr, _, ⟨_, _, hR⟩ | ⟨_, _, _, hR⟩ | ⟨_, _, _, hR⟩ | ⟨_, _, _, hR⟩⟩
      <;> rw [hR] <;> try (simp [waitCountOK])
    have := ih (k + 1) bs.tail
    generalize loopFrom cfg ca (k + 1) rest bs.tail = r at this ⊢
    simp only [waitCountOK] at this ⊢
    cases hr : r.result <;> simp [hr] at this ⊢ <;> omega

theorem loopFrom_waitsHonourThrottle (cfg : Config) (ca : Option (Nat × Dur)) (atts : List Attempt) :
    ∀ (k : Nat) (bs : List Dur),
      waitsHonourThrottle (atts.map (·.out)) (loopFrom cfg ca k atts bs) = true := by
  induction atts with
  | nil => intro k bs; simp [loopFrom, waitsHonourThrottle]
  | cons a rest ih =>
    intro k bs
    rcases loopFrom_cases cfg ca k a rest bs with ⟨_, hR⟩ | ⟨thr, ho, ⟨_, _, hR⟩ | ⟨_, _, _, hR⟩ | ⟨_, _, _, hR⟩ | ⟨_, _, _, hR⟩⟩
      <;> rw [hR] <;> try (simp [waitsHonourThrottle])
    · simp [ho, throttleOf]; omega
    · have := ih (k + 1) bs.tail
      simp only [waitsHonourThrottle, List.all_eq_true] at this
      refine ⟨by simp [ho, throttleOf]; omega, ?_⟩
      intro w o hm
      simpa using this (w, o) hm

theorem loopFrom_givesUp (cfg : Config) (ca : Option (Nat × Dur)) (atts : List Attempt) :
    ∀ (k : Nat) (bs : List Dur), givesUp cfg atts (loopFrom cfg ca k atts bs) = true := by
  induction atts with
  | nil => intro k bs; simp [loopFrom, givesUp]
  | cons a rest ih =>
    intro k bs
    rcases loopFrom_cases cfg ca k a rest bs with ⟨_, hR⟩ | ⟨thr, ho, ⟨_, _, hR⟩ | ⟨_, _, _, hR⟩ | ⟨h1, h2, _, hR⟩ | ⟨h1, h2, _, hR⟩⟩
      <;> rw [hR] <;> try (simp [givesUp])
    · by_cases h0 : cfg.maxElapsed = 0
      · exact Or.inl h0
      · right; simp [ho, throttleOf]; constructor <;> omega
    · have := ih (k + 1) bs.tail
      simp only [givesUp, Bool.or_eq_true, beq_iff_eq, List.all_eq_true] at this
      by_cases h0 : cfg.maxElapsed = 0
      · exact Or.inl h0
      · right
        refine ⟨by simp [ho, throttleOf]; constructor <;> omega, ?_⟩
        rcases this with h | h
        · exact absurd h h0
        · intro x hx; simpa using h x hx

theorem completedOK_cons (ca : Nat × Dur) (k : Nat) (w : Dur) (ws : List Dur) :
    completedOK ca k (w :: ws) =
      ((decide (k < ca.1) || decide (w ≤ (if k = ca.1 then ca.2 else 0))) && completedOK ca (k + 1) ws) := rfl

theorem cancelledOK_cons2 (ca : Nat × Dur) (k : Nat) (d w : Dur) (ws : List Dur) :
    cancelledOK ca k (d :: w :: ws) =
      ((decide (k < ca.1) || decide (d ≤ (if k = ca.1 then ca.2 else 0))) && cancelledOK ca (k + 1) (w :: ws)) := by
  rw [cancelledOK]

theorem loopFrom_cancelOK_none (cfg : Config) (atts : List Attempt) :
    ∀ (k : Nat) (bs : List Dur), (loopFrom cfg none k atts bs).result ≠ .cancelled := by
  induction atts with
  | nil => intro k bs; simp [loopFrom]
  | cons a rest ih =>
    intro k bs
    rcases loopFrom_cases cfg none k a rest bs with ⟨_, hR⟩ | ⟨thr, ho, ⟨_, _, hR⟩ | ⟨_, _, _, hR⟩ | ⟨h1, h2, hc, hR⟩ | ⟨h1, h2, _, hR⟩⟩
      <;> rw [hR] <;> try (simp)
    · simp [waitCancelled, waitCtx] at hc
    · exact ih (k + 1) bs.tail

/-- the cancellation clause for the loop started at attempt `k` -/
theorem loopFrom_cancelOK_some (cfg : Config) (ca : Nat × Dur) (atts : List Attempt) :
    ∀ (k : Nat) (bs : List Dur),
      (match (loopFrom cfg (some ca) k atts bs).result with
       | .cancelled => cancelledOK ca k (loopFrom cfg (some ca) k atts bs).waits
       | _ => completedOK ca k (loopFrom cfg (some ca) k atts bs).waits) = true := by
  induction atts with
  | nil => intro k bs; simp [loopFrom, completedOK]
  | cons a rest ih =>
    intro k bs
    rcases loopFrom_cases cfg (some ca) k a rest bs with ⟨_, hR⟩ | ⟨thr, ho, ⟨_, _, hR⟩ | ⟨_, _, _, hR⟩ | ⟨h1, h2, hc, hR⟩ | ⟨h1, h2, hc, hR⟩⟩
      <;> rw [hR] <;> try (simp [completedOK])
    · -- cancelled in this wait
      obtain ⟨j, c⟩ := ca
      simp only [waitCancelled, waitCtx] at hc
      simp only [cancelledOK]
      by_cases hk : k < j
      · simp [hk] at hc
      · by_cases hkj : k = j
        · subst hkj; simpa using hc
        · simp [hk, hkj] at hc
          simp [hkj]; omega
    · -- the wait completed
      obtain ⟨j, c⟩ := ca
      simp only [waitCancelled, waitCtx] at hc
      have hstep : (decide (k < j) || decide (max thr (bs.headD 0) ≤ (if k = j then c else 0))) = true := by
        by_cases hk : k < j
        · simp [hk]
        · by_cases hkj : k = j
          · subst hkj; simp at hc; simp; omega
          · simp [hk, hkj] at hc; simp [hkj]; omega
      have := ih (k + 1) bs.tail
      generalize loopFrom cfg (some (j, c)) (k + 1) rest bs.tail = r at this ⊢
      cases hr : r.result <;> simp only [hr] at this ⊢
      case cancelled =>
        cases hw : r.waits with
        | nil => simp [hw, cancelledOK] at this
        | cons w ws =>
          rw [hw] at this
          rw [cancelledOK_cons2, this]
          simpa using hstep
      all_goals ((first | rw [completedOK_cons, this] | rw [this]); simpa using hstep)

theorem firstTerminal_cons_retryable (o : Outcome) (outs : List Outcome) (h : isRetryable o = true) :
    firstTerminal (o :: outs) = (firstTerminal outs).map (· + 1) := by
  simp [firstTerminal, h]

theorem firstTerminal_cons_terminal (o : Outcome) (outs : List Outcome) (h : isRetryable o = false) :
    firstTerminal (o :: outs) = some 0 := by
  simp [firstTerminal, h]

theorem loopFrom_stopsAtFirstTerminal (cfg : Config) (ca : Option (Nat × Dur)) (atts : List Attempt) :
    ∀ (k : Nat) (bs : List Dur),
      stopsAtFirstTerminal (atts.map (·.out)) (loopFrom cfg ca k atts bs) = true := by
  induction atts with
  | nil => intro k bs; simp [loopFrom, stopsAtFirstTerminal, firstTerminal]
  | cons a rest ih =>
    intro k bs
    rcases loopFrom_cases cfg ca k a rest bs with ⟨ht, hR⟩ | ⟨thr, ho, hcase⟩
    · rw [hR]
      simp [stopsAtFirstTerminal, firstTerminal_cons_terminal _ _ ht]
    · have hr : isRetryable a.out = true := by simp [ho, isRetryable]
      have hft := firstTerminal_cons_retryable a.out (rest.map (·.out)) hr
      rcases hcase with ⟨_, _, hR⟩ | ⟨_, _, _, hR⟩ | ⟨_, _, _, hR⟩ | ⟨_, _, _, hR⟩
      · rw [hR]; simp only [stopsAtFirstTerminal, List.map_cons, hft]
        cases firstTerminal (rest.map (·.out)) <;> simp
      · rw [hR]; simp only [stopsAtFirstTerminal, List.map_cons, hft]
        cases firstTerminal (rest.map (·.out)) <;> simp
      · rw [hR]; simp only [stopsAtFirstTerminal, List.map_cons, hft]
        cases firstTerminal (rest.map (·.out)) <;> simp
      · rw [hR]
        have := ih (k + 1) bs.tail
        generalize loopFrom cfg ca (k + 1) rest bs.tail = r at this ⊢
        simp only [stopsAtFirstTerminal, List.map_cons, hft] at this ⊢
        cases hf : firstTerminal (rest.map (·.out)) with
        | none =>
          simp only [hf] at this ⊢
          cases hres : r.result <;> simp [hres] at this ⊢
        | some i =>
          simp only [hf] at this ⊢
          cases hres : r.result <;> simp [hres] at this ⊢ <;> try omega
          obtain ⟨⟨h1, h2⟩, h3, x, h5⟩ := this
          refine ⟨⟨by omega, h2⟩, by omega, ?_⟩
          have : r.attempts = (r.attempts - 1) + 1 := by omega
          rw [this]; simpa using ⟨x, h5⟩

/-- waits honour the server's hint whenever the classification hands at least the hint to the loop -/
theorem loopFrom_waitsHonourHint {α : Type} (hint : α → Option Dur) (cls : α → Outcome)
    (cfg : Config) (ca : Option (Nat × Dur)) (xs : List (α × Dur × Dur))
    (hcls : ∀ x ∈ xs, ∀ h t, hint x.1 = some h → cls x.1 = .retryable t → h ≤ t) :
    ∀ (k : Nat) (bs : List Dur),
      waitsHonourHint hint (xs.map (·.1))
        (loopFrom cfg ca k (xs.map (fun x => { out := cls x.1, e1 := x.2.1, e2 := x.2.2 })) bs) = true := by
  induction xs with
  | nil => intro k bs; simp [loopFrom, waitsHonourHint]
  | cons x rest ih =>
    intro k bs
    have ih' := ih (fun y hy => hcls y (List.mem_cons_of_mem _ hy))
    have hx := hcls x (List.mem_cons_self)
    simp only [List.map_cons]
    rcases loopFrom_cases cfg ca k { out := cls x.1, e1 := x.2.1, e2 := x.2.2 }
        (rest.map (fun x => { out := cls x.1, e1 := x.2.1, e2 := x.2.2 })) bs
      with ⟨_, hR⟩ | ⟨thr, ho, ⟨_, _, hR⟩ | ⟨_, _, _, hR⟩ | ⟨_, _, _, hR⟩ | ⟨_, _, _, hR⟩⟩
      <;> rw [hR] <;> try (simp [waitsHonourHint])
    · cases hh : hint x.1 with
      | none => simp
      | some h => have := hx h thr hh ho; simp; omega
    · have := ih' (k + 1) bs.tail
      simp only [waitsHonourHint, List.all_eq_true] at this
      refine ⟨?_, ?_⟩
      · cases hh : hint x.1 with
        | none => simp
        | some h => have := hx h thr hh ho; simp; omega
      · intro w y hm
        exact this (w, y) hm

theorem throttleDelay_fst (ds : List Detail) : (throttleDelay ds).1 = hasRetryInfo ds := by
  induction ds with
  | nil => simp [throttleDelay, hasRetryInfo]
  | cons d rest ih =>
    cases d with
    | retryInfo x => simp [throttleDelay, hasRetryInfo]
    | other => simpa [throttleDelay, hasRetryInfo] using ih

theorem throttleDelay_hint (ds : List Detail) (h : Dur) (hh : hintGRPC ⟨c, ds, p⟩ = some h) :
    (throttleDelay ds).2 = h := by
  induction ds with
  | nil => simp [hintGRPC] at hh
  | cons d rest ih =>
    cases d with
    | retryInfo x => simpa [throttleDelay, hintGRPC] using hh
    | other =>
      simp only [hintGRPC, List.findSome?_cons] at hh ih
      simpa [throttleDelay] using ih hh

theorem grpc_hint_le_throttle (r : GrpcResp) (h t : Dur) (hh : hintGRPC r = some h)
    (hc : classifyGRPC r = .retryable t) : h ≤ t := by
  obtain ⟨c, ds, p⟩ := r
  have h2 := throttleDelay_hint (c := c) (p := p) ds h hh
  simp only [classifyGRPC, retryableGRPC] at hc
  split at hc
  · cases hc
  · split at hc
    · rename_i b d heq
      split at heq
      · simp only [Prod.mk.injEq] at heq; cases hc; omega
      · split at heq
        · rw [← Prod.eta (throttleDelay ds)] at heq
          simp only [Prod.mk.injEq] at heq; cases hc; omega
        · simp at heq
    · cases hc

theorem parseInt64_digits (v : Bytes) (n : Nat) (h : digitsVal v = some n) (hn : n < 2 ^ 63) :
    parseInt64 v = some (n : Int) := by
  cases v with
  | nil => simp [digitsVal] at h
  | cons c rest =>
    have hc : 48 ≤ c.toNat := by
      simp only [digitsVal, digitsValAux] at h
      split at h
      · omega
      · cases h
    unfold parseInt64
    split
    · rename_i heq
      split at heq
      · rename_i r' h'; cases h'; simp at hc
      · rename_i r' h'; cases h'; simp at hc
      · cases heq; simp [h, hn]

theorem classifyHTTP_retryable_inv (r : HttpResp) (t : Dur) (hnet : r.net = .none)
    (hc : classifyHTTP r = .retryable t) :
    retryStatus r.status = true ∧ t = retryAfterSeconds r.retryAfter := by
  obtain ⟨net, status, ra, ct, body⟩ := r
  simp only at hnet
  subst hnet
  simp only [classifyHTTP] at hc
  split at hc
  · exfalso
    cases body with
    | empty => simp at hc
    | garbage => simp only [] at hc; split at hc <;> cases hc
    | proto ps =>
      simp only [] at hc
      split at hc
      · cases ps with
        | none => simp at hc
        | some q => simp at hc
      · cases hc
  · split at hc
    · rename_i hs
      simp only [evaluateThrottle, Outcome.retryable.injEq] at hc
      exact ⟨hs, hc.symm⟩
    · cases hc

theorem http_hint_le_throttle (r : HttpResp) (hF : F19_applies r = false) (h t : Dur)
    (hh : hintHTTP r = some h) (hc : classifyHTTP r = .retryable t) : h ≤ t := by
  have hnet : r.net = .none := by
    cases hn : r.net <;> simp [hintHTTP, hn] at hh ⊢
  obtain ⟨hs, ht⟩ := classifyHTTP_retryable_inv r t hnet hc
  cases hra : r.retryAfter with
  | none => simp [hintHTTP, hnet, hra] at hh
  | some v =>
    cases hd : digitsVal v with
    | none => simp [hintHTTP, hnet, hra, hd] at hh
    | some n =>
      simp only [hintHTTP, hnet, hra, hd, Option.map_some, Option.some.injEq] at hh
      subst hh
      have hst : [429, 502, 503, 504].contains r.status = true := by
        simp only [retryStatus, Bool.or_eq_true, beq_iff_eq] at hs
        rcases hs with ((h | h) | h) | h <;> simp [h]
      have hn0 : n = 0 := by
        simp only [F19_applies, hnet, hst, hra, hd] at hF
        simpa using hF
      subst hn0
      rw [ht, hra]
      simp [retryAfterSeconds, parseInt64_digits v 0 hd (by decide)]
