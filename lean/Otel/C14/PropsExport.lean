/-
C14 — property theorems about what surrounds the retry loop in one export (extension 4):
* request construction and re-send (`newRequest` / `bodyReader` / `request.reset`, three HTTP packages): "re-sends the
  IDENTICAL payload" as a theorem about a model with explicit memory (the failure mode is aliasing with pooled storage);
* partial success → error handler, all three signals: reported iff `rejected ≠ 0 ∨ message ≠ ""`, at most once per
  export, exactly when the export returns that success;
* Stop/Shutdown wiring exporter by exporter (`stopWiringOf`), with F43 as theorems about four of the six.
-/
import Otel.C14.Props
namespace Otel.C14
open Otel Otel.C14 Otel.C14.Spec

/-! ### memory -/

private theorem read_alloc_new (m : Mem) (v : Bytes) : (m.alloc v).1.read (m.alloc v).2 = v := by
  simp [Mem.alloc, Mem.read]

private theorem read_alloc_old (m : Mem) (v : Bytes) (a : Nat) (ha : a < m.next) :
    (m.alloc v).1.read a = m.read a := by
  have : (m.next == a) = false := by simp; omega
  simp [Mem.alloc, Mem.read, this]

private theorem wf_alloc (m : Mem) (v : Bytes) (h : m.wf) : (m.alloc v).1.wf := by
  intro c hc
  simp only [Mem.alloc, List.mem_cons] at hc ⊢
  rcases hc with rfl | hc
  · simp
  · have := h c hc; omega

private theorem newRequest_facts (gz : Bytes → Bytes) (c : Bool) (m : Mem) (p : Bytes) (h : m.wf) :
    (newRequest gz c m p).1.wf ∧ (newRequest gz c m p).1.next = m.next + 1 ∧
    (newRequest gz c m p).2.body = m.next ∧
    (∀ a, a < m.next → (newRequest gz c m p).1.read a = m.read a) ∧
    sendAttempt (newRequest gz c m p).1 (newRequest gz c m p).2 = (if c then gz p else p) := by
  cases c
  · refine ⟨wf_alloc m p h, rfl, rfl, fun a ha => read_alloc_old m p a ha, ?_⟩
    simpa [newRequest, sendAttempt] using read_alloc_new m p
  · refine ⟨wf_alloc m (gz p) h, rfl, rfl, fun a ha => read_alloc_old m (gz p) a ha, ?_⟩
    simpa [newRequest, sendAttempt] using read_alloc_new m (gz p)

private theorem otherExports_facts (gz : Bytes → Bytes) (ops : List (Bool × Bytes)) :
    ∀ (m : Mem), m.wf → (otherExports gz m ops).wf ∧ m.next ≤ (otherExports gz m ops).next ∧
      ∀ a, a < m.next → (otherExports gz m ops).read a = m.read a := by
  induction ops with
  | nil => intro m h; exact ⟨h, Nat.le_refl _, fun _ _ => rfl⟩
  | cons op rest ih =>
    intro m h
    obtain ⟨c, p⟩ := op
    obtain ⟨h1, h2, _, h4, _⟩ := newRequest_facts gz c m p h
    obtain ⟨g1, g2, g3⟩ := ih (newRequest gz c m p).1 h1
    refine ⟨g1, by simp only [otherExports]; omega, ?_⟩
    intro a ha
    simp only [otherExports]
    rw [g3 a (by omega), h4 a ha]

private theorem attemptBodies_const (gz : Bytes → Bytes) (r : Request) (between : List (List (Bool × Bytes))) :
    ∀ (m : Mem), m.wf → r.body < m.next →
      ∀ b ∈ attemptBodies gz m r between, b = sendAttempt m r := by
  induction between with
  | nil => intro m _ _ b hb; simpa [attemptBodies] using hb
  | cons ops rest ih =>
    intro m h hr b hb
    simp only [attemptBodies, List.mem_cons] at hb
    rcases hb with rfl | hb
    · rfl
    · obtain ⟨g1, g2, g3⟩ := otherExports_facts gz ops m h
      have := ih (otherExports gz m ops) g1 (by omega) b hb
      rw [this]
      simp only [sendAttempt]
      exact g3 r.body hr

/-- "RE-SENDS THE IDENTICAL PAYLOAD": attempt `k` of an export sends exactly the bytes of attempt 1 — the payload, or
its gzip form — for every `k`, every compression setting, every payload, and WHATEVER other exports (of this or any
other exporter sharing the package-level pool, compressed or not) build their requests between the attempts. -/
theorem resend_identical (gz : Bytes → Bytes) (compress : Bool) (m : Mem) (payload : Bytes) (hm : m.wf)
    (between : List (List (Bool × Bytes))) :
    let mr := newRequest gz compress m payload
    (attemptBodies gz mr.1 mr.2 between).length = between.length + 1 ∧
    ∀ b ∈ attemptBodies gz mr.1 mr.2 between, b = (if compress then gz payload else payload) := by
  obtain ⟨h1, h2, h3, _, h5⟩ := newRequest_facts gz compress m payload hm
  refine ⟨?_, ?_⟩
  · generalize (newRequest gz compress m payload).1 = m'
    induction between generalizing m' with
    | nil => simp [attemptBodies]
    | cons ops rest ih => simp [attemptBodies, ih]
  · intro b hb
    rw [← h5]
    exact attemptBodies_const gz _ between _ h1 (by omega) b hb

/-- the request's framing matches what is sent: `Content-Encoding: gzip` iff compression is on; without compression
`ContentLength` is the length of the bytes every attempt sends, with compression it is −1 ("not used"). -/
theorem request_framing (gz : Bytes → Bytes) (compress : Bool) (m : Mem) (payload : Bytes) (hm : m.wf) :
    let mr := newRequest gz compress m payload
    mr.2.gzipHeader = compress ∧
    (compress = true → mr.2.contentLength = -1) ∧
    (compress = false → mr.2.contentLength = (sendAttempt mr.1 mr.2).length) := by
  obtain ⟨_, _, _, _, h5⟩ := newRequest_facts gz compress m payload hm
  cases compress
  · refine ⟨rfl, by simp, ?_⟩
    intro _; rw [h5]; rfl
  · exact ⟨rfl, fun _ => rfl, by simp⟩

/-! ### partial success -/

/-- reported to the error handler iff `rejected ≠ 0 ∨ message ≠ ""` (spans, data points, log records alike);
a response without the field reports nothing. -/
theorem partial_reported_iff (n : Int) (msgNonEmpty : Bool) :
    (partialReported (some (n, msgNonEmpty)) = true ↔ (n ≠ 0 ∨ msgNonEmpty = true)) ∧
    partialReported none = false := by
  simp [partialReported]

/-- HTTP, every signal: a 2xx protobuf answer is a success whose handler flag is exactly `partialReported`. -/
theorem http_partial_success_outcome (r : HttpResp) (ps : Option (Int × Bool)) (hn : r.net = .none)
    (h2 : 200 ≤ r.status ∧ r.status ≤ 299) (hct : r.ctProto = true) (hb : r.body = .proto ps) :
    classifyHTTP r = .ok (partialReported ps) := by
  unfold classifyHTTP
  rw [hn]
  simp only [h2, and_self, if_true, hb, hct]
  cases ps with
  | none => rfl
  | some x => obtain ⟨n, m⟩ := x; rfl

private theorem loopFrom_handlerCalls (cfg : Config) (ca : Option (Nat × Dur)) (atts : List Attempt) :
    ∀ (k : Nat) (bs : List Dur),
      handlerCalls atts (loopFrom cfg ca k atts bs) =
        (if (loopFrom cfg ca k atts bs).result = .returned (.ok true) then 1 else 0) := by
  induction atts with
  | nil => intro k bs; simp [loopFrom, handlerCalls]
  | cons a rest ih =>
    intro k bs
    rcases loopFrom_cases cfg ca k a rest bs with ⟨hnr, hR⟩ | ⟨thr, ho, ⟨_, _, hR⟩ | ⟨_, _, _, hR⟩ | ⟨_, _, _, hR⟩ | ⟨_, _, _, hR⟩⟩
    · rw [hR]
      cases hao : a.out with
      | ok p => cases p <;> simp [handlerCalls, hao]
      | fatal => simp [handlerCalls, hao]
      | retryable t => simp [hao, isRetryable] at hnr
    · rw [hR]; simp [handlerCalls, ho]
    · rw [hR]; simp [handlerCalls, ho]
    · rw [hR]; simp [handlerCalls, ho]
    · rw [hR]
      have := ih (k + 1) bs.tail
      simp only [handlerCalls] at this ⊢
      simp only [List.take_succ_cons, List.filter_cons, ho]
      simpa using this

/-- "treats a success carrying a partial-success message as delivered while reporting the rejection to the error
handler", over a WHOLE export with retries: the handler is called at most once, and exactly when the export returns a
success that carried a reportable partial-success message — never for an attempt that is retried, never twice. -/
theorem handler_called_iff_partial_success_returned (cfg : Config) (atts : List Attempt) (bs : List Dur)
    (ca : Option (Nat × Dur)) (he : cfg.enabled = true) :
    handlerCalls atts (requestLoop cfg atts bs ca) =
      (if (requestLoop cfg atts bs ca).result = .returned (.ok true) then 1 else 0) := by
  simp only [requestLoop, he, if_true]
  exact loopFrom_handlerCalls cfg ca atts 0 bs

/-- `Enabled = false` (`WithRetry(RetryConfig{Enabled: false})`): exactly one attempt for EVERY script, its handler
call included. -/
theorem retry_disabled_exactly_one (cfg : Config) (a : Attempt) (rest : List Attempt) (bs : List Dur)
    (ca : Option (Nat × Dur)) (he : cfg.enabled = false) :
    (requestLoop cfg (a :: rest) bs ca).attempts = 1 ∧ (requestLoop cfg (a :: rest) bs ca).waits = [] ∧
    handlerCalls (a :: rest) (requestLoop cfg (a :: rest) bs ca) = (if a.out = .ok true then 1 else 0) := by
  simp only [requestLoop, he]
  refine ⟨rfl, rfl, ?_⟩
  cases hao : a.out with
  | ok p => cases p <;> simp [handlerCalls, hao]
  | fatal => simp [handlerCalls, hao]
  | retryable t => simp [handlerCalls, hao]

/-! ### Stop / Shutdown, exporter by exporter -/

/-- otlptracehttp and otlptracegrpc: a pending export is ended by Shutdown, for every client timeout. -/
theorem trace_exporters_shutdown_ends_export (grpc : Bool) (timeout : Dur) :
    shutdownOK (shutdownSeen (stopWiringOf .trace grpc) grpc timeout) = true := by
  simpa [stopWiringOf] using shutdown_ok_when_stop_cancels grpc timeout

private theorem waits_seen (grpc : Bool) (timeout : Dur) :
    shutdownSeen .waitsForExport grpc timeout =
      (if grpc = true ∧ 0 < timeout ∧ timeout ≤ 2000000000 then (some true, some true) else (none, none)) := by
  cases grpc
  · by_cases h : timeout > 0 <;> simp [shutdownSeen, exportCtxDone, earlier, h]
  · by_cases h : timeout > 0
    · by_cases h2 : timeout ≤ 2000000000
      · simp [shutdownSeen, exportCtxDone, earlier, h, h2]
      · simp [shutdownSeen, exportCtxDone, earlier, h, h2]
    · simp [shutdownSeen, exportCtxDone, earlier, h]

/-- otlpmetrichttp, otlpmetricgrpc (F43): Shutdown returns exactly when the pending export does, and nothing but the
gRPC client's own timeout ends that export — with the HTTP exporter, with no timeout, or with a timeout beyond the
observation horizon both are still blocked 2 s after Shutdown's 100 ms deadline. -/
theorem metric_exporters_shutdown_waits (grpc : Bool) (timeout : Dur) :
    shutdownSeen (stopWiringOf .metric grpc) grpc timeout =
      (if grpc = true ∧ 0 < timeout ∧ timeout ≤ 2000000000 then (some true, some true) else (none, none)) := by
  simpa [stopWiringOf] using waits_seen grpc timeout

/-- otlploggrpc (F43): the same shape. -/
theorem loggrpc_exporter_shutdown_waits (timeout : Dur) :
    shutdownSeen (stopWiringOf .log true) true timeout =
      (if 0 < timeout ∧ timeout ≤ 2000000000 then (some true, some true) else (none, none)) := by
  simpa [stopWiringOf] using waits_seen true timeout

/-- otlploghttp (F43): Shutdown returns nil at once and the pending export is never interrupted, for every timeout
(`http.Client.Timeout` is per request, not an event of the retry back-off). -/
theorem loghttp_exporter_shutdown_detaches (timeout : Dur) :
    shutdownSeen (stopWiringOf .log false) false timeout = (some false, none) := by
  by_cases h : timeout > 0 <;> simp [stopWiringOf, shutdownSeen, exportCtxDone, earlier, h]

/-- F43 applies to exactly the four non-trace exporters. -/
theorem F43_exactly_the_non_trace_exporters (sig : Signal) (grpc : Bool) :
    FShut_applies (stopWiringOf sig grpc) = (sig != .trace) := by
  cases sig <;> cases grpc <;> rfl

/-! ### non-vacuity -/

/-- a gzip export retried twice while two foreign exports (one compressed) are built in between: three identical
bodies (`gz` = a toy transformation) -/
example :
    let gz : Bytes → Bytes := fun p => 31 :: 139 :: p
    let mr := newRequest gz true { next := 3, cells := [(2, [9]), (0, [7, 7])] } [1, 2, 3]
    attemptBodies gz mr.1 mr.2 [[(true, [4, 4]), (false, [5])], []] =
      [[31, 139, 1, 2, 3], [31, 139, 1, 2, 3], [31, 139, 1, 2, 3]] := by decide

/-- 503, then 200 with a reportable partial success: one handler call; 200-partial first: retry never happens -/
example :
    handlerCalls [⟨.retryable 0, 1, 1⟩, ⟨.ok true, 2, 2⟩]
      (requestLoop { enabled := true, initial := 1, maxInterval := 1, maxElapsed := 0 }
        [⟨.retryable 0, 1, 1⟩, ⟨.ok true, 2, 2⟩] [1, 1] none) = 1 := by decide

end Otel.C14
