/-
C14 — property theorems about CLIENT CONSTRUCTION and the client timeout (extension 3; found necessary by the
seeded change C14-12: a refactoring of `NewClient` lost `http.Client.Timeout` on the branch that clones the
transport). `newHTTPClient` / `newGRPCClient` mirror the constructors of the six client packages;
`httpAttemptTimed` is one attempt under `http.Client.Timeout`. Every theorem quantifies over ALL construction
options (`HttpBuild` / `GrpcBuild`), collector scripts, backoff draws and cancellation points.
-/
import Otel.C14.Props
namespace Otel.C14
open Otel Otel.C14 Otel.C14.Spec

/-- the resolved timeout reaches the `http.Client` on EVERY construction path (shared transport, cloned transport
with a TLS configuration, with a proxy function, with both). -/
theorem http_client_timeout_any_construction (b : HttpBuild) : (newHTTPClient b).timeout = b.timeout := by
  unfold newHTTPClient
  cases b.tls <;> cases b.proxy <;> simp

/-- … and nothing but the transport differs between the paths: the package-level transport is shared exactly when
neither a TLS configuration nor a proxy is set, and the clone carries exactly what was configured. -/
theorem http_client_transport_by_path (b : HttpBuild) :
    (newHTTPClient b).sharedTransport = !(b.tls || b.proxy) ∧
    (newHTTPClient b).tlsSet = b.tls ∧ (newHTTPClient b).proxySet = b.proxy := by
  unfold newHTTPClient
  cases b.tls <;> cases b.proxy <;> simp

/-- gRPC: the resolved timeout becomes the export deadline whatever the dial options / supplied connection. -/
theorem grpc_client_timeout_any_construction (b : GrpcBuild) :
    (newGRPCClient b).exportTimeout = b.timeout ∧ (newGRPCClient b).ourConn = !b.suppliedConn := by
  simp [newGRPCClient]

/-- EVERY attempt of an HTTP client with a positive timeout ends, and lasts at most the configured timeout —
whatever the collector does (answers early, late, never) and whatever the construction options. -/
theorem http_attempt_bounded_by_timeout (b : HttpBuild) (s : Served) (ht : 0 < b.timeout)
    (hs : ∀ d, s.after = some d → 0 ≤ d) :
    ∃ t, httpAttemptTimed (newHTTPClient b) s = some t ∧ 0 ≤ t.d1 ∧ 0 ≤ t.d2 ∧ t.d1 + t.d2 ≤ b.timeout := by
  have hT := http_client_timeout_any_construction b
  unfold httpAttemptTimed
  rw [hT]
  cases ha : s.after with
  | none => simp [ht]; omega
  | some d =>
    have := hs d ha
    simp only
    split
    · exact ⟨_, rfl, by simp; omega, by simp, by simp⟩
    · rename_i h
      refine ⟨_, rfl, by simpa using this, by simp, ?_⟩
      simp only [not_and, Int.not_lt] at h
      have := h ht
      simp; omega

/-- a request that is accepted and never answered is a RETRYABLE outcome without throttle after exactly the timeout
(the temporary `Client.Timeout exceeded` error the retry loop needs to re-evaluate `MaxElapsedTime`). -/
theorem http_stalled_attempt_is_retryable (b : HttpBuild) (o : Outcome) (ht : 0 < b.timeout) :
    httpAttemptTimed (newHTTPClient b) { out := o, after := none } =
      some { out := .retryable 0, d1 := b.timeout, d2 := 0 } := by
  simp [httpAttemptTimed, http_client_timeout_any_construction, ht]

/-- an answer that arrives within the timeout is what the attempt yields, unchanged. -/
theorem http_timely_answer_unchanged (b : HttpBuild) (o : Outcome) (d : Dur) (hd : d ≤ b.timeout) :
    httpAttemptTimed (newHTTPClient b) { out := o, after := some d } = some { out := o, d1 := d, d2 := 0 } := by
  have : ¬ (b.timeout > 0 ∧ d > b.timeout) := by omega
  simp [httpAttemptTimed, http_client_timeout_any_construction, this]

private theorem httpScriptTimed_some (b : HttpBuild) (ht : 0 < b.timeout) (script : List Served)
    (hs : ∀ s ∈ script, (∀ d, s.after = some d → 0 ≤ d) ∧ 0 ≤ throttleOfOut s.out) :
    ∃ tas, httpScriptTimed (newHTTPClient b) script = some tas ∧ tas.length = script.length ∧
      ∀ t ∈ tas, 0 ≤ t.d1 ∧ 0 ≤ t.d2 ∧ t.d1 + t.d2 ≤ b.timeout ∧ 0 ≤ throttleOfOut t.out := by
  induction script with
  | nil => exact ⟨[], rfl, rfl, by simp⟩
  | cons s rest ih =>
    obtain ⟨tas, h1, h2, h3⟩ := ih (fun x hx => hs x (List.mem_cons_of_mem _ hx))
    obtain ⟨t, g1, g2, g3, g4⟩ := http_attempt_bounded_by_timeout b s ht (hs s List.mem_cons_self).1
    refine ⟨t :: tas, by simp [httpScriptTimed, g1, h1], by simp [h2], ?_⟩
    intro x hx
    rcases List.mem_cons.mp hx with rfl | hx
    · refine ⟨g2, g3, g4, ?_⟩
      -- the outcome is either the collector's or `retryable 0`
      have hT := http_client_timeout_any_construction b
      unfold httpAttemptTimed at g1
      rw [hT] at g1
      cases ha : s.after with
      | none => simp [ha, ht] at g1; subst g1; simp [throttleOfOut]
      | some d =>
        simp only [ha] at g1
        split at g1
        · simp at g1; subst g1; simp [throttleOfOut]
        · simp at g1; subst g1; exact (hs s List.mem_cons_self).2
    · exact h3 x hx

/-- "never blocks" in an attempt: with a positive timeout the export is defined (every attempt ends) for every
script and every construction path. -/
theorem http_export_never_blocks_in_attempt (cfg : Config) (b : HttpBuild) (script : List Served) (bs : List Dur)
    (ca : Option (Nat × Dur)) (ht : 0 < b.timeout)
    (hs : ∀ s ∈ script, (∀ d, s.after = some d → 0 ≤ d) ∧ 0 ≤ throttleOfOut s.out) :
    (httpExportTimed cfg b script bs ca).isSome = true := by
  obtain ⟨tas, h1, _, _⟩ := httpScriptTimed_some b ht script hs
  simp [httpExportTimed, h1]

/-- RETURN TIME for every construction path: with `0 < MaxElapsedTime = M` and a positive client timeout `T` the
export returns, on the model's clock, by `M + maxBackoff + T` — whatever the collector does with each request
(answer early, late or never), whatever the draws, the cancellation point and the construction options. -/
theorem http_export_returns_by_any_construction (cfg : Config) (b : HttpBuild) (script : List Served)
    (bs : List Dur) (ca : Option (Nat × Dur))
    (hM : 0 < cfg.maxElapsed) (hI : 0 ≤ cfg.initial) (hMI : 0 ≤ cfg.maxInterval)
    (hbs : backoffsOK cfg bs = true) (ht : 0 < b.timeout)
    (hs : ∀ s ∈ script, (∀ d, s.after = some d → 0 ≤ d) ∧ 0 ≤ throttleOfOut s.out) :
    ∃ t, httpExportReturnTime cfg b script bs ca = some t ∧
      t ≤ cfg.maxElapsed + maxBackoff cfg + b.timeout := by
  obtain ⟨tas, h1, _, h3⟩ := httpScriptTimed_some b ht script hs
  refine ⟨returnTimeFrom cfg ca 0 (timeline 0 tas bs) bs, by simp [httpExportReturnTime, h1], ?_⟩
  exact retry_returns_by cfg tas bs ca b.timeout hM hI hMI hbs h3 (by omega)

/-- … and why `WithTimeout(0)` is outside that guarantee: without a client timeout an attempt against a collector
that never answers does not end, on any construction path. -/
theorem http_no_timeout_blocks (cfg : Config) (b : HttpBuild) (o : Outcome) (rest : List Served) (bs : List Dur)
    (ca : Option (Nat × Dur)) (ht : b.timeout = 0) :
    httpExportTimed cfg b ({ out := o, after := none } :: rest) bs ca = none := by
  simp [httpExportTimed, httpScriptTimed, httpAttemptTimed, http_client_timeout_any_construction, ht]

private theorem timeline_outs (now : Dur) (tas : List Timed) (bs : List Dur) :
    (timeline now tas bs).map (·.out) = tas.map (·.out) := by
  induction tas generalizing now bs with
  | nil => rfl
  | cons t rest ih => simp [timeline, ih]

private theorem firstTerminal_replicate (k : Nat) (p : Bool) :
    firstTerminal (List.replicate k (Outcome.retryable 0) ++ [Outcome.ok p]) = some k := by
  induction k with
  | zero => simp [firstTerminal, isRetryable]
  | succ k ih => simp [List.replicate_succ, firstTerminal, isRetryable, ih]

private theorem httpScriptTimed_stalls (b : HttpBuild) (ht : 0 < b.timeout) (k : Nat) (o : Outcome) (p : Bool)
    (d : Dur) (hd : d ≤ b.timeout) :
    ∃ tas, httpScriptTimed (newHTTPClient b)
        (List.replicate k { out := o, after := none } ++ [{ out := .ok p, after := some d }]) = some tas ∧
      tas.map (·.out) = List.replicate k (Outcome.retryable 0) ++ [Outcome.ok p] := by
  induction k with
  | zero =>
    refine ⟨[{ out := .ok p, d1 := d, d2 := 0 }], ?_, rfl⟩
    simp [httpScriptTimed, http_timely_answer_unchanged b (.ok p) d hd]
  | succ k ih =>
    obtain ⟨tas, h1, h2⟩ := ih
    refine ⟨{ out := .retryable 0, d1 := b.timeout, d2 := 0 } :: tas, ?_, by simp [List.replicate_succ, h2]⟩
    simp [List.replicate_succ, httpScriptTimed, http_stalled_attempt_is_retryable b o ht, h1]

/-- SLOW THEN OK IS DELIVERED, on every construction path: `k` requests that are never answered followed by one that
is answered in time, retry enabled without elapsed-time limit, no cancellation — the export abandons each slow
attempt at the timeout, retries, and returns the success after exactly `k + 1` attempts. -/
theorem http_slow_then_ok_delivered (cfg : Config) (b : HttpBuild) (k : Nat) (o : Outcome) (p : Bool) (d : Dur)
    (bs : List Dur) (he : cfg.enabled = true) (hM : cfg.maxElapsed = 0) (ht : 0 < b.timeout) (hd : d ≤ b.timeout) :
    ∃ r, httpExportTimed cfg b
        (List.replicate k { out := o, after := none } ++ [{ out := .ok p, after := some d }]) bs none = some r ∧
      r.result = .returned (.ok p) ∧ r.attempts = k + 1 ∧
      slowOK false (some k) (slowResOf r.result) r.attempts = true := by
  obtain ⟨tas, h1, h2⟩ := httpScriptTimed_stalls b ht k o p d hd
  have hft : firstTerminal ((timeline 0 tas bs).map (·.out)) = some k := by
    rw [timeline_outs, h2]; exact firstTerminal_replicate k p
  obtain ⟨g1, g2⟩ := retry_unlimited_reaches_terminal cfg (timeline 0 tas bs) bs k he hM hft
  rw [timeline_outs, h2] at g1
  have hget : (List.replicate k (Outcome.retryable 0) ++ [Outcome.ok p]).getD k .fatal = .ok p := by
    simp [List.getD]
  rw [hget] at g1
  refine ⟨_, by simp [httpExportTimed, h1], g1, g2, ?_⟩
  simp [slowOK, g1, g2, slowResOf]

/-- gRPC, every construction path and every Stop wiring: against a collector that never answers, an export with a
positive client timeout ends AT the deadline — the attempt in flight is the only one, the wait that follows is cut
by the context (`cancelled`: the error wraps the deadline error), and no further request is sent. -/
theorem grpc_stall_ends_at_deadline (cfg : Config) (w : StopWiring) (b : GrpcBuild) (bs : List Dur)
    (he : cfg.enabled = true) (ht : 0 < b.timeout) (hM : cfg.maxElapsed = 0 ∨ b.timeout ≤ cfg.maxElapsed)
    (hb : 0 < bs.headD 0) :
    ∃ r, grpcStallExport cfg w b bs = some r ∧ r.result = .cancelled ∧ r.attempts = 1 ∧
      slowOK true none (slowResOf r.result) r.attempts = true := by
  have hctx : exportCtxDone w b.timeout none none (some (0, 0)) = some (0, 0) := by
    cases w <;> simp [exportCtxDone, earlier, ht]
  have h1 : ¬ (cfg.maxElapsed ≠ 0 ∧ b.timeout > cfg.maxElapsed) := by omega
  have h2 : ¬ (cfg.maxElapsed ≠ 0 ∧ b.timeout + 0 > cfg.maxElapsed) := by omega
  cases bs with
  | nil => simp at hb
  | cons x xs =>
    simp only [List.headD_cons] at hb
    have hd : (0 : Int) < max 0 x := by omega
    have hrun : grpcStallExport cfg w b (x :: xs) =
        some { result := .cancelled, attempts := 1, waits := [max 0 x] } := by
      simp [grpcStallExport, newGRPCClient, ht, exportRun, hctx, requestLoop, he, loopFrom, h1,
        waitCancelled, waitCtx, hd]
    exact ⟨_, hrun, rfl, rfl, by simp [slowOK, slowResOf]⟩

/-- … and without a client timeout nothing ends such an export. -/
theorem grpc_no_timeout_blocks (cfg : Config) (w : StopWiring) (b : GrpcBuild) (bs : List Dur)
    (ht : b.timeout ≤ 0) : grpcStallExport cfg w b bs = none := by
  have : ¬ (0 < b.timeout) := by omega
  simp [grpcStallExport, newGRPCClient, this]

private theorem slow_attempts_bound (cfg : Config) (ca : Option (Nat × Dur)) (T : Dur) (hT : 0 < T)
    (tas : List Timed) :
    ∀ (now : Dur) (k : Nat) (bs : List Dur),
      (∀ t ∈ tas, T ≤ t.d1 ∧ 0 ≤ t.d2 ∧ 0 ≤ throttleOfOut t.out) → cfg.maxElapsed ≠ 0 →
      ((loopFrom cfg ca k (timeline now tas bs) bs).attempts : Int) * T ≤ max T (cfg.maxElapsed - now + T) := by
  induction tas with
  | nil => intro now k bs _ _; simp [timeline, loopFrom]; omega
  | cons t rest ih =>
    intro now k bs ht hM
    have ht0 := ht t List.mem_cons_self
    rw [timeline_cons]
    generalize hth : throttleOfOut t.out = th at *
    have ih' := ih (now + t.d1 + t.d2 + max th (bs.headD 0)) (k + 1) bs.tail
      (fun x hx => ht x (List.mem_cons_of_mem _ hx)) hM
    rcases loopFrom_cases cfg ca k { out := t.out, e1 := now + t.d1, e2 := now + t.d1 + t.d2 }
        (timeline (now + t.d1 + t.d2 + max th (bs.headD 0)) rest bs.tail) bs
      with ⟨_, hR⟩ | ⟨thr, ho, ⟨_, _, hR⟩ | ⟨_, _, _, hR⟩ | ⟨h1, h2, _, hR⟩ | ⟨h1, h2, _, hR⟩⟩
      <;> rw [hR] <;> try (simp; omega)
    dsimp only at ho h1 h2 ⊢
    have h1' : now + t.d1 ≤ cfg.maxElapsed := by
      by_cases h : now + t.d1 > cfg.maxElapsed
      · exact absurd ⟨hM, h⟩ h1
      · omega
    rw [Int.natCast_add, Int.add_mul]
    simp only [Int.natCast_one, Int.one_mul]
    generalize ((loopFrom cfg ca (k + 1) (timeline (now + t.d1 + t.d2 + max th (bs.headD 0)) rest bs.tail)
      bs.tail).attempts : Int) * T = X at ih' ⊢
    omega

private theorem httpScriptTimed_allslow (b : HttpBuild) (ht : 0 < b.timeout) (script : List Served)
    (hs : ∀ s ∈ script, s.after = none) :
    ∃ tas, httpScriptTimed (newHTTPClient b) script = some tas ∧
      ∀ t ∈ tas, t = { out := .retryable 0, d1 := b.timeout, d2 := 0 } := by
  induction script with
  | nil => exact ⟨[], rfl, by simp⟩
  | cons s rest ih =>
    obtain ⟨tas, h1, h2⟩ := ih (fun x hx => hs x (List.mem_cons_of_mem _ hx))
    have hs0 := hs s List.mem_cons_self
    have : httpAttemptTimed (newHTTPClient b) s = some { out := .retryable 0, d1 := b.timeout, d2 := 0 } := by
      cases s with
      | mk o a => simp only at hs0; subst hs0; exact http_stalled_attempt_is_retryable b o ht
    refine ⟨{ out := .retryable 0, d1 := b.timeout, d2 := 0 } :: tas, by simp [httpScriptTimed, this, h1], ?_⟩
    intro x hx
    rcases List.mem_cons.mp hx with rfl | hx
    · rfl
    · exact h2 x hx

/-- ALWAYS SLOW GIVES UP, on every construction path: against a collector that never answers, with a positive client
timeout `T` and `MaxElapsedTime = M ≠ 0`, every attempt lasts exactly `T`, so at most `M/T + 1` requests are ever
sent — `(attempts − 1)·T ≤ M` — whatever the draws, the cancellation point and the construction options (and by
`http_export_returns_by_any_construction` the call is back by `M + maxBackoff + T`). -/
theorem http_always_slow_attempts_bounded (cfg : Config) (b : HttpBuild) (script : List Served) (bs : List Dur)
    (ca : Option (Nat × Dur)) (he : cfg.enabled = true) (hM : 0 < cfg.maxElapsed) (ht : 0 < b.timeout)
    (hs : ∀ s ∈ script, s.after = none) :
    ∃ r, httpExportTimed cfg b script bs ca = some r ∧
      ((r.attempts : Int) - 1) * b.timeout ≤ cfg.maxElapsed := by
  obtain ⟨tas, h1, h2⟩ := httpScriptTimed_allslow b ht script hs
  refine ⟨requestLoop cfg (timeline 0 tas bs) bs ca, by simp [httpExportTimed, h1], ?_⟩
  have hb := slow_attempts_bound cfg ca b.timeout ht tas 0 0 bs
    (fun t htm => by rw [h2 t htm]; simp [throttleOfOut]) (by omega)
  simp only [requestLoop, he, if_true]
  generalize ((loopFrom cfg ca 0 (timeline 0 tas bs) bs).attempts : Int) = A at hb ⊢
  rw [Int.sub_mul, Int.one_mul]
  generalize A * b.timeout = X at hb ⊢
  omega

/-! ### non-vacuity -/

/-- timeout 100 on a cloned transport (TLS + proxy): two slow requests, then 200 after 7 ns — three attempts at
model times 100, 100+5+100, …; delivered -/
example :
    httpExportTimed { enabled := true, initial := 10, maxInterval := 20, maxElapsed := 0 }
      { tls := true, proxy := true, timeout := 100 }
      [⟨.fatal, none⟩, ⟨.fatal, none⟩, ⟨.ok false, some 7⟩] [5, 8, 10] none =
      some { result := .returned (.ok false), attempts := 3, waits := [5, 8] } := by decide

/-- always slow, M = 400, timeout 120: attempts end at 120, 245, 373, 503 > M — gives up after the fourth;
return time 503 ≤ 400 + 31 + 120 -/
example :
    let cfg : Config := { enabled := true, initial := 10, maxInterval := 20, maxElapsed := 400 }
    let b : HttpBuild := { tls := false, proxy := true, timeout := 120 }
    let script : List Served := List.replicate 6 ⟨.fatal, none⟩
    httpExportTimed cfg b script [5, 8, 10, 10, 10, 10] none =
      some { result := .maxElapsed, attempts := 4, waits := [5, 8, 10] } ∧
    httpExportReturnTime cfg b script [5, 8, 10, 10, 10, 10] none = some 503 ∧
    backoffsOK cfg [5, 8, 10, 10, 10, 10] = true := by decide

/-- gRPC, supplied connection, timeout 150: one attempt, ended by the deadline -/
example :
    grpcStallExport { enabled := true, initial := 10, maxInterval := 20, maxElapsed := 0 } .waitsForExport
      { suppliedConn := true, dialOpts := 0, timeout := 150 } [5] =
      some { result := .cancelled, attempts := 1, waits := [5] } := by decide

end Otel.C14
