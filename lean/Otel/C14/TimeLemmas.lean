/-
C14 — helper lemmas for the quantitative ("how long", "how many attempts") theorems.
-/
import Otel.C14.Lemmas
namespace Otel.C14
open Otel Otel.C14 Otel.C14.Spec

theorem intervalAt_bounds (cfg : Config) (hI : 0 ≤ cfg.initial) (hM : 0 ≤ cfg.maxInterval) (i : Nat) :
    0 ≤ intervalAt cfg i ∧ intervalAt cfg i ≤ max cfg.initial cfg.maxInterval := by
  induction i with
  | zero => simp only [intervalAt]; omega
  | succ i ih =>
    simp only [intervalAt, nextInterval]
    split <;> split <;> omega

theorem intervalAt_ge (cfg : Config) (hI : 0 < cfg.initial) (hM : cfg.initial ≤ cfg.maxInterval) (i : Nat) :
    cfg.initial ≤ intervalAt cfg i := by
  induction i with
  | zero => simp only [intervalAt]; omega
  | succ i ih =>
    simp only [intervalAt, nextInterval]
    split <;> split <;> omega

/-- every draw allowed by the contract is at most `maxBackoff` -/
theorem backoffsOKFrom_le (cfg : Config) (hI : 0 ≤ cfg.initial) (hM : 0 ≤ cfg.maxInterval) (bs : List Dur) :
    ∀ i, backoffsOKFrom cfg i bs = true → ∀ b ∈ bs, b ≤ maxBackoff cfg := by
  induction bs with
  | nil => intro i _ b hb; cases hb
  | cons x rest ih =>
    intro i h b hb
    simp only [backoffsOKFrom, backoffInRange, Bool.and_eq_true, decide_eq_true_eq] at h
    rcases List.mem_cons.mp hb with rfl | hb
    · have := intervalAt_bounds cfg hI hM i
      simp only [maxBackoff]; omega
    · exact ih (i + 1) h.2 b hb

/-- … and, for `0 < InitialInterval ≤ MaxInterval`, at least `minBackoff` -/
theorem backoffsOKFrom_ge (cfg : Config) (hI : 0 < cfg.initial) (hM : cfg.initial ≤ cfg.maxInterval)
    (bs : List Dur) : ∀ i, backoffsOKFrom cfg i bs = true → ∀ b ∈ bs, minBackoff cfg ≤ b := by
  induction bs with
  | nil => intro i _ b hb; cases hb
  | cons x rest ih =>
    intro i h b hb
    simp only [backoffsOKFrom, backoffInRange, Bool.and_eq_true, decide_eq_true_eq] at h
    rcases List.mem_cons.mp hb with rfl | hb
    · have := intervalAt_ge cfg hI hM i
      simp only [minBackoff]; omega
    · exact ih (i + 1) h.2 b hb

theorem headD_le (bs : List Dur) (B : Dur) (h0 : 0 ≤ B) (hB : ∀ b ∈ bs, b ≤ B) : bs.headD 0 ≤ B := by
  cases bs with
  | nil => simpa using h0
  | cons b rest => simpa using hB b (List.mem_cons_self)

theorem tail_le (bs : List Dur) (B : Dur) (hB : ∀ b ∈ bs, b ≤ B) : ∀ b ∈ bs.tail, b ≤ B :=
  fun b hb => hB b (List.mem_of_mem_tail hb)

theorem loopFrom_waitsBounded (cfg : Config) (ca : Option (Nat × Dur)) (atts : List Attempt) :
    ∀ (k : Nat) (bs : List Dur), 0 ≤ maxBackoff cfg → (∀ b ∈ bs, b ≤ maxBackoff cfg) →
      waitsBounded cfg (atts.map (·.out)) (loopFrom cfg ca k atts bs) = true := by
  induction atts with
  | nil => intro k bs _ _; simp [loopFrom, waitsBounded]
  | cons a rest ih =>
    intro k bs h0 hB
    have hh := headD_le bs _ h0 hB
    have hh' : bs.head?.getD 0 ≤ maxBackoff cfg := by simpa using hh
    rcases loopFrom_cases cfg ca k a rest bs with ⟨_, hR⟩ | ⟨thr, ho, ⟨_, _, hR⟩ | ⟨_, _, _, hR⟩ | ⟨_, _, _, hR⟩ | ⟨_, _, _, hR⟩⟩
      <;> rw [hR] <;> try (simp [waitsBounded])
    · simp [ho, throttleOf]; omega
    · have := ih (k + 1) bs.tail h0 (tail_le bs _ hB)
      simp only [waitsBounded, List.all_eq_true] at this
      refine ⟨by simp [ho, throttleOf]; omega, ?_⟩
      intro w o hm
      simpa using this (w, o) hm

theorem loopFrom_waitsEndBy (cfg : Config) (ca : Option (Nat × Dur)) (atts : List Attempt) :
    ∀ (k : Nat) (bs : List Dur), 0 ≤ maxBackoff cfg → (∀ b ∈ bs, b ≤ maxBackoff cfg) →
      waitsEndBy cfg atts (loopFrom cfg ca k atts bs) = true := by
  induction atts with
  | nil => intro k bs _ _; simp [loopFrom, waitsEndBy]
  | cons a rest ih =>
    intro k bs h0 hB
    have hh := headD_le bs _ h0 hB
    have hh' : bs.head?.getD 0 ≤ maxBackoff cfg := by simpa using hh
    by_cases hM0 : cfg.maxElapsed = 0
    · simp [waitsEndBy, hM0]
    rcases loopFrom_cases cfg ca k a rest bs with ⟨_, hR⟩ | ⟨thr, ho, ⟨_, _, hR⟩ | ⟨_, _, _, hR⟩ | ⟨h1, h2, _, hR⟩ | ⟨h1, h2, _, hR⟩⟩
      <;> rw [hR] <;> try (simp [waitsEndBy])
    · right; simp [ho, throttleOf]; constructor <;> (try split) <;> omega
    · have := ih (k + 1) bs.tail h0 (tail_le bs _ hB)
      simp only [waitsEndBy, Bool.or_eq_true, beq_iff_eq, List.all_eq_true] at this
      right
      refine ⟨by simp [ho, throttleOf]; constructor <;> (try split) <;> omega, ?_⟩
      rcases this with h | h
      · exact absurd h hM0
      · intro w x hm; simpa using h (w, x) hm

theorem loopFrom_unlimited (cfg : Config) (ca : Option (Nat × Dur)) (hM : cfg.maxElapsed = 0)
    (atts : List Attempt) :
    ∀ (k : Nat) (bs : List Dur),
      (loopFrom cfg ca k atts bs).result ≠ .maxElapsed ∧ (loopFrom cfg ca k atts bs).result ≠ .wouldElapse := by
  induction atts with
  | nil => intro k bs; simp [loopFrom]
  | cons a rest ih =>
    intro k bs
    rcases loopFrom_cases cfg ca k a rest bs with ⟨_, hR⟩ | ⟨thr, ho, ⟨h, _, hR⟩ | ⟨_, h, _, hR⟩ | ⟨_, _, _, hR⟩ | ⟨_, _, _, hR⟩⟩
      <;> rw [hR] <;> try (simp)
    · exact absurd hM h
    · exact absurd hM h
    · exact ih (k + 1) bs.tail

/-- the script is only exhausted (`pending`) when it has no terminal outcome -/
theorem loopFrom_pending (cfg : Config) (ca : Option (Nat × Dur)) (atts : List Attempt) :
    ∀ (k : Nat) (bs : List Dur), (loopFrom cfg ca k atts bs).result = .pending →
      firstTerminal (atts.map (·.out)) = none := by
  induction atts with
  | nil => intro k bs _; simp [firstTerminal]
  | cons a rest ih =>
    intro k bs
    rcases loopFrom_cases cfg ca k a rest bs with ⟨_, hR⟩ | ⟨thr, ho, ⟨_, _, hR⟩ | ⟨_, _, _, hR⟩ | ⟨_, _, _, hR⟩ | ⟨_, _, _, hR⟩⟩
      <;> rw [hR] <;> try (simp)
    intro hp
    have := ih (k + 1) bs.tail hp
    simp [firstTerminal, ho, isRetryable, this]

theorem throttleOfOut_eq (o : Outcome) : throttleOfOut o = throttleOf o := by
  cases o <;> rfl

theorem timeline_cons (now : Dur) (t : Timed) (rest : List Timed) (bs : List Dur) :
    timeline now (t :: rest) bs =
      { out := t.out, e1 := now + t.d1, e2 := now + t.d1 + t.d2 } ::
        timeline (now + t.d1 + t.d2 + max (throttleOfOut t.out) (bs.headD 0)) rest bs.tail := rfl

/-- on the model's clock: (number of waits) · minBackoff ≤ max 0 (M − now + minBackoff) -/
theorem timeline_waits_bound (cfg : Config) (ca : Option (Nat × Dur)) (hM : cfg.maxElapsed ≠ 0)
    (hq : 0 < minBackoff cfg) (tas : List Timed) :
    ∀ (now : Dur) (k : Nat) (bs : List Dur), tas.length ≤ bs.length → (∀ b ∈ bs, minBackoff cfg ≤ b) →
      (∀ t ∈ tas, 0 ≤ t.d1 ∧ 0 ≤ t.d2 ∧ 0 ≤ throttleOfOut t.out) →
      ((loopFrom cfg ca k (timeline now tas bs) bs).waits.length : Int) * minBackoff cfg
        ≤ max 0 (cfg.maxElapsed - now + minBackoff cfg) := by
  induction tas with
  | nil => intro now k bs _ _ _; simp [timeline, loopFrom]; omega
  | cons t rest ih =>
    intro now k bs hlen hb ht
    have ht0 := ht t (List.mem_cons_self)
    cases bs with
    | nil => simp at hlen
    | cons b0 bt =>
      have hb0 : minBackoff cfg ≤ b0 := hb b0 (List.mem_cons_self)
      rw [timeline_cons]
      generalize hq' : minBackoff cfg = q at *
      generalize hth : throttleOfOut t.out = th at *
      simp only [List.headD_cons, List.tail_cons]
      have ih' := ih (now + t.d1 + t.d2 + max th b0) (k + 1) bt
        (by simp at hlen ⊢; omega) (fun b hbm => hb b (List.mem_cons_of_mem _ hbm))
        (fun x hx => ht x (List.mem_cons_of_mem _ hx))
      rcases loopFrom_cases cfg ca k { out := t.out, e1 := now + t.d1, e2 := now + t.d1 + t.d2 }
          (timeline (now + t.d1 + t.d2 + max th b0) rest bt) (b0 :: bt)
        with ⟨_, hR⟩ | ⟨thr, ho, ⟨_, _, hR⟩ | ⟨_, _, _, hR⟩ | ⟨h1, h2, _, hR⟩ | ⟨h1, h2, _, hR⟩⟩
        <;> rw [hR] <;> simp only [List.length_nil, List.length_cons] <;> try (simp; omega)
      · dsimp only at ho h1 h2
        have : th = thr := by rw [← hth, ho]; rfl
        subst this
        simp; omega
      · dsimp only at ho h1 h2
        have : th = thr := by rw [← hth, ho]; rfl
        subst this
        simp only [List.headD_cons, List.tail_cons]
        rw [Int.natCast_add, Int.add_mul]
        simp only [Int.natCast_one, Int.one_mul]
        generalize ((loopFrom cfg ca (k + 1) (timeline (now + t.d1 + t.d2 + max th b0) rest bt) bt).waits.length : Int) * q = X at ih' ⊢
        omega

/-- on the model's clock the call returns by `M + maxBackoff + D`, `D` bounding the duration of every attempt -/
theorem timeline_return_bound (cfg : Config) (ca : Option (Nat × Dur)) (hM : 0 < cfg.maxElapsed)
    (hB0 : 0 ≤ maxBackoff cfg) (D : Dur) (hD : 0 ≤ D) (tas : List Timed) :
    ∀ (now : Dur) (k : Nat) (bs : List Dur), now ≤ cfg.maxElapsed + maxBackoff cfg →
      (∀ b ∈ bs, b ≤ maxBackoff cfg) →
      (∀ t ∈ tas, 0 ≤ t.d1 ∧ 0 ≤ t.d2 ∧ t.d1 + t.d2 ≤ D ∧ 0 ≤ throttleOfOut t.out) →
      returnTimeFrom cfg ca k (timeline now tas bs) bs ≤ cfg.maxElapsed + maxBackoff cfg + D := by
  induction tas with
  | nil => intro now k bs _ _ _; simp [timeline, returnTimeFrom]; omega
  | cons t rest ih =>
    intro now k bs hnow hb ht
    have ht0 := ht t (List.mem_cons_self)
    have hh := headD_le bs _ hB0 hb
    rw [timeline_cons]
    generalize hBB : maxBackoff cfg = B at *
    generalize hth : throttleOfOut t.out = th at *
    have ih' := ih (now + t.d1 + t.d2 + max th (bs.headD 0)) (k + 1) bs.tail
    simp only [returnTimeFrom]
    cases hto : t.out with
    | ok p => simp only []; omega
    | fatal => simp only []; omega
    | retryable thr =>
      have : th = thr := by rw [← hth, hto]; rfl
      subst this
      simp only []
      split
      · omega
      · rename_i h1
        split
        · omega
        · rename_i h2
          have h2' : now + t.d1 + t.d2 + th ≤ cfg.maxElapsed := by omega
          split
          · rename_i hc
            simp only [waitCancelled] at hc
            cases hw : waitCtx ca k with
            | none => simp [hw] at hc
            | some c =>
              simp only [hw, decide_eq_true_eq] at hc
              simp only [Option.getD_some]
              omega
          · have ih'' := ih' (by omega) (tail_le bs _ hb) (fun x hx => ht x (List.mem_cons_of_mem _ hx))
            cases rest with
            | nil => simp only [timeline]; omega
            | cons t2 r2 =>
              rw [timeline_cons] at ih'' ⊢
              simp only [] 
              exact ih''

theorem completedOK_get (ca : Nat × Dur) (ws : List Dur) :
    ∀ k0, completedOK ca k0 ws = true → ∀ i w, ws[i]? = some w →
      (k0 + i < ca.1 ∨ w ≤ (if k0 + i = ca.1 then ca.2 else 0)) := by
  induction ws with
  | nil => intro k0 _ i w h; simp at h
  | cons x rest ih =>
    intro k0 h i w hw
    simp only [completedOK, Bool.and_eq_true, Bool.or_eq_true, decide_eq_true_eq] at h
    cases i with
    | zero => simp at hw; subst hw; simpa using h.1
    | succ i =>
      have := ih (k0 + 1) h.2 i w (by simpa using hw)
      have e : k0 + 1 + i = k0 + (i + 1) := by omega
      rwa [e] at this

theorem cancelledOK_get (ca : Nat × Dur) (ws : List Dur) :
    ∀ k0, cancelledOK ca k0 ws = true → ∀ i w, ws[i]? = some w → i + 1 < ws.length →
      (k0 + i < ca.1 ∨ w ≤ (if k0 + i = ca.1 then ca.2 else 0)) := by
  induction ws with
  | nil => intro k0 _ i w h; simp at h
  | cons x rest ih =>
    intro k0 h i w hw hlen
    cases rest with
    | nil => simp at hlen
    | cons y r2 =>
      rw [cancelledOK_cons2] at h
      simp only [Bool.and_eq_true, Bool.or_eq_true, decide_eq_true_eq] at h
      cases i with
      | zero => simp at hw; subst hw; simpa using h.1
      | succ i =>
        have := ih (k0 + 1) h.2 i w (by simpa using hw) (by simp at hlen ⊢; omega)
        have e : k0 + 1 + i = k0 + (i + 1) := by omega
        rwa [e] at this

theorem evLe_iff (a b : Nat × Dur) : evLe a b = true ↔ (a.1 < b.1 ∨ (a.1 = b.1 ∧ a.2 ≤ b.2)) := by
  simp [evLe]

theorem earlier_right_le (x : Option (Nat × Dur)) (e : Nat × Dur) :
    ∃ e', earlier x (some e) = some e' ∧ evLe e' e = true := by
  cases x with
  | none => exact ⟨e, rfl, by rw [evLe_iff]; omega⟩
  | some a =>
    simp only [earlier]
    by_cases h : evLe a e = true
    · exact ⟨a, by simp [h], h⟩
    · exact ⟨e, by simp [h], by rw [evLe_iff]; omega⟩

theorem earlier_left_le (e : Nat × Dur) (y : Option (Nat × Dur)) :
    ∃ e', earlier (some e) y = some e' ∧ evLe e' e = true := by
  cases y with
  | none => exact ⟨e, rfl, by rw [evLe_iff]; omega⟩
  | some b =>
    simp only [earlier]
    by_cases h : evLe e b = true
    · exact ⟨e, by simp [h], by rw [evLe_iff]; omega⟩
    · refine ⟨b, by simp [h], ?_⟩
      rw [evLe_iff] at h ⊢
      omega

/-- with the stop signal wired to the export context, that context is done no later than the stop signal —
whatever the client timeout, the caller and the deadline do -/
theorem exportCtxDone_le_stop (timeout : Dur) (caller deadline : Option (Nat × Dur)) (e : Nat × Dur) :
    ∃ e', exportCtxDone .cancelsExport timeout caller (some e) deadline = some e' ∧ evLe e' e = true := by
  simp only [exportCtxDone]
  obtain ⟨e1, h1, l1⟩ := earlier_left_le e (if timeout > 0 then deadline else none)
  rw [h1]
  obtain ⟨e2, h2, l2⟩ := earlier_right_le caller e1
  refine ⟨e2, h2, ?_⟩
  rw [evLe_iff] at l1 l2 ⊢
  omega
