/-
C14 — property theorems. `requestLoop` is the model of `retry.Config.RequestFunc` (all six copies),
`classifyHTTP` / `classifyGRPC` of the response handling + `evaluate` / `retryable` of the six clients,
`exportHTTP` / `exportGRPC` their composition. Every theorem quantifies over ALL collector outcome sequences,
clock readings, backoff values, configurations and cancellation points. The conclusions are the `Spec`
predicates that the driver evaluates on the observed behaviour of the real code.
-/
import Otel.C14.TimeLemmas
namespace Otel.C14
open Otel Otel.C14 Otel.C14.Spec

/-- "re-sends … only after a retryable outcome": every attempt but the last had a retryable outcome. -/
theorem retry_only_after_retryable (cfg : Config) (atts : List Attempt) (bs : List Dur)
    (ca : Option (Nat × Dur)) :
    onlyAfterRetryable (atts.map (·.out)) (requestLoop cfg atts bs ca) = true := by
  unfold requestLoop
  split
  · exact loopFrom_onlyAfterRetryable cfg ca atts 0 bs
  · cases atts <;> simp [onlyAfterRetryable]

/-- "stops at the first success or non-retryable outcome and reports it": no attempt is made past the first
terminal outcome (index `i`); when attempt `i` is reached the call returns exactly that outcome (nil for a
success, the error unchanged otherwise) after `i + 1` attempts; and nothing else is ever returned as `fn`'s own
result. -/
theorem retry_stops_at_first_terminal (cfg : Config) (atts : List Attempt) (bs : List Dur)
    (ca : Option (Nat × Dur)) (h : cfg.enabled = true) :
    stopsAtFirstTerminal (atts.map (·.out)) (requestLoop cfg atts bs ca) = true := by
  simp only [requestLoop, h, if_true]
  exact loopFrom_stopsAtFirstTerminal cfg ca atts 0 bs

/-- one wait after every attempt but the last; a cancelled call ends inside a wait. -/
theorem retry_wait_count (cfg : Config) (atts : List Attempt) (bs : List Dur) (ca : Option (Nat × Dur))
    (h : cfg.enabled = true) : waitCountOK (requestLoop cfg atts bs ca) = true := by
  simp only [requestLoop, h, if_true]
  exact loopFrom_waitCountOK cfg ca atts 0 bs

/-- every wait is at least the throttle value `evaluate` returned for the failure it follows. -/
theorem retry_wait_ge_throttle (cfg : Config) (atts : List Attempt) (bs : List Dur)
    (ca : Option (Nat × Dur)) :
    waitsHonourThrottle (atts.map (·.out)) (requestLoop cfg atts bs ca) = true := by
  unfold requestLoop
  split
  · exact loopFrom_waitsHonourThrottle cfg ca atts 0 bs
  · cases atts <;> simp [waitsHonourThrottle]

/-- gRPC: "never waits less than a server-supplied RetryInfo delay before the next attempt" — full statement. -/
theorem retry_wait_ge_throttle_grpc (cfg : Config) (xs : List (GrpcResp × Dur × Dur)) (bs : List Dur)
    (ca : Option (Nat × Dur)) :
    waitsHonourHint hintGRPC (xs.map (·.1)) (exportGRPC cfg xs bs ca) = true := by
  unfold exportGRPC requestLoop
  split
  · exact loopFrom_waitsHonourHint hintGRPC classifyGRPC cfg ca xs
      (fun x _ h t hh hc => grpc_hint_le_throttle x.1 h t hh hc) 0 bs
  · cases xs <;> simp [waitsHonourHint]

/-- F19: a retryable HTTP response whose `Retry-After` is a positive number of seconds. -/
abbrev F19_applies := Spec.F19_applies

/-- HTTP (known finding F19): `503` with `Retry-After: 10` (seconds) is followed by a wait of 10 ns + backoff:
the requested wait (here 10 ns, backoff 7 ns) is below the 10 s the server asked for. -/
theorem http_throttle_ignored_witness :
    let r : HttpResp := { net := .none, status := 503, retryAfter := some [49, 48], ctProto := false, body := .empty }
    let ok : HttpResp := { net := .none, status := 200, retryAfter := none, ctProto := false, body := .empty }
    let cfg : Config := { enabled := true, initial := 5, maxInterval := 5, maxElapsed := 0 }
    F19_applies r = true ∧ classifyHTTP r = .retryable 10 ∧ hintHTTP r = some 10000000000 ∧
    (exportHTTP cfg [(r, 0, 0), (ok, 0, 0)] [7] none).waits = [10] ∧
    waitsHonourHint hintHTTP [r, ok] (exportHTTP cfg [(r, 0, 0), (ok, 0, 0)] [7] none) = false := by
  decide

/-- HTTP, partial: when no response of the sequence is an F19 case (no positive `Retry-After` seconds on a
retryable status), every wait is at least the server's `Retry-After` delay. -/
theorem retry_wait_ge_throttle_http_partial (cfg : Config) (xs : List (HttpResp × Dur × Dur)) (bs : List Dur)
    (ca : Option (Nat × Dur)) (hF : ∀ x ∈ xs, ¬ (F19_applies x.1 = true)) :
    waitsHonourHint hintHTTP (xs.map (·.1)) (exportHTTP cfg xs bs ca) = true := by
  unfold exportHTTP requestLoop
  split
  · exact loopFrom_waitsHonourHint hintHTTP classifyHTTP cfg ca xs
      (fun x hx h t hh hc => http_hint_le_throttle x.1 (by simpa using hF x hx) h t hh hc) 0 bs
  · cases xs <;> simp [waitsHonourHint]

/-- the full HTTP statement, refuted on the current code by `http_throttle_ignored_witness` -/
def retry_wait_ge_throttle_http_full_statement : Prop :=
  ∀ (cfg : Config) (xs : List (HttpResp × Dur × Dur)) (bs : List Dur) (ca : Option (Nat × Dur)),
    waitsHonourHint hintHTTP (xs.map (·.1)) (exportHTTP cfg xs bs ca) = true

/-- "gives up … once the configured maximum elapsed time would be exceeded": with `MaxElapsedTime = M ≠ 0` no wait
(hence no further attempt) follows a failure after which `elapsed > M` or `elapsed + throttle > M` was read. -/
theorem retry_gives_up (cfg : Config) (atts : List Attempt) (bs : List Dur) (ca : Option (Nat × Dur)) :
    givesUp cfg atts (requestLoop cfg atts bs ca) = true := by
  unfold requestLoop
  split
  · exact loopFrom_givesUp cfg ca atts 0 bs
  · cases atts <;> simp [givesUp]

/-- "… or the context is cancelled or the exporter shut down, never blocks beyond that": the call ends with the
context error only when the context was cancelled, inside a wait whose timer had not fired, with no attempt
afterwards; a wait runs to its end under a (being-)cancelled context only if its timer was not later. -/
theorem retry_cancel (cfg : Config) (atts : List Attempt) (bs : List Dur) (ca : Option (Nat × Dur))
    (h : cfg.enabled = true) : cancelOK ca (requestLoop cfg atts bs ca) = true := by
  simp only [requestLoop, h, if_true]
  cases ca with
  | none =>
    have := loopFrom_cancelOK_none cfg atts 0 bs
    cases hr : (loopFrom cfg none 0 atts bs).result <;> simp_all [cancelOK]
  | some c =>
    have := loopFrom_cancelOK_some cfg c atts 0 bs
    cases hr : (loopFrom cfg (some c) 0 atts bs).result <;> simp_all [cancelOK]

/-- `wait`: context done strictly before the timer ⇒ the context error; otherwise nil (the timer wins ties). -/
theorem wait_ok (delay : Dur) (c : Option Dur) : waitOK delay c (waitCancelled delay c) = true := by
  cases c with
  | none => simp [waitOK, waitCancelled]
  | some c =>
    simp only [waitOK, waitCancelled]
    split
    · simpa
    · split <;> simp <;> omega

/-- `Enabled = false`: a single attempt whose result is returned unchanged. -/
theorem retry_disabled_single (cfg : Config) (a : Attempt) (rest : List Attempt) (bs : List Dur)
    (c : Option (Nat × Dur)) (h : cfg.enabled = false) :
    disabledSingle ((a :: rest).map (·.out)) (requestLoop cfg (a :: rest) bs c) = true := by
  simp [requestLoop, h, disabledSingle]

/-- all clauses about one export call with retry enabled, as evaluated by the oracle. -/
theorem retry_run_ok (cfg : Config) (atts : List Attempt) (bs : List Dur) (ca : Option (Nat × Dur))
    (h : cfg.enabled = true) : runOK cfg atts ca (requestLoop cfg atts bs ca) = true := by
  simp only [runOK, Bool.and_eq_true]
  exact ⟨⟨⟨⟨⟨retry_only_after_retryable cfg atts bs ca, retry_stops_at_first_terminal cfg atts bs ca h⟩,
    retry_wait_count cfg atts bs ca h⟩, retry_wait_ge_throttle cfg atts bs ca⟩,
    retry_gives_up cfg atts bs ca⟩, retry_cancel cfg atts bs ca h⟩

/-- HTTP classification: retryable ⇔ status ∈ {429, 502, 503, 504} or a temporary network error. -/
theorem retry_classification_http (r : HttpResp) :
    isRetryable (classifyHTTP r) = retryableHTTPRef r := by
  obtain ⟨net, status, ra, ct, body⟩ := r
  cases net
  · simp only [classifyHTTP, retryableHTTPRef, httpRetryStatuses]
    split
    · rename_i h2
      have : [429, 502, 503, 504].contains status = false := by
        simp; omega
      rw [this]
      cases body with
      | empty => rfl
      | garbage => cases ct <;> rfl
      | proto ps => cases ct <;> cases ps <;> rfl
    · split
      · rename_i hs
        simp only [retryStatus, Bool.or_eq_true, beq_iff_eq] at hs
        rcases hs with ((h | h) | h) | h <;> simp [h, isRetryable]
      · rename_i hs
        simp only [retryStatus, Bool.or_eq_true, beq_iff_eq, not_or] at hs
        simp [isRetryable]
        omega
  · simp [classifyHTTP, retryableHTTPRef, isRetryable]
  · simp [classifyHTTP, retryableHTTPRef, isRetryable]

/-- a success is only ever reported for a 2xx answer. -/
theorem ok_only_2xx (r : HttpResp) (h : isOk (classifyHTTP r) = true) :
    r.net = .none ∧ 200 ≤ r.status ∧ r.status ≤ 299 := by
  obtain ⟨net, status, ra, ct, body⟩ := r
  cases net <;> simp only [classifyHTTP] at h
  · split at h
    · rename_i h2; exact ⟨rfl, h2⟩
    · split at h <;> simp [isOk] at h
  · simp [isOk] at h
  · simp [isOk] at h

/-- gRPC classification: Canceled, DeadlineExceeded, Aborted, OutOfRange, Unavailable, DataLoss always;
ResourceExhausted iff the status carries RetryInfo; every other code never. -/
theorem retry_classification_grpc (r : GrpcResp) (h0 : r.code ≠ 0) :
    isRetryable (classifyGRPC r) = retryableGRPCRef r := by
  obtain ⟨code, ds, p⟩ := r
  simp only at h0
  simp only [classifyGRPC, retryableGRPC, retryableGRPCRef, grpcAlwaysRetry]
  have h00 : (code == 0) = false := by simpa using h0
  simp only [h00, Bool.false_eq_true, if_false]
  by_cases h1 : (code == 1 || code == 4 || code == 10 || code == 11 || code == 14 || code == 15) = true
  · simp only [h1, if_true, isRetryable]
    simp only [Bool.or_eq_true, beq_iff_eq] at h1
    rcases h1 with ((((h | h) | h) | h) | h) | h <;> simp [h]
  · simp only [h1, Bool.false_eq_true, if_false]
    simp only [Bool.or_eq_true, beq_iff_eq, not_or] at h1
    have hc : [1, 4, 10, 11, 14, 15].contains code = false := by
      simp; omega
    rw [hc]
    by_cases h8 : code = 8
    · subst h8
      have := throttleDelay_fst ds
      rw [← Prod.eta (throttleDelay ds)]
      cases hb : (throttleDelay ds).1 <;> simp [hb, isRetryable] at this ⊢ <;> exact this
    · have : (code == 8) = false := by simpa using h8
      simp [this, isRetryable]

/-- a nil error / code OK is a success. -/
theorem grpc_ok (r : GrpcResp) (h : r.code = 0) : classifyGRPC r = .ok r.partialReported := by
  simp [classifyGRPC, h]

/-- "treats a success carrying a partial-success message as delivered while reporting the rejection to the error
handler": a 2xx protobuf answer with a partial-success field is the outcome `ok reported` with
`reported ⇔ rejected ≠ 0 ∨ message ≠ ""` (HTTP); code OK is `ok` with the same flag (gRPC); and `requestLoop`
returns the first terminal outcome unchanged (`retry_stops_at_first_terminal`), i.e. nil. -/
theorem partial_success_is_delivered (r : HttpResp) :
    partialDeliveredHTTP r (classifyHTTP r) = true := by
  obtain ⟨net, status, ra, ct, body⟩ := r
  cases net
  · cases body with
    | empty => rfl
    | garbage => rfl
    | proto ps =>
      cases ps with
      | none => rfl
      | some q =>
        obtain ⟨n, m⟩ := q
        simp only [partialDeliveredHTTP]
        by_cases h : 200 ≤ status ∧ status ≤ 299 ∧ ct = true
        · rw [if_pos h]; simp [classifyHTTP, h.1, h.2.1, h.2.2]
        · rw [if_neg h]
  · rfl
  · rfl

/-- the whole classification oracle holds of the model (HTTP, apart from the F19 throttle clause). -/
theorem class_http_ok (r : HttpResp) : classHTTPOK r (classifyHTTP r) = true := by
  simp only [classHTTPOK, Bool.and_eq_true]
  refine ⟨⟨by simp [retry_classification_http], ?_⟩, partial_success_is_delivered r⟩
  cases h : isOk (classifyHTTP r)
  · simp
  · have := ok_only_2xx r h
    simp [this.1, this.2.1, this.2.2]

/-- the whole classification oracle holds of the model (gRPC, including the RetryInfo throttle clause). -/
theorem class_grpc_ok (r : GrpcResp) : classGRPCOK r (classifyGRPC r) = true := by
  simp only [classGRPCOK, Bool.and_eq_true]
  by_cases h0 : r.code = 0
  · have := grpc_ok r h0
    refine ⟨⟨⟨?_, ?_⟩, ?_⟩, ?_⟩
    · simp [this, isRetryable, retryableGRPCRef, grpcAlwaysRetry, h0]
    · simp [this, isOk, h0]
    · simp [this]
    · rw [this]; cases hintGRPC r <;> rfl
  · refine ⟨⟨⟨by simp [retry_classification_grpc r h0], ?_⟩, by simp [h0]⟩, ?_⟩
    · have : (r.code == 0) = false := by simpa using h0
      simp only [classifyGRPC, this, Bool.false_eq_true, if_false]
      split <;> simp [isOk]
    · cases hh : hintGRPC r with
      | none => simp [throttleHonoursHint]
      | some h =>
        cases hc : classifyGRPC r with
        | retryable t => simpa [throttleHonoursHint] using grpc_hint_le_throttle r h t hh hc
        | ok p => simp [throttleHonoursHint]
        | fatal => simp [throttleHonoursHint]

/-! ### how long, how often ("never blocks beyond that", quantitatively) -/

/-- every requested wait is the server's throttle or at most `maxBackoff = 1.5·max(Initial, MaxInterval) + 1`,
for every draw sequence allowed by the backoff contract. -/
theorem retry_waits_bounded (cfg : Config) (atts : List Attempt) (bs : List Dur) (ca : Option (Nat × Dur))
    (hI : 0 ≤ cfg.initial) (hMI : 0 ≤ cfg.maxInterval) (hbs : backoffsOK cfg bs = true) :
    waitsBounded cfg (atts.map (·.out)) (requestLoop cfg atts bs ca) = true := by
  have hB0 : 0 ≤ maxBackoff cfg := by simp only [maxBackoff]; omega
  unfold requestLoop
  split
  · exact loopFrom_waitsBounded cfg ca atts 0 bs hB0 (backoffsOKFrom_le cfg hI hMI bs 0 hbs)
  · cases atts <;> simp [waitsBounded]

/-- with `MaxElapsedTime = M ≠ 0`: every wait STARTS while `elapsed + throttle ≤ M` and ENDS — the next attempt
starts — at `elapsed ≤ M + max 0 (maxBackoff − throttle)`: what the code guarantees is "at most one backoff draw
past `M`", because only the throttle, not the backoff, is compared with `M` before waiting. -/
theorem retry_wait_ends_by (cfg : Config) (atts : List Attempt) (bs : List Dur) (ca : Option (Nat × Dur))
    (hI : 0 ≤ cfg.initial) (hMI : 0 ≤ cfg.maxInterval) (hbs : backoffsOK cfg bs = true) :
    waitsEndBy cfg atts (requestLoop cfg atts bs ca) = true := by
  have hB0 : 0 ≤ maxBackoff cfg := by simp only [maxBackoff]; omega
  unfold requestLoop
  split
  · exact loopFrom_waitsEndBy cfg ca atts 0 bs hB0 (backoffsOKFrom_le cfg hI hMI bs 0 hbs)
  · cases atts <;> simp [waitsEndBy]

/-- `MaxElapsedTime = 0` ("retry until the context is done"): the call ends only by a success, a non-retryable
outcome, or the context/stop — never for lack of time. -/
theorem retry_unlimited_ends_only (cfg : Config) (atts : List Attempt) (bs : List Dur)
    (ca : Option (Nat × Dur)) : unlimitedOK cfg (requestLoop cfg atts bs ca) = true := by
  by_cases hM : cfg.maxElapsed = 0
  · unfold requestLoop
    split
    · have := loopFrom_unlimited cfg ca hM atts 0 bs
      simp [unlimitedOK, hM, this.1, this.2]
    · cases atts <;> simp [unlimitedOK]
  · simp [unlimitedOK, hM]

/-- … and without cancellation it goes on until the first terminal outcome, however far that is: it is reached
and returned after index + 1 attempts. -/
theorem retry_unlimited_reaches_terminal (cfg : Config) (atts : List Attempt) (bs : List Dur) (i : Nat)
    (he : cfg.enabled = true) (hM : cfg.maxElapsed = 0)
    (hi : firstTerminal (atts.map (·.out)) = some i) :
    (requestLoop cfg atts bs none).result = .returned ((atts.map (·.out)).getD i .fatal) ∧
    (requestLoop cfg atts bs none).attempts = i + 1 := by
  have hs := retry_stops_at_first_terminal cfg atts bs none he
  simp only [requestLoop, he, if_true] at hs ⊢
  have hu := loopFrom_unlimited cfg none hM atts 0 bs
  have hc := loopFrom_cancelOK_none cfg atts 0 bs
  have hp := loopFrom_pending cfg none atts 0 bs
  generalize loopFrom cfg none 0 atts bs = r at *
  cases hr : r.result with
  | returned o =>
    simp only [stopsAtFirstTerminal, hi, hr] at hs
    simp at hs
    obtain ⟨⟨_, h2⟩, h3, _, _⟩ := hs
    have : r.attempts = i + 1 := by omega
    refine ⟨?_, this⟩
    rcases h2 with h2 | h2
    · exact absurd this h2
    · rw [h2]; simp
  | maxElapsed => exact absurd hr hu.1
  | wouldElapse => exact absurd hr hu.2
  | cancelled => exact absurd hr hc
  | pending => have := hp hr; rw [hi] at this; cases this

/-- … and a script without a terminal outcome is retried to its end ("forever"). -/
theorem retry_unlimited_never_gives_up (cfg : Config) (atts : List Attempt) (bs : List Dur)
    (he : cfg.enabled = true) (hM : cfg.maxElapsed = 0)
    (hi : firstTerminal (atts.map (·.out)) = none) :
    (requestLoop cfg atts bs none).result = .pending := by
  have hs := retry_stops_at_first_terminal cfg atts bs none he
  simp only [requestLoop, he, if_true] at hs ⊢
  have hu := loopFrom_unlimited cfg none hM atts 0 bs
  have hc := loopFrom_cancelOK_none cfg atts 0 bs
  generalize loopFrom cfg none 0 atts bs = r at *
  cases hr : r.result with
  | returned o => simp [stopsAtFirstTerminal, hi, hr] at hs
  | maxElapsed => exact absurd hr hu.1
  | wouldElapse => exact absurd hr hu.2
  | cancelled => exact absurd hr hc
  | pending => rfl

/-- the time clauses evaluated by the oracle on every line. -/
theorem retry_time_ok (cfg : Config) (atts : List Attempt) (bs : List Dur) (ca : Option (Nat × Dur))
    (hI : 0 ≤ cfg.initial) (hMI : 0 ≤ cfg.maxInterval) (hbs : backoffsOK cfg bs = true) :
    timeOK cfg atts (requestLoop cfg atts bs ca) = true := by
  simp only [timeOK, Bool.and_eq_true]
  exact ⟨⟨retry_waits_bounded cfg atts bs ca hI hMI hbs, retry_wait_ends_by cfg atts bs ca hI hMI hbs⟩,
    retry_unlimited_ends_only cfg atts bs ca⟩

/-- RETURN TIME on the model's own clock (attempts take `d1 + d2`, waits exactly their delay; `timeline`): with
`0 < M`, no negative throttle, any draws allowed by the contract and any cancellation, the call returns at
elapsed `≤ M + maxBackoff + D`, `D` = the longest attempt — i.e. at most one backoff draw and one attempt past
`MaxElapsedTime`. -/
theorem retry_returns_by (cfg : Config) (tas : List Timed) (bs : List Dur) (ca : Option (Nat × Dur)) (D : Dur)
    (hM : 0 < cfg.maxElapsed) (hI : 0 ≤ cfg.initial) (hMI : 0 ≤ cfg.maxInterval)
    (hbs : backoffsOK cfg bs = true)
    (ht : ∀ t ∈ tas, 0 ≤ t.d1 ∧ 0 ≤ t.d2 ∧ t.d1 + t.d2 ≤ D ∧ 0 ≤ throttleOfOut t.out) (hD : 0 ≤ D) :
    returnTimeFrom cfg ca 0 (timeline 0 tas bs) bs ≤ cfg.maxElapsed + maxBackoff cfg + D := by
  have hB0 : 0 ≤ maxBackoff cfg := by simp only [maxBackoff]; omega
  exact timeline_return_bound cfg ca hM hB0 D hD tas 0 0 bs (by omega)
    (backoffsOKFrom_le cfg hI hMI bs 0 hbs) ht

/-- NUMBER OF ATTEMPTS on the model's clock: with `0 < M`, `0 < InitialInterval/2`, `InitialInterval ≤ MaxInterval`,
no negative throttle, `(attempts − 2) · (InitialInterval/2) ≤ M`, i.e.
`attempts ≤ M / (InitialInterval·(1 − RandomizationFactor)) + 2`: "retries forever" is impossible. -/
theorem retry_attempts_bounded (cfg : Config) (tas : List Timed) (bs : List Dur) (ca : Option (Nat × Dur))
    (he : cfg.enabled = true) (hbs : backoffsOK cfg bs = true) (hlen : tas.length ≤ bs.length)
    (ht : ∀ t ∈ tas, 0 ≤ t.d1 ∧ 0 ≤ t.d2 ∧ 0 ≤ throttleOfOut t.out) :
    attemptsBounded cfg (tas.map (·.out)) (requestLoop cfg (timeline 0 tas bs) bs ca) = true := by
  simp only [attemptsBounded, Bool.or_eq_true, Bool.not_eq_true', Bool.and_eq_false_iff, decide_eq_true_eq]
  by_cases hM : 0 < cfg.maxElapsed
  · by_cases hq : 0 < minBackoff cfg
    · by_cases hIM : cfg.initial ≤ cfg.maxInterval
      · right
        have hI : 0 < cfg.initial := by simp only [minBackoff] at hq; omega
        have hw := timeline_waits_bound cfg ca (by omega) hq tas 0 0 bs hlen
          (backoffsOKFrom_ge cfg hI hIM bs 0 hbs) ht
        have hc := retry_wait_count cfg (timeline 0 tas bs) bs ca he
        simp only [requestLoop, he, if_true] at hc ⊢
        generalize loopFrom cfg ca 0 (timeline 0 tas bs) bs = r at hw hc ⊢
        have hA : (r.attempts : Int) ≤ (r.waits.length : Int) + 1 := by
          simp only [waitCountOK] at hc
          cases hr : r.result <;> simp [hr] at hc <;> omega
        have h1 : ((r.attempts : Int) - 2) * minBackoff cfg ≤ ((r.waits.length : Int) - 1) * minBackoff cfg :=
          Int.mul_le_mul_of_nonneg_right (by omega) (by omega)
        generalize hX : (r.waits.length : Int) * minBackoff cfg = X at hw
        generalize hY : ((r.attempts : Int) - 2) * minBackoff cfg = Y at h1 ⊢
        rw [Int.sub_mul, Int.one_mul, hX] at h1
        omega
      · left; left; right; simpa using hIM
    · left; left; left; right; simpa using hq
  · left; left; left; left; simpa using hM

/-- DEADLINE / cancellation, quantitatively: once the context is done (`c` ns into wait `j`) no time is spent
waiting any more — every later wait that still ran to its end had a non-positive delay, wait `j` itself ran to
its end only if its timer was not later than the cancellation, and (`retry_cancel`) the wait that is cut returns
at that instant with no attempt afterwards. So the call returns no later than the deadline or the end of the
attempt in flight at the deadline. -/
theorem retry_no_blocking_after_cancel (cfg : Config) (atts : List Attempt) (bs : List Dur) (j : Nat) (c : Dur)
    (he : cfg.enabled = true) (i : Nat) (w : Dur)
    (hw : (requestLoop cfg atts bs (some (j, c))).waits[i]? = some w) (hji : j ≤ i)
    (hdone : (requestLoop cfg atts bs (some (j, c))).result ≠ .cancelled ∨
             i + 1 < (requestLoop cfg atts bs (some (j, c))).waits.length) :
    w ≤ (if i = j then c else 0) := by
  have hc := retry_cancel cfg atts bs (some (j, c)) he
  generalize requestLoop cfg atts bs (some (j, c)) = r at *
  simp only [cancelOK] at hc
  cases hr : r.result <;> simp only [hr] at hc
  case cancelled =>
    rcases hdone with h | h
    · exact absurd hr h
    · have := cancelledOK_get (j, c) r.waits 0 hc i w hw h
      simp only [Nat.zero_add] at this
      rcases this with h | h
      · omega
      · exact h
  all_goals
    have := completedOK_get (j, c) r.waits 0 hc i w hw
    simp only [Nat.zero_add] at this
    rcases this with h | h
    · omega
    · exact h

/-! ### shutdown: the stop signal and the client timeout -/

/-- the export context of a client whose Stop is wired to it (`cancelsExport`: the two trace clients) is done NO
LATER than the stop signal, for EVERY client timeout (`timeout` only decides whether there is a deadline event; no
stop-related clause reads it), every caller context and every deadline. -/
theorem stop_signal_reaches_export_ctx_any_timeout (timeout : Dur) (caller deadline : Option (Nat × Dur))
    (e : Nat × Dur) :
    ∃ e', exportCtxDone .cancelsExport timeout caller (some e) deadline = some e' ∧ evLe e' e = true :=
  exportCtxDone_le_stop timeout caller deadline e

/-- after Stop's signal (`c ≥ 0` ns into wait `j`) a pending export ends with the stop/context error regardless of
the configured timeout: if every wait from `j` on is a real one (longer than the time to the signal — e.g. a
back-off), then wait `j` is the last, it is cut short (`cancelled`: the error wraps the context error), and no
attempt is made after it. -/
theorem stop_cancels_pending_export_any_timeout (cfg : Config) (timeout : Dur) (atts : List Attempt)
    (bs : List Dur) (caller deadline : Option (Nat × Dur)) (j : Nat) (c : Dur)
    (he : cfg.enabled = true) (hc : 0 ≤ c)
    (hreal : ∀ i w, (exportRun cfg .cancelsExport timeout atts bs caller (some (j, c)) deadline).waits[i]? = some w →
      j ≤ i → (if i = j then c else 0) < w) :
    let r := exportRun cfg .cancelsExport timeout atts bs caller (some (j, c)) deadline
    r.waits.length ≤ j + 1 ∧ r.attempts ≤ j + 1 ∧ (r.waits.length = j + 1 → r.result = .cancelled) := by
  obtain ⟨⟨j', c'⟩, hca, hle⟩ := exportCtxDone_le_stop timeout caller deadline (j, c)
  rw [evLe_iff] at hle
  simp only at hle
  simp only [exportRun, hca] at hreal ⊢
  have hcount := retry_wait_count cfg atts bs (some (j', c')) he
  have hnb := fun i w h1 h2 h3 => retry_no_blocking_after_cancel cfg atts bs j' c' he i w h1 h2 h3
  generalize requestLoop cfg atts bs (some (j', c')) = r at *
  -- wait `j` cannot have run to its end
  have hj : ∀ w, r.waits[j]? = some w → (r.result ≠ .cancelled ∨ j + 1 < r.waits.length) → False := by
    intro w hw hd
    have h1 := hnb j w hw (by omega) hd
    have h2 := hreal j w hw (Nat.le_refl j)
    simp only [if_true] at h2
    split at h1 <;> omega
  have hlen : r.waits.length ≤ j + 1 := by
    by_cases h : j + 1 < r.waits.length
    · have hw : r.waits[j]? = some (r.waits[j]'(by omega)) := List.getElem?_eq_getElem (by omega)
      exact absurd (hj _ hw (Or.inr h)) id
    · omega
  have hcanc : r.waits.length = j + 1 → r.result = .cancelled := by
    intro hl
    by_cases hr : r.result = .cancelled
    · exact hr
    · have hw : r.waits[j]? = some (r.waits[j]'(by omega)) := List.getElem?_eq_getElem (by omega)
      exact absurd (hj _ hw (Or.inl hr)) id
  refine ⟨hlen, ?_, hcanc⟩
  simp only [waitCountOK] at hcount
  cases hr : r.result with
  | cancelled => simp [hr] at hcount; omega
  | pending =>
    simp [hr] at hcount
    by_cases hl : r.waits.length = j + 1
    · have := hcanc hl; rw [hr] at this; cases this
    · omega
  | returned o =>
    simp [hr] at hcount
    by_cases hl : r.waits.length = j + 1
    · have := hcanc hl; rw [hr] at this; cases this
    · omega
  | maxElapsed =>
    simp [hr] at hcount
    by_cases hl : r.waits.length = j + 1
    · have := hcanc hl; rw [hr] at this; cases this
    · omega
  | wouldElapse =>
    simp [hr] at hcount
    by_cases hl : r.waits.length = j + 1
    · have := hcanc hl; rw [hr] at this; cases this
    · omega

/-- the `shut` scenario on the model: for the wiring of the two trace clients the clause holds for every timeout
configuration, gRPC or HTTP. -/
theorem shutdown_ok_when_stop_cancels (grpc : Bool) (timeout : Dur) :
    shutdownOK (shutdownSeen .cancelsExport grpc timeout) = true := by
  obtain ⟨⟨j', c'⟩, hca, hle⟩ := exportCtxDone_le_stop timeout none
    (if grpc then some (0, timeout) else none) (0, 105000000)
  rw [evLe_iff] at hle
  simp only at hle
  have hj : j' = 0 := by omega
  subst hj
  simp only [shutdownOK, shutdownSeen, hca]
  have : c' ≤ 2000000000 := by omega
  simp [this]

/-- candidate finding (exporter-level Shutdown of otlpmetrichttp, otlpmetricgrpc, otlploggrpc, otlploghttp): the stop
signal never reaches the export context, so with no client timeout and `MaxElapsedTime = 0` an export in back-off is
not ended by Shutdown at all — it goes on through the whole script — and the `shut` clause fails. -/
theorem shutdown_does_not_interrupt_witness :
    let cfg : Config := { enabled := true, initial := 3600000000000, maxInterval := 3600000000000, maxElapsed := 0 }
    let atts : List Attempt := [⟨.retryable 0, 1, 1⟩, ⟨.retryable 0, 2, 2⟩, ⟨.retryable 0, 3, 3⟩]
    exportCtxDone .waitsForExport 0 none (some (0, 0)) none = none ∧
    exportCtxDone .detaches 0 none (some (0, 0)) none = none ∧
    (exportRun cfg .waitsForExport 0 atts [1800000000000, 1800000000000, 1800000000000] none (some (0, 0)) none).result
      = .pending ∧
    (exportRun cfg .cancelsExport 0 atts [1800000000000, 1800000000000, 1800000000000] none (some (0, 0)) none)
      = { result := .cancelled, attempts := 1, waits := [1800000000000] } ∧
    shutdownOK (shutdownSeen .waitsForExport true 0) = false ∧
    shutdownOK (shutdownSeen .detaches false 10000000000) = false ∧
    FShut_applies .waitsForExport = true ∧ FShut_applies .detaches = true ∧ FShut_applies .cancelsExport = false := by
  decide

/-- the full clause for all six exporters, refuted on the current code by `shutdown_does_not_interrupt_witness` -/
def shutdown_ends_pending_export_full_statement : Prop :=
  ∀ (w : StopWiring) (grpc : Bool) (timeout : Dur), shutdownOK (shutdownSeen w grpc timeout) = true

/-! ### non-vacuity: the hypotheses are satisfiable and the conclusions are about non-trivial runs -/

/-- three attempts (503 with throttle, Unavailable-like retry, then success), two waits ≥ throttle -/
example :
    requestLoop { enabled := true, initial := 5, maxInterval := 5, maxElapsed := 100 }
      [⟨.retryable 9, 1, 2⟩, ⟨.retryable 0, 20, 21⟩, ⟨.ok true, 30, 30⟩, ⟨.fatal, 0, 0⟩] [4, 6] none
    = { result := .returned (.ok true), attempts := 3, waits := [9, 6] } := by decide

/-- gives up: elapsed + throttle would exceed MaxElapsedTime -/
example :
    requestLoop { enabled := true, initial := 5, maxInterval := 5, maxElapsed := 100 }
      [⟨.retryable 9, 1, 2⟩, ⟨.retryable 80, 20, 21⟩, ⟨.ok false, 30, 30⟩] [4, 6] none
    = { result := .wouldElapse, attempts := 2, waits := [9] } := by decide

/-- cancelled 3 ns into the second wait (delay 6) -/
example :
    requestLoop { enabled := true, initial := 5, maxInterval := 5, maxElapsed := 0 }
      [⟨.retryable 9, 1, 2⟩, ⟨.retryable 0, 20, 21⟩, ⟨.ok false, 30, 30⟩] [4, 6] (some (1, 3))
    = { result := .cancelled, attempts := 2, waits := [9, 6] } := by decide

/-- ResourceExhausted with RetryInfo is retried with its delay, without it is fatal; a non-F19 HTTP case -/
example : classifyGRPC ⟨8, [.other, .retryInfo 7], false⟩ = .retryable 7 ∧ classifyGRPC ⟨8, [.other], false⟩ = .fatal ∧
    F19_applies ⟨.none, 503, some [48], false, .empty⟩ = false ∧
    classifyHTTP ⟨.none, 200, none, true, .proto (some (3, false))⟩ = .ok true := by decide

/-- model clock: M = 100, Initial = Max = 10 (draws 5..16), attempts of 30 ns: two waits, the second one runs past M
(starts at 79, ends at 95+…), third attempt ends after M and the call gives up at 125 ≤ 100 + 16 + 30 -/
example :
    let cfg : Config := { enabled := true, initial := 10, maxInterval := 10, maxElapsed := 100 }
    let tas : List Timed := [⟨.retryable 0, 30, 0⟩, ⟨.retryable 0, 30, 0⟩, ⟨.retryable 0, 30, 0⟩, ⟨.ok false, 30, 0⟩]
    backoffsOK cfg [9, 16, 5, 5] = true ∧
    requestLoop cfg (timeline 0 tas [9, 16, 5, 5]) [9, 16, 5, 5] none
      = { result := .maxElapsed, attempts := 3, waits := [9, 16] } ∧
    returnTimeFrom cfg none 0 (timeline 0 tas [9, 16, 5, 5]) [9, 16, 5, 5] = 115 ∧
    attemptsBounded cfg (tas.map (·.out)) (requestLoop cfg (timeline 0 tas [9, 16, 5, 5]) [9, 16, 5, 5] none) = true ∧
    maxBackoff cfg = 16 ∧ minBackoff cfg = 5 := by decide

end Otel.C14
