/-
C14 driver: replays every trace line on the model and evaluates the Spec oracle on the OBSERVED result.
Line kinds (see the harness files for the exact grammar): loop, wait (internal/retry packages);
clsh, uph (HTTP clients); clsg, upg (gRPC clients); e2e14 (real exporters against in-process collectors).
-/
import Otel.C14.Spec
open Otel Otel.Wire Otel.C14

namespace Otel.C14.Drv

def optList (s : String) (c : Char) : List String := if s == "-" then [] else (s.splitOn (String.singleton c))

def allSome {α : Type} : List (Option α) → Option (List α)
  | [] => some []
  | none :: _ => none
  | some a :: r => (allSome r).map (a :: ·)

/-- script item `o | f | r<thr>` with an optional `@sleep` suffix -/
def parseItem (s : String) : Option Outcome :=
  let core := (s.splitOn "@").headD ""
  match core.toList with
  | ['o'] => some (.ok false)
  | ['f'] => some .fatal
  | 'r' :: rest => (String.ofList rest).toInt?.map .retryable
  | _ => none

def parseCancel (s : String) : Option (Option (Nat × Dur)) :=
  if s == "-" then some none
  else match s.splitOn ":" with
    | [j, c] => match j.toNat?, c.toInt? with
      | some j, some c => some (some (j, c))
      | _, _ => none
    | _ => none

def parseBounds (s : String) : Option (List (Dur × Dur)) :=
  allSome ((optList s ',').map (fun t => match t.splitOn ":" with
    | [a, b] => match a.toInt?, b.toInt? with
      | some a, some b => some (a, b)
      | _, _ => none
    | _ => none))

def parseInts (s : String) : Option (List Int) := allSome ((optList s ',').map (·.toInt?))

def resName : Result → String
  | .returned (.ok _) => "ok"
  | .returned .fatal => "fatal"
  | .returned (.retryable _) => "retry"
  | .maxElapsed => "elapsed"
  | .wouldElapse => "would"
  | .cancelled => "cancel"
  | .pending => "pending"

/-- observed result token → Result, given the outcome of the last attempt made -/
def resOf (tok : String) (last : Outcome) : Option Result :=
  match tok with
  | "ok" => some (.returned (match last with | .ok p => .ok p | _ => .ok false))
  | "fatal" => some (.returned .fatal)
  | "retry" => some (.returned (.retryable (Spec.throttleOf last)))
  | "elapsed" => some .maxElapsed
  | "would" => some .wouldElapse
  | "cancel" => some .cancelled
  | _ => none

def mkAttempts (outs : List Outcome) (es : List Dur) : List Attempt :=
  outs.zipIdx.map (fun (o, i) => let e := es.getD i (es.getLastD 0); { out := o, e1 := e, e2 := e })

def bOK (b : Bool) : String := if b then "ok" else "FAIL"

/-- every observable backoff value lies in the cenkalti/backoff contract range (`delay > throttle` ⇒ the delay IS
the backoff; `delay = throttle` ⇒ the backoff was at most the throttle, so the range's lower end must be too) -/
def backoffContract (cfg : Config) (outs : List Outcome) (delays : List Dur) : Bool :=
  ((delays.zip outs).zipIdx).all (fun ((d, o), i) =>
    let thr := Spec.throttleOf o
    let cur := intervalAt cfg i
    if d > thr then backoffInRange cur d else decide (d = thr) && decide (cur - 1 ≤ 2 * thr))

/-- `@<sleep µs>` suffix of a script item, in ns (0 if absent) -/
def sleepOf (s : String) : Int :=
  match s.splitOn "@" with
  | [_, us] => (us.toInt?.getD 0) * 1000
  | _ => 0

/-- wall-clock sanity of a loop line; upper bounds carry 2 s of slack and are never tight.
(a) real waits only: the next attempt returned no earlier than `delay` after the failure (timers never fire early)
    and no later than `delay + its own sleep + 2 s` after the wait was entered;
(b) `retry_returns_by` on the wall clock: with `0 < M`, sane intervals and no negative throttle the whole call took
    at most `M + maxBackoff + longest scripted sleep + 2 s`. -/
def wallOK (cfg : Config) (real : Bool) (outs : List Outcome) (sleeps : List Int) (natt : Nat)
    (delays : List Int) (bounds : List (Int × Int)) (total : Option Int) : Bool :=
  let slack : Int := 2000000000
  let stepOK := !real ||
    (List.range (natt - 1)).all (fun i =>
      match delays[i]?, bounds[i]?, bounds[i + 1]? with
      | some w, some (lo, hi), some (lo', _) =>
        decide (lo' - lo ≥ w) && decide (lo' - hi ≤ max w 0 + sleeps.getD (i + 1) 0 + slack)
      | _, _, _ => true)
  let totalOK := match total with
    | none => true
    | some t =>
      !(decide (0 < cfg.maxElapsed) && decide (0 ≤ cfg.initial) && decide (0 ≤ cfg.maxInterval) &&
        (outs.take natt).all (fun o => decide (0 ≤ Spec.throttleOf o))) ||
      decide (t ≤ cfg.maxElapsed + maxBackoff cfg + (sleeps.foldl max 0) + slack)
  stepOK && totalOK

def loopLine (inp obs : List String) : Option Verdict :=
  match inp, obs with
  | [_, _, wmode, en, ini, mi, me, cancel, script], res :: natt :: delays :: elapsed :: g :: p :: tTok => do
    let total : Option Int := (tTok.head?).bind (fun t => (t.drop 1).toString.toInt?)
    let sleeps := (script.splitOn ",").map sleepOf
    let ini ← ini.toInt?
    let mi ← mi.toInt?
    let me ← me.toInt?
    let cfg : Config := { enabled := en == "1", initial := ini, maxInterval := mi, maxElapsed := me }
    let cancelAt ← parseCancel cancel
    let outs ← allSome ((script.splitOn ",").map parseItem)
    let natt ← natt.toNat?
    let delays ← parseInts delays
    let bounds ← parseBounds elapsed
    let real := wmode == "r"
    -- the requested delays are observed in both modes; they are the model's backoff inputs (see backoffContract)
    let bs : List Dur := delays
    let attsLo := mkAttempts outs (bounds.map (·.1))
    let attsHi := mkAttempts outs (bounds.map (·.2))
    let mLo := requestLoop cfg attsLo bs cancelAt
    let mHi := requestLoop cfg attsHi bs cancelAt
    let modelStr := s!"{resName mLo.result} {mLo.attempts} {",".intercalate (mLo.waits.map toString)}"
    if mLo.result != mHi.result || mLo.attempts != mHi.attempts then
      -- the observed clock readings straddle an elapsed-time threshold: nothing can be concluded
      pure { agree := true, spec := "na", nontrivial := false, branches := "margin", model := modelStr }
    else
      let last := outs.getD (natt - 1) .fatal
      match resOf res last with
      | none => pure { agree := false, spec := "FAIL", nontrivial := true, branches := "badres", model := modelStr }
      | some ores =>
        let orun : Run := { result := ores, attempts := natt, waits := delays }
        let agree := resName mLo.result == res && mLo.attempts == natt &&
          mLo.waits == delays && backoffContract cfg outs delays
        let specB :=
          (if cfg.enabled then
             Spec.runOK cfg attsLo cancelAt orun && Spec.timeOK cfg attsLo orun &&
             -- the attempt bound is about a clock on which waits take their time: real waits only
             (!real || Spec.attemptsBounded cfg outs orun)
           else Spec.disabledSingle outs orun) &&
          wallOK cfg real outs sleeps natt delays bounds total &&
          !(g.toList.contains '0') && p != "p0"
        let tags := s!"{resName ores},{if cfg.enabled then "en" else "dis"},w{min (orun.waits.length) 3}" ++
          (if real then ",real" else "") ++ (if cancelAt.isSome then ",cancelscript" else "") ++
          (if cfg.maxElapsed == 0 then ",M0" else "")
        pure { agree := agree, spec := bOK specB, nontrivial := natt ≥ 2 || !(res == "ok" || res == "fatal"),
               branches := tags, model := modelStr }
  | _, _ => none

def waitLine (inp obs : List String) : Option Verdict :=
  match inp, obs with
  | [_, _, delay, mode], [r, e, p] => do
    let delay ← delay.toInt?
    let ctxAfter : Option Dur ←
      (if mode == "n" then some none
       else if mode == "pre" then some (some 0)
       else match mode.toList with
         | 'd' :: us => (String.ofList us).toNat?.map (fun u => some ((u : Int) * 1000))
         | 't' :: us => (String.ofList us).toNat?.map (fun u => some ((u : Int) * 1000))
         | _ => none)
    let obsC ← (if r == "err" then some true else if r == "nil" then some false else none)
    let m := waitCancelled delay ctxAfter
    let tie := ctxAfter == some delay || (ctxAfter == some 0 && delay ≤ 0)
    let specB := Spec.waitOK delay ctxAfter obsC && e == "e0" && p != "p0"
    pure { agree := tie || m == obsC, spec := bOK specB, nontrivial := ctxAfter.isSome,
           branches := (if obsC then "ctx" else "timer") ++ (if tie then ",tie" else ""),
           model := if m then "err" else "nil" }
  | _, _ => none

/-! ### client lines -/

/-- HTTP response token `<status>;<hdr -|x..>;<net 0|1|2>;<body>` with body
`e` | `p<ct>:<rejected>:<msghex>` | `n<ct>` (protobuf, no partial success) | `g<ct>` (undecodable) -/
def parseHttpResp (s : String) : Option HttpResp :=
  match s.splitOn ";" with
  | [st, hdr, net, body] => do
    let st ← st.toNat?
    let hdr ← (if hdr == "-" then some none else (parseHex hdr).map some)
    let net ← (match net with
      | "0" => some NetErr.none
      | "1" => some NetErr.temporary
      | "2" => some NetErr.permanent
      -- the request is accepted and never answered: with a positive http.Client.Timeout (the only configuration it is
      -- generated with) the attempt ends as a temporary error at the timeout (Model.httpAttemptTimed)
      | "3" => some NetErr.temporary
      | _ => none)
    let (ct, b) ← (match body.toList with
      | ['e'] => some (false, Body.empty)
      | ['n', c] => some (c == '1', Body.proto none)
      | ['g', c] => some (c == '1', Body.garbage)
      | 'p' :: c :: ':' :: rest =>
        match (String.ofList rest).splitOn ":" with
        | [n, m] => match n.toInt?, parseHex m with
          | some n, some m => some (c == '1', Body.proto (some (n, !m.isEmpty)))
          | _, _ => none
        | _ => none
      | _ => none)
    pure { net := net, status := st, retryAfter := hdr, ctProto := ct, body := b }
  | _ => none

def parseDetail (s : String) : Option Detail :=
  match s.toList with
  | ['n'] => some .other
  | ['z'] => some (.retryInfo 0)       -- RetryInfo without a RetryDelay: AsDuration() of nil = 0
  | 'r' :: rest => (String.ofList rest).toInt?.map .retryInfo
  | _ => none

/-- gRPC response token `<code>;<details -|d.d.d>;<partial -|rejected:msghex>` -/
def parseGrpcResp (s : String) : Option GrpcResp :=
  match s.splitOn ";" with
  | [code, ds, ps] => do
    -- `e`: a plain error (status.Convert gives Unknown = 2); `w<code>`: the status error wrapped with %w
    let code ← (if code == "e" then some 2 else if code.startsWith "w" then (code.drop 1).toString.toNat? else code.toNat?)
    let ds ← allSome ((optList ds '.').map parseDetail)
    let pr ← (if ps == "-" then some false else match ps.splitOn ":" with
      | [n, m] => match n.toInt?, parseHex m with
        | some n, some m => some (n != 0 || !m.isEmpty)
        | _, _ => none
      | _ => none)
    pure { code := code, details := ds, partialReported := pr }
  | _ => none

def outStr : Outcome → String
  | .ok p => s!"ok:{if p then 1 else 0}"
  | .fatal => "fatal"
  | .retryable t => s!"retry:{t}"

def parseOut (s : String) : Option Outcome :=
  match s.splitOn ":" with
  | ["ok", "0"] => some (.ok false)
  | ["ok", "1"] => some (.ok true)
  | ["fatal"] => some .fatal
  | ["retry", t] => t.toInt?.map .retryable
  | _ => none

def httpBranch (r : HttpResp) : String :=
  match r.net with
  | .temporary => "nettemp"
  | .permanent => "netperm"
  | .none =>
    if 200 ≤ r.status ∧ r.status ≤ 299 then
      (match r.body with
       | .empty => "2xx-empty"
       | .garbage => if r.ctProto then "2xx-badbody" else "2xx-otherct"
       | .proto none => if r.ctProto then "2xx-nopartial" else "2xx-otherct"
       | .proto (some _) => if r.ctProto then "2xx-partial" else "2xx-otherct")
    else if retryStatus r.status then
      (match r.retryAfter with
       | none => "retry-nohdr"
       | some v => if (digitsVal v).isSome then "retry-seconds" else if (parseInt64 v).isSome then "retry-signed" else "retry-badhdr")
    else "fatalstatus"

/-- `clsh <gen> <resp> => <outcome>` -/
def clshLine (inp obs : List String) : Option Verdict :=
  match inp, obs with
  | [_, _, resp], [o] => do
    let r ← parseHttpResp resp
    let o ← parseOut o
    let m := classifyHTTP r
    let base := Spec.classHTTPOK r o
    let hint := Spec.throttleHonoursHint (Spec.hintHTTP r) o
    let spec := if !base then "FAIL" else if hint then "ok" else if Spec.F19_applies r then "KNOWN:F19" else "FAIL"
    pure { agree := m == o, spec := spec, nontrivial := !(Spec.isOk o) || r.body != .empty,
           branches := httpBranch r, model := outStr m }
  | _, _ => none

def grpcBranch (r : GrpcResp) : String :=
  if r.code == 0 then (if r.partialReported then "ok-partial" else "ok")
  else if Spec.grpcAlwaysRetry.contains r.code then (if Spec.hasRetryInfo r.details then "always-info" else "always")
  else if r.code == 8 then (if Spec.hasRetryInfo r.details then "exhausted-info" else "exhausted-noinfo")
  else "never"

/-- `clsg <gen> <resp> => <outcome>` -/
def clsgLine (inp obs : List String) : Option Verdict :=
  match inp, obs with
  | [_, _, resp], [o] => do
    let r ← parseGrpcResp resp
    let o ← parseOut o
    let m := classifyGRPC r
    pure { agree := m == o, spec := bOK (Spec.classGRPCOK r o), nontrivial := r.code != 0 || r.partialReported,
           branches := grpcBranch r, model := outStr m }
  | _, _ => none

/-- per-wait wall-clock flags (`1` = the gap before the next attempt was at least the hint): every `0` must be
explained by F19 on that very response -/
def gapsVerdict {α : Type} (flags : String) (resps : List α) (f19 : α → Bool) : String :=
  let bad := (flags.toList.zip resps).filter (fun (c, _) => c == '0')
  if bad.isEmpty then "ok" else if bad.all (fun (_, x) => f19 x) then "KNOWN:F19" else "FAIL"

/-- common part of `uph`/`upg`: `<kind> <gen> <opts> <en> <msel 0|H|T> <cancel> <resp>|<resp>… => <res> <attempts> s<0|1> h<n> g<bits|-> p<0|1|->`
`cancel`: `-` | `pre` | `at<j>` | `stop<j>`. -/
def upLine {α : Type} (parse : String → Option α) (classify : α → Outcome) (f19 : α → Bool)
    (preRes : String) (inp obs : List String) : Option Verdict :=
  match inp, obs with
  | _ :: _ :: opts :: en :: msel :: cancel :: resps, res :: natt :: same :: handled :: g :: p :: sTok => do
    -- optional 7th token: what Stop returned (white-box legs); trace gRPC Stop is called with an expired context and
    -- must forward its error, trace HTTP Stop with a live one (nil); anything stuck is a failure
    let stopOK := match sTok.head? with
      | none => true
      | some "S-" => !(cancel.startsWith "stop") ||
          decide (natt.toNat?.getD 0 ≤ (cancel.drop 4).toString.toNat?.getD 0)   -- attempt j was never reached
      | some "Sctx" => cancel.startsWith "stop" && opts.startsWith "trace" && !(opts.splitOn ",").contains "gz0" && !(opts.splitOn ",").contains "gz1"
      | some "Snil" => cancel.startsWith "stop" && ((opts.splitOn ",").contains "gz0" || (opts.splitOn ",").contains "gz1")
      | _ => false
    let rs ← allSome ((resps.filter (· != "|")).map parse)
    let natt ← natt.toNat?
    let (maxE, e) ← (match msel with
      | "0" => some ((0 : Int), (0 : Int))
      | "H" => some (3600000000000, 0)
      | "T" => some (1, 1000)
      | _ => none)
    let cfg : Config := { enabled := en == "1", initial := 1, maxInterval := 1, maxElapsed := maxE }
    let outs := rs.map classify
    let atts := mkAttempts outs [e]
    let pre := cancel == "pre"
    let cancelAt : Option (Nat × Dur) ←
      (if cancel == "-" || pre then some none
       else if cancel.startsWith "at" then (cancel.drop 2).toString.toNat?.map (fun j => some (j, 0))
       else if cancel.startsWith "stop" then (cancel.drop 4).toString.toNat?.map (fun j => some (j, 0))
       -- `dl<j>`: the client's own timeout (gRPC: it spans the whole upload) expires during wait j
       else if cancel.startsWith "dl" then (cancel.drop 2).toString.toNat?.map (fun j => some (j, 0))
       else none)
    let m := requestLoop cfg atts (List.replicate outs.length 1) cancelAt
    let mRes := if pre then preRes else resName m.result
    let mAtt := if pre then (if preRes == "ctx" then 0 else 1) else m.attempts
    -- `pre`: the context is done before the call, no scripted answer is ever delivered
    let mHandled := if pre then 0 else handlerCalls atts { m with attempts := mAtt }
    -- request construction and re-send (Model.newRequest / attemptBodies): every attempt of the model sends the bytes
    -- of the first one, whatever is built in between (`gz` is a stand-in: the harness compares the real gzip stream)
    let mSame :=
      let gzip := (opts.splitOn ",").contains "gz1" || (opts.splitOn ",").any (fun t => t.startsWith "C1")
      let mr := newRequest (fun p => 31 :: 139 :: p) gzip { next := 0, cells := [] } [1, 2, 3]
      let bodies := attemptBodies (fun p => 31 :: 139 :: p) mr.1 mr.2
        (List.replicate (mAtt - 1) [(true, [4, 4]), (false, [5])])
      bodies.all (· == bodies.headD []) && decide (bodies.length = max mAtt 1)
    let modelStr := s!"{mRes} {mAtt} h{mHandled}"
    let last := outs.getD (natt - 1) .fatal
    let gaps := gapsVerdict (if g == "g-" then "" else (g.drop 1).toString) rs f19
    let structural :=
      if pre then res == preRes && handled == "h0"
      else match resOf res last with
        | none => false
        | some ores =>
          let orun : Run := { result := ores, attempts := natt, waits := m.waits }
          (if cfg.enabled then
            Spec.onlyAfterRetryable outs orun && Spec.stopsAtFirstTerminal outs orun &&
            Spec.timeOK cfg atts orun &&
            (cancelAt.isNone || ores == .cancelled || natt ≤ (cancelAt.map (·.1)).getD 0 + 1)
           else Spec.disabledSingle outs orun) &&
          handled == s!"h{((outs.take natt).filter (· == .ok true)).length}"
    let specB := structural && same != "s0" && p != "p0" && stopOK
    let spec := if !specB then "FAIL" else gaps
    pure { agree := mRes == res && mAtt == natt && handled == s!"h{mHandled}" && same == (if mSame then "s1" else "s0"),
           spec := spec,
           nontrivial := natt ≥ 2 || !(res == "ok"),
           branches := s!"{res},{if cfg.enabled then "en" else "dis"},a{min natt 3},M{msel}" ++
             (if cancel == "-" then "" else ",cancel") ++ (if handled != "h0" then ",partial" else "") ++
             (match (opts.splitOn ",").find? (fun t => t.length == 2 && t.startsWith "t") with
              | some t => "," ++ t
              | none => "") ++
             (match (opts.splitOn ",").find? (fun t => t.length == 2 && t.startsWith "c") with
              | some t => "," ++ t
              | none => "") ++
             (if (resps.any (fun t => (t.splitOn ";").getD 2 "" == "3")) then ",stalled" else ""),
           model := modelStr }
  | _, _ => none

/-- End-to-end line (harness/bb/otlpe2e): the REAL exporter, built through the public API from options and
environment variables, against an in-process collector that follows the script.
`e2e14 <gen> <exp> <batch[~partner batch~role]> <opts> <env×10> <url table> <en> <M> <stall> <tls> <resp> | <resp> … => <res> <attempts> s<0|1> h<n> g<bits|-> p<0|1>`
(p: the exporter's Shutdown after the export returned nil promptly; `~…~A|B`: one of two interleaved exporters, judged on its own script)
Judged exactly like `uph`/`upg` (same `requestLoop` run, same Spec predicates, same F19 classification of the
wall-clock gaps); the only difference is the result alphabet: an API user cannot tell a retryable final error from
a fatal one, so the observed `err` stands for the class of the outcome of the last attempt made. -/
def e2eLine (inp obs : List String) : Option Verdict :=
  match inp, obs with
  | _ :: gen :: exp :: rest, res :: natt :: restObs =>
    match rest.drop 13 with
    | en :: msel :: _ :: _ :: resps => do
      let http := exp.endsWith "h"
      let n ← natt.toNat?
      let tok := (resps.filter (· != "|")).getD (n - 1) ""
      let last : Outcome :=
        if n == 0 then .fatal
        else if http then ((parseHttpResp tok).map classifyHTTP).getD .fatal
        else ((parseGrpcResp tok).map classifyGRPC).getD .fatal
      let res' := if res == "err" then (if Spec.isRetryable last then "retry" else "fatal") else res
      let inp' := ["e2e14", gen, exp, en, msel, "-"] ++ resps
      let obs' := res' :: natt :: restObs
      if http then upLine parseHttpResp classifyHTTP Spec.F19_applies "ctx" inp' obs'
      else upLine parseGrpcResp classifyGRPC (fun _ => false) "ctx" inp' obs'
    | _ => none
  | _, _ => none

/-- wiring of Shutdown/Stop to a pending export, per exporter package (as read) -/
def wiringOf (grpc : Bool) (pkg : String) : Option StopWiring :=
  match pkg with
  | "trace" => some (stopWiringOf .trace grpc)
  | "metric" => some (stopWiringOf .metric grpc)
  | "log" => some (stopWiringOf .log grpc)
  | _ => none

def seenTok (pre : String) : Option Bool → String
  | none => pre ++ "stuck"
  | some true => pre ++ "ctx"
  | some false => pre ++ "nil"

/-- `shuth|shutg <gen> <pkg>,t<d|p|z> <pend> => S<…> E<…> n<attempts>`: export pending, Shutdown with a 100 ms
deadline, observation 2 s later. The clause (`Spec.shutdownOK`) holds for the two trace exporters in every timeout
configuration; for the other four it fails on the current code exactly as the model says (`Spec.FShut_applies`) —
a finding that is NOT yet listed in known-findings.json, hence reported as `na` (not `KNOWN:…`) for now. -/
def shutLine (grpc : Bool) (inp obs : List String) : Option Verdict :=
  match inp, obs with
  | [_, _, opts, pend], [sTok, eTok, nTok] => do
    let pkg := (opts.splitOn ",").headD ""
    let w ← wiringOf grpc pkg
    let timeout : Dur ← (match (opts.splitOn ",").find? (fun t => t.length == 2 && t.startsWith "t") with
      | some "td" => some 10000000000
      | some "tp" => some 30000000000
      | some "tz" => some 0
      | _ => none)
    let m := shutdownSeen w grpc timeout
    let parse (pre tok : String) : Option (Option Bool) :=
      if tok == pre ++ "stuck" then some none
      else if tok == pre ++ "ctx" then some (some true)
      else if tok == pre ++ "nil" then some (some false)
      else none
    let modelStr := s!"{seenTok "S" m.1} {seenTok "E" m.2} n1"
    match parse "S" sTok, parse "E" eTok with
    | some so, some eo =>
      let agree := (so, eo) == m && nTok == "n1"
      let ok := Spec.shutdownOK (so, eo)
      let spec := if ok then "ok" else if Spec.FShut_applies w && agree then "KNOWN:F43" else "FAIL"
      pure { agree := agree, spec := spec, nontrivial := true,
             branches := s!"{pkg},{if grpc then "grpc" else "http"},{pend}," ++ (if ok then "stops" else "shutdown-does-not-interrupt"),
             model := modelStr }
    | _, _ => pure { agree := false, spec := "FAIL", nontrivial := true, branches := "badshut", model := modelStr }
  | _, _ => none

/-! ### slow collector × client construction (`tmo`, harness/bb/otlpe2e/c14_tmo_test.go) -/

/-- timeout source token: `-` absent, `a` 120 ms, `b` 900 ms, `x` unparsable (ignored) -/
def tmoVal (tok : String) : Option Dur :=
  match tok with
  | "a" => some 120000000
  | "b" => some 900000000
  | _ => none

def slowResTok : Spec.SlowRes → String
  | .ok => "ok"
  | .gaveUp => "gaveup"
  | .deadline => "deadline"
  | .otherErr => "err"
  | .stuck => "stuck"

/-- `tmo <gen> <exp> <path> <opt> <envs> <envg> <M ms> <k|inf> => <res> n<requests> f<band> e<band>`:
the real exporter, built through the public API on the given construction path with the timeout from the given
sources, against a collector that never answers the first k (or all) requests. The model run is
`httpExportTimed` / `grpcStallExport` with the client assembled by `newHTTPClient` / `newGRPCClient`; the oracle is
`Spec.slowOK` on the observation. `f`/`e` are wall-clock order relations (see the harness): `f` must be the band of
the effective timeout (a timer never fires early), `e` at most that band. For `k = inf` the model runs on the
fastest conceivable clock (attempts take exactly the timeout, waits nothing), which bounds the number of requests
from above. -/
def tmoLine (inp obs : List String) : Option Verdict :=
  match inp, obs with
  | [_, _, exp, path, opt, envs, envg, m, k], [res, nTok, fTok, eTok] => do
    let grpc := exp.endsWith "g"
    let pkg ← (match exp.toList.head? with
      | some 't' => some "trace"
      | some 'm' => some "metric"
      | some 'l' => some "log"
      | _ => none)
    let mMs ← m.toNat?
    let kOpt : Option Nat ← (if k == "inf" then some none else k.toNat?.map some)
    let n ← (nTok.drop 1).toString.toNat?
    let (eff, src) : Dur × String :=
      match tmoVal opt, tmoVal envs, tmoVal envg with
      | some t, _, _ => (t, "opt")
      | none, some t, _ => (t, "spec")
      | none, none, some t => (t, "gen")
      | none, none, none => (10000000000, "dflt")
    let band := if eff == 120000000 then "A" else if eff == 900000000 then "B" else "gt"
    let cfg : Config := { enabled := true, initial := 10000000, maxInterval := 20000000,
                          maxElapsed := (mMs : Int) * 1000000 }
    let ores ← (match res with
      | "ok" => some Spec.SlowRes.ok
      | "elapsed" => some .gaveUp
      | "would" => some .gaveUp
      | "deadline" => some .deadline
      | "err" => some .otherErr
      | "stuck" => some .stuck
      | _ => none)
    let mrun : Option Run ←
      (if grpc then do
         let w ← wiringOf true pkg
         pure (grpcStallExport cfg w { suppliedConn := path == "conn", dialOpts := 0, timeout := eff } [5000000])
       else
         let b : HttpBuild := { tls := path == "tls" || path == "tlsproxy" || path == "envcert",
                                proxy := path == "proxy" || path == "tlsproxy" || pkg == "log", timeout := eff }
         let script : List Served := match kOpt with
           | some k => List.replicate k ⟨.fatal, none⟩ ++ [⟨.ok false, some 0⟩]
           | none => List.replicate (cfg.maxElapsed / eff).toNat.succ.succ.succ ⟨.fatal, none⟩
         some (httpExportTimed cfg b script (List.replicate script.length 0) none))
    let (mRes, mAtt) : Spec.SlowRes × Nat := match mrun with
      | none => (.stuck, 1)
      | some r => (Spec.slowResOf r.result, r.attempts)
    let attOK := if !grpc && kOpt.isNone then decide (1 ≤ n) && decide (n ≤ mAtt) else n == mAtt
    let timeAgree := fTok == "f" ++ band && (eTok == "eA" || (eTok == "e" ++ band))
    let agree := ores == mRes && attOK && timeAgree
    pure { agree := agree, spec := bOK (Spec.slowOK grpc kOpt ores n), nontrivial := true,
           branches := s!"{exp},{path},{src},{if kOpt.isSome then "slowthenok" else "alwaysslow"},{res}",
           model := s!"{slowResTok mRes} n{mAtt} f{band}" }
  | _, _ => none

def stepLine (_ : Unit) (toks : List String) : Unit × Option Verdict :=
  let (inp, obs) := splitObs toks
  match inp.head? with
  | some "e2e14" => ((), e2eLine inp obs)
  | some "tmo" => ((), tmoLine inp obs)
  | some "loop" => ((), loopLine inp obs)
  | some "wait" => ((), waitLine inp obs)
  | some "clsh" => ((), clshLine inp obs)
  | some "clsg" => ((), clsgLine inp obs)
  | some "shuth" => ((), shutLine false inp obs)
  | some "shutg" => ((), shutLine true inp obs)
  | some "uph" => ((), upLine parseHttpResp classifyHTTP Spec.F19_applies "ctx" inp obs)
  | some "upg" => ((), upLine parseGrpcResp classifyGRPC (fun _ => false)
      (if (inp.getD 2 "").startsWith "trace" then "cancel" else "ctx") inp obs)
  | _ => ((), none)

end Otel.C14.Drv

def main : IO Unit := Wire.run () Otel.C14.Drv.stepLine
