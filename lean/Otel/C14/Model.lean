/-
C14 — model of the OTLP export retry machinery, as written in /repo:

* `internal/retry/retry.go` (six identical copies): `Config.RequestFunc` (the `for` loop with its two
  elapsed-time tests, `delay = max(throttle, backoff)`, `waitFunc`) and `wait` (timer vs context);
* the three HTTP clients (`otlptracehttp`, `otlpmetrichttp`, `otlploghttp`): response classification,
  `newResponseError` (Retry-After parsing), `evaluate` — INCLUDING `time.Duration(rErr.throttle)`, i.e. the
  header's seconds taken as nanoseconds (F19);
* the three gRPC clients: `retryableGRPCStatus` / `throttleDelay`.

Durations are Go `time.Duration` values (int64 nanoseconds) modelled as unbounded `Int`
(assumption: no int64 overflow in `elapsed + throttle`). Real time is not modelled: the values read by
`time.Since(startTime)` are inputs (`Attempt.e1`, `Attempt.e2`); the values returned by
`backoff.ExponentialBackOff.NextBackOff` are inputs (`backoffs`); what the context does during a wait is an input.
Core Lean only.
-/
import Otel.Base.Wire
namespace Otel.C14
open Otel

-- a notation, not a definition: `omega` must see `Int`
scoped notation "Dur" => Int

/-- what one call of `fn(ctx)` amounts to for the retry loop (`err == nil`, `evaluate(err)`) -/
inductive Outcome where
  /-- `fn` returned nil; `partialSuccess` = a partial-success message was handed to `otel.Handle` -/
  | ok (partialSuccess : Bool)
  /-- `evaluate(err) = (false, _)` -/
  | fatal
  /-- `evaluate(err) = (true, throttle)` -/
  | retryable (throttle : Dur)
deriving DecidableEq, Repr, Inhabited

/-- `retry.Config` -/
structure Config where
  enabled : Bool
  initial : Dur
  maxInterval : Dur
  maxElapsed : Dur
deriving DecidableEq, Repr

/-- one scripted attempt: outcome of `fn` and the two clock readings taken after it
(`time.Since(startTime)` at retry.go:97 and :105; only read when the outcome is retryable) -/
structure Attempt where
  out : Outcome
  e1 : Dur
  e2 : Dur
deriving DecidableEq, Repr

inductive Result where
  /-- `fn`'s own result returned unchanged (nil, or the non-retryable error; with `Enabled=false`: whatever it was) -/
  | returned (o : Outcome)
  /-- `fmt.Errorf("max retry time elapsed: %w", err)` -/
  | maxElapsed
  /-- `fmt.Errorf("max retry time would elapse: %w", err)` -/
  | wouldElapse
  /-- `fmt.Errorf("%w: %w", ctxErr, err)` -/
  | cancelled
  /-- not a Go result: the script ended while the loop would make another attempt -/
  | pending
deriving DecidableEq, Repr

structure Run where
  result : Result
  /-- number of calls of `fn` -/
  attempts : Nat
  /-- delays handed to `waitFunc`, in order (the i-th wait follows attempt i) -/
  waits : List Dur
deriving DecidableEq, Repr

/-- `wait(ctx, delay)`: `ctxDoneAfter = some c` — the context becomes done `c` ns after the call
(`some 0`: already done), `none`: never. Returns `true` iff `ctx.Err()` is returned. The timer wins ties
("timer already fired" inner select). -/
def waitCancelled (delay : Dur) (ctxDoneAfter : Option Dur) : Bool :=
  match ctxDoneAfter with
  | none => false
  | some c => decide (c < delay)

/-- what the context does during wait number `k` when it is cancelled `c` ns into wait number `j`
(`cancelAt = some (j, c)`): untouched before, already done afterwards -/
def waitCtx (cancelAt : Option (Nat × Dur)) (k : Nat) : Option Dur :=
  match cancelAt with
  | none => none
  | some (j, c) => if k < j then none else if k = j then some c else some 0

/-- the `for` loop of `RequestFunc` from attempt number `k` on -/
def loopFrom (cfg : Config) (cancelAt : Option (Nat × Dur)) : Nat → List Attempt → List Dur → Run
  | _, [], _ => { result := .pending, attempts := 0, waits := [] }
  | k, a :: rest, bs =>
    match a.out with
    | .ok p => { result := .returned (.ok p), attempts := 1, waits := [] }      -- err == nil
    | .fatal => { result := .returned .fatal, attempts := 1, waits := [] }      -- !retryable
    | .retryable thr =>
      if cfg.maxElapsed ≠ 0 ∧ a.e1 > cfg.maxElapsed then
        { result := .maxElapsed, attempts := 1, waits := [] }
      else
        let bOff := bs.headD 0                                                   -- b.NextBackOff()
        let delay := max thr bOff
        if cfg.maxElapsed ≠ 0 ∧ a.e2 + thr > cfg.maxElapsed then
          { result := .wouldElapse, attempts := 1, waits := [] }
        else if waitCancelled delay (waitCtx cancelAt k) then
          { result := .cancelled, attempts := 1, waits := [delay] }
        else
          let r := loopFrom cfg cancelAt (k + 1) rest bs.tail
          { result := r.result, attempts := r.attempts + 1, waits := delay :: r.waits }

/-- `Config.RequestFunc(evaluate)(ctx, fn)` with `fn`/`evaluate` scripted by `attempts` -/
def requestLoop (cfg : Config) (attempts : List Attempt) (backoffs : List Dur)
    (cancelAt : Option (Nat × Dur)) : Run :=
  if cfg.enabled then loopFrom cfg cancelAt 0 attempts backoffs
  else
    match attempts with
    | [] => { result := .pending, attempts := 0, waits := [] }
    | a :: _ => { result := .returned a.out, attempts := 1, waits := [] }

/-! ### cenkalti/backoff contract (assumed; the harness checks every observable value against it) -/

/-- `incrementCurrentInterval` with Multiplier 1.5 -/
def nextInterval (cfg : Config) (cur : Dur) : Dur :=
  if cur * 3 ≥ cfg.maxInterval * 2 then cfg.maxInterval else cur * 3 / 2

/-- the interval the i-th `NextBackOff` randomises (`if b.currentInterval == 0 { b.currentInterval = b.InitialInterval }`) -/
def intervalAt (cfg : Config) : Nat → Dur
  | 0 => cfg.initial
  | i + 1 =>
    let n := nextInterval cfg (intervalAt cfg i)
    if n = 0 then cfg.initial else n

/-- `getRandomValueFromInterval(0.5, r, cur)` lies in `[cur/2, 3cur/2 + 1]` (bounds doubled to stay in ℤ) -/
def backoffInRange (cur b : Dur) : Bool := decide (cur - 1 ≤ 2 * b) && decide (2 * b ≤ 3 * cur + 2)

/-- the draws `bs` are what `NextBackOff` may return at calls number `i, i+1, …` -/
def backoffsOKFrom (cfg : Config) : Nat → List Dur → Bool
  | _, [] => true
  | i, b :: bs => backoffInRange (intervalAt cfg i) b && backoffsOKFrom cfg (i + 1) bs

def backoffsOK (cfg : Config) (bs : List Dur) : Bool := backoffsOKFrom cfg 0 bs

/-- largest value `NextBackOff` can return under the contract: `1.5·max(InitialInterval, MaxInterval) + 1` -/
def maxBackoff (cfg : Config) : Dur := (3 * max cfg.initial cfg.maxInterval + 2) / 2

/-- smallest value `NextBackOff` can return when `0 < InitialInterval ≤ MaxInterval`: `InitialInterval / 2` -/
def minBackoff (cfg : Config) : Dur := cfg.initial / 2

/-! ### the model's own clock

`Timed` = one attempt with the time it takes: `d1` from the start of the attempt to the first clock reading after
it (the duration of `fn` plus `evaluate`), `d2` from there to the second reading. On the model's clock a wait lasts
exactly the requested delay, so the readings of a whole script follow from the durations and the draws — whatever
the loop then decides. -/
structure Timed where
  out : Outcome
  d1 : Dur
  d2 : Dur
deriving DecidableEq, Repr

def throttleOfOut : Outcome → Dur
  | .retryable t => t
  | _ => 0

/-- clock readings of a script that starts at elapsed time `now` -/
def timeline (now : Dur) : List Timed → List Dur → List Attempt
  | [], _ => []
  | t :: rest, bs =>
    let e1 := now + t.d1
    let e2 := e1 + t.d2
    { out := t.out, e1 := e1, e2 := e2 } ::
      timeline (e2 + max (throttleOfOut t.out) (bs.headD 0)) rest bs.tail

/-- the model's clock when the call returns (mirrors the control flow of `loopFrom`; readings as in `Attempt`):
after the attempt for a returned outcome or "elapsed", at the second reading for "would elapse", at the instant
the context is done (or at once if it already was) for a cancelled wait -/
def returnTimeFrom (cfg : Config) (cancelAt : Option (Nat × Dur)) : Nat → List Attempt → List Dur → Dur
  | _, [], _ => 0
  | k, a :: rest, bs =>
    match a.out with
    | .ok _ => a.e1
    | .fatal => a.e1
    | .retryable thr =>
      if cfg.maxElapsed ≠ 0 ∧ a.e1 > cfg.maxElapsed then a.e1
      else
        let delay := max thr (bs.headD 0)
        if cfg.maxElapsed ≠ 0 ∧ a.e2 + thr > cfg.maxElapsed then a.e2
        else if waitCancelled delay (waitCtx cancelAt k) then a.e2 + max 0 ((waitCtx cancelAt k).getD 0)
        else
          match rest with
          | [] => a.e2 + delay
          | _ :: _ => returnTimeFrom cfg cancelAt (k + 1) rest bs.tail

/-! ### the export context: what can end it (caller, Stop/Shutdown, the client's own timeout) -/

/-- how an exporter's Shutdown/Stop is wired to an export that is pending (as read in the six packages) -/
inductive StopWiring where
  /-- otlptracehttp (`stopCh` → `contextWithStop`), otlptracegrpc (`stopCtx`, cancelled once Stop's own context has
  expired): the stop signal cancels the export context -/
  | cancelsExport
  /-- otlpmetrichttp, otlpmetricgrpc, otlploggrpc: `Shutdown` takes the mutex that `Export` holds across the whole
  upload; nothing is signalled to the pending export -/
  | waitsForExport
  /-- otlploghttp: `Shutdown` swaps in a no-op client and returns nil; the pending export is left alone -/
  | detaches
deriving DecidableEq, Repr

/-- `a` is not later than `b` (positions `(wait number, ns into that wait)`) -/
def evLe (a b : Nat × Dur) : Bool := decide (a.1 < b.1) || (a.1 == b.1 && decide (a.2 ≤ b.2))

def earlier : Option (Nat × Dur) → Option (Nat × Dur) → Option (Nat × Dur)
  | none, b => b
  | a, none => a
  | some a, some b => if evLe a b then some a else some b

/-- when the export context is done: the caller's context, the stop signal (if it is wired to the export), the
client's own timeout (`exportContext`: `WithTimeout` only if `timeout > 0`, else `WithCancel`). The timeout decides
ONLY whether there is a deadline event; the stop signal is linked in either case. -/
def exportCtxDone (w : StopWiring) (timeout : Dur) (caller stop deadline : Option (Nat × Dur)) :
    Option (Nat × Dur) :=
  earlier caller
    (earlier (match w with
              | .cancelsExport => stop
              | _ => none)
             (if timeout > 0 then deadline else none))

/-- one export call of a client with that wiring and timeout -/
def exportRun (cfg : Config) (w : StopWiring) (timeout : Dur) (atts : List Attempt) (bs : List Dur)
    (caller stop deadline : Option (Nat × Dur)) : Run :=
  requestLoop cfg atts bs (exportCtxDone w timeout caller stop deadline)

/-- the `shut` scenario: an export is pending in its first wait (1 h back-off, `MaxElapsedTime = 0`), Shutdown is
called with a 100 ms deadline, observation 2 s later. `none` = still blocked then; `some true` = returned a context
error; `some false` = returned nil. (`grpc`: the client timeout spans the whole upload, so a positive timeout is a
deadline event `timeout` ns into the wait; the HTTP timeout is per request.) -/
def shutdownSeen (w : StopWiring) (grpc : Bool) (timeout : Dur) : Option Bool × Option Bool :=
  let horizon : Dur := 2000000000
  let stopAt : Nat × Dur := (0, 105000000)
  let ex : Option Bool :=
    match exportCtxDone w timeout none (some stopAt) (if grpc then some (0, timeout) else none) with
    | some (0, c) => if c ≤ horizon then some true else none
    | _ => none
  let sh : Option Bool :=
    match w with
    | .cancelsExport => some grpc       -- gRPC Stop forwards its expired context's error; HTTP Stop: context alive, nil
    | .waitsForExport => ex.map (fun _ => true)   -- returns only once the export has released the mutex
    | .detaches => some false
  (sh, ex)

/-! ### HTTP classification -/

def digitsValAux : List UInt8 → Nat → Option Nat
  | [], acc => some acc
  | c :: rest, acc => if 48 ≤ c.toNat ∧ c.toNat ≤ 57 then digitsValAux rest (acc * 10 + (c.toNat - 48)) else none

/-- value of a non-empty all-digit byte string -/
def digitsVal (s : Bytes) : Option Nat :=
  match s with
  | [] => none
  | _ => digitsValAux s 0

/-- `strconv.ParseInt(s, 10, 64)`: optional sign, decimal digits, int64 range; `none` = error -/
def parseInt64 (s : Bytes) : Option Int :=
  let (neg, ds) : Bool × Bytes :=
    match s with
    | 43 :: r => (false, r)
    | 45 :: r => (true, r)
    | _ => (false, s)
  match digitsVal ds with
  | none => none
  | some n =>
    if neg then (if n ≤ 2 ^ 63 then some (-(n : Int)) else none)
    else (if n < 2 ^ 63 then some (n : Int) else none)

/-- what `http.Client.Do` gave -/
inductive NetErr where
  | none        -- a response arrived
  | temporary   -- `*url.Error` with `Temporary() == true`
  | permanent   -- any other error
deriving DecidableEq, Repr

/-- body of a 2xx response as far as the client looks at it; protobuf decoding is a parameter:
`partialSuccess = some (rejected, messageNonEmpty)` when the decoded response has the field -/
inductive Body where
  | empty
  | proto (partialSuccess : Option (Int × Bool))
  | garbage      -- proto.Unmarshal fails
deriving DecidableEq, Repr

structure HttpResp where
  net : NetErr
  status : Nat
  /-- first value of the `Retry-After` header, if the header is present -/
  retryAfter : Option Bytes
  /-- `Content-Type == "application/x-protobuf"` -/
  ctProto : Bool
  body : Body
deriving DecidableEq, Repr

/-- `newResponseError`: `rErr.throttle` (an int64 holding SECONDS) -/
def retryAfterSeconds (h : Option Bytes) : Int :=
  match h with
  | none => 0
  | some v => (parseInt64 v).getD 0

/-- `evaluate`: `time.Duration(rErr.throttle)` — the seconds value becomes NANOSECONDS (F19, as written) -/
def evaluateThrottle (seconds : Int) : Dur := seconds

def retryStatus (status : Nat) : Bool :=
  status == 429 || status == 502 || status == 503 || status == 504

/-- one attempt of the HTTP upload closure followed by `evaluate` -/
def classifyHTTP (r : HttpResp) : Outcome :=
  match r.net with
  | .temporary => .retryable (evaluateThrottle (retryAfterSeconds none))  -- newResponseError(http.Header{}, err)
  | .permanent => .fatal
  | .none =>
    if 200 ≤ r.status ∧ r.status ≤ 299 then
      match r.body with
      | .empty => .ok false
      | .garbage => if r.ctProto then .fatal else .ok false
      | .proto ps =>
        if r.ctProto then
          match ps with
          | none => .ok false
          | some (n, msgNonEmpty) => .ok (n != 0 || msgNonEmpty)
        else .ok false
    else if retryStatus r.status then
      .retryable (evaluateThrottle (retryAfterSeconds r.retryAfter))
    else .fatal

/-! ### gRPC classification -/

/-- a status detail: `RetryInfo` with its delay (ns; nil `RetryDelay` = 0) or anything else -/
inductive Detail where
  | retryInfo (delay : Dur)
  | other
deriving DecidableEq, Repr

structure GrpcResp where
  /-- `status.Convert(err).Code()`; a nil error is 0 (OK), a non-status error is 2 (Unknown) -/
  code : Nat
  details : List Detail
  /-- the response message carried a partial-success that is reported (`n != 0 || msg != ""`) -/
  partialReported : Bool
deriving DecidableEq, Repr

/-- `throttleDelay`: first `RetryInfo` detail -/
def throttleDelay : List Detail → Bool × Dur
  | [] => (false, 0)
  | .retryInfo d :: _ => (true, d)
  | .other :: rest => throttleDelay rest

/-- `retryableGRPCStatus` -/
def retryableGRPC (code : Nat) (details : List Detail) : Bool × Dur :=
  if code == 1 || code == 4 || code == 10 || code == 11 || code == 14 || code == 15 then
    (true, (throttleDelay details).2)
  else if code == 8 then throttleDelay details
  else (false, 0)

def classifyGRPC (r : GrpcResp) : Outcome :=
  if r.code == 0 then .ok r.partialReported
  else
    match retryableGRPC r.code r.details with
    | (true, d) => .retryable d
    | (false, _) => .fatal

/-! ### composed exports -/

/-- an HTTP attempt: the collector's answer and the two clock readings -/
def httpAttempt (x : HttpResp × Dur × Dur) : Attempt := { out := classifyHTTP x.1, e1 := x.2.1, e2 := x.2.2 }
def grpcAttempt (x : GrpcResp × Dur × Dur) : Attempt := { out := classifyGRPC x.1, e1 := x.2.1, e2 := x.2.2 }

def exportHTTP (cfg : Config) (xs : List (HttpResp × Dur × Dur)) (backoffs : List Dur)
    (cancelAt : Option (Nat × Dur)) : Run :=
  requestLoop cfg (xs.map httpAttempt) backoffs cancelAt

def exportGRPC (cfg : Config) (xs : List (GrpcResp × Dur × Dur)) (backoffs : List Dur)
    (cancelAt : Option (Nat × Dur)) : Run :=
  requestLoop cfg (xs.map grpcAttempt) backoffs cancelAt

/-! ### client construction: where the client timeout ends up

The three HTTP packages assemble their `http.Client` the same way (`NewClient` of otlptracehttp, `newClient` of
otlpmetrichttp, `newHTTPClient` of otlploghttp): an `http.Client{Transport: ourTransport, Timeout: cfg.Timeout}`
whose transport is replaced by a customised CLONE of `ourTransport` when a TLS configuration (option or certificate
variables) or a proxy function is configured (otlploghttp: always, its default proxy setting is non-nil). The three
gRPC clients copy `cfg.Timeout` into `exportTimeout` whatever the dial options / supplied connection are. -/

/-- the part of the resolved configuration that decides how the `http.Client` is assembled -/
structure HttpBuild where
  /-- `cfg.TLSCfg != nil`: WithTLSClientConfig or OTEL_EXPORTER_OTLP_[SIGNAL_]CERTIFICATE / CLIENT_* variables -/
  tls : Bool
  /-- `cfg.Proxy != nil`: WithProxy (otlploghttp: always) -/
  proxy : Bool
  /-- `cfg.Timeout`, as resolved by the configuration code (property C20) -/
  timeout : Dur
deriving DecidableEq, Repr

/-- the `http.Client` a client sends every request with, as far as the export behaviour depends on it -/
structure HttpClientM where
  /-- `Transport == ourTransport` (package level, its connection pool shared by all clients) -/
  sharedTransport : Bool
  tlsSet : Bool
  proxySet : Bool
  /-- `http.Client.Timeout`: per request (attempt), 0 = none -/
  timeout : Dur
deriving DecidableEq, Repr

/-- `NewClient` / `newClient` / `newHTTPClient`, branch by branch -/
def newHTTPClient (b : HttpBuild) : HttpClientM :=
  let hc : HttpClientM := { sharedTransport := true, tlsSet := false, proxySet := false, timeout := b.timeout }
  if b.tls || b.proxy then
    let hc := { hc with sharedTransport := false }       -- httpClient.Transport = ourTransport.Clone()
    let hc := if b.tls then { hc with tlsSet := true } else hc
    if b.proxy then { hc with proxySet := true } else hc
  else hc

/-- what decides how a gRPC client reaches the collector -/
structure GrpcBuild where
  /-- `cfg.GRPCConn != nil` (WithGRPCConn): the connection is the caller's, dial options are not used -/
  suppliedConn : Bool
  /-- number of dial options accumulated (credentials, service config, compressor, reconnection period, WithDialOption) -/
  dialOpts : Nat
  timeout : Dur
deriving DecidableEq, Repr

structure GrpcClientM where
  ourConn : Bool
  /-- `exportContext`: `context.WithTimeout(parent, exportTimeout)` iff `> 0` — spans the WHOLE export -/
  exportTimeout : Dur
deriving DecidableEq, Repr

/-- `newClient` + `Start` of the three gRPC packages -/
def newGRPCClient (b : GrpcBuild) : GrpcClientM :=
  { ourConn := !b.suppliedConn, exportTimeout := b.timeout }

/-- what the collector does with one request: its answer (already classified) arrives `after` ns after the attempt
began; `none` = the request is accepted and never answered -/
structure Served where
  out : Outcome
  after : Option Dur
deriving DecidableEq, Repr

/-- one attempt through `http.Client.Do` under `Client.Timeout = t`: an answer later than `t` (or never) is a
`*url.Error` with `Timeout() = Temporary() = true` after exactly `t` — `newResponseError(http.Header{}, err)`, i.e.
retryable with throttle 0. `none`: the attempt never ends (`t = 0` and no answer). -/
def httpAttemptTimed (hc : HttpClientM) (s : Served) : Option Timed :=
  match s.after with
  | some d =>
    if hc.timeout > 0 ∧ d > hc.timeout then some { out := .retryable 0, d1 := hc.timeout, d2 := 0 }
    else some { out := s.out, d1 := d, d2 := 0 }
  | none =>
    if hc.timeout > 0 then some { out := .retryable 0, d1 := hc.timeout, d2 := 0 } else none

/-- the attempts of a whole script; `none` as soon as one of them never ends -/
def httpScriptTimed (hc : HttpClientM) : List Served → Option (List Timed)
  | [] => some []
  | s :: rest =>
    match httpAttemptTimed hc s, httpScriptTimed hc rest with
    | some t, some ts => some (t :: ts)
    | _, _ => none

/-- one export of an HTTP client built from `b` against a collector following `script`, on the model's clock
(`none`: it blocks for ever in an attempt) -/
def httpExportTimed (cfg : Config) (b : HttpBuild) (script : List Served) (bs : List Dur)
    (cancelAt : Option (Nat × Dur)) : Option Run :=
  (httpScriptTimed (newHTTPClient b) script).map (fun tas => requestLoop cfg (timeline 0 tas bs) bs cancelAt)

/-- the instant (model clock) such an export returns -/
def httpExportReturnTime (cfg : Config) (b : HttpBuild) (script : List Served) (bs : List Dur)
    (cancelAt : Option (Nat × Dur)) : Option Dur :=
  (httpScriptTimed (newHTTPClient b) script).map (fun tas => returnTimeFrom cfg cancelAt 0 (timeline 0 tas bs) bs)

/-- a gRPC export against a collector that never answers: the attempt in flight ends with DeadlineExceeded (retryable,
no throttle) when the export context's deadline is reached, i.e. `exportTimeout` after the start, and the wait that
follows finds the context done. `none`: no deadline, the attempt never ends. -/
def grpcStallExport (cfg : Config) (w : StopWiring) (b : GrpcBuild) (bs : List Dur) : Option Run :=
  let gc := newGRPCClient b
  if gc.exportTimeout > 0 then
    some (exportRun cfg w gc.exportTimeout [{ out := .retryable 0, e1 := gc.exportTimeout, e2 := gc.exportTimeout }] bs
      none none (some (0, 0)))
  else none

/-! ### request construction and re-send (`newRequest`, `bodyReader`, `request.reset`; identical in the three HTTP packages)

Memory is modelled explicitly, because what can go wrong here is ALIASING: the body a retry re-sends is whatever the
backing array captured by the `bodyReader` closure holds at that moment. `Mem` = a bump allocator: `alloc` returns
an address that was never handed out before (`var b bytes.Buffer` / `proto.Marshal` allocate fresh storage); the
package-level `gzPool` holds `*gzip.Writer`s only — they are `Reset` onto the request's own buffer and own no storage a
request keeps a reference to. `gz` (what `gzip.Writer` produces for a payload) is a parameter. -/

structure Mem where
  next : Nat
  cells : List (Nat × Bytes)
deriving Repr

def Mem.read (m : Mem) (a : Nat) : Bytes :=
  match m.cells.find? (fun c => c.1 == a) with
  | some c => c.2
  | none => []

def Mem.alloc (m : Mem) (v : Bytes) : Mem × Nat :=
  ({ next := m.next + 1, cells := (m.next, v) :: m.cells }, m.next)

/-- every cell lives below the allocation pointer -/
def Mem.wf (m : Mem) : Prop := ∀ c ∈ m.cells, c.1 < m.next

/-- what `newRequest` fixes once per export -/
structure Request where
  /-- `r.ContentLength` (−1: "not used") -/
  contentLength : Int
  /-- `Content-Encoding: gzip` set -/
  gzipHeader : Bool
  /-- the backing array the `bodyReader` closure captured -/
  body : Nat
deriving DecidableEq, Repr

/-- `newRequest(body)`: `NoCompression` — `ContentLength = len(body)`, `bodyReader(body)` over the marshalled payload
(itself a fresh allocation of `proto.Marshal`); `GzipCompression` — `ContentLength = -1`, the header, a pooled writer
reset onto a FRESH buffer, `bodyReader(b.Bytes())` -/
def newRequest (gz : Bytes → Bytes) (compress : Bool) (m : Mem) (payload : Bytes) : Mem × Request :=
  if compress then
    let (m', a) := m.alloc (gz payload)
    (m', { contentLength := -1, gzipHeader := true, body := a })
  else
    let (m', a) := m.alloc payload
    (m', { contentLength := payload.length, gzipHeader := false, body := a })

/-- `request.reset(ctx)` + `http.Client.Do`: a NEW reader positioned at 0 over the captured array, read to its end -/
def sendAttempt (m : Mem) (r : Request) : Bytes := m.read r.body

/-- whatever other exports (any exporter sharing the package-level pool) do between two attempts: each builds its own
request -/
def otherExports (gz : Bytes → Bytes) (m : Mem) : List (Bool × Bytes) → Mem
  | [] => m
  | (c, p) :: rest => otherExports gz (newRequest gz c m p).1 rest

/-- the bytes of attempts `1, 2, …` of one export when `between[i]` are the foreign exports built between attempt `i+1`
and attempt `i+2` -/
def attemptBodies (gz : Bytes → Bytes) (m : Mem) (r : Request) : List (List (Bool × Bytes)) → List Bytes
  | [] => [sendAttempt m r]
  | ops :: rest => sendAttempt m r :: attemptBodies gz (otherExports gz m ops) r rest

/-! ### partial success → error handler (all three signals, HTTP and gRPC) -/

/-- `if n != 0 || msg != "" { otel.Handle(PartialSuccessError) }` for `RejectedSpans` / `RejectedDataPoints` /
`RejectedLogRecords` + `ErrorMessage`; `none` = the response has no `partial_success` field -/
def partialReported (ps : Option (Int × Bool)) : Bool :=
  match ps with
  | none => false
  | some (n, msgNonEmpty) => n != 0 || msgNonEmpty

/-- number of `otel.Handle(partial success)` calls of one export: one per attempt made whose outcome was `ok true` -/
def handlerCalls (atts : List Attempt) (r : Run) : Nat :=
  ((atts.take r.attempts).filter (fun a => a.out == .ok true)).length

/-! ### Stop/Shutdown wiring, exporter by exporter (as read in the six packages) -/

inductive Signal where
  | trace | metric | log
deriving DecidableEq, Repr

def stopWiringOf (sig : Signal) (grpc : Bool) : StopWiring :=
  match sig, grpc with
  | .trace, _ => .cancelsExport        -- otlptracehttp: stopCh → contextWithStop; otlptracegrpc: stopCtx
  | .metric, _ => .waitsForExport      -- Exporter.Shutdown takes clientMu, which Export holds across UploadMetrics
  | .log, true => .waitsForExport      -- otlploggrpc: same shape
  | .log, false => .detaches           -- otlploghttp: Shutdown swaps in the no-op client, returns nil

end Otel.C14
