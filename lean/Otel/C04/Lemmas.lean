/-
C04 — helper lemmas for Props.lean: the refinement "lazy slice + fast path / addOverCapAttrs ⊑ bounded ordered map",
"evicting queue ⊑ last n of the history", "SetStatus fold ⊑ status lattice".
-/
import Otel.C04.Model
import Otel.C04.Spec
namespace Otel.C04
open Otel Otel.C04.Spec

/-- keys pairwise distinct -/
def KeysNodup (l : List KV) : Prop := l.Pairwise (fun a b => a.key ≠ b.key)

/-! ### truncation -/

theorem truncate_eq_refTrunc (limit : Int) (s : Bytes) : Trunc.truncate limit s = Trunc.refTrunc limit s := by
  unfold Trunc.truncate Trunc.refTrunc
  split
  · rfl
  · rw [Trunc.fast_eq limit.toNat s (Utf8.chunks s) [] 0 (by simp [Utf8.flat_chunks]) (by omega)]
    simp

theorem refTrunc_neg (limit : Int) (h : limit < 0) (s : Bytes) : Trunc.refTrunc limit s = s := by
  simp [Trunc.refTrunc, h]

theorem truncValue_eq (limit : Int) (v : Value) : truncValue limit v = refTruncValue limit v := by
  cases v <;> simp [truncValue, refTruncValue, truncate_eq_refTrunc]

theorem refTruncValue_neg (limit : Int) (h : limit < 0) (v : Value) : refTruncValue limit v = v := by
  have hid : Trunc.refTrunc limit = id := funext (refTrunc_neg limit h)
  cases v <;> simp [refTruncValue, hid]

theorem truncateAttr_eq (vlim : Int) (a : KV) : truncateAttr vlim a = ⟨a.key, refTruncValue vlim a.val⟩ := by
  unfold truncateAttr
  split
  · next h => rw [refTruncValue_neg vlim h]
  · rw [truncValue_eq]

@[simp] theorem truncateAttr_key (vlim : Int) (a : KV) : (truncateAttr vlim a).key = a.key := by
  rw [truncateAttr_eq]

/-! ### upsert / dedupe -/

theorem hasKey_iff (l : List KV) (k : Bytes) : hasKey l k = true ↔ ∃ b ∈ l, b.key = k := by
  simp [hasKey]

theorem hasKey_false_iff (l : List KV) (k : Bytes) : hasKey l k = false ↔ ∀ b ∈ l, b.key ≠ k := by
  rw [← Bool.not_eq_true, hasKey_iff]
  simp

theorem upsert_of_not_hasKey (l : List KV) (a : KV) (h : hasKey l a.key = false) : upsert l a = l ++ [a] := by
  induction l with
  | nil => rfl
  | cons b tl ih =>
    rw [hasKey_false_iff] at h
    have hb : b.key ≠ a.key := h b (by simp)
    have ht : hasKey tl a.key = false := by
      rw [hasKey_false_iff]; intro c hc; exact h c (by simp [hc])
    simp [upsert, hb, ih ht]

theorem setKey_eq_upsert (l : List KV) (a : KV) (h : hasKey l a.key = true) : setKey l a = upsert l a := by
  induction l with
  | nil => simp [hasKey] at h
  | cons b tl ih =>
    by_cases hb : b.key = a.key
    · simp [setKey, upsert, hb]
    · have ht : hasKey tl a.key = true := by
        rw [hasKey_iff] at h ⊢
        obtain ⟨c, hc, hk⟩ := h
        simp only [List.mem_cons] at hc
        rcases hc with rfl | hc
        · exact absurd hk hb
        · exact ⟨c, hc, hk⟩
      simp [setKey, upsert, hb, ih ht]

theorem map_replace_of_not_hasKey (l : List KV) (a : KV) (h : hasKey l a.key = false) :
    l.map (fun b => if b.key == a.key then a else b) = l := by
  rw [hasKey_false_iff] at h
  have : ∀ b ∈ l, (fun b : KV => if b.key == a.key then a else b) b = b := by
    intro b hb; simp [h b hb]
  rw [List.map_congr_left this]; simp

theorem upsert_eq_map (l : List KV) (a : KV) (hn : KeysNodup l) (h : hasKey l a.key = true) :
    upsert l a = l.map (fun b => if b.key == a.key then a else b) := by
  induction l with
  | nil => simp [hasKey] at h
  | cons b tl ih =>
    have hn' : KeysNodup tl := (List.pairwise_cons.mp hn).2
    by_cases hb : b.key = a.key
    · have ht : hasKey tl a.key = false := by
        rw [hasKey_false_iff]; intro c hc hk
        exact (List.pairwise_cons.mp hn).1 c hc (by rw [hb, hk])
      have h3 := map_replace_of_not_hasKey tl a ht
      simp only [beq_iff_eq] at h3
      simp [upsert, hb, h3]
    · have ht : hasKey tl a.key = true := by
        rw [hasKey_iff] at h ⊢
        obtain ⟨c, hc, hk⟩ := h
        simp only [List.mem_cons] at hc
        rcases hc with rfl | hc
        · exact absurd hk hb
        · exact ⟨c, hc, hk⟩
      simp [upsert, hb, ih hn' ht]

theorem mem_upsert (l : List KV) (a c : KV) (h : c ∈ upsert l a) : c = a ∨ c ∈ l := by
  induction l with
  | nil => simp [upsert] at h; exact Or.inl h
  | cons b tl ih =>
    unfold upsert at h
    split at h
    · simp only [List.mem_cons] at h ⊢
      rcases h with h | h
      · exact Or.inl h
      · exact Or.inr (Or.inr h)
    · simp only [List.mem_cons] at h ⊢
      rcases h with h | h
      · exact Or.inr (Or.inl h)
      · rcases ih h with h | h
        · exact Or.inl h
        · exact Or.inr (Or.inr h)

theorem keysNodup_upsert (l : List KV) (a : KV) (hn : KeysNodup l) : KeysNodup (upsert l a) := by
  induction l with
  | nil => simp [upsert, KeysNodup]
  | cons b tl ih =>
    have ⟨h1, h2⟩ := List.pairwise_cons.mp hn
    unfold upsert
    split
    · next hb =>
      apply List.pairwise_cons.mpr
      exact ⟨fun c hc => by rw [← hb]; exact h1 c hc, h2⟩
    · next hb =>
      apply List.pairwise_cons.mpr
      refine ⟨?_, ih h2⟩
      intro c hc
      rcases mem_upsert tl a c hc with rfl | hc
      · exact hb
      · exact h1 c hc

theorem length_upsert_le (l : List KV) (a : KV) : (upsert l a).length ≤ l.length + 1 := by
  induction l with
  | nil => simp [upsert]
  | cons b tl ih =>
    unfold upsert
    split <;> simp <;> omega

theorem length_upsert_hasKey (l : List KV) (a : KV) (h : hasKey l a.key = true) : (upsert l a).length = l.length := by
  induction l with
  | nil => simp [hasKey] at h
  | cons b tl ih =>
    unfold upsert
    split
    · simp
    · next hb =>
      have ht : hasKey tl a.key = true := by
        rw [hasKey_iff] at h ⊢
        obtain ⟨c, hc, hk⟩ := h
        simp only [List.mem_cons] at hc
        rcases hc with rfl | hc
        · exact absurd hk hb
        · exact ⟨c, hc, hk⟩
      simp [ih ht]

theorem foldl_upsert_keysNodup (new m : List KV) (hn : KeysNodup m) : KeysNodup (new.foldl upsert m) := by
  induction new generalizing m with
  | nil => exact hn
  | cons a tl ih => exact ih _ (keysNodup_upsert m a hn)

theorem keysNodup_dedupe (l : List KV) : KeysNodup (dedupe l) :=
  foldl_upsert_keysNodup l [] List.Pairwise.nil

theorem foldl_upsert_length_le (new m : List KV) : (new.foldl upsert m).length ≤ m.length + new.length := by
  induction new generalizing m with
  | nil => simp
  | cons a tl ih =>
    have h1 := ih (upsert m a)
    have h2 := length_upsert_le m a
    simp only [List.foldl_cons, List.length_cons]
    omega

theorem length_dedupe_le (l : List KV) : (dedupe l).length ≤ l.length := by
  have := foldl_upsert_length_le l []
  simpa [dedupe] using this

theorem dedupe_append (l new : List KV) : dedupe (l ++ new) = new.foldl upsert (dedupe l) := by
  simp [dedupe, List.foldl_append]

theorem foldl_upsert_of_keysNodup (l m : List KV) (hn : KeysNodup (m ++ l)) : l.foldl upsert m = m ++ l := by
  induction l generalizing m with
  | nil => simp
  | cons a tl ih =>
    have hk : hasKey m a.key = false := by
      rw [hasKey_false_iff]
      intro b hb
      have := List.pairwise_append.mp hn
      exact this.2.2 b hb a (by simp)
    simp only [List.foldl_cons]
    rw [upsert_of_not_hasKey m a hk, ih (m ++ [a]) (by simpa using hn)]
    simp

theorem dedupe_of_keysNodup (l : List KV) (hn : KeysNodup l) : dedupe l = l := by
  have := foldl_upsert_of_keysNodup l [] (by simpa using hn)
  simpa [dedupe] using this

/-! ### bounded ordered map vs the two SetAttributes paths -/

theorem insertBounded_eq (cap : Int) (m : List KV) (a : KV) (hn : KeysNodup m) :
    insertBounded cap m a =
      if hasKey m a.key = true ∨ cap < 0 ∨ (m.length : Int) < cap then some (upsert m a) else none := by
  unfold insertBounded
  by_cases hk : hasKey m a.key = true
  · have h1 : (m.any fun b => b.key == a.key) = true := hk
    simp only [h1, hk, if_true, true_or]
    rw [upsert_eq_map m a hn hk]
  · have hk' : hasKey m a.key = false := by simpa using hk
    have h1 : (m.any fun b => b.key == a.key) = false := hk'
    simp only [h1, hk', Bool.false_eq_true, if_false, false_or]
    rw [upsert_of_not_hasKey m a hk']

theorem refAttr_eq (lim : Limits) (st : List KV × Nat) (a : KV) (hn : KeysNodup st.1) :
    refAttr lim st a =
      if a.valid = false then (st.1, st.2 + 1)
      else if hasKey st.1 a.key = true ∨ lim.attrCount < 0 ∨ (st.1.length : Int) < lim.attrCount then
        (upsert st.1 (truncateAttr lim.valueLen a), st.2)
      else (st.1, st.2 + 1) := by
  unfold refAttr
  rw [← truncateAttr_eq, insertBounded_eq _ _ _ hn]
  simp only [truncateAttr_key]
  by_cases hv : a.valid = true
  · simp only [hv, Bool.not_true, Bool.false_eq_true, if_false, Bool.true_eq_false]
    by_cases hc : hasKey st.1 a.key = true ∨ lim.attrCount < 0 ∨ (st.1.length : Int) < lim.attrCount
    · simp only [hc, if_true]
    · simp only [hc, if_false]
  · have hv' : a.valid = false := by simpa using hv
    simp [hv']

theorem overCapStep_eq_refAttr (lim : Limits) (st : List KV × Nat) (a : KV) (_hn : KeysNodup st.1) :
    overCapStep lim.attrCount lim.valueLen st a =
      if a.valid = false then (st.1, st.2 + 1)
      else if hasKey st.1 a.key = true ∨ (st.1.length : Int) < lim.attrCount then
        (upsert st.1 (truncateAttr lim.valueLen a), st.2)
      else (st.1, st.2 + 1) := by
  unfold overCapStep
  by_cases hv : a.valid = true
  · simp only [hv, Bool.not_true, Bool.false_eq_true, if_false, Bool.true_eq_false]
    by_cases hk : hasKey st.1 a.key = true
    · have hk2 : hasKey st.1 (truncateAttr lim.valueLen a).key = true := by simpa using hk
      simp only [hk, if_true, true_or]
      rw [setKey_eq_upsert _ _ hk2]
    · have hk' : hasKey st.1 a.key = false := by simpa using hk
      have hk2 : hasKey st.1 (truncateAttr lim.valueLen a).key = false := by simpa using hk'
      simp only [hk', Bool.false_eq_true, if_false, false_or]
      by_cases hf : (st.1.length : Int) ≥ lim.attrCount
      · have : ¬ ((st.1.length : Int) < lim.attrCount) := by omega
        simp [hf, this]
      · have : (st.1.length : Int) < lim.attrCount := by omega
        simp only [hf, if_false, this, if_true]
        rw [upsert_of_not_hasKey _ _ hk2]
  · have hv' : a.valid = false := by simpa using hv
    simp [hv']

theorem overCapStep_eq (lim : Limits) (st : List KV × Nat) (a : KV) (hn : KeysNodup st.1) (hpos : lim.attrCount > 0) :
    overCapStep lim.attrCount lim.valueLen st a = refAttr lim st a := by
  rw [overCapStep_eq_refAttr lim st a hn, refAttr_eq lim st a hn]
  have : ¬ lim.attrCount < 0 := by omega
  simp [this]

theorem keysNodup_refAttr (lim : Limits) (st : List KV × Nat) (a : KV) (hn : KeysNodup st.1) :
    KeysNodup (refAttr lim st a).1 := by
  rw [refAttr_eq lim st a hn]
  split
  · exact hn
  · split
    · exact keysNodup_upsert _ _ hn
    · exact hn

theorem length_refAttr_le (lim : Limits) (st : List KV × Nat) (a : KV) (hn : KeysNodup st.1)
    (h0 : lim.attrCount ≥ 0) (hb : (st.1.length : Int) ≤ lim.attrCount) :
    ((refAttr lim st a).1.length : Int) ≤ lim.attrCount := by
  rw [refAttr_eq lim st a hn]
  split
  · exact hb
  · split
    · next h =>
      by_cases hk : hasKey st.1 a.key = true
      · have hk2 : hasKey st.1 (truncateAttr lim.valueLen a).key = true := by simpa using hk
        simp only [length_upsert_hasKey _ _ hk2]; exact hb
      · have := length_upsert_le st.1 (truncateAttr lim.valueLen a)
        rcases h with h | h | h
        · exact absurd h hk
        · omega
        · simp only
          omega
    · exact hb

theorem foldl_refAttr_keysNodup (lim : Limits) (new : List KV) (st : List KV × Nat) (hn : KeysNodup st.1) :
    KeysNodup (new.foldl (refAttr lim) st).1 := by
  induction new generalizing st with
  | nil => exact hn
  | cons a tl ih => exact ih _ (keysNodup_refAttr lim st a hn)

theorem foldl_refAttr_length_le (lim : Limits) (new : List KV) (st : List KV × Nat) (hn : KeysNodup st.1)
    (h0 : lim.attrCount ≥ 0) (hb : (st.1.length : Int) ≤ lim.attrCount) :
    ((new.foldl (refAttr lim) st).1.length : Int) ≤ lim.attrCount := by
  induction new generalizing st with
  | nil => exact hb
  | cons a tl ih => exact ih _ (keysNodup_refAttr lim st a hn) (length_refAttr_le lim st a hn h0 hb)

theorem overcap_fold (lim : Limits) (new : List KV) (st : List KV × Nat) (hn : KeysNodup st.1) (hpos : lim.attrCount > 0) :
    new.foldl (overCapStep lim.attrCount lim.valueLen) st = new.foldl (refAttr lim) st := by
  induction new generalizing st with
  | nil => rfl
  | cons a tl ih =>
    simp only [List.foldl_cons]
    rw [overCapStep_eq lim st a hn hpos]
    exact ih _ (keysNodup_refAttr lim st a hn)

theorem refAttr_lim0_fold (lim : Limits) (h0 : lim.attrCount = 0) (new : List KV) (d : Nat) :
    new.foldl (refAttr lim) ([], d) = ([], d + new.length) := by
  induction new generalizing d with
  | nil => rfl
  | cons a tl ih =>
    simp only [List.foldl_cons]
    have : refAttr lim ([], d) a = ([], d + 1) := by
      rw [refAttr_eq lim ([], d) a List.Pairwise.nil]
      simp [hasKey, h0]
    rw [this, ih]
    simp only [List.length_cons]
    congr 1
    omega

theorem fast_fold (lim : Limits) (new raw : List KV) (d : Nat)
    (h : lim.attrCount < 0 ∨ (raw.length : Int) + new.length ≤ lim.attrCount) :
    new.foldl (refAttr lim) (dedupe raw, d) =
      (dedupe (new.foldl (fastStep lim.valueLen) (raw, d)).1, (new.foldl (fastStep lim.valueLen) (raw, d)).2) := by
  induction new generalizing raw d with
  | nil => rfl
  | cons a tl ih =>
    simp only [List.foldl_cons]
    have hlen := length_dedupe_le raw
    have hroom : lim.attrCount < 0 ∨ ((dedupe raw).length : Int) < lim.attrCount := by
      rcases h with h | h
      · exact Or.inl h
      · simp only [List.length_cons] at h
        exact Or.inr (by omega)
    rw [refAttr_eq lim (dedupe raw, d) a (keysNodup_dedupe raw)]
    unfold fastStep
    by_cases hv : a.valid = true
    · simp only [hv, Bool.not_true, Bool.false_eq_true, if_false, Bool.true_eq_false, hroom, or_true, if_true]
      have : upsert (dedupe raw) (truncateAttr lim.valueLen a) = dedupe (raw ++ [truncateAttr lim.valueLen a]) := by
        rw [dedupe_append]; rfl
      rw [this]
      apply ih
      rcases h with h | h
      · exact Or.inl h
      · simp only [List.length_cons, List.length_append, List.length_nil] at h ⊢
        exact Or.inr (by omega)
    · have hv' : a.valid = false := by simpa using hv
      simp only [hv', Bool.not_false, if_true]
      apply ih
      rcases h with h | h
      · exact Or.inl h
      · simp only [List.length_cons] at h
        exact Or.inr (by omega)

theorem fast_fold_length (vlim : Int) (new raw : List KV) (d : Nat) :
    (new.foldl (fastStep vlim) (raw, d)).1.length ≤ raw.length + new.length := by
  induction new generalizing raw d with
  | nil => simp
  | cons a tl ih =>
    simp only [List.foldl_cons, List.length_cons]
    by_cases hv : a.valid = true
    · have e : fastStep vlim (raw, d) a = (raw ++ [truncateAttr vlim a], d) := by simp [fastStep, hv]
      rw [e]
      have := ih (raw ++ [truncateAttr vlim a]) d
      simp only [List.length_append, List.length_cons, List.length_nil] at this
      omega
    · have e : fastStep vlim (raw, d) a = (raw, d + 1) := by simp [fastStep, hv]
      rw [e]
      have := ih raw (d + 1); omega

/-- SetAttributes on the lazy slice is the per-attribute bounded-map insertion on its de-duplication, and the
raw slice never grows beyond a non-negative limit -/
theorem setAttributes_sim (lim : Limits) (raw new : List KV) (d : Nat)
    (hb : lim.attrCount ≥ 0 → (raw.length : Int) ≤ lim.attrCount) :
    (dedupe (setAttributes lim (raw, d) new).1, (setAttributes lim (raw, d) new).2) =
        new.foldl (refAttr lim) (dedupe raw, d) ∧
      (lim.attrCount ≥ 0 → ((setAttributes lim (raw, d) new).1.length : Int) ≤ lim.attrCount) := by
  unfold setAttributes
  by_cases h0 : lim.attrCount = 0
  · have hraw : raw = [] := by
      have := hb (by omega)
      exact List.eq_nil_of_length_eq_zero (by omega)
    subst hraw
    simp only [h0, if_true]
    refine ⟨?_, fun _ => by simp⟩
    have := refAttr_lim0_fold lim h0 new d
    simpa [dedupe] using this.symm
  · simp only [h0, if_false]
    by_cases hoc : lim.attrCount > 0 ∧ (raw.length : Int) + new.length > lim.attrCount
    · simp only [hoc, and_self, if_true]
      rw [overcap_fold lim new (dedupe raw, d) (keysNodup_dedupe raw) hoc.1]
      have hn := foldl_refAttr_keysNodup lim new (dedupe raw, d) (keysNodup_dedupe raw)
      refine ⟨by rw [dedupe_of_keysNodup _ hn], fun h => ?_⟩
      apply foldl_refAttr_length_le lim new (dedupe raw, d) (keysNodup_dedupe raw) h
      have := length_dedupe_le raw
      have := hb h
      simp only
      omega
    · simp only [hoc, if_false]
      have hroom : lim.attrCount < 0 ∨ (raw.length : Int) + new.length ≤ lim.attrCount := by omega
      refine ⟨(fast_fold lim new raw d hroom).symm, fun h => ?_⟩
      have := fast_fold_length lim.valueLen new raw d
      omega

/-! ### per-item caps, evicting queue vs "the most recent n of the history" -/

theorem capAttrs_eq_refCap (limit : Int) (attrs : List KV) : capAttrs limit attrs = refCap limit attrs := by
  unfold capAttrs refCap
  by_cases h0 : limit = 0
  · subst h0; simp
  · by_cases hneg : limit < 0
    · have : ¬ (limit > 0 ∧ (attrs.length : Int) > limit) := by omega
      simp [h0, hneg, this]
    · by_cases hgt : (attrs.length : Int) > limit
      · have : limit > 0 ∧ (attrs.length : Int) > limit := by omega
        simp [h0, hneg, this]
      · have h1 : ¬ (limit > 0 ∧ (attrs.length : Int) > limit) := by omega
        have h2 : attrs.length ≤ limit.toNat := by omega
        have h3 : attrs.length - limit.toNat = 0 := by omega
        simp [h0, hneg, h1, List.take_of_length_le h2, h3]

theorem mkEvent_eq (lim : Limits) (name : Bytes) (attrs : List KV) : mkEvent lim name attrs = refEvent lim name attrs := by
  simp [mkEvent, refEvent, capAttrs_eq_refCap]

theorem mkLink_eq (lim : Limits) (sc : SC) (attrs : List KV) : mkLink lim sc attrs = refLink lim sc attrs := by
  simp [mkLink, refLink, capAttrs_eq_refCap]

/-- the evicting queue holding the last `cap` items of `all` -/
def fifoOf {α : Type} (cap : Int) (all : List α) : EQ α := ⟨(lastN cap all).1, (lastN cap all).2⟩

theorem EQ_add_fifoOf {α : Type} (cap : Int) (all : List α) (v : α) :
    EQ.add cap (fifoOf cap all) v = fifoOf cap (all ++ [v]) := by
  unfold EQ.add fifoOf lastN
  by_cases h0 : cap = 0
  · subst h0; simp
  · by_cases hneg : cap < 0
    · have : ¬ cap > 0 := by omega
      simp [h0, hneg, this]
    · obtain ⟨c, rfl⟩ := Int.eq_ofNat_of_zero_le (by omega : 0 ≤ cap)
      have hc : 0 < c := by omega
      simp only [h0, hneg, if_false, Int.toNat_natCast, List.length_drop, List.length_append, List.length_cons,
        List.length_nil]
      by_cases hfull : c ≤ all.length
      · have h1 : ((all.length - (all.length - c) : Nat) : Int) = (c : Int) := by omega
        have h2 : (c : Int) > 0 := by omega
        simp only [h1, h2, and_self, if_true, List.drop_drop]
        have h3 : all.length + 1 - c = all.length - c + 1 := by omega
        have h4 : all.length - c + 1 ≤ all.length := by omega
        rw [h3, List.drop_append_of_le_length h4]
      · have h1 : ¬ ((c : Int) > 0 ∧ ((all.length - (all.length - c) : Nat) : Int) = (c : Int)) := by omega
        have h3 : all.length - c = 0 := by omega
        have h4 : all.length + 1 - c = 0 := by omega
        simp [h3, h4]
        omega

/-! ### status -/

theorem setStatus_refStatus (calls : List (Nat × Bytes)) (c : Nat) (d : Bytes) :
    setStatus (refStatus calls) c d = refStatus (calls ++ [(c, d)]) := by
  unfold setStatus refStatus
  simp only [List.foldl_append, List.foldl_cons, List.foldl_nil, List.filter_append]
  generalize List.foldl (fun m c => max m c.1) 0 calls = top
  by_cases h : top > c
  · have hm : max top c = top := by omega
    simp only [h, if_true, hm]
    by_cases h1 : top = 1
    · have hc : ¬ (c = 1) := by omega
      simp [h1, hc]
    · simp [h1]
  · have hm : max top c = c := by omega
    simp only [h, if_false, hm]
    by_cases h1 : c = 1
    · simp [h1]
    · simp [h1]

/-! ### the simulation between the recording span and the reference span -/

structure Sim (lim : Limits) (s : St) (r : RefSpan) : Prop where
  name : s.name = r.name
  status : s.status = refStatus r.statusCalls
  attrs : dedupe s.attrs = r.attrs
  dropped : s.droppedAttrs = r.droppedAttrs
  bound : lim.attrCount ≥ 0 → (s.attrs.length : Int) ≤ lim.attrCount
  events : s.events = fifoOf lim.eventCount r.events
  links : s.links = fifoOf lim.linkCount r.links
  ended : s.ended = r.ended

theorem sim_init (lim : Limits) (name : Bytes) : Sim lim (init name) (refInit name) := by
  constructor <;> simp [init, refInit, refStatus, dedupe, fifoOf, lastN]

theorem step_ended (lim : Limits) (s : St) (op : Op) (he : s.ended = true) : step lim s op = s := by
  cases op with
  | recordError err attrs => cases err <;> simp [step, he]
  | _ => simp [step, he]

theorem sim_step (lim : Limits) (s : St) (r : RefSpan) (op : Op) (h : Sim lim s r) :
    Sim lim (step lim s op) (refStep lim r op) := by
  by_cases he : s.ended = true
  · have her : r.ended = true := by rw [← h.ended]; exact he
    have h2 : refStep lim r op = r := by simp [refStep, her]
    rw [step_ended lim s op he, h2]; exact h
  · have he' : s.ended = false := by simpa using he
    have her : r.ended = false := by rw [← h.ended]; exact he'
    cases op with
    | setAttrs kvs =>
      by_cases hk : kvs = []
      · subst hk
        have h1 : step lim s (.setAttrs []) = s := by simp [step]
        have h2 : refStep lim r (.setAttrs []) = r := by
          unfold refStep
          rw [if_neg (by simp [her])]
          rfl
        rw [h1, h2]; exact h
      · have hk' : kvs.isEmpty = false := by simpa using hk
        have hs := setAttributes_sim lim s.attrs kvs s.droppedAttrs h.bound
        simp only [step, refStep, her, he', hk', Bool.false_eq_true, if_false]
        constructor
        · exact h.name
        · exact h.status
        · rw [← h.attrs, ← h.dropped]; exact congrArg Prod.fst hs.1
        · rw [← h.attrs, ← h.dropped]
          have h5 := congrArg Prod.snd hs.1
          exact h5
        · exact hs.2
        · exact h.events
        · exact h.links
        · rfl
    | addEvent name attrs =>
      simp only [step, refStep, her, he', Bool.false_eq_true, if_false]
      constructor
      · exact h.name
      · exact h.status
      · exact h.attrs
      · exact h.dropped
      · exact h.bound
      · simp only [h.events, mkEvent_eq, EQ_add_fifoOf]
      · exact h.links
      · rfl
    | addLink sc attrs =>
      by_cases hskip : (!sc.isValid && attrs.isEmpty && sc.ts == 0) = true
      · have h2 : (sc.isValid || !attrs.isEmpty || sc.ts != 0) = false := by
          cases hv : sc.isValid <;> cases ha : attrs.isEmpty <;> cases ht : (sc.ts == 0) <;> simp_all [bne]
        simp only [step, refStep, her, hskip, h2, if_true, Bool.false_eq_true, if_false]
        exact h
      · have h2 : (sc.isValid || !attrs.isEmpty || sc.ts != 0) = true := by
          cases hv : sc.isValid <;> cases ha : attrs.isEmpty <;> cases ht : (sc.ts == 0) <;> simp_all [bne]
        simp only [step, refStep, her, he', hskip, h2, if_true, Bool.false_eq_true, if_false]
        constructor
        · exact h.name
        · exact h.status
        · exact h.attrs
        · exact h.dropped
        · exact h.bound
        · exact h.events
        · simp only [h.links, mkLink_eq, EQ_add_fifoOf]
        · rfl
    | recordError err attrs =>
      cases err with
      | none => simp only [step, refStep, her, Bool.false_eq_true, if_false]; exact h
      | some tm =>
        obtain ⟨typ, msg⟩ := tm
        simp only [step, refStep, her, he', Bool.false_eq_true, if_false]
        constructor
        · exact h.name
        · exact h.status
        · exact h.attrs
        · exact h.dropped
        · exact h.bound
        · simp only [h.events, mkEvent_eq, EQ_add_fifoOf]
          rfl
        · exact h.links
        · rfl
    | setStatus code desc =>
      simp only [step, refStep, her, he', Bool.false_eq_true, if_false]
      constructor
      · exact h.name
      · simp only [h.status, setStatus_refStatus]
      · exact h.attrs
      · exact h.dropped
      · exact h.bound
      · exact h.events
      · exact h.links
      · rfl
    | setName name =>
      simp only [step, refStep, her, he', Bool.false_eq_true, if_false]
      constructor
      · rfl
      · exact h.status
      · exact h.attrs
      · exact h.dropped
      · exact h.bound
      · exact h.events
      · exact h.links
      · rfl
    | end_ =>
      simp only [step, refStep, her, he', Bool.false_eq_true, if_false]
      constructor
      · exact h.name
      · exact h.status
      · exact h.attrs
      · exact h.dropped
      · exact h.bound
      · exact h.events
      · exact h.links
      · rfl

theorem sim_run (lim : Limits) (ops : List Op) (s : St) (r : RefSpan) (h : Sim lim s r) :
    Sim lim (run lim s ops) (ops.foldl (refStep lim) r) := by
  induction ops generalizing s r with
  | nil => exact h
  | cons op tl ih => exact ih _ _ (sim_step lim s r op h)

theorem sim_snapshot (lim : Limits) (s : St) (r : RefSpan) (h : Sim lim s r) : snapshot s = refView lim r := by
  have ha : (if s.attrs.length > 0 then dedupe s.attrs else []) = r.attrs := by
    split
    · exact h.attrs
    · next hl =>
      have : s.attrs = [] := List.eq_nil_of_length_eq_zero (by omega)
      rw [← h.attrs, this]; rfl
  simp only [snapshot, refView, ha, h.name, h.status, h.dropped, h.events, h.links, fifoOf]

/-! ### well-formedness of every export (the second oracle predicate) -/

theorem valid_prefix_wf' (s : Bytes) (n : Nat) :
    ∀ c ∈ ((Utf8.chunks s).filter (fun c => !c.invalid)).take n, c.WF ∧ c.invalid = false := by
  intro c hc
  have h1 := List.mem_of_mem_take hc
  have h2 := List.mem_filter.mp h1
  exact ⟨Utf8.chunks_wf s c h2.1, by simpa using h2.2⟩

theorem strOK_refTrunc (limit : Int) (s : Bytes) : strOK limit (Trunc.refTrunc limit s) = true := by
  unfold strOK
  by_cases h : limit < 0 ∨ (s.length : Int) ≤ limit
  · rcases h with h | h
    · simp [h]
    · have : Trunc.refTrunc limit s = s := by simp [Trunc.refTrunc, h]
      simp [this, h]
  · have e : Trunc.refTrunc limit s =
        Utf8.flat (((Utf8.chunks s).filter (fun c => !c.invalid)).take limit.toNat) := by
      simp [Trunc.refTrunc, h]
    have hc := Utf8.chunks_flat _ (valid_prefix_wf' s limit.toNat)
    have h1 : (Utf8.runeCount (Trunc.refTrunc limit s) : Int) ≤ limit := by
      rw [e]; unfold Utf8.runeCount; rw [hc]
      simp only [List.length_take]
      omega
    have h2 : Utf8.validString (Trunc.refTrunc limit s) = true := by
      rw [e]; unfold Utf8.validString; rw [hc]
      simp only [List.all_eq_true]
      intro c hcm
      have := (valid_prefix_wf' s limit.toNat c hcm).2
      simp [this]
    simp [h1, h2]

theorem valueOK_refTruncValue (limit : Int) (v : Value) : valueOK limit (refTruncValue limit v) = true := by
  cases v <;> simp [refTruncValue, valueOK, strOK_refTrunc]

/-- a stored attribute: valid, value within the length limit -/
def AttrOK (lim : Limits) (a : KV) : Prop := a.valid = true ∧ valueOK lim.valueLen a.val = true

theorem attrOK_truncateAttr (lim : Limits) (a : KV) (hv : a.valid = true) : AttrOK lim (truncateAttr lim.valueLen a) := by
  rw [truncateAttr_eq]
  refine ⟨?_, valueOK_refTruncValue _ _⟩
  unfold KV.valid at hv ⊢
  simp only [Bool.and_eq_true, bne_iff_ne, ne_eq] at hv ⊢
  refine ⟨hv.1, ?_⟩
  cases hval : a.val <;> simp_all [refTruncValue]

theorem refAttr_allOK (lim : Limits) (st : List KV × Nat) (a : KV) (hn : KeysNodup st.1)
    (h : ∀ b ∈ st.1, AttrOK lim b) : ∀ b ∈ (refAttr lim st a).1, AttrOK lim b := by
  rw [refAttr_eq lim st a hn]
  split
  · exact h
  · next hv =>
    split
    · intro b hb
      rcases mem_upsert _ _ _ hb with rfl | hb
      · exact attrOK_truncateAttr lim a (by simpa using hv)
      · exact h b hb
    · exact h

theorem foldl_refAttr_allOK (lim : Limits) (new : List KV) (st : List KV × Nat) (hn : KeysNodup st.1)
    (h : ∀ b ∈ st.1, AttrOK lim b) : ∀ b ∈ (new.foldl (refAttr lim) st).1, AttrOK lim b := by
  induction new generalizing st with
  | nil => exact h
  | cons a tl ih => exact ih _ (keysNodup_refAttr lim st a hn) (refAttr_allOK lim st a hn h)

theorem refCap_length (limit : Int) (attrs : List KV) : within limit (refCap limit attrs).1.length = true := by
  unfold within refCap
  by_cases h : limit < 0
  · simp [h]
  · simp only [h, if_false, List.length_take, decide_false, Bool.false_or, decide_eq_true_eq]
    omega

/-- invariant of the reference span -/
structure RefInv (lim : Limits) (r : RefSpan) : Prop where
  nodup : KeysNodup r.attrs
  attrsOK : ∀ b ∈ r.attrs, AttrOK lim b
  bound : lim.attrCount ≥ 0 → (r.attrs.length : Int) ≤ lim.attrCount
  events : ∀ e ∈ r.events, within lim.perEvent e.attrs.length = true
  links : ∀ l ∈ r.links, within lim.perLink l.attrs.length = true

theorem refInv_init (lim : Limits) (name : Bytes) : RefInv lim (refInit name) := by
  constructor <;> simp [refInit, KeysNodup]

theorem refInv_step (lim : Limits) (r : RefSpan) (op : Op) (h : RefInv lim r) : RefInv lim (refStep lim r op) := by
  unfold refStep
  split
  · exact h
  · cases op with
    | setAttrs kvs =>
      exact ⟨foldl_refAttr_keysNodup lim kvs (r.attrs, r.droppedAttrs) h.nodup,
        foldl_refAttr_allOK lim kvs (r.attrs, r.droppedAttrs) h.nodup h.attrsOK,
        fun h0 => foldl_refAttr_length_le lim kvs (r.attrs, r.droppedAttrs) h.nodup h0 (h.bound h0),
        h.events, h.links⟩
    | addEvent name attrs =>
      refine ⟨h.nodup, h.attrsOK, h.bound, ?_, h.links⟩
      intro e he
      simp only [List.mem_append, List.mem_singleton] at he
      rcases he with he | rfl
      · exact h.events e he
      · exact refCap_length _ _
    | addLink sc attrs =>
      simp only
      split
      · refine ⟨h.nodup, h.attrsOK, h.bound, h.events, ?_⟩
        intro l hl
        simp only [List.mem_append, List.mem_singleton] at hl
        rcases hl with hl | rfl
        · exact h.links l hl
        · exact refCap_length _ _
      · exact h
    | recordError err attrs =>
      cases err with
      | none => exact h
      | some tm =>
        obtain ⟨typ, msg⟩ := tm
        refine ⟨h.nodup, h.attrsOK, h.bound, ?_, h.links⟩
        intro e he
        simp only [List.mem_append, List.mem_singleton] at he
        rcases he with he | rfl
        · exact h.events e he
        · exact refCap_length _ _
    | setStatus code desc => exact ⟨h.nodup, h.attrsOK, h.bound, h.events, h.links⟩
    | setName name => exact ⟨h.nodup, h.attrsOK, h.bound, h.events, h.links⟩
    | end_ => exact ⟨h.nodup, h.attrsOK, h.bound, h.events, h.links⟩

theorem refInv_run (lim : Limits) (ops : List Op) (r : RefSpan) (h : RefInv lim r) :
    RefInv lim (ops.foldl (refStep lim) r) := by
  induction ops generalizing r with
  | nil => exact h
  | cons op tl ih => exact ih _ (refInv_step lim r op h)

theorem keysUnique_of_keysNodup (l : List KV) (h : KeysNodup l) : keysUnique l = true := by
  induction l with
  | nil => rfl
  | cons a tl ih =>
    have ⟨h1, h2⟩ := List.pairwise_cons.mp h
    simp only [keysUnique, Bool.and_eq_true, Bool.not_eq_eq_eq_not, Bool.not_true, ih h2, and_true]
    rw [List.any_eq_false]
    intro b hb
    simp only [beq_iff_eq]
    exact fun hk => h1 b hb hk.symm

theorem refStatus_desc (calls : List (Nat × Bytes)) :
    ((refStatus calls).code == 1 || (refStatus calls).desc == []) = true := by
  unfold refStatus
  simp only
  split <;> simp_all

theorem lastN_within {α : Type} (cap : Int) (all : List α) : within cap (lastN cap all).1.length = true := by
  unfold within lastN
  by_cases h : cap < 0
  · simp [h]
  · simp only [h, if_false, List.length_drop, decide_false, Bool.false_or, decide_eq_true_eq]
    omega

theorem lastN_mem {α : Type} (cap : Int) (all : List α) (x : α) (h : x ∈ (lastN cap all).1) : x ∈ all := by
  unfold lastN at h
  split at h
  · exact h
  · exact List.mem_of_mem_drop h

theorem lastN_unbounded {α : Type} (cap : Int) (all : List α) (h : cap < 0) : (lastN cap all).2 = 0 := by
  simp [lastN, h]

/-- nothing is lost unaccounted: kept + evicted = everything ever added -/
theorem lastN_conservation {α : Type} (cap : Int) (all : List α) :
    (lastN cap all).1.length + (lastN cap all).2 = all.length := by
  unfold lastN
  split
  · simp
  · simp only [List.length_drop]; omega

theorem refView_wellFormed (lim : Limits) (r : RefSpan) (h : RefInv lim r) :
    exportWellFormed lim (refView lim r) = true := by
  have h1 := keysUnique_of_keysNodup r.attrs h.nodup
  have h2 : within lim.attrCount r.attrs.length = true := by
    unfold within
    by_cases hn : lim.attrCount < 0
    · simp [hn]
    · have := h.bound (by omega)
      simp [this]
  have h3 : r.attrs.all (fun a => a.valid && valueOK lim.valueLen a.val) = true := by
    rw [List.all_eq_true]
    intro a ha
    have := h.attrsOK a ha
    simp [this.1, this.2]
  have h4 := lastN_within lim.eventCount r.events
  have h5 := lastN_within lim.linkCount r.links
  have h6 : (lastN lim.eventCount r.events).1.all (fun e => within lim.perEvent e.attrs.length) = true := by
    rw [List.all_eq_true]
    intro e he
    exact h.events e (lastN_mem _ _ _ he)
  have h7 : (lastN lim.linkCount r.links).1.all (fun l => within lim.perLink l.attrs.length) = true := by
    rw [List.all_eq_true]
    intro l hl
    exact h.links l (lastN_mem _ _ _ hl)
  have h8 := refStatus_desc r.statusCalls
  have h9 : (lim.attrCount != 0 || r.attrs == []) = true := by
    by_cases h0 : lim.attrCount = 0
    · have := h.bound (by omega)
      have : r.attrs = [] := List.eq_nil_of_length_eq_zero (by omega)
      simp [this]
    · simp [h0]
  have h10 : decide (lim.eventCount < 0 → (lastN lim.eventCount r.events).2 = 0) = true := by
    simp only [decide_eq_true_eq]
    exact lastN_unbounded _ _
  have h11 : decide (lim.linkCount < 0 → (lastN lim.linkCount r.links).2 = 0) = true := by
    simp only [decide_eq_true_eq]
    exact lastN_unbounded _ _
  unfold exportWellFormed refView
  simp only [h1, h2, h3, h4, h5, h6, h7, h8, h9, h10, h11, Bool.and_self]

end Otel.C04
