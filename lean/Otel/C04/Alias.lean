/-
C04 — how the span gets its event attributes from the caller: Go slices and `append` on a small heap, mirroring

* trace/config.go  `attributeOption.applyEvent`: `c.attributes = append(c.attributes, []attribute.KeyValue(o)...)`
                   `NewEventConfig`: the fold of `applyEvent` over the options, starting from the nil slice;
* sdk/trace/span.go `addEvent`: `e.Attributes = c.Attributes()`, then `nil` / `e.Attributes[:limit]` by the per-event limit,
                   `RecordError`: the user's options, then `WithAttributes(exception.type, exception.message)`, one
                   `NewEventConfig` for the stack-trace flag (its result is dropped), then `addEvent`;
* sdk/trace/span.go `AddLink` (after the F44 repair): `l.Attributes = link.Attributes`, `nil` / `[:limit]` by the per-link limit,
                   then `l.Attributes = slices.Clone(l.Attributes)`; Start(WithLinks(…)) reaches the same code
                   (trace/config.go copies the Link structs, newRecordingSpan calls AddLink for each);
* a `WithAttributes(seg...)` option built from a caller's slice IS that slice (`attributeOption(attributes)`): same
  array, same spare capacity.

`append` writes IN PLACE when the capacity suffices and allocates otherwise; how much capacity a fresh array gets is
Go's business (`grow`, a parameter: every theorem holds for every growth policy). The exported events hold slice
headers; what a reader sees is what the arrays hold WHEN HE READS. Props (PropsCaller.lean) show that this machine
is indistinguishable from value semantics (`crun`): events and links never change after the call, and the caller's
arrays are never written by the span. Core Lean only.
-/
import Otel.C04.Model
import Otel.C04.Caller
namespace Otel.C04
open Otel

/-! ## value semantics of a caller script (the reference the heap machine is compared with) -/

/-- the span and the caller's arrays -/
structure CSt where
  span : St
  bufs : Bufs
deriving DecidableEq, Repr

/-- VALUE SEMANTICS of one script step: a span call sees the values its arguments have now and leaves the caller's
arrays alone; a caller write leaves the span alone -/
def cstep (lim : Limits) (cs : CSt) (c : COp) : CSt :=
  match c with
  | .write b off kvs => { cs with bufs := writeBuf cs.bufs b off kvs }
  | c => match resolve cs.bufs c with
    | some op => { cs with span := step lim cs.span op }
    | none => cs

def crun (lim : Limits) (cs : CSt) (cops : List COp) : CSt := cops.foldl (cstep lim) cs

def cinit (name : Bytes) (caps : List Nat) : CSt := ⟨init name, initBufs caps⟩

/-! ## the heap machine -/

/-- a Go slice header: array id, offset, length, capacity (counted from the offset) -/
structure Slice where
  arr : Nat
  off : Nat
  len : Nat
  cap : Nat
deriving DecidableEq, Repr

/-- arrays by id; ids `< nC` are the caller's arrays -/
abbrev Heap := List (List KV)

def Heap.read (h : Heap) (s : Slice) : List KV := readArr (h.getD s.arr []) s.off s.len

/-- a nil slice reads as empty -/
def Heap.readO (h : Heap) : Option Slice → List KV
  | none => []
  | some s => h.read s

/-- a fresh array for `xs`; its capacity is at least `len(xs)`, how much more is the runtime's choice -/
def alloc (grow : Nat → Nat) (h : Heap) (xs : List KV) : Heap × Slice :=
  let c := max xs.length (grow xs.length)
  (h ++ [xs ++ List.replicate (c - xs.length) zeroKV], ⟨h.length, 0, xs.length, c⟩)

/-- Go's `append(s, xs...)` -/
def goAppend (grow : Nat → Nat) (h : Heap) (s : Option Slice) (xs : List KV) : Heap × Option Slice :=
  match s with
  | none => if xs.isEmpty then (h, none) else ((alloc grow h xs).1, some (alloc grow h xs).2)
  | some s =>
    if s.len + xs.length ≤ s.cap then
      (h.modify s.arr (fun l => writeAt l (s.off + s.len) xs), some { s with len := s.len + xs.length })
    else ((alloc grow h (h.read s ++ xs)).1, some (alloc grow h (h.read s ++ xs)).2)

/-- the attributes of one `WithAttributes` option: a literal argument list (a private array without spare capacity:
a value) or a slice of a caller's array -/
inductive AOpt where
  | lit (kvs : List KV)
  | ref (s : Slice)
deriving DecidableEq, Repr

def AOpt.read (h : Heap) : AOpt → List KV
  | .lit kvs => kvs
  | .ref s => h.read s

/-- `attributeOption.applyEvent` -/
def applyEvent (grow : Nat → Nat) (hc : Heap × Option Slice) (o : AOpt) : Heap × Option Slice :=
  goAppend grow hc.1 hc.2 (o.read hc.1)

/-- `NewEventConfig` (attributes only): (heap afterwards, `c.attributes`) -/
def newEventConfig (grow : Nat → Nat) (h : Heap) (opts : List AOpt) : Heap × Option Slice :=
  opts.foldl (applyEvent grow) (h, none)

/-- an event as the span holds it: the attributes are a slice header -/
structure AEvent where
  name : Bytes
  attrs : Option Slice
  dropped : Nat
deriving DecidableEq, Repr

def sliceLen : Option Slice → Nat
  | none => 0
  | some s => s.len

/-- the per-event limit in addEvent: `nil` / `e.Attributes[:limit]` (same array, same capacity) / untouched -/
def capSlice (limit : Int) (a : Option Slice) : Option Slice × Nat :=
  if limit = 0 then (none, sliceLen a)
  else if limit > 0 ∧ (sliceLen a : Int) > limit then
    (a.map (fun s => { s with len := limit.toNat }), sliceLen a - limit.toNat)
  else (a, 0)

/-- `recordingSpan.addEvent` on (heap, event queue) -/
def aAddEvent (grow : Nat → Nat) (lim : Limits) (h : Heap) (q : EQ AEvent) (name : Bytes) (opts : List AOpt) :
    Heap × EQ AEvent :=
  let c := newEventConfig grow h opts
  let a := capSlice lim.perEvent c.2
  (c.1, q.add lim.eventCount ⟨name, a.1, a.2⟩)

/-- a link as the span holds it -/
structure ALink where
  sc : SC
  attrs : Option Slice
  dropped : Nat
deriving DecidableEq, Repr

/-- `slices.Clone(s)`: nil stays nil, otherwise a fresh array with the elements -/
def goClone (grow : Nat → Nat) (h : Heap) (a : Option Slice) : Heap × Option Slice :=
  match a with
  | none => (h, none)
  | some s => ((alloc grow h (h.read s)).1, some (alloc grow h (h.read s)).2)

/-- the heap machine: the heap, the span without its events' and links' storage (`span.events`, `span.links` are not
used), the event queue, the link queue -/
structure ASt where
  nC : Nat
  heap : Heap
  span : St
  events : EQ AEvent
  links : EQ ALink
deriving DecidableEq, Repr

/-- the slice `array_b[off : off+n]` (clamped to the array, as the harness does) whose capacity reaches the end of
the array -/
def segSlice (h : Heap) (s : Seg) : Slice :=
  ⟨s.b, s.off, min s.n ((h.getD s.b []).length - s.off), (h.getD s.b []).length - s.off⟩

/-- the option a caller's segment makes -/
def segOpt (a : ASt) (s : Seg) : AOpt :=
  if s.b < a.nC then .ref (segSlice a.heap s) else .lit []

/-- `recordingSpan.AddLink`; `arg` = (heap, link.Attributes) -/
def aLink (grow : Nat → Nat) (lim : Limits) (a : ASt) (sc : SC) (arg : Heap × Option Slice) : ASt :=
  if !sc.isValid && sliceLen arg.2 == 0 && sc.ts == 0 then a
  else if a.span.ended then a
  else
    let c := capSlice lim.perLink arg.2
    let cl := goClone grow arg.1 c.1
    { a with heap := cl.1, links := a.links.add lim.linkCount ⟨sc, cl.2, c.2⟩ }

/-- a literal argument list: nil when empty, else a private array without spare capacity -/
def litSlice (h : Heap) (kvs : List KV) : Heap × Option Slice :=
  if kvs.isEmpty then (h, none) else ((alloc (fun n => n) h kvs).1, some (alloc (fun n => n) h kvs).2)

def aEvent (grow : Nat → Nat) (lim : Limits) (a : ASt) (name : Bytes) (opts : List AOpt) : ASt :=
  if a.span.ended then a
  else
    let r := aAddEvent grow lim a.heap a.events name opts
    { a with heap := r.1, events := r.2 }

def aRecordError (grow : Nat → Nat) (lim : Limits) (a : ASt) (err : Option (Bytes × Bytes)) (opts : List AOpt) : ASt :=
  match err with
  | none => a
  | some (typ, msg) =>
    if a.span.ended then a
    else
      let opts' := opts ++ [.lit [⟨excTypeKey, .str typ⟩, ⟨excMsgKey, .str msg⟩]]
      -- `c := trace.NewEventConfig(opts...)` for `c.StackTrace()`: allocates, the result is dropped
      let h1 := (newEventConfig grow a.heap opts').1
      let r := aAddEvent grow lim h1 a.events excName opts'
      { a with heap := r.1, events := r.2 }

/-- what a reader of the heap sees in array cells -/
def derefEvent (h : Heap) (e : AEvent) : Event := ⟨e.name, h.readO e.attrs, e.dropped⟩
def derefLink (h : Heap) (l : ALink) : Link := ⟨l.sc, h.readO l.attrs, l.dropped⟩

def astep (grow : Nat → Nat) (lim : Limits) (a : ASt) : COp → ASt
  | .write b off kvs =>
    if b < a.nC then { a with heap := writeBuf a.heap b off kvs } else a
  | .plain (.addEvent name attrs) => aEvent grow lim a name [.lit attrs]
  | .plain (.recordError err attrs) => aRecordError grow lim a err [.lit attrs]
  | .plain (.addLink sc attrs) => aLink grow lim a sc (litSlice a.heap attrs)
  | .plain op => { a with span := step lim a.span op }
  | .addEventFrom name segs => aEvent grow lim a name (segs.map (segOpt a))
  | .recordErrorFrom err segs => aRecordError grow lim a err (segs.map (segOpt a))
  -- SetAttributes copies every attribute it stores (span.go: `a = truncateAttr(…); append(s.attributes, a)`)
  | .setAttrsFrom segs =>
    { a with span := step lim a.span (.setAttrs (readSegs (a.heap.take a.nC) segs)) }
  | .addLinkFrom sc seg =>
    aLink grow lim a sc (if seg.b < a.nC then (a.heap, some (segSlice a.heap seg)) else (a.heap, none))

def arun (grow : Nat → Nat) (lim : Limits) (a : ASt) (cops : List COp) : ASt := cops.foldl (astep grow lim) a

def ainit (name : Bytes) (caps : List Nat) : ASt :=
  { nC := caps.length, heap := initBufs caps, span := init name, events := ⟨[], 0⟩, links := ⟨[], 0⟩ }

/-- the span a reader sees NOW: event and link attributes are read from the heap as it is now -/
def aview (a : ASt) : St :=
  { a.span with events := ⟨a.events.queue.map (derefEvent a.heap), a.events.dropped⟩,
                links := ⟨a.links.queue.map (derefLink a.heap), a.links.dropped⟩ }

/-- AddLink before the F44 repair (no `slices.Clone`): the link keeps the caller's slice. Used only to show that the
theorems distinguish it. -/
def aLinkShared (lim : Limits) (a : ASt) (sc : SC) (arg : Heap × Option Slice) : ASt :=
  if !sc.isValid && sliceLen arg.2 == 0 && sc.ts == 0 then a
  else if a.span.ended then a
  else
    let c := capSlice lim.perLink arg.2
    { a with heap := arg.1, links := a.links.add lim.linkCount ⟨sc, c.1, c.2⟩ }

/-- the seeded shape (trace/config.go with a "no allocation for a single option" fast path): the first option's
slice is stored as it is. Used only to show that the theorems distinguish it. -/
def applyEventStore (grow : Nat → Nat) (hc : Heap × Option Slice) (o : AOpt) : Heap × Option Slice :=
  match hc.2, o with
  | none, .ref s => (hc.1, some s)
  | _, _ => applyEvent grow hc o

end Otel.C04
