/-
C04 — property theorems about the CALLER'S side of the span API (arguments are values): the attributes handed to
AddEvent / RecordError / SetAttributes / AddLink / Tracer.Start may be sub-slices of arrays the caller owns, re-uses
and keeps writing to; the exported span must hold exactly what was passed to each call, and the span must never write
to the caller's arrays. Helper lemmas: CallerLemmas.lean.
-/
import Otel.C04.Props
import Otel.C04.CallerLemmas
namespace Otel.C04
open Otel

/-! ## value semantics of caller scripts (`crun`, the model the driver runs on `spanb` lines) -/

/-- the span after a caller script is the span after the plain calls it amounts to, each with the argument values of
its moment … -/
theorem crun_span (lim : Limits) : ∀ (cops : List COp) (cs : CSt),
    (crun lim cs cops).span = run lim cs.span (resolveAll cs.bufs cops)
  | [], cs => rfl
  | c :: tl, cs => by
    have ih := crun_span lim tl (cstep lim cs c)
    simp only [crun, List.foldl_cons] at ih ⊢
    rw [ih]
    cases c <;> simp [cstep, resolve, resolveAll, run]

/-- … and the caller's arrays hold the caller's own writes and nothing else. -/
theorem crun_bufs (lim : Limits) : ∀ (cops : List COp) (cs : CSt),
    (crun lim cs cops).bufs = callerBufs cs.bufs cops
  | [], cs => rfl
  | c :: tl, cs => by
    have ih := crun_bufs lim tl (cstep lim cs c)
    simp only [crun, List.foldl_cons] at ih ⊢
    rw [ih]
    cases c <;> simp [cstep, resolve, callerBufs]

/-- **Arguments are values.** Whatever the caller writes into its arrays after the calls — any number of writes, to
any cells, including the cells and the spare capacity behind the slices it handed to AddEvent / RecordError /
SetAttributes / AddLink — the span is the same as without those writes. -/
theorem later_caller_writes_do_not_change_span (lim : Limits) (cs : CSt) (pre ws : List COp)
    (hw : ∀ c ∈ ws, c.isWrite = true) : (crun lim cs (pre ++ ws)).span = (crun lim cs pre).span := by
  simp only [crun, List.foldl_append]
  generalize List.foldl (cstep lim) cs pre = cs1
  induction ws generalizing cs1 with
  | nil => rfl
  | cons c tl ih =>
    simp only [List.foldl_cons]
    rw [ih (fun c' hc' => hw c' (by simp [hc'])) (cstep lim cs1 c)]
    have := hw c (by simp)
    cases c <;> simp_all [COp.isWrite, cstep]

/-- a span call never writes to the caller's arrays (no `append` into the spare capacity behind an argument, no
in-place truncation of an argument) -/
theorem span_calls_keep_caller_arrays (lim : Limits) (cs : CSt) (c : COp) (hc : c.isWrite = false) :
    (cstep lim cs c).bufs = cs.bufs := by
  cases c <;> simp_all [COp.isWrite, cstep, resolve]

/-- the export of a caller script is the reference export of its calls with the values of their moment, in the form
the driver evaluates on the implementation (`Spec.callerScriptOK`) -/
theorem caller_script_matches_reference (lim : Limits) (name : Bytes) (caps : List Nat) (cops : List COp) :
    Spec.callerScriptOK lim name caps cops
      (snapshot (crun lim (cinit name caps) cops).span) (snapshot (crun lim (cinit name caps) cops).span)
      (crun lim (cinit name caps) cops).bufs = true := by
  simp only [Spec.callerScriptOK, crun_span, crun_bufs, cinit, span_matches_reference, Bool.true_and, beq_self_eq_true]

/-! ## the heap machine (Go slices and `append` as trace/config.go and span.go use them) refines value semantics -/

/-- the simulation relation between the heap machine and value semantics -/
structure AInv (a : ASt) (cs : CSt) : Prop where
  view : aview a = cs.span
  bufs : a.heap.take a.nC = cs.bufs
  len : a.nC ≤ a.heap.length
  /-- every stored event's attributes live in an array that was allocated by the NewEventConfig call that made it -/
  fresh : ∀ e ∈ a.events.queue, ∀ s, e.attrs = some s → a.nC ≤ s.arr ∧ s.arr < a.heap.length
  /-- every stored link's attributes live in the array `slices.Clone` allocated for it -/
  freshL : ∀ l ∈ a.links.queue, ∀ s, l.attrs = some s → a.nC ≤ s.arr ∧ s.arr < a.heap.length

private theorem segOpt_ref (a : ASt) (segs : List Seg) :
    ∀ o ∈ segs.map (segOpt a), ∀ s, o = .ref s → s.arr < a.nC := by
  intro o ho s hs
  obtain ⟨sg, _, rfl⟩ := List.mem_map.mp ho
  unfold segOpt at hs
  split at hs
  · rename_i hb
    cases hs; exact hb
  · cases hs

private theorem segOpt_read (a : ASt) (segs : List Seg) (_hl : a.nC ≤ a.heap.length) :
    (segs.map (segOpt a)).flatMap (AOpt.read a.heap) = readSegs (a.heap.take a.nC) segs := by
  induction segs with
  | nil => rfl
  | cons sg tl ih =>
    simp only [List.map_cons, List.flatMap_cons, readSegs] at ih ⊢
    rw [ih]
    congr 1
    unfold segOpt readSeg
    split
    · rename_i hb
      simp only [AOpt.read, segSlice_read, readSeg, getD_take_of_lt a.heap a.nC sg.b hb]
    · rename_i hb
      simp only [AOpt.read, getD_take_of_ge a.heap a.nC sg.b (by omega), readArr, List.drop_nil, List.take_nil]

private theorem derefs_of_prefix (a : ASt) (h' : Heap) (hp : h'.take a.heap.length = a.heap)
    (fe : ∀ e ∈ a.events.queue, ∀ s, e.attrs = some s → a.nC ≤ s.arr ∧ s.arr < a.heap.length)
    (fl : ∀ l ∈ a.links.queue, ∀ s, l.attrs = some s → a.nC ≤ s.arr ∧ s.arr < a.heap.length) :
    a.events.queue.map (derefEvent h') = a.events.queue.map (derefEvent a.heap) ∧
    a.links.queue.map (derefLink h') = a.links.queue.map (derefLink a.heap) := by
  constructor
  · apply List.map_congr_left
    intro e he
    unfold derefEvent
    rw [readO_of_prefix a.heap h' hp e.attrs (fun s hs => (fe e he s hs).2)]
  · apply List.map_congr_left
    intro l hl
    unfold derefLink
    rw [readO_of_prefix a.heap h' hp l.attrs (fun s hs => (fl l hl s hs).2)]

/-- addEvent on a heap `h1` that extends the state's heap (RecordError has allocated in between) -/
private theorem aAddEvent_sim (grow : Nat → Nat) (lim : Limits) (a : ASt) (sp : St) (bf : Bufs) (hi : AInv a ⟨sp, bf⟩)
    (h1 : Heap) (hp1 : h1.take a.heap.length = a.heap) (name : Bytes) (opts : List AOpt)
    (ho : ∀ o ∈ opts, ∀ s, o = .ref s → s.arr < a.nC) :
    AInv { a with heap := (aAddEvent grow lim h1 a.events name opts).1,
                  events := (aAddEvent grow lim h1 a.events name opts).2 }
      ⟨{ sp with events := sp.events.add lim.eventCount (mkEvent lim name (opts.flatMap (AOpt.read a.heap))) }, bf⟩ := by
  obtain ⟨hview, hbufs, hlen, hfresh, hfreshL⟩ := hi
  simp only at hview hbufs
  subst hview
  have hl1 := length_le_of_prefix a.heap h1 hp1
  have ho1 : ∀ o ∈ opts, ∀ s, o = .ref s → s.arr < h1.length := fun o hm s hs => by
    have := ho o hm s hs; omega
  have hg := good_nec grow h1 opts ho1
  have hacc : opts.flatMap (AOpt.read h1) = opts.flatMap (AOpt.read a.heap) := by
    apply flatMap_congr'
    intro o hm
    exact AOpt.read_of_prefix a.heap h1 hp1 o (fun s hs => by have := ho o hm s hs; omega)
  rw [hacc] at hg
  generalize hacc' : opts.flatMap (AOpt.read a.heap) = acc at hg ⊢
  obtain ⟨hcr, hcd⟩ := good_capSlice lim.perEvent h1 _ acc hg
  have hp2 : (newEventConfig grow h1 opts).1.take a.heap.length = a.heap :=
    prefix_trans a.heap h1 _ hp1 hg.1
  have hl2 := length_le_of_prefix a.heap _ hp2
  obtain ⟨hold, holdL⟩ := derefs_of_prefix a _ hp2 hfresh hfreshL
  refine ⟨?_, ?_, ?_, ?_, ?_⟩
  · simp only [aview, aAddEvent]
    rw [EQ.add_map (derefEvent (newEventConfig grow h1 opts).1), hold, holdL]
    simp only [derefEvent, hcr, hcd, mkEvent]
  · simp only [aAddEvent]
    have : (newEventConfig grow h1 opts).1.take a.nC = ((newEventConfig grow h1 opts).1.take a.heap.length).take a.nC := by
      rw [List.take_take]; congr 1; omega
    rw [this, hp2]; exact hbufs
  · simp only [aAddEvent]; omega
  · intro e he s hs
    simp only [aAddEvent] at he ⊢
    rcases EQ.mem_add _ _ _ _ he with rfl | he
    · simp only at hs
      -- the new event: its slice is the (cut) slice NewEventConfig returned
      obtain ⟨s0, hc, harr⟩ := capSlice_arr _ _ _ hs
      obtain ⟨_, hm⟩ := hg
      rw [hc] at hm
      simp only at hm
      obtain ⟨hge, _, _, l, hl, _, _⟩ := hm
      have hlt : s0.arr < (newEventConfig grow h1 opts).1.length := by
        by_cases hlt : s0.arr < (newEventConfig grow h1 opts).1.length
        · exact hlt
        · rw [List.getElem?_eq_none (by omega)] at hl; cases hl
      rw [harr]
      exact ⟨by omega, hlt⟩
    · have := hfresh e he s hs
      exact ⟨this.1, by omega⟩
  · intro l hl s hs
    simp only [aAddEvent] at hl ⊢
    have := hfreshL l hl s hs
    exact ⟨this.1, by omega⟩

private theorem aview_ended (a : ASt) : (aview a).ended = a.span.ended := rfl

private theorem aEvent_sim (grow : Nat → Nat) (lim : Limits) (a : ASt) (cs : CSt) (hi : AInv a cs)
    (name : Bytes) (opts : List AOpt) (ho : ∀ o ∈ opts, ∀ s, o = .ref s → s.arr < a.nC) :
    AInv (aEvent grow lim a name opts)
      { cs with span := step lim cs.span (.addEvent name (opts.flatMap (AOpt.read a.heap))) } := by
  rcases cs with ⟨sp, bf⟩
  have hv : aview a = sp := hi.view
  have he : sp.ended = a.span.ended := by rw [← hv]; rfl
  unfold aEvent
  by_cases hend : a.span.ended = true
  · simp only [hend, if_true]
    rw [step_of_ended lim sp _ (he.trans hend)]; exact hi
  · simp only [hend, if_false, Bool.false_eq_true]
    rw [step_addEvent_recording lim sp _ _ (by rw [he]; simpa using hend)]
    exact aAddEvent_sim grow lim a sp bf hi a.heap (by simp) name opts ho

private theorem aRecordError_sim (grow : Nat → Nat) (lim : Limits) (a : ASt) (cs : CSt) (hi : AInv a cs)
    (err : Option (Bytes × Bytes)) (opts : List AOpt) (ho : ∀ o ∈ opts, ∀ s, o = .ref s → s.arr < a.nC) :
    AInv (aRecordError grow lim a err opts)
      { cs with span := step lim cs.span (.recordError err (opts.flatMap (AOpt.read a.heap))) } := by
  rcases cs with ⟨sp, bf⟩
  have hv : aview a = sp := hi.view
  have he : sp.ended = a.span.ended := by rw [← hv]; rfl
  unfold aRecordError
  cases err with
  | none => simp only [step]; exact hi
  | some tm =>
    obtain ⟨typ, msg⟩ := tm
    by_cases hend : a.span.ended = true
    · simp only [hend, if_true]
      rw [step_of_ended lim sp _ (he.trans hend)]; exact hi
    · simp only [hend, if_false, Bool.false_eq_true]
      rw [step_recordError_recording lim sp _ _ _ (by rw [he]; simpa using hend)]
      have ho' : ∀ o ∈ opts ++ [AOpt.lit [⟨excTypeKey, .str typ⟩, ⟨excMsgKey, .str msg⟩]], ∀ s, o = .ref s → s.arr < a.nC := by
        intro o hm s hs
        rcases List.mem_append.mp hm with hm | hm
        · exact ho o hm s hs
        · simp only [List.mem_singleton] at hm; subst hm; cases hs
      have ho1 : ∀ o ∈ opts ++ [AOpt.lit [⟨excTypeKey, .str typ⟩, ⟨excMsgKey, .str msg⟩]], ∀ s, o = .ref s → s.arr < a.heap.length :=
        fun o hm s hs => by have := ho' o hm s hs; have := hi.len; omega
      have hp1 := (good_nec grow a.heap _ ho1).1
      have := aAddEvent_sim grow lim a sp bf hi _ hp1 excName _ ho'
      simpa [errorAttrs, AOpt.read] using this

private theorem aLink_sim (grow : Nat → Nat) (lim : Limits) (a : ASt) (cs : CSt) (hi : AInv a cs) (sc : SC)
    (arg : Heap × Option Slice) (attrs : List KV) (hp : arg.1.take a.heap.length = a.heap)
    (hr : arg.1.readO arg.2 = attrs) (hl : sliceLen arg.2 = attrs.length) :
    AInv (aLink grow lim a sc arg) { cs with span := step lim cs.span (.addLink sc attrs) } := by
  rcases cs with ⟨sp, bf⟩
  have hv : aview a = sp := hi.view
  have he : sp.ended = a.span.ended := by rw [← hv]; rfl
  have hc : (!sc.isValid && sliceLen arg.2 == 0 && sc.ts == 0) = (!sc.isValid && attrs.isEmpty && sc.ts == 0) := by
    rw [hl]; cases attrs <;> simp
  unfold aLink
  rw [hc]
  by_cases hk : (!sc.isValid && attrs.isEmpty && sc.ts == 0) = true
  · simp only [hk, if_true]
    rw [step_addLink_skip lim sp sc attrs hk]; exact hi
  · simp only [hk, if_false, Bool.false_eq_true]
    by_cases hend : a.span.ended = true
    · simp only [hend, if_true]
      rw [step_of_ended lim sp _ (he.trans hend)]; exact hi
    · simp only [hend, if_false, Bool.false_eq_true]
      rw [step_addLink_recording lim sp sc attrs hk (by rw [he]; simpa using hend)]
      obtain ⟨hview, hbufs, hlen, hfresh, hfreshL⟩ := hi
      simp only at hview hbufs
      subst hview
      obtain ⟨hcr, hcd⟩ := capSlice_read lim.perLink arg.1 arg.2 (by rw [hl, hr])
      rw [hr] at hcr hcd
      obtain ⟨hp2, hrd, hfr, hle⟩ := goClone_spec grow a.heap arg.1 hp (capSlice lim.perLink arg.2).1
      have hl1 := length_le_of_prefix a.heap arg.1 hp
      obtain ⟨hold, holdL⟩ := derefs_of_prefix a _ hp2 hfresh hfreshL
      refine ⟨?_, ?_, ?_, ?_, ?_⟩
      · simp only [aview]
        rw [EQ.add_map (derefLink (goClone grow arg.1 (capSlice lim.perLink arg.2).1).1), hold, holdL]
        simp only [derefLink, hrd, hcr, hcd, mkLink]
      · simp only
        have : (goClone grow arg.1 (capSlice lim.perLink arg.2).1).1.take a.nC =
            ((goClone grow arg.1 (capSlice lim.perLink arg.2).1).1.take a.heap.length).take a.nC := by
          rw [List.take_take]; congr 1; omega
        rw [this, hp2]; exact hbufs
      · simp only; omega
      · intro e hm s hs
        have := hfresh e hm s hs
        exact ⟨this.1, by simp only; omega⟩
      · intro l hm s hs
        simp only at hm ⊢
        rcases EQ.mem_add _ _ _ _ hm with rfl | hm
        · have := hfr s hs
          exact ⟨by omega, this.2⟩
        · have := hfreshL l hm s hs
          exact ⟨this.1, by omega⟩

private theorem aLink_nC (grow : Nat → Nat) (lim : Limits) (a : ASt) (sc : SC) (arg : Heap × Option Slice) :
    (aLink grow lim a sc arg).nC = a.nC := by
  unfold aLink
  split
  · rfl
  · split <;> rfl

private theorem aEvent_nC (grow : Nat → Nat) (lim : Limits) (a : ASt) (name : Bytes) (opts : List AOpt) :
    (aEvent grow lim a name opts).nC = a.nC := by
  unfold aEvent; split <;> rfl

private theorem aRecordError_nC (grow : Nat → Nat) (lim : Limits) (a : ASt) (err : Option (Bytes × Bytes))
    (opts : List AOpt) : (aRecordError grow lim a err opts).nC = a.nC := by
  unfold aRecordError
  split
  · rfl
  · split <;> rfl

/-- one step of the heap machine against one step of value semantics -/
theorem astep_sim (grow : Nat → Nat) (lim : Limits) (a : ASt) (cs : CSt) (c : COp) (hi : AInv a cs) :
    AInv (astep grow lim a c) (cstep lim cs c) ∧ (astep grow lim a c).nC = a.nC := by
  have hview := hi.view
  cases c with
  | write b off kvs =>
    simp only [astep, cstep]
    by_cases hb : b < a.nC
    · simp only [hb, if_true, and_true]
      have hE : a.events.queue.map (derefEvent (writeBuf a.heap b off kvs)) = a.events.queue.map (derefEvent a.heap) := by
        -- stored events live in arrays ≥ nC: a write to a caller's array is not seen through them
        apply List.map_congr_left
        intro e he
        unfold derefEvent
        cases hes : e.attrs with
        | none => rfl
        | some s =>
          have := hi.fresh e he s hes
          simp only [Heap.readO, Heap.read, writeBuf, getD_modify_ne a.heap _ b s.arr (by omega)]
      have hL : a.links.queue.map (derefLink (writeBuf a.heap b off kvs)) = a.links.queue.map (derefLink a.heap) := by
        apply List.map_congr_left
        intro l hl
        unfold derefLink
        cases hes : l.attrs with
        | none => rfl
        | some s =>
          have := hi.freshL l hl s hes
          simp only [Heap.readO, Heap.read, writeBuf, getD_modify_ne a.heap _ b s.arr (by omega)]
      refine ⟨hi.view ▸ ?_, ?_, ?_, ?_, ?_⟩
      · simp only [aview, hE, hL]
      · simp only [writeBuf]
        rw [take_modify_of_lt _ a.heap b a.nC hb, hi.bufs]
      · simp only [writeBuf, List.length_modify]; exact hi.len
      · intro e he s hs
        simp only [writeBuf, List.length_modify]
        exact hi.fresh e he s hs
      · intro l hl s hs
        simp only [writeBuf, List.length_modify]
        exact hi.freshL l hl s hs
    · simp only [hb, if_false, and_true]
      refine ⟨hi.view, ?_, hi.len, hi.fresh, hi.freshL⟩
      simp only [writeBuf]
      rw [modify_of_length_le _ cs.bufs b (by rw [← hi.bufs, List.length_take]; have := hi.len; omega)]
      exact hi.bufs
  | addEventFrom name segs =>
    simp only [astep, cstep, resolve]
    refine ⟨?_, aEvent_nC grow lim a _ _⟩
    have := aEvent_sim grow lim a cs hi name _ (segOpt_ref a segs)
    rwa [segOpt_read a segs hi.len, hi.bufs] at this
  | recordErrorFrom err segs =>
    simp only [astep, cstep, resolve]
    refine ⟨?_, aRecordError_nC grow lim a _ _⟩
    have := aRecordError_sim grow lim a cs hi err _ (segOpt_ref a segs)
    rwa [segOpt_read a segs hi.len, hi.bufs] at this
  | setAttrsFrom segs =>
    simp only [astep, cstep, resolve, and_true]
    refine ⟨?_, hi.bufs, hi.len, hi.fresh, hi.freshL⟩
    simp only [aview, hi.bufs]
    rw [← hi.view, aview]
    exact (step_queues_irrel lim a.span _ _ _ (fun _ _ h => by cases h) (fun _ _ h => by cases h)
      (fun _ _ h => by cases h)).symm
  | addLinkFrom sc seg =>
    simp only [astep, cstep, resolve]
    refine ⟨?_, aLink_nC grow lim a _ _⟩
    by_cases hb : seg.b < a.nC
    · simp only [hb, if_true]
      have := aLink_sim grow lim a cs hi sc (a.heap, some (segSlice a.heap seg)) (readSeg a.heap seg)
        List.take_length (segSlice_read a.heap seg) (segSlice_len a.heap seg)
      have hrs : readSeg cs.bufs seg = readSeg a.heap seg := by
        rw [← hi.bufs]; simp only [readSeg, getD_take_of_lt a.heap a.nC seg.b hb]
      rw [hrs]; exact this
    · simp only [hb, if_false]
      have := aLink_sim grow lim a cs hi sc (a.heap, none) [] List.take_length rfl rfl
      have hrs : readSeg cs.bufs seg = [] := by
        rw [← hi.bufs]
        simp only [readSeg, getD_take_of_ge a.heap a.nC seg.b (by omega), readArr, List.drop_nil, List.take_nil]
      rw [hrs]; exact this
  | plain op =>
    have hother : (∀ n at_, op ≠ .addEvent n at_) → (∀ er at_, op ≠ .recordError er at_) →
        (∀ sc at_, op ≠ .addLink sc at_) →
        AInv { a with span := step lim a.span op } { cs with span := step lim cs.span op } := by
      intro h1 h2 h3
      refine ⟨?_, hi.bufs, hi.len, hi.fresh, hi.freshL⟩
      simp only [aview]
      rw [← hi.view, aview]
      exact (step_queues_irrel lim a.span _ _ op h1 h2 h3).symm
    cases op with
    | addEvent name attrs =>
      simp only [astep, cstep, resolve]
      refine ⟨?_, aEvent_nC grow lim a _ _⟩
      have := aEvent_sim grow lim a cs hi name [.lit attrs] (by intro o ho s hs; simp at ho; subst ho; cases hs)
      simpa [AOpt.read] using this
    | recordError err attrs =>
      simp only [astep, cstep, resolve]
      refine ⟨?_, aRecordError_nC grow lim a _ _⟩
      have := aRecordError_sim grow lim a cs hi err [.lit attrs] (by intro o ho s hs; simp at ho; subst ho; cases hs)
      simpa [AOpt.read] using this
    | setAttrs kvs => exact ⟨by simpa [astep, cstep, resolve] using hother (fun _ _ h => by cases h) (fun _ _ h => by cases h) (fun _ _ h => by cases h), rfl⟩
    | addLink sc at_ =>
      simp only [astep, cstep, resolve]
      obtain ⟨h1, h2, h3⟩ := litSlice_spec a.heap at_
      exact ⟨aLink_sim grow lim a cs hi sc _ at_ h1 h2 h3, aLink_nC grow lim a _ _⟩
    | setStatus cd d => exact ⟨by simpa [astep, cstep, resolve] using hother (fun _ _ h => by cases h) (fun _ _ h => by cases h) (fun _ _ h => by cases h), rfl⟩
    | setName n => exact ⟨by simpa [astep, cstep, resolve] using hother (fun _ _ h => by cases h) (fun _ _ h => by cases h) (fun _ _ h => by cases h), rfl⟩
    | end_ => exact ⟨by simpa [astep, cstep, resolve] using hother (fun _ _ h => by cases h) (fun _ _ h => by cases h) (fun _ _ h => by cases h), rfl⟩

theorem ainit_inv (name : Bytes) (caps : List Nat) : AInv (ainit name caps) (cinit name caps) :=
  ⟨rfl, by simp only [ainit, cinit, initBufs]; exact List.take_of_length_le (by simp), by simp [ainit, initBufs],
    by intro e he; simp [ainit] at he, by intro l hl; simp [ainit] at hl⟩

/-- the simulation relation holds along every script -/
theorem arun_inv (grow : Nat → Nat) (lim : Limits) : ∀ (cops : List COp) (a : ASt) (cs : CSt), AInv a cs →
    AInv (arun grow lim a cops) (crun lim cs cops) ∧ (arun grow lim a cops).nC = a.nC := by
  intro cops
  induction cops with
  | nil => intro a cs hi; exact ⟨hi, rfl⟩
  | cons c tl ih =>
    intro a cs hi
    obtain ⟨h1, h2⟩ := astep_sim grow lim a cs c hi
    obtain ⟨h3, h4⟩ := ih _ _ h1
    simp only [arun, crun, List.foldl_cons] at h3 h4 ⊢
    exact ⟨h3, h4.trans h2⟩

/-- **The option / config code refines value semantics.** For EVERY growth policy of `append`, all limits and every
caller script, the heap machine — `WithAttributes` options that ARE the caller's slices, `NewEventConfig` folding
`append` over them from the nil slice, RecordError's extra option and extra `NewEventConfig`, addEvent's
`e.Attributes[:limit]`, AddLink's `[:limit]` then `slices.Clone` (F44 repair), events and links stored as slice headers
and READ AFTER the caller's last write — shows exactly the
span of value semantics, and the caller's arrays hold exactly the caller's own writes: no stored event shares an
array with the caller or with another event's later `append`, and nothing is appended into a caller's spare capacity. -/
theorem heap_machine_refines_values (grow : Nat → Nat) (lim : Limits) (name : Bytes) (caps : List Nat) (cops : List COp) :
    aview (arun grow lim (ainit name caps) cops) = (crun lim (cinit name caps) cops).span ∧
    (arun grow lim (ainit name caps) cops).heap.take caps.length = (crun lim (cinit name caps) cops).bufs := by
  obtain ⟨hi, hn⟩ := arun_inv grow lim cops _ _ (ainit_inv name caps)
  refine ⟨hi.view, ?_⟩
  have := hi.bufs
  rw [hn] at this
  exact this

/-- hence the span the heap machine exports is the reference export of the calls with the values of their moment -/
theorem heap_machine_matches_reference (grow : Nat → Nat) (lim : Limits) (name : Bytes) (caps : List Nat) (cops : List COp) :
    snapshot (aview (arun grow lim (ainit name caps) cops)) =
      Spec.refExport lim name (resolveAll (initBufs caps) cops) := by
  rw [(heap_machine_refines_values grow lim name caps cops).1, crun_span, cinit, span_refines_reference]

/-- **Ownership.** After any caller script, under any growth policy and any limits, the span holds NO pointer into
caller-owned memory: every event's and every link's attribute slice lives in an array the SDK allocated itself
(array id beyond the caller's arrays; span attributes are copied element by element and are values in the machine),
and the caller's arrays hold the caller's own writes and nothing else — no span method (AddEvent, RecordError,
SetAttributes, AddLink, Start with WithAttributes / WithLinks) stores or writes through a caller's slice. -/
theorem span_holds_no_pointer_into_caller_memory (grow : Nat → Nat) (lim : Limits) (name : Bytes) (caps : List Nat)
    (cops : List COp) :
    (∀ e ∈ (arun grow lim (ainit name caps) cops).events.queue, ∀ s, e.attrs = some s → caps.length ≤ s.arr) ∧
    (∀ l ∈ (arun grow lim (ainit name caps) cops).links.queue, ∀ s, l.attrs = some s → caps.length ≤ s.arr) ∧
    (arun grow lim (ainit name caps) cops).heap.take caps.length = callerBufs (initBufs caps) cops := by
  obtain ⟨hi, hn⟩ := arun_inv grow lim cops _ _ (ainit_inv name caps)
  have hn' : (arun grow lim (ainit name caps) cops).nC = caps.length := hn
  refine ⟨fun e he s hs => ?_, fun l hl s hs => ?_, ?_⟩
  · have := (hi.fresh e he s hs).1; omega
  · have := (hi.freshL l hl s hs).1; omega
  · have := hi.bufs
    rw [hn', crun_bufs] at this
    exact this

/-- non-vacuity: the scratch-buffer idiom and the attribute-table idiom on the heap machine. Two events built in the
same re-used array keep their own attributes; RecordError from `table[0:1]` (spare capacity behind it) leaves
`table[1]`, `table[2]` alone, so the event built from `table[1:3]` afterwards holds what the caller put there. -/
example :
    let a := arun (fun n => n + 2) ⟨-1, -1, -1, -1, -1, -1⟩ (ainit [0x6e] [2, 3])
      [.write 0 0 [⟨[0x61], .int 1⟩, ⟨[0x62], .int 2⟩], .addEventFrom [0x31] [⟨0, 0, 1⟩, ⟨0, 1, 1⟩],
       .write 0 0 [⟨[0x63], .int 3⟩, ⟨[0x64], .int 4⟩], .addEventFrom [0x32] [⟨0, 0, 2⟩],
       .write 1 0 [⟨[0x61], .int 5⟩, ⟨[0x62], .int 6⟩, ⟨[0x63], .int 7⟩],
       .recordErrorFrom (some ([0x54], [0x6d])) [⟨1, 0, 1⟩], .addEventFrom [0x33] [⟨1, 1, 2⟩]]
    (aview a).events.queue =
      [⟨[0x31], [⟨[0x61], .int 1⟩, ⟨[0x62], .int 2⟩], 0⟩, ⟨[0x32], [⟨[0x63], .int 3⟩, ⟨[0x64], .int 4⟩], 0⟩,
       ⟨excName, [⟨[0x61], .int 5⟩, ⟨excTypeKey, .str [0x54]⟩, ⟨excMsgKey, .str [0x6d]⟩], 0⟩,
       ⟨[0x33], [⟨[0x62], .int 6⟩, ⟨[0x63], .int 7⟩], 0⟩] ∧
    a.heap.take 2 = [[⟨[0x63], .int 3⟩, ⟨[0x64], .int 4⟩], [⟨[0x61], .int 5⟩, ⟨[0x62], .int 6⟩, ⟨[0x63], .int 7⟩]] := by
  decide

/-- the theorems are about `append` from the NIL slice: the variant that stores the first option's slice instead
(`applyEventStore`, "no allocation for a single option") is NOT value semantics on the same two idioms — the recorded
event follows the caller's later write, and RecordError's second option is appended into the caller's table. -/
theorem store_variant_is_not_value_semantics :
    let h0 : Heap := [[⟨[0x61], .int 1⟩, ⟨[0x62], .int 2⟩, ⟨[0x63], .int 3⟩]]
    let opts : List AOpt := [.ref ⟨0, 0, 1, 3⟩, .lit [⟨excTypeKey, .str [0x54]⟩, ⟨excMsgKey, .str [0x6d]⟩]]
    let good := opts.foldl (applyEvent id) (h0, none)
    let bad := opts.foldl (applyEventStore id) (h0, none)
    good.1.take 1 = h0 ∧ bad.1.take 1 ≠ h0 ∧
    Heap.readO (writeBuf good.1 0 0 [⟨[0x7a], .int 9⟩]) good.2 = Heap.readO good.1 good.2 ∧
    Heap.readO (writeBuf bad.1 0 0 [⟨[0x7a], .int 9⟩]) bad.2 ≠ Heap.readO bad.1 bad.2 := by
  decide

/-- F44 (repaired in /repo 48fa451): AddLink WITHOUT `slices.Clone` (`aLinkShared`) is not value semantics — the
recorded link follows the caller's later write to the array it passed as Link.Attributes; with the clone it does not. -/
theorem shared_link_variant_is_not_value_semantics :
    let a0 := ainit [0x6e] [2]
    let a1 : ASt := { a0 with heap := writeBuf a0.heap 0 0 [⟨[0x61], .int 1⟩, ⟨[0x62], .int 2⟩] }
    let lim : Limits := ⟨-1, -1, -1, -1, -1, -1⟩
    let good := aLink id lim a1 ⟨1, 1, 0⟩ (a1.heap, some (segSlice a1.heap ⟨0, 0, 2⟩))
    let bad := aLinkShared lim a1 ⟨1, 1, 0⟩ (a1.heap, some (segSlice a1.heap ⟨0, 0, 2⟩))
    let w : ASt → ASt := fun a => { a with heap := writeBuf a.heap 0 0 [⟨[0x7a], .int 9⟩] }
    (aview (w good)).links = (aview good).links ∧ (aview (w bad)).links ≠ (aview bad).links := by
  decide

end Otel.C04
