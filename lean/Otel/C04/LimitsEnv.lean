/-
C04 — where the six span limits come from: sdk/trace/span_limits.go `NewSpanLimits`, sdk/internal/env `firstInt` /
`IntEnvOr` and the key functions, sdk/trace/provider.go `NewTracerProvider` (`spanLimits: NewSpanLimits()` first, then the
options in order), `WithSpanLimits` (every field `<= 0` replaced by its DEFAULT, not by the environment),
`WithRawSpanLimits` (as given). Core Lean only. External: the process environment (eight byte strings; unset = empty,
as os.Getenv reports).
-/
import Otel.C04.Types
namespace Otel.C04
open Otel

def isDigit (b : UInt8) : Bool := 0x30 ≤ b && b ≤ 0x39
def digitsVal (l : Bytes) : Nat := l.foldl (fun acc b => acc * 10 + (b.toNat - 0x30)) 0

/-- strconv.Atoi (int = int64): optional sign, at least one ASCII digit, nothing else, int64 range -/
def atoi (s : Bytes) : Option Int :=
  let (neg, ds) := match s with
    | 0x2d :: t => (true, t)
    | 0x2b :: t => (false, t)
    | t => (false, t)
  if ds.isEmpty || !ds.all isDigit then none
  else
    let v : Int := if neg then -(digitsVal ds : Int) else (digitsVal ds : Int)
    if v < -9223372036854775808 ∨ v > 9223372036854775807 then none else some v

/-- env.firstInt: the FIRST key whose value is non-empty decides — its integer, or the default when Atoi rejects it
(the next key is not consulted then) -/
def firstInt (dflt : Int) : List Bytes → Int
  | [] => dflt
  | v :: rest => if v.isEmpty then firstInt dflt rest else match atoi v with
    | none => dflt
    | some n => n

/-- env.IntEnvOr -/
def intEnvOr (v : Bytes) (dflt : Int) : Int :=
  if v.isEmpty then dflt else match atoi v with
    | none => dflt
    | some n => n

/-- the eight variables -/
structure LimEnv where
  spanValueLen : Bytes
  valueLen : Bytes
  spanAttrCount : Bytes
  attrCount : Bytes
  eventCount : Bytes
  perEvent : Bytes
  linkCount : Bytes
  perLink : Bytes
deriving DecidableEq, Repr

def defaultLimits : Limits := ⟨128, -1, 128, 128, 128, 128⟩

/-- NewSpanLimits -/
def newSpanLimits (e : LimEnv) : Limits :=
  { valueLen := firstInt defaultLimits.valueLen [e.spanValueLen, e.valueLen]
    attrCount := firstInt defaultLimits.attrCount [e.spanAttrCount, e.attrCount]
    eventCount := intEnvOr e.eventCount defaultLimits.eventCount
    linkCount := intEnvOr e.linkCount defaultLimits.linkCount
    perEvent := intEnvOr e.perEvent defaultLimits.perEvent
    perLink := intEnvOr e.perLink defaultLimits.perLink }

inductive LOpt where
  /-- WithSpanLimits -/
  | cooked (l : Limits)
  /-- WithRawSpanLimits -/
  | raw (l : Limits)
deriving DecidableEq, Repr

def orDefault (v d : Int) : Int := if v ≤ 0 then d else v

/-- the body of WithSpanLimits before the closure is built -/
def cook (l : Limits) : Limits :=
  { valueLen := orDefault l.valueLen defaultLimits.valueLen
    attrCount := orDefault l.attrCount defaultLimits.attrCount
    eventCount := orDefault l.eventCount defaultLimits.eventCount
    perEvent := orDefault l.perEvent defaultLimits.perEvent
    linkCount := orDefault l.linkCount defaultLimits.linkCount
    perLink := orDefault l.perLink defaultLimits.perLink }

def applyLOpt (_cur : Limits) : LOpt → Limits
  | .cooked l => cook l
  | .raw l => l

/-- NewTracerProvider: the limits every span of the provider's tracers is created under -/
def providerSpanLimits (e : LimEnv) (opts : List LOpt) : Limits := opts.foldl applyLOpt (newSpanLimits e)

namespace Spec

/-- one variable -/
def envInt (v : Bytes) : Option (Option Int) := if v.isEmpty then none else some (atoi v)

/-- "the specific variable if it is set (its integer, or the default when it is not an integer), else the generic one
likewise, else the default" -/
def twoKeys (specific generic : Bytes) (d : Int) : Int :=
  match envInt specific with
  | some r => r.getD d
  | none => match envInt generic with
    | some r => r.getD d
    | none => d

def oneKey (v : Bytes) (d : Int) : Int :=
  match envInt v with
  | some r => r.getD d
  | none => d

/-- the documented rule: the last limits option replaces everything (raw: as given; WithSpanLimits: non-positive
fields become the defaults); without an option every limit comes from its environment variable(s), else its default -/
def limitsFrom (e : LimEnv) (opts : List LOpt) : Limits :=
  match opts.getLast? with
  | some (.raw l) => l
  | some (.cooked l) =>
    ⟨if l.attrCount ≤ 0 then 128 else l.attrCount, if l.valueLen ≤ 0 then -1 else l.valueLen,
     if l.eventCount ≤ 0 then 128 else l.eventCount, if l.linkCount ≤ 0 then 128 else l.linkCount,
     if l.perEvent ≤ 0 then 128 else l.perEvent, if l.perLink ≤ 0 then 128 else l.perLink⟩
  | none =>
    ⟨twoKeys e.spanAttrCount e.attrCount 128, twoKeys e.spanValueLen e.valueLen (-1), oneKey e.eventCount 128,
     oneKey e.linkCount 128, oneKey e.perEvent 128, oneKey e.perLink 128⟩

def providerLimitsOK (e : LimEnv) (opts : List LOpt) (observed : Limits) : Bool := observed == limitsFrom e opts

end Spec
end Otel.C04
